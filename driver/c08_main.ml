(* C08 model driver: same case lines and the same output format as harness/c08.c *)
let nslot = 4
let show_res f = function Ok a -> f a | Fault x -> "FAULT:" ^ fault_name x
let i_init = 23130

(* arbitrary-size hex <-> Z (boolean targets are 64 bit) *)
let z_of_hex (h : string) : z =
  let bits = ref [] in   (* most significant first *)
  String.iter (fun c -> let v = hv c in
                List.iter (fun k -> bits := ((v lsr k) land 1) :: !bits) [3; 2; 1; 0]) h;
  let msb_first = List.rev !bits in
  let rec drop = function 0 :: t -> drop t | l -> l in
  match drop msb_first with
  | [] -> Z0
  | _ :: t -> Zpos (List.fold_left (fun p b -> if b = 1 then XI p else XO p) XH t)
let hex_of_z (v : z) : string =
  match v with
  | Z0 -> "0"
  | Zneg _ -> "NEG"
  | Zpos p ->
    let rec bits p = match p with XH -> [1] | XO q -> 0 :: bits q | XI q -> 1 :: bits q in   (* lsb first *)
    let rec groups l = match l with
      | [] -> []
      | a :: b :: c :: d :: t -> (a + 2 * b + 4 * c + 8 * d) :: groups t
      | l -> [List.fold_right (fun b acc -> b + 2 * acc) l 0] in
    String.concat "" (List.rev_map (fun d -> String.make 1 hexdig.[d]) (groups (bits p)))

let split_on c s = if s = "" then [] else String.split_on_char c s

let parse_opt (f : string) : opt =
  match String.split_on_char ':' f with
  | [sh; lg; fl; slot; mask] ->
    { o_short = z_of_int (int_of_string ("0x" ^ sh)); o_long = zbytes_of_hex lg;
      o_flags = z_of_int (int_of_string fl);
      o_slot = (if slot = "-" then None else Some (nat_of_int (int_of_string slot mod nslot)));
      o_mask = z_of_int (int_of_string mask) }
  | _ -> failwith "bad-option"

let show_word = function None -> "N" | Some w -> hex_of_zbytes w
let show_list = function
  | None -> "N"
  | Some ws ->
    let rec upto = function Some w :: t -> (hex_of_zbytes w ^ ";") :: upto t | _ -> [] in
    "(" ^ String.concat "" (upto ws) ^ ")"

let show_outcome strs argc rm o =
  let (tag, pre, s) = match o with Done (p, s) -> ("ok", p, s) | Helped (p, s) -> ("help", p, s) in
  let sto = s.st_sto in
  let str_of sid = try hex_of_zbytes (List.nth strs (int_of_nat sid)) with _ -> "BADPTR" in
  Printf.sprintf "%s bad=%d helps=%d fl=%d B=%s I=%s S=%s L=%s A=%s argv=%s" tag
    (int_of_z s.st_bad) (int_of_nat s.st_helps) ((if pre then 1 else 0) + (if rm then 2 else 0))
    (String.concat "," (List.map hex_of_z sto.sb))
    (String.concat "," (List.map (fun v -> string_of_int (int_of_z v)) sto.si))
    (String.concat "," (List.map show_word sto.ss))
    (String.concat "," (List.map show_list sto.sl))
    (if sto.sa = [] then "-" else
       String.concat ";" (List.map (fun (k, v) -> string_of_int (int_of_nat k) ^ ":" ^ show_word v) sto.sa))
    (String.concat "," (List.map (function None -> "N" | Some sid -> str_of sid) s.st_argv))

(* spellings: F:xx  B:hex  A:xx:hex  S:xx:hex  f:hex  e:hex:hex  s:hex:hex  b:hex:hex  Rs:xx:hex;hex  Rl:hex:hex;hex  W:hex *)
let byte_of_hex h = z_of_int (int_of_string ("0x" ^ h))
let parse_spelling (t : string) : spelling =
  match String.split_on_char ':' t with
  | ["F"; x] -> ShortFlag (byte_of_hex x)
  | ["B"; xs] -> Bundle (zbytes_of_hex xs)
  | ["A"; x; v] -> ShortAttached (byte_of_hex x, zbytes_of_hex v)
  | ["S"; x; v] -> ShortSep (byte_of_hex x, zbytes_of_hex v)
  | ["f"; l] -> LongFlag (zbytes_of_hex l)
  | ["e"; l; v] -> LongEq (zbytes_of_hex l, zbytes_of_hex v)
  | ["s"; l; v] -> LongSep (zbytes_of_hex l, zbytes_of_hex v)
  | ["b"; l; v] -> BoolWord (zbytes_of_hex l, zbytes_of_hex v)
  | ["Rs"; x; ws] -> ArgListRest (ByShort (byte_of_hex x), List.map zbytes_of_hex (String.split_on_char ';' ws))
  | ["Rl"; l; ws] -> ArgListRest (ByLong (zbytes_of_hex l), List.map zbytes_of_hex (String.split_on_char ';' ws))
  | ["W"; w] -> Word (zbytes_of_hex w)
  | _ -> failwith "bad-spelling"

let run = function
  | ["parse"; pre; rm; allow; ret; bad0; binit; table; argv] ->
    let tbl = if table = "-" then [] else List.map parse_opt (split_on ',' table) in
    let strs = List.map zbytes_of_hex (split_on ',' argv) in
    let argc = List.length strs in
    let rmb = rm <> "0" in
    let rep v = List.init nslot (fun _ -> v) in
    let sto = { sb = rep (z_of_hex binit); si = rep (z_of_int i_init); ss = rep None; sl = rep None; sa = [] } in
    let s0 = init_st (nat_of_int argc) sto (z_of_int (int_of_string bad0)) in
    let env p = { e_tbl = tbl; e_strs = strs; e_argc = nat_of_int argc; e_pre = p; e_rm = rmb;
                  e_allow = z_of_int (int_of_string allow); e_ret = (ret <> "0") } in
    let r = if pre = "2" then parse_twice (env true) s0 else parse (env (pre <> "0")) s0 in
    show_res (show_outcome strs argc rmb) r
  | ["spell"; pre; rm; allow; ret; bad0; binit; table; argv; spell] ->
    (* the ideal reading of the spelling list, printed like an outcome (argv up to its first NULL) *)
    let tbl = if table = "-" then [] else List.map parse_opt (split_on ',' table) in
    let strs = List.map zbytes_of_hex (split_on ',' argv) in
    let sps = if spell = "-" then [] else List.map parse_spelling (split_on ',' spell) in
    if List.tl strs <> render sps then "DRIVER-ERROR:render-differs"
    else if not (sps_ok tbl sps && names_ok tbl) then "DRIVER-ERROR:side-condition-violated"
    else begin
      let rmb = rm <> "0" in
      let rep v = List.init nslot (fun _ -> v) in
      let sto = { sb = rep (z_of_hex binit); si = rep (z_of_int i_init); ss = rep None; sl = rep None; sa = [] } in
      let (sto', ws) =
        if pre = "2" then ideal false tbl sps (fst (ideal true tbl sps sto))
        else ideal (pre <> "0") tbl sps sto in
      let argc = List.length strs in
      let fl_pre = (pre = "1" && argc <= 1) in
      let args = if rmb && pre <> "1" && argc > 1 then List.hd strs :: ws else strs in
      Printf.sprintf "ok bad=%s helps=0 fl=%d B=%s I=%s S=%s L=%s A=%s argv=%s,N" bad0
        ((if fl_pre then 1 else 0) + (if rmb then 2 else 0))
        (String.concat "," (List.map hex_of_z sto'.sb))
        (String.concat "," (List.map (fun v -> string_of_int (int_of_z v)) sto'.si))
        (String.concat "," (List.map show_word sto'.ss))
        (String.concat "," (List.map show_list sto'.sl))
        (if sto'.sa = [] then "-" else
           String.concat ";" (List.map (fun (k, v) -> string_of_int (int_of_nat k) ^ ":" ^ show_word v) sto'.sa))
        (String.concat "," (List.map hex_of_zbytes args))
    end
  | ["numwords"; s] -> string_of_int (int_of_nat (num_words (zbytes_of_hex s)))
  | ["getword"; k; s] -> show_word (get_word (nat_of_int (int_of_string k)) (zbytes_of_hex s))
  | ["strtol"; s] -> string_of_int (int_of_z (to_int (strtol0 (zbytes_of_hex s))))
  | _ -> "DRIVER-ERROR:bad-case"
let () = main_loop run
