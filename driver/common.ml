(* Glue shared by all model drivers: conversions between OCaml ints/strings and the
   extracted Coq number types, hex coding of byte and cell lists, line loop. *)
let rec pos_of_int n =
  if n <= 1 then XH else if n land 1 = 0 then XO (pos_of_int (n lsr 1)) else XI (pos_of_int (n lsr 1))
let rec int_of_pos = function XH -> 1 | XO p -> 2 * int_of_pos p | XI p -> 2 * int_of_pos p + 1
let z_of_int n = if n = 0 then Z0 else if n > 0 then Zpos (pos_of_int n) else Zneg (pos_of_int (-n))
let int_of_z = function Z0 -> 0 | Zpos p -> int_of_pos p | Zneg p -> - (int_of_pos p)
let n_of_int n = if n = 0 then N0 else Npos (pos_of_int n)
let int_of_n = function N0 -> 0 | Npos p -> int_of_pos p
let nat_of_int n = let rec go acc k = if k = 0 then acc else go (S acc) (k - 1) in go O n
let int_of_nat n = let rec go acc = function O -> acc | S m -> go (acc + 1) m in go 0 n

let hexdig = "0123456789abcdef"
let hex_of_ints (l : int list) : string =
  if l = [] then "-" else
  let b = Buffer.create 64 in
  List.iter (fun v -> Buffer.add_char b hexdig.[(v lsr 4) land 15]; Buffer.add_char b hexdig.[v land 15]) l;
  Buffer.contents b
let hv c = match c with
  | '0'..'9' -> Char.code c - 48 | 'a'..'f' -> Char.code c - 87 | 'A'..'F' -> Char.code c - 55
  | _ -> failwith "hex"
(* "-" is the empty list; "??" is an uninitialised cell (only in cell lists) *)
let cells_of_hex (s : string) : int option list =
  if s = "-" then [] else
  let n = String.length s / 2 in
  List.init n (fun i -> if s.[2*i] = '?' then None else Some (hv s.[2*i] * 16 + hv s.[2*i+1]))
let ints_of_hex (s : string) : int list =
  List.map (function Some v -> v | None -> failwith "uninit in byte list") (cells_of_hex s)
let hex_of_cells (l : int option list) : string =
  if l = [] then "-" else
  String.concat "" (List.map (function None -> "??" | Some v -> Printf.sprintf "%02x" (v land 255)) l)

let zbytes_of_hex s = List.map z_of_int (ints_of_hex s)
let zcells_of_hex s = List.map (function None -> None | Some v -> Some (z_of_int v)) (cells_of_hex s)
let hex_of_zbytes l = hex_of_ints (List.map int_of_z l)
let hex_of_zcells l = hex_of_cells (List.map (function None -> None | Some v -> Some (int_of_z v)) l)

let fault_name = function
  | OOB_read -> "OOB_read" | OOB_write -> "OOB_write" | Uninit_read -> "Uninit_read"
  | Null_deref -> "Null_deref" | Use_after_free -> "Use_after_free" | Bad_free -> "Bad_free"
  | Out_of_fuel -> "Out_of_fuel" | Int_overflow -> "Int_overflow" | Abort -> "Abort"

let show_res f = function Ok a -> f a | Fault x -> "FAULT:" ^ fault_name x
let b2s b = if b then "1" else "0"

let split_ws (s : string) : string list =
  List.filter (fun x -> x <> "") (String.split_on_char ' ' (String.trim s))

(* run f on every line of the file named by argv[1]; one output line per case: "#k <result>" *)
let main_loop (f : string list -> string) =
  let ic = open_in Sys.argv.(1) in
  let k = ref 0 in
  (try
     while true do
       let line = input_line ic in
       let out = (try f (split_ws line) with
                  | Stack_overflow -> "FAULT:Out_of_fuel"
                  | Failure m -> "DRIVER-ERROR:" ^ m
                  | Not_found -> "DRIVER-ERROR:notfound") in
       Printf.printf "#%d %s\n" !k out;
       incr k
     done
   with End_of_file -> ());
  close_in ic
