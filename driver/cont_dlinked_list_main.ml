(* Model driver of family `cont_dlinked_list`: runs a history of class dlinked_list through the
   extracted POINTER-LEVEL model (coq/Cont/DListModel.v) and prints it in the format documented
   at the top of harness/cont.c: the A part (return value + read-back through get / iterator /
   to_array / get_keys ..., all computed by the model's own operations on its node store) and the
   B part (structure dump `D len= next=[..] prev=[..] hp= tn=`).  Cases of other classes print
   `SKIP`. *)
exception Model_fault of fault
let ok = function Ok a -> a | Fault f -> raise (Model_fault f)

let key_of_string (s : string) : key = List.init (String.length s) (fun i -> z_of_int (Char.code s.[i]))
let string_of_key (k : key) : string =
  String.concat "" (List.map (fun z -> String.make 1 (Char.chr ((int_of_z z) land 255))) k)

let next_id = ref 0
let mk_elem (s : string) : elem =
  let e = { eid = nat_of_int !next_id; ekey = key_of_string s } in incr next_id; e
let mk_opt (s : string) : elem option = if s = "_" then None else Some (mk_elem s)

let pb b = if b then "T" else "F"
let pe = function None -> "_" | Some e -> string_of_int (int_of_nat e.eid)
let ptx = function None -> "_" | Some k -> string_of_key k
let ppr = function None -> "_" | Some (k, v) -> string_of_key k ^ "=" ^ string_of_key v
let plist f l = "[" ^ String.concat "," (List.map f l) ^ "]"
(* a walk that was cut by the harness's bound shows a trailing '!' *)
let plist_cut f (l, cut) = "[" ^ String.concat "," (List.map f l @ (if cut then ["!"] else [])) ^ "]"

let show_out = function
  | OBool b -> pb b
  | OInt z -> string_of_int (int_of_z z)
  | OElem e -> pe e
  | OElems l -> plist pe l
  | ODup (n, s, g) -> string_of_int (int_of_z n) ^ "/" ^ plist ptx s ^ "/" ^ plist ptx g
  | OText t -> ptx t
  | OPair p -> ppr p
  | OTexts l -> plist string_of_key l
  | OPairs l -> plist (fun p -> ppr (Some p)) l
  | OUnit -> "-"

let parse_lop (a : string list) : lop =
  match a with
  | ["append"; k] -> LAppend (mk_elem k)
  | ["prepend"; k] -> LPrepend (mk_elem k)
  | ["insert"; k] -> LInsert (mk_elem k)
  | ["insert_at"; i; k] -> LInsertAt (z_of_int (int_of_string i), mk_elem k)
  | ["remove"; k] -> LRemove (mk_opt k)
  | ["remove_at"; i] -> LRemoveAt (z_of_int (int_of_string i))
  | ["get"; i] -> LGet (z_of_int (int_of_string i))
  | ["index"; k] -> LIndex (mk_elem k)
  | ["find"; k] -> LFind (mk_opt k)
  | ["contains"; k] -> LContains (mk_opt k)
  | ["count"] -> LCount
  | ["reverse"] -> LReverse
  | ["to_array"] -> LToArray
  | ["iterate"] -> LIterate
  | ["dup"] -> LDup
  | _ -> failwith "bad-op"

let parse_vop (a : string list) : vop =
  match a with
  | ["insert"; k] -> VInsert (mk_elem k)
  | ["remove"; k] -> VRemove (mk_elem k)
  | ["find"; k] -> VFind (mk_elem k)
  | ["contains"; k] -> VContains (mk_elem k)
  | ["count"] -> VCount
  | ["iterate"] -> VIterate
  | ["to_array"] -> VToArray
  | _ -> failwith "bad-op"

let parse_mop (a : string list) : mop =
  match a with
  | ["set"; k; v] -> MSet (key_of_string k, key_of_string v)
  | ["get"; k] -> MGet (key_of_string k)
  | ["remove"; k] -> MRemove (key_of_string k)
  | ["has_key"; k] -> MHasKey (key_of_string k)
  | ["has_value"; v] -> MHasValue (key_of_string v)
  | ["count"] -> MCount
  | ["get_keys"] -> MGetKeys
  | ["get_values"] -> MGetValues
  | ["get_pairs"] -> MGetPairs
  | ["iterate"] -> MIterate
  | ["mutk"; t] -> MMutK (key_of_string t)
  | ["mutv"; t] -> MMutV (key_of_string t)
  | ["delk"] -> MDelK
  | ["delv"] -> MDelV
  | ["newpair"] -> MNewPair
  | _ -> failwith "bad-op"

let sane n = n >= 0 && n <= 4000
(* fresh iterator sweep as harness/cont.c does it: at most n + 3 elements, then '!' *)
let sweep st o n =
  let (l, exhausted) = ok (dl_sweep (nat_of_int ((if sane n then n else 0) + 3)) st (dl_iterator o)) in
  (l, not exhausted)

(* ---- level A read-back, computed by the model's operations ---- *)
let list_rb (st, o) : string =
  let n = int_of_z o.dlen in
  let g = if sane n then List.init (2 * n + 2) (fun k -> ok (dl_get st o (z_of_int (k - n - 1)))) else [] in
  Printf.sprintf "n=%d g=%s i=%s" n (plist pe g) (plist_cut pe (sweep st o n))

(* vector: elements are shown by key text if the vector currently stores that object *)
let inset : (int, unit) Hashtbl.t = Hashtbl.create 64
let seen : (int, int) Hashtbl.t = Hashtbl.create 64
let pv = function
  | None -> "_"
  | Some e ->
    let id = int_of_nat e.eid in
    if Hashtbl.mem inset id then begin
      Hashtbl.replace seen id (1 + (try Hashtbl.find seen id with Not_found -> 0));
      string_of_key e.ekey
    end else "?"
let seen_all_once () =
  Hashtbl.fold (fun id _ acc -> acc && (try Hashtbl.find seen id with Not_found -> 0) = 1) inset true
  && Hashtbl.fold (fun id c acc -> acc && (c = 0 || Hashtbl.mem inset id)) seen true
let vec_rb (st, o) : string =
  let n = int_of_z o.dlen in
  Hashtbl.reset seen;
  let i = plist_cut pv (sweep st o n) in
  let ok1 = seen_all_once () in
  Hashtbl.reset seen;
  let a = plist pv (ok (dl_to_array st o)) in
  let ok2 = seen_all_once () in
  Printf.sprintf "n=%d i=%s a=%s m=%s" n i a (if ok1 && ok2 then "ok" else "BAD")
let show_vout = function
  | OElem e -> pv e
  | OElems l -> plist pv l
  | o -> show_out o

let map_rb (st, o) : string =
  let n = int_of_z o.dlen in
  let pr p = ppr (Some p) in
  let ps = ok (dl_get_pairs st o) in
  Printf.sprintf "n=%d k=%s v=%s p=%s i=%s" n
    (plist string_of_key (List.map fst ps)) (plist string_of_key (List.map snd ps))
    (plist pr ps) (plist_cut ppr (sweep st o n))

(* ---- level B ---- *)
let pflag = function None -> "-" | Some true -> "1" | Some false -> "0"
let bdump px (st, o) : string =
  let d = ok (dl_dump st o) in
  Printf.sprintf "D len=%d next=%s prev=%s hp=%s tn=%s" (int_of_z d.b_len)
    (plist_cut px (d.b_next, d.b_next_cut)) (plist_cut px (d.b_prev, d.b_prev_cut)) (pflag d.b_hp) (pflag d.b_tn)

let history step parse show rb px after init (ops : string list) : string =
  let b = Buffer.create 256 in
  let s = ref init in
  (try
     List.iter (fun o ->
         let op = parse (String.split_on_char ':' o) in
         let (s', r) = ok (step !s op) in
         s := s';
         let rs = show r in
         after op r;
         Buffer.add_string b (rs ^ " " ^ rb s' ^ "|" ^ bdump px s' ^ " ; ")) ops;
     (* tear-down: the container deletes its items *)
     let (st, o) = !s in
     ignore (ok (dl_done st o));
     Buffer.add_string b "end"
   with Model_fault f -> Buffer.add_string b ("FAULT:" ^ fault_name f));
  Buffer.contents b

(* the harness's bookkeeping of which objects the vector stores *)
let vec_after (op : vop) (r : out) =
  match op, r with
  | VInsert e, OBool true -> Hashtbl.replace inset (int_of_nat e.eid) ()
  | VRemove _, OElem (Some e) -> Hashtbl.remove inset (int_of_nat e.eid)
  | _ -> ()

let run = function
  | [iface; cls; ops] ->
    if cls <> "dlinked_list" then "SKIP" else begin
      next_id := 0;
      Hashtbl.reset inset; Hashtbl.reset seen;
      let ol = String.split_on_char ';' ops in
      match iface with
      | "list" -> history dl_list_step parse_lop show_out list_rb pe (fun _ _ -> ()) e_init ol
      | "vector" -> history dl_vec_step parse_vop show_vout vec_rb pe vec_after e_init ol
      | "map" -> history dl_map_step parse_mop show_out map_rb ppr (fun _ _ -> ()) m_init ol
      | _ -> "DRIVER-ERROR:bad-interface"
    end
  | _ -> "DRIVER-ERROR:bad-case"
let () = main_loop run
