(* C09 / C11 model driver: same case lines and the same output format as harness/c09.c.
   The expansion of values is a parameter of the Conf model (property C10), and the environment, directory listings and
   the output of commands belong to the outside world: the tokens E D O only prepare that world, and the operations x
   (spifconf_shell_expand on a text) and s (%dirscan against the directory) are decided on the implementation side
   (sanitizers, termination inside the block, the listing read back) - the ideal answer is "ok". *)
let show_fault x = "FAULT:" ^ fault_name x
exception Faulted of string

let str_of_ascii (s : string) : z list = List.init (String.length s) (fun i -> z_of_int (Char.code s.[i]))
let b2i b = if b then 1 else 0

let show_event (e : event) : string option =
  match e with
  | EvCall (HUser k, a, sin, sout) ->
    let tail = Printf.sprintf "%d>%d" (int_of_z sin) (int_of_z sout) in
    Some (match a with
        | HBegin -> Printf.sprintf "%db%s" (int_of_z k) tail
        | HEnd -> Printf.sprintf "%de%s" (int_of_z k) tail
        | HText s ->
          (* a text line that consists of the begin or end marker byte alone reaches the handler as the same string as the call *)
          (match List.map int_of_z s with
           | [1] -> Printf.sprintf "%db%s" (int_of_z k) tail
           | [2] -> Printf.sprintf "%de%s" (int_of_z k) tail
           | _ -> Printf.sprintf "%dt%s:%s" (int_of_z k) (hex_of_zbytes s) tail))
  | _ -> None
let is_spawn = function EvSpawn _ -> true | _ -> false

let do_hist (toks : string list) : string =
  (* files first *)
  let files = List.filter_map (fun t ->
      if t <> "" && t.[0] = 'F' then
        match String.index_opt t '=' with
        | Some i -> Some (str_of_ascii (String.sub t 1 (i - 1)), zbytes_of_hex (String.sub t (i + 1) (String.length t - i - 1)))
        | None -> failwith "file"
      else None) toks in
  let chain = List.concat_map (fun t ->
      if t <> "" && t.[0] = 'C' then begin
        let cn = int_of_string (String.sub t 1 (String.length t - 1)) in
        List.init cn (fun j ->
            let body = Printf.sprintf "<lv-1.0>\nbegin foo\nt%d\n" j ^ (if j + 1 < cn then Printf.sprintf "%%include c%d\n" (j + 1) else "") ^ Printf.sprintf "u%d\nend\n" j in
            (str_of_ascii (Printf.sprintf "c%d" j), str_of_ascii body))
      end else []) toks in
  let files = files @ chain in
  let total = List.fold_left (fun a (_, d) -> a + List.length d) 0 files in
  let fuel = nat_of_int (4 * total + 100000) in
  (* T: no temporary directory; P<n>: its name has n characters and spiftool_temp_file's name for %preproc
     ("<dir>/Eterm-preproc-XXXXXX") must fit a 256-byte buffer *)
  let tmp_ok = not (List.mem "T" toks) &&
               List.for_all (fun t -> not (t <> "" && t.[0] = 'P') || int_of_string (String.sub t 1 (String.length t - 1)) + 21 <= 255) toks in
  let prog = str_of_ascii "lv" in
  let st = ref (iconf0, Z0) in
  let nexth = ref 0 in
  let out = Buffer.create 256 in
  let apply o =
    match istep files tmp_ok prog !st o with
    | Ok ((c, w), r) -> st := (c, w); r
    | Fault f -> raise (Faulted (show_fault f)) in
  let id_of = function RId i -> int_of_z i | _ -> failwith "id" in
  (try
     List.iter (fun t ->
         if t = "" then () else
           let a = String.sub t 1 (String.length t - 1) in
           match t.[0] with
           | 'F' | 'T' | 'C' | 'E' | 'D' | 'O' | 'P' -> ()
           | 'x' -> Buffer.add_string out "x:ok "
           | 's' -> Buffer.add_string out "s:ok "
           | 'i' -> ignore (apply OInit); Buffer.add_string out "i "
           | 'f' ->
             ignore (apply OFree);
             let (c, _) = !st in
             let tabs = (c.cxt.t_mem <> None) || (c.cst.t_mem <> None) || (c.ftb.t_mem <> None) || (c.bit.t_mem <> None) in
             Buffer.add_string out (Printf.sprintf "f:vars=%d,tabs=%d " (b2i (c.vars <> [])) (b2i tabs))
           | 'r' ->
             let r = apply (ORegCtx (zbytes_of_hex a, z_of_int !nexth)) in
             incr nexth;
             Buffer.add_string out (Printf.sprintf "r=%d " (id_of r))
           | 'R' ->
             let n = int_of_string a in
             let last = ref 0 in
             for _ = 1 to n do
               let r = apply (ORegCtx (str_of_ascii (Printf.sprintf "g%d" !nexth), z_of_int !nexth)) in
               incr nexth; last := id_of r
             done;
             Buffer.add_string out (Printf.sprintf "R=%d " !last)
           | 'b' ->
             let n = int_of_string a in
             let last = ref 0 in
             for j = 0 to n - 1 do
               last := id_of (apply (ORegBuiltin (str_of_ascii (Printf.sprintf "b%d" j))))
             done;
             Buffer.add_string out (Printf.sprintf "b=%d " !last)
           | 'p' ->
             let (c0, _) = !st in
             let r = apply (OParse (fuel, str_of_ascii a)) in
             let (c1, _) = !st in
             (match r with
              | RParse (evs, ret) ->
                let shown = List.filter_map show_event evs in
                let sp = List.length (List.filter is_spawn evs) in
                Buffer.add_string out (Printf.sprintf "p[%s]ret=%d,fi=%d,ci=%d,open=%d,sp=%d " (String.concat "," shown)
                                         (b2i ret) (int_of_z c1.ftb.t_idx) (int_of_z c1.cst.t_idx)
                                         (int_of_z c1.nopen - int_of_z c0.nopen) sp)
              | _ -> failwith "parse")
           | 'q' ->
             (match apply (OParse (fuel, str_of_ascii "a")) with
              | RParse (_, _) -> Buffer.add_string out "q:ok "
              | _ -> failwith "parse")
           | 'o' ->
             (match apply (OOpen (str_of_ascii a)) with
              | ROpen ok -> Buffer.add_string out (Printf.sprintf "o=%d " (b2i ok))
              | _ -> failwith "open")
           | 'd' ->
             let (c, _) = !st in
             Buffer.add_string out
               (Printf.sprintf "d=%d/%d,%d/%d,%d/%d,%d/%d,v%d " (int_of_z c.cxt.t_idx) (int_of_z c.cxt.t_cnt)
                  (int_of_z c.cst.t_idx) (int_of_z c.cst.t_cnt) (int_of_z c.ftb.t_idx) (int_of_z c.ftb.t_cnt)
                  (int_of_z c.bit.t_idx) (int_of_z c.bit.t_cnt) (List.length c.vars))
           | 'l' ->
             let (c, _) = !st in
             Buffer.add_string out (Printf.sprintf "l=%d " (int_of_z c.live + int_of_z (vstore_blocks c.vars)))
           | _ -> failwith "op") toks;
     Buffer.contents out
   with Faulted m -> m)

let do_find flen dlen comps =
  let fl = int_of_string flen and dl = int_of_string dlen in
  let cs = if comps = "-" then [] else List.map int_of_string (String.split_on_char ',' comps) in
  (* the harness fills a component with 'p' and ends it in '/' when its length is odd and >= 2;
     the code looks at the byte n-1 where n is the length as a short *)
  let comp cl =
    let n = int_of_z (s16 (z_of_int cl)) in
    (z_of_int cl, (cl >= 2 && cl land 1 = 1 && n - 1 = cl - 1)) in
  match ifind (z_of_int fl) (if dl < 0 then None else Some (z_of_int dl)) (List.map comp cs) with
  | Ok None -> "find=NULL"
  | Ok (Some o) -> if int_of_z o.ff_found < 0 then "find=NULL" else "find=found"
  | Fault f -> show_fault f

(* tmpf <envk> <dirlen> <tplhex> <len> <cap> <umask-octal> <picks> <nexist> <flags>   (spiftool_temp_file, one call)
   the directory is dirlen times '/' here and the harness's work directory spelled with dirlen characters there: only its
   length enters the result, and both sides print it as "D+" *)
let do_tmpf envk dirlen tplhex len cap um picks nexist flags =
  let n = int_of_string dirlen in
  (* '/' as the filler: a template never contains one, so no template is mistaken for a piece of the directory *)
  let dir = List.init n (fun _ -> z_of_int 47) in
  let tplb = if tplhex = "-" then [] else zbytes_of_hex tplhex in
  let len = int_of_string len and cap = int_of_string cap in
  let um = int_of_string ("0o" ^ um) in
  let nexist = int_of_string nexist in
  let picks = if envk = "N" then [str_of_ascii "XXXXXX"] else if picks = "-" then [] else List.map str_of_ascii (String.split_on_char ',' picks) in
  let slash = z_of_int 47 in
  let tmpdir, tmp = match envk with
    | "D" | "K" -> Some dir, None
    | "M" -> None, Some dir
    | "B" -> Some dir, Some (str_of_ascii "/nonexistent-lv")
    | _ -> None, None in
  let pre = List.filteri (fun i _ -> i < nexist) picks in
  let files0 = List.map (fun p -> (dir @ [slash] @ tplb @ p, z_of_int 0o644)) pre in
  let tplbuf = List.map (fun b -> Some b) tplb @ [Some Z0] @ List.init (cap - List.length tplb - 1) (fun _ -> None) in
  let o = { o_dir_ok = (envk <> "K"); o_picks = picks; o_fd = z_of_int 7; o_fchmod_ok = not (String.contains flags 'F') } in
  match temp_file (env2 tmpdir tmp) tplbuf (z_of_int len) (world0 (z_of_int um) files0) o with
  | Fault f -> show_fault f
  | Ok ((r, t), w) ->
    let rec cstr = function Some c :: tl when int_of_z c <> 0 -> int_of_z c :: cstr tl | _ -> [] in
    let s = cstr t in
    let d = List.map int_of_z dir in
    let rec is_prefix a b = match a, b with [], _ -> true | x :: a', y :: b' -> x = y && is_prefix a' b' | _ -> false in
    let rec drop k l = if k = 0 then l else match l with [] -> [] | _ :: tl -> drop (k - 1) tl in
    let hex_of_ints l = if l = [] then "" else hex_of_ints l in
    let show_name s =
      if n > 0 && is_prefix d s then "D+" ^ hex_of_ints (drop n s)
      else if n > 0 && s <> [] && is_prefix s d then Printf.sprintf "d%d" (List.length s)
      else if s = [] then "-" else hex_of_ints s in
    let ok = int_of_z r >= 0 in
    let mode = if ok then (match fd_mode w r with Some m -> Printf.sprintf "%o" (int_of_z m) | None -> "?") else "-" in
    let files = if envk = "N" || envk = "K" then "-" else
        let l = List.map (fun (nm, m) -> (hex_of_ints (drop (n + 1) (List.map int_of_z nm)), int_of_z m)) w.w_files in
        let l = List.sort compare l in
        if l = [] then "-" else String.concat "," (List.map (fun (a, m) -> Printf.sprintf "%s:%o" a m) l) in
    Printf.sprintf "ret=%s tpl=%s um=%o mode=%s files=%s" (if ok then "ok" else "-1") (show_name s) (int_of_z w.w_umask) mode files

let run = function
  | "hist" :: toks -> do_hist toks
  | ["find"; flen; dlen; comps] -> do_find flen dlen comps
  | ["tmpf"; a; b; c; d; e; f; g; h; i] -> do_tmpf a b c d e f g h i
  | ["temp"; _] -> "temp fail=0 badmode=0 dup=0 outside=0"
  | _ -> "DRIVER-ERROR:bad-case"
let () = main_loop run
