(* Model driver of family `cont_array`: runs a history of class `array` through the extracted
   POINTER-LEVEL model (coq/Cont/ArrayModel.v) and prints it in the format documented at the
   top of harness/cont.c: the level-A part (return value + read-back, computed through the
   model's own member functions) and, after '|', the level-B structure dump
   `A len=<int> items=NULL|[X,..]` exactly as the harness prints it under LV_CONT_B=1.
   A Fault anywhere in the model turns the whole line into FAULT:<kind>. *)
let key_of_string (s : string) : key = List.init (String.length s) (fun i -> z_of_int (Char.code s.[i]))
let string_of_key (k : key) : string =
  String.concat "" (List.map (fun z -> String.make 1 (Char.chr ((int_of_z z) land 255))) k)

exception Model_fault of fault
let ok = function Ok x -> x | Fault f -> raise (Model_fault f)

let next_id = ref 0
let mk_elem (s : string) : elem =
  let e = { eid = nat_of_int !next_id; ekey = key_of_string s } in incr next_id; e
let mk_opt (s : string) : elem option = if s = "_" then None else Some (mk_elem s)

let pb b = if b then "T" else "F"
let pe = function None -> "_" | Some e -> string_of_int (int_of_nat e.eid)
let ptx = function None -> "_" | Some k -> string_of_key k
let ppr = function None -> "_" | Some (k, v) -> string_of_key k ^ "=" ^ string_of_key v
let plist f l = "[" ^ String.concat "," (List.map f l) ^ "]"

let show_out = function
  | OBool b -> pb b
  | OInt z -> string_of_int (int_of_z z)
  | OElem e -> pe e
  | OElems l -> plist pe l
  | ODup (n, s, g) -> string_of_int (int_of_z n) ^ "/" ^ plist ptx s ^ "/" ^ plist ptx g
  | OText t -> ptx t
  | OPair p -> ppr p
  | OTexts l -> plist string_of_key l
  | OPairs l -> plist (fun p -> ppr (Some p)) l
  | OUnit -> "-"

let parse_lop (a : string list) : lop =
  match a with
  | ["append"; k] -> LAppend (mk_elem k)
  | ["prepend"; k] -> LPrepend (mk_elem k)
  | ["insert"; k] -> LInsert (mk_elem k)
  | ["insert_at"; i; k] -> let e = mk_elem k in LInsertAt (z_of_int (int_of_string i), e)
  | ["remove"; k] -> LRemove (mk_opt k)
  | ["remove_at"; i] -> LRemoveAt (z_of_int (int_of_string i))
  | ["get"; i] -> LGet (z_of_int (int_of_string i))
  | ["index"; k] -> LIndex (mk_elem k)
  | ["find"; k] -> LFind (mk_opt k)
  | ["contains"; k] -> LContains (mk_opt k)
  | ["count"] -> LCount
  | ["reverse"] -> LReverse
  | ["to_array"] -> LToArray
  | ["iterate"] -> LIterate
  | ["dup"] -> LDup
  | _ -> failwith "bad-op"

let parse_vop (a : string list) : vop =
  match a with
  | ["insert"; k] -> VInsert (mk_elem k)
  | ["remove"; k] -> VRemove (mk_elem k)
  | ["find"; k] -> VFind (mk_elem k)
  | ["contains"; k] -> VContains (mk_elem k)
  | ["count"] -> VCount
  | ["iterate"] -> VIterate
  | ["to_array"] -> VToArray
  | _ -> failwith "bad-op"

let parse_mop (a : string list) : mop =
  match a with
  | ["set"; k; v] -> MSet (key_of_string k, key_of_string v)
  | ["get"; k] -> MGet (key_of_string k)
  | ["remove"; k] -> MRemove (key_of_string k)
  | ["has_key"; k] -> MHasKey (key_of_string k)
  | ["has_value"; v] -> MHasValue (key_of_string v)
  | ["count"] -> MCount
  | ["get_keys"] -> MGetKeys
  | ["get_values"] -> MGetValues
  | ["get_pairs"] -> MGetPairs
  | ["iterate"] -> MIterate
  | ["mutk"; t] -> MMutK (key_of_string t)
  | ["mutv"; t] -> MMutV (key_of_string t)
  | ["delk"] -> MDelK
  | ["delv"] -> MDelV
  | ["newpair"] -> MNewPair
  | _ -> failwith "bad-op"

(* level B: 'A len=' int ' items=' ( 'NULL' | [X..] ); an unwritten slot is shown as '?' *)
let bdump px a =
  let (n, items) = arr_dump a in
  Printf.sprintf "A len=%d items=%s" (int_of_z n)
    (match items with
     | None -> "NULL"
     | Some l -> plist (function None -> "?" | Some s -> px s) l)

let list_rb (a : elem arr) : string =
  let ((n, g), i) = ok (arr_list_readback a) in
  Printf.sprintf "n=%d g=%s i=%s" (int_of_z n) (plist pe g) (plist pe i)

(* vector mode (see pv in harness/cont.c): an element is shown by its text if the vector currently
   stores it, '?' otherwise; m=ok iff sweep and to_array each showed every stored object once *)
let inset : (int, unit) Hashtbl.t = Hashtbl.create 64
let seen : (int, int) Hashtbl.t = Hashtbl.create 64
let pv = function
  | None -> "_"
  | Some e ->
    let id = int_of_nat e.eid in
    if Hashtbl.mem inset id then begin
      Hashtbl.replace seen id (1 + (try Hashtbl.find seen id with Not_found -> 0));
      string_of_key e.ekey
    end else "?"
let seen_all_once () =
  Hashtbl.fold (fun id () acc -> acc && (try Hashtbl.find seen id with Not_found -> 0) = 1) inset true
let vec_rb (a : elem arr) : string =
  let ((n, i), t) = ok (arr_vec_readback a) in
  Hashtbl.reset seen;
  let si = plist pv i in
  let ok1 = seen_all_once () in
  Hashtbl.reset seen;
  let sa = plist pv t in
  let ok2 = seen_all_once () in
  Printf.sprintf "n=%d i=%s a=%s m=%s" (int_of_z n) si sa (if ok1 && ok2 then "ok" else "BAD")
let show_vout = function
  | OElem e -> pv e
  | OElems l -> plist pv l
  | o -> show_out o

let map_rb (a : (key * key) arr) : string =
  let ((((n, k), v), p), i) = ok (arr_map_readback a) in
  let pr x = ppr (Some x) in
  Printf.sprintf "n=%d k=%s v=%s p=%s i=%s" (int_of_z n) (plist string_of_key k) (plist string_of_key v)
    (plist pr p) (plist pr i)

let history ?(show = (fun _ r -> show_out r)) ?(after = (fun _ _ -> ())) step parse rb px init (ops : string list) : string =
  let b = Buffer.create 256 in
  let s = ref init in
  List.iter (fun o ->
      let op = parse (String.split_on_char ':' o) in
      let (s', r) = ok (step !s op) in
      s := s';
      let shown = show op r in
      after op r;
      Buffer.add_string b (shown ^ " " ^ rb s' ^ "|" ^ bdump px s' ^ " ; ")) ops;
  Buffer.add_string b "end";
  Buffer.contents b

let vec_after op r =
  match op, r with
  | VInsert e, OBool true -> Hashtbl.replace inset (int_of_nat e.eid) ()
  | VRemove _, OElem (Some x) -> Hashtbl.remove inset (int_of_nat x.eid)
  | _ -> ()

let run = function
  | [iface; cls; ops] ->
    if cls <> "array" then "DRIVER-ERROR:class-not-modelled-here" else begin
      next_id := 0;
      Hashtbl.reset inset; Hashtbl.reset seen;
      let ol = String.split_on_char ';' ops in
      try
        match iface with
        | "list" -> history arr_list_step parse_lop list_rb pe arr_new ol
        | "vector" -> history ~show:(fun _ r -> show_vout r) ~after:vec_after arr_vec_step parse_vop vec_rb pe arr_new ol
        | "map" -> history arr_map_step parse_mop map_rb ppr arr_new ol
        | _ -> "DRIVER-ERROR:bad-interface"
      with Model_fault f -> "FAULT:" ^ fault_name f
    end
  | _ -> "DRIVER-ERROR:bad-case"
let () = main_loop run
