(* Model driver of family `cont_array`: runs a history of class `array` through the extracted
   POINTER-LEVEL model (coq/Cont/ArrayModel.v) and prints it in the format documented at the
   top of harness/cont.c: the level-A part (return value + read-back, computed through the
   model's own member functions) and, after '|', the level-B structure dump
   `A len=<int> items=NULL|[X,..]` exactly as the harness prints it under LV_CONT_B=1.
   A Fault anywhere in the model turns the whole line into FAULT:<kind>. *)
let key_of_string (s : string) : key = List.init (String.length s) (fun i -> z_of_int (Char.code s.[i]))
let string_of_key (k : key) : string =
  String.concat "" (List.map (fun z -> String.make 1 (Char.chr ((int_of_z z) land 255))) k)

exception Model_fault of fault
let ok = function Ok x -> x | Fault f -> raise (Model_fault f)

let next_id = ref 0
let mk_elem (s : string) : elem =
  let e = { eid = nat_of_int !next_id; ekey = key_of_string s } in incr next_id; e
let mk_opt (s : string) : elem option = if s = "_" then None else Some (mk_elem s)

let pb b = if b then "T" else "F"
let pe = function None -> "_" | Some e -> string_of_int (int_of_nat e.eid)
let ptx = function None -> "_" | Some k -> string_of_key k
let ppr = function None -> "_" | Some (k, v) -> string_of_key k ^ "=" ^ string_of_key v
let plist f l = "[" ^ String.concat "," (List.map f l) ^ "]"

let show_out = function
  | OBool b -> pb b
  | OInt z -> string_of_int (int_of_z z)
  | OElem e -> pe e
  | OElems l -> plist pe l
  | ODup (n, s, g) -> string_of_int (int_of_z n) ^ "/" ^ plist ptx s ^ "/" ^ plist ptx g
  | OText t -> ptx t
  | OPair p -> ppr p
  | OTexts l -> plist string_of_key l
  | OPairs l -> plist (fun p -> ppr (Some p)) l
  | OUnit -> "-"

let parse_lop (a : string list) : lop =
  match a with
  | ["append"; k] -> LAppend (mk_elem k)
  | ["prepend"; k] -> LPrepend (mk_elem k)
  | ["insert"; k] -> LInsert (mk_elem k)
  | ["insert_at"; i; k] -> let e = mk_elem k in LInsertAt (z_of_int (int_of_string i), e)
  | ["remove"; k] -> LRemove (mk_opt k)
  | ["remove_at"; i] -> LRemoveAt (z_of_int (int_of_string i))
  | ["get"; i] -> LGet (z_of_int (int_of_string i))
  | ["index"; k] -> LIndex (mk_elem k)
  | ["find"; k] -> LFind (mk_opt k)
  | ["contains"; k] -> LContains (mk_opt k)
  | ["count"] -> LCount
  | ["reverse"] -> LReverse
  | ["to_array"] -> LToArray
  | ["iterate"] -> LIterate
  | ["dup"] -> LDup
  | _ -> failwith "bad-op"

let parse_vop (a : string list) : vop =
  match a with
  | ["insert"; k] -> VInsert (mk_elem k)
  | ["remove"; k] -> VRemove (mk_elem k)
  | ["find"; k] -> VFind (mk_elem k)
  | ["contains"; k] -> VContains (mk_elem k)
  | ["count"] -> VCount
  | ["iterate"] -> VIterate
  | ["to_array"] -> VToArray
  | _ -> failwith "bad-op"

let parse_mop (a : string list) : mop =
  match a with
  | ["set"; k; v] -> MSet (key_of_string k, key_of_string v)
  | ["set_pk"; k; v] -> MSet (key_of_string k, key_of_string v)
  | ["set_pv"; k; a; b] -> MSet (key_of_string k, key_of_string (a ^ "z" ^ b))
  | ["get"; k] -> MGet (key_of_string k)
  | ["remove"; k] -> MRemove (key_of_string k)
  | ["has_key"; k] -> MHasKey (key_of_string k)
  | ["has_value"; v] -> MHasValue (key_of_string v)
  | ["count"] -> MCount
  | ["get_keys"] -> MGetKeys
  | ["get_values"] -> MGetValues
  | ["get_pairs"] -> MGetPairs
  | ["iterate"] -> MIterate
  | ["mutk"; t] -> MMutK (key_of_string t)
  | ["mutv"; t] -> MMutV (key_of_string t)
  | ["delk"] -> MDelK
  | ["delv"] -> MDelV
  | ["newpair"] -> MNewPair
  | _ -> failwith "bad-op"

(* level B: 'A len=' int ' items=' ( 'NULL' | [X..] ); an unwritten slot is shown as '?' *)
let bdump px a =
  let (n, items) = arr_dump a in
  Printf.sprintf "A len=%d items=%s" (int_of_z n)
    (match items with
     | None -> "NULL"
     | Some l -> plist (function None -> "?" | Some s -> px s) l)

let list_rb (a : elem arr) : string =
  let ((n, g), i) = ok (arr_list_readback a) in
  Printf.sprintf "n=%d g=%s i=%s" (int_of_z n) (plist pe g) (plist pe i)

(* vector mode (see pv in harness/cont.c): an element is shown by its text if the vector currently
   stores it, '?' otherwise; m=ok iff sweep and to_array each showed every stored object once *)
(* one table per container: `inset` for the one being shown, `inset_other` for the other one after `fork` *)
let inset : (int, unit) Hashtbl.t ref = ref (Hashtbl.create 64)
let inset_other : (int, unit) Hashtbl.t ref = ref (Hashtbl.create 64)
let seen : (int, int) Hashtbl.t = Hashtbl.create 64
let pv = function
  | None -> "_"
  | Some e ->
    let id = int_of_nat e.eid in
    if Hashtbl.mem !inset id then begin
      Hashtbl.replace seen id (1 + (try Hashtbl.find seen id with Not_found -> 0));
      string_of_key e.ekey
    end else "?"
let seen_all_once () =
  Hashtbl.fold (fun id () acc -> acc && (try Hashtbl.find seen id with Not_found -> 0) = 1) !inset true
let vec_rb (a : elem arr) : string =
  let ((n, i), t) = ok (arr_vec_readback a) in
  Hashtbl.reset seen;
  let si = plist pv i in
  let ok1 = seen_all_once () in
  Hashtbl.reset seen;
  let sa = plist pv t in
  let ok2 = seen_all_once () in
  Printf.sprintf "n=%d i=%s a=%s m=%s" (int_of_z n) si sa (if ok1 && ok2 then "ok" else "BAD")
let show_vout = function
  | OElem e -> pv e
  | OElems l -> plist pv l
  | o -> show_out o

let map_rb (a : (key * key) arr) : string =
  let ((((n, k), v), p), i) = ok (arr_map_readback a) in
  let pr x = ppr (Some x) in
  Printf.sprintf "n=%d k=%s v=%s p=%s i=%s" (int_of_z n) (plist string_of_key k) (plist string_of_key v)
    (plist pr p) (plist pr i)

(* ==== BEGIN composite layer (the same text in driver/cont_main.ml and the three class drivers) ====
   Quiet steps, own-object arguments and the second use of a copy (`fork` / `swap`) are harness- and
   driver-level COMPOSITIONS of the existing spec operations (grammar: top of harness/cont.c); the op
   datatypes lop / vop / mop of ContSpec.v and the theorems about them are untouched.  `step` is total
   here: the class drivers unwrap `res` (a model Fault is an exception). *)
let own_list step show after s (a : string list) =
  let via i mk =
    match step s (LGet (z_of_int (int_of_string i))) with
    | (_, OElem (Some e)) ->
      let op = mk e in
      let (s', r) = step s op in
      let x = pe (Some e) in
      let y = show r in
      after op r; Some (s', x ^ "/" ^ y)
    | (_, OElem None) -> Some (s, "_/-")
    | _ -> failwith "bad-op" in
  match a with
  | ["remove_own"; i] -> via i (fun e -> LRemove (Some e))
  | ["index_own"; i] -> via i (fun e -> LIndex e)
  | ["find_own"; i] -> via i (fun e -> LFind (Some e))
  | ["contains_own"; i] -> via i (fun e -> LContains (Some e))
  | _ -> None

let own_vec step show after s (a : string list) =
  let via k mk =
    let p = mk_elem k in
    match step s (VFind p) with
    | (_, (OElem (Some e) as r0)) ->
      let x = show r0 in
      let op = mk e in
      let (s', r) = step s op in
      let y = show r in
      after op r; Some (s', x ^ "/" ^ y)
    | (_, OElem None) -> Some (s, "_/-")
    | _ -> failwith "bad-op" in
  match a with
  | ["remove_own"; k] -> via k (fun e -> VRemove e)
  | ["find_own"; k] -> via k (fun e -> VFind e)
  | ["contains_own"; k] -> via k (fun e -> VContains e)
  | _ -> None

let own_map step show after s (a : string list) =
  let ks = key_of_string in
  let via k shown mk =
    match step s (MGet (ks k)) with
    | (_, OText (Some v)) ->
      let (s', r) = step s (mk v) in
      Some (s', shown v ^ "/" ^ show_out r)
    | (_, OText None) -> Some (s, "_/-")
    | _ -> failwith "bad-op" in
  match a with
  | ["set_own"; k] -> via k string_of_key (fun v -> MSet (ks k, v))
  | ["has_value_own"; k] -> via k string_of_key (fun v -> MHasValue v)
  | ["set_ownpair"; k] -> via k (fun v -> k ^ "=" ^ string_of_key v) (fun v -> MSet (ks k, v))
  | ["set_ownkey"; k; v] -> via k (fun _ -> k) (fun _ -> MSet (ks k, ks v))
  | ["get_ownkey"; k] -> via k (fun _ -> k) (fun _ -> MGet (ks k))
  | ["remove_ownkey"; k] -> via k (fun _ -> k) (fun _ -> MRemove (ks k))
  | ["set_pair"; k; v] -> let (s', r) = step s (MSet (ks k, ks v)) in Some (s', show_out r)
  | ("get_keys_into" | "get_values_into" | "get_pairs_into") as o :: ("A" | "L" | "D") :: cnt ->
    (* non-NULL form: the results are appended to the caller's list, which already holds "pre" (no count
       given) or the N objects pa, pb, .. (N = 0..5): the ideal result is  old ++ keys *)
    let old = (match cnt with
        | [] -> ["pre"]
        | [n] -> let n = int_of_string n in
          if n < 0 || n > 5 then failwith "bad-op" else List.init n (fun i -> "p" ^ String.make 1 (Char.chr (97 + i)))
        | _ -> failwith "bad-op") in
    let op = (match o with "get_keys_into" -> MGetKeys | "get_values_into" -> MGetValues | _ -> MGetPairs) in
    let (s', r) = step s op in
    let items = (match r with
        | OTexts l -> List.map string_of_key l
        | OPairs l -> List.map (fun p -> ppr (Some p)) l
        | _ -> failwith "bad-op") in
    Some (s', "[" ^ String.concat "," (old @ items) ^ "]")
  | _ -> None

(* dup: the state after `fork` (copy current, original still reachable through its header);
   hdr / mk: a container's header within a state / the state seen through another header (class
   models with a node store share the store between the two containers; for value models hdr is the
   identity); on_fork / on_swap: per-container bookkeeping of the driver (vector `inset` tables) *)
type ('s, 'h) glue = { dup : 's -> 's; hdr : 's -> 'h; mk : 's -> 'h -> 's;
                       on_fork : unit -> unit; on_swap : unit -> unit }
let value_glue dup = { dup = dup; hdr = (fun s -> s); mk = (fun _ h -> h);
                       on_fork = (fun () -> ()); on_swap = (fun () -> ()) }

let history_c ?(catch = (fun (_ : exn) -> (None : string option))) step parse own show after rb bd g fin init
    (ops : string list) : string =
  let b = Buffer.create 256 in
  let cur = ref init and other = ref None in
  (try
     List.iter (fun o ->
         let quiet = String.length o > 0 && o.[0] = '~' in
         let o = if quiet then String.sub o 1 (String.length o - 1) else o in
         let a = String.split_on_char ':' o in
         let rs =
           match a with
           | ["fork"] ->
             (match !other with
              | Some _ -> failwith "bad-op"
              | None -> let d = g.dup !cur in other := Some (g.hdr !cur); cur := d; g.on_fork (); "T")
           | ["swap"] ->
             (match !other with
              | Some h -> let h' = g.hdr !cur in cur := g.mk !cur h; other := Some h'; g.on_swap ()
              | None -> ());
             "T"
           | _ ->
             (match own step show after !cur a with
              | Some (s', str) -> cur := s'; str
              | None ->
                let op = parse a in
                let (s', r) = step !cur op in
                cur := s';
                let rs = show r in
                after op r; rs) in
         if quiet then Buffer.add_string b (rs ^ "| ; ")
         else begin
           let both f =
             match !other with
             | None -> f !cur
             | Some h ->
               let x = f !cur in
               g.on_swap ();
               let y = (try f (g.mk !cur h) with e -> g.on_swap (); raise e) in
               g.on_swap ();
               if x = "" && y = "" then "" else x ^ " O " ^ y in
           let x = both rb in
           let y = both bd in
           Buffer.add_string b (rs ^ " " ^ x ^ "|" ^ y ^ " ; ")
         end) ops;
     Buffer.add_string b (fin !cur !other)
   with e -> (match catch e with Some s -> Buffer.add_string b s | None -> raise e));
  Buffer.contents b
(* ==== END composite layer ==== *)

let vec_after op r =
  match op, r with
  | VInsert e, OBool true -> Hashtbl.replace !inset (int_of_nat e.eid) ()
  | VRemove _, OElem (Some x) -> Hashtbl.remove !inset (int_of_nat x.eid)
  | _ -> ()
let no_after _ _ = ()

let run = function
  | [iface; cls; ops] ->
    if cls <> "array" then "DRIVER-ERROR:class-not-modelled-here" else begin
      next_id := 0;
      inset := Hashtbl.create 64; inset_other := Hashtbl.create 64; Hashtbl.reset seen;
      let ol = String.split_on_char ';' ops in
      let fin _ _ = "end" in
      let st step s op = ok (step s op) in
      (* spif_array_list_dup / _vector_dup / _map_dup; a duplicated object is shown under the id of its original *)
      let glue dup = { (value_glue (fun a -> ok (dup (fun x -> x) a))) with
                       on_fork = (fun () -> inset_other := !inset; inset := Hashtbl.copy !inset_other);
                       on_swap = (fun () -> let t = !inset in inset := !inset_other; inset_other := t) } in
      try
        match iface with
        | "list" -> history_c (st arr_list_step) parse_lop own_list show_out no_after list_rb (bdump pe) (glue arr_list_dup) fin arr_new ol
        | "vector" -> history_c (st arr_vec_step) parse_vop own_vec show_vout vec_after vec_rb (bdump pe) (glue arr_strict_dup) fin arr_new ol
        | "map" -> history_c (st arr_map_step) parse_mop own_map show_out no_after map_rb (bdump ppr) (glue arr_strict_dup) fin arr_new ol
        | _ -> "DRIVER-ERROR:bad-interface"
      with Model_fault f -> "FAULT:" ^ fault_name f
    end
  | _ -> "DRIVER-ERROR:bad-case"
let () = main_loop run
