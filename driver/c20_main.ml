(* C20 model driver.  Case line:  [spec] <macro> <c> <r> <silent> <name> <cond>
   macro = a name of the generated ladder, or prim:dprintf | prim:warning | prim:error | prim:fatal.
   Without "spec": the interpretation of the generated ladder (behaviour); with it: the specification
   of the macro's family.  gcc configuration: __FILE__/__LINE__ and __GNUC__ defined. *)
let coq_name (s : string) =
  (* the extraction unboxes the one-constructor type mname to byte list *)
  (List.init (String.length s) (fun i ->
     match of_N (n_of_int (Char.code s.[i])) with Some b -> b | None -> failwith "byte") : mname)
let ml_name (l : mname) =
  String.concat "" (List.map (fun b -> String.make 1 (Char.chr (int_of_n (to_N b)))) l)
let show_obs o =
  let outs = (if o.o_dbg then "d" else "") ^ (if o.o_warn then "w" else "") ^ (if o.o_err then "e" else "")
             ^ (if o.o_fatal then "f" else "") in
  Printf.sprintf "out=%s cond=%d args=%d val=%d mark=%d ctl=%s" (if outs = "" then "-" else outs)
    (int_of_nat o.o_cond) (int_of_nat o.o_args) (int_of_nat o.o_val) (int_of_nat o.o_mark)
    (match o.o_ctl with Fall -> "fall" | Ret true -> "retv" | Ret false -> "ret" | Exit -> "exit" | Stuck -> "stuck")
let prim_of = function
  | "prim:dprintf" -> Some PDprintf | "prim:warning" -> Some PWarn | "prim:error" -> Some PError
  | "prim:fatal" -> Some PFatal | _ -> None
let bool_of s = (s = "1")
let cell want_spec name c r si na co =
  let e = mk_env (z_of_int (int_of_string c)) true true in
  let s = mk_rt (z_of_int (int_of_string r)) (bool_of si) (bool_of na) (bool_of co) in
  match prim_of name with
  | Some p -> show_obs (if want_spec then spec_prim p s else prim_behaviour p s)
  | None ->
    if want_spec then begin
      match List.find_opt (fun (n, _) -> ml_name n = name) classified with
      | Some (_, k) -> show_obs (spec k e s)
      | None -> "DRIVER-ERROR:unclassified-macro"
    end else show_obs (behaviour (coq_name name) e s)
let run = function
  | ["spec"; name; c; r; si; na; co] -> cell true name c r si na co
  | [name; c; r; si; na; co] -> cell false name c r si na co
  | _ -> "DRIVER-ERROR:bad-case"
let () = main_loop run
