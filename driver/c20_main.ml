(* C20 model driver.  Case line:  [spec] <macro> <c> <r> <silent> <name> <cond>
   macro = a name of the generated ladder, or prim:dprintf | prim:warning | prim:error | prim:fatal.
   cond: bit 0 = value of the condition argument, bit 1 = second variant of the probe's use (the same
   statement with a condition / argument strings that look like printf conversions: the macro's behaviour
   may not depend on it).
   txt: whether the logged text must contain the use's literal text (the stringified condition of
   ASSERT/REQUIRE, the formatted message of the printing macros and primitives): "ok" whenever such a
   use logs anything, "-" otherwise.
   Without "spec": the interpretation of the generated ladder (behaviour); with it: the specification
   of the macro's family.  gcc configuration: __FILE__/__LINE__ and __GNUC__ defined. *)
let coq_name (s : string) =
  (* the extraction unboxes the one-constructor type mname to byte list *)
  (List.init (String.length s) (fun i ->
     match of_N (n_of_int (Char.code s.[i])) with Some b -> b | None -> failwith "byte") : mname)
let ml_name (l : mname) =
  String.concat "" (List.map (fun b -> String.make 1 (Char.chr (int_of_n (to_N b)))) l)
let logged o = o.o_dbg || o.o_warn || o.o_err || o.o_fatal
let show_obs ?(has_text = false) o =
  let outs = (if o.o_dbg then "d" else "") ^ (if o.o_warn then "w" else "") ^ (if o.o_err then "e" else "")
             ^ (if o.o_fatal then "f" else "") in
  Printf.sprintf "out=%s cond=%d args=%d val=%d mark=%d ctl=%s txt=%s" (if outs = "" then "-" else outs)
    (int_of_nat o.o_cond) (int_of_nat o.o_args) (int_of_nat o.o_val) (int_of_nat o.o_mark)
    (match o.o_ctl with Fall -> "fall" | Ret true -> "retv" | Ret false -> "ret" | Exit -> "exit" | Stuck -> "stuck")
    (if has_text && logged o then "ok" else "-")
(* the uses whose log lines carry a text of their own (harness/c20.c, checks/c20.py uses_header) *)
let kind_has_text = function
  | KAssert _ | KRequire _ | KDprintf _ | KDprintfPlain | KNever | KD _ -> true
  | KHdr | KNotreached _ | KAbort | KDIf _ -> false
let prim_of = function
  | "prim:dprintf" -> Some PDprintf | "prim:warning" -> Some PWarn | "prim:error" -> Some PError
  | "prim:fatal" -> Some PFatal | _ -> None
let bool_of s = (s = "1")
let cond_of s = (match s with "1" | "3" -> true | "0" | "2" -> false | _ -> failwith "bad-cond")
let cell want_spec name c r si na co =
  let e = mk_env (z_of_int (int_of_string c)) true true in
  let s = mk_rt (z_of_int (int_of_string r)) (bool_of si) (bool_of na) (cond_of co) in
  match prim_of name with
  | Some p -> show_obs ~has_text:true (if want_spec then spec_prim p s else prim_behaviour p s)
  | None ->
    match List.find_opt (fun (n, _) -> ml_name n = name) classified with
    | Some (_, k) ->
      show_obs ~has_text:(kind_has_text k) (if want_spec then spec k e s else behaviour (coq_name name) e s)
    | None -> if want_spec then "DRIVER-ERROR:unclassified-macro" else show_obs (behaviour (coq_name name) e s)
let run = function
  | ["spec"; name; c; r; si; na; co] -> cell true name c r si na co
  | [name; c; r; si; na; co] -> cell false name c r si na co
  | _ -> "DRIVER-ERROR:bad-case"
let () = main_loop run
