(* C19 model driver.  Case line:  <mode> <op> ; <op> ; ...   (mode = sim | real; the model treats both
   alike except that `rrecv` builds its read schedule from the FIFO channel).  See checks/c19.py.
   An optional first operation `fds <n>` says that n is the lowest descriptor number that is free when the
   scenario starts (0, 1, 2: the standard streams from n on are closed; larger: everything below n is
   taken); without it n = 3, an ordinary process.  The descriptor-table oracle is then the kernel's:
   pick_low n, the lowest number >= n that is not open. *)
exception Model_fault of string

let inc = str_buff_inc

(* payload generator shared with harness/c19.c: byte j of P<len>:<seed> *)
let payload_bytes len seed =
  List.init len (fun j -> z_of_int (1 + ((seed + j * 7 + (j / 256) * 13) mod 255)))
let parse_spec s =   (* "<len>:<seed>" *)
  match String.split_on_char ':' s with
  | [l; sd] -> payload_bytes (int_of_string l) (int_of_string sd)
  | _ -> failwith "payload spec"
let tail1 s = String.sub s 1 (String.length s - 1)

let fnv (l : z list) : int =
  List.fold_left (fun h b -> ((h lxor (int_of_z b)) * 16777619) land 0xffffffff) 0x811c9dc5 l

let bit c = (c = '1')
let items s = if s = "-" then [] else String.split_on_char ',' s

let parse_ws s = List.map (fun t ->
    match t.[0] with
    | 'w' -> Wrote (z_of_int (int_of_string (tail1 t)))
    | 'i' -> WEintr
    | 'a' -> WEagain
    | 'e' -> WErr (match t.[1] with 'F' -> EFBIG | 'I' -> EIO | 'P' -> EPIPE | 'V' -> EINVAL | _ -> EOTHER)
    | _ -> failwith "ws item") (items s)

let parse_rs s = List.map (fun t ->
    match t.[0] with
    | 'd' -> RData (parse_spec (tail1 t))
    | 'i' -> REintr
    | 'a' -> REagain
    | 'z' -> REof
    | 'x' -> RErr
    | _ -> failwith "rs item") (items s)

let parse_shape s = List.map (fun t ->
    match t.[0] with
    | 't' -> ShTake (z_of_int (int_of_string (tail1 t)))
    | 'i' -> ShIntr
    | _ -> failwith "shape item") (items s)

let term_of = function "a" -> REagain | "z" -> REof | _ -> failwith "term"

type pop = Plain of op | RRecv_op of int * rd_event * rd_shape list | Fds of int

let nat s = nat_of_int (int_of_string s)
let parse_op (toks : string list) : pop =
  match toks with
  | ["fds"; n] -> Fds (int_of_string n)
  | ["new"; lr] -> Plain (ONew (bit lr.[0], bit lr.[1]))
  | ["open"; i; b] -> Plain (OOpen (nat i, bit b.[0], bit b.[1], bit b.[2], bit b.[3]))
  | ["accept"; i; n; a; d] -> Plain (OAccept (nat i, nat n, bit a.[0], bit d.[0]))
  | ["close"; i; n; k] -> Plain (OClose (nat i, nat n, bit k.[0]))
  | ["dup"; i; d] -> Plain (ODup (nat i, bit d.[0]))
  | ["done"; i; n; k] -> Plain (ODone (nat i, nat n, bit k.[0]))
  | ["del"; i; n; k] -> Plain (ODel (nat i, nat n, bit k.[0]))
  | ["nbio"; i] -> Plain (ONbio (nat i))
  | ["send"; i; p; ws] -> Plain (OSend (nat i, parse_spec (tail1 p), parse_ws ws))
  | ["recv"; i; rs] -> Plain (ORecv (nat i, parse_rs rs))
  | ["rrecv"; i; t; sh] -> RRecv_op (int_of_string i, term_of t, parse_shape sh)
  | _ -> failwith ("bad op: " ^ String.concat " " toks)

let rec split_ops acc cur = function
  | [] -> List.rev (if cur = [] then acc else List.rev cur :: acc)
  | ";" :: r -> split_ops (if cur = [] then acc else List.rev cur :: acc) [] r
  | t :: r -> split_ops acc (t :: cur) r

let ok_or_fault = function Ok a -> a | Fault f -> raise (Model_fault (fault_name f))

let show_result (r : oresult) : string =
  match r with
  | RSkip -> "-"
  | RNew -> "n"
  | RBool b -> if b then "T" else "F"
  | RObj b -> if b then "O" else "N"
  | RSend r ->
    let so = ok_or_fault r in
    let (ls, lu) = (match List.rev so.so_sel with [] -> (0, 0) | (s, u) :: _ -> (int_of_z s, int_of_z u)) in
    Printf.sprintf "S%s:%d:%08x:%s~%d:%d.%06d" (if so.so_ok then "T" else "F") (List.length so.so_acc) (fnv so.so_acc)
      (match so.so_eff with FdKeep -> "K" | FdClosed -> "C" | FdForgotten -> "G")
      (List.length so.so_sel) ls lu
  | RRecv r ->
    (match ok_or_fault r with
     | None -> "RN"
     | Some sv ->
       let t = ok_or_fault (sv_text sv) in
       (* the terminator the code stores at s[len] *)
       let term_ok = (match List.nth_opt sv.sv_s (int_of_z sv.sv_len) with Some (Some Z0) -> "" | _ -> "!noterm") in
       Printf.sprintf "R%d:%08x%s~%d" (List.length t) (fnv t) term_ok (int_of_z sv.sv_size))

let run_line (toks : string list) : string =
  match toks with
  | [] -> "DRIVER-ERROR:empty"
  | _mode :: rest ->
    let ops = List.map parse_op (split_ops [] [] rest) in
    let base = (match ops with Fds n :: _ -> n | _ -> 3) in
    if base < 0 || List.exists (function Fds _ -> true | _ -> false) (match ops with [] -> [] | _ :: t -> t)
    then "DRIVER-ERROR:fds" else
    let pick = pick_low (z_of_int base) in
    let w = ref { w_open = []; w_objs = [] } in
    let chan = ref [] in
    let out = Buffer.create 256 in
    (try
       List.iter (fun po ->
           match po with
           | Fds _ -> Buffer.add_string out "f+0!0 "
           | _ ->
           let o = (match po with
               | Plain o -> o
               | Fds _ -> assert false
               | RRecv_op (i, term, shape) ->
                 let sched = fifo_sched !chan shape term in
                 chan := [];
                 ORecv (nat_of_int i, sched)) in
           let (w1, r) = step pick inc !w o in
           (match r with RSend (Ok so) -> chan := !chan @ so.so_acc | _ -> ());
           w := w1;
           Buffer.add_string out (show_result r);
           Buffer.add_string out (Printf.sprintf "+%d!%d " (List.length w1.w_open) (List.length (dangling w1))))
         ops;
       Buffer.add_string out "|";
       List.iteri (fun k o ->
           match o with
           | None -> ()
           | Some s ->
             let st = if int_of_z s.s_fd < 0 then "-" else if is_open !w.w_open s.s_fd then "o" else "x" in
             Buffer.add_string out (Printf.sprintf " %d:%s~%04x@%d" k st (int_of_z s.s_flags) (int_of_z s.s_fd)))
         !w.w_objs;
       let wf = cleanup pick inc !w (fun _ -> (O, true)) in
       Buffer.add_string out (Printf.sprintf " | leak=%d" (List.length wf.w_open));
       Buffer.contents out
     with Model_fault f -> "FAULT:" ^ f)

let () = main_loop run_line
