(* C15 model driver: scripted allocation histories through the extracted tracker model.
   Case and output formats are described at the top of harness/c15.c. *)
(* Decimal <-> Z without going through OCaml's 63-bit int: block sizes run up to 2^64-1 (harness: strtoul / %lu).
   Short strings take the direct route; long ones are halved digit by digit (no Z arithmetic is extracted here). *)
let z_of_string (s : string) : z =
  if String.length s <= 17 then z_of_int (int_of_string s) else begin
    let d = Array.init (String.length s) (fun i ->
        let c = Char.code s.[i] - 48 in if c < 0 || c > 9 then failwith ("bad-number:" ^ s) else c) in
    let n = Array.length d in
    let zero () = Array.for_all (fun x -> x = 0) d in
    let bits = ref [] in                        (* most significant bit first once the loop is done *)
    while not (zero ()) do
      let r = ref 0 in
      for i = 0 to n - 1 do
        let v = !r * 10 + d.(i) in d.(i) <- v / 2; r := v mod 2
      done;
      bits := !r :: !bits
    done;
    match !bits with
    | [] -> Z0
    | _ :: rest -> Zpos (List.fold_left (fun p b -> if b = 1 then XI p else XO p) XH rest)
  end
let string_of_pos (p : positive) : string =
  let rec dbl carry = function
    | [] -> if carry > 0 then [carry] else []
    | x :: t -> let v = 2 * x + carry in (v mod 10) :: dbl (v / 10) t in
  let rec go = function XH -> [1] | XO q -> dbl 0 (go q) | XI q -> dbl 1 (go q) in
  String.concat "" (List.rev_map string_of_int (go p))
let string_of_z = function Z0 -> "0" | Zpos p -> string_of_pos p | Zneg p -> "-" ^ string_of_pos p
let zi s = z_of_string s
let optbytes s = if s = "N" then None else Some (zbytes_of_hex s)
let fields tok = String.split_on_char ',' tok

let parse_op tok =
  match fields tok with
  | ["L"; l] -> SetLevel (zi l)
  | ["m"; f; l; sz; a] -> Malloc (optbytes f, zi l, zi sz, zi a)
  | ["c"; f; l; n; sz; a] -> Calloc (optbytes f, zi l, zi n, zi sz, zi a)
  | ["r"; f; l; p; sz; a] -> Realloc (optbytes f, zi l, zi p, zi sz, zi a)
  | ["s"; f; l; str; a] -> Strdup (optbytes f, zi l, optbytes str, zi a)
  | ["f"; p] -> Free (zi p)
  | ["M"; f; l; sz; a] -> MMalloc (zbytes_of_hex f, zi l, zi sz, zi a)
  | ["C"; f; l; n; es; a] -> MCalloc (zbytes_of_hex f, zi l, zi n, zi es, zi a)
  | ["R"; f; l; p; sz; a] -> MRealloc (zbytes_of_hex f, zi l, zi p, zi sz, zi a)
  | ["S"; f; l; str; a] -> MStrdup (zbytes_of_hex f, zi l, optbytes str, zi a)
  | ["F"; p] -> MFree (zi p)
  | ["x"; sz; a] -> Foreign (zi sz, zi a)
  | ["D"] -> Dump
  | _ -> failwith ("bad-op:" ^ tok)

let zs z = string_of_z z

let show_out (o, cnt) =
  (match o with
   | RetPtr p -> "=" ^ zs p
   | RetVoid -> "."
   | Dumped (c, t) -> "dump=" ^ zs c ^ "/" ^ zs t) ^ "#" ^ zs cnt ^ " "

let run = function
  | "h" :: build :: _init :: ops ->
    let ops = List.map parse_op ops in
    let b = zi build in
    let s0 = init_state Z0 in
    if not (sane_script b s0 ops) then "INVALID-SCRIPT" else
    (match run b s0 ops with
     | Fault x -> "FAULT:" ^ fault_name x
     | Ok (outs, s) ->
       let recs = List.map (fun r -> " " ^ zs r.r_ptr ^ ":" ^ zs r.r_size ^ ":" ^ hex_of_zbytes r.r_file ^ ":" ^ zs r.r_line) s.s_tab in
       let live = List.sort compare (List.map (fun (p, sz) -> (int_of_z p, zs sz)) s.s_heap) in
       String.concat "" (List.map show_out outs) ^ "| T" ^ String.concat "" recs ^ " | H"
       ^ String.concat "" (List.map (fun (p, sz) -> Printf.sprintf " %d:%s" p sz) live))
  | ["scn"; _build; _name; _n] -> "scn empty"
  | _ -> "DRIVER-ERROR:bad-case"
let () = main_loop run
