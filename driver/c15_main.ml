(* C15 model driver: scripted allocation histories through the extracted tracker model.
   Case and output formats are described at the top of harness/c15.c. *)
let zi s = z_of_int (int_of_string s)
let optbytes s = if s = "N" then None else Some (zbytes_of_hex s)
let fields tok = String.split_on_char ',' tok

let parse_op tok =
  match fields tok with
  | ["L"; l] -> SetLevel (zi l)
  | ["m"; f; l; sz; a] -> Malloc (optbytes f, zi l, zi sz, zi a)
  | ["c"; f; l; n; sz; a] -> Calloc (optbytes f, zi l, zi n, zi sz, zi a)
  | ["r"; f; l; p; sz; a] -> Realloc (optbytes f, zi l, zi p, zi sz, zi a)
  | ["s"; f; l; str; a] -> Strdup (optbytes f, zi l, optbytes str, zi a)
  | ["f"; p] -> Free (zi p)
  | ["M"; f; l; sz; a] -> MMalloc (zbytes_of_hex f, zi l, zi sz, zi a)
  | ["C"; f; l; n; es; a] -> MCalloc (zbytes_of_hex f, zi l, zi n, zi es, zi a)
  | ["R"; f; l; p; sz; a] -> MRealloc (zbytes_of_hex f, zi l, zi p, zi sz, zi a)
  | ["S"; f; l; str; a] -> MStrdup (zbytes_of_hex f, zi l, optbytes str, zi a)
  | ["F"; p] -> MFree (zi p)
  | ["x"; sz; a] -> Foreign (zi sz, zi a)
  | ["D"] -> Dump
  | _ -> failwith ("bad-op:" ^ tok)

let zs z = string_of_int (int_of_z z)

let show_out (o, cnt) =
  (match o with
   | RetPtr p -> "=" ^ zs p
   | RetVoid -> "."
   | Dumped (c, t) -> "dump=" ^ zs c ^ "/" ^ zs t) ^ "#" ^ zs cnt ^ " "

let run = function
  | "h" :: build :: _init :: ops ->
    let ops = List.map parse_op ops in
    let b = zi build in
    let s0 = init_state Z0 in
    if not (sane_script b s0 ops) then "INVALID-SCRIPT" else
    (match run b s0 ops with
     | Fault x -> "FAULT:" ^ fault_name x
     | Ok (outs, s) ->
       let recs = List.map (fun r -> " " ^ zs r.r_ptr ^ ":" ^ zs r.r_size ^ ":" ^ hex_of_zbytes r.r_file ^ ":" ^ zs r.r_line) s.s_tab in
       let live = List.sort compare (List.map (fun (p, sz) -> (int_of_z p, int_of_z sz)) s.s_heap) in
       String.concat "" (List.map show_out outs) ^ "| T" ^ String.concat "" recs ^ " | H"
       ^ String.concat "" (List.map (fun (p, sz) -> Printf.sprintf " %d:%d" p sz) live))
  | ["scn"; _build; _name; _n] -> "scn empty"
  | _ -> "DRIVER-ERROR:bad-case"
let () = main_loop run
