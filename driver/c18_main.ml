(* C18 driver.  Case: "h <align> <seed> <len> <keyhex>" - the six hashes on the key
   (len <= number of key bytes; spifhash_jenkins32 gets the first 4*(len/4) bytes as len/4 words).
   Output: "S:<six reference values> M:<six model values or FAULT:kind> R:ok" - the S part is evaluated with the
   extracted reference definitions (HashSpec.v), the M part with the extracted model.  The
   harness prints the implementation's values in both places. *)
let zs z = string_of_int (int_of_z z)
let rec take n l = if n <= 0 then [] else match l with [] -> [] | x :: t -> x :: take (n - 1) t
let show6 l = String.concat " " l
let run = function
  | ["h"; align; seed; len; key] ->
    let al = int_of_string align and sd = z_of_int (int_of_string seed) and ln = int_of_string len in
    let kb = zbytes_of_hex key in
    let cells = List.map (fun b -> Some b) kb in
    let nw = ln / 4 in
    let pre = take ln kb and pre32 = take (4 * nw) kb in
    let cells32 = List.map (fun b -> Some b) pre32 in
    let zl = z_of_int ln in
    let model = [ jenkins cells zl sd; jenkinsLE (z_of_int al) cells zl sd;
                  jenkins32 cells32 (z_of_int nw) sd;
                  rotating cells zl sd; one_at_a_time cells zl sd; fnv cells zl sd ] in
    let sj = spec_jenkins pre sd in   (* jenkinsLE has the same reference as jenkins *)
    let spec = [ sj; sj; spec_jenkins32 (words_of_bytes pre32) sd;
                 spec_rotating pre sd; spec_oaat pre sd; spec_fnv pre sd ] in
    (* a fault of the model is shown in its M slot; the line never starts with FAULT, so that a
       crash of the implementation is always compared against the reference values (level A) *)
    "S:" ^ show6 (List.map zs spec) ^ " M:" ^
    show6 (List.map (function Ok v -> zs v | Fault f -> "FAULT:" ^ fault_name f) model) ^ " R:ok"
  (* "big <hashes> <len> <seed> <align> <cseed>": length arguments of 2^31-1 .. 2^32-1 over a sparse mapping.  The
     extracted model works on a list of cells (2^31 cons cells and as many Z additions per hash): it is NOT evaluated
     there.  The theorems cover these lengths (they quantify over every length < 2^32); the tie at these sizes is
     implementation = C transcription of the reference, decided inside the harness, which answers "BIG:ok". *)
  | ["big"; _; _; _; _; _] -> "BIG:ok"
  | _ -> "DRIVER-ERROR:bad-case"
let () = main_loop run
