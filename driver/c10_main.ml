(* C10 model driver.  Case line:
     x <progname hex> <progver hex> <env> <op> <op> ...
   env: "-" or NAMEHEX=VALUEHEX,...   ops: e:<hex> (expand), p:<k>:<v> (put_var), d:<k> (put_var k NULL),
   g:<k> (get_var).  Output: one result per op separated by " ; " (an expansion result is followed by L<blocks left allocated>),
   then " | " and the store in list order.
   An expansion runs on an object of CONFIG_BUFF cells: the text, its terminator, then cells that were never
   written (reading one is a fault). *)
let show_res f = function Ok a -> f a | Fault x -> "FAULT:" ^ fault_name x
let split_on c s = String.split_on_char c s
let parse_env s =
  if s = "-" then [] else
  List.map (fun kv -> match split_on '=' kv with
      | [k; v] -> (zbytes_of_hex k, zbytes_of_hex v)
      | _ -> failwith "env") (split_on ',' s)
let ext_name = function Spawn -> "spawn" | Random -> "random" | Dirscan -> "dirscan"
let show_store st =
  if st = [] then "-" else
  String.concat "," (List.map (fun (k, v) -> hex_of_zbytes k ^ "=" ^ hex_of_zbytes v) st)
let cbn = int_of_nat cB
(* blocks an expansion leaves allocated: node, name and value of every new store entry *)
let ledger st st' = Printf.sprintf " L%d" (3 * (List.length st' - List.length st))
let rec rep_none n acc = if n <= 0 then acc else rep_none (n - 1) (None :: acc)
let run = function
  | "x" :: pn :: pv :: env :: ops ->
    let genv = getenv_of (parse_env env) in
    let pn = zbytes_of_hex pn and pv = zbytes_of_hex pv in
    let buf = Buffer.create 256 in
    let rec go st first = function
      | [] -> Buffer.add_string buf (" | " ^ show_store st)
      | op :: rest ->
        if not first then Buffer.add_string buf " ; ";
        (match split_on ':' op with
         | ["e"; h] ->
           let s = zbytes_of_hex h in
           let n = List.length s in
           if n + 1 > cbn then failwith "input longer than CONFIG_BUFF - 1";
           let b = cstr s (rep_none (cbn - n - 1) []) in
           (match shell_expand genv pn pv (nat_of_int (n + 1)) b st with
            | Fault x -> Buffer.clear buf; Buffer.add_string buf ("FAULT:" ^ fault_name x)
            | Ok (XNull, st') -> Buffer.add_string buf ("N" ^ ledger st st'); go st' false rest
            | Ok (XBuf s', st') -> Buffer.add_string buf ("S " ^ hex_of_zbytes (take_str s') ^ ledger st st'); go st' false rest
            | Ok (XExt e, _) -> Buffer.add_string buf ("X " ^ ext_name e))
         | ["p"; k; v] -> Buffer.add_string buf "P"; go (put_var st (zbytes_of_hex k) (Some (zbytes_of_hex v))) false rest
         | ["d"; k] -> Buffer.add_string buf "D"; go (put_var st (zbytes_of_hex k) None) false rest
         | ["g"; k] ->
           (match get_var st (zbytes_of_hex k) with
            | None -> Buffer.add_string buf "U"
            | Some v -> Buffer.add_string buf ("V " ^ hex_of_zbytes v));
           go st false rest
         | _ -> failwith "op")
    in
    go [] true ops;
    Buffer.contents buf
  | _ -> "DRIVER-ERROR:bad-case"
let () = main_loop run
