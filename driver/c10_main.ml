(* C10 model driver.  Case line (the grammar is documented at the top of harness/c10.c):
     x <progname> <progver> <world> <op> <op> ...
   every text is a value spec (parts joined by '+': hex | - | *<n> | *<n>/<hexpattern>);
   world: "-" or a comma-separated list of NAME=VALUE (environment), @o=VALUE (what a command run by %exec prints),
   @d<name>=<e>;<e>;... (a directory: VALUE regular file, !VALUE directory, ?VALUE stat fails, #<count>x<len> generated names);
   @f<name>=<value>|! (a function the application registers: it answers <value> followed by its argument, <value>^ for a NULL
   argument, NULL with !), @F=<count> (count functions f<k> answering "<k:" and the argument), @n=<count> (only the first count
   functions are registered at the start), @c=<count> (contexts registered in every cycle: no effect on the model);
   ops: e:<text> (expand), p:<k>:<v> (put_var), d:<k> (put_var k NULL), g:<k> (get_var), r:<n> (register the functions up to
   the n-th), c:<n> (free, init, register the first n functions: the store is empty again).  Output: one result per op separated by " ; " (an expansion result is followed by L<blocks left allocated>),
   then " | " and the store in list order.
   An expansion runs on an object of CONFIG_BUFF cells: the text, its terminator, then cells that were never
   written (reading one is a fault). *)
let show_res f = function Ok a -> f a | Fault x -> "FAULT:" ^ fault_name x
let split_on c s = String.split_on_char c s
(* value spec -> bytes *)
let ints_of_spec (v : string) : int list =
  List.concat_map (fun part ->
      if part = "" then [] else
      if part.[0] = '*' then begin
        let body = String.sub part 1 (String.length part - 1) in
        let (n, pat) = match String.index_opt body '/' with
          | Some i -> (int_of_string (String.sub body 0 i), ints_of_hex (String.sub body (i + 1) (String.length body - i - 1)))
          | None -> (int_of_string body, []) in
        let pa = Array.of_list pat in
        let pl = Array.length pa in
        List.init n (fun i -> if pl = 0 then 76 else pa.(i mod pl))
      end else ints_of_hex part) (split_on '+' v)
let zbytes_of_spec v = List.map z_of_int (ints_of_spec v)
(* the generated names of a "#<count>x<len>" listing entry: the index in base 36, right-aligned in a name of upper-case
   letters (the letter is chosen by the position of the entry in the listing), as harness/c10.c *)
let gen_names grp cnt len =
  List.init cnt (fun i ->
      let b = Bytes.make len (Char.chr (65 + grp mod 26)) in
      let rec digits q acc = let acc = "0123456789abcdefghijklmnopqrstuvwxyz".[q mod 36] :: acc in if q / 36 = 0 then acc else digits (q / 36) acc in
      let ds = List.rev (digits i []) in          (* least significant first *)
      List.iteri (fun z c -> if z < len then Bytes.set b (len - 1 - z) c) ds;
      List.init len (fun k -> z_of_int (Char.code (Bytes.get b k))))
type world = { env : (z list * z list) list; out : z list option; dirs : (z list * z list list) list;
               funs : (z list * z list option) list; nstart : int option }
let zs_of_string s = List.init (String.length s) (fun i -> z_of_int (Char.code s.[i]))
let parse_world s =
  let w = ref { env = []; out = None; dirs = []; funs = []; nstart = None } in
  if s <> "-" then
    List.iter (fun kv ->
        match String.index_opt kv '=' with
        | None -> failwith "world"
        | Some i ->
          let k = String.sub kv 0 i and v = String.sub kv (i + 1) (String.length kv - i - 1) in
          if String.length k >= 2 && k.[0] = '@' && k.[1] = 'o' then w := { !w with out = Some (zbytes_of_spec v) }
          else if String.length k >= 2 && k.[0] = '@' && k.[1] = 'd' then begin
            let name = zbytes_of_spec (String.sub k 2 (String.length k - 2)) in
            let regular =
              if v = "-" then [] else
              List.concat (List.mapi (fun grp e ->
                  if e = "" then [] else
                  match e.[0] with
                  | '#' ->
                    let body = String.sub e 1 (String.length e - 1) in
                    (match String.index_opt body 'x' with
                     | Some j -> gen_names grp (int_of_string (String.sub body 0 j)) (int_of_string (String.sub body (j + 1) (String.length body - j - 1)))
                     | None -> failwith "listing")
                  | '!' | '?' -> []
                  | _ -> [zbytes_of_spec e]) (split_on ';' v)) in
            w := { !w with dirs = !w.dirs @ [(name, regular)] }
          end
          else if String.length k >= 2 && k.[0] = '@' && k.[1] = 'f' then begin
            if List.length !w.funs < 200 then
              w := { !w with funs = !w.funs @ [(zbytes_of_spec (String.sub k 2 (String.length k - 2)), if v = "!" then None else Some (zbytes_of_spec v))] }
          end
          else if k = "@F" then begin
            for _ = 1 to int_of_string v do
              let i = List.length !w.funs in
              if i < 200 then
                w := { !w with funs = !w.funs @ [(zs_of_string (Printf.sprintf "f%d" i), Some (zs_of_string (Printf.sprintf "<%d:" i)))] }
            done
          end
          else if k = "@n" then w := { !w with nstart = Some (int_of_string v) }
          else if k = "@c" then ()
          else w := { !w with env = !w.env @ [(zbytes_of_spec k, zbytes_of_spec v)] }) (split_on ',' s);
  !w
let ext_name = function Spawn -> "spawn" | Random -> "random" | Dirscan -> "dirscan"
let show_store st =
  if st = [] then "-" else
  String.concat "," (List.map (fun (k, v) -> hex_of_zbytes k ^ "=" ^ hex_of_zbytes v) st)
let cbn = int_of_nat cB
(* blocks an expansion leaves allocated: node, name and value of every new store entry *)
let ledger st st' = Printf.sprintf " L%d" (3 * (List.length st' - List.length st))
let rec rep_none n acc = if n <= 0 then acc else rep_none (n - 1) (None :: acc)
let run = function
  | "x" :: pn :: pv :: world :: ops ->
    let w = parse_world world in
    let genv = getenv_of w.env in
    (* spiftool_temp_file: snprintf(buff, 256, "%s/%sXXXXXX", $TMPDIR | $TMP | "/tmp", "Eterm-exec-"); the name must fit;
       the harness sees to it that the directory exists *)
    let zs s = List.map (fun c -> z_of_int (Char.code c)) (List.init (String.length s) (String.get s)) in
    let tmpdir_len = match genv (zs "TMPDIR") with
      | Some d -> List.length d
      | None -> (match genv (zs "TMP") with Some d -> List.length d | None -> 4) in
    let outfile_len = tmpdir_len + 1 + 11 + 6 in
    let xo = exec_world (outfile_len <= 255) (z_of_int outfile_len) w.out in
    let dl = dir_world w.dirs in
    let pn = zbytes_of_spec pn and pv = zbytes_of_spec pv in
    let buf = Buffer.create 256 in
    (* the functions the application registered: the k-th has code 7 + k; only the first `nreg` are in the table *)
    let nfun = List.length w.funs in
    let funs = Array.of_list w.funs in
    let nbuiltin = 7 in
    let table nreg = List.init (min nreg nfun) (fun k -> (fst funs.(k), z_of_int (nbuiltin + k))) in
    let ufn code arg =
      let k = int_of_z code - nbuiltin in
      if k < 0 || k >= nfun then None else
      match snd funs.(k) with
      | None -> None
      | Some r -> Some (r @ (match arg with Some a -> a | None -> [z_of_int 94])) in
    let nreg = ref (match w.nstart with Some n -> min n nfun | None -> nfun) in
    let rec go st first = function
      | [] -> Buffer.add_string buf (" | " ^ show_store st)
      | op :: rest ->
        if not first then Buffer.add_string buf " ; ";
        (match split_on ':' op with
         | ["e"; h] ->
           let s = zbytes_of_spec h in
           let n = List.length s in
           if n + 1 > cbn then failwith "input longer than CONFIG_BUFF - 1";
           let b = cstr s (rep_none (cbn - n - 1) []) in
           (match shell_expand genv pn pv xo dl (table !nreg) ufn (nat_of_int (n + 1)) b st with
            | Fault x -> Buffer.clear buf; Buffer.add_string buf ("FAULT:" ^ fault_name x)
            | Ok (XNull, st') -> Buffer.add_string buf ("N" ^ ledger st st'); go st' false rest
            | Ok (XBuf s', st') -> Buffer.add_string buf ("S " ^ hex_of_zbytes (take_str s') ^ ledger st st'); go st' false rest
            | Ok (XExt e, _) -> Buffer.add_string buf ("X " ^ ext_name e))
         | ["p"; k; v] -> Buffer.add_string buf "P"; go (put_var st (zbytes_of_spec k) (Some (zbytes_of_spec v))) false rest
         | ["d"; k] -> Buffer.add_string buf "D"; go (put_var st (zbytes_of_spec k) None) false rest
         | ["g"; k] ->
           (match get_var st (zbytes_of_spec k) with
            | None -> Buffer.add_string buf "U"
            | Some v -> Buffer.add_string buf ("V " ^ hex_of_zbytes v));
           go st false rest
         | ["r"; n] ->
           let n = min (int_of_string n) nfun in
           Buffer.add_string buf (Printf.sprintf "R%d" (if n > !nreg then nbuiltin + n - 1 else -1));
           if n > !nreg then nreg := n;
           go st false rest
         | ["c"; n] -> nreg := min (int_of_string n) nfun; Buffer.add_string buf "C"; go [] false rest
         | _ -> failwith "op")
    in
    go [] true ops;
    Buffer.contents buf
  | _ -> "DRIVER-ERROR:bad-case"
let () = main_loop run
