(* C12 model driver.  Every line is answered by the executable model; the specification
   (tokens / words / pword_spec / join_spec) is evaluated next to it and a difference between
   the two is reported as DRIVER-ERROR:model!=spec (the theorems say there is none). *)
let dset s = if s = "N" then None else Some (zbytes_of_hex s)
let cstr_of s = List.map (fun c -> Some c) s @ [Some Z0]
let show_tokens l =
  "T " ^ string_of_int (List.length l) ^ String.concat "" (List.map (fun t -> " " ^ hex_of_zbytes t) l)
let opt_list = function None -> [] | Some l -> l
let rec rep u k = if k = 0 then [] else u @ rep u (k - 1)
let rec last = function [x] -> x | _ :: t -> last t | [] -> failwith "last"
let nth_opt l i = try Some (List.nth l i) with _ -> None

(* ---- tok object histories: "tokobj S0 ; op ; op ..." (see harness/c12.c).  Each operation is one step of the
   extracted tok_run; the extracted ideal object spec_run is stepped next to it (DRIVER-ERROR:model!=spec on any
   difference in state or output - the history theorem says there is none).  While the quote characters are the
   defaults an evaluation also prints the model of split on the current source and separators. ---- *)
let src_arg h = if h = "N" then None else Some (zbytes_of_hex h)
let byte_arg h = z_of_int (int_of_string ("0x" ^ h))
let show_toks = function None -> "U" | Some l -> show_tokens l
let rec parse_ops = function
  | [] -> []
  | ";" :: "src" :: h :: r -> TSetSrc (src_arg h) :: parse_ops r
  | ";" :: "sep" :: h :: r -> TSetSep (dset h) :: parse_ops r
  | ";" :: "q" :: h :: r -> TSetQuote (byte_arg h) :: parse_ops r
  | ";" :: "dq" :: h :: r -> TSetDquote (byte_arg h) :: parse_ops r
  | ";" :: "esc" :: h :: r -> TSetEscape (byte_arg h) :: parse_ops r
  | ";" :: "eval" :: r -> TEval :: parse_ops r
  | ";" :: "dup" :: r -> TDup :: parse_ops r
  | ";" :: "fork" :: r -> TFork :: parse_ops r
  | ";" :: "done" :: r -> TDone :: parse_ops r
  | _ -> failwith "bad-case"
let run_tokobj s0 rest =
  let ops = parse_ops rest in
  let o = ref (tok_new (src_arg s0)) in
  let parts = ref [] and err = ref None in
  List.iter (fun op ->
      if !err = None then
        match tok_run !o [op] with
        | Fault x -> err := Some ("FAULT:" ^ fault_name x)
        | Ok (o', outs) ->
          if spec_run !o [op] <> (o', outs) then err := Some "DRIVER-ERROR:model!=spec"
          else begin
            List.iter (fun out ->
                let txt = match out with
                  | OToks t -> "D " ^ show_toks t
                  | OEval None -> "F"
                  | OEval (Some l) ->
                    let base = show_tokens l in
                    (match !o.t_src with
                     | Some sb when !o.t_cfg = default_cfg ->
                       (match split !o.t_sep (cstr_of sb) with
                        | Fault x -> err := Some ("FAULT:" ^ fault_name x); base
                        | Ok r -> base ^ " / " ^ show_tokens (opt_list r))
                     | _ -> base) in
                parts := txt :: !parts) outs;
            o := o'
          end) ops;
  match !err with
  | Some e -> e
  | None -> if !parts = [] then "-" else String.concat " ; " (List.rev !parts)

let rec run = function
  | "tokobj" :: s0 :: rest -> run_tokobj s0 rest
  | ["all"; s] ->
    let parts = List.map (fun (op, d) -> run [op; d; s])
        [("split","N");("split","3a");("split","203a");("split","6162");
         ("tok","N");("tok","3a");("tok","203a");("tok","6162")] @ [run ["words"; s]] in
    let bad p = String.length p >= 5 && (String.sub p 0 5 = "FAULT" || String.sub p 0 5 = "DRIVE") in
    (match List.filter bad parts with
     | e :: _ -> e
     | [] -> String.concat " | " parts)
  | ["split"; d; s] ->
    let sb = zbytes_of_hex s in
    (match split (dset d) (cstr_of sb) with
     | Fault x -> "FAULT:" ^ fault_name x
     | Ok r -> let l = opt_list r in
       if l <> tokens (dset d) sb then "DRIVER-ERROR:model!=spec" else show_tokens l)
  | ["splitbig"; d; u; k] ->
    (* specification only: the model's checked reads are quadratic on lists *)
    let sb = List.concat (List.init (int_of_string k) (fun _ -> zbytes_of_hex u)) in
    let l = tokens (dset d) sb in
    "T " ^ string_of_int (List.length l) ^
    (if l = [] then "" else " " ^ hex_of_zbytes (List.hd l) ^ " " ^ hex_of_zbytes (last l))
  | ["tok"; d; s] ->
    let sb = zbytes_of_hex s in
    (match tok_eval (dset d) (cstr_of sb) with
     | Fault x -> "FAULT:" ^ fault_name x
     | Ok l -> if l <> List.map trim (tokens (dset d) sb) then "DRIVER-ERROR:model!=spec" else show_tokens l)
  | "join" :: sep :: ts ->
    let tl = List.map zbytes_of_hex ts in
    (match join (dset sep) tl with
     | Fault x -> "FAULT:" ^ fault_name x
     | Ok None -> "NULL"
     | Ok (Some b) ->
       let r = take_str b in
       if r <> join_spec (match dset sep with None -> [] | Some s -> s) tl then "DRIVER-ERROR:model!=spec"
       else "J " ^ hex_of_zbytes r)
  | "rt" :: d :: sep :: ts ->
    let tl = List.map zbytes_of_hex ts in
    (match join (dset sep) tl with
     | Fault x -> "FAULT:" ^ fault_name x
     | Ok None -> "NULL"
     | Ok (Some b) ->
       let r = take_str b in
       (match split (dset d) (cstr_of r) with
        | Fault x -> "FAULT:" ^ fault_name x
        | Ok l -> "J " ^ hex_of_zbytes r ^ " " ^ show_tokens (opt_list l)))
  | ["words"; s] ->
    let sb = zbytes_of_hex s in
    let b = cstr_of sb in
    (match num_words b with
     | Fault x -> "FAULT:" ^ fault_name x
     | Ok nz ->
       let n = int_of_z nz in
       let ws = words sb in
       let buf = Buffer.create 64 in
       let err = ref (if n <> List.length ws then Some "DRIVER-ERROR:model!=spec" else None) in
       Buffer.add_string buf ("N " ^ string_of_int n);
       for i = 0 to n + 1 do
         (match get_word (z_of_int i) b with
          | Fault x -> if !err = None then err := Some ("FAULT:" ^ fault_name x)
          | Ok w ->
            if i >= 1 && i <= n && w <> nth_opt ws (i - 1) && !err = None then err := Some "DRIVER-ERROR:model!=spec";
            Buffer.add_string buf (" ; W:" ^ (match w with None -> "NULL" | Some t -> hex_of_zbytes t)));
         (match get_pword (z_of_int i) b with
          | Fault x -> if !err = None then err := Some ("FAULT:" ^ fault_name x)
          | Ok p ->
            if p <> pword_spec (z_of_int i) sb && !err = None then err := Some "DRIVER-ERROR:model!=spec";
            Buffer.add_string buf (" P:" ^ (match p with None -> "NULL" | Some o -> string_of_int (int_of_z o))))
       done;
       (match !err with Some e -> e | None -> Buffer.contents buf))
  | _ -> "DRIVER-ERROR:bad-case"
let () = main_loop run
