(* Model driver of family `cont_linked_list`: runs a history of class linked_list through the
   extracted POINTER-LEVEL model (coq/Cont/LListModel.v) and prints it in the format documented at
   the top of harness/cont.c: the A part exactly as driver/cont_main.ml prints it from the spec
   (here computed from the model's own return values and the model's own get / iterator /
   get_keys ... read-back on the store), then after '|' the level-B structure dump
   `L len=<n> next=[..]` read off the store along head->next.  Histories of the other two
   classes are answered with `SKIP`. *)
let key_of_string (s : string) : key = List.init (String.length s) (fun i -> z_of_int (Char.code s.[i]))
let string_of_key (k : key) : string =
  String.concat "" (List.map (fun z -> String.make 1 (Char.chr ((int_of_z z) land 255))) k)

let next_id = ref 0
let mk_elem (s : string) : elem =
  let e = { eid = nat_of_int !next_id; ekey = key_of_string s } in incr next_id; e
let mk_opt (s : string) : elem option = if s = "_" then None else Some (mk_elem s)

let pb b = if b then "T" else "F"
let pe = function None -> "_" | Some e -> string_of_int (int_of_nat e.eid)
let ptx = function None -> "_" | Some k -> string_of_key k
let ppr = function None -> "_" | Some (k, v) -> string_of_key k ^ "=" ^ string_of_key v
let plist f l = "[" ^ String.concat "," (List.map f l) ^ "]"

let show_out = function
  | OBool b -> pb b
  | OInt z -> string_of_int (int_of_z z)
  | OElem e -> pe e
  | OElems l -> plist pe l
  | ODup (n, s, g) -> string_of_int (int_of_z n) ^ "/" ^ plist ptx s ^ "/" ^ plist ptx g
  | OText t -> ptx t
  | OPair p -> ppr p
  | OTexts l -> plist string_of_key l
  | OPairs l -> plist (fun p -> ppr (Some p)) l
  | OUnit -> "-"

let parse_lop (a : string list) : lop =
  match a with
  | ["append"; k] -> LAppend (mk_elem k)
  | ["prepend"; k] -> LPrepend (mk_elem k)
  | ["insert"; k] -> LInsert (mk_elem k)
  | ["insert_at"; i; k] -> LInsertAt (z_of_int (int_of_string i), mk_elem k)
  | ["remove"; k] -> LRemove (mk_opt k)
  | ["remove_at"; i] -> LRemoveAt (z_of_int (int_of_string i))
  | ["get"; i] -> LGet (z_of_int (int_of_string i))
  | ["index"; k] -> LIndex (mk_elem k)
  | ["find"; k] -> LFind (mk_opt k)
  | ["contains"; k] -> LContains (mk_opt k)
  | ["count"] -> LCount
  | ["reverse"] -> LReverse
  | ["to_array"] -> LToArray
  | ["iterate"] -> LIterate
  | ["dup"] -> LDup
  | _ -> failwith "bad-op"

let parse_vop (a : string list) : vop =
  match a with
  | ["insert"; k] -> VInsert (mk_elem k)
  | ["remove"; k] -> VRemove (mk_elem k)
  | ["find"; k] -> VFind (mk_elem k)
  | ["contains"; k] -> VContains (mk_elem k)
  | ["count"] -> VCount
  | ["iterate"] -> VIterate
  | ["to_array"] -> VToArray
  | _ -> failwith "bad-op"

let parse_mop (a : string list) : mop =
  match a with
  | ["set"; k; v] -> MSet (key_of_string k, key_of_string v)
  | ["get"; k] -> MGet (key_of_string k)
  | ["remove"; k] -> MRemove (key_of_string k)
  | ["has_key"; k] -> MHasKey (key_of_string k)
  | ["has_value"; v] -> MHasValue (key_of_string v)
  | ["count"] -> MCount
  | ["get_keys"] -> MGetKeys
  | ["get_values"] -> MGetValues
  | ["get_pairs"] -> MGetPairs
  | ["iterate"] -> MIterate
  | ["mutk"; t] -> MMutK (key_of_string t)
  | ["mutv"; t] -> MMutV (key_of_string t)
  | ["delk"] -> MDelK
  | ["delv"] -> MDelV
  | ["newpair"] -> MNewPair
  | _ -> failwith "bad-op"

exception Model_fault of string
let get = function Ok a -> a | Fault x -> raise (Model_fault (fault_name x))

(* ---- vector bookkeeping of the harness: which objects the vector currently stores ------------ *)
let inset : (int, unit) Hashtbl.t = Hashtbl.create 64
let seen : (int, int) Hashtbl.t = Hashtbl.create 64
let idof (e : elem) = int_of_nat e.eid
let pv = function
  | None -> "_"
  | Some e ->
    if Hashtbl.mem inset (idof e) then begin
      Hashtbl.replace seen (idof e) (1 + (try Hashtbl.find seen (idof e) with Not_found -> 0));
      string_of_key e.ekey end
    else "?"
let seen_reset () = Hashtbl.reset seen
let seen_all_once () =
  Hashtbl.fold (fun id () ok -> ok && (try Hashtbl.find seen id with Not_found -> 0) = 1) inset true
  && Hashtbl.fold (fun id n ok -> ok && (Hashtbl.mem inset id || n = 0)) seen true

(* ---- per interface: step, A read-back, B dump ------------------------------------------------- *)
let bdump px st =
  let (s, o) = st in
  Printf.sprintf "L len=%d next=%s" (int_of_z o.ll_len) (plist px (get (ll_dump s o)))

let list_rb st =
  let ((n, g), i) = get (ll_list_readback st) in
  Printf.sprintf "n=%d g=%s i=%s" (int_of_z n) (plist pe g) (plist pe i)

let vec_rb st =
  let ((n, i), a) = get (ll_vec_readback st) in
  seen_reset ();
  let si = plist pv i in
  let ok1 = seen_all_once () in
  seen_reset ();
  let sa = plist pv a in
  let ok2 = seen_all_once () in
  Printf.sprintf "n=%d i=%s a=%s m=%s" (int_of_z n) si sa (if ok1 && ok2 then "ok" else "BAD")

let map_rb st =
  let ((((n, k), v), p), i) = get (ll_map_readback st) in
  let pr x = ppr (Some x) in
  Printf.sprintf "n=%d k=%s v=%s p=%s i=%s" (int_of_z n) (plist string_of_key k) (plist string_of_key v)
    (plist pr p) (plist pr i)

let history step parse show rb px init after (ops : string list) : string =
  let b = Buffer.create 256 in
  let st = ref init in
  (try
     List.iter (fun o ->
         let op = parse (String.split_on_char ':' o) in
         let (st', r) = get (step !st op) in
         st := st';
         let sr = show op r in
         after op r;
         Buffer.add_string b (sr ^ " " ^ rb st' ^ "|" ^ bdump px st' ^ " ; ")) ops;
     (* tear-down: SPIF_OBJ_DEL(container) *)
     let (s, o) = !st in
     let s' = get (ll_del s o) in
     if int_of_nat (live_count s') <> 0 then Buffer.add_string b "LEAK" else Buffer.add_string b "end"
   with Model_fault f -> Buffer.add_string b ("FAULT:" ^ f));
  Buffer.contents b

let show_vout _ = function
  | OElem e -> pv e
  | OElems l -> plist pv l
  | o -> show_out o
let vec_after op r =
  match op, r with
  | VInsert e, OBool true -> Hashtbl.replace inset (idof e) ()
  | VRemove _, OElem (Some e) -> Hashtbl.remove inset (idof e)
  | _ -> ()

let run = function
  | [iface; cls; ops] ->
    if cls <> "linked_list" then "SKIP" else begin
      next_id := 0;
      Hashtbl.reset inset; Hashtbl.reset seen;
      let ol = String.split_on_char ';' ops in
      let pxp = function None -> "_" | Some p -> ppr (Some p) in
      match iface with
      | "list" -> history ll_list_step parse_lop (fun _ r -> show_out r) list_rb pe lst0 (fun _ _ -> ()) ol
      | "vector" -> history ll_vec_step parse_vop show_vout vec_rb pe lst0 vec_after ol
      | "map" -> history ll_map_step parse_mop (fun _ r -> show_out r) map_rb pxp mst0 (fun _ _ -> ()) ol
      | _ -> "DRIVER-ERROR:bad-interface"
    end
  | _ -> "DRIVER-ERROR:bad-case"
let () = main_loop run
