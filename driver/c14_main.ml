(* case: url <lookup> <text-hex>     lookup = P | N | S:<port>:<0|1>
   out : <proto> <user> <passwd> <host> <port> <path> <query> U <unparsed text>
         components in hex, "_" = absent, "-" = present and empty *)
let oc = function None -> "_" | Some l -> hex_of_zbytes l
let show_comps c = String.concat " " [oc c.c_proto; oc c.c_user; oc c.c_passwd; oc c.c_host; oc c.c_port; oc c.c_path; oc c.c_query]
let parse_lookup s =
  match String.split_on_char ':' s with
  | ["P"] -> LProto | ["N"] -> LNone
  | ["S"; p; ok] | ["U"; p; ok] -> LServ (z_of_int (int_of_string p), ok = "1")   (* U: found under udp only *)
  | _ -> failwith "lookup"
let run = function
  | ["url"; lk; text] ->
    let s = zbytes_of_hex text in
    let b = List.map (fun c -> Some c) s @ [Some Z0] in
    let l = parse_lookup lk in
    (match url_parse_gen true b (fun _ -> l) with
     | Fault f -> "FAULT:" ^ fault_name f
     | Ok (ret, c) ->
       let (ret2, c2) = parse_pure s (fun _ -> l) in
       if ret <> ret2 || show_comps c <> show_comps c2 then "DRIVER-ERROR:model-vs-pure" else
       show_comps c ^ " U " ^ hex_of_zbytes (unparse_text c))
  | _ -> "DRIVER-ERROR:bad-case"
let () = main_loop run
