(* Model driver of the ownership world (properties C05 and C06; coq/Own/World.v).
   One case line = one program:   <kind> <oracle> ; op ; op ; ...
     kind    any word (own / dupi / ord ...; used for the histogram only)
     oracle  re=-   or   re=<pat>:<flags>:<n>:<sig>,...   for (pattern hex | N, flag bits): n = blocks
             pcre_compile leaves allocated, sig = one 0/1 per probe subject of the harness (does the
             compiled pattern match it); calibrated by the check against the running pcre library
   Operations (arguments blank-separated; h = handle number, _ = NULL, texts in hex, N = NULL text):
     obj | str T | ustr T | mbuff T | pair K V | tok T | url T | re T | cont L|V|M a|l|d
     dup h | done h | init h | del h | comp a b | type h | dump h | dumpall | delall
     append h T | substr h idx cnt | setk p h | setv p h | eval t | setsrc t h | setsep t h
     urlset u f h | unparse u | flags r T | compile r
     lappend c h | lprepend c h | linsert c h | linsert_at c h idx | lremove c p | lremove_at c idx
     lreverse c | vinsert c h | vremove c p | mset m k v | mremove m k | mkeys m d | mvalues m d
     mpairs m d | toarray c | iter c | far (harness allocator only)
     msetp m p     SPIF_MAP_SET(m, pair, NULL), the pair form
     msetown m k   SPIF_MAP_SET(m, k, v) with v the value the map itself stores under k (no entry: no call)
     msetownp m k  SPIF_MAP_SET(m, e, NULL) with e the map's own entry for k
     query c h     count, get, contains, find, index / map get, has_key, has_value with probe h: result ok
     setq t q|d|e c     spif_tok_set_quote / _dquote / _escape(t, c), c = 0..255
     settoks t h|_      spif_tok_set_tokens(t, list h): the tokenizer takes the list over
     tlremove_at t idx  SPIF_LIST_REMOVE_AT(spif_tok_get_tokens(t), idx): the element is handed back
     tlappend t h       SPIF_LIST_APPEND(spif_tok_get_tokens(t), h)
     mappend h sel T    append_from_ptr(get_<member>(h), T) on a text member reached through its getter
                        (tok: 0 src, 1 sep; objpair: 0 key, 1 value; url: 0..6 proto..query)
     setlen h k         k < 0: set_size(get_size()), set_len(get_len()) of a str / ustr / mbuff;
                        k >= 0: spif_mbuff_set_len(h, k) with k <= len
     fnew C V K T pos   spif_<C>_new_from_fp / _from_fd, C = str|ustr|mbuff|tok, V = fp|fd, K = reg (regular file
                        holding T, stream at offset pos) | pipe (holding T, write end closed) | closed (a closed
                        descriptor) | bad (NULL FILE* / descriptor -1); result h<n> or h<n>=_ (NULL)
   Read-back of a tokenizer: t(src,sep,tokens;quote.dquote.escape).
   Read-back of a regexp: r:<pattern>:<flag bits>:<sig>, sig = what the object MATCHES (the model has the
   value (pattern, flags); the signature is the oracle's for that value, all 0 when nothing compiles).
   Output: one token <result>/<ledger> per operation (ledger = live blocks since program start);
   a fault anywhere prints FAULT:<kind> only. *)

let hex_or_null s = if s = "N" then None else Some (zbytes_of_hex s)
let show_text = function None -> "N" | Some t -> hex_of_zbytes t
let nat_s n = string_of_int (int_of_nat n)
let hnd s = nat_of_int (int_of_string s)
let hopt s = if s = "_" then None else Some (hnd s)
let zint s = z_of_int (int_of_string s)

let cls_c = function Arr -> "a" | LL -> "l" | DL -> "d"
let if_c = function IList -> "L" | IVector -> "V" | IMap -> "M"

(* the oracle table of the case being run *)
let cur_table : (string * int * int * string) list ref = ref []
let nprobes = 12
let re_sig (s : z list option) (f : z) : string =
  match s with
  | None -> String.make nprobes '0'
  | Some _ ->
    let key = show_text s and fl = int_of_z f in
    (match List.find_opt (fun (p, g, _, _) -> p = key && g = fl) !cur_table with
     | Some (_, _, _, sg) -> sg
     | None -> failwith ("pcre-oracle-missing:" ^ key ^ ":" ^ string_of_int fl))

let rec show_obj (o : obj) : string =
  match o with
  | OObj _ -> "o"
  | OStr s -> "s:" ^ show_text s
  | OUstr s -> "u:" ^ show_text s
  | OMbuff s -> "m:" ^ show_text s
  | OPair (k, v) -> "p(" ^ show_opt k ^ "," ^ show_opt v ^ ")"
  | OTok (a, b, c, ((q, dq), e)) ->
    "t(" ^ show_opt a ^ "," ^ show_opt b ^ "," ^ show_opt c ^ ";" ^ string_of_int (int_of_z q) ^ "." ^ string_of_int (int_of_z dq)
    ^ "." ^ string_of_int (int_of_z e) ^ ")"
  | OUrl (s, cs) -> "U(" ^ show_text s ^ ";" ^ String.concat "," (List.map show_opt cs) ^ ")"
  | ORegexp (s, f, _) -> "r:" ^ show_text s ^ ":" ^ string_of_int (int_of_z f) ^ ":" ^ re_sig s f
  | OCont (i, c, _, _, items) -> if_c i ^ cls_c c ^ "[" ^ String.concat "," (List.map show_opt items) ^ "]"
  | OIter (c, _) -> "i" ^ cls_c c
  | ORaw -> "raw"
and show_opt = function None -> "_" | Some o -> show_obj o

let ascii_of_zs l = String.concat "" (List.map (fun z -> String.make 1 (Char.chr (int_of_z z))) l)

let show_out = function
  | RUnit -> "ok"
  | RBool b -> b2s b
  | RNew (h, null) -> "h" ^ nat_s h ^ (if null then "=_" else "")
  | RCmp (c, adep) ->
    (* a result decided by addresses is printed only when the harness's allocator is the
       model's monotone one (LV_EXACT set by the check for the sanitizer-free build) *)
    if adep && Sys.getenv_opt "LV_EXACT" = None then "@"
    else (if adep then "@" else "") ^ (match c with CLt -> "L" | CEq -> "E" | CGt -> "G")
  | RType t -> (match class_name t with Some n -> ascii_of_zs n | None -> "?")
  | RVal v -> show_opt v
  | RVals l -> "{" ^ String.concat "," (List.map (fun (h, o) -> "h" ^ nat_s h ^ "=" ^ show_obj o) l) ^ "}"

let parse_op (toks : string list) : op =
  match toks with
  | ["obj"] -> NewObj
  | ["str"; t] -> NewStr (hex_or_null t)
  | ["ustr"; t] -> NewUstr (hex_or_null t)
  | ["mbuff"; t] -> NewMbuff (hex_or_null t)
  | ["pair"; k; v] -> NewPair (hopt k, hopt v)
  | ["tok"; t] -> NewTok (hex_or_null t)
  | ["url"; t] -> NewUrl (hex_or_null t)
  | ["re"; t] -> NewRegexp (hex_or_null t)
  | ["cont"; i; c] ->
    NewCont ((match i with "L" -> IList | "V" -> IVector | "M" -> IMap | _ -> failwith "iface"),
             (match c with "a" -> Arr | "l" -> LL | "d" -> DL | _ -> failwith "class"))
  | ["dup"; h] -> Dup (hnd h)
  | ["done"; h] -> Done (hnd h)
  | ["init"; h] -> Init (hnd h)
  | ["del"; h] -> Del (hnd h)
  | ["comp"; a; b] -> Comp (hopt a, hopt b)
  | ["type"; h] -> TypeOf (hnd h)
  | ["dump"; h] -> Dump (hnd h)
  | ["dumpall"] -> DumpAll
  | ["delall"] -> DelAll
  | ["append"; h; t] -> Append (hnd h, zbytes_of_hex t)
  | ["substr"; h; i; c] -> Substr (hnd h, zint i, zint c)
  | ["setk"; p; h] -> SetKey (hnd p, hopt h)
  | ["setv"; p; h] -> SetValue (hnd p, hopt h)
  | ["eval"; t] -> TokEval (hnd t)
  | ["setsrc"; t; h] -> TokSetSrc (hnd t, hopt h)
  | ["setsep"; t; h] -> TokSetSep (hnd t, hopt h)
  | ["urlset"; u; f; h] -> UrlSet (hnd u, hnd f, hopt h)
  | ["unparse"; u] -> UrlUnparse (hnd u)
  | ["flags"; r; t] -> ReSetFlags (hnd r, zbytes_of_hex t)
  | ["compile"; r] -> ReCompile (hnd r)
  | ["lappend"; c; h] -> LAppend (hnd c, hnd h)
  | ["lprepend"; c; h] -> LPrepend (hnd c, hnd h)
  | ["linsert"; c; h] -> LInsert (hnd c, hnd h)
  | ["linsert_at"; c; h; i] -> LInsertAt (hnd c, hnd h, zint i)
  | ["lremove"; c; p] -> LRemove (hnd c, hnd p)
  | ["lremove_at"; c; i] -> LRemoveAt (hnd c, zint i)
  | ["lreverse"; c] -> LReverse (hnd c)
  | ["vinsert"; c; h] -> VInsert (hnd c, hnd h)
  | ["vremove"; c; p] -> VRemove (hnd c, hnd p)
  | ["mset"; m; k; v] -> MSet (hnd m, hnd k, hnd v)
  | ["msetp"; m; p] -> MSetPair (hnd m, hnd p)
  | ["msetown"; m; k] -> MSetOwn (hnd m, hnd k, false)
  | ["msetownp"; m; k] -> MSetOwn (hnd m, hnd k, true)
  | ["mremove"; m; k] -> MRemove (hnd m, hnd k)
  | ["mkeys"; m; d] -> MKeys (hnd m, hopt d)
  | ["mvalues"; m; d] -> MValues (hnd m, hopt d)
  | ["mpairs"; m; d] -> MPairs (hnd m, hopt d)
  | ["toarray"; c] -> ToArray (hnd c)
  | ["iter"; c] -> Iterator (hnd c)
  | ["query"; c; h] -> Query (hnd c, hnd h)
  | ["setq"; t; wh; c] ->
    TokSetChar (hnd t, nat_of_int (match wh with "q" -> 0 | "d" -> 1 | "e" -> 2 | _ -> 3), zint c)
  | ["settoks"; t; h] -> TokSetTokens (hnd t, hopt h)
  | ["tlremove_at"; t; i] -> TokListRemoveAt (hnd t, zint i)
  | ["tlappend"; t; h] -> TokListAppend (hnd t, hnd h)
  | ["mappend"; h; sel; t] -> MemberAppend (hnd h, hnd sel, zbytes_of_hex t)
  | ["setlen"; h; k] -> SetLen (hnd h, zint k)
  | ["fnew"; c; v; k; t; pos] ->
    NewFromStream ((match c with "str" -> SStr | "ustr" -> SUstr | "mbuff" -> SMbuff | "tok" -> STok | _ -> failwith "fnew-class"),
                   (match v with "fp" -> VFp | "fd" -> VFd | _ -> failwith "fnew-via"),
                   (match k with "reg" -> KReg | "pipe" -> KPipe | "closed" -> KClosed | "bad" -> KBad | _ -> failwith "fnew-kind"),
                   zbytes_of_hex t, zint pos)
  | _ -> failwith ("bad-op:" ^ String.concat " " toks)

(* split a token list at ";" *)
let split_ops (toks : string list) : string list list =
  let rec go cur acc = function
    | [] -> List.rev (if cur = [] then acc else List.rev cur :: acc)
    | ";" :: t -> go [] (if cur = [] then acc else List.rev cur :: acc) t
    | x :: t -> go (x :: cur) acc t in
  go [] [] toks

let parse_oracle (s : string) : (string * int * int * string) list =
  (* re=<pat>:<flags>:<n>:<sig>,... *)
  if String.length s < 3 || String.sub s 0 3 <> "re=" then failwith "oracle";
  let body = String.sub s 3 (String.length s - 3) in
  if body = "-" then [] else
  List.map (fun e -> match String.split_on_char ':' e with
      | [p; f; n; sg] -> (p, int_of_string f, int_of_string n, sg)
      | _ -> failwith "oracle-entry") (String.split_on_char ',' body)

let run_case = function
  (* "big comp <class> <A> <B>": objects of 2^31-1 bytes and more over sparse mappings.  The value-tree model is NOT
     evaluated there (the theorems quantify over every length); the harness compares the implementation's answers
     with the lexicographic order computed from the lengths (harness/bigmap.h) and prints this: *)
  | "big" :: _ -> "BIG:ok"
  | _kind :: oracle :: rest ->
    let table = parse_oracle oracle in
    cur_table := table;
    let pcre (pat : z list option) (flags : z) : z =
      let key = show_text pat and f = int_of_z flags in
      (match List.find_opt (fun (p, fl, _, _) -> p = key && fl = f) table with
       | Some (_, _, n, _) -> z_of_int n
       | None -> failwith ("pcre-oracle-missing:" ^ key ^ ":" ^ string_of_int f)) in
    (* `far` only moves the harness's allocator (the next block lies 2^31 bytes higher); the
       model's allocator is monotone anyway, so it is a no-op here *)
    let rec go w acc = function
      | [] -> String.concat " " (List.rev acc)
      | ["far"] :: t -> go w (("ok/" ^ string_of_int (int_of_z w.ledger)) :: acc) t
      | o :: t ->
        (match step pcre re_flag_table w (parse_op o) with
         | Fault f -> "FAULT:" ^ fault_name f
         | Ok (w1, r) -> go w1 ((show_out r ^ "/" ^ string_of_int (int_of_z w1.ledger)) :: acc) t) in
    go w0 [] (split_ops rest)
  | _ -> "DRIVER-ERROR:bad-case"

let () = main_loop run_case
