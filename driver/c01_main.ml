(* C01 model driver.  One case line = one whole history:
     <class> <ctor> <op> <op> ...         class = str | ustr (ignored here: one model serves both)
   a token is name,arg,arg...; texts are hex ("-" empty, "N" the NULL pointer, "hex*n" = the
   pattern repeated/cut to n bytes); see checks/c01.py for the grammar.
   Output: one segment per step (constructor first), segments separated by " | ":
     r=<ret> l=<len> t=<text> f=<flags> z=<size> ol=.. ot=.. of=.. oz=..                      *)
let comma s = String.split_on_char ',' s
let ios = int_of_string
(* decimal string -> Z without going through OCaml's 63-bit int (LONG_MIN / LONG_MAX occur) *)
let z_of_string (s : string) : z =
  let neg = String.length s > 0 && s.[0] = '-' in
  let digits = if neg then String.sub s 1 (String.length s - 1) else s in
  if String.length digits <= 17 then z_of_int (ios s)
  else begin
    let k = String.length digits - 9 in
    let hi = z_of_int (ios (String.sub digits 0 k)) and lo = z_of_int (ios (String.sub digits k 9)) in
    let v = Z.add (Z.mul hi (z_of_int 1000000000)) lo in
    if neg then Z.opp v else v
  end
let zi s = z_of_string s

let text_of_tok (s : string) : int list =
  match String.index_opt s '*' with
  | None -> ints_of_hex s
  | Some k ->
    let pat = Array.of_list (ints_of_hex (String.sub s 0 k)) in
    let n = ios (String.sub s (k + 1) (String.length s - k - 1)) in
    let m = Array.length pat in
    List.init n (fun i -> pat.(i mod m))
let ztext s = List.map z_of_int (text_of_tok s)
let optztext s = if s = "N" then None else Some (ztext s)
let cells_of_tok (s : string) : z option list =
  match String.index_opt s '*' with
  | Some _ -> List.map (fun c -> Some c) (ztext s)
  | None -> zcells_of_hex s

let sched_of_tok (s : string) : rd_event list =
  if s = "-" then [] else
  List.map (fun e ->
      match e.[0] with
      | 'd' -> Data (ztext (String.sub e 1 (String.length e - 1)))
      | 'i' -> EINTR | 'a' -> EAGAIN | 'e' -> EOF | 'x' -> Err
      | _ -> failwith "sched") (String.split_on_char ':' s)

let ctor_of = function
  | ["init"] -> CInit
  | ["ptr"; t] -> CPtr (optztext t)
  | ["buff"; b; n] -> CBuff ((if b = "N" then None else Some (cells_of_tok b)), zi n)
  | ["fp"; t] | ["fpp"; t] -> CFp (ztext t)            (* file / pipe *)
  | ["fdp"; t] -> CFd [Data (ztext t)]                  (* real pipe, kernel read() *)
  | ["fd"; s] -> CFd (sched_of_tok s)
  | ["num"; n] -> CNum (zi n)
  | _ -> failwith "ctor"

let bytes_of_string (s : string) : z list = List.init (String.length s) (fun i -> z_of_int (Char.code s.[i]))

let kind_of = function
  | "p" :: r -> (CmpPlain, r) | "c" :: r -> (CmpCase, r)
  | "n" :: n :: r -> (CmpN (zi n), r) | "nc" :: n :: r -> (CmpNCase (zi n), r)
  | _ -> failwith "cmp kind"

let op_of (tok : string) : op =
  match comma tok with
  | "re" :: c -> OReinit (ctor_of c)
  | ["done"] -> ODone
  | ["onull"] -> OOtherNull
  | "on" :: c -> OOtherNew (ctor_of c)
  | ["odup"] -> OOtherDup
  | ["osub"; i; c] -> OOtherSubstr (zi i, zi c)
  | ["swap"] -> OSwap
  | ["app"] -> OAppend
  | ["appp"; t] -> OAppendPtr (optztext t)
  | ["appc"; c] -> OAppendChar (zi c)
  | ["pre"] -> OPrepend
  | ["prep"; t] -> OPrependPtr (optztext t)
  | ["prec"; c] -> OPrependChar (zi c)
  | ["spl"; i; c] -> OSplice (zi i, zi c)
  | ["splp"; i; c; t] -> OSplicePtr (zi i, zi c, optztext t)
  | ["trim"] -> OTrim
  | ["rev"] -> OReverse
  | ["up"] -> OUpcase
  | ["down"] -> ODowncase
  | ["clr"; c] -> OClear (zi c)
  | ["spf"; "N"] -> OSprintf FmtNull
  | ["spf"; "E"] -> OSprintf FmtEmpty
  | ["spf"; "s"; t] -> OSprintf (FmtText (ztext t))                       (* "%s" *)
  | ["spf"; "d"; n; t] ->                                                 (* "[%d]%s" *)
    OSprintf (FmtText (bytes_of_string ("[" ^ string_of_int (ios n) ^ "]") @ ztext t))
  | ["subp"; i; c] -> OSubstrToPtr (zi i, zi c)
  | "cmp" :: k -> let (k, _) = kind_of k in OCmp k
  | "cmpp" :: k -> (match kind_of k with (k, [t]) -> OCmpPtr (k, optztext t) | _ -> failwith "cmpp")
  | ["find"] -> OFind
  | ["findp"; t] -> OFindPtr (optztext t)
  | ["idx"; c] -> OIndex (zi c)
  | ["ridx"; c] -> ORindex (zi c)
  | ["tonum"; b] -> OToNum (zi b)
  | ["flt"] -> OToFloat
  | ["glen"] -> OGetLen
  | ["gsize"] -> OGetSize
  | ["same"] -> OSetSame
  | _ -> failwith ("op " ^ tok)

(* ---- printing ---- *)
let rec string_of_pos_dec p = (* decimal of a positive that may exceed OCaml's int *)
  (* values printed are below 2^64; use two limbs of 10^9 *)
  let rec to_limbs p = (* little-endian base 10^9 *)
    match p with
    | XH -> [1]
    | XO q -> dbl (to_limbs q) 0
    | XI q -> dbl (to_limbs q) 1
  and dbl l carry =
    match l with
    | [] -> if carry = 0 then [] else [carry]
    | x :: r -> let v = 2 * x + carry in (v mod 1000000000) :: dbl r (v / 1000000000)
  in
  match List.rev (to_limbs p) with
  | [] -> "0"
  | hd :: tl -> String.concat "" (string_of_int hd :: List.map (Printf.sprintf "%09d") tl)
let string_of_z = function
  | Z0 -> "0" | Zpos p -> string_of_pos_dec p | Zneg p -> "-" ^ string_of_pos_dec p

let hash_limit = 40
let text_obs (cells : z option list) (len : int) : string =
  (* the first len cells (as many as exist) *)
  let rec take k l = if k <= 0 then [] else match l with [] -> [] | x :: r -> x :: take (k - 1) r in
  let cs = take len cells in
  if cs = [] then "-"
  else if List.length cs <= hash_limit then hex_of_zcells cs
  else if List.exists (fun c -> c = None) cs then "#??"
  else
    let h = List.fold_left (fun h c -> match c with Some v -> (h * 31 + int_of_z v + 1) mod 1073741789 | None -> h) 7 cs in
    Printf.sprintf "#%d" h

let obs (pre : string) (o : str) : string =
  let len = int_of_z o.str_len and size = int_of_z o.str_size in
  match o.str_s with
  | None -> Printf.sprintf "%sl=%d %st=- %sf=N %sz=%d" pre len pre pre pre size
  | Some b ->
    let alloc = List.length b in
    let nul = if len >= 0 && len < alloc then (match List.nth b len with Some Z0 -> 1 | _ -> 0) else 0 in
    Printf.sprintf "%sl=%d %st=%s %sf=%d%d%d %sz=%d" pre len pre (text_obs b len) pre
      nul (if size > len then 1 else 0) (if alloc >= size then 1 else 0) pre size

let obs_state ((o, other) : str * str option) : string =
  obs "" o ^ " " ^ (match other with None -> "ol=N" | Some x -> obs "o" x)

let show_out = function
  | RUnit -> "u"
  | RBool b -> if b then "b1" else "b0"
  | RInt v -> "i" ^ string_of_z v
  | RSize v -> "S" ^ string_of_z v
  | ROpen b -> if b then "O1" else "O0"
  | RPtr None -> "N"
  | RPtr (Some b) ->
    (match read_cstr b with
     | Ok t -> Printf.sprintf "p%d:%s" (List.length b) (hex_of_zbytes t)
     | Fault x -> "pFAULT:" ^ fault_name x)
  | RText _ -> "F1"

let run_case = function
  | _cls :: c :: ops ->
    (match construct (ctor_of (comma c)) with
     | Fault x -> "FAULT:" ^ fault_name x
     | Ok o ->
       let b = Buffer.create 256 in
       Buffer.add_string b ("r=b1 " ^ obs_state (o, None));
       let rec go st = function
         | [] -> Buffer.contents b
         | t :: r ->
           (match step st (op_of t) with
            | Fault x -> "FAULT:" ^ fault_name x
            | Ok (out, st') ->
              Buffer.add_string b (" | r=" ^ show_out out ^ " " ^ obs_state st');
              go st' r)
       in go (o, None) ops)
  | _ -> "DRIVER-ERROR:bad-case"
let () = main_loop run_case
