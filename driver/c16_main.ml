(* C16 model driver: the prediction of Guard/GuardModel.v for one cell of the regenerated table.
   case lines:
     cell  <function> <parameter position> <runtime level> <class>   -> RET v alloc=a chg=c | FATAL ... | CRASH | CARRY | GONE
     probe <function> <parameter position> <runtime level>           -> NOFAULT   (probe-only cells: no theorem)
     listcells                                                                     -> f:p:class:ok;...  (all cells of the table)
     listslots                                                                     -> f:p;...  (methods that do not guard their object argument)
     listmeta                                                                      -> sizes, unparsed entries, translator errors *)
let str_of_fname f = String.concat "" (List.map (fun n -> String.make 1 (Char.chr (int_of_n n))) (fname_codes f))
let rv_name = function
  | RvVoid -> "VOID" | RvFalse -> "FALSE" | RvTrue -> "TRUE" | RvNull -> "NULL" | RvNullStr -> "NULLSTR"
  | RvNeg1 -> "-1" | RvZero -> "0" | RvNaN -> "NAN" | RvCmpLess -> "LESS" | RvCmpEqual -> "EQUAL"
  | RvCmpGreater -> "GREATER" | RvCall f -> "CALL:" ^ str_of_fname f | RvHandled -> "HANDLED" | RvOther -> "OTHER"
let class_name = function FailSoft -> "FailSoft" | Fallback -> "Fallback" | Handled -> "Handled" | Unguarded -> "Unguarded"
let b2s b = if b then "1" else "0"
(* chg: the property's "no effect" clause is claimed for FailSoft cells only *)
let show cls (o, a) =
  let chg = if cls = "FailSoft" then "0" else "-" in
  match o with
  | Returned v -> Printf.sprintf "RET %s alloc=%s chg=%s" (rv_name v) (if cls = "FailSoft" then b2s a else "-") chg
  | Fatal -> Printf.sprintf "FATAL alloc=%s chg=%s | assert-msg" (if cls = "FailSoft" then b2s a else "-") chg
  | Crashed -> "CRASH"
  | Carried_on -> "CARRY"
let nat s = nat_of_int (int_of_string s)
let index_of name =
  let rec go k = function [] -> None | e :: r -> if str_of_fname e.e_name = name then Some k else go (k + 1) r in
  go 0 table
let run = function
  | ["cell"; name; p; lvl; cls] ->
    (match index_of name with
     | None -> "GONE"                       (* a corpus case about a function that no longer exists *)
     | Some idx ->
       (match predict guard_sems table (nat_of_int idx) (nat p) (nat lvl) with
        | Some (_, r) -> show cls r
        | None -> "DRIVER-ERROR:no-entry"))
  | ["probe"; name; _; _] -> (match index_of name with None -> "GONE" | Some _ -> "NOFAULT")
  | ["listcells"] ->
    String.concat ";" (List.map (fun (((f, p), cls), ok) ->
        Printf.sprintf "%s:%d:%s:%s" (str_of_fname f) (int_of_nat p) (class_name cls) (b2s ok))
        (cell_report guard_sems table named_cells))
  | ["listslots"] ->
    String.concat ";" (List.map (fun (f, p) -> Printf.sprintf "%s:%d" (str_of_fname f) (int_of_nat p)) (failing_slots table))
  | ["listmeta"] ->
    Printf.sprintf "digest=%s table=%d named=%d exempt=%s unparsed=%s errors=%d"
      (str_of_fname table_digest) (List.length table) (List.length named_cells)
      (String.concat "," (List.map (fun (f, p) -> Printf.sprintf "%s:%d" (str_of_fname f) (int_of_nat p)) exempt))
      (String.concat "," (List.map str_of_fname (unparsed table)))
      (List.length table_errors)
  | _ -> "DRIVER-ERROR:bad-case"
let () = main_loop run
