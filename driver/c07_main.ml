(* C07 model driver.  One case line = one history:
     <ctor> <ctor-args> <op> <op> ...
   every op is ONE blank-free token, fields separated by ':'.  Output: one step per
   constructor/operation, joined by " | ":   <ret> <len> <hex> <F> <A> <size>[/<extra>]
   (F: size >= len, A: allocation >= size; the last field is level B). *)
let colon s = String.split_on_char ':' s
let b2s b = if b then "1" else "0"
let zi s = z_of_int (int_of_string s)
let ptr_of s = if s = "N" then None else Some (zbytes_of_hex s)

(* other object: N = NULL, E = spif_mbuff_new(), <hex>+<extra> = new_from_buff(bytes, n, n+extra) *)
let other_of s : mb option =
  if s = "N" then None
  else if s = "E" then Some mb_null
  else match String.split_on_char '+' s with
    | [h; x] ->
      let bs = zbytes_of_hex h in
      let n = List.length bs in
      (match init_from_buff (Some (bytes bs)) (z_of_int n) (z_of_int (n + int_of_string x)) with
       | Ok (_, o) -> Some o
       | Fault _ -> failwith "other")
    | _ -> failwith "other-syntax"

let ev_of s =
  if s = "I" then EINTR else if s = "E" then EOF else if s = "X" then Err
  else if s.[0] = 'D' then Data (zbytes_of_hex (String.sub s 1 (String.length s - 1)))
  else if s.[0] = 'S' then Short (zbytes_of_hex (String.sub s 1 (String.length s - 1)))
  else failwith "event"
let sched_of s = if s = "-" then [] else List.map ev_of (String.split_on_char ',' s)
let sched_total s =
  List.fold_left (fun a e -> match e with Data b | Short b -> a + List.length b | _ -> a) 0 s
let kind_of k s =
  if k = "P" then Stream
  else let pos = int_of_string (String.sub k 1 (String.length k - 1)) in
    Seekable (z_of_int pos, z_of_int (pos + sched_total s))

let fmt_of s =
  if s = "N" then FNull else if s = "E" then FEmpty
  else if s.[0] = 'S' then FOut (zbytes_of_hex (String.sub s 1 (String.length s - 1)))
  else if s.[0] = 'Z' then
    (match String.split_on_char ',' (String.sub s 1 (String.length s - 1)) with
     | [a; b] -> FOut (zbytes_of_hex a @ [Z0] @ zbytes_of_hex b)
     | _ -> failwith "fmt")
  else failwith "fmt"

let op_of tok : op =
  match colon tok with
  | ["done"] -> Done | ["dup"] -> Dup | ["dupto"] -> DupTo
  | ["ap"; o] -> Append (other_of o)
  | ["app"; p; n] -> AppendPtr (ptr_of p, zi n)
  | ["pp"; o] -> Prepend (other_of o)
  | ["ppp"; p; n] -> PrependPtr (ptr_of p, zi n)
  | ["spl"; i; c; o] -> Splice (zi i, zi c, other_of o)
  | ["splp"; i; c; p; n] -> SplicePtr (zi i, zi c, ptr_of p, zi n)
  | ["sub"; i; c] -> Subbuff (zi i, zi c)
  | ["subp"; i; c] -> SubbuffPtr (zi i, zi c)
  | ["trim"] -> Trim | ["rev"] -> Reverse
  | ["clr"; c] -> Clear (zi c)
  | ["spf"; f] -> Sprintf (fmt_of f)
  | ["cmp"; o] -> Cmp (other_of o)
  | ["cmpp"; p; n] -> CmpPtr (ptr_of p, zi n)
  | ["ncmp"; o; n] -> Ncmp (other_of o, zi n)
  | ["ncmpp"; p; n] -> NcmpPtr (ptr_of p, zi n)
  | ["find"; o] -> Find (other_of o)
  | ["findp"; p; n] -> FindPtr (ptr_of p, zi n)
  | ["idx"; c] -> Index (zi c)
  | ["ridx"; c] -> Rindex (zi c)
  | ["glen"] -> GetLen | ["gsize"] -> GetSize
  | ["slen"; n] -> SetLen (zi n) | ["ssize"; n] -> SetSize (zi n)
  | _ -> failwith ("op:" ^ tok)

let ctor_of name args : ctor =
  match name, colon args with
  | "new", _ -> CNew
  | "ptr", [p; n] -> CPtr (ptr_of p, zi n)
  | "buff", [p; n; sz] -> CBuff (ptr_of p, zi n, zi sz)
  | "fd", [k; _; s] -> let sc = sched_of s in CFd (kind_of k sc, sc)
  | "fp", [k; _; s] -> let sc = sched_of s in CFp (kind_of k sc, sc)
  | _ -> failwith "ctor"

let state_fields (m : mb) : string * string =
  let n = int_of_z m.len in
  let cells = match m.buff with
    | None -> if n > 0 then None else Some []
    | Some b -> Some (List.filteri (fun i _ -> i < n) b) in
  let hex = match cells with None -> "NULLBUF" | Some c -> hex_of_zcells c in
  let f = int_of_z m.size >= n in
  let a = match m.buff with None -> int_of_z m.size = 0 | Some b -> List.length b >= int_of_z m.size in
  (Printf.sprintf "%d %s %s %s" n hex (b2s f) (b2s a), string_of_int (int_of_z m.size))

(* (ret text, extra level-B number) *)
let show_mout = function
  | MBool b -> ((if b then "T" else "F"), "")
  | MIdx i -> ("i" ^ string_of_int (int_of_z i), "")
  | MCmp c -> ("c" ^ string_of_int (int_of_z c), "")
  | MObj None -> ("ONULL", "")
  | MObj (Some o) ->
    let (a, b) = state_fields o in
    ("O:" ^ String.concat ":" (String.split_on_char ' ' a), "/" ^ b)
  | MPtr None -> ("PNULL", "")
  | MPtr (Some c) -> ("P:" ^ hex_of_zcells c, "")
  | MSize z -> ("Z", "/" ^ string_of_int (int_of_z z))

let show_step (x : mout) (m : mb) : string =
  let (r, extra) = show_mout x in
  let (a, b) = state_fields m in
  r ^ " " ^ a ^ " " ^ b ^ extra

let speccheck = (try Sys.getenv "LV_SPECCHECK" = "1" with Not_found -> false)
let out_ok (x : mout) (y : out) = (y = OUnit) || (out_abs x = y)

exception Faulted of fault

let run toks =
  match toks with
  (* "big cmp A B" / "big idx A byte" / "big find A hex": lengths of 2^31-1 and more over sparse mappings.  The model
     is a function on lists of cells and is NOT evaluated there (the theorems quantify over every length); the
     harness compares the implementation with the ideal sequence's answers (harness/bigmap.h) and prints this: *)
  | "big" :: _ -> "BIG:ok"
  | "null" :: _ :: [optok] ->
    (match null_self (op_of optok) with
     | Some x -> "NULLSELF | " ^ fst (show_mout x)
     | None -> "DRIVER-ERROR:no-null-model")
  | name :: args :: optoks ->
    (try
       let c = ctor_of name args in
       let (b, m) = (match run_ctor c with Ok r -> r | Fault f -> raise (Faulted f)) in
       let (sb, ss) = spec_ctor c in
       let bad = ref (speccheck && (sb <> b || ss <> abs m)) in
       let buf = Buffer.create 256 in
       Buffer.add_string buf (show_step (MBool b) m);
       if !bad then Buffer.add_string buf " !SPEC";
       let st = ref m and sp = ref ss in
       List.iter (fun tok ->
           let o = op_of tok in
           match step !st o with
           | Fault f -> raise (Faulted f)
           | Ok (x, m') ->
             st := m';
             Buffer.add_string buf " | ";
             Buffer.add_string buf (show_step x m');
             if speccheck then begin
               let (y, s') = spec_step !sp o in
               sp := s';
               if not (out_ok x y) || s' <> abs m' then Buffer.add_string buf " !SPEC"
             end) optoks;
       Buffer.contents buf
     with Faulted f -> "FAULT:" ^ fault_name f)
  | _ -> "DRIVER-ERROR:bad-case"
let () = main_loop run
