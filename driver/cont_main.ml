(* Model driver of family `cont`: runs a history through the extracted SPEC (coq/Cont/ContSpec.v)
   and prints it in the format documented at the top of harness/cont.c.  The level-B part
   (after '|') is empty here; stage-2 drivers fill it from their pointer-level models. *)
let key_of_string (s : string) : key = List.init (String.length s) (fun i -> z_of_int (Char.code s.[i]))
let string_of_key (k : key) : string =
  String.concat "" (List.map (fun z -> String.make 1 (Char.chr ((int_of_z z) land 255))) k)

let next_id = ref 0
let mk_elem (s : string) : elem =
  let e = { eid = nat_of_int !next_id; ekey = key_of_string s } in incr next_id; e
let mk_opt (s : string) : elem option = if s = "_" then None else Some (mk_elem s)

let pb b = if b then "T" else "F"
let pe = function None -> "_" | Some e -> string_of_int (int_of_nat e.eid)
let ptx = function None -> "_" | Some k -> string_of_key k
let ppr = function None -> "_" | Some (k, v) -> string_of_key k ^ "=" ^ string_of_key v
let plist f l = "[" ^ String.concat "," (List.map f l) ^ "]"

let show_out = function
  | OBool b -> pb b
  | OInt z -> string_of_int (int_of_z z)
  | OElem e -> pe e
  | OElems l -> plist pe l
  | ODup (n, s, g) -> string_of_int (int_of_z n) ^ "/" ^ plist ptx s ^ "/" ^ plist ptx g
  | OText t -> ptx t
  | OPair p -> ppr p
  | OTexts l -> plist string_of_key l
  | OPairs l -> plist (fun p -> ppr (Some p)) l
  | OUnit -> "-"

let parse_lop (a : string list) : lop =
  match a with
  | ["append"; k] -> LAppend (mk_elem k)
  | ["prepend"; k] -> LPrepend (mk_elem k)
  | ["insert"; k] -> LInsert (mk_elem k)
  | ["insert_at"; i; k] -> LInsertAt (z_of_int (int_of_string i), mk_elem k)
  | ["remove"; k] -> LRemove (mk_opt k)
  | ["remove_at"; i] -> LRemoveAt (z_of_int (int_of_string i))
  | ["get"; i] -> LGet (z_of_int (int_of_string i))
  | ["index"; k] -> LIndex (mk_elem k)
  | ["find"; k] -> LFind (mk_opt k)
  | ["contains"; k] -> LContains (mk_opt k)
  | ["count"] -> LCount
  | ["reverse"] -> LReverse
  | ["to_array"] -> LToArray
  | ["iterate"] -> LIterate
  | ["dup"] -> LDup
  | _ -> failwith "bad-op"

let parse_vop (a : string list) : vop =
  match a with
  | ["insert"; k] -> VInsert (mk_elem k)
  | ["remove"; k] -> VRemove (mk_elem k)
  | ["find"; k] -> VFind (mk_elem k)
  | ["contains"; k] -> VContains (mk_elem k)
  | ["count"] -> VCount
  | ["iterate"] -> VIterate
  | ["to_array"] -> VToArray
  | _ -> failwith "bad-op"

let parse_mop (a : string list) : mop =
  match a with
  | ["set"; k; v] -> MSet (key_of_string k, key_of_string v)
  | ["get"; k] -> MGet (key_of_string k)
  | ["remove"; k] -> MRemove (key_of_string k)
  | ["has_key"; k] -> MHasKey (key_of_string k)
  | ["has_value"; v] -> MHasValue (key_of_string v)
  | ["count"] -> MCount
  | ["get_keys"] -> MGetKeys
  | ["get_values"] -> MGetValues
  | ["get_pairs"] -> MGetPairs
  | ["iterate"] -> MIterate
  | ["mutk"; t] -> MMutK (key_of_string t)
  | ["mutv"; t] -> MMutV (key_of_string t)
  | ["delk"] -> MDelK
  | ["delv"] -> MDelV
  | ["newpair"] -> MNewPair
  | _ -> failwith "bad-op"

let sweep l = fst (it_sweep (S (nat_of_int (List.length l))) (it_new l))

let list_rb (xs : lstate) : string =
  let ((n, g), i) = list_readback xs in
  Printf.sprintf "n=%d g=%s i=%s" (int_of_z n) (plist pe g) (plist pe i)
let pk (e : elem) = string_of_key e.ekey
let vec_rb (xs : vstate) : string =
  Printf.sprintf "n=%d i=%s a=%s m=ok" (List.length xs) (plist pk (sweep xs)) (plist pk xs)
(* vector results are shown by key (see harness/cont.c): the class chooses among equal elements *)
let show_vout = function
  | OElem None -> "_"
  | OElem (Some e) -> pk e
  | OElems l -> plist (function None -> "_" | Some e -> pk e) l
  | o -> show_out o
let map_rb (m : mstate) : string =
  let pr p = ppr (Some p) in
  Printf.sprintf "n=%d k=%s v=%s p=%s i=%s" (List.length m)
    (plist string_of_key (List.map fst m)) (plist string_of_key (List.map snd m))
    (plist pr m) (plist pr (sweep m))

let history ?(show = show_out) step parse rb init (ops : string list) : string =
  let b = Buffer.create 256 in
  let s = ref init in
  List.iter (fun o ->
      let op = parse (String.split_on_char ':' o) in
      let (s', r) = step !s op in
      s := s';
      Buffer.add_string b (show r ^ " " ^ rb s' ^ "| ; ")) ops;
  Buffer.add_string b "end";
  Buffer.contents b

let run = function
  | [iface; cls; ops] ->
    if not (List.mem cls ["array"; "linked_list"; "dlinked_list"]) then "DRIVER-ERROR:bad-class" else begin
      next_id := 0;
      let ol = String.split_on_char ';' ops in
      match iface with
      | "list" -> history list_step parse_lop list_rb [] ol
      | "vector" -> history ~show:show_vout vec_step parse_vop vec_rb [] ol
      | "map" -> history map_step parse_mop map_rb [] ol
      | _ -> "DRIVER-ERROR:bad-interface"
    end
  | _ -> "DRIVER-ERROR:bad-case"
let () = main_loop run
