(* C17 model driver.  Case: "cmp <hex a> <hex b>" or "wf <hex a> <hex b>" (same treatment; "wf"
   marks a pair of well-formed versions for the property oracle of checks/c17.py).
   Result: four values  cmp(a,b) cmp(a,b) cmp(b,a) cmp(b,a)  - the implementation makes each call
   twice under different stack paint; the model is a function, so both are the same value. *)
let show_cmp = function Eq -> "0" | Lt -> "-1" | Gt -> "1"
let run = function
  | [("cmp" | "wf"); a; b] ->
    let a = zbytes_of_hex a and b = zbytes_of_hex b in
    (match vercmp a b, vercmp b a with
     | Ok x, Ok y -> Printf.sprintf "%s %s %s %s" (show_cmp x) (show_cmp x) (show_cmp y) (show_cmp y)
     | Fault f, _ | _, Fault f -> "FAULT:" ^ fault_name f)
  | ["orig"; a; b] ->   (* diagnostics only: unbounded copies, stale-buffer mismatch branch *)
    let a = zbytes_of_hex a and b = zbytes_of_hex b in
    (match vercmp_gen false false a b with Ok x -> show_cmp x | Fault f -> "FAULT:" ^ fault_name f)
  | _ -> "DRIVER-ERROR:bad-case"
let () = main_loop run
