let show_res f = function Ok a -> f a | Fault x -> "FAULT:" ^ fault_name x
let b2s b = if b then "1" else "0"
(* source forms: "strncpy"/"strncat" take the bytes of a C string (the terminator is appended: the block is exactly the
   string and its NUL); "strncpyr"/"strncatr" take raw cells with nothing appended (a block that ends where the helper
   must stop looking).  A leading "pg" only changes where the harness places the blocks (end of a page, PROT_NONE page
   behind): the model's buffers already end where the block ends. *)
let cstr_src src = List.map (fun c -> Some c) (zbytes_of_hex src) @ [Some Z0]
let rec run = function
  | "pg" :: rest when rest <> [] && List.hd rest <> "pg" && List.hd rest <> "condense" -> run rest
  | ["strncpy"; size; src; dest] ->
    show_res (fun (r, d) -> b2s r ^ " " ^ hex_of_zcells d)
      (safe_strncpy (zcells_of_hex dest) (cstr_src src) (z_of_int (int_of_string size)))
  | ["strncat"; size; src; dest] ->
    show_res (fun (r, d) -> b2s r ^ " " ^ hex_of_zcells d)
      (safe_strncat (zcells_of_hex dest) (cstr_src src) (z_of_int (int_of_string size)))
  | ["strncpyr"; size; src; dest] ->
    show_res (fun (r, d) -> b2s r ^ " " ^ hex_of_zcells d)
      (safe_strncpy (zcells_of_hex dest) (zcells_of_hex src) (z_of_int (int_of_string size)))
  | ["strncatr"; size; src; dest] ->
    show_res (fun (r, d) -> b2s r ^ " " ^ hex_of_zcells d)
      (safe_strncat (zcells_of_hex dest) (zcells_of_hex src) (z_of_int (int_of_string size)))
  | ["substr"; idx; cnt; s] ->
    let sb = List.map (fun c -> Some c) (zbytes_of_hex s) @ [Some Z0] in
    show_res (function None -> "NULL" | Some r -> "S " ^ hex_of_zbytes r)
      (substr sb (z_of_int (int_of_string idx)) (z_of_int (int_of_string cnt)))
  | ["down"; b] -> show_res hex_of_zcells (downcase_str (zcells_of_hex b))
  | ["up"; b] -> show_res hex_of_zcells (upcase_str (zcells_of_hex b))
  | ["safestr"; len; b] -> show_res hex_of_zcells (safe_str (zcells_of_hex b) (nat_of_int (int_of_string len)))
  | ["chomp"; b] -> show_res hex_of_zcells (chomp (zcells_of_hex b))
  | ["condense"; b] -> show_res hex_of_zcells (condense_whitespace_gen true (zcells_of_hex b))
  | ["strrev"; b] -> show_res hex_of_zcells (strrev (zcells_of_hex b))
  | _ -> "DRIVER-ERROR:bad-case"
let () = main_loop run
