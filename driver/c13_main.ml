let show_res f = function Ok a -> f a | Fault x -> "FAULT:" ^ fault_name x
let b2s b = if b then "1" else "0"
let run = function
  | ["strncpy"; size; src; dest] ->
    let srcb = List.map (fun c -> Some c) (zbytes_of_hex src) @ [Some Z0] in
    show_res (fun (r, d) -> b2s r ^ " " ^ hex_of_zcells d)
      (safe_strncpy (zcells_of_hex dest) srcb (z_of_int (int_of_string size)))
  | ["strncat"; size; src; dest] ->
    let srcb = List.map (fun c -> Some c) (zbytes_of_hex src) @ [Some Z0] in
    show_res (fun (r, d) -> b2s r ^ " " ^ hex_of_zcells d)
      (safe_strncat (zcells_of_hex dest) srcb (z_of_int (int_of_string size)))
  | ["substr"; idx; cnt; s] ->
    let sb = List.map (fun c -> Some c) (zbytes_of_hex s) @ [Some Z0] in
    show_res (function None -> "NULL" | Some r -> "S " ^ hex_of_zbytes r)
      (substr sb (z_of_int (int_of_string idx)) (z_of_int (int_of_string cnt)))
  | ["down"; b] -> show_res hex_of_zcells (downcase_str (zcells_of_hex b))
  | ["up"; b] -> show_res hex_of_zcells (upcase_str (zcells_of_hex b))
  | ["safestr"; len; b] -> show_res hex_of_zcells (safe_str (zcells_of_hex b) (nat_of_int (int_of_string len)))
  | ["chomp"; b] -> show_res hex_of_zcells (chomp (zcells_of_hex b))
  | ["condense"; b] -> show_res hex_of_zcells (condense_whitespace_gen true (zcells_of_hex b))
  | ["strrev"; b] -> show_res hex_of_zcells (strrev (zcells_of_hex b))
  | _ -> "DRIVER-ERROR:bad-case"
let () = main_loop run
