
val negb : bool -> bool

type nat =
| O
| S of nat

val fst : ('a1 * 'a2) -> 'a1

val snd : ('a1 * 'a2) -> 'a2

val length : 'a1 list -> nat

val app : 'a1 list -> 'a1 list -> 'a1 list

type comparison =
| Eq
| Lt
| Gt

val compOpp : comparison -> comparison

val add : nat -> nat -> nat

val mul : nat -> nat -> nat

val nth_error : 'a1 list -> nat -> 'a1 option

val rev : 'a1 list -> 'a1 list

val map : ('a1 -> 'a2) -> 'a1 list -> 'a2 list

val fold_left : ('a1 -> 'a2 -> 'a1) -> 'a2 list -> 'a1 -> 'a1

val existsb : ('a1 -> bool) -> 'a1 list -> bool

val seq : nat -> nat -> nat list

type positive =
| XI of positive
| XO of positive
| XH

type n =
| N0
| Npos of positive

type z =
| Z0
| Zpos of positive
| Zneg of positive

module Pos :
 sig
  val succ : positive -> positive

  val add : positive -> positive -> positive

  val add_carry : positive -> positive -> positive

  val pred_double : positive -> positive

  val compare_cont : comparison -> positive -> positive -> comparison

  val compare : positive -> positive -> comparison

  val iter_op : ('a1 -> 'a1 -> 'a1) -> positive -> 'a1 -> 'a1

  val to_nat : positive -> nat

  val of_succ_nat : nat -> positive
 end

module Z :
 sig
  val double : z -> z

  val succ_double : z -> z

  val pred_double : z -> z

  val pos_sub : positive -> positive -> z

  val add : z -> z -> z

  val opp : z -> z

  val sub : z -> z -> z

  val compare : z -> z -> comparison

  val leb : z -> z -> bool

  val ltb : z -> z -> bool

  val to_nat : z -> nat

  val of_nat : nat -> z
 end

type fault =
| OOB_read
| OOB_write
| Uninit_read
| Null_deref
| Use_after_free
| Bad_free
| Out_of_fuel
| Int_overflow
| Abort

type 'a res =
| Ok of 'a
| Fault of fault

val is_ok : 'a1 res -> bool

val num_anchor : ((nat * positive) * n) * z

type key = z list

type elem = { eid : nat; ekey : key }

val key_cmp : key -> key -> comparison

val key_eqb : key -> key -> bool

val key_gtb : key -> key -> bool

type out =
| OBool of bool
| OInt of z
| OElem of elem option
| OElems of elem option list
| ODup of z * key option list * key option list
| OText of key option
| OPair of (key * key) option
| OTexts of key list
| OPairs of (key * key) list
| OUnit

type 'a iter = 'a list

val it_new : 'a1 list -> 'a1 iter

val it_has_next : 'a1 iter -> bool

val it_next : 'a1 iter -> 'a1 option * 'a1 iter

val it_sweep : nat -> 'a1 iter -> 'a1 list * bool

type lstate = elem option list

val gt_slot : elem -> elem option -> bool

val eq_slot : key -> elem option -> bool

val llen : lstate -> z

val norm_idx : z -> z -> z

val ins_ordered : elem -> lstate -> lstate

val ins_at : nat -> elem -> lstate -> lstate

val l_insert_at : lstate -> z -> elem -> lstate * bool

val rem_first : key -> lstate -> lstate * elem option

val rem_nth : nat -> 'a1 list -> 'a1 list

val slot_at : lstate -> nat -> elem option

val in_range : lstate -> z -> nat option

val l_get : lstate -> z -> elem option

val l_remove_at : lstate -> z -> lstate * elem option

val index_from : key -> lstate -> z -> z

val l_index : lstate -> key -> z

val l_find : lstate -> key -> elem option

val slot_key : elem option -> key option

type lop =
| LAppend of elem
| LPrepend of elem
| LInsert of elem
| LInsertAt of z * elem
| LRemove of elem option
| LRemoveAt of z
| LGet of z
| LIndex of elem
| LFind of elem option
| LContains of elem option
| LCount
| LReverse
| LToArray
| LIterate
| LDup

val is_some : 'a1 option -> bool

val list_step : lstate -> lop -> lstate * out

type vstate = elem list

val v_ins : elem -> vstate -> vstate

val v_rem : key -> vstate -> vstate * elem option

val v_find : vstate -> key -> elem option

type vop =
| VInsert of elem
| VRemove of elem
| VFind of elem
| VContains of elem
| VCount
| VIterate
| VToArray

val vec_step : vstate -> vop -> vstate * out

type mstate = (key * key) list

val m_set : key -> key -> mstate -> mstate * bool

val m_get : mstate -> key -> key option

val m_remove : key -> mstate -> mstate * (key * key) option

val m_has_value : mstate -> key -> bool

type mop =
| MSet of key * key
| MGet of key
| MRemove of key
| MHasKey of key
| MHasValue of key
| MCount
| MGetKeys
| MGetValues
| MGetPairs
| MIterate
| MMutK of key
| MMutV of key
| MDelK
| MDelV

val map_step : mstate -> mop -> mstate * out

val final : ('a1 -> 'a2 -> 'a1 * out) -> 'a1 -> 'a2 list -> 'a1

val outs : ('a1 -> 'a2 -> 'a1 * out) -> 'a1 -> 'a2 list -> out list

val run : ('a1 -> 'a2 -> 'a1 * out) -> 'a1 -> 'a2 list -> 'a1 * out list

val list_readback : lstate -> (z * elem option list) * elem option list
