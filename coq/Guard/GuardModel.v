(* C16 - NULL-argument calls fail soft.

   Data types of the table that tools/gen_c16.py regenerates from the source tree on every run
   (Gen/NullGuardTable.v is a value of type [list entry] plus the semantics records of the guard macros),
   the evaluation of a function prelude with one pointer parameter NULL at a runtime debug level, the
   boolean checkers that are run over the finite table by vm_compute, and the small specification
   (failure value per return type).  No proofs in this file. *)
From Coq Require Export List Arith Bool NArith.
From Coq Require Import Init.Byte Strings.Byte.
Export ListNotations.

(* function names: a private byte-string type (Coq's [string] is not used so that the extracted OCaml code
   does not define a type called string) *)
Inductive fname : Set := FN (bytes : list byte).
Definition fname_of_bytes (l : list byte) : fname := FN l.
Definition bytes_of_fname (n : fname) : list byte := match n with FN l => l end.
Declare Scope fn_scope.
Delimit Scope fn_scope with fn.
Bind Scope fn_scope with fname.
String Notation fname fname_of_bytes bytes_of_fname : fn_scope.

Definition fname_codes (n : fname) : list N := map Byte.to_N (bytes_of_fname n).

Fixpoint bytes_eqb (a b : list byte) : bool :=
  match a, b with
  | [], [] => true
  | x :: a', y :: b' => Byte.eqb x y && bytes_eqb a' b'
  | _, _ => false
  end.
Definition fname_eqb (a b : fname) : bool := bytes_eqb (bytes_of_fname a) (bytes_of_fname b).

(* ------------------------------------------------------------------------------------------------ *)
(* the table language *)

(* class of a function's return type *)
Inductive rty : Set := TVoid | TBool | TCmp | TFloat | TPtr | TInt.

(* what a guard hands back (the second macro argument), classified *)
Inductive rval : Set :=
| RvVoid                                  (* ASSERT / REQUIRE in a void function *)
| RvFalse | RvTrue
| RvNull                                  (* NULL, (type) NULL, SPIF_NULL_TYPE(x) *)
| RvNullStr                               (* SPIF_NULLSTR_TYPE(x): the printable "{ ((spif_x_t) NULL) }" *)
| RvNeg1 | RvZero
| RvNaN
| RvCmpLess | RvCmpEqual | RvCmpGreater
| RvCall (f : fname)                      (* the value of a call: a documented alternative, not a failure value *)
| RvHandled                               (* a block that deals with the NULL object and returns (show methods) *)
| RvOther.

(* guard kinds: the macros, and a plain C `if (p == NULL) return v;` *)
Inductive gkind : Set := GAssert | GRequire | GAssertV | GRequireV | GIf.

(* what happens to the value of a delegated call *)
Inductive dpost : Set := PId | PNullToFalse.

(* parameters are named by position (0-based) *)
Inductive item : Set :=
| Deref (p : nat)                         (* p->m, *p, p[i], or an accessor macro that does so *)
| Use (p : nat)                           (* p handed to a function that is not in the table (libc ...) *)
| Call_alloc                              (* an allocating call *)
| Guard (k : gkind) (ps : list nat) (rv : rval)    (* fires when one of ps is NULL; ps = [] : a guard on something else *)
| CompNull (s o : nat)                    (* SPIF_OBJ_COMP_CHECK_NULL(s, o) *)
| Delegate (f : fname) (args : list (option nat)) (post : dpost)   (* return f(args): Some p = parameter p unchanged *)
| Body.                                   (* first statement that is neither a guard nor a declaration *)

Inductive reach : Set := Exported | Slot | Helper.

Record entry : Set := {
  e_name : fname;
  e_reach : reach;                        (* Slot: static, installed in a class table; Helper: static, only a delegation target *)
  e_ret : rty;
  e_params : list bool;                   (* pointer-ness per parameter *)
  e_self : option nat;                    (* position of the object argument (`self`) *)
  e_slots : nat;                          (* number of class-table slots the function is installed in *)
  e_parsed : bool;                        (* false: prelude could not be classified (listed, counted, fails every check) *)
  e_prelude : list item
}.

(* the guard macros as translated from their active definitions:
   if (!(x)) { if (DEBUG_LEVEL >= thr) { hi } else { lo } after } *)
Inductive gact : Set := AFatal | AWarn | ADprint | AReturn.
Record guard_sem : Set := { gs_thr : nat; gs_hi : list gact; gs_lo : list gact; gs_after : list gact }.

Record sems : Set := {
  s_assert_rval : guard_sem; s_require_rval : guard_sem; s_assert : guard_sem; s_require : guard_sem;
  s_comp_both : rval; s_comp_first : rval; s_comp_second : rval     (* SPIF_OBJ_COMP_CHECK_NULL: both / first / second NULL *)
}.

(* a plain `if (...) return v;` returns at every level *)
Definition if_sem : guard_sem := {| gs_thr := 0; gs_hi := []; gs_lo := []; gs_after := [AReturn] |}.

Definition sem_of (M : sems) (k : gkind) : guard_sem :=
  match k with
  | GAssert => s_assert_rval M | GRequire => s_require_rval M
  | GAssertV => s_assert M | GRequireV => s_require M
  | GIf => if_sem
  end.

(* ------------------------------------------------------------------------------------------------ *)
(* evaluation *)

Inductive outcome : Set :=
| Returned (v : rval)
| Fatal                                   (* libast_fatal_error: diagnostic, then the process ends *)
| Crashed                                 (* the NULL parameter is dereferenced *)
| Carried_on.                             (* the function body runs with the NULL parameter *)

(* (outcome, an allocating call was executed first) *)
Definition result : Set := outcome * bool.

Fixpoint run_acts (acts : list gact) (rv : rval) : option outcome :=
  match acts with
  | [] => None                            (* the guard does not leave the function *)
  | AFatal :: _ => Some Fatal
  | AReturn :: _ => Some (Returned rv)
  | _ :: r => run_acts r rv
  end.

Definition fire (g : guard_sem) (l : nat) (rv : rval) : option outcome :=
  run_acts ((if gs_thr g <=? l then gs_hi g else gs_lo g) ++ gs_after g) rv.

Fixpoint find_entry (n : fname) (t : list entry) : option entry :=
  match t with
  | [] => None
  | e :: r => if fname_eqb n (e_name e) then Some e else find_entry n r
  end.

Fixpoint arg_index (p : nat) (args : list (option nat)) (k : nat) : option nat :=
  match args with
  | [] => None
  | Some q :: r => if q =? p then Some k else arg_index p r (S k)
  | None :: r => arg_index p r (S k)
  end.

Definition mem (p : nat) (ps : list nat) : bool := existsb (Nat.eqb p) ps.

Definition post_out (d : dpost) (o : outcome) : outcome :=
  match d, o with
  | PNullToFalse, Returned RvNull => Returned RvFalse      (* ISNULL(f(args)) ? FALSE : TRUE *)
  | PNullToFalse, Returned _ => Returned RvTrue
  | _, _ => o
  end.

Section Eval.
  Variable M : sems.
  Variable tbl : list entry.
  Variable l : nat.                        (* runtime debug level *)

  (* items of one prelude with parameter p NULL; [callee] evaluates a delegation target *)
  Fixpoint eval_items (callee : fname -> nat -> result) (its : list item) (p : nat) (alloc : bool) : result :=
    match its with
    | [] => (Carried_on, alloc)
    | Deref q :: r => if q =? p then (Crashed, alloc) else eval_items callee r p alloc
    | Use q :: r => if q =? p then (Crashed, alloc) else eval_items callee r p alloc
    | Call_alloc :: r => eval_items callee r p true
    | Guard k ps rv :: r =>
        if mem p ps then
          match fire (sem_of M k) l rv with
          | Some o => (o, alloc)
          | None => eval_items callee r p alloc
          end
        else eval_items callee r p alloc
    | CompNull s o :: r =>
        if s =? p then (Returned (s_comp_first M), alloc)
        else if o =? p then (Returned (s_comp_second M), alloc)
        else eval_items callee r p alloc
    | Delegate f args d :: _ =>
        match arg_index p args 0 with
        | Some k => let '(o, a) := callee f k in (post_out d o, alloc || a)
        | None => (Carried_on, alloc)
        end
    | Body :: _ => (Carried_on, alloc)
    end.

  Fixpoint eval_fn (fuel : nat) (f : fname) (p : nat) : result :=
    match fuel with
    | 0 => (Carried_on, false)
    | S fuel' =>
        match find_entry f tbl with
        | Some e => if e_parsed e then eval_items (eval_fn fuel') (e_prelude e) p false else (Carried_on, false)
        | None => (Carried_on, false)
        end
    end.
End Eval.

(* delegation chains in the library are at most three deep; the checker needs [fuel] only to be large enough *)
Definition fuel0 : nat := 8.

Definition eval (M : sems) (tbl : list entry) (l : nat) (e : entry) (p : nat) : result :=
  if e_parsed e then eval_items M l (eval_fn M tbl l fuel0) (e_prelude e) p false else (Carried_on, false).

(* ------------------------------------------------------------------------------------------------ *)
(* specification: the failure value per return type (NULL ordering for comparisons) *)

Definition rval_eqb (a b : rval) : bool :=
  match a, b with
  | RvVoid, RvVoid | RvFalse, RvFalse | RvTrue, RvTrue | RvNull, RvNull | RvNullStr, RvNullStr
  | RvNeg1, RvNeg1 | RvZero, RvZero | RvNaN, RvNaN | RvCmpLess, RvCmpLess | RvCmpEqual, RvCmpEqual
  | RvCmpGreater, RvCmpGreater | RvHandled, RvHandled | RvOther, RvOther => true
  | RvCall f, RvCall g => fname_eqb f g
  | _, _ => false
  end.

(* is v the documented failure value of a function of return class t when parameter p is NULL?
   first: p is the object argument / first operand (NULL sorts before everything) *)
Definition failure_value (t : rty) (first : bool) (v : rval) : bool :=
  match t, v with
  | TVoid, RvVoid => true
  | TBool, RvFalse => true
  | TPtr, RvNull => true
  | TPtr, RvNullStr => true                (* the `type` methods of str/ustr/mbuff *)
  | TInt, RvNeg1 => true                   (* indices, byte counts *)
  | TInt, RvZero => true                   (* counts *)
  | TFloat, RvNaN => true
  | TCmp, RvCmpLess => first
  | TCmp, RvCmpGreater => negb first
  | _, _ => false
  end.

(* which cells does the property speak about?  every pointer parameter named by a guard of the function
   itself (or reached through a delegation), classified by what the guard hands back *)
Inductive cell_class : Set :=
| FailSoft                               (* guard with a constant failure value *)
| Fallback                               (* guard whose value is a call: documented alternative (init_from_ptr(self, NULL)) *)
| Handled                                (* plain-if block that deals with NULL (show) *)
| Unguarded.

Fixpoint guard_class_items (callee : fname -> nat -> cell_class) (its : list item) (p : nat) : cell_class :=
  match its with
  | [] => Unguarded
  | Guard k ps rv :: r =>
      if mem p ps then
        match rv with RvCall _ => Fallback | RvHandled => Handled | _ => FailSoft end
      else guard_class_items callee r p
  | CompNull s o :: r => if (s =? p) || (o =? p) then FailSoft else guard_class_items callee r p
  | Delegate f args _ :: _ =>
      match arg_index p args 0 with Some k => callee f k | None => Unguarded end
  | Body :: _ => Unguarded
  | _ :: r => guard_class_items callee r p
  end.

Fixpoint guard_class_fn (tbl : list entry) (fuel : nat) (f : fname) (p : nat) : cell_class :=
  match fuel with
  | 0 => Unguarded
  | S fuel' =>
      match find_entry f tbl with
      | Some e => guard_class_items (guard_class_fn tbl fuel') (e_prelude e) p
      | None => Unguarded
      end
  end.

Definition guard_class (tbl : list entry) (e : entry) (p : nat) : cell_class :=
  guard_class_items (guard_class_fn tbl fuel0) (e_prelude e) p.

(* A cell is (function, parameter position).  The translator lists every cell whose parameter is named by a
   guard ANYWHERE in the function (so a guard pushed behind other statements is still a cell, and fails);
   cells reached only through a delegation are added here.  A cell whose guard the prelude does not reach
   gets the strongest claim. *)
Definition cell : Set := (fname * nat)%type.
Definition c_fn (c : cell) : fname := fst c.
Definition c_param (c : cell) : nat := snd c.

Definition class_of (tbl : list entry) (e : entry) (p : nat) : cell_class :=
  match guard_class tbl e p with Unguarded => FailSoft | k => k end.

Fixpoint ptr_positions (ps : list bool) (k : nat) : list nat :=
  match ps with
  | [] => []
  | b :: r => if b then k :: ptr_positions r (S k) else ptr_positions r (S k)
  end.

Definition is_unguarded (k : cell_class) : bool := match k with Unguarded => true | _ => false end.

Definition derived_cells (tbl : list entry) : list cell :=
  flat_map (fun e => match e_reach e with
                     | Helper => []
                     | _ => map (fun p => (e_name e, p))
                              (filter (fun p => negb (is_unguarded (guard_class tbl e p))) (ptr_positions (e_params e) 0))
                     end) tbl.

(* ------------------------------------------------------------------------------------------------ *)
(* the per-level claims of the property, as booleans *)

Definition first_operand (e : entry) (p : nat) : bool :=
  match e_self e with Some s => s =? p | None => p =? 0 end.

(* level 0: returns the failure value, nothing allocated first *)
Definition strict_ok (e : entry) (p : nat) (r : result) : bool :=
  match r with
  | (Returned v, false) => failure_value (e_ret e) (first_operand e p) v
  | _ => false
  end.

(* level >= 1: that, or the fatal path; never a crash, never carrying on *)
Definition relaxed_ok (e : entry) (p : nat) (r : result) : bool :=
  match r with
  | (Returned v, false) => failure_value (e_ret e) (first_operand e p) v
  | (Fatal, false) => true
  | _ => false
  end.

(* Fallback / Handled cells: the call returns (or ends on the fatal path); it never crashes and never carries on *)
Definition safe_ok (r : result) : bool :=
  match r with
  | (Returned _, _) => true
  | (Fatal, _) => true
  | _ => false
  end.

Definition thresholds (M : sems) : list nat :=
  [gs_thr (s_assert_rval M); gs_thr (s_require_rval M); gs_thr (s_assert M); gs_thr (s_require M); gs_thr if_sem].

(* the representative of level l: the largest threshold not above l (0 if there is none) *)
Fixpoint rep_of (ts : list nat) (l : nat) : nat :=
  match ts with
  | [] => 0
  | t :: r => if t <=? l then Nat.max t (rep_of r l) else rep_of r l
  end.

Definition check_cell (M : sems) (tbl : list entry) (c : cell) : bool :=
  match find_entry (c_fn c) tbl with
  | None => false
  | Some e =>
      e_parsed e &&
      match class_of tbl e (c_param c) with
      | FailSoft =>
          strict_ok e (c_param c) (eval M tbl 0 e (c_param c)) &&
          forallb (fun t => relaxed_ok e (c_param c) (eval M tbl t e (c_param c))) (thresholds M)
      | _ =>
          forallb (fun t => safe_ok (eval M tbl t e (c_param c))) (0 :: thresholds M)
      end
  end.

Definition cell_eqb (a b : cell) : bool := fname_eqb (fst a) (fst b) && (snd a =? snd b).
Definition exempted (ex : list cell) (c : cell) : bool := existsb (cell_eqb c) ex.

Definition check_table (M : sems) (tbl : list entry) (cells : list cell) (ex : list cell) : bool :=
  forallb (fun c => exempted ex c || check_cell M tbl c) cells.

Definition failing_cells (M : sems) (tbl : list entry) (cells : list cell) : list cell :=
  filter (fun c => negb (check_cell M tbl c)) cells.

(* ------------------------------------------------------------------------------------------------ *)
(* slots_guard_self: a function installed in a class table guards its object argument, or hands it on
   unchanged to one that does - before any dereference, use or allocation *)

Fixpoint guards_items (callee : fname -> nat -> bool) (its : list item) (p : nat) : bool :=
  match its with
  | [] => false
  | Deref q :: r => if q =? p then false else guards_items callee r p
  | Use q :: r => if q =? p then false else guards_items callee r p
  | Call_alloc :: r => guards_items callee r p
  | Guard k ps rv :: r => if mem p ps then true else guards_items callee r p
  | CompNull s o :: r => if (s =? p) || (o =? p) then true else guards_items callee r p
  | Delegate f args _ :: _ => match arg_index p args 0 with Some k => callee f k | None => false end
  | Body :: _ => false
  end.

Fixpoint guards_fn (tbl : list entry) (fuel : nat) (f : fname) (p : nat) : bool :=
  match fuel with
  | 0 => false
  | S fuel' =>
      match find_entry f tbl with
      | Some e => e_parsed e && guards_items (guards_fn tbl fuel') (e_prelude e) p
      | None => false
      end
  end.

Definition guards (tbl : list entry) (e : entry) (p : nat) : bool :=
  e_parsed e && guards_items (guards_fn tbl fuel0) (e_prelude e) p.

Definition is_method (e : entry) : bool :=
  match e_reach e, e_self e with
  | Helper, _ => false
  | _, None => false
  | _, Some _ => 0 <? e_slots e
  end.

Definition check_slot (tbl : list entry) (ex : list cell) (e : entry) : bool :=
  match e_self e with
  | Some s => negb (is_method e) || existsb (cell_eqb (e_name e, s)) ex || guards tbl e s
  | None => true
  end.

Definition check_slots (tbl : list entry) (ex : list cell) : bool := forallb (check_slot tbl ex) tbl.

Definition failing_slots (tbl : list entry) : list cell :=
  flat_map (fun e => match e_self e with
                     | Some s => if is_method e && negb (guards tbl e s) then [(e_name e, s)] else []
                     | None => [] end) tbl.

(* the cells the property speaks about: every (function, pointer parameter) named by a guard anywhere in
   the function (listed by the translator), plus the cells reached only through a delegation *)
Definition all_cells (named : list cell) (tbl : list entry) : list cell :=
  named ++ filter (fun c => negb (existsb (cell_eqb c) named)) (derived_cells tbl).

(* every entry was read *)
Definition unparsed (tbl : list entry) : list fname := map e_name (filter (fun e => negb (e_parsed e)) tbl).

(* ------------------------------------------------------------------------------------------------ *)
(* the prediction the probe is compared with (extracted) *)
Definition predict (M : sems) (tbl : list entry) (idx p l : nat) : option (fname * result) :=
  match nth_error tbl idx with
  | Some e => Some (e_name e, eval M tbl l e p)
  | None => None
  end.

(* one line per cell for the check driver: class, and whether the cell passes the checker *)
Definition cell_report (M : sems) (tbl : list entry) (named : list cell) : list (cell * cell_class * bool) :=
  map (fun c => (c,
                 match find_entry (c_fn c) tbl with Some e => class_of tbl e (c_param c) | None => Unguarded end,
                 check_cell M tbl c)) (all_cells named tbl).
