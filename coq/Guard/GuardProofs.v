(* C16 - soundness of the table checkers of Guard/GuardModel.v, proved once for every table, every
   translation of the guard macros and every runtime level l : nat.  The finite part (running the checkers
   over the regenerated table) is in Guard/GuardTable.v. *)
From LV Require Import Guard.GuardModel.
From Coq Require Import Lia.

(* ------------------------------------------------------------------------------------------------ *)
(* 1. the evaluation depends on the level only through the comparisons `threshold <= level` *)

Definition same_side (M : sems) (l l' : nat) : Prop :=
  forall k, (gs_thr (sem_of M k) <=? l) = (gs_thr (sem_of M k) <=? l').

Lemma fire_same M l l' k rv : same_side M l l' -> fire (sem_of M k) l rv = fire (sem_of M k) l' rv.
Proof. intros H. unfold fire. rewrite (H k). reflexivity. Qed.

Lemma eval_items_same M l l' (H : same_side M l l') callee callee'
      (Hc : forall f k, callee f k = callee' f k) its :
  forall p a, eval_items M l callee its p a = eval_items M l' callee' its p a.
Proof.
  induction its as [|it its IH]; intros p a; cbn [eval_items]; [reflexivity|].
  destruct it as [q|q| |k ps rv|s o|f args d|].
  - destruct (q =? p); [reflexivity|apply IH].
  - destruct (q =? p); [reflexivity|apply IH].
  - apply IH.
  - destruct (mem p ps); [|apply IH].
    rewrite (fire_same M l l' k rv H). destruct (fire (sem_of M k) l' rv); [reflexivity|apply IH].
  - destruct (s =? p); [reflexivity|]. destruct (o =? p); [reflexivity|apply IH].
  - destruct (arg_index p args 0); [|reflexivity]. rewrite Hc. reflexivity.
  - reflexivity.
Qed.

Lemma eval_fn_same M tbl l l' (H : same_side M l l') :
  forall fuel f p, eval_fn M tbl l fuel f p = eval_fn M tbl l' fuel f p.
Proof.
  induction fuel as [|fuel IH]; intros f p; cbn [eval_fn]; [reflexivity|].
  destruct (find_entry f tbl) as [e|]; [|reflexivity].
  destruct (e_parsed e); [|reflexivity].
  apply eval_items_same; [exact H|exact IH].
Qed.

Lemma eval_same M tbl l l' e p : same_side M l l' -> eval M tbl l e p = eval M tbl l' e p.
Proof.
  intros H. unfold eval. destruct (e_parsed e); [|reflexivity].
  apply eval_items_same; [exact H|]. intros f k. apply eval_fn_same. exact H.
Qed.

(* ------------------------------------------------------------------------------------------------ *)
(* 2. every level has a representative among 0 and the thresholds *)

Lemma rep_le ts l : rep_of ts l <= l.
Proof.
  induction ts as [|t ts IH]; cbn [rep_of]; [lia|].
  destruct (t <=? l) eqn:E; [apply Nat.leb_le in E; lia|exact IH].
Qed.

Lemma rep_ge ts l t : In t ts -> t <= l -> t <= rep_of ts l.
Proof.
  induction ts as [|u ts IH]; intros Hin Hle; [destruct Hin|].
  cbn [rep_of]. destruct Hin as [->|Hin].
  - destruct (t <=? l) eqn:E; [lia|apply Nat.leb_gt in E; lia].
  - specialize (IH Hin Hle). destruct (u <=? l); lia.
Qed.

Lemma rep_in ts l : rep_of ts l = 0 \/ In (rep_of ts l) ts.
Proof.
  induction ts as [|t ts IH]; cbn [rep_of]; [left; reflexivity|].
  destruct (t <=? l).
  - destruct (Nat.max_spec t (rep_of ts l)) as [[_ ->]|[_ ->]].
    + destruct IH as [IH|IH]; [left; exact IH|right; right; exact IH].
    + right; left; reflexivity.
  - destruct IH as [IH|IH]; [left; exact IH|right; right; exact IH].
Qed.

Lemma thr_in M k : In (gs_thr (sem_of M k)) (thresholds M).
Proof. unfold thresholds. destruct k; cbn; auto 6. Qed.

Lemma rep_same_side M l : same_side M l (rep_of (thresholds M) l).
Proof.
  intros k. set (t := gs_thr (sem_of M k)).
  destruct (t <=? l) eqn:E.
  - apply Nat.leb_le in E. symmetry. apply Nat.leb_le. apply rep_ge; [apply thr_in|exact E].
  - apply Nat.leb_gt in E. symmetry. apply Nat.leb_gt. pose proof (rep_le (thresholds M) l). lia.
Qed.

(* ------------------------------------------------------------------------------------------------ *)
(* 3. the claims of the property, as propositions (the specification) *)

(* returns the documented failure value; no allocating call was made first *)
Definition fails_soft (e : entry) (p : nat) (r : result) : Prop :=
  exists v, r = (Returned v, false) /\ failure_value (e_ret e) (first_operand e p) v = true.

(* ends the process through libast_fatal_error; no allocating call was made first *)
Definition fatal_path (r : result) : Prop := r = (Fatal, false).

Definition no_crash_no_carry (r : result) : Prop := fst r <> Crashed /\ fst r <> Carried_on.

Lemma strict_ok_spec e p r : strict_ok e p r = true -> fails_soft e p r.
Proof.
  destruct r as [[v| | |] [|]]; cbn; intros H; try discriminate. exists v. split; [reflexivity|exact H].
Qed.

Lemma relaxed_ok_spec e p r : relaxed_ok e p r = true -> fails_soft e p r \/ fatal_path r.
Proof.
  destruct r as [[v| | |] [|]]; cbn; intros H; try discriminate.
  - left. exists v. split; [reflexivity|exact H].
  - right. reflexivity.
Qed.

Lemma safe_ok_spec r : safe_ok r = true -> no_crash_no_carry r.
Proof. destruct r as [[v| | |] a]; cbn; intros H; try discriminate; split; discriminate. Qed.

Lemma fails_soft_safe e p r : fails_soft e p r -> no_crash_no_carry r.
Proof. intros [v [-> _]]. split; discriminate. Qed.

Lemma fatal_path_safe r : fatal_path r -> no_crash_no_carry r.
Proof. intros ->. split; discriminate. Qed.

(* ------------------------------------------------------------------------------------------------ *)
(* 4. soundness of check_cell: two representative evaluations decide every level *)

Theorem check_cell_fail_soft M tbl c e :
  check_cell M tbl c = true ->
  find_entry (c_fn c) tbl = Some e ->
  class_of tbl e (c_param c) = FailSoft ->
  forall l : nat,
    let r := eval M tbl l e (c_param c) in
    (l = 0 -> fails_soft e (c_param c) r) /\
    (fails_soft e (c_param c) r \/ fatal_path r) /\
    no_crash_no_carry r.
Proof.
  intros Hc Hf Hk l. unfold check_cell in Hc. rewrite Hf, Hk in Hc.
  apply andb_prop in Hc as [_ Hc]. apply andb_prop in Hc as [H0 Ht].
  rewrite forallb_forall in Ht.
  assert (Hrel : fails_soft e (c_param c) (eval M tbl l e (c_param c)) \/ fatal_path (eval M tbl l e (c_param c))).
  { rewrite (eval_same M tbl l _ e (c_param c) (rep_same_side M l)).
    destruct (rep_in (thresholds M) l) as [Hz|Hin].
    - rewrite Hz. left. apply strict_ok_spec. exact H0.
    - apply relaxed_ok_spec. apply Ht. exact Hin. }
  cbn zeta. split; [|split].
  - intros ->. apply strict_ok_spec. exact H0.
  - exact Hrel.
  - destruct Hrel as [H|H]; [eapply fails_soft_safe; exact H|apply fatal_path_safe; exact H].
Qed.

Theorem check_cell_other M tbl c e :
  check_cell M tbl c = true ->
  find_entry (c_fn c) tbl = Some e ->
  class_of tbl e (c_param c) <> FailSoft ->
  forall l : nat, no_crash_no_carry (eval M tbl l e (c_param c)).
Proof.
  intros Hc Hf Hk l. unfold check_cell in Hc. rewrite Hf in Hc.
  apply andb_prop in Hc as [_ Hc].
  assert (Hs : forallb (fun t => safe_ok (eval M tbl t e (c_param c))) (0 :: thresholds M) = true).
  { destruct (class_of tbl e (c_param c)); [exfalso; apply Hk; reflexivity|exact Hc..]. }
  rewrite forallb_forall in Hs.
  rewrite (eval_same M tbl l _ e (c_param c) (rep_same_side M l)).
  apply safe_ok_spec. apply Hs.
  destruct (rep_in (thresholds M) l) as [Hz|Hin]; [left; symmetry; exact Hz|right; exact Hin].
Qed.

(* the table check, lifted to every listed cell *)
Theorem check_table_sound M tbl cells ex :
  check_table M tbl cells ex = true ->
  forall c, In c cells -> exempted ex c = false -> check_cell M tbl c = true.
Proof.
  intros H c Hin Hex. unfold check_table in H. rewrite forallb_forall in H.
  specialize (H c Hin). rewrite Hex in H. exact H.
Qed.

Lemma check_cell_found M tbl c : check_cell M tbl c = true -> exists e, find_entry (c_fn c) tbl = Some e /\ e_parsed e = true.
Proof.
  unfold check_cell. destruct (find_entry (c_fn c) tbl) as [e|]; [|discriminate].
  intros H. apply andb_prop in H as [H _]. exists e. split; [reflexivity|exact H].
Qed.

(* ------------------------------------------------------------------------------------------------ *)
(* 5. slots_guard_self: the syntactic predicate [guards] implies that, at every level, the call neither
      dereferences the NULL object nor carries on with it - provided every guard macro leaves the function
      at every level (sems_total, a boolean over the translated macro definitions) *)

Fixpoint leaves (acts : list gact) : bool :=
  match acts with
  | [] => false
  | AFatal :: _ => true
  | AReturn :: _ => true
  | _ :: r => leaves r
  end.

Definition sem_total (g : guard_sem) : bool := leaves (gs_hi g ++ gs_after g) && leaves (gs_lo g ++ gs_after g).
Definition sems_total (M : sems) : bool :=
  sem_total (s_assert_rval M) && sem_total (s_require_rval M) && sem_total (s_assert M) && sem_total (s_require M).

Lemma leaves_run acts rv : leaves acts = true -> exists o, run_acts acts rv = Some o /\ (o = Fatal \/ o = Returned rv).
Proof.
  induction acts as [|a acts IH]; cbn; [discriminate|].
  destruct a; intros H; eauto.
Qed.

Lemma if_sem_total : sem_total if_sem = true.
Proof. reflexivity. Qed.

Lemma sem_of_total M k : sems_total M = true -> sem_total (sem_of M k) = true.
Proof.
  unfold sems_total. intros H.
  apply andb_prop in H as [H H4]. apply andb_prop in H as [H H3]. apply andb_prop in H as [H1 H2].
  destruct k; cbn [sem_of]; try assumption. apply if_sem_total.
Qed.

Lemma fire_total M k l rv : sems_total M = true ->
  exists o, fire (sem_of M k) l rv = Some o /\ (o = Fatal \/ o = Returned rv).
Proof.
  intros H. pose proof (sem_of_total M k H) as Ht. unfold sem_total in Ht. apply andb_prop in Ht as [Hh Hl].
  unfold fire. destruct (gs_thr (sem_of M k) <=? l); apply leaves_run; assumption.
Qed.

Definition stops (o : outcome) : Prop := o <> Crashed /\ o <> Carried_on.

Lemma post_out_stops d o : stops o -> stops (post_out d o).
Proof.
  intros [H1 H2]. destruct d; cbn [post_out]; [split; assumption|].
  destruct o as [v| | |]; try (split; assumption). destruct v; split; discriminate.
Qed.

Lemma guards_items_sound M l (HM : sems_total M = true) callee gcallee
      (Hc : forall f k, gcallee f k = true -> stops (fst (callee f k))) its :
  forall p a, guards_items gcallee its p = true -> stops (fst (eval_items M l callee its p a)).
Proof.
  induction its as [|it its IH]; intros p a Hg; cbn [guards_items] in Hg; [discriminate|].
  cbn [eval_items]. destruct it as [q|q| |k ps rv|s o|f args d|].
  - destruct (q =? p); [discriminate|apply IH; assumption].
  - destruct (q =? p); [discriminate|apply IH; assumption].
  - apply IH; assumption.
  - destruct (mem p ps).
    + destruct (fire_total M k l rv HM) as [o [-> Ho]]. cbn. destruct Ho as [->| ->]; split; discriminate.
    + apply IH; assumption.
  - destruct (s =? p); [cbn; split; discriminate|]. destruct (o =? p); [cbn; split; discriminate|].
    cbn [orb] in Hg. apply IH; assumption.
  - destruct (arg_index p args 0) as [k|] eqn:Ek; [|discriminate].
    specialize (Hc f k Hg). destruct (callee f k) as [o b]. cbn [fst] in *. apply post_out_stops. exact Hc.
  - discriminate.
Qed.

Lemma guards_fn_sound M tbl l (HM : sems_total M = true) :
  forall fuel f p, guards_fn tbl fuel f p = true -> stops (fst (eval_fn M tbl l fuel f p)).
Proof.
  induction fuel as [|fuel IH]; intros f p Hg; cbn [guards_fn] in Hg; [discriminate|].
  cbn [eval_fn]. destruct (find_entry f tbl) as [e|]; [|discriminate].
  apply andb_prop in Hg as [Hp Hg]. rewrite Hp.
  eapply guards_items_sound; [exact HM|exact IH|exact Hg].
Qed.

(* a function that [guards] its parameter p never dereferences a NULL p and never carries on with it,
   at any runtime level *)
Theorem guards_sound M tbl e p :
  sems_total M = true -> guards tbl e p = true ->
  forall l : nat, no_crash_no_carry (eval M tbl l e p).
Proof.
  intros HM Hg l. unfold guards in Hg. apply andb_prop in Hg as [Hp Hg].
  unfold eval. rewrite Hp. unfold no_crash_no_carry.
  eapply guards_items_sound; [exact HM| |exact Hg].
  intros f k. apply guards_fn_sound. exact HM.
Qed.

Theorem check_slots_sound tbl ex :
  check_slots tbl ex = true ->
  forall e s, In e tbl -> is_method e = true -> e_self e = Some s ->
              existsb (cell_eqb (e_name e, s)) ex = false -> guards tbl e s = true.
Proof.
  intros H e s Hin Hm Hs Hex. unfold check_slots in H. rewrite forallb_forall in H.
  specialize (H e Hin). unfold check_slot in H. rewrite Hs, Hm, Hex in H. exact H.
Qed.
