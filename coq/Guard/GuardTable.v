(* C16 - the finite part: the checkers of Guard/GuardModel.v run over the table that tools/gen_c16.py
   regenerated from the source tree (Gen/NullGuardTable.v), by vm_compute, and lifted by the soundness
   theorems of Guard/GuardProofs.v to every listed cell and every runtime level l : nat.
   If a guard is removed, moved or its value changed in the sources, the table changes and
   [table_checked] / [slots_checked] stop compiling; checks/c16.py then asks for [failing_cells] /
   [failing_slots] and probes exactly those cells on the implementation. *)
From LV Require Import Guard.GuardModel Guard.GuardProofs Gen.NullGuardTable.

(* the cells the property speaks about: every (function, pointer parameter) named by a guard anywhere in
   the function, plus the cells reached only through a delegation *)
Definition cells : list cell := all_cells named_cells table.

Lemma shape_checked : table_errors = [] /\ unparsed table = [].
Proof. vm_compute. split; reflexivity. Qed.

Lemma sizes_checked : length table = table_size /\ length named_cells = named_cells_size.
Proof. vm_compute. split; reflexivity. Qed.

Lemma sems_checked : sems_total guard_sems = true.
Proof. vm_compute. reflexivity. Qed.

Lemma table_checked : check_table guard_sems table cells exempt = true.
Proof. vm_compute. reflexivity. Qed.

Lemma slots_checked : check_slots table exempt = true.
Proof. vm_compute. reflexivity. Qed.

Theorem cells_resolve c :
  In c cells -> exempted exempt c = false ->
  exists e, find_entry (c_fn c) table = Some e /\ e_parsed e = true.
Proof.
  intros Hin Hex. apply (check_cell_found guard_sems).
  exact (check_table_sound _ _ _ _ table_checked c Hin Hex).
Qed.

Theorem null_fail_soft c e :
  In c cells -> exempted exempt c = false ->
  find_entry (c_fn c) table = Some e ->
  class_of table e (c_param c) = FailSoft ->
  forall l : nat,
    let r := eval guard_sems table l e (c_param c) in
    (l = 0 -> fails_soft e (c_param c) r) /\
    (fails_soft e (c_param c) r \/ fatal_path r) /\
    no_crash_no_carry r.
Proof.
  intros Hin Hex Hf Hk. apply check_cell_fail_soft; [|exact Hf|exact Hk].
  exact (check_table_sound _ _ _ _ table_checked c Hin Hex).
Qed.

Theorem null_alternative_safe c e :
  In c cells -> exempted exempt c = false ->
  find_entry (c_fn c) table = Some e ->
  class_of table e (c_param c) <> FailSoft ->
  forall l : nat, no_crash_no_carry (eval guard_sems table l e (c_param c)).
Proof.
  intros Hin Hex Hf Hk. apply check_cell_other; [|exact Hf|exact Hk].
  exact (check_table_sound _ _ _ _ table_checked c Hin Hex).
Qed.

Theorem slots_guard_self e s :
  In e table -> is_method e = true -> e_self e = Some s ->
  exempted exempt (e_name e, s) = false ->
  guards table e s = true /\
  forall l : nat, no_crash_no_carry (eval guard_sems table l e s).
Proof.
  intros Hin Hm Hs Hex.
  assert (Hg : guards table e s = true) by exact (check_slots_sound _ _ slots_checked e s Hin Hm Hs Hex).
  split; [exact Hg|]. apply guards_sound; [exact sems_checked|exact Hg].
Qed.
