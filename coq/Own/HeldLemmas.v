(* Own/HeldLemmas.v - lemmas about the handle table and about the item-list operations
   (footprints and lengths of insertions and removals). *)
From LV Require Export Own.CostProofs.
Local Open Scope Z_scope.

(* ---- the handle table ---- *)
Definition sum_fp (l : list (nat * obj)) : Z := fold_right (fun e acc => footprint (snd e) + acc) 0 l.

Lemma sum_fp_app l1 l2 : sum_fp (l1 ++ l2) = sum_fp l1 + sum_fp l2.
Proof.
  induction l1 as [|e t IH]; [reflexivity|].
  change (sum_fp ((e :: t) ++ l2)) with (footprint (snd e) + sum_fp (t ++ l2)).
  change (sum_fp (e :: t)) with (footprint (snd e) + sum_fp t). rewrite IH. lia.
Qed.
Lemma sum_fp_cons h o l : sum_fp ((h, o) :: l) = footprint o + sum_fp l.
Proof. reflexivity. Qed.

Lemma sum_fp_put h o o' l :
  lookup h l = Some o -> sum_fp (put h o' l) = sum_fp l - footprint o + footprint o'.
Proof.
  induction l as [|[k x] t IH]; cbn [lookup put]; [discriminate|].
  destruct (Nat.eqb h k); intros E.
  - inv E. rewrite !sum_fp_cons. lia.
  - rewrite !sum_fp_cons, (IH E). lia.
Qed.
Lemma sum_fp_drop h o l : lookup h l = Some o -> sum_fp (drop h l) = sum_fp l - footprint o.
Proof.
  induction l as [|[k x] t IH]; cbn [lookup drop]; [discriminate|].
  destruct (Nat.eqb h k); intros E.
  - inv E. rewrite sum_fp_cons. lia.
  - rewrite !sum_fp_cons, (IH E). lia.
Qed.

Lemma lookup_put_eq h o' l : lookup h l <> None -> lookup h (put h o' l) = Some o'.
Proof.
  induction l as [|[k x] t IH]; cbn [lookup put]; [congruence|].
  destruct (Nat.eqb h k) eqn:E; intros H; cbn [lookup]; rewrite E; [reflexivity|auto].
Qed.
Lemma lookup_put_ne h k o' l : h <> k -> lookup h (put k o' l) = lookup h l.
Proof.
  intros N. induction l as [|[j x] t IH]; cbn [lookup put]; [reflexivity|].
  destruct (Nat.eqb k j) eqn:E; cbn [lookup].
  - apply Nat.eqb_eq in E. subst j. destruct (Nat.eqb h k) eqn:E2; [apply Nat.eqb_eq in E2; congruence|reflexivity].
  - destruct (Nat.eqb h j); [reflexivity|exact IH].
Qed.
Lemma lookup_drop_ne h k l : h <> k -> lookup h (drop k l) = lookup h l.
Proof.
  intros N. induction l as [|[j x] t IH]; cbn [lookup drop]; [reflexivity|].
  destruct (Nat.eqb k j) eqn:E; cbn [lookup].
  - apply Nat.eqb_eq in E. subst j. destruct (Nat.eqb h k) eqn:E2; [apply Nat.eqb_eq in E2; congruence|reflexivity].
  - destruct (Nat.eqb h j); [reflexivity|exact IH].
Qed.
Lemma lookup_app h l1 l2 :
  lookup h (l1 ++ l2) = match lookup h l1 with Some o => Some o | None => lookup h l2 end.
Proof.
  induction l1 as [|[k x] t IH]; cbn [lookup app]; [reflexivity|].
  destruct (Nat.eqb h k); [reflexivity|exact IH].
Qed.
Lemma get_ok pw h o : get pw h = Ok o <-> lookup h (held pw) = Some o.
Proof. unfold get. destruct (lookup h (held pw)); split; intros H; inv H; reflexivity. Qed.

(* every held handle is below the next handle number *)
Definition below (n : nat) (l : list (nat * obj)) : Prop := Forall (fun e => (fst e < n)%nat) l.
Lemma below_lookup n l h o : below n l -> lookup h l = Some o -> (h < n)%nat.
Proof.
  induction 1 as [|[k x] t Hk _ IH]; cbn [lookup]; [discriminate|].
  destruct (Nat.eqb h k) eqn:E; intros H; [apply Nat.eqb_eq in E; subst; exact Hk|auto].
Qed.
Lemma below_put n h o l : below n l -> below n (put h o l).
Proof.
  induction 1 as [|[k x] t Hk Ht IH]; cbn [put]; [constructor|].
  destruct (Nat.eqb h k); constructor; auto.
Qed.
Lemma below_drop n h l : below n l -> below n (drop h l).
Proof.
  induction 1 as [|[k x] t Hk Ht IH]; cbn [drop]; [constructor|].
  destruct (Nat.eqb h k); [exact Ht|constructor; auto].
Qed.
Lemma below_mono n m l : (n <= m)%nat -> below n l -> below m l.
Proof. intros L H. eapply Forall_impl; [|exact H]. cbn. intros; lia. Qed.
Lemma lookup_none_ge n l h : below n l -> (n <= h)%nat -> lookup h l = None.
Proof.
  intros B L. destruct (lookup h l) eqn:E; [|reflexivity].
  pose proof (below_lookup n l h o B E). lia.
Qed.

(* ---- item lists: footprint = nodes + contents ---- *)
Lemma fp_items_split c l : fp_items c l = node_cost c * Z.of_nat (length l) + fp_list l.
Proof.
  induction l as [|x t IH]; [cbn; lia|].
  cbn [fp_items fp_list length]. fold (fp_items c t) (fp_list t). rewrite IH. lia.
Qed.
Lemma fp_list_app l1 l2 : fp_list (l1 ++ l2) = fp_list l1 + fp_list l2.
Proof.
  induction l1 as [|x t IH]; [reflexivity|].
  cbn [fp_list app]. fold (fp_list (t ++ l2)) (fp_list t). rewrite IH. lia.
Qed.
Lemma fp_list_cons x t : fp_list (x :: t) = fp_opt x + fp_list t.
Proof. reflexivity. Qed.
Lemma fp_list_rev l : fp_list (rev l) = fp_list l.
Proof.
  induction l as [|x t IH]; [reflexivity|].
  cbn [rev]. rewrite fp_list_app, IH, !fp_list_cons. cbn [fp_list]. lia.
Qed.
Lemma fp_list_upd l n v :
  (n < length l)%nat -> fp_list (Buf.upd l n v) = fp_list l - fp_opt (nth n l None) + fp_opt v.
Proof.
  revert n. induction l as [|x t IH]; intros [|n] L; cbn [length] in L; try lia.
  - cbn [Buf.upd nth]. rewrite !fp_list_cons. lia.
  - cbn [Buf.upd nth]. rewrite !fp_list_cons, IH by lia. lia.
Qed.
Lemma upd_length' {A} (l : list A) n v : length (Buf.upd l n v) = length l.
Proof. apply Buf.upd_length. Qed.
Lemma fp_list_nones l : fp_list (map (fun _ : option obj => @None obj) l) = 0.
Proof. induction l as [|x t IH]; [reflexivity|]. cbn [map]. rewrite fp_list_cons, IH. reflexivity. Qed.

(* insertions *)
Lemma ins_ordered_fp x : forall xs xs', ins_ordered x xs = Ok xs' ->
  fp_list xs' = fp_list xs + footprint x /\ length xs' = S (length xs).
Proof.
  induction xs as [|s t IH]; intros xs' E; cbn [ins_ordered] in E.
  - inv E. cbn. split; [lia|reflexivity].
  - destruct (comp_item x s) as [c|]; cbn [bind] in E; [|discriminate].
    destruct (is_gt c).
    + destruct (ins_ordered x t) as [t'|] eqn:Et; cbn [bind] in E; [|discriminate]. inv E.
      destruct (IH t' eq_refl) as (A & B). rewrite !fp_list_cons, A. cbn [length]. split; [lia|now rewrite B].
    + inv E. rewrite !fp_list_cons. cbn [fp_opt length]. split; [lia|reflexivity].
Qed.
Lemma ins_linked_fp dl x xs xs' : ins_linked dl x xs = Ok xs' ->
  fp_list xs' = fp_list xs + footprint x /\ length xs' = S (length xs).
Proof.
  unfold ins_linked. destruct xs as [|h t]; intros E.
  - inv E. cbn. split; [lia|reflexivity].
  - destruct (comp_item x h) as [c|]; cbn [bind] in E; [|discriminate].
    destruct (is_lt c).
    + inv E. rewrite !fp_list_cons. cbn [fp_opt length]. split; [lia|reflexivity].
    + destruct (if dl then comp_item x (last (h :: t) None) else Ok CEq) as [ct|]; cbn [bind] in E; [|discriminate].
      destruct (dl && is_gt ct).
      * inv E. change (h :: t ++ [Some x]) with ((h :: t) ++ [Some x]).
        rewrite fp_list_app, app_length. cbn [fp_list fp_opt length]. split; lia.
      * destruct (ins_ordered x t) as [t'|] eqn:Et; cbn [bind] in E; [|discriminate]. inv E.
        destruct (ins_ordered_fp x t t' Et) as (A & B). rewrite !fp_list_cons, A. cbn [length]. split; [lia|now rewrite B].
Qed.
Lemma c_insert_fp c x xs xs' : c_insert c x xs = Ok xs' ->
  fp_list xs' = fp_list xs + footprint x /\ length xs' = S (length xs).
Proof. destruct c; cbn [c_insert]; [apply ins_ordered_fp|apply ins_linked_fp|apply ins_linked_fp]. Qed.
Lemma ins_at_fp x : forall n xs,
  fp_list (ins_at n x xs) = fp_list xs + footprint x /\ (length xs < length (ins_at n x xs))%nat.
Proof.
  induction n as [|n IH]; intros xs.
  - cbn [ins_at]. rewrite fp_list_cons. cbn. split; lia.
  - destruct xs as [|s t]; cbn [ins_at].
    + destruct (IH []) as (A & B). rewrite fp_list_cons, A. cbn. split; lia.
    + destruct (IH t) as (A & B). rewrite !fp_list_cons, A. cbn [length]. split; lia.
Qed.

(* removals *)
Lemma rem_first_fp p : forall xs xs' r, rem_first p xs = Ok (xs', r) ->
  match r with
  | Some o => fp_list xs = fp_list xs' + footprint o /\ length xs = S (length xs') /\
              exists l1 l2, xs = l1 ++ Some o :: l2 /\ xs' = l1 ++ l2
  | None => xs' = xs
  end.
Proof.
  induction xs as [|s t IH]; intros xs' r E; cbn [rem_first] in E.
  - inv E. reflexivity.
  - destruct (comp_item p s) as [c|] eqn:Ec; cbn [bind] in E; [|discriminate].
    destruct (is_eq c) eqn:Eq.
    + inv E. destruct r as [o|].
      * rewrite fp_list_cons. cbn [fp_opt length]. split; [lia|]. split; [reflexivity|]. exists [], xs'. auto.
      * (* a NULL slot never compares equal *) cbn in Ec. inv Ec. discriminate.
    + destruct (rem_first p t) as [[t' r']|] eqn:Et; cbn [bind] in E; [|discriminate]. inv E.
      specialize (IH t' r eq_refl). destruct r as [o|].
      * destruct IH as (A & B & l1 & l2 & C & D). rewrite !fp_list_cons, A. cbn [length]. split; [lia|].
        split; [now rewrite B|]. exists (s :: l1), l2. subst. auto.
      * now subst.
Qed.
Lemma mrem_first_fp k : forall xs xs' r, mrem_first k xs = Ok (xs', r) ->
  match r with
  | Some o => fp_list xs = fp_list xs' + footprint o /\ length xs = S (length xs') /\
              exists l1 l2, xs = l1 ++ Some o :: l2 /\ xs' = l1 ++ l2
  | None => xs' = xs
  end.
Proof.
  induction xs as [|s t IH]; intros xs' r E; cbn [mrem_first] in E.
  - inv E. reflexivity.
  - destruct (comp_elem s k) as [c|] eqn:Ec; cbn [bind] in E; [|discriminate].
    destruct (is_eq c) eqn:Eq.
    + inv E. destruct r as [o|].
      * rewrite fp_list_cons. cbn [fp_opt length]. split; [lia|]. split; [reflexivity|]. exists [], xs'. auto.
      * cbn in Ec. discriminate.
    + destruct (mrem_first k t) as [[t' r']|] eqn:Et; cbn [bind] in E; [|discriminate]. inv E.
      specialize (IH t' r eq_refl). destruct r as [o|].
      * destruct IH as (A & B & l1 & l2 & C & D). rewrite !fp_list_cons, A. cbn [length]. split; [lia|].
        split; [now rewrite B|]. exists (s :: l1), l2. subst. auto.
      * now subst.
Qed.
Lemma rem_nth_fp : forall n (xs : list (option obj)), (n < length xs)%nat ->
  fp_list xs = fp_list (rem_nth n xs) + fp_opt (nth n xs None) /\ length xs = S (length (rem_nth n xs)) /\
  exists l1 l2, xs = l1 ++ nth n xs None :: l2 /\ rem_nth n xs = l1 ++ l2.
Proof.
  induction n as [|n IH]; intros [|s t] L; cbn [length] in L; try lia.
  - cbn [rem_nth nth]. rewrite fp_list_cons. split; [lia|]. split; [reflexivity|]. exists [], t. auto.
  - cbn [rem_nth nth]. destruct (IH t) as (A & B & l1 & l2 & C & D); [lia|].
    rewrite !fp_list_cons. cbn [length]. split; [lia|]. split; [now rewrite B|].
    exists (s :: l1), l2. cbn [app]. rewrite <- C, D. auto.
Qed.
Lemma in_range_lt xs idx n : in_range xs idx = Some n -> (n < length xs)%nat.
Proof.
  unfold in_range, llen, norm_idx. destruct (idx <? 0) eqn:E.
  - destruct ((idx + Z.of_nat (length xs) <? 0) || (Z.of_nat (length xs) <=? idx + Z.of_nat (length xs))) eqn:E2; [discriminate|].
    intros H. inv H. apply Bool.orb_false_elim in E2 as (A & B). apply Z.ltb_ge in A. apply Z.leb_gt in B. lia.
  - destruct ((idx <? 0) || (Z.of_nat (length xs) <=? idx)) eqn:E2; [discriminate|].
    intros H. inv H. apply Bool.orb_false_elim in E2 as (A & B). apply Z.ltb_ge in A. apply Z.leb_gt in B. lia.
Qed.

(* ---- whole-table release ---- *)
Lemma release_all l : fold_right (fun e acc => release (snd e) + acc) 0 l = sum_fp l.
Proof.
  induction l as [|[h o] t IH]; [reflexivity|].
  cbn [fold_right snd]. rewrite IH, sum_fp_cons, release_is_footprint. reflexivity.
Qed.
