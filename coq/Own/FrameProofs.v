(* Own/FrameProofs.v - an operation changes only the handles it writes: every other held object
   keeps its value and stays held.  This is the independence half of C05 (a history on the copy
   never changes the original and vice versa) and the "caller keeps its own objects" half of C06. *)
From LV Require Export Own.LedgerProofs.
Local Open Scope Z_scope.

(* the handles whose table entries an operation may change or remove *)
Definition writes (o : op) : list nat :=
  match o with
  | Done h | Init h | Del h | Append h _ | TokEval h | UrlUnparse h | ReSetFlags h _ | ReCompile h
  | LRemove h _ | LRemoveAt h _ | LReverse h | VRemove h _ | MSet h _ _ | MSetPair h _ | MSetOwn h _ _ | MRemove h _
  | TokSetChar h _ _ | TokListRemoveAt h _ | MemberAppend h _ _ | SetLen h _ => [h]
  | TokListAppend t h => [t; h]
  | SetKey p h | SetValue p h | TokSetSrc p h | TokSetSep p h | UrlSet p _ h | TokSetTokens p h =>
      p :: match h with Some x => [x] | None => [] end
  | LAppend c h | LPrepend c h | LInsert c h | LInsertAt c h _ | VInsert c h => [c; h]
  | MKeys _ d | MValues _ d | MPairs _ d => match d with Some x => [x] | None => [] end
  | _ => []
  end.
Definition is_delall (o : op) : bool := match o with DelAll => true | _ => false end.

Definition keeps (h : nat) (w w' : world) : Prop :=
  forall o, lookup h (held w) = Some o -> lookup h (held w') = Some o.

Lemma keeps_refl h w : keeps h w w.
Proof. intros o H; exact H. Qed.

Lemma hand_back_keeps h w r held' na led w' o :
  hand_back w r held' na led = (w', o) ->
  (forall x, lookup h (held w) = Some x -> lookup h held' = Some x) -> keeps h w w'.
Proof.
  unfold hand_back, keeps. destruct r; intros E K x L; inv E; cbn [held].
  - rewrite lookup_app, (K x L). reflexivity.
  - exact (K x L).
Qed.

Section Frame.
Variable pcre : option text -> Z -> Z.
Variable flag_table : list (Z * Z).

Lemma fresh_keeps h w o cost w' r : fresh w o cost = Ok (w', r) -> keeps h w w'.
Proof.
  unfold fresh. destruct (relabel o (naddr w)) as [o' na].
  destruct (hand_back w (Some o') (held w) na (ledger w + cost)) as [w1 r1] eqn:H. intros E. inv E.
  eapply hand_back_keeps; eauto.
Qed.

Lemma give_keeps h w c x want f w' r :
  give w c x want f = Ok (w', r) -> h <> c -> h <> x -> keeps h w w'.
Proof.
  unfold give. intros E Nc Nx.
  destruct (get w c) as [co|]; cbn [bind] in E; [|discriminate].
  destruct (as_cont co) as [[[[[i k] a] al] xs]|]; cbn [bind] in E; [|discriminate].
  destruct (negb (want i)); [discriminate|]. destruct (Nat.eqb c x); [discriminate|].
  destruct (get w x) as [xo|]; cbn [bind] in E; [|discriminate].
  destruct (negb (storable xo)); [discriminate|].
  destruct (f k xo xs) as [[xs'|]|]; cbn [bind] in E; [| |discriminate]; inv E.
  - intros o L. cbn [held]. rewrite lookup_put_ne, lookup_drop_ne by auto. exact L.
  - apply keeps_refl.
Qed.

Lemma take_keeps h w c want f w' r :
  take w c want f = Ok (w', r) -> h <> c -> keeps h w w'.
Proof.
  unfold take. intros E Nc.
  destruct (get w c) as [co|]; cbn [bind] in E; [|discriminate].
  destruct (as_cont co) as [[[[[i k] a] al] xs]|]; cbn [bind] in E; [|discriminate].
  destruct (negb (want i)); [discriminate|].
  destruct (f xs) as [[[xs' x] found]|]; cbn [bind] in E; [|discriminate].
  destruct (negb found);
    (match type of E with Ok ?hb = _ => destruct hb as [w1 r1] eqn:H end; inv E;
     eapply hand_back_keeps; [exact H|]; intros y L; rewrite ?lookup_put_ne by auto; exact L).
Qed.

Lemma setter_keeps h w p x f w' r :
  setter w p x f = Ok (w', r) -> h <> p -> (forall y, x = Some y -> h <> y) -> keeps h w w'.
Proof.
  unfold setter. intros E Np Nx.
  destruct (get w p) as [po|]; cbn [bind] in E; [|discriminate].
  match type of E with (_ <- ?g ;; _) = _ => destruct g end; cbn [bind] in E; [|discriminate].
  destruct (get_opt w x) as [xo|]; cbn [bind] in E; [|discriminate].
  match type of E with (if ?c then _ else _) = _ => destruct c end; [discriminate|].
  destruct (f po xo) as [[po' old]|]; cbn [bind] in E; [|discriminate]. inv E.
  intros o L. cbn [held]. rewrite lookup_put_ne by auto.
  destruct x as [y|]; [rewrite lookup_drop_ne by (apply Nx; reflexivity)|]; exact L.
Qed.

Lemma project_keeps h w m dst sel w' r :
  project pcre w m dst sel = Ok (w', r) -> (forall d, dst = Some d -> h <> d) -> keeps h w w'.
Proof.
  unfold project. intros E Nd.
  destruct (get w m) as [mo|]; cbn [bind] in E; [|discriminate].
  destruct (as_cont mo) as [[[[[i k] a] al] xs]|]; cbn [bind] in E; [|discriminate].
  destruct (want_iface i IMap); cbn [bind] in E; [|discriminate].
  match type of E with (x <- ?S ;; _) = _ => destruct S as [sels|] end; cbn [bind] in E; [|discriminate].
  destruct (negb (forallb _ sels)); [discriminate|].
  destruct (copy_items pcre sels) as [picked|]; cbn [bind] in E; [|discriminate].
  destruct dst as [dh|].
  - destruct (Nat.eqb dh m); [discriminate|].
    destruct (get w dh) as [d0|]; cbn [bind] in E; [|discriminate].
    destruct (as_cont d0) as [[[[[i2 k2] a2] al2] ys]|]; cbn [bind] in E; [|discriminate].
    destruct (want_iface i2 IList); cbn [bind] in E; [|discriminate].
    destruct (relabel_items picked (naddr w)) as [fresh na]. inv E.
    intros o L. cbn [held]. rewrite lookup_put_ne by (apply Nd; reflexivity). exact L.
  - destruct (relabel_items picked (naddr w + 1)) as [fresh na].
    match type of E with Ok ?hb = _ => destruct hb as [w1 r1] eqn:H end. inv E.
    eapply hand_back_keeps; eauto.
Qed.

(* an operation that does not write h (and is not "delete everything") keeps h *)
Ltac nw := let X := fresh in intro X; subst; cbn in *; tauto.
Lemma map_set_keeps h w m ko vo w' r :
  map_set pcre w m ko vo = Ok (w', r) -> h <> m -> keeps h w w'.
Proof.
  unfold map_set. intros E Nm.
    destruct (get w m) as [mo|]; cbn [bind] in E; [|discriminate].
    destruct (as_cont mo) as [[[[[i c] a] al] xs]|]; cbn [bind] in E; [|discriminate].
    destruct (want_iface i IMap); cbn [bind] in E; [|discriminate].
    match type of E with (if ?c then _ else _) = _ => destruct c end; [discriminate|].
    destruct (map_scan ko xs O) as [hit|]; cbn [bind] in E; [|discriminate].
    destruct (copy pcre vo) as [v'|]; cbn [bind] in E; [|discriminate].
    destruct hit as [n|].
    + destruct (nth n xs None) as [[]|]; try discriminate.
      destruct (relabel v' (naddr w)) as [v2 na]. inv E.
      intros o L. cbn [held]. rewrite lookup_put_ne by congruence. exact L.
    + destruct (copy pcre ko) as [k'|]; cbn [bind] in E; [|discriminate].
      destruct (relabel (OPair (Some k') (Some v')) (naddr w)) as [pr na].
      destruct (c_insert c pr xs) as [xs'|]; cbn [bind] in E; [|discriminate]. inv E.
      intros o L. cbn [held]. rewrite lookup_put_ne by congruence. exact L.
Qed.

Theorem step_keeps h w op w' r :
  step pcre flag_table w op = Ok (w', r) -> ~ In h (writes op) -> is_delall op = false -> keeps h w w'.
Proof.
  intros E N D. destruct op; cbn [step writes is_delall In] in E, N, D; try discriminate;
    try (eapply fresh_keeps; exact E).
  - (* NewPair *)
    destruct (get_opt w k) as [ko|]; cbn [bind] in E; [|discriminate].
    destruct (get_opt w v) as [vo|]; cbn [bind] in E; [|discriminate].
    match type of E with (if ?c then _ else _) = _ => destruct c end; [discriminate|].
    destruct (copy_opt pcre ko); cbn [bind] in E; [|discriminate].
    destruct (copy_opt pcre vo); cbn [bind] in E; [|discriminate].
    eapply fresh_keeps; exact E.
  - (* NewUrl *) destruct t; eapply fresh_keeps; exact E.
  - destruct t; eapply fresh_keeps; exact E.
  - (* Dup *)
    destruct (get w h0) as [x|]; cbn [bind] in E; [|discriminate].
    match type of E with (_ <- ?g ;; _) = _ => destruct g end; cbn [bind] in E; [|discriminate].
    destruct (copy pcre x); cbn [bind] in E; [|discriminate]. eapply fresh_keeps; exact E.
  - (* Done *)
    destruct (get w h0) as [x|]; cbn [bind] in E; [|discriminate].
    assert (E' : Ok (mkWorld (put h0 (done_state x) (held w)) (next w) (naddr w) (ledger w - (release x - 1)), RBool true) = Ok (w', r))
      by (destruct x; congruence).
    inv E'. intros o L. cbn [held]. rewrite lookup_put_ne by nw. exact L.
  - (* Init *)
    destruct (get w h0) as [x|]; cbn [bind] in E; [|discriminate].
    destruct (is_empty_state x); [|destruct x; discriminate].
    assert (E' : Ok (mkWorld (put h0 (done_state x) (held w)) (next w) (naddr w) (ledger w), RBool true) = Ok (w', r))
      by (destruct x; try discriminate; exact E).
    inv E'. intros o L. cbn [held]. rewrite lookup_put_ne by nw. exact L.
  - (* Del *)
    destruct (get w h0) as [x|]; cbn [bind] in E; [|discriminate]. inv E.
    intros o L. cbn [held]. rewrite lookup_drop_ne by nw. exact L.
  - (* Comp *)
    destruct (get_opt w a) as [x|]; cbn [bind] in E; [|discriminate].
    destruct (get_opt w b) as [y|]; cbn [bind] in E; [|discriminate].
    match type of E with (if ?c then _ else _) = _ => destruct c end; [discriminate|].
    destruct (comp_opt x y); cbn [bind] in E; [|discriminate]. inv E. apply keeps_refl.
  - destruct (get w h0) as [x|]; cbn [bind] in E; [|discriminate]. destruct x; inv E; apply keeps_refl.
  - destruct (get w h0) as [x|]; cbn [bind] in E; [|discriminate]. inv E. apply keeps_refl.
  - inv E. apply keeps_refl.
  - (* Append *)
    destruct (get w h0) as [x|]; cbn [bind] in E; [|discriminate].
    destruct x as [?|s|s|s|? ?|? ? ?|? ?|? ? ?|? ? ? ? ?|? ?|]; try discriminate;
      (destruct t; cbv beta iota zeta in E; inv E; intros o L; cbn [held]; rewrite lookup_put_ne by nw; exact L).
  - (* Substr *)
    destruct (get w h0) as [x|]; cbn [bind] in E; [|discriminate].
    destruct x; try discriminate;
      (match type of E with match ?s with _ => _ end = _ => destruct s end;
       [eapply fresh_keeps; exact E
       |match type of E with Ok ?hb = _ => destruct hb as [w1 r1] eqn:H end; inv E;
        eapply hand_back_keeps; eauto]).
  - eapply setter_keeps; [exact E|nw|]. intros y ->. nw.
  - eapply setter_keeps; [exact E|nw|]. intros y ->. nw.
  - (* TokEval *)
    destruct (get w t) as [x|]; cbn [bind] in E; [|discriminate].
    destruct x; try discriminate. destruct src as [[]|]; try discriminate.
    + match type of E with (x <- ?S ;; _) = _ => destruct S end; cbn [bind] in E; [|discriminate].
      inv E. intros o L. cbn [held]. rewrite lookup_put_ne by nw. exact L.
    + inv E. apply keeps_refl.
  - eapply setter_keeps; [exact E|nw|]. intros y ->. nw.
  - eapply setter_keeps; [exact E|nw|]. intros y ->. nw.
  - eapply setter_keeps; [exact E|nw|]. intros y ->. nw.
  - (* UrlUnparse *)
    destruct (get w u) as [x|]; cbn [bind] in E; [|discriminate].
    destruct x; try discriminate.
    destruct (url_unparse comps) as [[t cs']|]; cbn [bind] in E; [|discriminate]. inv E.
    intros o L. cbn [held]. rewrite lookup_put_ne by nw. exact L.
  - destruct (get w r0) as [x|]; cbn [bind] in E; [|discriminate].
    destruct x; try discriminate. inv E. intros o L. cbn [held]. rewrite lookup_put_ne by nw. exact L.
  - destruct (get w r0) as [x|]; cbn [bind] in E; [|discriminate].
    destruct x; try discriminate. inv E. intros o L. cbn [held]. rewrite lookup_put_ne by nw. exact L.
  - eapply give_keeps; [exact E| |]; nw.
  - eapply give_keeps; [exact E| |]; nw.
  - eapply give_keeps; [exact E| |]; nw.
  - eapply give_keeps; [exact E| |]; nw.
  - destruct (get w p); cbn [bind] in E; [|discriminate]. eapply take_keeps; [exact E|nw].
  - eapply take_keeps; [exact E|nw].
  - (* LReverse *)
    destruct (get w c) as [co|]; cbn [bind] in E; [|discriminate].
    destruct (as_cont co) as [[[[[i k] a] al] xs]|]; cbn [bind] in E; [|discriminate].
    destruct (want_iface i IList); cbn [bind] in E; [|discriminate]. inv E.
    intros o L. cbn [held]. rewrite lookup_put_ne by nw. exact L.
  - eapply give_keeps; [exact E| |]; nw.
  - destruct (get w p); cbn [bind] in E; [|discriminate]. eapply take_keeps; [exact E|nw].
  - (* MSet *)
    destruct (get w m) as [mo|]; cbn [bind] in E; [|discriminate].
    destruct (get w k) as [ko|]; cbn [bind] in E; [|discriminate].
    destruct (get w v) as [vo|]; cbn [bind] in E; [|discriminate].
    match type of E with (if ?c then _ else _) = _ => destruct c end; [discriminate|].
    eapply map_set_keeps; [exact E|nw].
  - (* MSetPair *)
    destruct (get w m) as [mo|]; cbn [bind] in E; [|discriminate].
    destruct (get w p) as [po|]; cbn [bind] in E; [|discriminate].
    match type of E with (if ?c then _ else _) = _ => destruct c end; [discriminate|].
    destruct po as [| | | |[pk|] [pv|]| | | | | |]; try discriminate.
    eapply map_set_keeps; [exact E|nw].
  - (* MSetOwn *)
    destruct (get w m) as [mo|]; cbn [bind] in E; [|discriminate].
    destruct (get w k) as [ko|]; cbn [bind] in E; [|discriminate].
    destruct (as_cont mo) as [[[[[i c] a] al] xs]|]; cbn [bind] in E; [|discriminate].
    destruct (want_iface i IMap); cbn [bind] in E; [|discriminate].
    match type of E with (if ?c then _ else _) = _ => destruct c end; [discriminate|].
    destruct (map_scan ko xs O) as [[n|]|]; cbn [bind] in E; [| |discriminate].
    + destruct (nth n xs None) as [[| | | |[pk|] [pv|]| | | | | |]|]; try discriminate.
      eapply map_set_keeps; [exact E|nw].
    + inv E. apply keeps_refl.
  - destruct (get w k); cbn [bind] in E; [|discriminate]. eapply take_keeps; [exact E|nw].
  - eapply project_keeps; [exact E|]. intros d ->. nw.
  - eapply project_keeps; [exact E|]. intros d ->. nw.
  - eapply project_keeps; [exact E|]. intros d ->. nw.
  - (* ToArray *)
    destruct (get w c) as [co|]; cbn [bind] in E; [|discriminate].
    destruct (as_cont co); cbn [bind] in E; [|discriminate].
    match type of E with Ok ?hb = _ => destruct hb as [w1 r1] eqn:H end. inv E.
    eapply hand_back_keeps; eauto.
  - destruct (get w c) as [co|]; cbn [bind] in E; [|discriminate].
    destruct (as_cont co) as [[[[[i k] a] al] xs]|]; cbn [bind] in E; [|discriminate].
    match type of E with Ok ?hb = _ => destruct hb as [w1 r1] eqn:H end. inv E.
    eapply hand_back_keeps; eauto.
  - (* Query *)
    destruct (get w c) as [co|]; cbn [bind] in E; [|discriminate].
    destruct (get w h0) as [po|]; cbn [bind] in E; [|discriminate].
    destruct (as_cont co) as [[[[[i k] a] al] xs]|]; cbn [bind] in E; [|discriminate].
    match type of E with (if ?c then _ else _) = _ => destruct c end; [discriminate|].
    destruct (query_walk i po xs); inv E. apply keeps_refl.
  - (* TokSetChar *)
    destruct (get w t) as [x|]; cbn [bind] in E; [|discriminate].
    match type of E with (if ?c then _ else _) = _ => destruct c end; [discriminate|].
    destruct x; try discriminate. destruct which as [|[|[|?]]]; try discriminate;
      (inv E; intros o L; cbn [held]; rewrite lookup_put_ne by nw; exact L).
  - (* TokSetTokens *) eapply setter_keeps; [exact E|nw|]. intros y ->. nw.
  - (* TokListRemoveAt *)
    destruct (get w t) as [x|]; cbn [bind] in E; [|discriminate].
    destruct x as [| | | | |a0 b0 [[| | | | | | | |[] k ad al xs| |]|] ch| | | | |]; try discriminate.
    destruct (in_range xs idx) as [n|];
      (match type of E with Ok ?hb = _ => destruct hb as [w1 r1] eqn:H end; inv E;
       eapply hand_back_keeps; [exact H|]; intros y L; rewrite ?lookup_put_ne by nw; exact L).
  - (* TokListAppend *)
    destruct (get w t) as [x|]; cbn [bind] in E; [|discriminate].
    destruct (Nat.eqb t h0); [discriminate|].
    destruct (get w h0) as [y|]; cbn [bind] in E; [|discriminate].
    destruct (negb (storable y)); [discriminate|].
    destruct x as [| | | | |a0 b0 [[| | | | | | | |[] k ad al xs| |]|] ch| | | | |]; try discriminate. inv E.
    intros o L. cbn [held]. rewrite lookup_put_ne, lookup_drop_ne by nw. exact L.
  - (* MemberAppend *)
    destruct (get w h0) as [x|]; cbn [bind] in E; [|discriminate].
    destruct x as [| | | |pk pv|a0 b0 l0 ch|us cs| | | |]; try discriminate.
    + destruct sel as [|[|?]]; try discriminate;
        (match type of E with (x <- ?M ;; _) = _ => destruct M as [[m' d]|] end; cbn [bind] in E; [|discriminate];
         inv E; intros o L; cbn [held]; rewrite lookup_put_ne by nw; exact L).
    + destruct sel as [|[|?]]; try discriminate;
        (match type of E with (x <- ?M ;; _) = _ => destruct M as [[m' d]|] end; cbn [bind] in E; [|discriminate];
         inv E; intros o L; cbn [held]; rewrite lookup_put_ne by nw; exact L).
    + destruct (sel <? length cs)%nat; [|discriminate].
      destruct (member_app (nth_comp cs sel) t) as [[m' d]|]; cbn [bind] in E; [|discriminate].
      inv E. intros o L. cbn [held]. rewrite lookup_put_ne by nw. exact L.
  - (* SetLen *)
    destruct (get w h0) as [x|]; cbn [bind] in E; [|discriminate].
    destruct (k <? 0).
    + destruct x; try discriminate; inv E; apply keeps_refl.
    + destruct x as [| | |mb| | | | | | |]; try discriminate.
      match type of E with (if ?c then _ else _) = _ => destruct c end; [discriminate|]. inv E.
      intros o L. cbn [held]. rewrite lookup_put_ne by nw. exact L.
  - (* NewFromStream *)
    destruct (stream_text c v k content pos) as [[bo|]|]; cbn [bind] in E; [| |discriminate].
    + eapply fresh_keeps; exact E.
    + match type of E with Ok ?hb = _ => destruct hb as [w1 r1] eqn:H end. inv E.
      eapply hand_back_keeps; eauto.
Qed.

(* a whole history that never writes h *)
Theorem run_keeps h : forall p w w' outs,
  run pcre flag_table w p = Ok (w', outs) ->
  Forall (fun o => ~ In h (writes o) /\ is_delall o = false) p -> keeps h w w'.
Proof.
  induction p as [|o t IH]; intros w w' outs E F; cbn [run] in E.
  - inv E. apply keeps_refl.
  - destruct (step pcre flag_table w o) as [[w1 r]|] eqn:S; cbn [bind] in E; [|discriminate].
    destruct (run pcre flag_table w1 t) as [[w2 rs]|] eqn:R; cbn [bind] in E; [|discriminate]. inv E.
    pose proof (Forall_inv F) as (A & B). pose proof (Forall_inv_tail F) as Ft.
    intros x L. eapply IH; [exact R|exact Ft|]. eapply step_keeps; eauto.
Qed.
End Frame.
