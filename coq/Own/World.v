(* Own/World.v - the OWNERSHIP MODEL of properties C05 (dup / comp / type protocol) and C06
   (every allocation released exactly once).  Executable, no proofs in this file.

   Objects are VALUE TREES (no shared heap: sharing between two objects cannot be expressed,
   which is exactly what "dup is independent" and "a container owns its elements" say).  For
   every class three separate cost functions are written by reading the C code:

     footprint o   the live allocations the C object owns, read off new / init and the
                   mutators (object block, text block, items block, one node per element ...)
     release o     the blocks the class's done / del chain frees, read off the done routines
     dup_cost o    the blocks the class's dup routine allocates, read off the dup routines

   The interpreter [step] runs one operation of a PROGRAM over the handles the program holds
   and keeps a LEDGER (number of live allocations), updated exactly where the C code has
   MALLOC / REALLOC / STRDUP / FREE / SPIF_ALLOC / SPIF_DEALLOC.  The theorems of
   Own/OwnProofs.v relate the three cost functions and prove ledger = sum of footprints.

   Faults.  Using a handle the program does not hold is [Fault Use_after_free]; applying an
   operation to an object of the wrong class (type confusion) or calling init on an object
   that still owns storage is [Fault Abort].  These are errors of the PROGRAM; the theorems
   exclude them explicitly.  The model of the repaired library produces no other fault.

   The code mirrored is the tree AFTER the repairs listed in checks/c05.py / c06.py. *)
From LV Require Export Base.Res.
From LV Require Split.SplitModel Url.UrlModel.
Local Open Scope Z_scope.

Definition text := list Z.          (* bytes 1..255, no NUL *)

Inductive cls : Set := Arr | LL | DL.            (* array.c / linked_list.c / dlinked_list.c *)
Inductive iface : Set := IList | IVector | IMap.
Inductive cmp : Set := CLt | CEq | CGt.           (* SPIF_CMP_LESS / EQUAL / GREATER *)
Definition opp (c : cmp) : cmp := match c with CLt => CGt | CEq => CEq | CGt => CLt end.

(* ---------------------------------------------------------------------------------------- *)
(* value trees.  None in an [option obj] position is a NULL pointer member / NULL placeholder. *)
(* the quote, dquote and escape members of a tokenizer (spif_char_t each; as bytes 0..255) *)
Definition tokchars : Type := (Z * Z * Z)%type.
Definition default_chars : tokchars := (39, 34, 92).       (* single quote, double quote, backslash: set by init / done *)
Definition ch_quote (c : tokchars) : Z := fst (fst c).
Definition ch_dquote (c : tokchars) : Z := snd (fst c).
Definition ch_escape (c : tokchars) : Z := snd c.

Inductive obj : Type :=
| OObj (addr : Z)                                   (* spif_obj_t: only an identity *)
| OStr (s : option text)                            (* s = NULL or a buffer holding the text *)
| OUstr (s : option text)
| OMbuff (b : option text)                          (* buff = NULL or a block holding the bytes *)
| OPair (k v : option obj)
| OTok (src sep tokens : option obj) (ch : tokchars) (* str, str, list (eval: dlinked_list of str); quote dquote escape *)
| OUrl (s : option text) (comps : list (option obj))  (* proto user passwd host port path query *)
| ORegexp (s : option text) (flags : Z) (data : Z)  (* data = blocks held by the compiled pattern, 0 = NULL *)
| OCont (i : iface) (c : cls) (addr : Z) (alloc : bool) (items : list (option obj))
                                                    (* alloc: array items block is non-NULL *)
| OIter (c : cls) (subject : nat)                   (* borrows the subject, owns nothing else *)
| ORaw.                                             (* block returned by to_array (borrowed pointers) *)

Definition optb {A} (o : option A) : Z := match o with Some _ => 1 | None => 0 end.
Definition node_cost (c : cls) : Z := match c with Arr => 0 | _ => 1 end.
Definition items_cost (c : cls) (alloc : bool) : Z :=
  match c with Arr => if alloc then 1 else 0 | _ => 0 end.

(* ---- footprint: what new / init / the mutators have allocated for the object ---- *)
Fixpoint footprint (o : obj) : Z :=
  let fo := fun (x : option obj) => match x with Some y => footprint y | None => 0 end in
  match o with
  | OObj _ => 1
  | OStr s => 1 + optb s
  | OUstr s => 1 + optb s
  | OMbuff b => 1 + optb b
  | OPair k v => 1 + fo k + fo v
  | OTok a b c _ => 1 + fo a + fo b + fo c
  | OUrl s cs => 1 + optb s + (fix go (l : list (option obj)) : Z :=
                                 match l with [] => 0 | x :: t => fo x + go t end) cs
  | ORegexp s _ d => 1 + optb s + d
  | OCont _ c _ al items =>
      1 + items_cost c al + (fix go (l : list (option obj)) : Z :=
                               match l with [] => 0 | x :: t => node_cost c + fo x + go t end) items
  | OIter _ _ => 1
  | ORaw => 1
  end.
Definition fp_opt (x : option obj) : Z := match x with Some y => footprint y | None => 0 end.

(* ---- release: the blocks freed by SPIF_OBJ_DEL (done chain + SPIF_DEALLOC) ----
   str/ustr/mbuff_done: FREE(s) when the buffer exists; objpair_done: DEL key, DEL value when
   non-NULL; tok_done: DEL tokens, src, sep when non-NULL; url_done: DEL each non-NULL component,
   then str_done; regexp_done: str_done, FREE(data) when non-NULL; array_done: DEL every
   non-NULL item, FREE(items); (d)linked_list_done: item_del for every node (DEL data when
   non-NULL, DEALLOC node); iterator_done frees nothing. *)
Fixpoint release (o : obj) : Z :=
  let ro := fun (x : option obj) => match x with Some y => release y | None => 0 end in
  match o with
  | OObj _ => 1
  | OStr s => optb s + 1
  | OUstr s => optb s + 1
  | OMbuff b => optb b + 1
  | OPair k v => ro k + ro v + 1
  | OTok a b c _ => ro c + ro a + ro b + 1
  | OUrl s cs => (fix go (l : list (option obj)) : Z :=
                    match l with [] => 0 | x :: t => ro x + go t end) cs + optb s + 1
  | ORegexp s _ d => optb s + d + 1
  | OCont _ c _ al items =>
      (fix go (l : list (option obj)) : Z :=
         match l with [] => 0 | x :: t => ro x + node_cost c + go t end) items
      + items_cost c al + 1
  | OIter _ _ => 1
  | ORaw => 1
  end.

Definition rel_opt (x : option obj) : Z := match x with Some y => release y | None => 0 end.

(* ---- done: the state SPIF_OBJ_DONE leaves behind (the class's empty state) ---- *)
Definition none7 : list (option obj) := [None; None; None; None; None; None; None].
Definition done_state (o : obj) : obj :=
  match o with
  | OObj a => OObj a
  | OStr _ => OStr None
  | OUstr _ => OUstr None
  | OMbuff _ => OMbuff None
  | OPair _ _ => OPair None None
  | OTok _ _ _ _ => OTok None None None default_chars      (* tok_done resets the three characters *)
  | OUrl _ cs => OUrl None (map (fun _ => None) cs)
  | ORegexp _ _ _ => ORegexp None 0 0
  | OCont i c a _ _ => OCont i c a false []
  | OIter c s => OIter c s
  | ORaw => ORaw
  end.

(* ---- abs: the observable value (addresses, the array's items-block flag and the compiled
        pattern are not part of it) ---- *)
Fixpoint abs (o : obj) : obj :=
  let ao := fun (x : option obj) => match x with Some y => Some (abs y) | None => None end in
  match o with
  | OObj _ => OObj 0
  | OPair k v => OPair (ao k) (ao v)
  | OTok a b c ch => OTok (ao a) (ao b) (ao c) ch
  | OUrl s cs => OUrl s ((fix go (l : list (option obj)) : list (option obj) :=
                            match l with [] => [] | x :: t => ao x :: go t end) cs)
  | ORegexp s f _ => ORegexp s f 0
  | OCont i c _ _ items =>
      OCont i c 0 false ((fix go (l : list (option obj)) : list (option obj) :=
                            match l with [] => [] | x :: t => ao x :: go t end) items)
  | other => other
  end.
Definition abs_opt (x : option obj) : option obj := match x with Some y => Some (abs y) | None => None end.

(* ---- class tags (the method table an object's header points to) ---- *)
Inductive ctag : Set :=
| TObj | TStr | TUstr | TMbuff | TPair | TTok | TUrl | TRegexp
| TCont (i : iface) (c : cls) | TIter (c : cls) | TRaw.
Definition tag_of (o : obj) : ctag :=
  match o with
  | OObj _ => TObj | OStr _ => TStr | OUstr _ => TUstr | OMbuff _ => TMbuff | OPair _ _ => TPair
  | OTok _ _ _ _ => TTok | OUrl _ _ => TUrl | ORegexp _ _ _ => TRegexp
  | OCont i c _ _ _ => TCont i c | OIter c _ => TIter c | ORaw => TRaw
  end.

(* ---------------------------------------------------------------------------------------- *)
(* comparison *)

(* strcmp on NUL-free texts, then SPIF_CMP_FROM_INT: the sign of the first differing byte
   (unsigned char difference, at most 255 in magnitude, so the (int) cast changes nothing) *)
Fixpoint text_cmp (a b : text) : cmp :=
  match a, b with
  | [], [] => CEq
  | [], _ :: _ => CLt
  | _ :: _, [] => CGt
  | x :: a', y :: b' => if x <? y then CLt else if y <? x then CGt else text_cmp a' b'
  end.
Definition text_of (s : option text) : text := match s with Some t => t | None => [] end.
(* SPIF_CMP_FROM_INT(i) = sign of (int) i; here for the 64-bit address difference of the repaired
   spif_obj_comp, which compares the addresses themselves *)
Definition addr_cmp (a b : Z) : cmp := if a <? b then CLt else if b <? a then CGt else CEq.

(* spif_mbuff_cmp (repaired under C07): memcmp over the common prefix, then the lengths *)
Definition bytes_cmp (a b : text) : cmp := text_cmp a b.

(* SPIF_OBJ_COMP(a, b) on two non-NULL objects dispatches on a's class.  Comparing objects of
   different classes makes the callee read the other object through the wrong struct: Abort.
   objpair_comp accepts a pair or a bare key as second argument. *)
Fixpoint comp (a b : obj) {struct a} : res cmp :=
  (* SPIF_OBJ_COMP_CHECK_NULL(x, y) followed by SPIF_OBJ_COMP(x, y) *)
  let comp_null := fun (x : option obj) (y : option obj) =>
    match x, y with
    | None, None => Ok CEq
    | None, Some _ => Ok CLt
    | Some _, None => Ok CGt
    | Some x', Some y' => comp x' y'
    end in
  match a, b with
  | OObj p, OObj q => Ok (addr_cmp p q)
  | OStr s, OStr t => Ok (text_cmp (text_of s) (text_of t))
  | OUstr s, OUstr t => Ok (text_cmp (text_of s) (text_of t))
  | OMbuff s, OMbuff t => Ok (bytes_cmp (text_of s) (text_of t))
  | OPair k _, OPair k2 _ => comp_null k k2
  | OPair k _, other => comp_null k (Some other)
  | OTok s _ _ _, OTok t _ _ _ => comp_null s t
  | OUrl s _, OUrl t _ => Ok (text_cmp (text_of s) (text_of t))
  | ORegexp s _ _, ORegexp t _ _ => Ok (text_cmp (text_of s) (text_of t))
  | OCont _ Arr _ _ xs, OCont _ Arr _ _ ys =>
      (* spif_array_comp (repaired): element-wise over the common length, then by length *)
      (fix go (l1 l2 : list (option obj)) {struct l1} : res cmp :=
         match l1, l2 with
         | [], [] => Ok CEq
         | [], _ :: _ => Ok CLt
         | _ :: _, [] => Ok CGt
         | x :: t1, y :: t2 =>
           c <- comp_null x y ;;
           match c with CEq => go t1 t2 | _ => Ok c end
         end) xs ys
  | OCont _ LL p _ _, OCont _ LL q _ _ => Ok (addr_cmp p q)     (* spif_obj_comp on the containers *)
  | OCont _ DL p _ _, OCont _ DL q _ _ => Ok (addr_cmp p q)
  | _, _ => Fault Abort
  end.

(* the class function called with possibly-NULL arguments: SPIF_OBJ_COMP_CHECK_NULL first *)
Definition comp_opt (a b : option obj) : res cmp :=
  match a, b with
  | None, None => Ok CEq
  | None, Some _ => Ok CLt
  | Some _, None => Ok CGt
  | Some x, Some y => comp x y
  end.

(* does the result of comp a b depend on addresses?  (only then is the correspondence check
   restricted to the build whose allocator is monotone) *)
Fixpoint addr_dep (a : obj) : bool :=
  let ad := fun (x : option obj) => match x with Some y => addr_dep y | None => false end in
  match a with
  | OObj _ => true
  | OPair k _ => ad k
  | OCont _ Arr _ _ xs => (fix go (l : list (option obj)) : bool :=
                             match l with [] => false | x :: t => ad x || go t end) xs
  | OCont _ _ _ _ _ => true
  | _ => false
  end.

(* ---------------------------------------------------------------------------------------- *)
(* dup *)

(* relabel: a copy gets fresh addresses, numbered in the order the dup routines allocate
   (the object first, then its members in field order) *)
Fixpoint relabel (o : obj) (n : Z) {struct o} : obj * Z :=
  let ro := fun (x : option obj) (n : Z) =>
    match x with Some y => let (y', n') := relabel y n in (Some y', n') | None => (None, n) end in
  match o with
  | OObj _ => (OObj n, n + 1)
  | OPair k v => let (k', n1) := ro k n in let (v', n2) := ro v n1 in (OPair k' v', n2)
  | OTok a b c ch => let (a', n1) := ro a n in let (c', n2) := ro c n1 in let (b', n3) := ro b n2 in
                     (OTok a' b' c' ch, n3)
  | OUrl s cs =>
      let (cs', n1) := (fix go (l : list (option obj)) (n : Z) : list (option obj) * Z :=
                          match l with
                          | [] => ([], n)
                          | x :: t => let (x', n1) := ro x n in let (t', n2) := go t n1 in (x' :: t', n2)
                          end) cs n in (OUrl s cs', n1)
  | OCont i c _ al items =>
      let (items', n1) := (fix go (l : list (option obj)) (n : Z) : list (option obj) * Z :=
                             match l with
                             | [] => ([], n)
                             | x :: t => let (x', n1) := ro x n in let (t', n2) := go t n1 in (x' :: t', n2)
                             end) items (n + 1) in (OCont i c n al items', n1)
  | other => (other, n)
  end.

(* the value the class's dup routine builds (addresses still those of the original).
   pcre: the oracle "how many blocks does pcre_compile(pattern, flags) leave allocated".
     str/ustr_dup   copies the buffer when there is one
     mbuff_dup      (repaired) copies the block when there is one
     objpair_dup    (repaired) dups each non-NULL member
     tok_dup        (repaired) dups src, tokens, sep when non-NULL and copies quote, dquote, escape; the token
                    list is COPIED (whatever it holds), never recomputed from the other members
     url_dup        (repaired) dups the text and every non-NULL component
     regexp_dup     copies text and flags and compiles (first with no flags, which is freed
                    again, then with the flags)
     array *_dup    new items block of len cells (malloc(0) for an empty one: alloc = true),
                    NULL placeholders stay NULL, the others are dup'ed
     (d)linked *_dup one new node per node, data dup'ed when non-NULL
     iterator_dup   same subject *)
Section Dup.
Variable pcre : option text -> Z -> Z.
(* spif_regexp_compile: nothing to compile without a pattern (repaired); otherwise the oracle *)
Definition compile_blocks (s : option text) (f : Z) : Z :=
  match s with None => 0 | Some _ => pcre s f end.
Fixpoint copy (o : obj) : res obj :=
  let co := fun (x : option obj) =>
    match x with Some y => (y' <- copy y ;; Ok (Some y')) | None => Ok None end in
  match o with
  | OObj a => Ok (OObj a)
  | OStr s => Ok (OStr s)
  | OUstr s => Ok (OUstr s)
  | OMbuff b => Ok (OMbuff b)
  | OPair k v => k' <- co k ;; v' <- co v ;; Ok (OPair k' v')
  | OTok a b c ch => a' <- co a ;; c' <- co c ;; b' <- co b ;; Ok (OTok a' b' c' ch)
  | OUrl s cs =>
      cs' <- (fix go (l : list (option obj)) : res (list (option obj)) :=
                match l with
                | [] => Ok []
                | x :: t => x' <- co x ;; t' <- go t ;; Ok (x' :: t')
                end) cs ;; Ok (OUrl s cs')
  | ORegexp s f d => Ok (ORegexp s f (compile_blocks s f))
  | OCont i c a al items =>
      items' <- (fix go (l : list (option obj)) : res (list (option obj)) :=
                   match l with
                   | [] => Ok []
                   | x :: t =>
                     (* array vector_dup / map_dup call SPIF_OBJ_DUP(items[i]) unguarded *)
                     _ <- (match i, c, x with
                           | IList, _, _ | _, LL, _ | _, DL, _ | _, _, Some _ => Ok tt
                           | _, Arr, None => Fault Null_deref
                           end) ;;
                     x' <- co x ;; t' <- go t ;; Ok (x' :: t')
                   end) items ;;
      Ok (OCont i c a (match c with Arr => true | _ => false end) items')
  | OIter c s => Ok (OIter c s)
  | ORaw => Fault Abort                       (* not an object: no dup method *)
  end.

(* blocks allocated by the dup routine, read off the code in the same order *)
Fixpoint dup_cost (o : obj) : Z :=
  let dc := fun (x : option obj) => match x with Some y => dup_cost y | None => 0 end in
  match o with
  | OObj _ => 1
  | OStr s => 1 + optb s
  | OUstr s => 1 + optb s
  | OMbuff b => 1 + optb b
  | OPair k v => 1 + dc k + dc v
  | OTok a b c _ => 1 + dc a + dc c + dc b
  | OUrl s cs => 1 + optb s + (fix go (l : list (option obj)) : Z :=
                                 match l with [] => 0 | x :: t => dc x + go t end) cs
  | ORegexp s f d => 1 + optb s + compile_blocks s f
  | OCont _ c _ _ items =>
      1 + (match c with Arr => 1 | _ => 0 end)
        + (fix go (l : list (option obj)) : Z :=
             match l with [] => 0 | x :: t => node_cost c + dc x + go t end) items
  | OIter _ _ => 1
  | ORaw => 0
  end.
End Dup.

(* ---------------------------------------------------------------------------------------- *)
(* container operations on the item list (None = NULL placeholder).  comp_item x s is
   SPIF_OBJ_COMP(x, s) with s possibly NULL (every class's comp starts with CHECK_NULL). *)
Definition comp_item (x : obj) (s : option obj) : res cmp :=
  match s with None => Ok CGt | Some y => comp x y end.

Definition is_gt (c : cmp) : bool := match c with CGt => true | _ => false end.
Definition is_lt (c : cmp) : bool := match c with CLt => true | _ => false end.
Definition is_eq (c : cmp) : bool := match c with CEq => true | _ => false end.

(* for (i = 0; i < len && GREATER(COMP(obj, items[i])); i++);  insert at i *)
Fixpoint ins_ordered (x : obj) (xs : list (option obj)) : res (list (option obj)) :=
  match xs with
  | [] => Ok [Some x]
  | s :: t => c <- comp_item x s ;;
              if is_gt c then (t' <- ins_ordered x t ;; Ok (s :: t')) else Ok (Some x :: xs)
  end.
(* linked_list_insert: empty -> head; LESS than head -> new head; else walk from the head while
   the NEXT node is smaller.  dlinked_list_insert: additionally GREATER than tail -> append. *)
Definition ins_linked (dl : bool) (x : obj) (xs : list (option obj)) : res (list (option obj)) :=
  match xs with
  | [] => Ok [Some x]
  | h :: t =>
    c <- comp_item x h ;;
    if is_lt c then Ok (Some x :: xs)
    else
      ctail <- (if dl then comp_item x (last xs None) else Ok CEq) ;;
      if dl && is_gt ctail then Ok (xs ++ [Some x])
      else (t' <- ins_ordered x t ;; Ok (h :: t'))
  end.
Definition c_insert (c : cls) (x : obj) (xs : list (option obj)) : res (list (option obj)) :=
  match c with Arr => ins_ordered x xs | LL => ins_linked false x xs | DL => ins_linked true x xs end.

(* insert_at: pad with NULL placeholders when the list is shorter (all three classes, as repaired
   under C02) *)
Fixpoint ins_at (n : nat) (x : obj) (xs : list (option obj)) : list (option obj) :=
  match n, xs with
  | O, _ => Some x :: xs
  | S n', [] => None :: ins_at n' x []
  | S n', s :: t => s :: ins_at n' x t
  end.
Definition llen (xs : list (option obj)) : Z := Z.of_nat (length xs).
Definition norm_idx (len idx : Z) : Z := if idx <? 0 then idx + len else idx.

(* remove: first element e with COMP(probe, e) == EQUAL (list / vector interface) *)
Fixpoint rem_first (p : obj) (xs : list (option obj)) : res (list (option obj) * option obj) :=
  match xs with
  | [] => Ok ([], None)
  | s :: t => c <- comp_item p s ;;
              if is_eq c then Ok (t, s)
              else ('(t', r) <- rem_first p t ;; Ok (s :: t', r))
  end.
(* map remove / set: first pair e with COMP(e, key) == EQUAL; items of a map are never NULL *)
Definition comp_elem (s : option obj) (k : obj) : res cmp :=
  match s with None => Fault Null_deref | Some e => comp e k end.
Fixpoint mrem_first (k : obj) (xs : list (option obj)) : res (list (option obj) * option obj) :=
  match xs with
  | [] => Ok ([], None)
  | s :: t => c <- comp_elem s k ;;
              if is_eq c then Ok (t, s)
              else ('(t', r) <- mrem_first k t ;; Ok (s :: t', r))
  end.
Fixpoint rem_nth {A} (n : nat) (xs : list A) : list A :=
  match n, xs with
  | _, [] => []
  | O, _ :: t => t
  | S n', x :: t => x :: rem_nth n' t
  end.
Definition in_range (xs : list (option obj)) (idx : Z) : option nat :=
  let i := norm_idx (llen xs) idx in
  if (i <? 0) || (llen xs <=? i) then None else Some (Z.to_nat i).

(* ---------------------------------------------------------------------------------------- *)
(* list forms of the nested recursions above (same bodies; Own/OwnProofs.v proves the unfolding
   equations by reflexivity) *)
Definition fp_items (c : cls) : list (option obj) -> Z :=
  fix go (l : list (option obj)) : Z :=
    match l with [] => 0 | x :: t => node_cost c + fp_opt x + go t end.
Definition rel_items (c : cls) : list (option obj) -> Z :=
  fix go (l : list (option obj)) : Z :=
    match l with [] => 0 | x :: t => rel_opt x + node_cost c + go t end.
Definition copy_opt (pcre : option text -> Z -> Z) (x : option obj) : res (option obj) :=
  match x with Some y => (y' <- copy pcre y ;; Ok (Some y')) | None => Ok None end.
Definition copy_items (pcre : option text -> Z -> Z) : list (option obj) -> res (list (option obj)) :=
  fix go (l : list (option obj)) : res (list (option obj)) :=
    match l with
    | [] => Ok []
    | x :: t => x' <- copy_opt pcre x ;; t' <- go t ;; Ok (x' :: t')
    end.
Definition dc_opt (pcre : option text -> Z -> Z) (x : option obj) : Z :=
  match x with Some y => dup_cost pcre y | None => 0 end.
Definition dc_items (pcre : option text -> Z -> Z) (c : cls) : list (option obj) -> Z :=
  fix go (l : list (option obj)) : Z :=
    match l with [] => 0 | x :: t => node_cost c + dc_opt pcre x + go t end.
Definition relabel_opt (x : option obj) (n : Z) : option obj * Z :=
  match x with Some y => let (y', n') := relabel y n in (Some y', n') | None => (None, n) end.
Definition relabel_items : list (option obj) -> Z -> list (option obj) * Z :=
  fix go (l : list (option obj)) (n : Z) : list (option obj) * Z :=
    match l with
    | [] => ([], n)
    | x :: t => let (x', n1) := relabel_opt x n in let (t', n2) := go t n1 in (x' :: t', n2)
    end.
Definition count_some (l : list (option obj)) : Z :=
  fold_right (fun x acc => optb x + acc) 0 l.
Definition is_object (o : obj) : bool := match o with ORaw => false | _ => true end.
(* what a program may hand to a container, a pair or a setter: an object that does not borrow
   another one (an iterator inside a container would be dereferenced by the container's dup
   after its subject is gone) *)
Definition storable (o : obj) : bool := match o with ORaw | OIter _ _ => false | _ => true end.

(* vectors and maps never contain NULL placeholders (only insert_at of the list interface makes
   them) and a map's entries are pairs with key and value; the dup routines of the array vector /
   map classes and get_keys / get_values rely on it *)
Definition item_ok (i : iface) (x : option obj) : bool :=
  match i, x with
  | IList, _ => true
  | IVector, Some _ => true
  | IMap, Some (OPair (Some _) (Some _)) => true      (* entries are made by objpair_new_from_both *)
  | _, _ => false
  end.
Fixpoint wf (o : obj) : bool :=
  let wo := fun (x : option obj) => match x with Some y => wf y | None => true end in
  match o with
  | OPair k v => wo k && wo v
  | OTok a b c _ => wo a && wo b && wo c
  | OUrl _ cs => (fix go (l : list (option obj)) : bool :=
                    match l with [] => true | x :: t => wo x && go t end) cs
  | OCont i _ _ _ items =>
      (fix go (l : list (option obj)) : bool :=
         match l with
         | [] => true
         | x :: t => item_ok i x && wo x && go t
         end) items
  | _ => true
  end.

(* ---------------------------------------------------------------------------------------- *)
(* the world *)
Record world := mkWorld {
  held : list (nat * obj);     (* the handles the program holds, with their trees *)
  next : nat;                  (* next handle number *)
  naddr : Z;                   (* next address (monotone allocator) *)
  ledger : Z                   (* live allocations *)
}.
Definition w0 : world := mkWorld [] 0 0 0.

Fixpoint lookup (h : nat) (l : list (nat * obj)) : option obj :=
  match l with
  | [] => None
  | (k, o) :: t => if Nat.eqb h k then Some o else lookup h t
  end.
Fixpoint drop (h : nat) (l : list (nat * obj)) : list (nat * obj) :=
  match l with
  | [] => []
  | (k, o) :: t => if Nat.eqb h k then t else (k, o) :: drop h t
  end.
Fixpoint put (h : nat) (o : obj) (l : list (nat * obj)) : list (nat * obj) :=
  match l with
  | [] => []
  | (k, o0) :: t => if Nat.eqb h k then (k, o) :: t else (k, o0) :: put h o t
  end.
Definition get (w : world) (h : nat) : res obj :=
  match lookup h (held w) with Some o => Ok o | None => Fault Use_after_free end.
(* an argument that may be NULL ("_" in a case line) *)
Definition get_opt (w : world) (h : option nat) : res (option obj) :=
  match h with None => Ok None | Some h' => o <- get w h' ;; Ok (Some o) end.

Inductive out : Type :=
| RUnit
| RBool (b : bool)
| RNew (h : nat) (null : bool)        (* a handed-back object got handle h; null: the result was NULL *)
| RCmp (c : cmp) (adep : bool)
| RType (t : ctag)
| RVal (v : option obj)               (* read-back of an object's value *)
| RVals (l : list (nat * obj)).       (* read-back of everything held *)

(* bind a handed-back object (or a NULL result) to the next handle *)
Definition hand_back (w : world) (r : option obj) (held' : list (nat * obj)) (naddr' ledger' : Z)
  : world * out :=
  match r with
  | Some o => (mkWorld (held' ++ [(next w, o)]) (S (next w)) naddr' ledger', RNew (next w) false)
  | None => (mkWorld held' (S (next w)) naddr' ledger', RNew (next w) true)
  end.

(* ---- streams: what spif_{str,ustr,mbuff,tok}_new_from_fp / _from_fd are given ---- *)
Inductive scls : Set := SStr | SUstr | SMbuff | STok.
Inductive svia : Set := VFp | VFd.
(* a regular (seekable) file with the stream positioned at pos; a pipe holding the content whose
   write end is closed; a descriptor that has been closed; no stream at all (NULL FILE*, descriptor -1) *)
Inductive skind : Set := KReg | KPipe | KClosed | KBad.

Inductive op : Type :=
(* constructors *)
| NewObj
| NewStr (t : option text) | NewUstr (t : option text) | NewMbuff (t : option text)
| NewPair (k v : option nat)
| NewTok (t : option text)
| NewUrl (t : option text)
| NewRegexp (t : option text)
| NewCont (i : iface) (c : cls)
(* the object protocol *)
| Dup (h : nat) | Done (h : nat) | Init (h : nat) | Del (h : nat)
| Comp (a b : option nat) | TypeOf (h : nat) | Dump (h : nat) | DumpAll | DelAll
(* str / ustr / mbuff *)
| Append (h : nat) (t : text) | Substr (h : nat) (idx cnt : Z)
(* objpair: the pair takes over the object it is given *)
| SetKey (p : nat) (h : option nat) | SetValue (p : nat) (h : option nat)
(* tok *)
| TokEval (t : nat) | TokSetSrc (t : nat) (h : option nat) | TokSetSep (t : nat) (h : option nat)
(* url *)
| UrlSet (u : nat) (field : nat) (h : option nat) | UrlUnparse (u : nat)
(* regexp *)
| ReSetFlags (r : nat) (fl : text) | ReCompile (r : nat)
(* list interface: the container takes over the element *)
| LAppend (c h : nat) | LPrepend (c h : nat) | LInsert (c h : nat) | LInsertAt (c h : nat) (idx : Z)
| LRemove (c p : nat) | LRemoveAt (c : nat) (idx : Z) | LReverse (c : nat)
(* vector interface *)
| VInsert (c h : nat) | VRemove (c p : nat)
(* map interface: the map takes copies *)
| MSet (m k v : nat) | MSetPair (m p : nat) | MSetOwn (m k : nat) (pairform : bool) | MRemove (m k : nat)
| MKeys (m : nat) (dst : option nat) | MValues (m : nat) (dst : option nat) | MPairs (m : nat) (dst : option nat)
(* any container *)
| ToArray (c : nat) | Iterator (c : nat)
(* the non-allocating queries of a container, with a probe object *)
| Query (c h : nat)
(* tok: the three character members; the token list installed by the caller (set_tokens takes the
   list over) or edited through the pointer spif_tok_get_tokens hands out *)
| TokSetChar (t : nat) (which : nat) (c : Z)        (* which: 0 quote, 1 dquote, 2 escape *)
| TokSetTokens (t : nat) (h : option nat)
| TokListRemoveAt (t : nat) (idx : Z)               (* SPIF_LIST_REMOVE_AT(spif_tok_get_tokens(t), idx) *)
| TokListAppend (t h : nat)                         (* SPIF_LIST_APPEND(spif_tok_get_tokens(t), obj) *)
(* a text member changed IN PLACE through the pointer its getter hands out:
   append_from_ptr(get_<member>(h), text); tok: 0 src, 1 sep; objpair: 0 key, 1 value; url: 0..6 *)
| MemberAppend (h : nat) (sel : nat) (t : text)
(* str / ustr / mbuff: set_size(get_size) and set_len(get_len) (k < 0); mbuff: set_len(k), k <= len *)
| SetLen (h : nat) (k : Z)
(* constructors from a FILE* / a descriptor *)
| NewFromStream (c : scls) (v : svia) (k : skind) (content : text) (pos : Z).

(* ---- helpers of step ---- *)
Definition str_obj (t : text) : obj := OStr (Some t).            (* spif_str_new_from_ptr / _from_buff *)
Definition opt_str (o : option text) : option obj :=
  match o with Some t => Some (str_obj t) | None => None end.

(* spif_url_parse on the text (Url/UrlModel.parse_pure; the service database is interposed by
   the harness and answers "unknown" for every word) *)
Definition no_service (_ : list Z) : UrlModel.lookup_result := UrlModel.LNone.
Definition url_comps (t : text) : list (option obj) :=
  let c := snd (UrlModel.parse_pure t no_service) in
  [opt_str (UrlModel.c_proto c); opt_str (UrlModel.c_user c); opt_str (UrlModel.c_passwd c);
   opt_str (UrlModel.c_host c); opt_str (UrlModel.c_port c); opt_str (UrlModel.c_path c);
   opt_str (UrlModel.c_query c)].
(* the text of a component object (a str, possibly without buffer) *)
Definition comp_text (x : option obj) : res (option text) :=
  match x with
  | None => Ok None
  | Some (OStr s) => Ok (Some (text_of s))
  | Some _ => Fault Abort
  end.
Definition nth_comp (cs : list (option obj)) (i : nat) : option obj := nth i cs None.
Definition url_unparse (cs : list (option obj)) : res (text * list (option obj)) :=
  p <- comp_text (nth_comp cs 0) ;; u <- comp_text (nth_comp cs 1) ;; pw <- comp_text (nth_comp cs 2) ;;
  h <- comp_text (nth_comp cs 3) ;; po <- comp_text (nth_comp cs 4) ;; pa <- comp_text (nth_comp cs 5) ;;
  q <- comp_text (nth_comp cs 6) ;;
  let c := UrlModel.mkComps p u pw h po pa q in
  (* a port without a host: host = new str "localhost" *)
  let cs' := match po, h with
             | Some _, None => Buf.upd cs 3 (Some (str_obj UrlModel.localhost))
             | _, _ => cs
             end in
  Ok (UrlModel.unparse_text c, cs').

(* spif_tok_eval: tokens of the source under the separator set, each trimmed, as a
   dlinked_list of str (Split/SplitProofs.tok_is_tokens_trimmed ties this to the scanner) *)
(* a token: str_new_from_buff + append_char + trim; spif_str_trim (as repaired under C01) releases
   the buffer of a string that trims to nothing *)
Definition tok_obj (t : text) : obj := match t with [] => OStr None | _ => OStr (Some t) end.
(* The scanner of spif_tok_eval as one left-to-right machine, with the OBJECT's quote / dquote /
   escape members (tok.c: `*pstr == self->dquote || *pstr == self->quote`, `*pstr == self->escape`);
   for the default members it is SplitModel.sm, the grammar property C12 ties to the C scanner
   (Own/TokScan.v proves the equation).  intok: a token is open (its text is the head of the
   result); q: 0 outside quotes, else the character that opened the quote.  In the order of the code:
   - outside quotes a delimiter ends the token / is skipped between tokens (loop condition);
   - one of the two quote members opens a quote, closes the quote it opened, or is literal inside
     the other kind of quote;
   - the escape member followed by a delimiter or by the closing quote of the open quote is dropped
     and that character is literal; any other escape character (also the last one) is literal.
   A member set to 0 never matches (the text has no NUL). *)
Definition is_qc (ch : tokchars) (c : Z) : bool := (c =? ch_dquote ch) || (c =? ch_quote ch).
Fixpoint smq (ch : tokchars) (d : SplitModel.dset) (intok : bool) (q : Z) (s : text) : list text :=
  match s with
  | [] => if intok then [[]] else []
  | c :: t =>
    if (q =? 0) && SplitModel.delim d c then (if intok then [] :: smq ch d false 0 t else smq ch d false 0 t)
    else if is_qc ch c then
      if q =? 0 then smq ch d true c t
      else if q =? c then smq ch d true 0 t
      else SplitModel.push c (smq ch d true q t)
    else if c =? ch_escape ch then
      match t with
      | c2 :: t2 =>
        if SplitModel.delim d c2 || (negb (q =? 0) && (q =? c2)) then SplitModel.push c2 (smq ch d true q t2)
        else SplitModel.push c (smq ch d true q t)
      | [] => [[c]]
      end
    else SplitModel.push c (smq ch d true q t)
  end.
Definition tok_tokens (ch : tokchars) (src : text) (sep : option text) : list (option obj) :=
  map (fun t => Some (tok_obj t)) (map SplitModel.trim (smq ch sep false 0 src)).
(* blocks spif_tok_eval leaves allocated: the list, and per token a node, the str and its buffer *)
Definition tok_cost (toks : list (option obj)) : Z :=
  1 + fold_right (fun x acc => (match x with Some (OStr (Some _)) => 3 | _ => 2 end) + acc) 0 toks.

(* spif_str_substr / spif_mbuff_subbuff index arithmetic *)
Definition sub_range (len idx cnt : Z) : option (Z * Z) :=
  let idx := if idx <? 0 then len + idx else idx in
  if (idx <? 0) || (len <=? idx) then None
  else
    let cnt := if cnt <=? 0 then len - idx + cnt else cnt in
    if cnt <? 0 then None
    else Some (idx, Z.min cnt (len - idx)).
Definition sub_text (t : text) (idx cnt : Z) : option text :=
  match sub_range (Z.of_nat (length t)) idx cnt with
  | Some (i, c) => Some (firstn (Z.to_nat c) (skipn (Z.to_nat i) t))
  | None => None
  end.

(* regexp flag letters -> bits (table generated from src/regexp.c and pcre.h) *)
Fixpoint flag_bits (table : list (Z * Z)) (fl : text) : Z :=
  match fl with
  | [] => 0
  | c :: t => Z.lor (match find (fun e => fst e =? c) table with Some e => snd e | None => 0 end)
                    (flag_bits table t)
  end.

Section Step.
Variable pcre : option text -> Z -> Z.       (* oracle: blocks left allocated by pcre_compile *)
Variable flag_table : list (Z * Z).

Definition as_cont (o : obj) : res (iface * cls * Z * bool * list (option obj)) :=
  match o with OCont i c a al xs => Ok (i, c, a, al, xs) | _ => Fault Abort end.
Definition want_iface (i j : iface) : res unit :=
  match i, j with
  | IList, IList | IVector, IVector | IMap, IMap => Ok tt
  | _, _ => Fault Abort
  end.

(* the container takes over the element held under h: append / prepend / insert / insert_at.
   Ledger: array REALLOCs (or first MALLOCs) its items block; a linked class allocates one node
   per new position (insert_at also one per NULL placeholder it pads with). *)
Definition give (w : world) (c h : nat) (want : iface -> bool)
    (f : cls -> obj -> list (option obj) -> res (option (list (option obj)))) : res (world * out) :=
  co <- get w c ;;
  '(i, k, a, al, xs) <- as_cont co ;;
  if negb (want i) then Fault Abort else
  if Nat.eqb c h then Fault Abort else
  x <- get w h ;;
  if negb (storable x) then Fault Abort else
  r <- f k x xs ;;
  match r with
  | None => Ok (w, RBool false)                   (* refused: nothing changes hands *)
  | Some xs' =>
    let grown := Z.of_nat (length xs') - Z.of_nat (length xs) in
    let d := match k with Arr => if al then 0 else 1 | _ => grown end in
    Ok (mkWorld (put c (OCont i k a (match k with Arr => true | _ => al end) xs') (drop h (held w)))
                (next w) (naddr w) (ledger w + d), RBool true)
  end.

(* remove / remove_at / map remove: the element leaves the tree and becomes a held handle.
   Ledger: a linked class frees the node; the array REALLOCs, which frees the block at length 0. *)
Definition take (w : world) (c : nat) (want : iface -> bool)
    (f : list (option obj) -> res (list (option obj) * option obj * bool)) : res (world * out) :=
  co <- get w c ;;
  '(i, k, a, al, xs) <- as_cont co ;;
  if negb (want i) then Fault Abort else
  '(xs', r, found) <- f xs ;;
  if negb found then Ok (hand_back w None (held w) (naddr w) (ledger w))
  else
    let al' := match k with Arr => if (length xs' =? 0)%nat then false else al | _ => al end in
    let d := match k with Arr => if al && negb al' then 1 else 0 | _ => 1 end in
    Ok (hand_back w r (put c (OCont i k a al' xs') (held w)) (naddr w) (ledger w - d)).

(* get_keys / get_values / get_pairs: copies appended to dst, or to a new list of the map's class *)
Definition project (w : world) (m : nat) (dst : option nat) (sel : obj -> res (option obj)) : res (world * out) :=
  mo <- get w m ;;
  '(i, k, a, al, xs) <- as_cont mo ;;
  _ <- want_iface i IMap ;;
  sels <- (fix go (l : list (option obj)) : res (list (option obj)) :=
             match l with
             | [] => Ok []
             | None :: _ => Fault Null_deref
             | Some e :: t => x <- sel e ;; t' <- go t ;; Ok (x :: t')
             end) xs ;;
  (* SPIF_OBJ_DUP(member) dispatches on the member: a NULL member cannot be dup'ed *)
  if negb (forallb (fun x => match x with Some _ => true | None => false end) sels) then Fault Null_deref else
  picked <- copy_items pcre sels ;;
  let cost := dc_items pcre Arr sels in
  let n := Z.of_nat (length picked) in
  match dst with
  | None =>
    (* SPIF_LIST_NEW(array) in array.c, SPIF_LIST_NEW(linked_list) in linked_list.c AND in
       dlinked_list.c; then one append per entry *)
    let kl := match k with Arr => Arr | _ => LL end in
    let '(fresh, na) := relabel_items picked (naddr w + 1) in
    let al' := match kl with Arr => negb (length picked =? 0)%nat | _ => false end in
    let d := 1 + cost + match kl with Arr => if al' then 1 else 0 | _ => n end in
    Ok (hand_back w (Some (OCont IList kl (naddr w) al' fresh)) (held w) na (ledger w + d))
  | Some dh =>
    if Nat.eqb dh m then Fault Abort else
    d0 <- get w dh ;;
    '(i2, k2, a2, al2, ys) <- as_cont d0 ;;
    _ <- want_iface i2 IList ;;
    let '(fresh, na) := relabel_items picked (naddr w) in
    let al' := match k2 with Arr => al2 || negb (length picked =? 0)%nat | _ => al2 end in
    let d := cost + match k2 with Arr => if al' && negb al2 then 1 else 0 | _ => n end in
    Ok (mkWorld (put dh (OCont i2 k2 a2 al' (ys ++ fresh)) (held w)) (next w) na (ledger w + d), RBool true)
  end.

(* a setter generated by SPIF_DEFINE_PROPERTY_FUNC: DEL the previous member when non-NULL, store
   the new pointer (which may be NULL); the object given is no longer the program's *)
Definition setter (w : world) (p : nat) (h : option nat)
    (f : obj -> option obj -> res (obj * option obj)) : res (world * out) :=
  po <- get w p ;;
  _ <- (match h with Some h' => if Nat.eqb h' p then Fault Abort else Ok tt | None => Ok tt end) ;;
  x <- get_opt w h ;;
  if negb (match x with Some y => storable y | None => true end) then Fault Abort else
  '(po', old) <- f po x ;;
  let held1 := match h with Some h' => drop h' (held w) | None => held w end in
  Ok (mkWorld (put p po' held1) (next w) (naddr w)
              (ledger w - rel_opt old), RBool true).

Definition fresh (w : world) (o : obj) (cost : Z) : res (world * out) :=
  let (o', na) := relabel o (naddr w) in
  Ok (hand_back w (Some o') (held w) na (ledger w + cost)).

Definition is_empty_state (o : obj) : bool :=
  match o with
  | OObj _ | OStr None | OUstr None | OMbuff None | OPair None None | OTok None None None _
  | ORegexp None _ 0 | OCont _ _ _ false [] => true
  | OUrl None cs => forallb (fun x => match x with None => true | Some _ => false end) cs
  | _ => false
  end.

(* the body of spif_array_set / spif_linked_list_set / spif_dlinked_list_set once key and value are
   known (given separately, or unpacked from a pair): look for the first entry equal to the key;
   found: spif_objpair_set_value(entry, DUP(value)); not found: insert(objpair_new_from_both(key,
   value)), which dups both.  Neither ko nor vo changes hands. *)
Definition map_scan (ko : obj) : list (option obj) -> nat -> res (option nat) :=
  fix go (l : list (option obj)) (n : nat) : res (option nat) :=
    match l with
    | [] => Ok None
    | s :: t => cres <- comp_elem s ko ;; if is_eq cres then Ok (Some n) else go t (S n)
    end.
Definition map_set (w : world) (m : nat) (ko vo : obj) : res (world * out) :=
  mo <- get w m ;;
  '(i, c, a, al, xs) <- as_cont mo ;;
  _ <- want_iface i IMap ;;
  if negb (storable ko) || negb (storable vo) then Fault Abort else
  (* for (...) if (EQUAL(COMP(items[i], key))) break; *)
  hit <- map_scan ko xs O ;;
  v' <- copy pcre vo ;;
  match hit with
  | Some n =>
    (* spif_objpair_set_value(pair, DUP(value)): the old value is deleted *)
    match nth n xs None with
    | Some (OPair pk pv) =>
      let (v2, na) := relabel v' (naddr w) in
      Ok (mkWorld (put m (OCont i c a al (Buf.upd xs n (Some (OPair pk (Some v2))))) (held w)) (next w) na
                  (ledger w + dup_cost pcre vo - rel_opt pv), RBool true)
    | _ => Fault Abort
    end
  | None =>
    (* insert(objpair_new_from_both(key, value)) *)
    k' <- copy pcre ko ;;
    let (pr, na) := relabel (OPair (Some k') (Some v')) (naddr w) in
    xs' <- c_insert c pr xs ;;
    Ok (mkWorld (put m (OCont i c a (match c with Arr => true | _ => al end) xs') (held w)) (next w) na
                (ledger w + 1 + dup_cost pcre ko + dup_cost pcre vo
                 + match c with Arr => if al then 0 else 1 | _ => 1 end), RBool false)
  end.

(* the queries that hand out numbers or borrowed pointers - count, get, contains, find, index; map
   get, has_key, has_value - allocate nothing, free nothing and change nothing.  The probe must be
   comparable with everything it can be compared to (elements; for a map the entries and their
   values); NULL placeholders are skipped by the (repaired) routines. *)
Definition query_walk (i : iface) (probe : obj) : list (option obj) -> res unit :=
  fix go (l : list (option obj)) : res unit :=
    match l with
    | [] => Ok tt
    | None :: t => go t
    | Some e :: t =>
      (* list / vector queries compare in either direction (array: element first; the linked
         classes' find and index: probe first); map get / has_key compare entry with key,
         has_value compares the stored value with the probe *)
      _ <- comp e probe ;;
      _ <- (match i, e with
            | IMap, OPair _ (Some v) => (_ <- comp v probe ;; Ok tt)
            | IMap, _ => Ok tt
            | _, _ => (_ <- comp probe e ;; Ok tt)
            end) ;;
      go t
    end.

(* append_from_ptr on a str / ustr / mbuff: nothing happens for an empty argument; otherwise REALLOC
   (MALLOC when there was no buffer) *)
Definition app_text (s : option text) (t : text) : option text * Z :=
  match t with [] => (s, 0) | _ => (Some (text_of s ++ t), match s with Some _ => 0 | None => 1 end) end.
(* the same on a member reached through its getter (NULL member, or not a text object: the
   program's error) *)
Definition member_app (m : option obj) (t : text) : res (option obj * Z) :=
  match m with
  | Some (OStr s) => let (s', d) := app_text s t in Ok (Some (OStr s'), d)
  | Some (OUstr s) => let (s', d) := app_text s t in Ok (Some (OUstr s'), d)
  | Some (OMbuff s) => let (s', d) := app_text s t in Ok (Some (OMbuff s'), d)
  | _ => Fault Abort
  end.

(* what the stream constructors read.  str / ustr from a FILE*: one line (fgets until the newline, which is
   dropped) from the current position; from a descriptor: everything from the current position (a
   failing read ends the loop: empty string).  mbuff from a seekable file: a block of the size of the
   WHOLE file filled from the current position - an empty file, or nothing left to read, is a failure
   (NULL result, the block is freed again); from a pipe: everything, and an object without block when
   there was nothing.  NULL FILE* / descriptor -1: ASSERT_RVAL, NULL result.
   Result: None = the constructor returns NULL (and has released everything it allocated);
   Some b = an object whose buffer is b. *)
Fixpoint line_of (r : text) : text :=
  match r with [] => [] | c :: t => if c =? 10 then [] else c :: line_of t end.
Definition stream_text (c : scls) (v : svia) (k : skind) (content : text) (pos : Z) : res (option (option text)) :=
  if (pos <? 0) || (Z.of_nat (length content) <? pos) then Fault Abort else
  let r := skipn (Z.to_nat pos) content in
  match k, v with
  | KBad, _ => Ok None
  | KClosed, VFp => Fault Abort                     (* there is no such thing as a closed FILE* to pass *)
  | KClosed, VFd => Ok (Some (match c with SMbuff => None | _ => Some [] end))
  | KPipe, _ =>
    if negb (pos =? 0) then Fault Abort else
    Ok (Some (match c, v with
              | SMbuff, _ => (match content with [] => None | _ => Some content end)
              | _, VFp => Some (line_of content)
              | _, VFd => Some content
              end))
  | KReg, _ =>
    Ok (match c, v with
        | SMbuff, _ => (match content, r with [], _ | _, [] => None | _, _ => Some (Some r) end)
        | _, VFp => Some (Some (line_of r))
        | _, VFd => Some (Some r)
        end)
  end.
Definition stream_obj (c : scls) (b : option text) : obj :=
  match c with
  | SStr => OStr b | SUstr => OUstr b | SMbuff => OMbuff b
  | STok => OTok (Some (OStr b)) None None default_chars
  end.

Definition step (w : world) (o : op) : res (world * out) :=
  match o with
  (* ---- constructors: SPIF_ALLOC + init ---- *)
  | NewObj => fresh w (OObj 0) 1
  | NewStr t => fresh w (OStr t) (1 + optb t)
  | NewUstr t => fresh w (OUstr t) (1 + optb t)
  | NewMbuff t => fresh w (OMbuff t) (1 + optb t)
  | NewPair k v =>
    (* objpair_new / _from_key / _from_value / _from_both: the pair dups what it is given *)
    ko <- get_opt w k ;; vo <- get_opt w v ;;
    if negb (match ko with Some y => storable y | None => true end)
       || negb (match vo with Some y => storable y | None => true end) then Fault Abort else
    k' <- copy_opt pcre ko ;; v' <- copy_opt pcre vo ;;
    fresh w (OPair k' v') (1 + dc_opt pcre ko + dc_opt pcre vo)
  | NewTok t => fresh w (OTok (opt_str t) None None default_chars) (1 + 2 * optb t)
  | NewUrl t =>
    match t with
    | None => fresh w (OUrl None none7) 1
    | Some s => let cs := url_comps s in fresh w (OUrl (Some s) cs) (2 + 2 * count_some cs)
    end
  | NewRegexp t =>
    (* regexp_new(): nothing compiled; _new_from_ptr: set_flags("") compiles *)
    match t with
    | None => fresh w (ORegexp None 0 0) 1
    | Some s => fresh w (ORegexp (Some s) 0 (pcre (Some s) 0)) (2 + pcre (Some s) 0)
    end
  | NewCont i c => fresh w (OCont i c 0 false []) 1

  (* ---- protocol ---- *)
  | Dup h =>
    x <- get w h ;;
    (* iterator_dup builds a new iterator over the subject: the program must still hold it *)
    _ <- (match x with OIter _ s => (so <- get w s ;; _ <- as_cont so ;; Ok tt) | _ => Ok tt end) ;;
    y <- copy pcre x ;;
    fresh w y (dup_cost pcre x)
  | Done h =>
    x <- get w h ;;
    match x with
    | ORaw => Fault Abort
    | _ => Ok (mkWorld (put h (done_state x) (held w)) (next w) (naddr w) (ledger w - (release x - 1)), RBool true)
    end
  | Init h =>
    x <- get w h ;;
    match x with
    | ORaw | OIter _ _ => Fault Abort
    | _ => if is_empty_state x
           then Ok (mkWorld (put h (done_state x) (held w)) (next w) (naddr w) (ledger w), RBool true)
           else Fault Abort
    end
  | Del h =>
    x <- get w h ;;
    Ok (mkWorld (drop h (held w)) (next w) (naddr w) (ledger w - release x), RBool true)
  | Comp a b =>
    x <- get_opt w a ;; y <- get_opt w b ;;
    if negb (match x with Some x' => is_object x' | None => true end)
       || negb (match y with Some y' => is_object y' | None => true end) then Fault Abort else
    c <- comp_opt x y ;;
    Ok (w, RCmp c (match x, y with Some x', Some _ => addr_dep x' | _, _ => false end))
  | TypeOf h => x <- get w h ;; match x with ORaw => Fault Abort | _ => Ok (w, RType (tag_of x)) end
  | Dump h => x <- get w h ;; Ok (w, RVal (Some (abs x)))
  | DumpAll => Ok (w, RVals (map (fun e => (fst e, abs (snd e))) (held w)))
  | DelAll =>
    Ok (mkWorld [] (next w) (naddr w)
                (ledger w - fold_right (fun e acc => release (snd e) + acc) 0 (held w)), RBool true)

  (* ---- str / ustr / mbuff ---- *)
  | Append h t =>
    (* append_from_ptr: nothing happens for an empty argument; otherwise REALLOC (MALLOC when
       there was no buffer) *)
    x <- get w h ;;
    let app := fun (s : option text) =>
      match t with [] => (s, 0) | _ => (Some (text_of s ++ t), match s with Some _ => 0 | None => 1 end) end in
    match x with
    | OStr s => let (s', d) := app s in Ok (mkWorld (put h (OStr s') (held w)) (next w) (naddr w) (ledger w + d), RBool true)
    | OUstr s => let (s', d) := app s in Ok (mkWorld (put h (OUstr s') (held w)) (next w) (naddr w) (ledger w + d), RBool true)
    | OMbuff s => let (s', d) := app s in Ok (mkWorld (put h (OMbuff s') (held w)) (next w) (naddr w) (ledger w + d), RBool true)
    | _ => Fault Abort
    end
  | Substr h idx cnt =>
    x <- get w h ;;
    match x with
    | OStr s => match sub_text (text_of s) idx cnt with
                | Some t => fresh w (OStr (Some t)) 2
                | None => Ok (hand_back w None (held w) (naddr w) (ledger w))
                end
    | OUstr s => match sub_text (text_of s) idx cnt with
                 | Some t => fresh w (OUstr (Some t)) 2
                 | None => Ok (hand_back w None (held w) (naddr w) (ledger w))
                 end
    | OMbuff s => match sub_text (text_of s) idx cnt with
                  | Some t => fresh w (OMbuff (Some t)) 2
                  | None => Ok (hand_back w None (held w) (naddr w) (ledger w))
                  end
    | _ => Fault Abort
    end

  (* ---- objpair ---- *)
  | SetKey p h => setter w p h (fun po x => match po with OPair k v => Ok (OPair x v, k) | _ => Fault Abort end)
  | SetValue p h => setter w p h (fun po x => match po with OPair k v => Ok (OPair k x, v) | _ => Fault Abort end)

  (* ---- tok ---- *)
  | TokSetSrc t h => setter w t h (fun po x => match po, x with
                                             | OTok a b c ch, None => Ok (OTok None b c ch, a)
                                             | OTok a b c ch, Some (OStr _) => Ok (OTok x b c ch, a)
                                             | _, _ => Fault Abort end)
  | TokSetSep t h => setter w t h (fun po x => match po, x with
                                             | OTok a b c ch, None => Ok (OTok a None c ch, b)
                                             | OTok a b c ch, Some (OStr _) => Ok (OTok a x c ch, b)
                                             | _, _ => Fault Abort end)
  | TokEval t =>
    x <- get w t ;;
    match x with
    | OTok None b c ch => Ok (w, RBool false)                 (* REQUIRE_RVAL(src != NULL) *)
    | OTok (Some (OStr s)) b c ch =>
      (* delim = the separator's buffer; a NULL buffer (or no separator object) means whitespace *)
      sepo <- (match b with
               | None => Ok None
               | Some (OStr so) => Ok so
               | Some _ => Fault Abort
               end) ;;
      let toks := tok_tokens ch (text_of s) sepo in
      let lst := OCont IList DL (naddr w) false toks in
      Ok (mkWorld (put t (OTok (Some (OStr s)) b (Some lst) ch) (held w)) (next w) (naddr w + 1)
                  (ledger w - rel_opt c + tok_cost toks), RBool true)
    | _ => Fault Abort
    end

  (* ---- url ---- *)
  | UrlSet u f h =>
    (* f names one of the seven component members *)
    setter w u h (fun po x => match po, x with
                              | OUrl s cs, None =>
                                if (f <? length cs)%nat then Ok (OUrl s (Buf.upd cs f None), nth_comp cs f) else Fault Abort
                              | OUrl s cs, Some (OStr _) =>
                                if (f <? length cs)%nat then Ok (OUrl s (Buf.upd cs f x), nth_comp cs f) else Fault Abort
                              | _, _ => Fault Abort end)
  | UrlUnparse u =>
    x <- get w u ;;
    match x with
    | OUrl s cs =>
      '(t, cs') <- url_unparse cs ;;
      (* str_done frees the old text, init_from_ptr("") allocates the new buffer *)
      Ok (mkWorld (put u (OUrl (Some t) cs') (held w)) (next w) (naddr w)
                  (ledger w - optb s + 1
                   + match nth_comp cs 4, nth_comp cs 3 with Some _, None => 2 | _, _ => 0 end), RBool true)
    | _ => Fault Abort
    end

  (* ---- regexp ---- *)
  | ReSetFlags r fl =>
    x <- get w r ;;
    match x with
    | ORegexp s f d =>
      let f' := flag_bits flag_table fl in
      let d' := compile_blocks pcre s f' in
      Ok (mkWorld (put r (ORegexp s f' d') (held w)) (next w) (naddr w) (ledger w - d + d'), RBool (negb (d' =? 0)))
    | _ => Fault Abort
    end
  | ReCompile r =>
    x <- get w r ;;
    match x with
    | ORegexp s f d =>
      let d' := compile_blocks pcre s f in
      Ok (mkWorld (put r (ORegexp s f d') (held w)) (next w) (naddr w) (ledger w - d + d'), RBool (negb (d' =? 0)))
    | _ => Fault Abort
    end

  (* ---- list interface ---- *)
  | LAppend c h => give w c h (fun i => match i with IList => true | _ => false end)
                        (fun k x xs => Ok (Some (xs ++ [Some x])))
  | LPrepend c h => give w c h (fun i => match i with IList => true | _ => false end)
                         (fun k x xs => Ok (Some (Some x :: xs)))
  | LInsert c h => give w c h (fun i => match i with IList => true | _ => false end)
                        (fun k x xs => xs' <- c_insert k x xs ;; Ok (Some xs'))
  | LInsertAt c h idx => give w c h (fun i => match i with IList => true | _ => false end)
                              (fun k x xs => let i := norm_idx (llen xs) idx in
                                             if i <? 0 then Ok None else Ok (Some (ins_at (Z.to_nat i) x xs)))
  | LRemove c p =>
    po <- get w p ;;
    take w c (fun i => match i with IList => true | _ => false end)
         (fun xs => '(xs', r) <- rem_first po xs ;;
                    Ok (xs', r, match r with Some _ => true | None => false end))
  | LRemoveAt c idx =>
    take w c (fun i => match i with IList => true | _ => false end)
         (fun xs => match in_range xs idx with
                    | Some n => Ok (rem_nth n xs, nth n xs None, true)
                    | None => Ok (xs, None, false)
                    end)
  | LReverse c =>
    co <- get w c ;;
    '(i, k, a, al, xs) <- as_cont co ;;
    _ <- want_iface i IList ;;
    Ok (mkWorld (put c (OCont i k a al (rev xs)) (held w)) (next w) (naddr w) (ledger w), RBool true)

  (* ---- vector interface ---- *)
  | VInsert c h => give w c h (fun i => match i with IVector => true | _ => false end)
                        (fun k x xs => xs' <- c_insert k x xs ;; Ok (Some xs'))
  | VRemove c p =>
    po <- get w p ;;
    take w c (fun i => match i with IVector => true | _ => false end)
         (fun xs => '(xs', r) <- rem_first po xs ;;
                    Ok (xs', r, match r with Some _ => true | None => false end))

  (* ---- map interface ---- *)
  | MSet m k v =>
    _ <- get w m ;; ko <- get w k ;; vo <- get w v ;;
    if Nat.eqb m k || Nat.eqb m v then Fault Abort else map_set w m ko vo
  | MSetPair m p =>
    (* SPIF_MAP_SET(map, pair, NULL): the three *_set routines unpack key and value from the pair;
       the pair itself stays the caller's.  A pair without key or value (objpair_new_from_both
       ASSERTs both) is an error of the program *)
    _ <- get w m ;; po <- get w p ;;
    if Nat.eqb m p then Fault Abort else
    match po with
    | OPair (Some ko) (Some vo) => map_set w m ko vo
    | _ => Fault Abort
    end
  | MSetOwn m k pairform =>
    (* the map's own stored objects passed back to it: e = the first entry equal to the key;
       pairform = false: SPIF_MAP_SET(map, key, e->value); true: SPIF_MAP_SET(map, e, NULL).
       No such entry: set is not called *)
    mo <- get w m ;; ko <- get w k ;;
    '(i, c, a, al, xs) <- as_cont mo ;;
    _ <- want_iface i IMap ;;
    if Nat.eqb m k then Fault Abort else
    hit <- map_scan ko xs O ;;
    match hit with
    | None => Ok (w, RBool false)
    | Some n =>
      match nth n xs None with
      | Some (OPair (Some pk) (Some pv)) => map_set w m (if pairform then pk else ko) pv
      | _ => Fault Abort
      end
    end
  | MRemove m k =>
    ko <- get w k ;;
    take w m (fun i => match i with IMap => true | _ => false end)
         (fun xs => '(xs', r) <- mrem_first ko xs ;;
                    Ok (xs', r, match r with Some _ => true | None => false end))
  | MKeys m dst => project w m dst (fun e => match e with OPair k _ => Ok k | _ => Fault Abort end)
  | MValues m dst => project w m dst (fun e => match e with OPair _ v => Ok v | _ => Fault Abort end)
  | MPairs m dst => project w m dst (fun e => match e with OPair _ _ => Ok (Some e) | _ => Fault Abort end)

  (* ---- any container ---- *)
  | ToArray c =>
    co <- get w c ;; _ <- as_cont co ;;
    Ok (hand_back w (Some ORaw) (held w) (naddr w) (ledger w + 1))
  | Iterator c =>
    co <- get w c ;;
    '(i, k, a, al, xs) <- as_cont co ;;
    Ok (hand_back w (Some (OIter k c)) (held w) (naddr w) (ledger w + 1))
  | Query c h =>
    co <- get w c ;; po <- get w h ;;
    '(i, k, a, al, xs) <- as_cont co ;;
    if Nat.eqb c h || negb (storable po) then Fault Abort else
    match query_walk i po xs with
    | Ok _ => Ok (w, RUnit)
    | Fault _ => Fault Abort                 (* type confusion inside a comparison *)
    end

  (* ---- tok: character members, token list ---- *)
  | TokSetChar t which c =>
    (* SPIF_DEFINE_PROPERTY_FUNC_NONOBJ: a plain store; the token list is NOT recomputed *)
    x <- get w t ;;
    if (c <? 0) || (255 <? c) then Fault Abort else
    match x with
    | OTok a b l ch =>
      match which with
      | 0%nat => Ok (mkWorld (put t (OTok a b l (c, ch_dquote ch, ch_escape ch)) (held w)) (next w) (naddr w) (ledger w), RBool true)
      | 1%nat => Ok (mkWorld (put t (OTok a b l (ch_quote ch, c, ch_escape ch)) (held w)) (next w) (naddr w) (ledger w), RBool true)
      | 2%nat => Ok (mkWorld (put t (OTok a b l (ch_quote ch, ch_dquote ch, c)) (held w)) (next w) (naddr w) (ledger w), RBool true)
      | _ => Fault Abort
      end
    | _ => Fault Abort
    end
  | TokSetTokens t h =>
    (* spif_tok_set_tokens: DEL the previous list, store the caller's list (any list class) or NULL *)
    setter w t h (fun po x => match po, x with
                              | OTok a b l ch, None => Ok (OTok a b None ch, l)
                              | OTok a b l ch, Some (OCont IList _ _ _ _) => Ok (OTok a b x ch, l)
                              | _, _ => Fault Abort end)
  | TokListRemoveAt t idx =>
    (* the list spif_tok_get_tokens hands out is the tokenizer's own: remove_at on it takes the element
       out of the tokenizer's tree (ledger as for [take]) *)
    x <- get w t ;;
    match x with
    | OTok a b (Some (OCont IList k ad al xs)) ch =>
      match in_range xs idx with
      | None => Ok (hand_back w None (held w) (naddr w) (ledger w))
      | Some n =>
        let xs' := rem_nth n xs in
        let al' := match k with Arr => if (length xs' =? 0)%nat then false else al | _ => al end in
        let d := match k with Arr => if al && negb al' then 1 else 0 | _ => 1 end in
        Ok (hand_back w (nth n xs None) (put t (OTok a b (Some (OCont IList k ad al' xs')) ch) (held w))
                      (naddr w) (ledger w - d))
      end
    | _ => Fault Abort
    end
  | TokListAppend t h =>
    x <- get w t ;;
    if Nat.eqb t h then Fault Abort else
    y <- get w h ;;
    if negb (storable y) then Fault Abort else
    match x with
    | OTok a b (Some (OCont IList k ad al xs)) ch =>
      let d := match k with Arr => if al then 0 else 1 | _ => 1 end in
      Ok (mkWorld (put t (OTok a b (Some (OCont IList k ad (match k with Arr => true | _ => al end) (xs ++ [Some y]))) ch)
                       (drop h (held w)))
                  (next w) (naddr w) (ledger w + d), RBool true)
    | _ => Fault Abort
    end

  (* ---- a text member changed in place through its getter ---- *)
  | MemberAppend h sel t =>
    x <- get w h ;;
    match x with
    | OTok a b l ch =>
      match sel with
      | 0%nat => '(a', d) <- member_app a t ;;
                 Ok (mkWorld (put h (OTok a' b l ch) (held w)) (next w) (naddr w) (ledger w + d), RBool true)
      | 1%nat => '(b', d) <- member_app b t ;;
                 Ok (mkWorld (put h (OTok a b' l ch) (held w)) (next w) (naddr w) (ledger w + d), RBool true)
      | _ => Fault Abort
      end
    | OPair k v =>
      match sel with
      | 0%nat => '(k', d) <- member_app k t ;;
                 Ok (mkWorld (put h (OPair k' v) (held w)) (next w) (naddr w) (ledger w + d), RBool true)
      | 1%nat => '(v', d) <- member_app v t ;;
                 Ok (mkWorld (put h (OPair k v') (held w)) (next w) (naddr w) (ledger w + d), RBool true)
      | _ => Fault Abort
      end
    | OUrl s cs =>
      if (sel <? length cs)%nat then
        '(m', d) <- member_app (nth_comp cs sel) t ;;
        Ok (mkWorld (put h (OUrl s (Buf.upd cs sel m')) (held w)) (next w) (naddr w) (ledger w + d), RBool true)
      else Fault Abort
    | _ => Fault Abort
    end

  (* ---- len / size members ---- *)
  | SetLen h k =>
    x <- get w h ;;
    if k <? 0 then
      (* set_size(get_size()), set_len(get_len()): SPIF_DEFINE_PROPERTY_FUNC_C, plain stores *)
      match x with
      | OStr _ | OUstr _ | OMbuff _ => Ok (w, RBool true)
      | _ => Fault Abort
      end
    else
      (* spif_mbuff_set_len(k) with k <= len: the value is the first k bytes; the block stays *)
      match x with
      | OMbuff s =>
        if Z.of_nat (length (text_of s)) <? k then Fault Abort else
        Ok (mkWorld (put h (OMbuff (match s with Some t => Some (firstn (Z.to_nat k) t) | None => None end)) (held w))
                    (next w) (naddr w) (ledger w), RBool true)
      | _ => Fault Abort
      end

  (* ---- constructors from a stream ---- *)
  | NewFromStream c v k content pos =>
    r <- stream_text c v k content pos ;;
    match r with
    | None => Ok (hand_back w None (held w) (naddr w) (ledger w))      (* NULL: nothing is left allocated *)
    | Some b => let o := stream_obj c b in fresh w o (footprint o)
    end
  end.

(* a program is a list of operations; outputs in order *)
Fixpoint run (w : world) (p : list op) : res (world * list (out * Z)) :=
  match p with
  | [] => Ok (w, [])
  | o :: t => '(w1, r) <- step w o ;; '(w2, rs) <- run w1 t ;; Ok (w2, (r, ledger w1) :: rs)
  end.
End Step.
