(* Own/SafeProofs.v - the model of the repaired library has no fault of its own making: on
   well-formed worlds (vectors and maps without NULL placeholders, map entries with key and value -
   invariants of the interfaces, preserved by every operation) the only faults are the two PROGRAM
   errors, Use_after_free (a handle that is not held) and Abort (wrong class). *)
From LV Require Export Own.FrameProofs Own.CompProofs.
Local Open Scope Z_scope.

Definition wf_opt (x : option obj) : bool := match x with Some y => wf y | None => true end.
Definition items_ok (i : iface) (l : list (option obj)) : bool :=
  forallb (fun x => item_ok i x && wf_opt x) l.
Definition WF (w : world) : Prop := Forall (fun e => wf (snd e) = true) (held w).
Definition prog_fault (f : fault) : Prop := f = Use_after_free \/ f = Abort.

Lemma wf_cont_items i c a al items : wf (OCont i c a al items) = items_ok i items.
Proof. apply wf_cont. Qed.
Lemma wf_pair k v : wf (OPair k v) = wf_opt k && wf_opt v.
Proof. reflexivity. Qed.
Lemma wf_tok a b c ch : wf (OTok a b c ch) = wf_opt a && wf_opt b && wf_opt c.
Proof. reflexivity. Qed.
Lemma wf_url_items s cs : wf (OUrl s cs) = forallb wf_opt cs.
Proof. apply wf_url. Qed.

Lemma items_ok_app i l1 l2 : items_ok i (l1 ++ l2) = items_ok i l1 && items_ok i l2.
Proof. apply forallb_app. Qed.
Lemma items_ok_cons i x t : items_ok i (x :: t) = item_ok i x && wf_opt x && items_ok i t.
Proof. reflexivity. Qed.
Lemma items_ok_rev i l : items_ok i l = true -> items_ok i (rev l) = true.
Proof.
  unfold items_ok. rewrite !forallb_forall. intros H x Hx. apply H. now apply in_rev.
Qed.
Lemma items_ok_upd i : forall l n v,
  items_ok i l = true -> item_ok i v && wf_opt v = true -> items_ok i (Buf.upd l n v) = true.
Proof.
  induction l as [|x t IH]; intros [|n] v H Hv; cbn [Buf.upd]; try exact H.
  - rewrite items_ok_cons in *. apply andb_prop in H as (_ & Ht). now rewrite Hv, Ht.
  - rewrite items_ok_cons in *. apply andb_prop in H as (Hx & Ht). now rewrite Hx, (IH n v Ht Hv).
Qed.
Lemma items_ok_nth i l n : items_ok i l = true -> (n < length l)%nat ->
  item_ok i (nth n l None) && wf_opt (nth n l None) = true.
Proof.
  unfold items_ok. rewrite forallb_forall. intros H L. apply H. now apply nth_In.
Qed.
Lemma forallb_wf_upd : forall l n v, forallb wf_opt l = true -> wf_opt v = true -> forallb wf_opt (Buf.upd l n v) = true.
Proof.
  induction l as [|x t IH]; intros [|n] v H Hv; cbn [Buf.upd forallb] in *; try exact H.
  - apply andb_prop in H as (_ & Ht). now rewrite Hv, Ht.
  - apply andb_prop in H as (Hx & Ht). now rewrite Hx, (IH n v Ht Hv).
Qed.
Lemma forallb_wf_nth l n : forallb wf_opt l = true -> wf_opt (nth n l None) = true.
Proof.
  intros H. destruct (Nat.lt_ge_cases n (length l)) as [L|L].
  - rewrite forallb_forall in H. apply H. now apply nth_In.
  - rewrite nth_overflow by lia. reflexivity.
Qed.

(* ---- comp only ever faults with Abort ---- *)
Definition cf_P (o : obj) : Prop := forall b f, comp o b = Fault f -> f = Abort.
Lemma comp_opt_fault x y f : PO cf_P x -> comp_opt x y = Fault f -> f = Abort.
Proof. destruct x as [a|], y as [b|]; cbn [PO comp_opt]; intros H E; try discriminate. exact (H b f E). Qed.
Lemma comp_items_fault l1 : forall l2 f, Forall (PO cf_P) l1 -> comp_items l1 l2 = Fault f -> f = Abort.
Proof.
  induction l1 as [|x t IH]; intros [|y u] f H E; try discriminate.
  pose proof (Forall_inv H) as Hx. pose proof (Forall_inv_tail H) as Ht.
  cbn [comp_items] in E. fold comp_items in E.
  destruct (comp_opt x y) as [c|g] eqn:Ex; cbn [bind] in E.
  - destruct c; try discriminate. exact (IH u f Ht E).
  - inv E. exact (comp_opt_fault x y f Hx Ex).
Qed.
Theorem comp_fault : forall a b f, comp a b = Fault f -> f = Abort.
Proof.
  induction a using obj_ind2; intros ob ff E;
    try (destruct ob; cbn in E; congruence).
  - destruct (not_pair_dec ob) as [(k2 & v2 & ->)|Nb].
    + rewrite comp_pair_pair in E. exact (comp_opt_fault k k2 ff H E).
    + rewrite (comp_pair_other k v ob Nb) in E. exact (comp_opt_fault k (Some ob) ff H E).
  - destruct ob; try (cbn in E; congruence). rewrite comp_tok in E. exact (comp_opt_fault a src ff H E).
  - destruct ob as [| | | | | | | |i2 c2 a2 al2 items2| |]; try (destruct c; cbn in E; congruence).
    destruct c, c2; try (cbn in E; congruence).
    rewrite comp_arr in E. exact (comp_items_fault items items2 ff H E).
Qed.
Lemma comp_item_fault x s f : comp_item x s = Fault f -> f = Abort.
Proof. destruct s; cbn; intros E; [now apply comp_fault in E|discriminate]. Qed.

(* ---- insertions / removals keep the item invariants, and fault only with Abort ---- *)
Lemma ins_ordered_ok i x : forall xs xs', ins_ordered x xs = Ok xs' ->
  items_ok i xs = true -> item_ok i (Some x) && wf x = true -> items_ok i xs' = true.
Proof.
  induction xs as [|s t IH]; intros xs' E H Hx; cbn [ins_ordered] in E.
  - inv E. rewrite items_ok_cons. cbn [wf_opt]. now rewrite Hx.
  - destruct (comp_item x s) as [c|]; cbn [bind] in E; [|discriminate].
    destruct (is_gt c).
    + destruct (ins_ordered x t) as [t'|] eqn:Et; cbn [bind] in E; [|discriminate]. inv E.
      rewrite items_ok_cons in *. apply andb_prop in H as (Hs & Ht). now rewrite Hs, (IH t' eq_refl Ht Hx).
    + inv E. rewrite items_ok_cons. cbn [wf_opt]. now rewrite Hx, H.
Qed.
Lemma ins_ordered_fault x : forall xs f, ins_ordered x xs = Fault f -> f = Abort.
Proof.
  induction xs as [|s t IH]; intros f E; cbn [ins_ordered] in E; [discriminate|].
  destruct (comp_item x s) as [c|g] eqn:Ec; cbn [bind] in E; [|inv E; now apply comp_item_fault in Ec].
  destruct (is_gt c); [|discriminate].
  destruct (ins_ordered x t) as [t'|g] eqn:Et; cbn [bind] in E; [discriminate|]. inv E. now apply IH.
Qed.
Lemma ins_linked_ok i dl x xs xs' : ins_linked dl x xs = Ok xs' ->
  items_ok i xs = true -> item_ok i (Some x) && wf x = true -> items_ok i xs' = true.
Proof.
  unfold ins_linked. destruct xs as [|h t]; intros E H Hx.
  - inv E. rewrite items_ok_cons. cbn [wf_opt]. now rewrite Hx.
  - destruct (comp_item x h) as [c|]; cbn [bind] in E; [|discriminate].
    destruct (is_lt c).
    + inv E. rewrite items_ok_cons. cbn [wf_opt]. now rewrite Hx, H.
    + destruct (if dl then comp_item x (last (h :: t) None) else Ok CEq) as [ct|]; cbn [bind] in E; [|discriminate].
      destruct (dl && is_gt ct).
      * inv E. change (h :: t ++ [Some x]) with ((h :: t) ++ [Some x]).
        rewrite items_ok_app, H, items_ok_cons. cbn [wf_opt items_ok forallb]. now rewrite Hx.
      * destruct (ins_ordered x t) as [t'|] eqn:Et; cbn [bind] in E; [|discriminate]. inv E.
        rewrite items_ok_cons in *. apply andb_prop in H as (Hs & Ht).
        now rewrite Hs, (ins_ordered_ok i x t t' Et Ht Hx).
Qed.
Lemma ins_linked_fault dl x xs f : ins_linked dl x xs = Fault f -> f = Abort.
Proof.
  unfold ins_linked. destruct xs as [|h t]; intros E; [discriminate|].
  destruct (comp_item x h) as [c|g] eqn:Ec; cbn [bind] in E; [|inv E; now apply comp_item_fault in Ec].
  destruct (is_lt c); [discriminate|].
  destruct (if dl then comp_item x (last (h :: t) None) else Ok CEq) as [ct|g] eqn:Et; cbn [bind] in E.
  - destruct (dl && is_gt ct); [discriminate|].
    destruct (ins_ordered x t) as [t'|g] eqn:Eo; cbn [bind] in E; [discriminate|]. inv E. now apply ins_ordered_fault in Eo.
  - inv E. destruct dl; [now apply comp_item_fault in Et|discriminate].
Qed.
Lemma c_insert_ok i c x xs xs' : c_insert c x xs = Ok xs' ->
  items_ok i xs = true -> item_ok i (Some x) && wf x = true -> items_ok i xs' = true.
Proof. destruct c; cbn [c_insert]; [apply ins_ordered_ok|apply ins_linked_ok|apply ins_linked_ok]. Qed.
Lemma c_insert_fault c x xs f : c_insert c x xs = Fault f -> f = Abort.
Proof. destruct c; cbn [c_insert]; [apply ins_ordered_fault|apply ins_linked_fault|apply ins_linked_fault]. Qed.

Lemma ins_at_ok x : forall n xs, items_ok IList xs = true -> wf x = true -> items_ok IList (ins_at n x xs) = true.
Proof.
  induction n as [|n IH]; intros xs H Hx.
  - cbn [ins_at]. rewrite items_ok_cons. cbn. now rewrite Hx, H.
  - destruct xs as [|s t]; cbn [ins_at].
    + rewrite items_ok_cons. cbn. now apply IH.
    + rewrite items_ok_cons in *. apply andb_prop in H as (Hs & Ht). now rewrite Hs, (IH t Ht Hx).
Qed.

Lemma rem_first_ok i p : forall xs xs' r, rem_first p xs = Ok (xs', r) ->
  items_ok i xs = true -> items_ok i xs' = true /\ wf_opt r = true.
Proof.
  induction xs as [|s t IH]; intros xs' r E H; cbn [rem_first] in E.
  - inv E. auto.
  - rewrite items_ok_cons in H. apply andb_prop in H as (Hs & Ht). apply andb_prop in Hs as (Hs1 & Hs2).
    destruct (comp_item p s) as [c|]; cbn [bind] in E; [|discriminate].
    destruct (is_eq c).
    + inv E. auto.
    + destruct (rem_first p t) as [[t' r']|] eqn:Et; cbn [bind] in E; [|discriminate]. inv E.
      destruct (IH t' r eq_refl Ht) as (A & B). rewrite items_ok_cons, Hs1, Hs2, A. auto.
Qed.
Lemma rem_first_fault p : forall xs f, rem_first p xs = Fault f -> f = Abort.
Proof.
  induction xs as [|s t IH]; intros f E; cbn [rem_first] in E; [discriminate|].
  destruct (comp_item p s) as [c|g] eqn:Ec; cbn [bind] in E; [|inv E; now apply comp_item_fault in Ec].
  destruct (is_eq c); [discriminate|].
  destruct (rem_first p t) as [[t' r']|g] eqn:Et; cbn [bind] in E; [discriminate|]. inv E. now apply IH.
Qed.
Lemma mrem_first_ok i k : forall xs xs' r, mrem_first k xs = Ok (xs', r) ->
  items_ok i xs = true -> items_ok i xs' = true /\ wf_opt r = true.
Proof.
  induction xs as [|s t IH]; intros xs' r E H; cbn [mrem_first] in E.
  - inv E. auto.
  - rewrite items_ok_cons in H. apply andb_prop in H as (Hs & Ht). apply andb_prop in Hs as (Hs1 & Hs2).
    destruct (comp_elem s k) as [c|]; cbn [bind] in E; [|discriminate].
    destruct (is_eq c).
    + inv E. auto.
    + destruct (mrem_first k t) as [[t' r']|] eqn:Et; cbn [bind] in E; [|discriminate]. inv E.
      destruct (IH t' r eq_refl Ht) as (A & B). rewrite items_ok_cons, Hs1, Hs2, A. auto.
Qed.
Lemma item_ok_map_some x : item_ok IMap x = true -> exists k v, x = Some (OPair (Some k) (Some v)).
Proof. destruct x as [[| | | |[k|] [v|]| | | | | |]|]; cbn; intros H; try discriminate. eauto. Qed.
Lemma mrem_first_fault k : forall xs f, items_ok IMap xs = true -> mrem_first k xs = Fault f -> f = Abort.
Proof.
  induction xs as [|s t IH]; intros f H E; cbn [mrem_first] in E; [discriminate|].
  rewrite items_ok_cons in H. apply andb_prop in H as (Hs & Ht). apply andb_prop in Hs as (Hs1 & Hs2).
  destruct (item_ok_map_some s Hs1) as (pk & pv & ->). cbn [comp_elem] in E.
  destruct (comp (OPair (Some pk) (Some pv)) k) as [c|g] eqn:Ec; cbn [bind] in E; [|inv E; now apply comp_fault in Ec].
  destruct (is_eq c); [discriminate|].
  destruct (mrem_first k t) as [[t' r']|g] eqn:Et; cbn [bind] in E; [discriminate|]. inv E. now apply IH.
Qed.
Lemma rem_nth_ok i : forall n xs, items_ok i xs = true -> items_ok i (rem_nth n xs) = true.
Proof.
  induction n as [|n IH]; intros [|s t] H; cbn [rem_nth]; try reflexivity.
  - rewrite items_ok_cons in H. now apply andb_prop in H as (_ & Ht).
  - rewrite items_ok_cons in *. apply andb_prop in H as (Hs & Ht). now rewrite Hs, (IH t Ht).
Qed.

(* ---- relabel and copy keep well-formedness; copy of a well-formed object faults only with Abort ---- *)
Lemma relabel_opt_item i x n : item_ok i (fst (relabel_opt x n)) = item_ok i x.
Proof.
  destruct x as [y|]; cbn [relabel_opt]; [|reflexivity].
  destruct y; try (cbn; destruct i; reflexivity).
  - rewrite relabel_pair. destruct k as [k|], v as [v|]; cbn [relabel_opt];
      repeat match goal with |- context[relabel ?a ?b] => destruct (relabel a b) end; cbn; destruct i; reflexivity.
  - rewrite relabel_tok. destruct (relabel_opt src n), (relabel_opt tokens z), (relabel_opt sep z0). destruct i; reflexivity.
  - rewrite relabel_url. destruct (relabel_items comps n). destruct i; reflexivity.
  - rewrite relabel_cont. destruct (relabel_items items (n + 1)). destruct i; reflexivity.
Qed.
Definition wfr_P (o : obj) : Prop := forall n, wf (fst (relabel o n)) = wf o.
Lemma relabel_opt_wf x n : PO wfr_P x -> wf_opt (fst (relabel_opt x n)) = wf_opt x.
Proof.
  destruct x as [y|]; cbn [PO relabel_opt]; intros H; [|reflexivity].
  specialize (H n). destruct (relabel y n). exact H.
Qed.
Lemma relabel_items_ok i l : forall n, Forall (PO wfr_P) l -> items_ok i (fst (relabel_items l n)) = items_ok i l.
Proof.
  induction l as [|x t IH]; intros n H; [reflexivity|].
  pose proof (Forall_inv H) as Hx. pose proof (Forall_inv_tail H) as Ht.
  cbn [relabel_items]. fold relabel_items.
  pose proof (relabel_opt_wf x n Hx) as Ex. pose proof (relabel_opt_item i x n) as Ei.
  destruct (relabel_opt x n) as [x' n1]. specialize (IH n1 Ht). destruct (relabel_items t n1) as [t' n2].
  cbn [fst] in *. rewrite !items_ok_cons, Ex, Ei, IH. reflexivity.
Qed.
Lemma relabel_items_wfl l : forall n, Forall (PO wfr_P) l -> forallb wf_opt (fst (relabel_items l n)) = forallb wf_opt l.
Proof.
  induction l as [|x t IH]; intros n H; [reflexivity|].
  pose proof (Forall_inv H) as Hx. pose proof (Forall_inv_tail H) as Ht.
  cbn [relabel_items]. fold relabel_items.
  pose proof (relabel_opt_wf x n Hx) as Ex.
  destruct (relabel_opt x n) as [x' n1]. specialize (IH n1 Ht). destruct (relabel_items t n1) as [t' n2].
  cbn [fst forallb] in *. now rewrite Ex, IH.
Qed.
Theorem relabel_wf : forall o n, wf (fst (relabel o n)) = wf o.
Proof.
  induction o using obj_ind2; intros n; try reflexivity.
  - rewrite relabel_pair.
    pose proof (relabel_opt_wf k n H) as Hk. destruct (relabel_opt k n) as [k' n1].
    pose proof (relabel_opt_wf v n1 H0) as Hv. destruct (relabel_opt v n1) as [v' n2].
    cbn [fst] in *. rewrite !wf_pair. now rewrite Hk, Hv.
  - rewrite relabel_tok.
    pose proof (relabel_opt_wf a n H) as Ha. destruct (relabel_opt a n) as [a' n1].
    pose proof (relabel_opt_wf c n1 H1) as Hc. destruct (relabel_opt c n1) as [c' n2].
    pose proof (relabel_opt_wf b n2 H0) as Hb. destruct (relabel_opt b n2) as [b' n3].
    cbn [fst] in *. rewrite !wf_tok. now rewrite Ha, Hb, Hc.
  - rewrite relabel_url. pose proof (relabel_items_wfl cs n H) as Hc.
    destruct (relabel_items cs n) as [cs' n1]. cbn [fst] in *. rewrite !wf_url_items. exact Hc.
  - rewrite relabel_cont. pose proof (relabel_items_ok i items (n + 1) H) as Hc.
    destruct (relabel_items items (n + 1)) as [it' n1]. cbn [fst] in *. rewrite !wf_cont_items. exact Hc.
Qed.
Lemma relabel_items_ok' i l n : items_ok i (fst (relabel_items l n)) = items_ok i l.
Proof.
  apply relabel_items_ok. apply Forall_forall. intros [y|] _; cbn [PO]; [|exact I]. intros m. apply relabel_wf.
Qed.

Section Safe.
Variable pcre : option text -> Z -> Z.
Variable flag_table : list (Z * Z).

Definition wfc_P (o : obj) : Prop :=
  wf o = true ->
  (forall o', copy pcre o = Ok o' -> wf o' = true) /\ (forall f, copy pcre o = Fault f -> f = Abort).

Lemma copy_opt_wf x : PO wfc_P x -> wf_opt x = true ->
  (forall x', copy_opt pcre x = Ok x' -> wf_opt x' = true /\ item_ok IMap x' = item_ok IMap x /\
                                          (match x', x with Some _, Some _ | None, None => True | _, _ => False end)) /\
  (forall f, copy_opt pcre x = Fault f -> f = Abort).
Proof.
  destruct x as [y|]; cbn [PO copy_opt wf_opt]; intros H W.
  - destruct (H W) as (A & B). split.
    + intros x' E. destruct (copy pcre y) as [y'|] eqn:Ey; cbn [bind] in E; [|discriminate]. inv E.
      cbn [wf_opt]. split; [now apply A|]. split; [|exact I].
      (* item_ok IMap looks at the outer pair shape only *)
      destruct y; try (cbn in Ey; inv Ey; reflexivity).
      * rewrite copy_pair in Ey. destruct k as [k|], v as [v|]; cbn [copy_opt] in Ey;
          repeat match type of Ey with context[copy pcre ?a] => destruct (copy pcre a); cbn [bind] in Ey; try discriminate end;
          inv Ey; reflexivity.
      * rewrite copy_tok in Ey.
        destruct (copy_opt pcre src); cbn [bind] in Ey; [|discriminate].
        destruct (copy_opt pcre tokens); cbn [bind] in Ey; [|discriminate].
        destruct (copy_opt pcre sep); cbn [bind] in Ey; [|discriminate]. inv Ey. reflexivity.
      * rewrite copy_url in Ey. destruct (copy_items pcre comps); cbn [bind] in Ey; [|discriminate]. inv Ey. reflexivity.
      * rewrite copy_cont in Ey. destruct (copy_guarded pcre i c items); cbn [bind] in Ey; [|discriminate]. inv Ey. reflexivity.
    + intros f E. destruct (copy pcre y) as [y'|g] eqn:Ey; cbn [bind] in E; [discriminate|]. inv E. now apply B.
  - split; [|discriminate]. intros x' E. inv E. auto.
Qed.

Lemma copy_items_wf l : Forall (PO wfc_P) l -> forallb wf_opt l = true ->
  (forall l', copy_items pcre l = Ok l' -> forallb wf_opt l' = true) /\
  (forall f, copy_items pcre l = Fault f -> f = Abort).
Proof.
  induction l as [|x t IH]; intros H W.
  - split; [|discriminate]. intros l' E. inv E. reflexivity.
  - pose proof (Forall_inv H) as Hx. pose proof (Forall_inv_tail H) as Ht.
    cbn [forallb] in W. apply andb_prop in W as (Wx & Wt).
    destruct (copy_opt_wf x Hx Wx) as (A & B). destruct (IH Ht Wt) as (C & D).
    cbn [copy_items]. fold (copy_items pcre). split.
    + intros l' E. destruct (copy_opt pcre x) as [x'|] eqn:Ex; cbn [bind] in E; [|discriminate].
      destruct (copy_items pcre t) as [t'|] eqn:Et; cbn [bind] in E; [|discriminate]. inv E.
      cbn [forallb]. destruct (A x' eq_refl) as (A1 & _). now rewrite A1, (C t' eq_refl).
    + intros f E. destruct (copy_opt pcre x) as [x'|g] eqn:Ex; cbn [bind] in E; [|inv E; now apply B].
      destruct (copy_items pcre t) as [t'|g] eqn:Et; cbn [bind] in E; [discriminate|]. inv E. now apply D.
Qed.

Lemma copy_guarded_wf i c l : Forall (PO wfc_P) l -> items_ok i l = true ->
  (forall l', copy_guarded pcre i c l = Ok l' -> items_ok i l' = true) /\
  (forall f, copy_guarded pcre i c l = Fault f -> f = Abort).
Proof.
  induction l as [|x t IH]; intros H W.
  - split; [|discriminate]. intros l' E. inv E. reflexivity.
  - pose proof (Forall_inv H) as Hx. pose proof (Forall_inv_tail H) as Ht.
    rewrite items_ok_cons in W. apply andb_prop in W as (Wx & Wt). apply andb_prop in Wx as (Wi & Wx).
    destruct (copy_opt_wf x Hx Wx) as (A & B). destruct (IH Ht Wt) as (C & D).
    cbn [copy_guarded]. fold (copy_guarded pcre i c).
    assert (G : item_guard i c x = Ok tt).
    { destruct i, c, x; cbn in *; try reflexivity; discriminate. }
    rewrite G. cbn [bind]. split.
    + intros l' E. destruct (copy_opt pcre x) as [x'|] eqn:Ex; cbn [bind] in E; [|discriminate].
      destruct (copy_guarded pcre i c t) as [t'|] eqn:Et; cbn [bind] in E; [|discriminate]. inv E.
      destruct (A x' eq_refl) as (A1 & A2 & A3). rewrite items_ok_cons, A1, (C t' eq_refl).
      assert (Hi : item_ok i x' = true).
      { destruct i; [reflexivity| |now rewrite A2].
        destruct x', x; try destruct A3; try reflexivity; discriminate. }
      now rewrite Hi.
    + intros f E. destruct (copy_opt pcre x) as [x'|g] eqn:Ex; cbn [bind] in E; [|inv E; now apply B].
      destruct (copy_guarded pcre i c t) as [t'|g] eqn:Et; cbn [bind] in E; [discriminate|]. inv E. now apply D.
Qed.

Theorem copy_wf : forall o, wf o = true ->
  (forall o', copy pcre o = Ok o' -> wf o' = true) /\ (forall f, copy pcre o = Fault f -> f = Abort).
Proof.
  induction o using obj_ind2; intros W;
    try (split; [intros o' E; cbn in E; inv E; reflexivity|intros ff E; cbn in E; congruence]).
  - rewrite wf_pair in W. apply andb_prop in W as (Wk & Wv).
    destruct (copy_opt_wf k H Wk) as (A & B). destruct (copy_opt_wf v H0 Wv) as (C & D).
    rewrite copy_pair. split.
    + intros o' E. destruct (copy_opt pcre k) as [k'|] eqn:Ek; cbn [bind] in E; [|discriminate].
      destruct (copy_opt pcre v) as [v'|] eqn:Ev; cbn [bind] in E; [|discriminate]. inv E.
      rewrite wf_pair. destruct (A k' eq_refl) as (A1 & _). destruct (C v' eq_refl) as (C1 & _). now rewrite A1, C1.
    + intros f E. destruct (copy_opt pcre k) as [k'|g] eqn:Ek; cbn [bind] in E; [|inv E; now apply B].
      destruct (copy_opt pcre v) as [v'|g] eqn:Ev; cbn [bind] in E; [discriminate|]. inv E. now apply D.
  - rewrite wf_tok in W. apply andb_prop in W as (Wab & Wc). apply andb_prop in Wab as (Wa & Wb).
    destruct (copy_opt_wf a H Wa) as (A & B). destruct (copy_opt_wf b H0 Wb) as (C & D). destruct (copy_opt_wf c H1 Wc) as (E1 & F1).
    rewrite copy_tok. split.
    + intros o' E. destruct (copy_opt pcre a) as [a'|] eqn:Ea; cbn [bind] in E; [|discriminate].
      destruct (copy_opt pcre c) as [c'|] eqn:Ec; cbn [bind] in E; [|discriminate].
      destruct (copy_opt pcre b) as [b'|] eqn:Eb; cbn [bind] in E; [|discriminate]. inv E.
      rewrite wf_tok. destruct (A a' eq_refl) as (X & _). destruct (C b' eq_refl) as (Y & _). destruct (E1 c' eq_refl) as (Z & _).
      now rewrite X, Y, Z.
    + intros f E. destruct (copy_opt pcre a) as [a'|g] eqn:Ea; cbn [bind] in E; [|inv E; now apply B].
      destruct (copy_opt pcre c) as [c'|g] eqn:Ec; cbn [bind] in E; [|inv E; now apply F1].
      destruct (copy_opt pcre b) as [b'|g] eqn:Eb; cbn [bind] in E; [discriminate|]. inv E. now apply D.
  - rewrite wf_url_items in W. destruct (copy_items_wf cs H W) as (A & B). rewrite copy_url. split.
    + intros o' E. destruct (copy_items pcre cs) as [cs'|] eqn:Ec; cbn [bind] in E; [|discriminate]. inv E.
      rewrite wf_url_items. now apply A.
    + intros f E. destruct (copy_items pcre cs) as [cs'|g] eqn:Ec; cbn [bind] in E; [discriminate|]. inv E. now apply B.
  - rewrite wf_cont_items in W. destruct (copy_guarded_wf i c items H W) as (A & B). rewrite copy_cont. split.
    + intros o' E. destruct (copy_guarded pcre i c items) as [it'|] eqn:Ec; cbn [bind] in E; [|discriminate]. inv E.
      rewrite wf_cont_items. now apply A.
    + intros f E. destruct (copy_guarded pcre i c items) as [it'|g] eqn:Ec; cbn [bind] in E; [discriminate|]. inv E. now apply B.
Qed.
End Safe.
