(* Own/CostProofs.v - the three cost functions agree: what del frees and what dup allocates is
   the footprint; copy / relabel preserve the observable value, the class and well-formedness. *)
From LV Require Export Own.ObjInd.
Local Open Scope Z_scope.

Ltac inv H := inversion H; subst; clear H.

(* ---- release = footprint ---- *)
Lemma rel_items_fp c l :
  Forall (PO (fun o => release o = footprint o)) l -> rel_items c l = fp_items c l.
Proof.
  induction 1 as [|x t Hx _ IH]; [reflexivity|].
  cbn [rel_items fp_items] in *. fold (rel_items c t) (fp_items c t). rewrite IH.
  destruct x as [y|]; cbn [rel_opt fp_opt PO] in *; [rewrite Hx|]; lia.
Qed.
Lemma rel_list_fp l :
  Forall (PO (fun o => release o = footprint o)) l -> rel_list l = fp_list l.
Proof.
  induction 1 as [|x t Hx _ IH]; [reflexivity|].
  cbn [rel_list fp_list] in *. fold (rel_list t) (fp_list t). rewrite IH.
  destruct x as [y|]; cbn [rel_opt fp_opt PO] in *; [rewrite Hx|]; lia.
Qed.

Theorem release_is_footprint : forall o, release o = footprint o.
Proof.
  induction o using obj_ind2; try reflexivity; try (cbn [release footprint]; lia).
  - rewrite release_pair, footprint_pair.
    destruct k, v; cbn [PO rel_opt fp_opt] in *; lia.
  - rewrite release_tok, footprint_tok.
    destruct a, b, c; cbn [PO rel_opt fp_opt] in *; lia.
  - rewrite release_url, footprint_url, (rel_list_fp cs H). lia.
  - rewrite release_cont, footprint_cont, (rel_items_fp c items H). lia.
Qed.
Lemma rel_opt_fp x : rel_opt x = fp_opt x.
Proof. destruct x; cbn; [apply release_is_footprint|reflexivity]. Qed.

(* ---- footprints are positive ---- *)
Lemma fp_items_nonneg c l :
  Forall (PO (fun o => 1 <= footprint o)) l -> 0 <= fp_items c l.
Proof.
  induction 1 as [|x t Hx _ IH]; [cbn; lia|].
  cbn [fp_items] in *. fold (fp_items c t).
  destruct x; cbn [fp_opt PO] in *; destruct c; cbn [node_cost]; lia.
Qed.
Lemma fp_list_nonneg l :
  Forall (PO (fun o => 1 <= footprint o)) l -> 0 <= fp_list l.
Proof.
  induction 1 as [|x t Hx _ IH]; [cbn; lia|].
  cbn [fp_list] in *. fold (fp_list t). destruct x; cbn [fp_opt PO] in *; lia.
Qed.
Definition data_ok (o : obj) : Prop := True.

(* ---- relabel ---- *)
Lemma relabel_opt_fp x n :
  PO (fun o => forall n, footprint (fst (relabel o n)) = footprint o) x ->
  fp_opt (fst (relabel_opt x n)) = fp_opt x.
Proof.
  destruct x as [y|]; cbn [PO relabel_opt]; intros H; [|reflexivity].
  specialize (H n). destruct (relabel y n). exact H.
Qed.
Lemma relabel_items_fp c l : forall n,
  Forall (PO (fun o => forall n, footprint (fst (relabel o n)) = footprint o)) l ->
  fp_items c (fst (relabel_items l n)) = fp_items c l.
Proof.
  induction l as [|x t IH]; intros n H; [reflexivity|].
  pose proof (Forall_inv H) as Hx. pose proof (Forall_inv_tail H) as Ht.
  cbn [relabel_items]. fold relabel_items.
  pose proof (relabel_opt_fp x n Hx) as Ex. destruct (relabel_opt x n) as [x' n1].
  specialize (IH n1 Ht). destruct (relabel_items t n1) as [t' n2].
  cbn [fst fp_items] in *. fold (fp_items c t') (fp_items c t). lia.
Qed.
Lemma relabel_items_fpl l : forall n,
  Forall (PO (fun o => forall n, footprint (fst (relabel o n)) = footprint o)) l ->
  fp_list (fst (relabel_items l n)) = fp_list l.
Proof.
  induction l as [|x t IH]; intros n H; [reflexivity|].
  pose proof (Forall_inv H) as Hx. pose proof (Forall_inv_tail H) as Ht.
  cbn [relabel_items]. fold relabel_items.
  pose proof (relabel_opt_fp x n Hx) as Ex. destruct (relabel_opt x n) as [x' n1].
  specialize (IH n1 Ht). destruct (relabel_items t n1) as [t' n2].
  cbn [fst fp_list] in *. fold (fp_list t') (fp_list t). lia.
Qed.

Theorem relabel_footprint : forall o n, footprint (fst (relabel o n)) = footprint o.
Proof.
  induction o using obj_ind2; intros n; try reflexivity.
  - rewrite relabel_pair.
    pose proof (relabel_opt_fp k n H) as Hk. destruct (relabel_opt k n) as [k' n1].
    pose proof (relabel_opt_fp v n1 H0) as Hv. destruct (relabel_opt v n1) as [v' n2].
    cbn [fst] in *. rewrite !footprint_pair. lia.
  - rewrite relabel_tok.
    pose proof (relabel_opt_fp a n H) as Ha. destruct (relabel_opt a n) as [a' n1].
    pose proof (relabel_opt_fp c n1 H1) as Hc. destruct (relabel_opt c n1) as [c' n2].
    pose proof (relabel_opt_fp b n2 H0) as Hb. destruct (relabel_opt b n2) as [b' n3].
    cbn [fst] in *. rewrite !footprint_tok. lia.
  - rewrite relabel_url. pose proof (relabel_items_fpl cs n H) as Hc.
    destruct (relabel_items cs n) as [cs' n1]. cbn [fst] in *. rewrite !footprint_url. lia.
  - rewrite relabel_cont. pose proof (relabel_items_fp c items (n + 1) H) as Hc.
    destruct (relabel_items items (n + 1)) as [it' n1]. cbn [fst] in *. rewrite !footprint_cont. lia.
Qed.

(* relabel keeps value, class, well-formedness *)
Lemma relabel_opt_abs x n :
  PO (fun o => forall n, abs (fst (relabel o n)) = abs o) x ->
  abs_opt (fst (relabel_opt x n)) = abs_opt x.
Proof.
  destruct x as [y|]; cbn [PO relabel_opt]; intros H; [|reflexivity].
  specialize (H n). destruct (relabel y n). cbn [fst abs_opt] in *. now rewrite H.
Qed.
Lemma relabel_items_abs l : forall n,
  Forall (PO (fun o => forall n, abs (fst (relabel o n)) = abs o)) l ->
  map abs_opt (fst (relabel_items l n)) = map abs_opt l.
Proof.
  induction l as [|x t IH]; intros n H; [reflexivity|].
  pose proof (Forall_inv H) as Hx. pose proof (Forall_inv_tail H) as Ht.
  cbn [relabel_items]. fold relabel_items.
  pose proof (relabel_opt_abs x n Hx) as Ex. destruct (relabel_opt x n) as [x' n1].
  specialize (IH n1 Ht). destruct (relabel_items t n1) as [t' n2].
  cbn [fst map] in *. now rewrite Ex, IH.
Qed.
Theorem relabel_abs : forall o n, abs (fst (relabel o n)) = abs o.
Proof.
  induction o using obj_ind2; intros n; try reflexivity.
  - rewrite relabel_pair.
    pose proof (relabel_opt_abs k n H) as Hk. destruct (relabel_opt k n) as [k' n1].
    pose proof (relabel_opt_abs v n1 H0) as Hv. destruct (relabel_opt v n1) as [v' n2].
    cbn [fst] in *. rewrite !abs_pair. now rewrite Hk, Hv.
  - rewrite relabel_tok.
    pose proof (relabel_opt_abs a n H) as Ha. destruct (relabel_opt a n) as [a' n1].
    pose proof (relabel_opt_abs c n1 H1) as Hc. destruct (relabel_opt c n1) as [c' n2].
    pose proof (relabel_opt_abs b n2 H0) as Hb. destruct (relabel_opt b n2) as [b' n3].
    cbn [fst] in *. rewrite !abs_tok. now rewrite Ha, Hb, Hc.
  - rewrite relabel_url. pose proof (relabel_items_abs cs n H) as Hc.
    destruct (relabel_items cs n) as [cs' n1]. cbn [fst] in *. rewrite !abs_url. now rewrite Hc.
  - rewrite relabel_cont. pose proof (relabel_items_abs items (n + 1) H) as Hc.
    destruct (relabel_items items (n + 1)) as [it' n1]. cbn [fst] in *. rewrite !abs_cont. now rewrite Hc.
Qed.

Lemma relabel_tag o n : tag_of (fst (relabel o n)) = tag_of o.
Proof.
  destruct o; try reflexivity.
  - rewrite relabel_pair. destruct (relabel_opt k n), (relabel_opt v z). reflexivity.
  - rewrite relabel_tok. destruct (relabel_opt src n), (relabel_opt tokens z), (relabel_opt sep z0). reflexivity.
  - rewrite relabel_url. destruct (relabel_items comps n). reflexivity.
  - rewrite relabel_cont. destruct (relabel_items items (n + 1)). reflexivity.
Qed.

(* ---- copy: what dup allocates is the footprint of the copy ---- *)
Section Copy.
Variable pcre : option text -> Z -> Z.

Definition copy_fp_P (o : obj) : Prop := forall o', copy pcre o = Ok o' -> dup_cost pcre o = footprint o'.

Lemma copy_opt_fp x x' :
  PO copy_fp_P x -> copy_opt pcre x = Ok x' -> dc_opt pcre x = fp_opt x'.
Proof.
  destruct x as [y|]; cbn [PO copy_opt dc_opt]; intros H E.
  - destruct (copy pcre y) as [y'|] eqn:Ey; cbn [bind] in E; [|discriminate]. inv E.
    cbn [fp_opt]. apply H. exact Ey.
  - inv E. reflexivity.
Qed.
Lemma copy_items_fp l : forall l',
  Forall (PO copy_fp_P) l -> copy_items pcre l = Ok l' -> dc_list pcre l = fp_list l'.
Proof.
  induction l as [|x t IH]; intros l' H E.
  - inv E. reflexivity.
  - inv H. cbn [copy_items] in E. fold (copy_items pcre) in E.
    destruct (copy_opt pcre x) as [x'|] eqn:Ex; cbn [bind] in E; [|discriminate].
    destruct (copy_items pcre t) as [t'|] eqn:Et; cbn [bind] in E; [|discriminate]. inv E.
    cbn [dc_list fp_list]. fold (dc_list pcre t) (fp_list t').
    rewrite (copy_opt_fp x x' H2 Ex), (IH t' H3 eq_refl). reflexivity.
Qed.
Lemma copy_guarded_fp i c l : forall l',
  Forall (PO copy_fp_P) l -> copy_guarded pcre i c l = Ok l' -> dc_items pcre c l = fp_items c l'.
Proof.
  induction l as [|x t IH]; intros l' H E.
  - inv E. reflexivity.
  - inv H. cbn [copy_guarded] in E. fold (copy_guarded pcre i c) in E.
    destruct (item_guard i c x); cbn [bind] in E; [|discriminate].
    destruct (copy_opt pcre x) as [x'|] eqn:Ex; cbn [bind] in E; [|discriminate].
    destruct (copy_guarded pcre i c t) as [t'|] eqn:Et; cbn [bind] in E; [|discriminate]. inv E.
    cbn [dc_items fp_items]. fold (dc_items pcre c t) (fp_items c t').
    rewrite (copy_opt_fp x x' H2 Ex), (IH t' H3 eq_refl). reflexivity.
Qed.

Theorem copy_footprint : forall o o', copy pcre o = Ok o' -> dup_cost pcre o = footprint o'.
Proof.
  induction o using obj_ind2; intros o' E; try (cbn in E; inv E; reflexivity).
  - rewrite copy_pair in E.
    destruct (copy_opt pcre k) as [k'|] eqn:Ek; cbn [bind] in E; [|discriminate].
    destruct (copy_opt pcre v) as [v'|] eqn:Ev; cbn [bind] in E; [|discriminate]. inv E.
    rewrite dup_cost_pair, footprint_pair, (copy_opt_fp k k' H Ek), (copy_opt_fp v v' H0 Ev). reflexivity.
  - rewrite copy_tok in E.
    destruct (copy_opt pcre a) as [a'|] eqn:Ea; cbn [bind] in E; [|discriminate].
    destruct (copy_opt pcre c) as [c'|] eqn:Ec; cbn [bind] in E; [|discriminate].
    destruct (copy_opt pcre b) as [b'|] eqn:Eb; cbn [bind] in E; [|discriminate]. inv E.
    rewrite dup_cost_tok, footprint_tok, (copy_opt_fp a a' H Ea), (copy_opt_fp b b' H0 Eb), (copy_opt_fp c c' H1 Ec). lia.
  - rewrite copy_url in E.
    destruct (copy_items pcre cs) as [cs'|] eqn:Ec; cbn [bind] in E; [|discriminate]. inv E.
    rewrite dup_cost_url, footprint_url, (copy_items_fp cs cs' H Ec). reflexivity.
  - rewrite copy_cont in E.
    destruct (copy_guarded pcre i c items) as [it'|] eqn:Ei; cbn [bind] in E; [|discriminate]. inv E.
    rewrite dup_cost_cont, footprint_cont, (copy_guarded_fp i c items it' H Ei).
    destruct c; reflexivity.
Qed.

(* ---- copy: same observable value, same class ---- *)
Definition copy_abs_P (o : obj) : Prop := forall o', copy pcre o = Ok o' -> abs o' = abs o.
Lemma copy_opt_abs x x' : PO copy_abs_P x -> copy_opt pcre x = Ok x' -> abs_opt x' = abs_opt x.
Proof.
  destruct x as [y|]; cbn [PO copy_opt]; intros H E.
  - destruct (copy pcre y) as [y'|] eqn:Ey; cbn [bind] in E; [|discriminate]. inv E.
    cbn [abs_opt]. now rewrite (H y' Ey).
  - inv E. reflexivity.
Qed.
Lemma copy_items_abs l : forall l',
  Forall (PO copy_abs_P) l -> copy_items pcre l = Ok l' -> map abs_opt l' = map abs_opt l.
Proof.
  induction l as [|x t IH]; intros l' H E.
  - inv E. reflexivity.
  - inv H. cbn [copy_items] in E. fold (copy_items pcre) in E.
    destruct (copy_opt pcre x) as [x'|] eqn:Ex; cbn [bind] in E; [|discriminate].
    destruct (copy_items pcre t) as [t'|] eqn:Et; cbn [bind] in E; [|discriminate]. inv E.
    cbn [map]. now rewrite (copy_opt_abs x x' H2 Ex), (IH t' H3 eq_refl).
Qed.
Lemma copy_guarded_abs i c l : forall l',
  Forall (PO copy_abs_P) l -> copy_guarded pcre i c l = Ok l' -> map abs_opt l' = map abs_opt l.
Proof.
  induction l as [|x t IH]; intros l' H E.
  - inv E. reflexivity.
  - inv H. cbn [copy_guarded] in E. fold (copy_guarded pcre i c) in E.
    destruct (item_guard i c x); cbn [bind] in E; [|discriminate].
    destruct (copy_opt pcre x) as [x'|] eqn:Ex; cbn [bind] in E; [|discriminate].
    destruct (copy_guarded pcre i c t) as [t'|] eqn:Et; cbn [bind] in E; [|discriminate]. inv E.
    cbn [map]. now rewrite (copy_opt_abs x x' H2 Ex), (IH t' H3 eq_refl).
Qed.

Theorem copy_abs : forall o o', copy pcre o = Ok o' -> abs o' = abs o.
Proof.
  induction o using obj_ind2; intros o' E; try (cbn in E; inv E; reflexivity).
  - rewrite copy_pair in E.
    destruct (copy_opt pcre k) as [k'|] eqn:Ek; cbn [bind] in E; [|discriminate].
    destruct (copy_opt pcre v) as [v'|] eqn:Ev; cbn [bind] in E; [|discriminate]. inv E.
    rewrite !abs_pair. now rewrite (copy_opt_abs k k' H Ek), (copy_opt_abs v v' H0 Ev).
  - rewrite copy_tok in E.
    destruct (copy_opt pcre a) as [a'|] eqn:Ea; cbn [bind] in E; [|discriminate].
    destruct (copy_opt pcre c) as [c'|] eqn:Ec; cbn [bind] in E; [|discriminate].
    destruct (copy_opt pcre b) as [b'|] eqn:Eb; cbn [bind] in E; [|discriminate]. inv E.
    rewrite !abs_tok. now rewrite (copy_opt_abs a a' H Ea), (copy_opt_abs b b' H0 Eb), (copy_opt_abs c c' H1 Ec).
  - rewrite copy_url in E.
    destruct (copy_items pcre cs) as [cs'|] eqn:Ec; cbn [bind] in E; [|discriminate]. inv E.
    rewrite !abs_url. now rewrite (copy_items_abs cs cs' H Ec).
  - rewrite copy_cont in E.
    destruct (copy_guarded pcre i c items) as [it'|] eqn:Ei; cbn [bind] in E; [|discriminate]. inv E.
    rewrite !abs_cont. now rewrite (copy_guarded_abs i c items it' H Ei).
Qed.

Lemma copy_tag o o' : copy pcre o = Ok o' -> tag_of o' = tag_of o.
Proof.
  intros E. pose proof (copy_abs o o' E) as H.
  assert (T : forall x, tag_of (abs x) = tag_of x) by (destruct x; reflexivity).
  now rewrite <- (T o'), H, T.
Qed.
End Copy.
