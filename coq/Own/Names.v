(* Own/Names.v - type(): the class-name string of every method table, from the generated
   table coq/Gen/OwnGen.v (tools/gen_c05.py reads the SPIF_DECL_CLASSNAME entries). *)
From LV Require Export Own.World.
From LV Require Import Gen.OwnGen.
Local Open Scope Z_scope.

Definition class_name (t : ctag) : option (list Z) :=
  match t with
  | TObj => Some cn_obj | TStr => Some cn_str | TUstr => Some cn_ustr | TMbuff => Some cn_mbuff
  | TPair => Some cn_objpair | TTok => Some cn_tok | TUrl => Some cn_url | TRegexp => Some cn_regexp
  | TCont IList Arr => Some cn_array_list | TCont IVector Arr => Some cn_array_vector
  | TCont IMap Arr => Some cn_array_map | TIter Arr => Some cn_array_iterator
  | TCont IList LL => Some cn_linked_list_list | TCont IVector LL => Some cn_linked_list_vector
  | TCont IMap LL => Some cn_linked_list_map | TIter LL => Some cn_linked_list_iterator
  | TCont IList DL => Some cn_dlinked_list_list | TCont IVector DL => Some cn_dlinked_list_vector
  | TCont IMap DL => Some cn_dlinked_list_map | TIter DL => Some cn_dlinked_list_iterator
  | TRaw => None
  end.

(* the name the source gives each class: "!spif_" ++ <class> ++ "_t!" *)
Definition bang_name (s : list Z) : list Z := [33; 115; 112; 105; 102; 95] ++ s ++ [95; 116; 33].
Definition base_name (t : ctag) : option (list Z) :=
  match t with
  | TObj => Some [111; 98; 106] | TStr => Some [115; 116; 114] | TUstr => Some [117; 115; 116; 114]
  | TMbuff => Some [109; 98; 117; 102; 102] | TPair => Some [111; 98; 106; 112; 97; 105; 114]
  | TTok => Some [116; 111; 107] | TUrl => Some [117; 114; 108] | TRegexp => Some [114; 101; 103; 101; 120; 112]
  | TCont _ Arr | TIter Arr => Some [97; 114; 114; 97; 121]
  | TCont _ LL | TIter LL => Some [108; 105; 110; 107; 101; 100; 95; 108; 105; 115; 116]
  | TCont _ DL | TIter DL => Some [100; 108; 105; 110; 107; 101; 100; 95; 108; 105; 115; 116]
  | TRaw => None
  end.
