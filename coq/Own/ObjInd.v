(* Own/ObjInd.v - induction principle for the nested type [obj] and the unfolding equations
   that relate the nested fixpoints of Own/World.v to their list forms. *)
From LV Require Export Own.World.
Local Open Scope Z_scope.

Section ObjInd.
Variable P : obj -> Prop.
Definition PO (x : option obj) : Prop := match x with Some y => P y | None => True end.
Hypothesis H_obj : forall a, P (OObj a).
Hypothesis H_str : forall s, P (OStr s).
Hypothesis H_ustr : forall s, P (OUstr s).
Hypothesis H_mbuff : forall s, P (OMbuff s).
Hypothesis H_pair : forall k v, PO k -> PO v -> P (OPair k v).
Hypothesis H_tok : forall a b c ch, PO a -> PO b -> PO c -> P (OTok a b c ch).
Hypothesis H_url : forall s cs, Forall PO cs -> P (OUrl s cs).
Hypothesis H_re : forall s f d, P (ORegexp s f d).
Hypothesis H_cont : forall i c a al items, Forall PO items -> P (OCont i c a al items).
Hypothesis H_iter : forall c s, P (OIter c s).
Hypothesis H_raw : P ORaw.

Fixpoint obj_ind2 (o : obj) : P o :=
  let po := fun x : option obj => match x return PO x with Some y => obj_ind2 y | None => I end in
  match o return P o with
  | OObj a => H_obj a
  | OStr s => H_str s
  | OUstr s => H_ustr s
  | OMbuff s => H_mbuff s
  | OPair k v => H_pair k v (po k) (po v)
  | OTok a b c ch => H_tok a b c ch (po a) (po b) (po c)
  | OUrl s cs => H_url s cs ((fix go (l : list (option obj)) : Forall PO l :=
                                match l return Forall PO l with
                                | [] => Forall_nil PO
                                | x :: t => Forall_cons x (po x) (go t)
                                end) cs)
  | ORegexp s f d => H_re s f d
  | OCont i c a al items => H_cont i c a al items
                              ((fix go (l : list (option obj)) : Forall PO l :=
                                  match l return Forall PO l with
                                  | [] => Forall_nil PO
                                  | x :: t => Forall_cons x (po x) (go t)
                                  end) items)
  | OIter c s => H_iter c s
  | ORaw => H_raw
  end.
End ObjInd.

(* ---- unfolding equations ---- *)
Definition fp_list : list (option obj) -> Z :=
  fix go (l : list (option obj)) : Z := match l with [] => 0 | x :: t => fp_opt x + go t end.
Definition rel_list : list (option obj) -> Z :=
  fix go (l : list (option obj)) : Z := match l with [] => 0 | x :: t => rel_opt x + go t end.
Definition abs_list : list (option obj) -> list (option obj) := map abs_opt.
Definition dc_list (pcre : option text -> Z -> Z) : list (option obj) -> Z :=
  fix go (l : list (option obj)) : Z := match l with [] => 0 | x :: t => dc_opt pcre x + go t end.

Lemma footprint_cont i c a al items :
  footprint (OCont i c a al items) = 1 + items_cost c al + fp_items c items.
Proof. reflexivity. Qed.
Lemma footprint_url s cs : footprint (OUrl s cs) = 1 + optb s + fp_list cs.
Proof. reflexivity. Qed.
Lemma footprint_pair k v : footprint (OPair k v) = 1 + fp_opt k + fp_opt v.
Proof. reflexivity. Qed.
Lemma footprint_tok a b c ch : footprint (OTok a b c ch) = 1 + fp_opt a + fp_opt b + fp_opt c.
Proof. reflexivity. Qed.

Lemma release_cont i c a al items :
  release (OCont i c a al items) = rel_items c items + items_cost c al + 1.
Proof. reflexivity. Qed.
Lemma release_url s cs : release (OUrl s cs) = rel_list cs + optb s + 1.
Proof. reflexivity. Qed.
Lemma release_pair k v : release (OPair k v) = rel_opt k + rel_opt v + 1.
Proof. reflexivity. Qed.
Lemma release_tok a b c ch : release (OTok a b c ch) = rel_opt c + rel_opt a + rel_opt b + 1.
Proof. reflexivity. Qed.

Lemma abs_cont i c a al items : abs (OCont i c a al items) = OCont i c 0 false (map abs_opt items).
Proof. reflexivity. Qed.
Lemma abs_url s cs : abs (OUrl s cs) = OUrl s (map abs_opt cs).
Proof. reflexivity. Qed.
Lemma abs_pair k v : abs (OPair k v) = OPair (abs_opt k) (abs_opt v).
Proof. reflexivity. Qed.
Lemma abs_tok a b c ch : abs (OTok a b c ch) = OTok (abs_opt a) (abs_opt b) (abs_opt c) ch.
Proof. reflexivity. Qed.

Section WithPcre.
Variable pcre : option text -> Z -> Z.

Lemma dup_cost_cont i c a al items :
  dup_cost pcre (OCont i c a al items) = 1 + (match c with Arr => 1 | _ => 0 end) + dc_items pcre c items.
Proof. reflexivity. Qed.
Lemma dup_cost_url s cs : dup_cost pcre (OUrl s cs) = 1 + optb s + dc_list pcre cs.
Proof. reflexivity. Qed.
Lemma dup_cost_pair k v : dup_cost pcre (OPair k v) = 1 + dc_opt pcre k + dc_opt pcre v.
Proof. reflexivity. Qed.
Lemma dup_cost_tok a b c ch : dup_cost pcre (OTok a b c ch) = 1 + dc_opt pcre a + dc_opt pcre c + dc_opt pcre b.
Proof. reflexivity. Qed.

(* the per-item guard of the array vector / map dup routines *)
Definition item_guard (i : iface) (c : cls) (x : option obj) : res unit :=
  match i, c, x with
  | IList, _, _ | _, LL, _ | _, DL, _ | _, _, Some _ => Ok tt
  | _, Arr, None => Fault Null_deref
  end.
Definition copy_guarded (i : iface) (c : cls) : list (option obj) -> res (list (option obj)) :=
  fix go (l : list (option obj)) : res (list (option obj)) :=
    match l with
    | [] => Ok []
    | x :: t => _ <- item_guard i c x ;; x' <- copy_opt pcre x ;; t' <- go t ;; Ok (x' :: t')
    end.

Lemma copy_cont i c a al items :
  copy pcre (OCont i c a al items) =
  (items' <- copy_guarded i c items ;; Ok (OCont i c a (match c with Arr => true | _ => false end) items')).
Proof. reflexivity. Qed.
Lemma copy_url s cs : copy pcre (OUrl s cs) = (cs' <- copy_items pcre cs ;; Ok (OUrl s cs')).
Proof. reflexivity. Qed.
Lemma copy_pair k v :
  copy pcre (OPair k v) = (k' <- copy_opt pcre k ;; v' <- copy_opt pcre v ;; Ok (OPair k' v')).
Proof. reflexivity. Qed.
Lemma copy_tok a b c ch :
  copy pcre (OTok a b c ch) =
  (a' <- copy_opt pcre a ;; c' <- copy_opt pcre c ;; b' <- copy_opt pcre b ;; Ok (OTok a' b' c' ch)).
Proof. reflexivity. Qed.
End WithPcre.

Lemma relabel_cont i c a al items n :
  relabel (OCont i c a al items) n =
  (let (items', n1) := relabel_items items (n + 1) in (OCont i c n al items', n1)).
Proof. reflexivity. Qed.
Lemma relabel_url s cs n :
  relabel (OUrl s cs) n = (let (cs', n1) := relabel_items cs n in (OUrl s cs', n1)).
Proof. reflexivity. Qed.
Lemma relabel_pair k v n :
  relabel (OPair k v) n =
  (let (k', n1) := relabel_opt k n in let (v', n2) := relabel_opt v n1 in (OPair k' v', n2)).
Proof. reflexivity. Qed.
Lemma relabel_tok a b c ch n :
  relabel (OTok a b c ch) n =
  (let (a', n1) := relabel_opt a n in let (c', n2) := relabel_opt c n1 in
   let (b', n3) := relabel_opt b n2 in (OTok a' b' c' ch, n3)).
Proof. reflexivity. Qed.

Lemma wf_cont i c a al items :
  wf (OCont i c a al items) =
  forallb (fun x => item_ok i x && (match x with Some y => wf y | None => true end)) items.
Proof.
  cbn [wf]. induction items as [|x t IH]; [reflexivity|].
  cbn [forallb]. rewrite <- IH. reflexivity.
Qed.
Lemma wf_url s cs : wf (OUrl s cs) = forallb (fun x => match x with Some y => wf y | None => true end) cs.
Proof.
  cbn [wf]. induction cs as [|x t IH]; [reflexivity|].
  cbn [forallb]. rewrite <- IH. reflexivity.
Qed.
