(* Own/LedgerProofs.v - the ledger invariant: for every program the number of live allocations is
   the sum of the footprints of the objects the program holds. *)
From LV Require Export Own.HeldLemmas.
Local Open Scope Z_scope.

Definition Inv (b : Z) (w : world) : Prop := ledger w = b + sum_fp (held w).

Lemma hand_back_inv b w r held' na led w' o :
  hand_back w r held' na led = (w', o) -> led = b + sum_fp held' + fp_opt r -> Inv b w'.
Proof.
  unfold hand_back, Inv. destruct r as [x|]; intros E L; inv E; cbn [ledger held fp_opt] in *.
  - rewrite sum_fp_app, sum_fp_cons. cbn [sum_fp fold_right]. lia.
  - lia.
Qed.

Lemma fresh_inv b w o cost w' r :
  fresh w o cost = Ok (w', r) -> cost = footprint o -> Inv b w -> Inv b w'.
Proof.
  unfold fresh. intros E C I. pose proof (relabel_footprint o (naddr w)) as F.
  destruct (relabel o (naddr w)) as [o' na]. cbn [fst] in F.
  destruct (hand_back w (Some o') (held w) na (ledger w + cost)) as [w1 r1] eqn:H. inv E.
  eapply hand_back_inv; [exact H|]. unfold Inv in I. cbn [fp_opt]. lia.
Qed.

Lemma as_cont_ok o i k a al xs : as_cont o = Ok (i, k, a, al, xs) -> o = OCont i k a al xs.
Proof. destruct o; cbn; intros H; inv H; reflexivity. Qed.

Lemma footprint_cont_split i k a al xs :
  footprint (OCont i k a al xs) = 1 + items_cost k al + node_cost k * Z.of_nat (length xs) + fp_list xs.
Proof. rewrite footprint_cont, fp_items_split. lia. Qed.

Section Ledger.
Variable pcre : option text -> Z -> Z.
Variable flag_table : list (Z * Z).

Lemma give_inv b w c h want f w' r :
  (forall k x xs xs', f k x xs = Ok (Some xs') ->
     fp_list xs' = fp_list xs + footprint x /\ (length xs <= length xs')%nat) ->
  give w c h want f = Ok (w', r) -> Inv b w -> Inv b w'.
Proof.
  intros Hf E I. unfold give in E.
  destruct (get w c) as [co|] eqn:Gc; cbn [bind] in E; [|discriminate].
  destruct (as_cont co) as [[[[[i k] a] al] xs]|] eqn:Ac; cbn [bind] in E; [|discriminate].
  destruct (negb (want i)); [discriminate|].
  destruct (Nat.eqb c h) eqn:Ech; [discriminate|]. apply Nat.eqb_neq in Ech.
  destruct (get w h) as [x|] eqn:Gh; cbn [bind] in E; [|discriminate].
  destruct (negb (storable x)); [discriminate|].
  destruct (f k x xs) as [[xs'|]|] eqn:Ef; cbn [bind] in E; [| |discriminate].
  - inv E. apply as_cont_ok in Ac. subst co. apply get_ok in Gc, Gh.
    destruct (Hf k x xs xs' Ef) as (A & B).
    unfold Inv in *. cbn [ledger held].
    rewrite (sum_fp_put c (OCont i k a al xs)), (sum_fp_drop h x) by (rewrite ?lookup_drop_ne by auto; assumption).
    rewrite !footprint_cont_split, A.
    destruct k; cbn [items_cost node_cost]; destruct al; lia.
  - inv E. exact I.
Qed.

Lemma take_inv b w c want f w' r :
  (forall xs xs' x, f xs = Ok (xs', x, true) ->
     fp_list xs = fp_list xs' + fp_opt x /\ length xs = S (length xs')) ->
  take w c want f = Ok (w', r) -> Inv b w -> Inv b w'.
Proof.
  intros Hf E I. unfold take in E.
  destruct (get w c) as [co|] eqn:Gc; cbn [bind] in E; [|discriminate].
  destruct (as_cont co) as [[[[[i k] a] al] xs]|] eqn:Ac; cbn [bind] in E; [|discriminate].
  destruct (negb (want i)); [discriminate|].
  destruct (f xs) as [[[xs' x] found]|] eqn:Ef; cbn [bind] in E; [|discriminate].
  apply as_cont_ok in Ac. subst co. apply get_ok in Gc.
  destruct found; cbn [negb] in E.
  - destruct (Hf xs xs' x Ef) as (A & B).
    match type of E with Ok ?hb = _ => destruct hb as [w1 r1] eqn:H end. inv E.
    eapply hand_back_inv; [exact H|]. unfold Inv in I.
    rewrite (sum_fp_put c (OCont i k a al xs)) by assumption.
    rewrite !footprint_cont_split, A, B.
    destruct k; cbn [items_cost node_cost].
    + destruct xs' as [|y t]; cbn [length Nat.eqb]; destruct al; cbn [andb negb items_cost]; lia.
    + lia.
    + lia.
  - match type of E with Ok ?hb = _ => destruct hb as [w1 r1] eqn:H end. inv E.
    eapply hand_back_inv; [exact H|]. unfold Inv in I. cbn [fp_opt]. lia.
Qed.

Lemma setter_inv b w p h f w' r :
  (forall po x po' old, f po x = Ok (po', old) -> footprint po' = footprint po + fp_opt x - fp_opt old) ->
  setter w p h f = Ok (w', r) -> Inv b w -> Inv b w'.
Proof.
  intros Hf E I. unfold setter in E.
  destruct (get w p) as [po|] eqn:Gp; cbn [bind] in E; [|discriminate].
  destruct h as [h'|].
  - destruct (Nat.eqb h' p) eqn:Ehp; cbn [bind] in E; [discriminate|]. apply Nat.eqb_neq in Ehp.
    cbn [get_opt] in E. destruct (get w h') as [x|] eqn:Gh; cbn [bind] in E; [|discriminate].
    destruct (negb (storable x)); [discriminate|].
    destruct (f po (Some x)) as [[po' old]|] eqn:Ef; cbn [bind] in E; [|discriminate]. inv E.
    apply get_ok in Gp, Gh. pose proof (Hf po (Some x) po' old Ef) as F. cbn [fp_opt] in F.
    unfold Inv in *. cbn [ledger held].
    rewrite (sum_fp_put p po), (sum_fp_drop h' x) by (rewrite ?lookup_drop_ne by auto; assumption).
    rewrite rel_opt_fp. lia.
  - cbn [bind get_opt] in E. cbn [negb] in E.
    destruct (f po None) as [[po' old]|] eqn:Ef; cbn [bind] in E; [|discriminate]. inv E.
    apply get_ok in Gp. pose proof (Hf po None po' old Ef) as F. cbn [fp_opt] in F.
    unfold Inv in *. cbn [ledger held]. rewrite (sum_fp_put p po) by assumption. rewrite rel_opt_fp. lia.
Qed.

(* copies of a selection *)
Lemma dc_items_arr l : dc_items pcre Arr l = dc_list pcre l.
Proof. induction l as [|x t IH]; [reflexivity|]. cbn [dc_items dc_list node_cost]. fold (dc_items pcre Arr t) (dc_list pcre t). rewrite IH. lia. Qed.
Lemma copy_items_length l : forall l', copy_items pcre l = Ok l' -> length l' = length l.
Proof.
  induction l as [|x t IH]; intros l' E; cbn [copy_items] in E; [now inv E|]. fold (copy_items pcre) in E.
  destruct (copy_opt pcre x); cbn [bind] in E; [|discriminate].
  destruct (copy_items pcre t) as [t'|] eqn:Et; cbn [bind] in E; [|discriminate]. inv E. cbn [length]. now rewrite (IH t' eq_refl).
Qed.
Lemma relabel_items_length l : forall n, length (fst (relabel_items l n)) = length l.
Proof.
  induction l as [|x t IH]; intros n; [reflexivity|]. cbn [relabel_items]. fold relabel_items.
  destruct (relabel_opt x n) as [x' n1]. specialize (IH n1). destruct (relabel_items t n1). cbn [fst length] in *. now rewrite IH.
Qed.
Lemma relabel_items_fp_list l n : fp_list (fst (relabel_items l n)) = fp_list l.
Proof.
  apply relabel_items_fpl. apply Forall_forall. intros [y|] _; cbn [PO]; [|exact I].
  intros m. apply relabel_footprint.
Qed.
Lemma copy_items_fp_list l l' : copy_items pcre l = Ok l' -> dc_list pcre l = fp_list l'.
Proof.
  apply copy_items_fp. apply Forall_forall. intros [y|] _; cbn [PO]; [|exact I].
  intros o' E. now apply copy_footprint.
Qed.

Lemma project_inv b w m dst sel w' r :
  project pcre w m dst sel = Ok (w', r) -> Inv b w -> Inv b w'.
Proof.
  intros E I. unfold project in E.
  destruct (get w m) as [mo|] eqn:Gm; cbn [bind] in E; [|discriminate].
  destruct (as_cont mo) as [[[[[i k] a] al] xs]|] eqn:Ac; cbn [bind] in E; [|discriminate].
  destruct (want_iface i IMap); cbn [bind] in E; [|discriminate].
  match type of E with (x <- ?S ;; _) = _ => destruct S as [sels|] eqn:Es end; cbn [bind] in E; [|discriminate].
  destruct (negb (forallb _ sels)); [discriminate|].
  destruct (copy_items pcre sels) as [picked|] eqn:Ep; cbn [bind] in E; [|discriminate].
  pose proof (copy_items_fp_list sels picked Ep) as Fp. rewrite <- dc_items_arr in Fp.
  destruct dst as [dh|].
  - destruct (Nat.eqb dh m); [discriminate|].
    destruct (get w dh) as [d0|] eqn:Gd; cbn [bind] in E; [|discriminate].
    destruct (as_cont d0) as [[[[[i2 k2] a2] al2] ys]|] eqn:Ad; cbn [bind] in E; [|discriminate].
    destruct (want_iface i2 IList); cbn [bind] in E; [|discriminate].
    pose proof (relabel_items_fp_list picked (naddr w)) as Fr.
    pose proof (relabel_items_length picked (naddr w)) as Lr.
    destruct (relabel_items picked (naddr w)) as [fresh na]. cbn [fst] in Fr, Lr. inv E.
    apply as_cont_ok in Ad. subst d0. apply get_ok in Gd.
    unfold Inv in *. cbn [ledger held]. rewrite (sum_fp_put dh (OCont i2 k2 a2 al2 ys)) by assumption.
    rewrite !footprint_cont_split, fp_list_app, app_length, Fr, Lr, Nat2Z.inj_add.
    destruct k2; cbn [items_cost node_cost].
    + destruct picked as [|q qs]; cbn [length Nat.eqb negb]; destruct al2; cbn [orb andb negb items_cost]; lia.
    + lia.
    + lia.
  - pose proof (relabel_items_fp_list picked (naddr w + 1)) as Fr.
    pose proof (relabel_items_length picked (naddr w + 1)) as Lr.
    destruct (relabel_items picked (naddr w + 1)) as [fresh na]. cbn [fst] in Fr, Lr.
    match type of E with Ok ?hb = _ => destruct hb as [w1 r1] eqn:H end. inv E.
    eapply hand_back_inv; [exact H|]. unfold Inv in I. cbn [fp_opt].
    rewrite footprint_cont_split, Fr, Lr.
    destruct k; cbn [items_cost node_cost]; lia.
Qed.

(* ---- the facts about single classes used below ---- *)
Lemma done_state_fp x : x <> ORaw -> footprint (done_state x) = 1.
Proof.
  destruct x; intros N; try reflexivity; try congruence.
  - cbn [done_state]. rewrite footprint_url, fp_list_nones. reflexivity.
  - cbn [done_state]. rewrite footprint_cont_split. destruct c; cbn; lia.
Qed.
Lemma fp_list_all_none cs :
  forallb (fun x : option obj => match x with None => true | Some _ => false end) cs = true -> fp_list cs = 0.
Proof.
  induction cs as [|x t IH]; [reflexivity|]. cbn [forallb]. destruct x; [discriminate|].
  intros H. rewrite fp_list_cons, (IH H). reflexivity.
Qed.
Lemma empty_state_fp x : is_empty_state x = true -> footprint x = 1 /\ footprint (done_state x) = 1.
Proof.
  intros E. assert (N : x <> ORaw) by (destruct x; cbn in E; congruence).
  split; [|now apply done_state_fp].
  destruct x as [a|s|s|mb|k v|src sep tokens|s comps|s flags data|i c a al items|c s|];
    cbn [is_empty_state] in E; try discriminate; try reflexivity.
  - destruct s; [discriminate|reflexivity].
  - destruct s; [discriminate|reflexivity].
  - destruct mb; [discriminate|reflexivity].
  - destruct k; [discriminate|]. destruct v; [discriminate|reflexivity].
  - destruct src; [discriminate|]. destruct sep; [discriminate|]. destruct tokens; [discriminate|reflexivity].
  - destruct s; [discriminate|]. rewrite footprint_url, (fp_list_all_none comps E). reflexivity.
  - destruct s; [discriminate|]. destruct data; try discriminate. reflexivity.
  - destruct al; [discriminate|]. destruct items; [|discriminate]. rewrite footprint_cont_split. destruct c; cbn; lia.
Qed.

Lemma count_some_fp cs :
  Forall (fun x => fp_opt x = 2 * optb x) cs -> fp_list cs = 2 * count_some cs.
Proof.
  induction 1 as [|x t Hx _ IH]; [reflexivity|].
  rewrite fp_list_cons. unfold count_some in *. cbn [fold_right]. lia.
Qed.
Lemma opt_str_fp o : fp_opt (opt_str o) = 2 * optb (opt_str o).
Proof. destruct o; reflexivity. Qed.
Lemma url_comps_fp s : fp_list (url_comps s) = 2 * count_some (url_comps s).
Proof. apply count_some_fp. unfold url_comps. repeat constructor; apply opt_str_fp. Qed.

Lemma tok_cost_fp a toks0 :
  let toks := map (fun t => Some (tok_obj t)) toks0 in
  footprint (OCont IList DL a false toks) = tok_cost toks.
Proof.
  cbn zeta. rewrite footprint_cont_split. unfold tok_cost. cbn [items_cost node_cost].
  induction toks0 as [|t u IH]; [reflexivity|].
  cbn [map length fold_right]. rewrite fp_list_cons.
  destruct t; cbn [tok_obj fp_opt footprint optb]; lia.
Qed.

Lemma scan_hit_lt ko : forall xs n0 n,
  map_scan ko xs n0 = Ok (Some n) -> (n0 <= n < n0 + length xs)%nat.
Proof.
  induction xs as [|s t IH]; intros n0 n E; [discriminate|]. cbn [map_scan] in E. fold (map_scan ko) in E.
  destruct (comp_elem s ko) as [c|]; cbn [bind] in E; [|discriminate].
  destruct (is_eq c).
  - inv E. cbn [length]. lia.
  - specialize (IH (S n0) n E). cbn [length]. lia.
Qed.

Lemma comp_text_none x : comp_text x = Ok None -> x = None.
Proof. destruct x as [[]|]; cbn; intros H; try discriminate; congruence. Qed.
Lemma comp_text_some x t : comp_text x = Ok (Some t) -> exists y, x = Some y.
Proof. destruct x as [[]|]; cbn; intros H; try discriminate; eauto. Qed.
Lemma url_unparse_fp cs t cs' :
  url_unparse cs = Ok (t, cs') ->
  fp_list cs' = fp_list cs + match nth_comp cs 4, nth_comp cs 3 with Some _, None => 2 | _, _ => 0 end.
Proof.
  unfold url_unparse. intros U.
  destruct (comp_text (nth_comp cs 0)) as [o0|]; cbn [bind] in U; [|discriminate].
  destruct (comp_text (nth_comp cs 1)) as [o1|]; cbn [bind] in U; [|discriminate].
  destruct (comp_text (nth_comp cs 2)) as [o2|]; cbn [bind] in U; [|discriminate].
  destruct (comp_text (nth_comp cs 3)) as [o3|] eqn:E3; cbn [bind] in U; [|discriminate].
  destruct (comp_text (nth_comp cs 4)) as [o4|] eqn:E4; cbn [bind] in U; [|discriminate].
  destruct (comp_text (nth_comp cs 5)) as [o5|]; cbn [bind] in U; [|discriminate].
  destruct (comp_text (nth_comp cs 6)) as [o6|]; cbn [bind] in U; [|discriminate].
  injection U as _ <-.
  destruct o4 as [po|].
  - destruct (comp_text_some _ _ E4) as (y & N4). rewrite N4.
    destruct o3 as [hh|].
    + destruct (comp_text_some _ _ E3) as (z & N3). rewrite N3. lia.
    + pose proof (comp_text_none _ E3) as N3. rewrite N3.
      assert (L : (3 < length cs)%nat).
      { unfold nth_comp in N4. destruct cs as [|c0 [|c1 [|c2 [|c3 [|c4 t4]]]]]; cbn in *; try discriminate; lia. }
      rewrite fp_list_upd by assumption. unfold nth_comp in N3. rewrite N3. cbn [fp_opt str_obj footprint optb]. lia.
  - rewrite (comp_text_none _ E4). destruct o3; lia.
Qed.

Lemma map_set_inv b w m ko vo w' r :
  map_set pcre w m ko vo = Ok (w', r) -> Inv b w -> Inv b w'.
Proof.
  unfold map_set. intros E I.
    destruct (get w m) as [mo|] eqn:Gm; cbn [bind] in E; [|discriminate].
    destruct (as_cont mo) as [[[[[i c] a] al] xs]|] eqn:Ac; cbn [bind] in E; [|discriminate].
    destruct (want_iface i IMap); cbn [bind] in E; [|discriminate].
    match type of E with (if ?c then _ else _) = _ => destruct c end; [discriminate|].
    destruct (map_scan ko xs O) as [hit|] eqn:Hit; cbn [bind] in E; [|discriminate].
    destruct (copy pcre vo) as [v'|] eqn:Cv; cbn [bind] in E; [|discriminate].
    apply as_cont_ok in Ac. subst mo. apply get_ok in Gm.
    pose proof (copy_footprint pcre vo v' Cv) as Fv.
    destruct hit as [n|].
    + apply scan_hit_lt in Hit. destruct (nth n xs None) as [[]|] eqn:Nn; try discriminate.
      pose proof (relabel_footprint v' (naddr w)) as Fr. destruct (relabel v' (naddr w)) as [v2 na]. cbn [fst] in Fr.
      inv E. unfold Inv in *. cbn [ledger held]. erewrite sum_fp_put by eassumption.
      rewrite !footprint_cont_split, fp_list_upd, upd_length', Nn by lia.
      cbn [fp_opt]. rewrite !footprint_pair, rel_opt_fp. cbn [fp_opt]. lia.
    + destruct (copy pcre ko) as [k'|] eqn:Ck; cbn [bind] in E; [|discriminate].
      pose proof (copy_footprint pcre ko k' Ck) as Fk.
      pose proof (relabel_footprint (OPair (Some k') (Some v')) (naddr w)) as Fr.
      destruct (relabel (OPair (Some k') (Some v')) (naddr w)) as [pr na]. cbn [fst] in Fr.
      destruct (c_insert c pr xs) as [xs'|] eqn:Ci; cbn [bind] in E; [|discriminate]. inv E.
      destruct (c_insert_fp c pr xs xs' Ci) as (A & B).
      unfold Inv in *. cbn [ledger held]. erewrite sum_fp_put by eassumption.
      rewrite !footprint_cont_split, A, B, Fr, footprint_pair. cbn [fp_opt].
      destruct c; cbn [items_cost node_cost]; destruct al; lia.
Qed.

Lemma app_text_fp s t s' d : app_text s t = (s', d) -> optb s' = optb s + d.
Proof. unfold app_text. destruct t; intros E; inv E; [lia|]. destruct s; cbn [optb]; lia. Qed.
Lemma member_app_fp m t m' d : member_app m t = Ok (m', d) -> fp_opt m' = fp_opt m + d.
Proof.
  unfold member_app. destruct m as [[]|]; try discriminate;
    (destruct (app_text _ t) as [s' d'] eqn:A; intros E; inv E; apply app_text_fp in A; cbn [fp_opt footprint]; lia).
Qed.

Theorem step_inv b w op w' r :
  step pcre flag_table w op = Ok (w', r) -> Inv b w -> Inv b w'.
Proof.
  intros E I. destruct op; cbn [step] in E.
  - (* NewObj *) eapply fresh_inv; eauto.
  - eapply fresh_inv; eauto.
  - eapply fresh_inv; eauto.
  - eapply fresh_inv; eauto.
  - (* NewPair *)
    destruct (get_opt w k) as [ko|] eqn:Gk; cbn [bind] in E; [|discriminate].
    destruct (get_opt w v) as [vo|] eqn:Gv; cbn [bind] in E; [|discriminate].
    match type of E with (if ?c then _ else _) = _ => destruct c end; [discriminate|].
    destruct (copy_opt pcre ko) as [k'|] eqn:Ck; cbn [bind] in E; [|discriminate].
    destruct (copy_opt pcre vo) as [v'|] eqn:Cv; cbn [bind] in E; [|discriminate].
    eapply fresh_inv; [exact E| |exact I]. rewrite footprint_pair.
    assert (A : forall x x', copy_opt pcre x = Ok x' -> dc_opt pcre x = fp_opt x').
    { intros [y|] x' H; cbn [copy_opt] in H.
      - destruct (copy pcre y) eqn:Cy; cbn [bind] in H; [|discriminate]. inv H. cbn. now apply copy_footprint.
      - inv H. reflexivity. }
    rewrite (A ko k' Ck), (A vo v' Cv). reflexivity.
  - (* NewTok *) eapply fresh_inv; [exact E| |exact I]. destruct t; reflexivity.
  - (* NewUrl *) destruct t as [s|].
    + eapply fresh_inv; [exact E| |exact I]. rewrite footprint_url, url_comps_fp. cbn [optb]. lia.
    + eapply fresh_inv; [exact E| |exact I]. reflexivity.
  - (* NewRegexp *) destruct t as [s|]; (eapply fresh_inv; [exact E| |exact I]); cbn [footprint optb]; lia.
  - (* NewCont *) eapply fresh_inv; [exact E| |exact I]. rewrite footprint_cont_split. destruct c; cbn; lia.
  - (* Dup *)
    destruct (get w h) as [x|] eqn:G; cbn [bind] in E; [|discriminate].
    match type of E with (_ <- ?g ;; _) = _ => destruct g end; cbn [bind] in E; [|discriminate].
    destruct (copy pcre x) as [y|] eqn:C; cbn [bind] in E; [|discriminate].
    eapply fresh_inv; [exact E| |exact I]. now apply copy_footprint.
  - (* Done *)
    destruct (get w h) as [x|] eqn:G; cbn [bind] in E; [|discriminate]. apply get_ok in G.
    assert (N : x <> ORaw) by (destruct x; congruence).
    assert (E' : Ok (mkWorld (put h (done_state x) (held w)) (next w) (naddr w) (ledger w - (release x - 1)), RBool true) = Ok (w', r))
      by (destruct x; congruence).
    inv E'. unfold Inv in *. cbn [ledger held]. rewrite (sum_fp_put h x) by assumption.
    rewrite (done_state_fp x N), release_is_footprint. lia.
  - (* Init *)
    destruct (get w h) as [x|] eqn:G; cbn [bind] in E; [|discriminate]. apply get_ok in G.
    destruct (is_empty_state x) eqn:Em; [|destruct x; discriminate].
    destruct (empty_state_fp x Em) as (A & B).
    assert (E' : Ok (mkWorld (put h (done_state x) (held w)) (next w) (naddr w) (ledger w), RBool true) = Ok (w', r))
      by (destruct x; try discriminate; exact E).
    inv E'. unfold Inv in *. cbn [ledger held]. rewrite (sum_fp_put h x) by assumption. lia.
  - (* Del *)
    destruct (get w h) as [x|] eqn:G; cbn [bind] in E; [|discriminate]. apply get_ok in G. inv E.
    unfold Inv in *. cbn [ledger held]. rewrite (sum_fp_drop h x) by assumption. rewrite release_is_footprint. lia.
  - (* Comp *)
    destruct (get_opt w a) as [x|]; cbn [bind] in E; [|discriminate].
    destruct (get_opt w b0) as [y|]; cbn [bind] in E; [|discriminate].
    match type of E with (if ?c then _ else _) = _ => destruct c end; [discriminate|].
    destruct (comp_opt x y); cbn [bind] in E; [|discriminate]. inv E. exact I.
  - (* TypeOf *) destruct (get w h) as [x|]; cbn [bind] in E; [|discriminate]. destruct x; inv E; exact I.
  - (* Dump *) destruct (get w h) as [x|]; cbn [bind] in E; [|discriminate]. inv E. exact I.
  - (* DumpAll *) inv E. exact I.
  - (* DelAll *) inv E. unfold Inv in *. cbn [ledger held]. rewrite release_all. cbn. lia.
  - (* Append *)
    destruct (get w h) as [x|] eqn:G; cbn [bind] in E; [|discriminate]. apply get_ok in G.
    destruct x as [a|s|s|s|? ?|? ? ?|? ?|? ? ?|? ? ? ? ?|? ?|]; try discriminate;
      (destruct t as [|c0 t0]; cbv beta iota zeta in E; inv E; unfold Inv in *; cbn [ledger held];
       erewrite sum_fp_put by eassumption; cbn [footprint optb]; destruct s; cbn [optb]; lia).
  - (* Substr *)
    destruct (get w h) as [x|] eqn:G; cbn [bind] in E; [|discriminate].
    destruct x; try discriminate;
      (match type of E with match ?s with _ => _ end = _ => destruct s end;
       [eapply fresh_inv; [exact E|reflexivity|exact I]
       |match type of E with Ok ?hb = _ => destruct hb as [w1 r1] eqn:H end; inv E;
        eapply hand_back_inv; [exact H|]; unfold Inv in I; cbn [fp_opt]; lia]).
  - (* SetKey *)
    eapply setter_inv; [|exact E|exact I]. intros po x po' old F; cbv beta in F. destruct po; try discriminate. inv F.
    rewrite !footprint_pair. lia.
  - eapply setter_inv; [|exact E|exact I]. intros po x po' old F; cbv beta in F. destruct po; try discriminate. inv F.
    rewrite !footprint_pair. lia.
  - (* TokEval *)
    destruct (get w t) as [x|] eqn:G; cbn [bind] in E; [|discriminate]. apply get_ok in G.
    destruct x; try discriminate. destruct src as [[]|]; try discriminate.
    + match type of E with (x <- ?S ;; _) = _ => destruct S as [sepo|] end; cbn [bind] in E; [|discriminate].
      inv E. unfold Inv in *. cbn [ledger held]. erewrite sum_fp_put by eassumption.
      rewrite !footprint_tok. cbn [fp_opt]. unfold tok_tokens. rewrite tok_cost_fp, rel_opt_fp. lia.
    + inv E. exact I.
  - (* TokSetSrc *)
    eapply setter_inv; [|exact E|exact I]. intros po x po' old F; cbv beta in F.
    destruct po; try discriminate. destruct x as [[]|]; try discriminate; inv F; rewrite !footprint_tok; cbn [fp_opt]; lia.
  - eapply setter_inv; [|exact E|exact I]. intros po x po' old F; cbv beta in F.
    destruct po; try discriminate. destruct x as [[]|]; try discriminate; inv F; rewrite !footprint_tok; cbn [fp_opt]; lia.
  - (* UrlSet *)
    eapply setter_inv; [|exact E|exact I]. intros po x po' old F; cbv beta in F.
    destruct po; try discriminate.
    destruct x as [[]|]; try discriminate;
      (destruct (field <? length comps)%nat eqn:L; [|discriminate]; apply Nat.ltb_lt in L; inv F;
       rewrite !footprint_url, fp_list_upd by assumption; unfold nth_comp; cbn [fp_opt]; lia).
  - (* UrlUnparse *)
    destruct (get w u) as [x|] eqn:G; cbn [bind] in E; [|discriminate]. apply get_ok in G.
    destruct x as [?|?|?|?|? ?|? ? ?|s comps|? ? ?|? ? ? ? ?|? ?|]; try discriminate.
    destruct (url_unparse comps) as [[t cs']|] eqn:U; cbn [bind] in E; [|discriminate]. inv E.
    unfold Inv in *. cbn [ledger held]. erewrite sum_fp_put by eassumption. rewrite !footprint_url.
    rewrite (url_unparse_fp comps t cs' U). cbn [optb]. lia.
  - (* ReSetFlags *)
    destruct (get w r0) as [x|] eqn:G; cbn [bind] in E; [|discriminate]. apply get_ok in G.
    destruct x; try discriminate. inv E. unfold Inv in *. cbn [ledger held].
    erewrite sum_fp_put by eassumption. cbn [footprint]. lia.
  - destruct (get w r0) as [x|] eqn:G; cbn [bind] in E; [|discriminate]. apply get_ok in G.
    destruct x; try discriminate. inv E. unfold Inv in *. cbn [ledger held].
    erewrite sum_fp_put by eassumption. cbn [footprint]. lia.
  - (* LAppend *)
    eapply give_inv; [|exact E|exact I]. intros k x xs xs' F; cbv beta in F. inv F.
    rewrite fp_list_app, app_length. cbn. split; lia.
  - eapply give_inv; [|exact E|exact I]. intros k x xs xs' F; cbv beta in F. inv F.
    rewrite fp_list_cons. cbn. split; lia.
  - eapply give_inv; [|exact E|exact I]. intros k x xs xs' F; cbv beta in F.
    destruct (c_insert k x xs) as [xs1|] eqn:Ci; cbn [bind] in F; [|discriminate]. inv F.
    destruct (c_insert_fp k x xs xs' Ci). split; [assumption|lia].
  - eapply give_inv; [|exact E|exact I]. intros k x xs xs' F; cbv beta in F.
    destruct (norm_idx (llen xs) idx <? 0); [discriminate|]. inv F.
    destruct (ins_at_fp x (Z.to_nat (norm_idx (llen xs) idx)) xs). split; [assumption|lia].
  - (* LRemove *)
    destruct (get w p) as [po|]; cbn [bind] in E; [|discriminate].
    eapply take_inv; [|exact E|exact I]. intros xs xs' x F; cbv beta in F.
    destruct (rem_first po xs) as [[xs1 r1]|] eqn:R; cbn [bind] in F; [|discriminate].
    pose proof (rem_first_fp po xs xs1 r1 R) as P. destruct r1; inv F. cbn [fp_opt]. tauto.
  - (* LRemoveAt *)
    eapply take_inv; [|exact E|exact I]. intros xs xs' x F; cbv beta in F.
    destruct (in_range xs idx) as [n|] eqn:R; [|discriminate]. inv F.
    destruct (rem_nth_fp n xs (in_range_lt xs idx n R)) as (A & B & _). tauto.
  - (* LReverse *)
    destruct (get w c) as [co|] eqn:G; cbn [bind] in E; [|discriminate]. apply get_ok in G.
    destruct (as_cont co) as [[[[[i k] a] al] xs]|] eqn:Ac; cbn [bind] in E; [|discriminate].
    destruct (want_iface i IList); cbn [bind] in E; [|discriminate]. inv E.
    apply as_cont_ok in Ac. subst co. unfold Inv in *. cbn [ledger held].
    erewrite sum_fp_put by eassumption. rewrite !footprint_cont_split, fp_list_rev, rev_length. lia.
  - (* VInsert *)
    eapply give_inv; [|exact E|exact I]. intros k x xs xs' F; cbv beta in F.
    destruct (c_insert k x xs) as [xs1|] eqn:Ci; cbn [bind] in F; [|discriminate]. inv F.
    destruct (c_insert_fp k x xs xs' Ci). split; [assumption|lia].
  - (* VRemove *)
    destruct (get w p) as [po|]; cbn [bind] in E; [|discriminate].
    eapply take_inv; [|exact E|exact I]. intros xs xs' x F; cbv beta in F.
    destruct (rem_first po xs) as [[xs1 r1]|] eqn:R; cbn [bind] in F; [|discriminate].
    pose proof (rem_first_fp po xs xs1 r1 R) as P. destruct r1; inv F. cbn [fp_opt]. tauto.
  - (* MSet *)
    destruct (get w m) as [mo|]; cbn [bind] in E; [|discriminate].
    destruct (get w k) as [ko|]; cbn [bind] in E; [|discriminate].
    destruct (get w v) as [vo|]; cbn [bind] in E; [|discriminate].
    match type of E with (if ?c then _ else _) = _ => destruct c end; [discriminate|].
    eapply map_set_inv; eauto.
  - (* MSetPair *)
    destruct (get w m) as [mo|]; cbn [bind] in E; [|discriminate].
    destruct (get w p) as [po|]; cbn [bind] in E; [|discriminate].
    match type of E with (if ?c then _ else _) = _ => destruct c end; [discriminate|].
    destruct po as [| | | |[pk|] [pv|]| | | | | |]; try discriminate.
    eapply map_set_inv; eauto.
  - (* MSetOwn *)
    destruct (get w m) as [mo|]; cbn [bind] in E; [|discriminate].
    destruct (get w k) as [ko|]; cbn [bind] in E; [|discriminate].
    destruct (as_cont mo) as [[[[[i c] a] al] xs]|]; cbn [bind] in E; [|discriminate].
    destruct (want_iface i IMap); cbn [bind] in E; [|discriminate].
    match type of E with (if ?c then _ else _) = _ => destruct c end; [discriminate|].
    destruct (map_scan ko xs O) as [[n|]|]; cbn [bind] in E; [| |discriminate].
    + destruct (nth n xs None) as [[| | | |[pk|] [pv|]| | | | | |]|]; try discriminate.
      eapply map_set_inv; eauto.
    + inv E. exact I.
  - (* MRemove *)
    destruct (get w k) as [ko|]; cbn [bind] in E; [|discriminate].
    eapply take_inv; [|exact E|exact I]. intros xs xs' x F; cbv beta in F.
    destruct (mrem_first ko xs) as [[xs1 r1]|] eqn:R; cbn [bind] in F; [|discriminate].
    pose proof (mrem_first_fp ko xs xs1 r1 R) as P. destruct r1; inv F. cbn [fp_opt]. tauto.
  - eapply project_inv; eauto.
  - eapply project_inv; eauto.
  - eapply project_inv; eauto.
  - (* ToArray *)
    destruct (get w c) as [co|]; cbn [bind] in E; [|discriminate].
    destruct (as_cont co); cbn [bind] in E; [|discriminate].
    match type of E with Ok ?hb = _ => destruct hb as [w1 r1] eqn:H end. inv E.
    eapply hand_back_inv; [exact H|]. unfold Inv in I. cbn [fp_opt footprint]. lia.
  - destruct (get w c) as [co|]; cbn [bind] in E; [|discriminate].
    destruct (as_cont co) as [[[[[i k] a] al] xs]|]; cbn [bind] in E; [|discriminate].
    match type of E with Ok ?hb = _ => destruct hb as [w1 r1] eqn:H end. inv E.
    eapply hand_back_inv; [exact H|]. unfold Inv in I. cbn [fp_opt footprint]. lia.
  - (* Query *)
    destruct (get w c) as [co|]; cbn [bind] in E; [|discriminate].
    destruct (get w h) as [po|]; cbn [bind] in E; [|discriminate].
    destruct (as_cont co) as [[[[[i k] a] al] xs]|]; cbn [bind] in E; [|discriminate].
    match type of E with (if ?c then _ else _) = _ => destruct c end; [discriminate|].
    destruct (query_walk i po xs); inv E. exact I.
  - (* TokSetChar *)
    destruct (get w t) as [x|] eqn:G; cbn [bind] in E; [|discriminate]. apply get_ok in G.
    match type of E with (if ?c then _ else _) = _ => destruct c end; [discriminate|].
    destruct x; try discriminate. destruct which as [|[|[|?]]]; try discriminate;
      (inv E; unfold Inv in *; cbn [ledger held]; erewrite sum_fp_put by eassumption; rewrite !footprint_tok; lia).
  - (* TokSetTokens *)
    eapply setter_inv; [|exact E|exact I]. intros po x po' old F; cbv beta in F.
    destruct po; try discriminate.
    destruct x as [[| | | | | | | |[] ? ? ? ?| |]|]; try discriminate; inv F; rewrite !footprint_tok; cbn [fp_opt]; lia.
  - (* TokListRemoveAt *)
    destruct (get w t) as [x|] eqn:G; cbn [bind] in E; [|discriminate]. apply get_ok in G.
    destruct x as [| | | | |a0 b0 [[| | | | | | | |[] k ad al xs| |]|] ch| | | | |]; try discriminate.
    destruct (in_range xs idx) as [n|] eqn:R.
    + match type of E with Ok ?hb = _ => destruct hb as [w1 r1] eqn:H end. inv E.
      eapply hand_back_inv; [exact H|]. unfold Inv in I.
      destruct (rem_nth_fp n xs (in_range_lt xs idx n R)) as (A & B & _).
      erewrite sum_fp_put by eassumption. rewrite !footprint_tok. cbn [fp_opt].
      rewrite !footprint_cont_split, A, B.
      destruct k; cbn [items_cost node_cost].
      * destruct (rem_nth n xs) as [|y u]; cbn [length Nat.eqb]; destruct al; cbn [andb negb items_cost]; lia.
      * lia.
      * lia.
    + match type of E with Ok ?hb = _ => destruct hb as [w1 r1] eqn:H end. inv E.
      eapply hand_back_inv; [exact H|]. unfold Inv in I. cbn [fp_opt]. lia.
  - (* TokListAppend *)
    destruct (get w t) as [x|] eqn:G; cbn [bind] in E; [|discriminate]. apply get_ok in G.
    destruct (Nat.eqb t h) eqn:Eth; [discriminate|]. apply Nat.eqb_neq in Eth.
    destruct (get w h) as [y|] eqn:Gh; cbn [bind] in E; [|discriminate]. apply get_ok in Gh.
    destruct (negb (storable y)); [discriminate|].
    destruct x as [| | | | |a0 b0 [[| | | | | | | |[] k ad al xs| |]|] ch| | | | |]; try discriminate. inv E.
    unfold Inv in *. cbn [ledger held].
    rewrite (sum_fp_put t (OTok a0 b0 (Some (OCont IList k ad al xs)) ch)), (sum_fp_drop h y)
      by (rewrite ?lookup_drop_ne by auto; assumption).
    rewrite !footprint_tok. cbn [fp_opt]. rewrite !footprint_cont_split, fp_list_app, app_length, fp_list_cons.
    cbn [length fp_list fp_opt]. destruct k; cbn [items_cost node_cost]; destruct al; lia.
  - (* MemberAppend *)
    destruct (get w h) as [x|] eqn:G; cbn [bind] in E; [|discriminate]. apply get_ok in G.
    destruct x as [| | | |pk pv|a0 b0 l0 ch|us cs| | | |]; try discriminate.
    + destruct sel as [|[|?]]; try discriminate;
        (match type of E with (x <- ?M ;; _) = _ => destruct M as [[m' d]|] eqn:Em end; cbn [bind] in E; [|discriminate];
         inv E; apply member_app_fp in Em; unfold Inv in *; cbn [ledger held]; erewrite sum_fp_put by eassumption;
         rewrite !footprint_pair; lia).
    + destruct sel as [|[|?]]; try discriminate;
        (match type of E with (x <- ?M ;; _) = _ => destruct M as [[m' d]|] eqn:Em end; cbn [bind] in E; [|discriminate];
         inv E; apply member_app_fp in Em; unfold Inv in *; cbn [ledger held]; erewrite sum_fp_put by eassumption;
         rewrite !footprint_tok; lia).
    + destruct (sel <? length cs)%nat eqn:L; [|discriminate]. apply Nat.ltb_lt in L.
      destruct (member_app (nth_comp cs sel) t) as [[m' d]|] eqn:Em; cbn [bind] in E; [|discriminate].
      inv E. apply member_app_fp in Em. unfold Inv in *. cbn [ledger held]. erewrite sum_fp_put by eassumption.
      rewrite !footprint_url, fp_list_upd by assumption. unfold nth_comp in Em. lia.
  - (* SetLen *)
    destruct (get w h) as [x|] eqn:G; cbn [bind] in E; [|discriminate]. apply get_ok in G.
    destruct (k <? 0).
    + destruct x; try discriminate; inv E; exact I.
    + destruct x as [| | |mb| | | | | | |]; try discriminate.
      match type of E with (if ?c then _ else _) = _ => destruct c end; [discriminate|]. inv E.
      unfold Inv in *. cbn [ledger held]. erewrite sum_fp_put by eassumption.
      destruct mb; cbn [footprint optb]; lia.
  - (* NewFromStream *)
    destruct (stream_text c v k content pos) as [[bo|]|]; cbn [bind] in E; [| |discriminate].
    + eapply fresh_inv; [exact E|reflexivity|exact I].
    + match type of E with Ok ?hb = _ => destruct hb as [w1 r1] eqn:H end. inv E.
      eapply hand_back_inv; [exact H|]. unfold Inv in I. cbn [fp_opt]. lia.
Qed.

(* ---- programs ---- *)
Theorem run_inv b : forall p w w' outs,
  run pcre flag_table w p = Ok (w', outs) -> Inv b w -> Inv b w'.
Proof.
  induction p as [|o t IH]; intros w w' outs E I; cbn [run] in E.
  - inv E. exact I.
  - destruct (step pcre flag_table w o) as [[w1 r]|] eqn:S; cbn [bind] in E; [|discriminate].
    destruct (run pcre flag_table w1 t) as [[w2 rs]|] eqn:R; cbn [bind] in E; [|discriminate]. inv E.
    eapply IH; [exact R|]. eapply step_inv; eauto.
Qed.

Lemma inv_w0 : Inv 0 w0.
Proof. reflexivity. Qed.

(* balance: a program that ends holding nothing leaves the heap as it found it *)
Theorem balance : forall p w w' outs,
  run pcre flag_table w p = Ok (w', outs) -> held w = [] -> held w' = [] -> ledger w' = ledger w.
Proof.
  intros p w w' outs E H0 H1.
  assert (I : Inv (ledger w) w) by (unfold Inv; rewrite H0; cbn; lia).
  pose proof (run_inv (ledger w) p w w' outs E I) as I'. unfold Inv in I'. rewrite H1 in I'. cbn in I'. lia.
Qed.
End Ledger.
