(* Own/CompProofs.v - comp is a consistent order: reflexive, antisymmetric, transitive wherever it
   is defined; NULL below every object; equal-prefix texts of different length are not equal;
   defined on all objects of one comparison type.  comp is a structural Fixpoint: it terminates by
   construction (there is no fuel and hence no Out_of_fuel case). *)
From LV Require Export Own.ObjInd.
Local Open Scope Z_scope.

Ltac inv H := inversion H; subst; clear H.

(* ---- the consistency relation between three comparison results a?b, b?c, a?c ---- *)
Definition tr (r1 r2 r3 : cmp) : Prop :=
  (r1 = CEq -> r3 = r2) /\ (r2 = CEq -> r3 = r1) /\
  (r1 = CLt -> r2 = CLt -> r3 = CLt) /\ (r1 = CGt -> r2 = CGt -> r3 = CGt).

Lemma tr_le r1 r2 r3 : tr r1 r2 r3 -> r1 <> CGt -> r2 <> CGt -> r3 <> CGt.
Proof. intros (A & B & C & D) H1 H2. destruct r1, r2; try congruence; intuition congruence. Qed.
Lemma tr_eq r1 r2 r3 : tr r1 r2 r3 -> r1 = CEq -> r2 = CEq -> r3 = CEq.
Proof. intros (A & B & C & D) H1 H2. rewrite (A H1). exact H2. Qed.

(* ---- texts ---- *)
Lemma text_cmp_refl a : text_cmp a a = CEq.
Proof. induction a as [|x t IH]; [reflexivity|]. cbn. rewrite Z.ltb_irrefl. exact IH. Qed.
Lemma text_cmp_antisym a : forall b, text_cmp b a = opp (text_cmp a b).
Proof.
  induction a as [|x t IH]; intros [|y u]; try reflexivity. cbn.
  destruct (x <? y) eqn:E1, (y <? x) eqn:E2; try reflexivity.
  - apply Z.ltb_lt in E1, E2. lia.
  - apply IH.
Qed.
Lemma text_cmp_eq a : forall b, text_cmp a b = CEq -> a = b.
Proof.
  induction a as [|x t IH]; intros [|y u] H; try reflexivity; try discriminate.
  cbn in H. destruct (x <? y) eqn:E1; [discriminate|]. destruct (y <? x) eqn:E2; [discriminate|].
  apply Z.ltb_ge in E1, E2. f_equal; [lia|]. now apply IH.
Qed.
Lemma text_cmp_tr a : forall b c, tr (text_cmp a b) (text_cmp b c) (text_cmp a c).
Proof.
  induction a as [|x t IH]; intros [|y u] [|z v]; cbn; try (unfold tr; intuition congruence).
  destruct (x <? y) eqn:E1, (y <? x) eqn:E2, (y <? z) eqn:E3, (z <? y) eqn:E4, (x <? z) eqn:E5, (z <? x) eqn:E6;
    rewrite ?Z.ltb_lt, ?Z.ltb_ge in *; try lia; try (unfold tr; intuition congruence).
  apply IH.
Qed.
(* a proper prefix sorts first: equal-prefix buffers of different length are not equal *)
Lemma text_cmp_prefix a c t : text_cmp a (a ++ c :: t) = CLt.
Proof. induction a as [|x u IH]; [reflexivity|]. cbn. rewrite Z.ltb_irrefl. exact IH. Qed.

Lemma addr_cmp_refl a : addr_cmp a a = CEq.
Proof. unfold addr_cmp. now rewrite Z.ltb_irrefl. Qed.
Lemma addr_cmp_antisym a b : addr_cmp b a = opp (addr_cmp a b).
Proof.
  unfold addr_cmp. destruct (a <? b) eqn:E1, (b <? a) eqn:E2; try reflexivity.
  apply Z.ltb_lt in E1, E2. lia.
Qed.
Lemma addr_cmp_tr a b c : tr (addr_cmp a b) (addr_cmp b c) (addr_cmp a c).
Proof.
  unfold addr_cmp.
  destruct (a <? b) eqn:E1, (b <? a) eqn:E2, (b <? c) eqn:E3, (c <? b) eqn:E4, (a <? c) eqn:E5, (c <? a) eqn:E6;
    rewrite ?Z.ltb_lt, ?Z.ltb_ge in *; try lia; unfold tr; intuition congruence.
Qed.

(* ---- unfolding of comp ---- *)
Definition comp_items : list (option obj) -> list (option obj) -> res cmp :=
  fix go (l1 l2 : list (option obj)) {struct l1} : res cmp :=
    match l1, l2 with
    | [], [] => Ok CEq
    | [], _ :: _ => Ok CLt
    | _ :: _, [] => Ok CGt
    | x :: t1, y :: t2 => c <- comp_opt x y ;; match c with CEq => go t1 t2 | _ => Ok c end
    end.
Lemma comp_arr i1 a1 al1 xs i2 a2 al2 ys :
  comp (OCont i1 Arr a1 al1 xs) (OCont i2 Arr a2 al2 ys) = comp_items xs ys.
Proof. reflexivity. Qed.
Lemma comp_pair_pair k v k2 v2 : comp (OPair k v) (OPair k2 v2) = comp_opt k k2.
Proof. reflexivity. Qed.
Lemma comp_pair_other k v b :
  match b with OPair _ _ => False | _ => True end -> comp (OPair k v) b = comp_opt k (Some b).
Proof. destruct b; intros H; try reflexivity. destruct H. Qed.
Lemma comp_tok s1 p1 t1 c1 s2 p2 t2 c2 : comp (OTok s1 p1 t1 c1) (OTok s2 p2 t2 c2) = comp_opt s1 s2.
Proof. reflexivity. Qed.

(* ---- NULL is below every object ---- *)
Lemma comp_null_below x : comp_opt None (Some x) = Ok CLt /\ comp_opt (Some x) None = Ok CGt.
Proof. split; reflexivity. Qed.
Lemma comp_null_null : comp_opt None None = Ok CEq.
Proof. reflexivity. Qed.

(* ---- reflexivity ---- *)
Definition refl_P (o : obj) : Prop := forall r, comp o o = Ok r -> r = CEq.
Lemma comp_opt_refl x r : PO refl_P x -> comp_opt x x = Ok r -> r = CEq.
Proof. destruct x as [y|]; cbn [PO comp_opt]; intros H E; [now apply H|now inv E]. Qed.
Lemma comp_items_refl l : forall r, Forall (PO refl_P) l -> comp_items l l = Ok r -> r = CEq.
Proof.
  induction l as [|x t IH]; intros r H E; [now inv E|].
  pose proof (Forall_inv H) as Hx. pose proof (Forall_inv_tail H) as Ht.
  cbn [comp_items] in E. fold comp_items in E.
  destruct (comp_opt x x) as [c|] eqn:Ex; cbn [bind] in E; [|discriminate].
  rewrite (comp_opt_refl x c Hx Ex) in E. now apply IH.
Qed.
Theorem comp_refl : forall o r, comp o o = Ok r -> r = CEq.
Proof.
  induction o using obj_ind2; intros r E; try (cbn in E; inv E; try apply addr_cmp_refl; try apply text_cmp_refl; fail);
    try discriminate.
  - rewrite comp_pair_pair in E. now apply (comp_opt_refl k).
  - rewrite comp_tok in E. now apply (comp_opt_refl a).
  - destruct c.
    + rewrite comp_arr in E. now apply (comp_items_refl items).
    + cbn in E. inv E. apply addr_cmp_refl.
    + cbn in E. inv E. apply addr_cmp_refl.
Qed.

(* ---- antisymmetry ---- *)
Definition anti_P (o : obj) : Prop := forall b r r', comp o b = Ok r -> comp b o = Ok r' -> r' = opp r.
Lemma comp_opt_anti x y r r' : PO anti_P x -> comp_opt x y = Ok r -> comp_opt y x = Ok r' -> r' = opp r.
Proof.
  destruct x as [a|], y as [b|]; cbn [PO comp_opt]; intros H E1 E2; try (inv E1; inv E2; reflexivity).
  exact (H b r r' E1 E2).
Qed.
Lemma comp_items_anti l1 : forall l2 r r',
  Forall (PO anti_P) l1 -> comp_items l1 l2 = Ok r -> comp_items l2 l1 = Ok r' -> r' = opp r.
Proof.
  induction l1 as [|x t IH]; intros [|y u] r r' H E1 E2; try (inv E1; inv E2; reflexivity).
  pose proof (Forall_inv H) as Hx. pose proof (Forall_inv_tail H) as Ht.
  cbn [comp_items] in E1, E2. fold comp_items in E1, E2.
  destruct (comp_opt x y) as [c|] eqn:Ex; cbn [bind] in E1; [|discriminate].
  destruct (comp_opt y x) as [c'|] eqn:Ey; cbn [bind] in E2; [|discriminate].
  pose proof (comp_opt_anti x y c c' Hx Ex Ey) as Hc. subst c'.
  destruct c; cbn [opp] in E2; try (inv E1; inv E2; reflexivity).
  exact (IH u r r' Ht E1 E2).
Qed.
Theorem comp_antisym : forall a b r r', comp a b = Ok r -> comp b a = Ok r' -> r' = opp r.
Proof.
  induction a using obj_ind2; intros ob r r' E1 E2.
  - destruct ob; try discriminate. cbn in E1, E2. inv E1. inv E2. apply addr_cmp_antisym.
  - destruct ob; try discriminate. cbn in E1, E2. inv E1. inv E2. apply text_cmp_antisym.
  - destruct ob; try discriminate. cbn in E1, E2. inv E1. inv E2. apply text_cmp_antisym.
  - destruct ob; try discriminate. cbn in E1, E2. inv E1. inv E2. apply text_cmp_antisym.
  - destruct ob; try (cbn in E2; discriminate); try (destruct c; discriminate).
    rewrite comp_pair_pair in E1, E2. exact (comp_opt_anti k k0 r r' H E1 E2).
  - destruct ob; try discriminate. rewrite comp_tok in E1, E2. exact (comp_opt_anti a src r r' H E1 E2).
  - destruct ob; try discriminate. cbn in E1, E2. inv E1. inv E2. apply text_cmp_antisym.
  - destruct ob; try discriminate. cbn in E1, E2. inv E1. inv E2. apply text_cmp_antisym.
  - destruct ob; try (destruct c; discriminate).
    destruct c, c0; try discriminate.
    + rewrite comp_arr in E1, E2. exact (comp_items_anti items items0 r r' H E1 E2).
    + cbn in E1, E2. inv E1. inv E2. apply addr_cmp_antisym.
    + cbn in E1, E2. inv E1. inv E2. apply addr_cmp_antisym.
  - discriminate.
  - discriminate.
Qed.

(* ---- transitivity ---- *)
Definition tr_P (o : obj) : Prop :=
  forall b c r1 r2 r3, comp o b = Ok r1 -> comp b c = Ok r2 -> comp o c = Ok r3 -> tr r1 r2 r3.
Lemma comp_opt_tr x y z r1 r2 r3 :
  PO tr_P x -> comp_opt x y = Ok r1 -> comp_opt y z = Ok r2 -> comp_opt x z = Ok r3 -> tr r1 r2 r3.
Proof.
  destruct x as [a|], y as [b|], z as [c|]; cbn [PO comp_opt]; intros H E1 E2 E3;
    try (inv E1; try inv E2; try inv E3; unfold tr; intuition congruence).
  exact (H b c r1 r2 r3 E1 E2 E3).
Qed.
Lemma comp_items_tr l1 : forall l2 l3 r1 r2 r3,
  Forall (PO tr_P) l1 -> comp_items l1 l2 = Ok r1 -> comp_items l2 l3 = Ok r2 -> comp_items l1 l3 = Ok r3 ->
  tr r1 r2 r3.
Proof.
  induction l1 as [|x t IH]; intros [|y u] [|z v] r1 r2 r3 H E1 E2 E3;
    try (inv E1; inv E2; inv E3; unfold tr; intuition congruence).
  pose proof (Forall_inv H) as Hx. pose proof (Forall_inv_tail H) as Ht.
  { cbn [comp_items] in E1, E2, E3. fold comp_items in E1, E2, E3.
    destruct (comp_opt x y) as [c1|] eqn:X1; cbn [bind] in E1; [|discriminate].
    destruct (comp_opt y z) as [c2|] eqn:X2; cbn [bind] in E2; [|discriminate].
    destruct (comp_opt x z) as [c3|] eqn:X3; cbn [bind] in E3; [|discriminate].
    pose proof (comp_opt_tr x y z c1 c2 c3 Hx X1 X2 X3) as (A & B & C & D).
    destruct c1, c2, c3;
      try (specialize (A eq_refl); discriminate); try (specialize (B eq_refl); discriminate);
      try (specialize (C eq_refl eq_refl); discriminate); try (specialize (D eq_refl eq_refl); discriminate);
      cbn in E1, E2, E3;
      try (injection E1 as <-); try (injection E2 as <-); try (injection E3 as <-);
      try (unfold tr; intuition congruence).
    exact (IH u v r1 r2 r3 Ht E1 E2 E3). }
Qed.

Lemma not_pair_dec (b : obj) : {k & {v | b = OPair k v}} + {match b with OPair _ _ => False | _ => True end}.
Proof. destruct b; try (right; exact I). left. eauto. Qed.

Theorem comp_trans_gen : forall a b c r1 r2 r3,
  comp a b = Ok r1 -> comp b c = Ok r2 -> comp a c = Ok r3 -> tr r1 r2 r3.
Proof.
  induction a using obj_ind2; intros ob oc r1 r2 r3 E1 E2 E3.
  - destruct ob; try discriminate. destruct oc; try discriminate. cbn in *. inv E1. inv E2. inv E3. apply addr_cmp_tr.
  - destruct ob; try discriminate. destruct oc; try discriminate. cbn in *. inv E1. inv E2. inv E3. apply text_cmp_tr.
  - destruct ob; try discriminate. destruct oc; try discriminate. cbn in *. inv E1. inv E2. inv E3. apply text_cmp_tr.
  - destruct ob; try discriminate. destruct oc; try discriminate. cbn in *. inv E1. inv E2. inv E3. apply text_cmp_tr.
  - (* pair: everything is a comparison of keys *)
    destruct (not_pair_dec ob) as [(k2 & v2 & ->)|Nb].
    + rewrite comp_pair_pair in E1.
      destruct (not_pair_dec oc) as [(k3 & v3 & ->)|Nc].
      * rewrite comp_pair_pair in E2, E3. exact (comp_opt_tr k k2 k3 r1 r2 r3 H E1 E2 E3).
      * rewrite (comp_pair_other k2 v2 oc Nc) in E2. rewrite (comp_pair_other k v oc Nc) in E3.
        exact (comp_opt_tr k k2 (Some oc) r1 r2 r3 H E1 E2 E3).
    + rewrite (comp_pair_other k v ob Nb) in E1.
      destruct (not_pair_dec oc) as [(k3 & v3 & ->)|Nc].
      * (* b is not a pair but is compared with a pair: undefined *)
        destruct ob; try destruct Nb; cbn in E2; try discriminate. destruct c; discriminate.
      * rewrite (comp_pair_other k v oc Nc) in E3.
        assert (E2' : comp_opt (Some ob) (Some oc) = Ok r2) by exact E2.
        exact (comp_opt_tr k (Some ob) (Some oc) r1 r2 r3 H E1 E2' E3).
  - destruct ob; try discriminate. destruct oc; try discriminate.
    rewrite comp_tok in E1, E2, E3. exact (comp_opt_tr a src src0 r1 r2 r3 H E1 E2 E3).
  - destruct ob; try discriminate. destruct oc; try discriminate. cbn in *. inv E1. inv E2. inv E3. apply text_cmp_tr.
  - destruct ob; try discriminate. destruct oc; try discriminate. cbn in *. inv E1. inv E2. inv E3. apply text_cmp_tr.
  - destruct ob as [| | | | | | | |i2 c2 a2 al2 items2| |]; try (destruct c; discriminate).
    destruct oc as [| | | | | | | |i3 c3 a3 al3 items3| |]; try (destruct c; discriminate); try (destruct c2; discriminate).
    destruct c, c2; try discriminate; destruct c3; try discriminate.
    + rewrite comp_arr in E1, E2, E3. exact (comp_items_tr items items2 items3 r1 r2 r3 H E1 E2 E3).
    + cbn in *. inv E1. inv E2. inv E3. apply addr_cmp_tr.
    + cbn in *. inv E1. inv E2. inv E3. apply addr_cmp_tr.
  - discriminate.
  - discriminate.
Qed.

Theorem comp_trans : forall a b c r1 r2 r3,
  comp a b = Ok r1 -> comp b c = Ok r2 -> comp a c = Ok r3 ->
  r1 <> CGt -> r2 <> CGt -> r3 <> CGt.
Proof. intros. eapply tr_le; eauto using comp_trans_gen. Qed.
Theorem comp_eq_trans : forall a b c r3,
  comp a b = Ok CEq -> comp b c = Ok CEq -> comp a c = Ok r3 -> r3 = CEq.
Proof. intros. eapply tr_eq; eauto using comp_trans_gen. Qed.

(* equal-prefix buffers / strings of different length are not equal *)
Theorem comp_prefix_not_equal : forall a c t,
  comp (OMbuff (Some a)) (OMbuff (Some (a ++ c :: t))) = Ok CLt /\
  comp (OMbuff (Some (a ++ c :: t))) (OMbuff (Some a)) = Ok CGt /\
  comp (OStr (Some a)) (OStr (Some (a ++ c :: t))) = Ok CLt.
Proof.
  intros. cbn [comp text_of]. unfold bytes_cmp.
  rewrite (text_cmp_antisym a (a ++ c :: t)), !text_cmp_prefix. auto.
Qed.
Theorem comp_equal_same_text : forall s t, comp (OMbuff s) (OMbuff t) = Ok CEq -> text_of s = text_of t.
Proof. intros s t H. cbn in H. inv H. now apply text_cmp_eq. Qed.

(* ---- definedness: comparison types ---- *)
Inductive ty : Set :=
| TyObj | TyStr | TyUstr | TyMbuff | TyTok | TyUrl | TyRegexp
| TyPair (k : ty)           (* pairs whose key (when present) has type k *)
| TyArr (e : ty)            (* array containers (any interface) whose non-NULL items have type e *)
| TyLinked (c : cls).       (* linked_list / dlinked_list containers (any interface): by address *)

Fixpoint has_ty (t : ty) (o : obj) {struct t} : bool :=
  match t, o with
  | TyObj, OObj _ | TyStr, OStr _ | TyUstr, OUstr _ | TyMbuff, OMbuff _ | TyUrl, OUrl _ _
  | TyRegexp, ORegexp _ _ _ => true
  | TyTok, OTok s _ _ _ => match s with None | Some (OStr _) => true | _ => false end
  | TyPair k, OPair x _ => match x with None => true | Some y => has_ty k y end
  | TyArr e, OCont _ Arr _ _ items =>
      forallb (fun x => match x with None => true | Some y => has_ty e y end) items
  | TyLinked c, OCont _ c' _ _ _ => match c, c' with LL, LL | DL, DL => true | _, _ => false end
  | _, _ => false
  end.

Definition opt_ty (t : ty) (x : option obj) : bool := match x with None => true | Some y => has_ty t y end.

Lemma comp_items_defined e :
  (forall a b, has_ty e a = true -> has_ty e b = true -> exists r, comp a b = Ok r) ->
  forall l1 l2, forallb (opt_ty e) l1 = true -> forallb (opt_ty e) l2 = true -> exists r, comp_items l1 l2 = Ok r.
Proof.
  intros IH. induction l1 as [|x t IHl]; intros [|y u] H1 H2; cbn [comp_items]; eauto.
  fold comp_items. cbn [forallb] in H1, H2. apply andb_prop in H1 as (Hx & Ht). apply andb_prop in H2 as (Hy & Hu).
  assert (exists c, comp_opt x y = Ok c) as (c & Ec).
  { destruct x as [a|], y as [b|]; cbn [comp_opt opt_ty] in *; eauto. }
  rewrite Ec. cbn [bind]. destruct c; eauto.
Qed.

Theorem comp_defined : forall t a b, has_ty t a = true -> has_ty t b = true -> exists r, comp a b = Ok r.
Proof.
  induction t; intros a b Ha Hb;
    destruct a; cbn [has_ty] in Ha; try discriminate;
    destruct b; cbn [has_ty] in Hb; try discriminate;
    try (cbn [comp]; eauto; fail).
  - (* tok *) rewrite comp_tok.
    destruct src as [[]|]; try discriminate; destruct src0 as [[]|]; try discriminate; cbn; eauto.
  - (* pair *) rewrite comp_pair_pair. match goal with |- exists r, comp_opt ?x ?y = _ => destruct x, y end; cbn [comp_opt]; eauto.
  - (* arr *) destruct c; try discriminate. destruct c0; try discriminate.
    rewrite comp_arr. apply (comp_items_defined t IHt); assumption.
  - (* linked *) destruct c, c0; try discriminate; destruct c1; try discriminate; cbn; eauto.
Qed.
