(* Own/SpecProofs.v - what single operations do: dup (an equal, fresh copy), done (the empty,
   reusable state), the removing operations (the element changes hands), map set (copies). *)
From LV Require Export Own.StepSafe Own.Names.
Local Open Scope Z_scope.

Lemma lookup_put_same h o' l o : lookup h l = Some o -> lookup h (put h o' l) = Some o'.
Proof. intros H. apply lookup_put_eq. congruence. Qed.

Section Spec.
Variable pcre : option text -> Z -> Z.
Variable flag_table : list (Z * Z).
Notation step := (step pcre flag_table).

(* ---- dup ---- *)
Theorem dup_step w h x w' r :
  get w h = Ok x -> step w (Dup h) = Ok (w', r) ->
  exists y, r = RNew (next w) false /\ held w' = held w ++ [(next w, y)] /\ next w' = S (next w) /\
            abs y = abs x /\ tag_of y = tag_of x /\
            footprint y = dup_cost pcre x /\ ledger w' = ledger w + footprint y.
Proof.
  intros G E. cbn [World.step] in E. rewrite G in E. cbn [bind] in E.
  match type of E with (_ <- ?g ;; _) = _ => destruct g end; cbn [bind] in E; [|discriminate].
  destruct (copy pcre x) as [y0|] eqn:C; cbn [bind] in E; [|discriminate].
  unfold fresh in E.
  pose proof (relabel_abs y0 (naddr w)) as Ra. pose proof (relabel_tag y0 (naddr w)) as Rt.
  pose proof (relabel_footprint y0 (naddr w)) as Rf.
  destruct (relabel y0 (naddr w)) as [y na]. cbn [fst] in *. cbn [hand_back] in E. inv E.
  exists y. cbn [held next ledger].
  rewrite Ra, Rt, Rf, (copy_abs pcre x y0 C), (copy_tag pcre x y0 C), <- (copy_footprint pcre x y0 C).
  repeat split; reflexivity.
Qed.

(* the copy is a new handle; every handle held before is still held with the same object *)
Theorem dup_fresh w h x w' r :
  Good w -> get w h = Ok x -> step w (Dup h) = Ok (w', r) ->
  lookup (next w) (held w) = None /\
  (forall k o, lookup k (held w) = Some o -> lookup k (held w') = Some o) /\
  exists y, lookup (next w) (held w') = Some y /\ abs y = abs x /\ ledger w' = ledger w + footprint y.
Proof.
  intros (W & B) G E. destruct (dup_step w h x w' r G E) as (y & _ & Hh & _ & Ha & _ & _ & Hl).
  assert (N : lookup (next w) (held w) = None) by (eapply lookup_none_ge; [exact B|lia]).
  split; [exact N|]. split.
  - intros k o L. rewrite Hh, lookup_app, L. reflexivity.
  - exists y. rewrite Hh, lookup_app, N. cbn [lookup]. rewrite Nat.eqb_refl. auto.
Qed.

(* any later history that does not write one of the two handles leaves it as it was: a history on
   the copy (including its deletion) never changes the original, and the other way round *)
Definition avoids (h : nat) (p : list op) : Prop :=
  Forall (fun o => ~ In h (writes o) /\ is_delall o = false) p.
Theorem dup_independent w h x w1 r :
  Good w -> get w h = Ok x -> step w (Dup h) = Ok (w1, r) ->
  forall p w2 outs, run pcre flag_table w1 p = Ok (w2, outs) ->
    (avoids h p -> lookup h (held w2) = Some x) /\
    (avoids (next w) p -> exists y, lookup (next w) (held w2) = Some y /\ abs y = abs x /\ tag_of y = tag_of x).
Proof.
  intros G Gh E p w2 outs R. destruct (dup_fresh w h x w1 r G Gh E) as (N & K & y & Ly & Ay & _).
  destruct (dup_step w h x w1 r Gh E) as (y' & _ & Hh & _ & _ & Ty & _).
  assert (y' = y) as ->.
  { rewrite Hh, lookup_app, N in Ly. cbn [lookup] in Ly. rewrite Nat.eqb_refl in Ly. congruence. }
  split; intros A.
  - eapply (run_keeps pcre flag_table h p w1 w2 outs R A). apply K. now apply get_ok.
  - exists y. split; [|auto]. eapply (run_keeps pcre flag_table (next w) p w1 w2 outs R A). exact Ly.
Qed.

(* ---- done ---- *)
Lemma done_state_empty x : (forall c s, x <> OIter c s) -> x <> ORaw -> is_empty_state (done_state x) = true.
Proof.
  intros Ni Nr. destruct x; try reflexivity; try congruence.
  - cbn. clear Ni Nr. induction comps as [|c t IH]; [reflexivity|]. cbn. exact IH.
Qed.

Theorem done_reusable w h x w' r :
  get w h = Ok x -> x <> ORaw -> step w (Done h) = Ok (w', r) ->
  lookup h (held w') = Some (done_state x) /\ footprint (done_state x) = 1 /\
  ledger w' = ledger w - (footprint x - 1) /\
  ((forall c s, x <> OIter c s) ->
   is_empty_state (done_state x) = true /\
   exists w'', step w' (Init h) = Ok (w'', RBool true) /\ lookup h (held w'') = Some (done_state x) /\
               ledger w'' = ledger w').
Proof.
  intros G N E. cbn [World.step] in E. rewrite G in E. cbn [bind] in E.
  assert (E' : Ok (mkWorld (put h (done_state x) (held w)) (next w) (naddr w) (ledger w - (release x - 1)), RBool true) = Ok (w', r))
    by (destruct x; congruence).
  inv E'. apply get_ok in G. cbn [held ledger].
  split; [eapply lookup_put_same; eauto|]. split; [now apply done_state_fp|].
  split; [now rewrite release_is_footprint|].
  intros Ni. pose proof (done_state_empty x Ni N) as Em. split; [exact Em|].
  cbn [World.step]. unfold get at 1. cbn [held]. rewrite (lookup_put_same h (done_state x) (held w) x G). cbn [bind].
  assert (D2 : done_state (done_state x) = done_state x).
  { destruct x; try reflexivity. cbn. f_equal. now rewrite map_map. }
  destruct (done_state x) eqn:Ds; try (exfalso; destruct x; discriminate || (eapply Ni; reflexivity) || congruence);
    rewrite Em; eexists; (split; [reflexivity|]); cbn [held ledger];
    (split; [|reflexivity]); rewrite D2; apply lookup_put_eq; rewrite (lookup_put_same h _ (held w) x G); discriminate.
Qed.

(* ---- removing operations: the element changes hands ---- *)
Lemma take_spec w c want f w' h' :
  take w c want f = Ok (w', RNew h' false) ->
  exists i k a al al' xs xs' x,
    lookup c (held w) = Some (OCont i k a al xs) /\ f xs = Ok (xs', Some x, true) /\ h' = next w /\
    held w' = put c (OCont i k a al' xs') (held w) ++ [(next w, x)].
Proof.
  unfold take. intros E.
  destruct (get w c) as [co|] eqn:Gc; cbn [bind] in E; [|discriminate].
  destruct (as_cont co) as [[[[[i k] a] al] xs]|] eqn:Ac; cbn [bind] in E; [|discriminate].
  destruct (negb (want i)); [discriminate|].
  destruct (f xs) as [[[xs' x] found]|] eqn:Ef; cbn [bind] in E; [|discriminate].
  apply as_cont_ok in Ac. subst co. apply get_ok in Gc.
  destruct found; cbn [negb] in E.
  - destruct x as [x|]; cbn [hand_back] in E; inv E.
    do 8 eexists. split; [exact Gc|]. split; [exact Ef|]. split; reflexivity.
  - cbn [hand_back] in E. inv E.
Qed.

Definition remover (o : op) : option nat :=
  match o with LRemove c _ | LRemoveAt c _ | VRemove c _ | MRemove c _ => Some c | _ => None end.

Theorem handed_back w o c w' h' :
  remover o = Some c -> Good w -> step w o = Ok (w', RNew h' false) ->
  exists i k a al al' l1 x l2,
    lookup c (held w) = Some (OCont i k a al (l1 ++ Some x :: l2)) /\
    lookup c (held w') = Some (OCont i k a al' (l1 ++ l2)) /\
    lookup h' (held w') = Some x /\ lookup h' (held w) = None /\ h' <> c.
Proof.
  intros R (W & B) E.
  assert (Fin : forall f, take w c (fun i => match remover o, i with _, _ => true end) f = take w c (fun _ => true) f) by reflexivity.
  assert (Main : forall want f, take w c want f = Ok (w', RNew h' false) ->
            (forall xs xs' x, f xs = Ok (xs', Some x, true) -> exists l1 l2, xs = l1 ++ Some x :: l2 /\ xs' = l1 ++ l2) ->
            exists i k a al al' l1 x l2,
              lookup c (held w) = Some (OCont i k a al (l1 ++ Some x :: l2)) /\
              lookup c (held w') = Some (OCont i k a al' (l1 ++ l2)) /\
              lookup h' (held w') = Some x /\ lookup h' (held w) = None /\ h' <> c).
  { intros want f T Hf. destruct (take_spec w c want f w' h' T) as (i & k & a & al & al' & xs & xs' & x & L & F & -> & Hh).
    destruct (Hf xs xs' x F) as (l1 & l2 & -> & ->).
    assert (N : lookup (next w) (held w) = None) by (eapply lookup_none_ge; [exact B|lia]).
    assert (Nc : next w <> c) by (intros <-; congruence).
    exists i, k, a, al, al', l1, x, l2. split; [exact L|]. rewrite Hh, !lookup_app.
    rewrite (lookup_put_same c _ (held w) _ L). split; [reflexivity|].
    rewrite lookup_put_ne, N by exact Nc. cbn [lookup]. rewrite Nat.eqb_refl. auto. }
  clear Fin. destruct o; cbn [remover] in R; try discriminate; inv R; cbn [World.step] in E.
  - destruct (get w p) as [po|]; cbn [bind] in E; [|discriminate].
    eapply Main; [exact E|]. intros xs xs' x F; cbv beta in F.
    destruct (rem_first po xs) as [[xs1 r1]|] eqn:Rm; cbn [bind] in F; [|discriminate]. inv F.
    pose proof (rem_first_fp po xs xs' (Some x) Rm) as (_ & _ & l1 & l2 & A & A2). eauto.
  - eapply Main; [exact E|]. intros xs xs' x F; cbv beta in F.
    destruct (in_range xs idx) as [n|] eqn:Rg; [|discriminate]. inv F.
    destruct (rem_nth_fp n xs (in_range_lt xs idx n Rg)) as (_ & _ & l1 & l2 & A & A2).
    exists l1, l2. auto.
  - destruct (get w p) as [po|]; cbn [bind] in E; [|discriminate].
    eapply Main; [exact E|]. intros xs xs' x F; cbv beta in F.
    destruct (rem_first po xs) as [[xs1 r1]|] eqn:Rm; cbn [bind] in F; [|discriminate]. inv F.
    pose proof (rem_first_fp po xs xs' (Some x) Rm) as (_ & _ & l1 & l2 & A & A2). eauto.
  - destruct (get w k) as [ko|]; cbn [bind] in E; [|discriminate].
    eapply Main; [exact E|]. intros xs xs' x F; cbv beta in F.
    destruct (mrem_first ko xs) as [[xs1 r1]|] eqn:Rm; cbn [bind] in F; [|discriminate]. inv F.
    pose proof (mrem_first_fp ko xs xs' (Some x) Rm) as (_ & _ & l1 & l2 & A & A2). eauto.
Qed.

(* deleting the container afterwards leaves the handed-back object alone, and vice versa *)
Theorem handed_back_independent w' c h' x co :
  h' <> c -> lookup h' (held w') = Some x -> lookup c (held w') = Some co ->
  (forall w2 r, step w' (Del c) = Ok (w2, r) -> lookup h' (held w2) = Some x /\ ledger w2 = ledger w' - footprint co) /\
  (forall w2 r, step w' (Del h') = Ok (w2, r) -> lookup c (held w2) = Some co /\ ledger w2 = ledger w' - footprint x).
Proof.
  intros N Lh Lc. split; intros w2 r E.
  - split.
    + eapply (step_keeps pcre flag_table h' w' (Del c)); [exact E| |reflexivity|exact Lh]. cbn. intros [A|[]]. congruence.
    + cbn [World.step] in E. unfold get in E. rewrite Lc in E. cbn [bind] in E. inv E. cbn [ledger].
      now rewrite release_is_footprint.
  - split.
    + eapply (step_keeps pcre flag_table c w' (Del h')); [exact E| |reflexivity|exact Lc]. cbn. intros [A|[]]. congruence.
    + cbn [World.step] in E. unfold get in E. rewrite Lh in E. cbn [bind] in E. inv E. cbn [ledger].
      now rewrite release_is_footprint.
Qed.

(* ---- map set takes copies ---- *)
Lemma ins_ordered_in x : forall xs xs', ins_ordered x xs = Ok xs' -> In (Some x) xs'.
Proof.
  induction xs as [|s t IH]; intros xs' E; cbn [ins_ordered] in E.
  - inv E. left. reflexivity.
  - destruct (comp_item x s) as [c|]; cbn [bind] in E; [|discriminate]. destruct (is_gt c).
    + destruct (ins_ordered x t) as [t'|] eqn:Et; cbn [bind] in E; [|discriminate]. inv E. right. now apply IH.
    + inv E. left. reflexivity.
Qed.
Lemma ins_linked_in dl x xs xs' : ins_linked dl x xs = Ok xs' -> In (Some x) xs'.
Proof.
  unfold ins_linked. destruct xs as [|h t]; intros E; [inv E; left; reflexivity|].
  destruct (comp_item x h) as [cc|]; cbn [bind] in E; [|discriminate].
  destruct (is_lt cc); [inv E; left; reflexivity|].
  destruct (if dl then comp_item x (last (h :: t) None) else Ok CEq) as [ct|]; cbn [bind] in E; [|discriminate].
  destruct (dl && is_gt ct).
  - inv E. right. apply in_or_app. right. left. reflexivity.
  - destruct (ins_ordered x t) as [t'|] eqn:Et; cbn [bind] in E; [|discriminate]. inv E.
    right. now apply ins_ordered_in in Et.
Qed.
Lemma c_insert_in c x xs xs' : c_insert c x xs = Ok xs' -> In (Some x) xs'.
Proof. destruct c; cbn [c_insert]; [apply ins_ordered_in|apply ins_linked_in|apply ins_linked_in]. Qed.
Lemma upd_in {A} (l : list A) : forall n v, (n < length l)%nat -> In v (Buf.upd l n v).
Proof.
  induction l as [|x t IH]; intros [|n] v L; cbn [length] in L; try lia; cbn [Buf.upd].
  - left. reflexivity.
  - right. apply IH. lia.
Qed.

Lemma map_set_spec w m ko vo w' r :
  map_set pcre w m ko vo = Ok (w', r) ->
  exists i c a al xs' pk v2,
    lookup m (held w') = Some (OCont i c a al xs') /\ In (Some (OPair pk (Some v2))) xs' /\ abs v2 = abs vo /\
    (r = RBool false -> exists k2, pk = Some k2 /\ abs k2 = abs ko).
Proof.
  unfold map_set. intros E.
  destruct (get w m) as [mo|] eqn:Gm; cbn [bind] in E; [|discriminate].
  destruct (as_cont mo) as [[[[[i c] a] al] xs]|] eqn:Ac; cbn [bind] in E; [|discriminate].
  destruct (want_iface i IMap); cbn [bind] in E; [|discriminate].
  match type of E with (if ?b then _ else _) = _ => destruct b end; [discriminate|].
  apply get_ok in Gm. apply as_cont_ok in Ac. subst mo.
  destruct (map_scan ko xs O) as [hit|] eqn:Hit; cbn [bind] in E; [|discriminate].
  destruct (copy pcre vo) as [v'|] eqn:Cv; cbn [bind] in E; [|discriminate].
  destruct hit as [n|].
  - apply scan_hit_lt in Hit. destruct (nth n xs None) as [[| | | |pk0 pv0| | | | | |]|] eqn:Nn; try discriminate.
    pose proof (relabel_abs v' (naddr w)) as Ra. destruct (relabel v' (naddr w)) as [v2 na]. cbn [fst] in Ra. inv E.
    exists i, c, a, al, (Buf.upd xs n (Some (OPair pk0 (Some v2)))), pk0, v2. cbn [held].
    split; [eapply lookup_put_same; eauto|]. split; [apply upd_in; lia|]. split; [|discriminate].
    now rewrite Ra, (copy_abs pcre vo v' Cv).
  - destruct (copy pcre ko) as [k'|] eqn:Ck; cbn [bind] in E; [|discriminate].
    pose proof (relabel_abs (OPair (Some k') (Some v')) (naddr w)) as Ra.
    rewrite relabel_pair in *. cbn [relabel_opt] in *.
    pose proof (relabel_abs k' (naddr w)) as Rk. destruct (relabel k' (naddr w)) as [k2 n1]. cbn [fst] in Rk.
    pose proof (relabel_abs v' n1) as Rv. destruct (relabel v' n1) as [v2 n2]. cbn [fst] in Rv.
    destruct (c_insert c (OPair (Some k2) (Some v2)) xs) as [xs'|] eqn:Ci; cbn [bind] in E; [|discriminate]. inv E.
    exists i, c, a, (match c with Arr => true | _ => al end), xs', (Some k2), v2. cbn [held].
    split; [eapply lookup_put_same; eauto|]. split; [eapply c_insert_in; eauto|].
    split; [now rewrite Rv, (copy_abs pcre vo v' Cv)|]. intros _. exists k2. split; [reflexivity|].
    now rewrite Rk, (copy_abs pcre ko k' Ck).
Qed.

(* map set, key and value given separately: the caller still holds both, unchanged, and the map's
   tree has an entry whose value (and, for a new key, whose key) is a copy with the same value *)
Theorem map_takes_copies w m k v w' r ko vo :
  get w k = Ok ko -> get w v = Ok vo -> step w (MSet m k v) = Ok (w', r) ->
  lookup k (held w') = Some ko /\ lookup v (held w') = Some vo /\
  exists i c a al xs' pk v2,
    lookup m (held w') = Some (OCont i c a al xs') /\ In (Some (OPair pk (Some v2))) xs' /\ abs v2 = abs vo /\
    (r = RBool false -> exists k2, pk = Some k2 /\ abs k2 = abs ko).
Proof.
  intros Gk Gv E. pose proof E as E0. cbn [World.step] in E.
  destruct (get w m) as [mo|] eqn:Gm; cbn [bind] in E; [|discriminate].
  rewrite Gk, Gv in E. cbn [bind] in E.
  destruct (Nat.eqb m k) eqn:Emk; [discriminate|]. destruct (Nat.eqb m v) eqn:Emv; [discriminate|].
  apply Nat.eqb_neq in Emk, Emv. cbn [orb] in E.
  apply get_ok in Gk, Gv.
  split. { eapply (step_keeps pcre flag_table k w (MSet m k v)); [exact E0| |reflexivity|exact Gk]. cbn. intros [A|[]]. congruence. }
  split. { eapply (step_keeps pcre flag_table v w (MSet m k v)); [exact E0| |reflexivity|exact Gv]. cbn. intros [A|[]]. congruence. }
  eapply map_set_spec; exact E.
Qed.

(* map set in pair form, SPIF_MAP_SET(map, pair, NULL): the pair stays the caller's, unchanged (so
   deleting it later releases exactly its own footprint), and the map's entry is made of copies *)
Theorem map_pair_form_takes_copies w m p w' r po :
  get w p = Ok po -> step w (MSetPair m p) = Ok (w', r) ->
  lookup p (held w') = Some po /\
  exists ko vo, po = OPair (Some ko) (Some vo) /\
  exists i c a al xs' pk v2,
    lookup m (held w') = Some (OCont i c a al xs') /\ In (Some (OPair pk (Some v2))) xs' /\ abs v2 = abs vo /\
    (r = RBool false -> exists k2, pk = Some k2 /\ abs k2 = abs ko).
Proof.
  intros Gp E. pose proof E as E0. cbn [World.step] in E.
  destruct (get w m) as [mo|] eqn:Gm; cbn [bind] in E; [|discriminate].
  rewrite Gp in E. cbn [bind] in E.
  destruct (Nat.eqb m p) eqn:Emp; [discriminate|]. apply Nat.eqb_neq in Emp. apply get_ok in Gp.
  split. { eapply (step_keeps pcre flag_table p w (MSetPair m p)); [exact E0| |reflexivity|exact Gp]. cbn. intros [A|[]]. congruence. }
  destruct po as [| | | |[ko|] [vo|]| | | | | |]; try discriminate.
  exists ko, vo. split; [reflexivity|]. eapply map_set_spec; exact E.
Qed.

(* the map's own stored value (or its own stored entry, pair form) passed back to set: the entry
   keeps a value with the same observable value and the ledger does not move *)
Theorem map_set_own_neutral w m k pf w' r b :
  Inv b w -> step w (MSetOwn m k pf) = Ok (w', r) -> Inv b w' /\ forall h, h <> m -> keeps h w w'.
Proof.
  intros I E. split; [eapply step_inv; eauto|].
  intros h N. eapply step_keeps; [exact E| |reflexivity]. cbn. intros [A|[]]. congruence.
Qed.

(* the queries (count, get, contains, find, index, map get, has_key, has_value) change nothing:
   same handles, same values, same ledger *)
Theorem query_changes_nothing w c h w' r : step w (Query c h) = Ok (w', r) -> w' = w /\ r = RUnit.
Proof.
  intros E. cbn [World.step] in E.
  destruct (get w c) as [co|]; cbn [bind] in E; [|discriminate].
  destruct (get w h) as [po|]; cbn [bind] in E; [|discriminate].
  destruct (as_cont co) as [[[[[i k] a] al] xs]|]; cbn [bind] in E; [|discriminate].
  match type of E with (if ?c then _ else _) = _ => destruct c end; [discriminate|].
  destruct (query_walk i po xs); inv E. split; reflexivity.
Qed.

(* ---- tok: the copy carries the original's members, the token list included, whatever it holds ---- *)
Lemma copy_opt_abs' x x' : copy_opt pcre x = Ok x' -> abs_opt x' = abs_opt x.
Proof.
  destruct x as [y|]; cbn [copy_opt]; intros E.
  - destruct (copy pcre y) as [y'|] eqn:Ey; cbn [bind] in E; [|discriminate]. inv E.
    cbn [abs_opt]. now rewrite (copy_abs pcre y y' Ey).
  - inv E. reflexivity.
Qed.
Theorem dup_tok_members a b l ch y : copy pcre (OTok a b l ch) = Ok y ->
  exists a' b' l', y = OTok a' b' l' ch /\ abs_opt a' = abs_opt a /\ abs_opt b' = abs_opt b /\ abs_opt l' = abs_opt l.
Proof.
  rewrite copy_tok. intros E.
  destruct (copy_opt pcre a) as [a'|] eqn:Ea; cbn [bind] in E; [|discriminate].
  destruct (copy_opt pcre l) as [l'|] eqn:El; cbn [bind] in E; [|discriminate].
  destruct (copy_opt pcre b) as [b'|] eqn:Eb; cbn [bind] in E; [|discriminate]. inv E.
  exists a', b', l'. split; [reflexivity|]. auto using copy_opt_abs'.
Qed.
(* the character setters store a character and leave the token list as it is (it is then out of
   step with the members until the next eval - a reachable state dup has to copy faithfully) *)
Theorem tok_set_char_keeps_list w t which c w' r a b l ch :
  get w t = Ok (OTok a b l ch) -> step w (TokSetChar t which c) = Ok (w', r) ->
  exists ch', lookup t (held w') = Some (OTok a b l ch') /\ ledger w' = ledger w.
Proof.
  intros G E. cbn [World.step] in E. rewrite G in E. cbn [bind] in E. apply get_ok in G.
  match type of E with (if ?c then _ else _) = _ => destruct c end; [discriminate|].
  destruct which as [|[|[|?]]]; try discriminate; inv E; cbn [held ledger]; eexists;
    (split; [eapply lookup_put_same; eauto|reflexivity]).
Qed.

(* ---- constructors from a stream: either an object whose footprint is exactly what was
        allocated, or NULL with nothing left allocated and nothing else changed ---- *)
Theorem stream_new_spec w c v k content pos w' r :
  step w (NewFromStream c v k content pos) = Ok (w', r) ->
  (exists b o, stream_text c v k content pos = Ok (Some b) /\ r = RNew (next w) false /\
               held w' = held w ++ [(next w, o)] /\ abs o = abs (stream_obj c b) /\
               ledger w' = ledger w + footprint o) \/
  (stream_text c v k content pos = Ok None /\ r = RNew (next w) true /\ held w' = held w /\ ledger w' = ledger w).
Proof.
  intros E. cbn [World.step] in E.
  destruct (stream_text c v k content pos) as [[b|]|]; cbn [bind] in E; [| |discriminate].
  - left. unfold fresh in E.
    pose proof (relabel_abs (stream_obj c b) (naddr w)) as Ra. pose proof (relabel_footprint (stream_obj c b) (naddr w)) as Rf.
    destruct (relabel (stream_obj c b) (naddr w)) as [o na]. cbn [fst] in *. cbn [hand_back] in E. inv E.
    exists b, o. cbn [held ledger]. rewrite Rf. auto.
  - right. cbn [hand_back] in E. inv E. auto.
Qed.
(* a seekable, non-empty file whose stream is already at its end: the buffer constructors return NULL *)
Theorem stream_mbuff_at_eof v content : content <> [] ->
  stream_text SMbuff v KReg content (Z.of_nat (length content)) = Ok None.
Proof.
  intros N. unfold stream_text.
  replace ((Z.of_nat (length content) <? 0) || (Z.of_nat (length content) <? Z.of_nat (length content))) with false
    by (symmetry; apply Bool.orb_false_intro; [apply Z.ltb_ge; lia|apply Z.ltb_irrefl]).
  rewrite Nat2Z.id, skipn_all. destruct content; [congruence|]. destruct v; reflexivity.
Qed.

(* ---- type ---- *)
Theorem type_step w h x w' r :
  get w h = Ok x -> step w (TypeOf h) = Ok (w', r) -> w' = w /\ r = RType (tag_of x) /\ x <> ORaw.
Proof.
  intros G E. cbn [World.step] in E. rewrite G in E. cbn [bind] in E. destruct x; inv E; repeat split; discriminate.
Qed.
End Spec.

(* the scanner run with the default quote / dquote / escape members is the quoting grammar of
   property C12 (Split/SplitModel.sm, tied to the C scanner there) *)
Lemma smq_cons ch d i q c t :
  smq ch d i q (c :: t) =
  if (q =? 0) && SplitModel.delim d c then (if i then [] :: smq ch d false 0 t else smq ch d false 0 t)
  else if is_qc ch c then
    if q =? 0 then smq ch d true c t
    else if q =? c then smq ch d true 0 t
    else SplitModel.push c (smq ch d true q t)
  else if c =? ch_escape ch then
    match t with
    | c2 :: t2 =>
      if SplitModel.delim d c2 || (negb (q =? 0) && (q =? c2)) then SplitModel.push c2 (smq ch d true q t2)
      else SplitModel.push c (smq ch d true q t)
    | [] => [[c]]
    end
  else SplitModel.push c (smq ch d true q t).
Proof. reflexivity. Qed.
Lemma sm_cons d i q c t :
  SplitModel.sm d i q (c :: t) =
  if (q =? 0) && SplitModel.delim d c then (if i then [] :: SplitModel.sm d false 0 t else SplitModel.sm d false 0 t)
  else if SplitModel.is_q c then
    if q =? 0 then SplitModel.sm d true c t
    else if q =? c then SplitModel.sm d true 0 t
    else SplitModel.push c (SplitModel.sm d true q t)
  else if c =? 92 then
    match t with
    | c2 :: t2 =>
      if SplitModel.delim d c2 || (negb (q =? 0) && (q =? c2)) then SplitModel.push c2 (SplitModel.sm d true q t2)
      else SplitModel.push c (SplitModel.sm d true q t)
    | [] => [[c]]
    end
  else SplitModel.push c (SplitModel.sm d true q t).
Proof. reflexivity. Qed.
Lemma smq_default_len d : forall n s, (length s <= n)%nat ->
  forall i q, smq default_chars d i q s = SplitModel.sm d i q s.
Proof.
  induction n as [|n IH]; intros [|c t] L i q; try reflexivity; cbn [length] in L; try lia.
  rewrite smq_cons, sm_cons. unfold is_qc, SplitModel.is_q.
  cbn [default_chars ch_quote ch_dquote ch_escape fst snd].
  destruct t as [|c2 t2].
  - reflexivity.
  - rewrite !(IH (c2 :: t2)), !(IH t2) by (cbn [length] in *; lia). reflexivity.
Qed.
Theorem smq_default d s i q : smq default_chars d i q s = SplitModel.sm d i q s.
Proof. apply (smq_default_len d (length s)). lia. Qed.
Theorem tok_tokens_default src sep :
  tok_tokens default_chars src sep =
  map (fun t => Some (tok_obj t)) (map SplitModel.trim (SplitModel.tokens sep src)).
Proof. unfold tok_tokens, SplitModel.tokens. now rewrite smq_default. Qed.

(* type() names the class: the table generated from the SPIF_DECL_CLASSNAME entries gives every
   class its own name "!spif_<class>_t!" *)
Theorem type_names_class : forall t, class_name t = option_map bang_name (base_name t).
Proof. intros [| | | | | | | |[] []|[]|]; reflexivity. Qed.
Theorem every_class_named : forall x, x <> ORaw -> exists n, class_name (tag_of x) = Some (bang_name n).
Proof.
  intros x N. rewrite type_names_class. destruct x; try (eexists; reflexivity); try congruence;
    destruct c; eexists; reflexivity.
Qed.
Theorem dup_same_name pcre x y : copy pcre x = Ok y -> class_name (tag_of y) = class_name (tag_of x).
Proof. intros C. now rewrite (copy_tag pcre x y C). Qed.
