(* Own/StepSafe.v - every operation keeps the world good (well-formed objects, handle numbers
   below the counter) and faults only with one of the two program errors. *)
From LV Require Export Own.SafeProofs.
Local Open Scope Z_scope.

Definition Good (w : world) : Prop := WF w /\ below (next w) (held w).
Definition Safe (r : res (world * out)) : Prop :=
  match r with Ok (w', _) => Good w' | Fault f => prog_fault f end.

Ltac pf := solve [left; reflexivity | right; reflexivity].

Lemma WF_lookup l h o : Forall (fun e : nat * obj => wf (snd e) = true) l -> lookup h l = Some o -> wf o = true.
Proof.
  induction 1 as [|[k x] t Hk _ IH]; cbn [lookup]; [discriminate|].
  destruct (Nat.eqb h k); intros E; [inv E; exact Hk|auto].
Qed.
Lemma WF_put l h o : Forall (fun e : nat * obj => wf (snd e) = true) l -> wf o = true ->
  Forall (fun e : nat * obj => wf (snd e) = true) (put h o l).
Proof.
  induction 1 as [|[k x] t Hk Ht IH]; intros Ho; cbn [put]; [constructor|].
  destruct (Nat.eqb h k); constructor; auto.
Qed.
Lemma WF_drop l h : Forall (fun e : nat * obj => wf (snd e) = true) l ->
  Forall (fun e : nat * obj => wf (snd e) = true) (drop h l).
Proof.
  induction 1 as [|[k x] t Hk Ht IH]; cbn [drop]; [constructor|].
  destruct (Nat.eqb h k); [exact Ht|constructor; auto].
Qed.

Lemma hand_back_good w r held' na led :
  Forall (fun e : nat * obj => wf (snd e) = true) held' -> below (next w) held' -> wf_opt r = true ->
  Good (fst (hand_back w r held' na led)).
Proof.
  unfold hand_back, Good, WF. intros W B R. destruct r as [o|]; cbn [fst held next].
  - split.
    + apply Forall_app. split; [exact W|]. constructor; [exact R|constructor].
    + apply Forall_app. split; [eapply below_mono; [|exact B]; lia|]. constructor; [cbn; lia|constructor].
  - split; [exact W|]. eapply below_mono; [|exact B]. lia.
Qed.
Lemma get_fault w h f : get w h = Fault f -> f = Use_after_free.
Proof. unfold get. destruct (lookup h (held w)); intros E; inv E; reflexivity. Qed.
Lemma get_opt_fault w h f : get_opt w h = Fault f -> f = Use_after_free.
Proof.
  destruct h as [h'|]; cbn [get_opt]; [|discriminate].
  destruct (get w h') eqn:G; cbn [bind]; intros E; [discriminate|]. inv E. now apply get_fault in G.
Qed.
Lemma get_opt_wf w h x : WF w -> get_opt w h = Ok x -> wf_opt x = true.
Proof.
  destruct h as [h'|]; cbn [get_opt]; intros W E.
  - destruct (get w h') as [o|] eqn:G; cbn [bind] in E; [|discriminate]. inv E. apply get_ok in G.
    cbn. eapply WF_lookup; eauto.
  - inv E. reflexivity.
Qed.
Lemma as_cont_fault o f : as_cont o = Fault f -> f = Abort.
Proof. destruct o; cbn; intros E; inv E; reflexivity. Qed.
Lemma want_iface_fault i j f : want_iface i j = Fault f -> f = Abort.
Proof. destruct i, j; cbn; intros E; inv E; reflexivity. Qed.
Lemma want_iface_ok i j u : want_iface i j = Ok u -> i = j.
Proof. destruct i, j; cbn; intros E; inv E; reflexivity. Qed.

(* the world after [put h o]: it remains to show that o is well-formed *)
Ltac putgood W B := cbn [Safe]; split; cbn [held next]; [apply WF_put; [exact W|]|now apply below_put].

Section StepSafe.
Variable pcre : option text -> Z -> Z.
Variable flag_table : list (Z * Z).

Lemma fresh_safe w o cost : Good w -> wf o = true -> Safe (fresh w o cost).
Proof.
  intros (W & B) Ho. unfold fresh. pose proof (relabel_wf o (naddr w)) as R.
  destruct (relabel o (naddr w)) as [o' na]. cbn [fst] in R. cbn [Safe].
  pose proof (hand_back_good w (Some o') (held w) na (ledger w + cost) W B) as G.
  destruct (hand_back w (Some o') (held w) na (ledger w + cost)). apply G. cbn. now rewrite R.
Qed.

Lemma give_safe w c h (i0 : iface) want f : Good w ->
  (forall i, want i = true -> i = i0) ->
  (forall k x xs xs', f k x xs = Ok (Some xs') -> items_ok i0 xs = true -> wf x = true -> storable x = true ->
                      items_ok i0 xs' = true) ->
  (forall k x xs g, f k x xs = Fault g -> g = Abort) ->
  Safe (give w c h want f).
Proof.
  intros (W & B) Hw Hf Hg. unfold give.
  destruct (get w c) as [co|g] eqn:Gc; cbn [bind]; [|apply get_fault in Gc; subst; cbn; pf].
  destruct (as_cont co) as [[[[[i k] a] al] xs]|g] eqn:Ac; cbn [bind]; [|apply as_cont_fault in Ac; subst; cbn; pf].
  destruct (want i) eqn:Wi; cbn [negb]; [|cbn; pf]. apply Hw in Wi. subst i.
  destruct (Nat.eqb c h); [cbn; pf|].
  destruct (get w h) as [x|g] eqn:Gh; cbn [bind]; [|apply get_fault in Gh; subst; cbn; pf].
  destruct (storable x) eqn:Sx; cbn [negb]; [|cbn; pf].
  apply as_cont_ok in Ac. subst co. apply get_ok in Gc, Gh.
  pose proof (WF_lookup _ _ _ W Gc) as Wc. rewrite wf_cont_items in Wc.
  pose proof (WF_lookup _ _ _ W Gh) as Wx.
  destruct (f k x xs) as [[xs'|]|g] eqn:Ef; cbn [bind Safe].
  - split; cbn [held next].
    + apply WF_put; [now apply WF_drop|]. rewrite wf_cont_items. eapply Hf; eauto.
    + apply below_put. now apply below_drop.
  - split; assumption.
  - rewrite (Hg _ _ _ _ Ef). pf.
Qed.

Lemma take_safe w c (i0 : iface) want f : Good w ->
  (forall i, want i = true -> i = i0) ->
  (forall xs xs' x fd, f xs = Ok (xs', x, fd) -> items_ok i0 xs = true -> items_ok i0 xs' = true /\ wf_opt x = true) ->
  (forall xs g, items_ok i0 xs = true -> f xs = Fault g -> g = Abort) ->
  Safe (take w c want f).
Proof.
  intros (W & B) Hw Hf Hg. unfold take.
  destruct (get w c) as [co|g] eqn:Gc; cbn [bind]; [|apply get_fault in Gc; subst; cbn; pf].
  destruct (as_cont co) as [[[[[i k] a] al] xs]|g] eqn:Ac; cbn [bind]; [|apply as_cont_fault in Ac; subst; cbn; pf].
  destruct (want i) eqn:Wi; cbn [negb]; [|cbn; pf]. apply Hw in Wi. subst i.
  apply as_cont_ok in Ac. subst co. apply get_ok in Gc.
  pose proof (WF_lookup _ _ _ W Gc) as Wc. rewrite wf_cont_items in Wc.
  destruct (f xs) as [[[xs' x] found]|g] eqn:Ef; cbn [bind]; [|rewrite (Hg _ _ Wc Ef); cbn; pf].
  destruct (Hf _ _ _ _ Ef Wc) as (A & A2).
  destruct found; cbn [negb Safe].
  - match goal with |- match ?hb with _ => _ end => pose proof (hand_back_good w x (put c (OCont i0 k a
      match k with Arr => if (length xs' =? 0)%nat then false else al | _ => al end xs') (held w)) (naddr w)
      (ledger w - match k with Arr => if al && negb match k with Arr => if (length xs' =? 0)%nat then false else al | _ => al end then 1 else 0 | _ => 1 end)) as G; destruct hb end.
    apply G; [apply WF_put; [exact W|now rewrite wf_cont_items]|now apply below_put|exact A2].
  - pose proof (hand_back_good w None (held w) (naddr w) (ledger w) W B eq_refl) as G.
    destruct (hand_back w None (held w) (naddr w) (ledger w)). exact G.
Qed.

Lemma setter_safe w p h f : Good w ->
  (forall po x po' old, f po x = Ok (po', old) -> wf po = true -> wf_opt x = true -> wf po' = true) ->
  (forall po x g, f po x = Fault g -> g = Abort) ->
  Safe (setter w p h f).
Proof.
  intros (W & B) Hf Hg. unfold setter.
  destruct (get w p) as [po|g] eqn:Gp; cbn [bind]; [|apply get_fault in Gp; subst; cbn; pf].
  match goal with |- Safe (_ <- ?gg ;; _) => destruct gg as [u|g] eqn:Eg end; cbn [bind].
  2:{ destruct h as [h'|]; [destruct (Nat.eqb h' p); inv Eg|inv Eg]. cbn; pf. }
  destruct (get_opt w h) as [x|g] eqn:Gh; cbn [bind]; [|apply get_opt_fault in Gh; subst; cbn; pf].
  match goal with |- Safe (if ?c then _ else _) => destruct c end; [cbn; pf|].
  apply get_ok in Gp. pose proof (WF_lookup _ _ _ W Gp) as Wp. pose proof (get_opt_wf w h x W Gh) as Wx.
  destruct (f po x) as [[po' old]|g] eqn:Ef; cbn [bind Safe]; [|rewrite (Hg _ _ _ Ef); pf].
  split; cbn [held next].
  - apply WF_put; [destruct h; [apply WF_drop|]; exact W|]. eapply Hf; eauto.
  - apply below_put. destruct h; [apply below_drop|]; exact B.
Qed.

Lemma copy_items_wf' l : forallb wf_opt l = true ->
  (forall l', copy_items pcre l = Ok l' -> forallb wf_opt l' = true) /\
  (forall f, copy_items pcre l = Fault f -> f = Abort).
Proof.
  apply copy_items_wf. apply Forall_forall. intros [y|] _; cbn [PO]; [|exact I]. intros Wy. now apply copy_wf.
Qed.
Lemma relabel_items_wfl' l n : forallb wf_opt (fst (relabel_items l n)) = forallb wf_opt l.
Proof.
  apply relabel_items_wfl. apply Forall_forall. intros [y|] _; cbn [PO]; [|exact I]. intros m. apply relabel_wf.
Qed.
Lemma items_ok_list l : forallb wf_opt l = true -> items_ok IList l = true.
Proof. unfold items_ok. intros H. rewrite forallb_forall in *. intros x Hx. cbn. now apply H. Qed.
Lemma items_ok_wfl i l : items_ok i l = true -> forallb wf_opt l = true.
Proof.
  unfold items_ok. intros H. rewrite forallb_forall in *. intros x Hx. specialize (H x Hx).
  now apply andb_prop in H as (_ & H).
Qed.

Lemma project_safe w m dst sel : Good w ->
  (forall e x, sel e = Ok x -> wf e = true -> wf_opt x = true) ->
  (forall e g, sel e = Fault g -> g = Abort) ->
  (forall k v, exists y, sel (OPair (Some k) (Some v)) = Ok (Some y)) ->
  Safe (project pcre w m dst sel).
Proof.
  intros (W & B) Hs Hg Hsome. unfold project.
  destruct (get w m) as [mo|g] eqn:Gm; cbn [bind]; [|apply get_fault in Gm; subst; cbn; pf].
  destruct (as_cont mo) as [[[[[i k] a] al] xs]|g] eqn:Ac; cbn [bind]; [|apply as_cont_fault in Ac; subst; cbn; pf].
  destruct (want_iface i IMap) as [u|g] eqn:Wi; cbn [bind]; [|apply want_iface_fault in Wi; subst; cbn; pf].
  apply want_iface_ok in Wi. subst i. apply as_cont_ok in Ac. subst mo. apply get_ok in Gm.
  pose proof (WF_lookup _ _ _ W Gm) as Wm. rewrite wf_cont_items in Wm.
  (* the selection succeeds on a well-formed map and selects non-NULL members *)
  assert (Sel : forall l, items_ok IMap l = true ->
            match (fix go (l : list (option obj)) : res (list (option obj)) :=
                     match l with
                     | [] => Ok []
                     | None :: _ => Fault Null_deref
                     | Some e :: t => x <- sel e ;; t' <- go t ;; Ok (x :: t')
                     end) l with
            | Ok sels => forallb wf_opt sels = true /\
                         forallb (fun x : option obj => match x with Some _ => true | None => false end) sels = true
            | Fault g => g = Abort
            end).
  { induction l as [|s t IH]; intros Hl; [auto|].
    rewrite items_ok_cons in Hl. apply andb_prop in Hl as (Hs1 & Ht). apply andb_prop in Hs1 as (Hi & Hw).
    destruct (item_ok_map_some s Hi) as (pk & pv & ->). specialize (IH Ht).
    destruct (Hsome pk pv) as (y & Ey). rewrite Ey. cbn [bind].
    match type of IH with match ?G with _ => _ end => destruct G as [sels|g] end; cbn [bind]; [|exact IH].
    destruct IH as (A1 & A2). cbn [forallb]. rewrite A1, A2. split; [|reflexivity].
    rewrite (Hs _ _ Ey Hw). reflexivity. }
  specialize (Sel xs Wm).
  match goal with |- Safe (x <- ?S ;; _) => destruct S as [sels|g] end; cbn [bind]; [|subst; cbn; pf].
  destruct Sel as (Ws & Ns). rewrite Ns. cbn [negb].
  destruct (copy_items_wf' sels Ws) as (Cw & Cf).
  destruct (copy_items pcre sels) as [picked|g] eqn:Ep; cbn [bind]; [|rewrite (Cf g eq_refl); cbn; pf].
  specialize (Cw picked eq_refl).
  destruct dst as [dh|].
  - destruct (Nat.eqb dh m); [cbn; pf|].
    destruct (get w dh) as [d0|g] eqn:Gd; cbn [bind]; [|apply get_fault in Gd; subst; cbn; pf].
    destruct (as_cont d0) as [[[[[i2 k2] a2] al2] ys]|g] eqn:Ad; cbn [bind]; [|apply as_cont_fault in Ad; subst; cbn; pf].
    destruct (want_iface i2 IList) as [u2|g] eqn:Wi2; cbn [bind]; [|apply want_iface_fault in Wi2; subst; cbn; pf].
    apply want_iface_ok in Wi2. subst i2. apply as_cont_ok in Ad. subst d0. apply get_ok in Gd.
    pose proof (WF_lookup _ _ _ W Gd) as Wd. rewrite wf_cont_items in Wd.
    pose proof (relabel_items_wfl' picked (naddr w)) as Rw.
    destruct (relabel_items picked (naddr w)) as [fresh na]. cbn [fst] in Rw. cbn [Safe]. split; cbn [held next].
    + apply WF_put; [exact W|]. rewrite wf_cont_items, items_ok_app, Wd. apply items_ok_list. now rewrite Rw.
    + now apply below_put.
  - pose proof (relabel_items_wfl' picked (naddr w + 1)) as Rw.
    destruct (relabel_items picked (naddr w + 1)) as [fresh na]. cbn [fst] in Rw. cbn [Safe].
    match goal with |- match hand_back w ?r ?h ?n ?l with _ => _ end =>
      pose proof (hand_back_good w r h n l W B) as G; destruct (hand_back w r h n l) end.
    apply G. cbn [wf_opt]. rewrite wf_cont_items. apply items_ok_list. now rewrite Rw.
Qed.

Lemma done_state_wf x : wf (done_state x) = true.
Proof.
  destruct x; try reflexivity. cbn [done_state]. rewrite wf_url_items.
  induction comps as [|c t IH]; [reflexivity|]. cbn. exact IH.
Qed.
Lemma opt_str_wf o : wf_opt (opt_str o) = true.
Proof. destruct o; reflexivity. Qed.
Lemma url_comps_wf s : forallb wf_opt (url_comps s) = true.
Proof.
  unfold url_comps. cbv zeta. cbn [forallb]. rewrite !opt_str_wf. reflexivity.
Qed.
Lemma tok_tokens_ok ch src sep : items_ok IList (tok_tokens ch src sep) = true.
Proof.
  unfold tok_tokens. induction (map SplitModel.trim (smq ch sep false 0 src)) as [|t u IH]; [reflexivity|].
  cbn [map]. rewrite items_ok_cons, IH. destruct t; reflexivity.
Qed.
Lemma comp_text_fault x g : comp_text x = Fault g -> g = Abort.
Proof. destruct x as [[]|]; cbn; intros E; inv E; reflexivity. Qed.
Lemma url_unparse_safe cs : forallb wf_opt cs = true ->
  match url_unparse cs with Ok (_, cs') => forallb wf_opt cs' = true | Fault g => g = Abort end.
Proof.
  intros W. unfold url_unparse.
  destruct (comp_text (nth_comp cs 0)) as [o0|g] eqn:E0; cbn [bind]; [|now apply comp_text_fault in E0].
  destruct (comp_text (nth_comp cs 1)) as [o1|g] eqn:E1; cbn [bind]; [|now apply comp_text_fault in E1].
  destruct (comp_text (nth_comp cs 2)) as [o2|g] eqn:E2; cbn [bind]; [|now apply comp_text_fault in E2].
  destruct (comp_text (nth_comp cs 3)) as [o3|g] eqn:E3; cbn [bind]; [|now apply comp_text_fault in E3].
  destruct (comp_text (nth_comp cs 4)) as [o4|g] eqn:E4; cbn [bind]; [|now apply comp_text_fault in E4].
  destruct (comp_text (nth_comp cs 5)) as [o5|g] eqn:E5; cbn [bind]; [|now apply comp_text_fault in E5].
  destruct (comp_text (nth_comp cs 6)) as [o6|g] eqn:E6; cbn [bind]; [|now apply comp_text_fault in E6].
  destruct o4, o3; try exact W. now apply forallb_wf_upd.
Qed.

Lemma map_scan_safe ko : forall l n0, items_ok IMap l = true ->
  match map_scan ko l n0 with Ok _ => True | Fault g => g = Abort end.
Proof.
  induction l as [|s t IH]; intros n0 Hl; [exact I|]. cbn [map_scan]. fold (map_scan ko).
  rewrite items_ok_cons in Hl. apply andb_prop in Hl as (Hs1 & Ht). apply andb_prop in Hs1 as (Hi & _).
  destruct (item_ok_map_some s Hi) as (pk & pv & ->). cbn [comp_elem].
  destruct (comp (OPair (Some pk) (Some pv)) ko) as [cr|g] eqn:Ec; cbn [bind]; [|now apply comp_fault in Ec].
  destruct (is_eq cr); [exact I|]. now apply IH.
Qed.

Lemma map_set_safe w m ko vo : Good w -> wf ko = true -> wf vo = true -> Safe (map_set pcre w m ko vo).
Proof.
  intros G Wk Wv. pose proof G as (W & B). unfold map_set.
    destruct (get w m) as [mo|g] eqn:Gm; cbn [bind]; [|apply get_fault in Gm; subst; cbn; pf].
    destruct (as_cont mo) as [[[[[i c] a] al] xs]|g] eqn:Ac; cbn [bind]; [|apply as_cont_fault in Ac; subst; cbn; pf].
    destruct (want_iface i IMap) as [u|g] eqn:Wi; cbn [bind]; [|apply want_iface_fault in Wi; subst; cbn; pf].
    match goal with |- Safe (if ?c then _ else _) => destruct c end; [cbn; pf|].
    apply want_iface_ok in Wi. subst i. apply as_cont_ok in Ac. subst mo. apply get_ok in Gm.
    pose proof (WF_lookup _ _ _ W Gm) as Wm. rewrite wf_cont_items in Wm.
    pose proof (map_scan_safe ko xs O Wm) as Scan.
    destruct (map_scan ko xs O) as [hit|g] eqn:Hit; cbn [bind]; [|subst; cbn; pf].
    destruct (copy_wf pcre vo Wv) as (Pv & Qv).
    destruct (copy pcre vo) as [v'|g]; cbn [bind]; [|rewrite (Qv g eq_refl); cbn; pf].
    specialize (Pv v' eq_refl).
    destruct hit as [n|].
    + apply scan_hit_lt in Hit.
      pose proof (items_ok_nth IMap xs n Wm ltac:(lia)) as Nn.
      destruct (nth n xs None) as [e|] eqn:En; [|cbn; pf].
      apply andb_prop in Nn as (Ni & Nw).
      destruct (item_ok_map_some _ Ni) as (pk & pv & Epair). inv Epair.
      pose proof (relabel_wf v' (naddr w)) as Rv. destruct (relabel v' (naddr w)) as [v2 na]. cbn [fst] in Rv.
      cbn [Safe]. split; cbn [held next]; [|now apply below_put].
      apply WF_put; [exact W|]. rewrite wf_cont_items. apply items_ok_upd; [exact Wm|].
      cbn [wf_opt] in Nw. rewrite wf_pair in Nw. apply andb_prop in Nw as (Nk & _).
      change (item_ok IMap (Some (OPair (Some pk) (Some v2)))) with true. cbn [andb wf_opt].
      rewrite wf_pair, Nk. cbn [wf_opt andb]. now rewrite Rv.
    + destruct (copy_wf pcre ko Wk) as (Pk & Qk).
      destruct (copy pcre ko) as [k'|g]; cbn [bind]; [|rewrite (Qk g eq_refl); cbn; pf].
      specialize (Pk k' eq_refl).
      pose proof (relabel_wf (OPair (Some k') (Some v')) (naddr w)) as Rp.
      pose proof (relabel_opt_item IMap (Some (OPair (Some k') (Some v'))) (naddr w)) as Ri. cbn [relabel_opt] in Ri.
      destruct (relabel (OPair (Some k') (Some v')) (naddr w)) as [pr na]. cbn [fst] in Rp, Ri.
      destruct (c_insert c pr xs) as [xs'|g] eqn:Ci; cbn [bind]; [|apply c_insert_fault in Ci; subst; cbn; pf].
      cbn [Safe]. split; cbn [held next]; [|now apply below_put].
      apply WF_put; [exact W|]. rewrite wf_cont_items. eapply c_insert_ok; [exact Ci|exact Wm|].
      rewrite Ri, Rp, wf_pair. cbn [item_ok wf_opt]. now rewrite Pk, Pv.
Qed.

Theorem step_safe w op : Good w -> Safe (step pcre flag_table w op).
Proof.
  intros G. pose proof G as (W & B). destruct op; cbn [step].
  - apply fresh_safe; auto.
  - apply fresh_safe; auto.
  - apply fresh_safe; auto.
  - apply fresh_safe; auto.
  - (* NewPair *)
    destruct (get_opt w k) as [ko|g] eqn:Gk; cbn [bind]; [|apply get_opt_fault in Gk; subst; cbn; pf].
    destruct (get_opt w v) as [vo|g] eqn:Gv; cbn [bind]; [|apply get_opt_fault in Gv; subst; cbn; pf].
    match goal with |- Safe (if ?c then _ else _) => destruct c end; [cbn; pf|].
    pose proof (get_opt_wf w k ko W Gk) as Wk. pose proof (get_opt_wf w v vo W Gv) as Wv.
    assert (A : forall x, wf_opt x = true ->
                match copy_opt pcre x with Ok x' => wf_opt x' = true | Fault g => g = Abort end).
    { intros [y|] Wy; cbn [copy_opt]; [|reflexivity]. destruct (copy_wf pcre y Wy) as (P & Q).
      destruct (copy pcre y) as [y'|g]; cbn [bind]; [now apply P|now apply Q]. }
    pose proof (A ko Wk) as Ak. destruct (copy_opt pcre ko) as [k'|g]; cbn [bind]; [|subst; cbn; pf].
    pose proof (A vo Wv) as Av. destruct (copy_opt pcre vo) as [v'|g]; cbn [bind]; [|subst; cbn; pf].
    apply fresh_safe; [exact G|]. rewrite wf_pair. now rewrite Ak, Av.
  - apply fresh_safe; [exact G|]. destruct t; reflexivity.
  - destruct t; (apply fresh_safe; [exact G|]); [rewrite wf_url_items; apply url_comps_wf|reflexivity].
  - destruct t; apply fresh_safe; auto.
  - apply fresh_safe; auto.
  - (* Dup *)
    destruct (get w h) as [x|g] eqn:Gh; cbn [bind]; [|apply get_fault in Gh; subst; cbn; pf].
    match goal with |- Safe (_ <- ?gg ;; _) => destruct gg as [u|g] eqn:Eg end; cbn [bind].
    2:{ destruct x; try discriminate.
        destruct (get w subject) as [so|g2] eqn:Gs; cbn [bind] in Eg; [|inv Eg; apply get_fault in Gs; subst; cbn; pf].
        destruct (as_cont so) as [?|g3] eqn:As; cbn [bind] in Eg; [discriminate|]. inv Eg. apply as_cont_fault in As. subst. cbn; pf. }
    apply get_ok in Gh. pose proof (WF_lookup _ _ _ W Gh) as Wx.
    destruct (copy_wf pcre x Wx) as (P & Q).
    destruct (copy pcre x) as [y|g]; cbn [bind]; [|rewrite (Q g eq_refl); cbn; pf].
    apply fresh_safe; [exact G|now apply P].
  - (* Done *)
    destruct (get w h) as [x|g] eqn:Gh; cbn [bind]; [|apply get_fault in Gh; subst; cbn; pf].
    destruct x; try (putgood W B; apply done_state_wf).
    cbn; pf.
  - (* Init *)
    destruct (get w h) as [x|g] eqn:Gh; cbn [bind]; [|apply get_fault in Gh; subst; cbn; pf].
    destruct x; try (cbn; pf);
      (destruct (is_empty_state _); [|cbn; pf]; putgood W B; apply done_state_wf).
  - (* Del *)
    destruct (get w h) as [x|g] eqn:Gh; cbn [bind]; [|apply get_fault in Gh; subst; cbn; pf].
    cbn [Safe]. split; cbn [held next]; [now apply WF_drop|now apply below_drop].
  - (* Comp *)
    destruct (get_opt w a) as [x|g] eqn:Ga; cbn [bind]; [|apply get_opt_fault in Ga; subst; cbn; pf].
    destruct (get_opt w b) as [y|g] eqn:Gb; cbn [bind]; [|apply get_opt_fault in Gb; subst; cbn; pf].
    match goal with |- Safe (if ?c then _ else _) => destruct c end; [cbn; pf|].
    destruct (comp_opt x y) as [c|g] eqn:Ec; cbn [bind Safe]; [exact G|].
    destruct x as [x'|], y as [y'|]; cbn [comp_opt] in Ec; try discriminate. apply comp_fault in Ec. subst. pf.
  - destruct (get w h) as [x|g] eqn:Gh; cbn [bind]; [|apply get_fault in Gh; subst; cbn; pf].
    destruct x; cbn [Safe]; try exact G. pf.
  - destruct (get w h) as [x|g] eqn:Gh; cbn [bind]; [|apply get_fault in Gh; subst; cbn; pf]. exact G.
  - exact G.
  - (* DelAll *) cbn [Safe]. split; cbn [held next]; constructor.
  - (* Append *)
    destruct (get w h) as [x|g] eqn:Gh; cbn [bind]; [|apply get_fault in Gh; subst; cbn; pf].
    destruct x as [?|s|s|s|? ?|? ? ?|? ?|? ? ?|? ? ? ? ?|? ?|]; try (cbn; pf);
      (destruct t; cbv beta iota zeta; putgood W B; reflexivity).
  - (* Substr *)
    destruct (get w h) as [x|g] eqn:Gh; cbn [bind]; [|apply get_fault in Gh; subst; cbn; pf].
    destruct x; try (cbn; pf);
      (match goal with |- Safe (match ?s with _ => _ end) => destruct s end;
       [apply fresh_safe; [exact G|reflexivity]
       |cbn [Safe]; pose proof (hand_back_good w None (held w) (naddr w) (ledger w) W B eq_refl) as HG;
        destruct (hand_back w None (held w) (naddr w) (ledger w)); exact HG]).
  - (* SetKey *)
    apply setter_safe; [exact G| |].
    + intros po x po' old F Wp Wx. destruct po; try discriminate. inv F.
      rewrite wf_pair in *. apply andb_prop in Wp as (_ & Wv). now rewrite Wx, Wv.
    + intros po x g F. destruct po; inv F; reflexivity.
  - apply setter_safe; [exact G| |].
    + intros po x po' old F Wp Wx. destruct po; try discriminate. inv F.
      rewrite wf_pair in *. apply andb_prop in Wp as (Wk & _). now rewrite Wx, Wk.
    + intros po x g F. destruct po; inv F; reflexivity.
  - (* TokEval *)
    destruct (get w t) as [x|g] eqn:Gh; cbn [bind]; [|apply get_fault in Gh; subst; cbn; pf].
    apply get_ok in Gh. pose proof (WF_lookup _ _ _ W Gh) as Wx.
    destruct x; try (cbn; pf). destruct src as [[]|]; try (cbn; pf).
    + destruct sep as [[]|]; cbn [bind]; try (cbn; pf);
        (putgood W B; rewrite wf_tok in *; cbn [wf_opt] in *;
         apply andb_prop in Wx as (Wab & _); rewrite Wab, wf_cont_items; apply tok_tokens_ok).
    + exact G.
  - (* TokSetSrc *)
    apply setter_safe; [exact G| |].
    + intros po x po' old F Wp Wx. destruct po; try discriminate.
      rewrite wf_tok in Wp. apply andb_prop in Wp as (Wab & Wc). apply andb_prop in Wab as (Wa & Wb).
      destruct x as [[]|]; try discriminate; inv F; rewrite wf_tok; cbn [wf_opt] in *; now rewrite Wb, Wc.
    + intros po x g F. destruct po; try (inv F; reflexivity). destruct x as [[]|]; inv F; reflexivity.
  - apply setter_safe; [exact G| |].
    + intros po x po' old F Wp Wx. destruct po; try discriminate.
      rewrite wf_tok in Wp. apply andb_prop in Wp as (Wab & Wc). apply andb_prop in Wab as (Wa & Wb).
      destruct x as [[]|]; try discriminate; inv F; rewrite wf_tok; cbn [wf_opt] in *; now rewrite Wa, Wc.
    + intros po x g F. destruct po; try (inv F; reflexivity). destruct x as [[]|]; inv F; reflexivity.
  - (* UrlSet *)
    apply setter_safe; [exact G| |].
    + intros po x po' old F Wp Wx. destruct po; try discriminate. rewrite wf_url_items in Wp.
      destruct x as [[]|]; try discriminate;
        (destruct (field <? length comps)%nat; [|discriminate]; inv F; rewrite wf_url_items; now apply forallb_wf_upd).
    + intros po x g F. destruct po; try (inv F; reflexivity).
      destruct x as [[]|]; try (inv F; reflexivity); (destruct (field <? length comps)%nat; inv F; reflexivity).
  - (* UrlUnparse *)
    destruct (get w u) as [x|g] eqn:Gh; cbn [bind]; [|apply get_fault in Gh; subst; cbn; pf].
    apply get_ok in Gh. pose proof (WF_lookup _ _ _ W Gh) as Wx.
    destruct x; try (cbn; pf). rewrite wf_url_items in Wx.
    pose proof (url_unparse_safe comps Wx) as U.
    destruct (url_unparse comps) as [[t cs']|g]; cbn [bind Safe]; [|subst; pf].
    split; cbn [held next]; [apply WF_put; [exact W|now rewrite wf_url_items]|now apply below_put].
  - destruct (get w r) as [x|g] eqn:Gh; cbn [bind]; [|apply get_fault in Gh; subst; cbn; pf].
    destruct x; try (cbn; pf). cbn [Safe]. split; cbn [held next]; [apply WF_put; [exact W|reflexivity]|now apply below_put].
  - destruct (get w r) as [x|g] eqn:Gh; cbn [bind]; [|apply get_fault in Gh; subst; cbn; pf].
    destruct x; try (cbn; pf). cbn [Safe]. split; cbn [held next]; [apply WF_put; [exact W|reflexivity]|now apply below_put].
  - (* LAppend *)
    apply (give_safe w c h IList); [exact G|intros []; congruence| |].
    + intros k x xs xs' F Hx Wx Sx. inv F. rewrite items_ok_app, Hx, items_ok_cons. cbn. now rewrite Wx.
    + intros k x xs g F. discriminate.
  - apply (give_safe w c h IList); [exact G|intros []; congruence| |].
    + intros k x xs xs' F Hx Wx Sx. inv F. rewrite items_ok_cons, Hx. cbn. now rewrite Wx.
    + intros k x xs g F. discriminate.
  - apply (give_safe w c h IList); [exact G|intros []; congruence| |].
    + intros k x xs xs' F Hx Wx Sx. destruct (c_insert k x xs) as [xs1|] eqn:Ci; cbn [bind] in F; [|discriminate]. inv F.
      eapply c_insert_ok; eauto.
    + intros k x xs g F. destruct (c_insert k x xs) as [xs1|g1] eqn:Ci; cbn [bind] in F; [discriminate|]. inv F.
      now apply c_insert_fault in Ci.
  - apply (give_safe w c h IList); [exact G|intros []; congruence| |].
    + intros k x xs xs' F Hx Wx Sx. destruct (norm_idx (llen xs) idx <? 0); [discriminate|]. inv F. now apply ins_at_ok.
    + intros k x xs g F. destruct (norm_idx (llen xs) idx <? 0); discriminate.
  - (* LRemove *)
    destruct (get w p) as [po|g] eqn:Gp; cbn [bind]; [|apply get_fault in Gp; subst; cbn; pf].
    apply (take_safe w c IList); [exact G|intros []; congruence| |].
    + intros xs xs' x fd F Hx. destruct (rem_first po xs) as [[xs1 r1]|] eqn:R; cbn [bind] in F; [|discriminate]. inv F.
      eapply rem_first_ok; eauto.
    + intros xs g Hx F. destruct (rem_first po xs) as [[xs1 r1]|g1] eqn:R; cbn [bind] in F; [discriminate|]. inv F.
      now apply rem_first_fault in R.
  - apply (take_safe w c IList); [exact G|intros []; congruence| |].
    + intros xs xs' x fd F Hx. destruct (in_range xs idx) as [n|] eqn:R; inv F.
      * split; [now apply rem_nth_ok|].
        pose proof (items_ok_nth IList xs n Hx (in_range_lt xs idx n R)) as N. now apply andb_prop in N as (_ & N).
      * auto.
    + intros xs g Hx F. destruct (in_range xs idx); discriminate.
  - (* LReverse *)
    destruct (get w c) as [co|g] eqn:Gc; cbn [bind]; [|apply get_fault in Gc; subst; cbn; pf].
    destruct (as_cont co) as [[[[[i k] a] al] xs]|g] eqn:Ac; cbn [bind]; [|apply as_cont_fault in Ac; subst; cbn; pf].
    destruct (want_iface i IList) as [u|g] eqn:Wi; cbn [bind]; [|apply want_iface_fault in Wi; subst; cbn; pf].
    apply as_cont_ok in Ac. subst co. apply get_ok in Gc.
    pose proof (WF_lookup _ _ _ W Gc) as Wc. rewrite wf_cont_items in Wc.
    cbn [Safe]. split; cbn [held next]; [apply WF_put; [exact W|]; rewrite wf_cont_items; now apply items_ok_rev|now apply below_put].
  - (* VInsert *)
    apply (give_safe w c h IVector); [exact G|intros []; congruence| |].
    + intros k x xs xs' F Hx Wx Sx. destruct (c_insert k x xs) as [xs1|] eqn:Ci; cbn [bind] in F; [|discriminate]. inv F.
      eapply c_insert_ok; eauto.
    + intros k x xs g F. destruct (c_insert k x xs) as [xs1|g1] eqn:Ci; cbn [bind] in F; [discriminate|]. inv F.
      now apply c_insert_fault in Ci.
  - destruct (get w p) as [po|g] eqn:Gp; cbn [bind]; [|apply get_fault in Gp; subst; cbn; pf].
    apply (take_safe w c IVector); [exact G|intros []; congruence| |].
    + intros xs xs' x fd F Hx. destruct (rem_first po xs) as [[xs1 r1]|] eqn:R; cbn [bind] in F; [|discriminate]. inv F.
      eapply rem_first_ok; eauto.
    + intros xs g Hx F. destruct (rem_first po xs) as [[xs1 r1]|g1] eqn:R; cbn [bind] in F; [discriminate|]. inv F.
      now apply rem_first_fault in R.
  - (* MSet *)
    destruct (get w m) as [mo|g] eqn:Gm; cbn [bind]; [|apply get_fault in Gm; subst; cbn; pf].
    destruct (get w k) as [ko|g] eqn:Gk; cbn [bind]; [|apply get_fault in Gk; subst; cbn; pf].
    destruct (get w v) as [vo|g] eqn:Gv; cbn [bind]; [|apply get_fault in Gv; subst; cbn; pf].
    match goal with |- Safe (if ?c then _ else _) => destruct c end; [cbn; pf|].
    apply get_ok in Gk, Gv.
    apply map_set_safe; [exact G|exact (WF_lookup _ _ _ W Gk)|exact (WF_lookup _ _ _ W Gv)].
  - (* MSetPair *)
    destruct (get w m) as [mo|g] eqn:Gm; cbn [bind]; [|apply get_fault in Gm; subst; cbn; pf].
    destruct (get w p) as [po|g] eqn:Gp; cbn [bind]; [|apply get_fault in Gp; subst; cbn; pf].
    match goal with |- Safe (if ?c then _ else _) => destruct c end; [cbn; pf|].
    apply get_ok in Gp. pose proof (WF_lookup _ _ _ W Gp) as Wp.
    destruct po as [| | | |[pk|] [pv|]| | | | | |]; try (cbn; pf).
    rewrite wf_pair in Wp. apply andb_prop in Wp as (Wk & Wv). cbn [wf_opt] in Wk, Wv.
    apply map_set_safe; assumption.
  - (* MSetOwn *)
    destruct (get w m) as [mo|g] eqn:Gm; cbn [bind]; [|apply get_fault in Gm; subst; cbn; pf].
    destruct (get w k) as [ko|g] eqn:Gk; cbn [bind]; [|apply get_fault in Gk; subst; cbn; pf].
    destruct (as_cont mo) as [[[[[i c] a] al] xs]|g] eqn:Ac; cbn [bind]; [|apply as_cont_fault in Ac; subst; cbn; pf].
    destruct (want_iface i IMap) as [u|g] eqn:Wi; cbn [bind]; [|apply want_iface_fault in Wi; subst; cbn; pf].
    match goal with |- Safe (if ?c then _ else _) => destruct c end; [cbn; pf|].
    apply want_iface_ok in Wi. subst i. apply as_cont_ok in Ac. subst mo. apply get_ok in Gm, Gk.
    pose proof (WF_lookup _ _ _ W Gm) as Wm. rewrite wf_cont_items in Wm.
    pose proof (WF_lookup _ _ _ W Gk) as Wk.
    pose proof (map_scan_safe ko xs O Wm) as Scan.
    destruct (map_scan ko xs O) as [[n|]|g] eqn:Hit; cbn [bind]; [| |subst; cbn; pf].
    + apply scan_hit_lt in Hit.
      pose proof (items_ok_nth IMap xs n Wm ltac:(lia)) as Nn.
      destruct (nth n xs None) as [e|] eqn:En; [|cbn; pf].
      apply andb_prop in Nn as (Ni & Nw).
      destruct (item_ok_map_some _ Ni) as (pk & pv & Epair). inv Epair.
      cbn [wf_opt] in Nw. rewrite wf_pair in Nw. apply andb_prop in Nw as (Nk & Nv). cbn [wf_opt] in Nk, Nv.
      apply map_set_safe; [exact G|destruct pairform; assumption|exact Nv].
    + exact G.
  - (* MRemove *)
    destruct (get w k) as [ko|g] eqn:Gk; cbn [bind]; [|apply get_fault in Gk; subst; cbn; pf].
    apply (take_safe w m IMap); [exact G|intros []; congruence| |].
    + intros xs xs' x fd F Hx. destruct (mrem_first ko xs) as [[xs1 r1]|] eqn:R; cbn [bind] in F; [|discriminate]. inv F.
      eapply mrem_first_ok; eauto.
    + intros xs g Hx F. destruct (mrem_first ko xs) as [[xs1 r1]|g1] eqn:R; cbn [bind] in F; [discriminate|]. inv F.
      eapply mrem_first_fault; eauto.
  - (* MKeys *)
    apply project_safe; [exact G| | |].
    + intros e x F We. destruct e; try discriminate. inv F. rewrite wf_pair in We. now apply andb_prop in We as (A & _).
    + intros e g F. destruct e; inv F; reflexivity.
    + intros pk pv. eexists. reflexivity.
  - apply project_safe; [exact G| | |].
    + intros e x F We. destruct e; try discriminate. inv F. rewrite wf_pair in We. now apply andb_prop in We as (_ & A).
    + intros e g F. destruct e; inv F; reflexivity.
    + intros pk pv. eexists. reflexivity.
  - apply project_safe; [exact G| | |].
    + intros e x F We. destruct e; try discriminate. inv F. exact We.
    + intros e g F. destruct e; inv F; reflexivity.
    + intros pk pv. eexists. reflexivity.
  - (* ToArray *)
    destruct (get w c) as [co|g] eqn:Gc; cbn [bind]; [|apply get_fault in Gc; subst; cbn; pf].
    destruct (as_cont co) as [?|g] eqn:Ac; cbn [bind]; [|apply as_cont_fault in Ac; subst; cbn; pf].
    cbn [Safe]. pose proof (hand_back_good w (Some ORaw) (held w) (naddr w) (ledger w + 1) W B eq_refl) as HG.
    destruct (hand_back w (Some ORaw) (held w) (naddr w) (ledger w + 1)). exact HG.
  - destruct (get w c) as [co|g] eqn:Gc; cbn [bind]; [|apply get_fault in Gc; subst; cbn; pf].
    destruct (as_cont co) as [[[[[i k] a] al] xs]|g] eqn:Ac; cbn [bind]; [|apply as_cont_fault in Ac; subst; cbn; pf].
    cbn [Safe]. pose proof (hand_back_good w (Some (OIter k c)) (held w) (naddr w) (ledger w + 1) W B eq_refl) as HG.
    destruct (hand_back w (Some (OIter k c)) (held w) (naddr w) (ledger w + 1)). exact HG.
  - (* Query *)
    destruct (get w c) as [co|g] eqn:Gc; cbn [bind]; [|apply get_fault in Gc; subst; cbn; pf].
    destruct (get w h) as [po|g] eqn:Gh; cbn [bind]; [|apply get_fault in Gh; subst; cbn; pf].
    destruct (as_cont co) as [[[[[i k] a] al] xs]|g] eqn:Ac; cbn [bind]; [|apply as_cont_fault in Ac; subst; cbn; pf].
    match goal with |- Safe (if ?c then _ else _) => destruct c end; [cbn; pf|].
    destruct (query_walk i po xs); [exact G|cbn; pf].
  - (* TokSetChar *)
    destruct (get w t) as [x|g] eqn:Gh; cbn [bind]; [|apply get_fault in Gh; subst; cbn; pf].
    apply get_ok in Gh. pose proof (WF_lookup _ _ _ W Gh) as Wx.
    match goal with |- Safe (if ?c then _ else _) => destruct c end; [cbn; pf|].
    destruct x; try (cbn; pf). destruct which as [|[|[|?]]]; try (cbn; pf);
      (putgood W B; rewrite wf_tok in *; exact Wx).
  - (* TokSetTokens *)
    apply setter_safe; [exact G| |].
    + intros po x po' old F Wp Wx. destruct po; try discriminate.
      rewrite wf_tok in Wp. apply andb_prop in Wp as (Wab & Wc).
      destruct x as [[| | | | | | | |[] ? ? ? ?| |]|]; try discriminate; inv F; rewrite wf_tok; rewrite Wab; [exact Wx|reflexivity].
    + intros po x g F. destruct po; try (inv F; reflexivity).
      destruct x as [[| | | | | | | |[] ? ? ? ?| |]|]; inv F; reflexivity.
  - (* TokListRemoveAt *)
    destruct (get w t) as [x|g] eqn:Gh; cbn [bind]; [|apply get_fault in Gh; subst; cbn; pf].
    apply get_ok in Gh. pose proof (WF_lookup _ _ _ W Gh) as Wx.
    destruct x as [| | | | |a0 b0 [[| | | | | | | |[] k ad al xs| |]|] ch| | | | |]; try (cbn; pf).
    rewrite wf_tok in Wx. apply andb_prop in Wx as (Wab & Wc). cbn [wf_opt] in Wc. rewrite wf_cont_items in Wc.
    destruct (in_range xs idx) as [n|] eqn:R; cbn [Safe].
    + match goal with |- match hand_back w ?r ?h ?na ?l with _ => _ end =>
        pose proof (hand_back_good w r h na l) as HG; destruct (hand_back w r h na l) end.
      apply HG; [apply WF_put; [exact W|]|now apply below_put|].
      * rewrite wf_tok, Wab. cbn [wf_opt andb]. rewrite wf_cont_items. now apply rem_nth_ok.
      * pose proof (items_ok_nth IList xs n Wc (in_range_lt xs idx n R)) as N. now apply andb_prop in N as (_ & N).
    + pose proof (hand_back_good w None (held w) (naddr w) (ledger w) W B eq_refl) as HG.
      destruct (hand_back w None (held w) (naddr w) (ledger w)). exact HG.
  - (* TokListAppend *)
    destruct (get w t) as [x|g] eqn:Gt; cbn [bind]; [|apply get_fault in Gt; subst; cbn; pf].
    destruct (Nat.eqb t h); [cbn; pf|].
    destruct (get w h) as [y|g] eqn:Gh; cbn [bind]; [|apply get_fault in Gh; subst; cbn; pf].
    destruct (storable y) eqn:Sy; cbn [negb]; [|cbn; pf].
    apply get_ok in Gt, Gh. pose proof (WF_lookup _ _ _ W Gt) as Wx. pose proof (WF_lookup _ _ _ W Gh) as Wy.
    destruct x as [| | | | |a0 b0 [[| | | | | | | |[] k ad al xs| |]|] ch| | | | |]; try (cbn; pf).
    rewrite wf_tok in Wx. apply andb_prop in Wx as (Wab & Wc). cbn [wf_opt] in Wc. rewrite wf_cont_items in Wc.
    cbn [Safe]. split; cbn [held next].
    + apply WF_put; [now apply WF_drop|]. rewrite wf_tok, Wab. cbn [wf_opt andb].
      rewrite wf_cont_items, items_ok_app, Wc, items_ok_cons. cbn. now rewrite Wy.
    + apply below_put. now apply below_drop.
  - (* MemberAppend *)
    destruct (get w h) as [x|g] eqn:Gh; cbn [bind]; [|apply get_fault in Gh; subst; cbn; pf].
    apply get_ok in Gh. pose proof (WF_lookup _ _ _ W Gh) as Wx.
    assert (MA : forall m t0, match member_app m t0 with Ok (m', _) => wf_opt m' = true | Fault g => g = Abort end).
    { intros [[]|] t0; cbn [member_app]; try reflexivity; destruct (app_text _ t0); reflexivity. }
    destruct x as [| | | |pk pv|a0 b0 l0 ch|us cs| | | |]; try (cbn; pf).
    + rewrite wf_pair in Wx. apply andb_prop in Wx as (Wk & Wv).
      destruct sel as [|[|?]]; try (cbn; pf).
      * pose proof (MA pk t) as M. destruct (member_app pk t) as [[m' d]|g]; cbn [bind]; [|subst; cbn; pf].
        putgood W B. rewrite wf_pair. now rewrite M, Wv.
      * pose proof (MA pv t) as M. destruct (member_app pv t) as [[m' d]|g]; cbn [bind]; [|subst; cbn; pf].
        putgood W B. rewrite wf_pair. now rewrite M, Wk.
    + rewrite wf_tok in Wx. apply andb_prop in Wx as (Wab & Wc). apply andb_prop in Wab as (Wa & Wb).
      destruct sel as [|[|?]]; try (cbn; pf).
      * pose proof (MA a0 t) as M. destruct (member_app a0 t) as [[m' d]|g]; cbn [bind]; [|subst; cbn; pf].
        putgood W B. rewrite wf_tok. now rewrite M, Wb, Wc.
      * pose proof (MA b0 t) as M. destruct (member_app b0 t) as [[m' d]|g]; cbn [bind]; [|subst; cbn; pf].
        putgood W B. rewrite wf_tok. now rewrite M, Wa, Wc.
    + rewrite wf_url_items in Wx. destruct (sel <? length cs)%nat; [|cbn; pf].
      pose proof (MA (nth_comp cs sel) t) as M.
      destruct (member_app (nth_comp cs sel) t) as [[m' d]|g]; cbn [bind]; [|subst; cbn; pf].
      putgood W B. rewrite wf_url_items. now apply forallb_wf_upd.
  - (* SetLen *)
    destruct (get w h) as [x|g] eqn:Gh; cbn [bind]; [|apply get_fault in Gh; subst; cbn; pf].
    destruct (k <? 0).
    + destruct x; try (cbn; pf); exact G.
    + destruct x as [| | |mb| | | | | | |]; try (cbn; pf).
      match goal with |- Safe (if ?c then _ else _) => destruct c end; [cbn; pf|].
      putgood W B. reflexivity.
  - (* NewFromStream *)
    assert (ST : forall f, stream_text c v k content pos = Fault f -> f = Abort).
    { unfold stream_text. intros f. destruct ((pos <? 0) || (Z.of_nat (length content) <? pos)); [intros E; inv E; reflexivity|].
      destruct k, v; try discriminate; try (intros E; inv E; reflexivity);
        (destruct (negb (pos =? 0)); intros E; inv E; reflexivity). }
    destruct (stream_text c v k content pos) as [[bo|]|g] eqn:Es; cbn [bind]; [| |rewrite (ST g eq_refl); cbn; pf].
    + apply fresh_safe; [exact G|]. destruct c; reflexivity.
    + cbn [Safe]. pose proof (hand_back_good w None (held w) (naddr w) (ledger w) W B eq_refl) as HG.
      destruct (hand_back w None (held w) (naddr w) (ledger w)). exact HG.
Qed.

Lemma good_w0 : Good w0.
Proof. split; constructor. Qed.

(* programs: the world stays good; a program only ever faults with a program error *)
Theorem run_safe : forall p w, Good w ->
  match run pcre flag_table w p with Ok (w', _) => Good w' | Fault f => prog_fault f end.
Proof.
  induction p as [|o t IH]; intros w G; cbn [run]; [exact G|].
  pose proof (step_safe w o G) as S. destruct (step pcre flag_table w o) as [[w1 r]|f]; cbn [bind]; [|exact S].
  specialize (IH w1 S). destruct (run pcre flag_table w1 t) as [[w2 rs]|f]; cbn [bind]; exact IH.
Qed.
End StepSafe.
