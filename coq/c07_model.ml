
(** val negb : bool -> bool **)

let negb = function
| true -> false
| false -> true

type nat =
| O
| S of nat

(** val option_map : ('a1 -> 'a2) -> 'a1 option -> 'a2 option **)

let option_map f = function
| Some a -> Some (f a)
| None -> None

(** val snd : ('a1 * 'a2) -> 'a2 **)

let snd = function
| (_, y) -> y

(** val length : 'a1 list -> nat **)

let rec length = function
| [] -> O
| _ :: l' -> S (length l')

(** val app : 'a1 list -> 'a1 list -> 'a1 list **)

let rec app l m =
  match l with
  | [] -> m
  | a :: l1 -> a :: (app l1 m)

type comparison =
| Eq
| Lt
| Gt

(** val compOpp : comparison -> comparison **)

let compOpp = function
| Eq -> Eq
| Lt -> Gt
| Gt -> Lt

module Coq__1 = struct
 (** val add : nat -> nat -> nat **)
 let rec add n0 m =
   match n0 with
   | O -> m
   | S p -> S (add p m)
end
include Coq__1

(** val sub : nat -> nat -> nat **)

let rec sub n0 m =
  match n0 with
  | O -> n0
  | S k -> (match m with
            | O -> n0
            | S l -> sub k l)

module Nat =
 struct
  (** val eqb : nat -> nat -> bool **)

  let rec eqb n0 m =
    match n0 with
    | O -> (match m with
            | O -> true
            | S _ -> false)
    | S n' -> (match m with
               | O -> false
               | S m' -> eqb n' m')

  (** val leb : nat -> nat -> bool **)

  let rec leb n0 m =
    match n0 with
    | O -> true
    | S n' -> (match m with
               | O -> false
               | S m' -> leb n' m')

  (** val ltb : nat -> nat -> bool **)

  let ltb n0 m =
    leb (S n0) m
 end

(** val nth_error : 'a1 list -> nat -> 'a1 option **)

let rec nth_error l = function
| O -> (match l with
        | [] -> None
        | x :: _ -> Some x)
| S n1 -> (match l with
           | [] -> None
           | _ :: l0 -> nth_error l0 n1)

(** val rev : 'a1 list -> 'a1 list **)

let rec rev = function
| [] -> []
| x :: l' -> app (rev l') (x :: [])

(** val map : ('a1 -> 'a2) -> 'a1 list -> 'a2 list **)

let rec map f = function
| [] -> []
| a :: t -> (f a) :: (map f t)

(** val fold_right : ('a2 -> 'a1 -> 'a1) -> 'a1 -> 'a2 list -> 'a1 **)

let rec fold_right f a0 = function
| [] -> a0
| b :: t -> f b (fold_right f a0 t)

(** val firstn : nat -> 'a1 list -> 'a1 list **)

let rec firstn n0 l =
  match n0 with
  | O -> []
  | S n1 -> (match l with
             | [] -> []
             | a :: l0 -> a :: (firstn n1 l0))

(** val skipn : nat -> 'a1 list -> 'a1 list **)

let rec skipn n0 l =
  match n0 with
  | O -> l
  | S n1 -> (match l with
             | [] -> []
             | _ :: l0 -> skipn n1 l0)

(** val repeat : 'a1 -> nat -> 'a1 list **)

let rec repeat x = function
| O -> []
| S k -> x :: (repeat x k)

type positive =
| XI of positive
| XO of positive
| XH

type n =
| N0
| Npos of positive

type z =
| Z0
| Zpos of positive
| Zneg of positive

module Pos =
 struct
  (** val succ : positive -> positive **)

  let rec succ = function
  | XI p -> XO (succ p)
  | XO p -> XI p
  | XH -> XO XH

  (** val add : positive -> positive -> positive **)

  let rec add x y =
    match x with
    | XI p ->
      (match y with
       | XI q -> XO (add_carry p q)
       | XO q -> XI (add p q)
       | XH -> XO (succ p))
    | XO p ->
      (match y with
       | XI q -> XI (add p q)
       | XO q -> XO (add p q)
       | XH -> XI p)
    | XH -> (match y with
             | XI q -> XO (succ q)
             | XO q -> XI q
             | XH -> XO XH)

  (** val add_carry : positive -> positive -> positive **)

  and add_carry x y =
    match x with
    | XI p ->
      (match y with
       | XI q -> XI (add_carry p q)
       | XO q -> XO (add_carry p q)
       | XH -> XI (succ p))
    | XO p ->
      (match y with
       | XI q -> XO (add_carry p q)
       | XO q -> XI (add p q)
       | XH -> XO (succ p))
    | XH ->
      (match y with
       | XI q -> XI (succ q)
       | XO q -> XO (succ q)
       | XH -> XI XH)

  (** val pred_double : positive -> positive **)

  let rec pred_double = function
  | XI p -> XI (XO p)
  | XO p -> XI (pred_double p)
  | XH -> XH

  (** val compare_cont : comparison -> positive -> positive -> comparison **)

  let rec compare_cont r x y =
    match x with
    | XI p ->
      (match y with
       | XI q -> compare_cont r p q
       | XO q -> compare_cont Gt p q
       | XH -> Gt)
    | XO p ->
      (match y with
       | XI q -> compare_cont Lt p q
       | XO q -> compare_cont r p q
       | XH -> Gt)
    | XH -> (match y with
             | XH -> r
             | _ -> Lt)

  (** val compare : positive -> positive -> comparison **)

  let compare =
    compare_cont Eq

  (** val eqb : positive -> positive -> bool **)

  let rec eqb p q =
    match p with
    | XI p0 -> (match q with
                | XI q0 -> eqb p0 q0
                | _ -> false)
    | XO p0 -> (match q with
                | XO q0 -> eqb p0 q0
                | _ -> false)
    | XH -> (match q with
             | XH -> true
             | _ -> false)

  (** val iter_op : ('a1 -> 'a1 -> 'a1) -> positive -> 'a1 -> 'a1 **)

  let rec iter_op op0 p a =
    match p with
    | XI p0 -> op0 a (iter_op op0 p0 (op0 a a))
    | XO p0 -> iter_op op0 p0 (op0 a a)
    | XH -> a

  (** val to_nat : positive -> nat **)

  let to_nat x =
    iter_op Coq__1.add x (S O)

  (** val of_succ_nat : nat -> positive **)

  let rec of_succ_nat = function
  | O -> XH
  | S x -> succ (of_succ_nat x)
 end

module Z =
 struct
  (** val double : z -> z **)

  let double = function
  | Z0 -> Z0
  | Zpos p -> Zpos (XO p)
  | Zneg p -> Zneg (XO p)

  (** val succ_double : z -> z **)

  let succ_double = function
  | Z0 -> Zpos XH
  | Zpos p -> Zpos (XI p)
  | Zneg p -> Zneg (Pos.pred_double p)

  (** val pred_double : z -> z **)

  let pred_double = function
  | Z0 -> Zneg XH
  | Zpos p -> Zpos (Pos.pred_double p)
  | Zneg p -> Zneg (XI p)

  (** val pos_sub : positive -> positive -> z **)

  let rec pos_sub x y =
    match x with
    | XI p ->
      (match y with
       | XI q -> double (pos_sub p q)
       | XO q -> succ_double (pos_sub p q)
       | XH -> Zpos (XO p))
    | XO p ->
      (match y with
       | XI q -> pred_double (pos_sub p q)
       | XO q -> double (pos_sub p q)
       | XH -> Zpos (Pos.pred_double p))
    | XH ->
      (match y with
       | XI q -> Zneg (XO q)
       | XO q -> Zneg (Pos.pred_double q)
       | XH -> Z0)

  (** val add : z -> z -> z **)

  let add x y =
    match x with
    | Z0 -> y
    | Zpos x' ->
      (match y with
       | Z0 -> x
       | Zpos y' -> Zpos (Pos.add x' y')
       | Zneg y' -> pos_sub x' y')
    | Zneg x' ->
      (match y with
       | Z0 -> x
       | Zpos y' -> pos_sub y' x'
       | Zneg y' -> Zneg (Pos.add x' y'))

  (** val opp : z -> z **)

  let opp = function
  | Z0 -> Z0
  | Zpos x0 -> Zneg x0
  | Zneg x0 -> Zpos x0

  (** val sub : z -> z -> z **)

  let sub m n0 =
    add m (opp n0)

  (** val compare : z -> z -> comparison **)

  let compare x y =
    match x with
    | Z0 -> (match y with
             | Z0 -> Eq
             | Zpos _ -> Lt
             | Zneg _ -> Gt)
    | Zpos x' -> (match y with
                  | Zpos y' -> Pos.compare x' y'
                  | _ -> Gt)
    | Zneg x' ->
      (match y with
       | Zneg y' -> compOpp (Pos.compare x' y')
       | _ -> Lt)

  (** val leb : z -> z -> bool **)

  let leb x y =
    match compare x y with
    | Gt -> false
    | _ -> true

  (** val ltb : z -> z -> bool **)

  let ltb x y =
    match compare x y with
    | Lt -> true
    | _ -> false

  (** val eqb : z -> z -> bool **)

  let eqb x y =
    match x with
    | Z0 -> (match y with
             | Z0 -> true
             | _ -> false)
    | Zpos p -> (match y with
                 | Zpos q -> Pos.eqb p q
                 | _ -> false)
    | Zneg p -> (match y with
                 | Zneg q -> Pos.eqb p q
                 | _ -> false)

  (** val max : z -> z -> z **)

  let max n0 m =
    match compare n0 m with
    | Lt -> m
    | _ -> n0

  (** val min : z -> z -> z **)

  let min n0 m =
    match compare n0 m with
    | Gt -> m
    | _ -> n0

  (** val to_nat : z -> nat **)

  let to_nat = function
  | Zpos p -> Pos.to_nat p
  | _ -> O

  (** val of_nat : nat -> z **)

  let of_nat = function
  | O -> Z0
  | S n1 -> Zpos (Pos.of_succ_nat n1)
 end

type fault =
| OOB_read
| OOB_write
| Uninit_read
| Null_deref
| Use_after_free
| Bad_free
| Out_of_fuel
| Int_overflow
| Abort

type 'a res =
| Ok of 'a
| Fault of fault

(** val bind : 'a1 res -> ('a1 -> 'a2 res) -> 'a2 res **)

let bind r k =
  match r with
  | Ok a -> k a
  | Fault f -> Fault f

(** val num_anchor : ((nat * positive) * n) * z **)

let num_anchor =
  (((O, XH), N0), Z0)

type cell = z option

type buf = cell list

(** val blen : buf -> z **)

let blen b =
  Z.of_nat (length b)

(** val rdn : buf -> nat -> z res **)

let rdn b i =
  match nth_error b i with
  | Some c -> (match c with
               | Some v -> Ok v
               | None -> Fault Uninit_read)
  | None -> Fault OOB_read

(** val upd : 'a1 list -> nat -> 'a1 -> 'a1 list **)

let rec upd l n0 v =
  match l with
  | [] -> []
  | x :: t -> (match n0 with
               | O -> v :: t
               | S n' -> x :: (upd t n' v))

(** val wrn : buf -> nat -> z -> buf res **)

let wrn b i v =
  if Nat.ltb i (length b) then Ok (upd b i (Some v)) else Fault OOB_write

(** val rd : buf -> z -> z res **)

let rd b i =
  if Z.ltb i Z0 then Fault OOB_read else rdn b (Z.to_nat i)

(** val wr : buf -> z -> z -> buf res **)

let wr b i v =
  if Z.ltb i Z0 then Fault OOB_write else wrn b (Z.to_nat i) v

(** val bytes : z list -> buf **)

let bytes s =
  map (fun x -> Some x) s

(** val isspace : z -> bool **)

let isspace c =
  (||)
    ((&&) (Z.leb (Zpos (XI (XO (XO XH)))) c)
      (Z.leb c (Zpos (XI (XO (XI XH))))))
    (Z.eqb c (Zpos (XO (XO (XO (XO (XO XH)))))))

(** val mbuff_buff_inc : z **)

let mbuff_buff_inc =
  Zpos (XO (XO (XO (XO (XO (XO (XO (XO (XO (XO (XO (XO XH))))))))))))

type mb = { buff : buf option; len : z; size : z }

(** val buff_inc : z **)

let buff_inc =
  mbuff_buff_inc

(** val mALLOC : z -> buf option res **)

let mALLOC n0 =
  if Z.ltb n0 Z0
  then Fault Int_overflow
  else Ok (Some (repeat None (Z.to_nat n0)))

(** val rEALLOC : buf option -> z -> buf option res **)

let rEALLOC p n0 =
  if Z.ltb n0 Z0
  then Fault Int_overflow
  else if Z.eqb n0 Z0
       then Ok None
       else (match p with
             | Some b ->
               Ok (Some
                 (app (firstn (Z.to_nat n0) b)
                   (repeat None (sub (Z.to_nat n0) (length b)))))
             | None -> mALLOC n0)

(** val cells_at : buf -> z -> z -> cell list res **)

let cells_at b off n0 =
  if (||) ((||) (Z.ltb off Z0) (Z.ltb n0 Z0)) (Z.ltb (blen b) (Z.add off n0))
  then Fault OOB_read
  else Ok (firstn (Z.to_nat n0) (skipn (Z.to_nat off) b))

(** val put_at : buf -> z -> cell list -> buf res **)

let put_at b off cs =
  if (||) (Z.ltb off Z0) (Z.ltb (blen b) (Z.add off (Z.of_nat (length cs))))
  then Fault OOB_write
  else Ok
         (app (firstn (Z.to_nat off) b)
           (app cs (skipn (add (Z.to_nat off) (length cs)) b)))

(** val pcells : buf option -> z -> z -> cell list res **)

let pcells p off n0 =
  if Z.ltb n0 Z0
  then Fault OOB_read
  else if Z.eqb n0 Z0
       then Ok []
       else (match p with
             | Some b -> cells_at b off n0
             | None -> Fault Null_deref)

(** val pput : buf option -> z -> cell list -> buf option res **)

let pput p off cs = match cs with
| [] -> Ok p
| _ :: _ ->
  (match p with
   | Some b -> bind (put_at b off cs) (fun b' -> Ok (Some b'))
   | None -> Fault Null_deref)

(** val all_init : cell list -> z list res **)

let rec all_init = function
| [] -> Ok []
| c :: t ->
  (match c with
   | Some v -> bind (all_init t) (fun r -> Ok (v :: r))
   | None -> Fault Uninit_read)

(** val pbytes : buf option -> z -> z -> z list res **)

let pbytes p off n0 =
  bind (pcells p off n0) all_init

(** val prd : buf option -> z -> z res **)

let prd p i =
  match p with
  | Some b -> rd b i
  | None -> Fault Null_deref

(** val memcpy : buf option -> z -> buf option -> z -> z -> buf option res **)

let memcpy d doff s soff n0 =
  bind (pcells s soff n0) (fun cs -> pput d doff cs)

(** val memmove_in : buf option -> z -> z -> z -> buf option res **)

let memmove_in d doff soff n0 =
  bind (pcells d soff n0) (fun cs -> pput d doff cs)

(** val memset : buf option -> z -> z -> z -> buf option res **)

let memset d off c n0 =
  if Z.ltb n0 Z0
  then Fault OOB_write
  else pput d off (repeat (Some c) (Z.to_nat n0))

(** val memcmp_l : z list -> z list -> z **)

let rec memcmp_l a b =
  match a with
  | [] -> Z0
  | x :: a' ->
    (match b with
     | [] -> Z0
     | y :: b' ->
       if Z.ltb x y
       then Zneg XH
       else if Z.ltb y x then Zpos XH else memcmp_l a' b')

(** val memcmp : buf option -> buf option -> z -> z res **)

let memcmp p q n0 =
  bind (pbytes p Z0 n0) (fun a ->
    bind (pbytes q Z0 n0) (fun b -> Ok (memcmp_l a b)))

(** val prefixb : z list -> z list -> bool **)

let rec prefixb n0 h =
  match n0 with
  | [] -> true
  | x :: n' ->
    (match h with
     | [] -> false
     | y :: h' -> (&&) (Z.eqb x y) (prefixb n' h'))

(** val search : z list -> z list -> z -> z option **)

let rec search n0 h i =
  if prefixb n0 h
  then Some i
  else (match h with
        | [] -> None
        | _ :: h' -> search n0 h' (Z.add i (Zpos XH)))

(** val memmem : buf option -> z -> buf option -> z -> z option res **)

let memmem hay hl needle nl =
  bind (pbytes hay Z0 hl) (fun h ->
    bind (pbytes needle Z0 nl) (fun n0 ->
      match hay with
      | Some _ -> Ok (search n0 h Z0)
      | None -> Ok None))

(** val sgn : z -> z **)

let sgn c =
  if Z.ltb c Z0 then Zneg XH else if Z.ltb Z0 c then Zpos XH else Z0

(** val cmp_z : z -> z -> z **)

let cmp_z a b =
  if Z.ltb a b then Zneg XH else if Z.ltb b a then Zpos XH else Z0

type ev =
| Data of z list
| Short of z list
| EINTR
| EOF
| Err

type rdres =
| RData of z list
| REintr
| RErr

(** val sysread : ev list -> z -> rdres * ev list **)

let sysread s n0 =
  match s with
  | [] -> ((RData []), [])
  | e :: r ->
    (match e with
     | Data bs ->
       if Z.leb (Z.of_nat (length bs)) n0
       then ((RData bs), r)
       else ((RData (firstn (Z.to_nat n0) bs)), ((Data
              (skipn (Z.to_nat n0) bs)) :: r))
     | Short bs ->
       if Z.leb (Z.of_nat (length bs)) n0
       then ((RData bs), r)
       else ((RData (firstn (Z.to_nat n0) bs)), ((Short
              (skipn (Z.to_nat n0) bs)) :: r))
     | EINTR -> (REintr, r)
     | EOF -> ((RData []), r)
     | Err -> (RErr, r))

(** val ev_weight : ev -> nat **)

let ev_weight = function
| Data bs -> S (length bs)
| Short bs -> S (length bs)
| _ -> S O

(** val sched_fuel : ev list -> nat **)

let sched_fuel s =
  S (fold_right (fun e a -> add (ev_weight e) a) O s)

type fkind =
| Seekable of z * z
| Stream

(** val fread :
    nat -> ev list -> z -> z list -> (((z list * bool) * bool) * ev list) res **)

let rec fread fuel s n0 acc =
  match fuel with
  | O -> Fault Out_of_fuel
  | S f ->
    if Z.leb n0 Z0
    then Ok (((acc, false), false), s)
    else let (r, s') = sysread s n0 in
         (match r with
          | RData bs ->
            (match bs with
             | [] -> Ok (((acc, true), false), s')
             | _ :: _ ->
               fread f s' (Z.sub n0 (Z.of_nat (length bs))) (app acc bs))
          | _ -> Ok (((acc, false), true), s'))

(** val mb_null : mb **)

let mb_null =
  { buff = None; len = Z0; size = Z0 }

(** val init : bool * mb **)

let init =
  (true, mb_null)

(** val init_from_ptr : buf option -> z -> (bool * mb) res **)

let init_from_ptr old n0 =
  match old with
  | Some _ ->
    bind (mALLOC n0) (fun b ->
      bind (memcpy b Z0 old Z0 n0) (fun b' -> Ok (true, { buff = b'; len =
        n0; size = n0 })))
  | None -> Ok init

(** val init_from_buff_at : buf option -> z -> z -> z -> (bool * mb) res **)

let init_from_buff_at p off n0 sz =
  let l = match p with
          | Some _ -> n0
          | None -> Z0 in
  let s = Z.max sz l in
  bind (mALLOC s) (fun b ->
    bind (match p with
          | Some _ -> memcpy b Z0 p off l
          | None -> Ok b) (fun b' -> Ok (true, { buff = b'; len = l; size =
      s })))

(** val init_from_buff : buf option -> z -> z -> (bool * mb) res **)

let init_from_buff p n0 sz =
  init_from_buff_at p Z0 n0 sz

(** val stream_finish : buf option -> z -> (bool * mb) res **)

let stream_finish b ln =
  bind (rEALLOC b ln) (fun b' -> Ok (true, { buff = b'; len = ln; size =
    ln }))

(** val fd_loop :
    nat -> ev list -> buf option -> z -> z -> (buf option * z) res **)

let rec fd_loop fuel s b ln sz =
  match fuel with
  | O -> Fault Out_of_fuel
  | S f ->
    let (r, s') = sysread s buff_inc in
    (match r with
     | RData bs ->
       (match bs with
        | [] -> Ok (b, ln)
        | _ :: _ ->
          bind (pput b ln (bytes bs)) (fun b1 ->
            let ln' = Z.add ln (Z.of_nat (length bs)) in
            if Z.ltb (Z.sub sz ln') buff_inc
            then bind (rEALLOC b1 (Z.add sz buff_inc)) (fun b2 ->
                   fd_loop f s' b2 ln' (Z.add sz buff_inc))
            else fd_loop f s' b1 ln' sz))
     | REintr -> fd_loop f s' b ln sz
     | RErr -> Ok (b, ln))

(** val init_from_fd : fkind -> ev list -> (bool * mb) res **)

let init_from_fd k s =
  let fsize = match k with
              | Seekable (_, fs) -> fs
              | Stream -> Zneg XH in
  if Z.ltb fsize Z0
  then bind (mALLOC buff_inc) (fun b ->
         bind (fd_loop (sched_fuel s) s b Z0 buff_inc) (fun x ->
           let (b', ln) = x in stream_finish b' ln))
  else bind (mALLOC fsize) (fun b ->
         let (r, _) = sysread s fsize in
         (match r with
          | RData bs ->
            (match bs with
             | [] -> Ok (false, mb_null)
             | _ :: _ ->
               bind (pput b Z0 (bytes bs)) (fun b' -> Ok (true, { buff = b';
                 len = (Z.of_nat (length bs)); size = fsize })))
          | _ -> Ok (false, mb_null)))

(** val fp_loop :
    nat -> ev list -> buf option -> z -> z -> (buf option * z) res **)

let rec fp_loop fuel s b ln sz =
  match fuel with
  | O -> Fault Out_of_fuel
  | S f ->
    bind (fread (sched_fuel s) s buff_inc []) (fun x ->
      let (p, s') = x in
      let (p0, err) = p in
      let (bs, eof) = p0 in
      (match bs with
       | [] -> Ok (b, ln)
       | _ :: _ ->
         bind (pput b ln (bytes bs)) (fun b1 ->
           let ln' = Z.add ln (Z.of_nat (length bs)) in
           if (||) eof err
           then Ok (b1, ln')
           else bind (rEALLOC b1 (Z.add sz buff_inc)) (fun b2 ->
                  fp_loop f s' b2 ln' (Z.add sz buff_inc)))))

(** val init_from_fp : fkind -> ev list -> (bool * mb) res **)

let init_from_fp k s =
  match k with
  | Seekable (_, fsize) ->
    if Z.leb fsize Z0
    then Ok (false, mb_null)
    else bind (mALLOC fsize) (fun b ->
           bind (fread (sched_fuel s) s fsize []) (fun x ->
             let (p, _) = x in
             let (p0, _) = p in
             let (bs, _) = p0 in
             (match bs with
              | [] -> Ok (false, mb_null)
              | _ :: _ ->
                bind (pput b Z0 (bytes bs)) (fun b' -> Ok (true, { buff = b';
                  len = (Z.of_nat (length bs)); size = fsize })))))
  | Stream ->
    bind (mALLOC buff_inc) (fun b ->
      bind (fp_loop (sched_fuel s) s b Z0 buff_inc) (fun x ->
        let (b', ln) = x in stream_finish b' ln))

(** val done0 : mb -> bool * mb **)

let done0 m =
  if Z.eqb m.size Z0 then (true, m) else (true, mb_null)

(** val dup : mb -> mb res **)

let dup m =
  bind (mALLOC m.size) (fun b ->
    bind (memcpy b Z0 m.buff Z0 m.size) (fun b' -> Ok { buff = b'; len =
      m.len; size = m.size }))

(** val append : mb -> mb option -> (bool * mb) res **)

let append m = function
| Some o ->
  if (&&) (negb (Z.eqb o.size Z0)) (negb (Z.eqb o.len Z0))
  then let sz = Z.add m.size o.size in
       bind (rEALLOC m.buff sz) (fun b ->
         bind (memcpy b m.len o.buff Z0 o.len) (fun b' -> Ok (true, { buff =
           b'; len = (Z.add m.len o.len); size = sz })))
  else Ok (true, m)
| None -> Ok (false, m)

(** val append_from_ptr : mb -> buf option -> z -> (bool * mb) res **)

let append_from_ptr m p n0 =
  match p with
  | Some _ ->
    if negb (Z.eqb n0 Z0)
    then let sz = Z.add m.size n0 in
         bind (rEALLOC m.buff sz) (fun b ->
           bind (memcpy b m.len p Z0 n0) (fun b' -> Ok (true, { buff = b';
             len = (Z.add m.len n0); size = sz })))
    else Ok (true, m)
  | None -> Ok (false, m)

(** val clear : mb -> z -> (bool * mb) res **)

let clear m c =
  bind (memset m.buff Z0 c m.len) (fun b -> Ok (true, { buff = b; len =
    m.len; size = m.size }))

(** val cmp : mb -> mb option -> z res **)

let cmp m = function
| Some o ->
  bind (memcmp m.buff o.buff (Z.min m.len o.len)) (fun c ->
    if Z.eqb c Z0 then Ok (cmp_z m.len o.len) else Ok (sgn c))
| None -> Ok (Zpos XH)

(** val cmp_with_ptr : mb -> buf option -> z -> z res **)

let cmp_with_ptr m p n0 =
  match p with
  | Some _ ->
    bind (memcmp m.buff p (Z.min n0 m.size)) (fun c ->
      if (&&) (Z.eqb c Z0) (Z.ltb m.size n0) then Ok (Zneg XH) else Ok (sgn c))
  | None -> Ok (Zpos XH)

(** val ncmp : mb -> mb option -> z -> z res **)

let ncmp m other cnt =
  match other with
  | Some o ->
    if (||) ((||) (Z.ltb cnt Z0) (Z.ltb m.len cnt)) (Z.ltb o.len cnt)
    then cmp m other
    else bind (memcmp m.buff o.buff cnt) (fun c -> Ok (sgn c))
  | None -> Ok (Zpos XH)

(** val find_gen : mb -> buf option -> z -> z res **)

let find_gen m np nl =
  bind (memmem m.buff m.len np nl) (fun r ->
    match r with
    | Some i -> Ok i
    | None -> Ok m.len)

(** val find : mb -> mb option -> z res **)

let find m = function
| Some o -> find_gen m o.buff o.len
| None -> Ok (Zneg XH)

(** val find_from_ptr : mb -> buf option -> z -> z res **)

let find_from_ptr m p n0 =
  match p with
  | Some _ -> find_gen m p n0
  | None -> Ok (Zneg XH)

(** val index_loop : nat -> buf option -> z -> z -> z -> z res **)

let rec index_loop fuel b ln c i =
  match fuel with
  | O -> Fault Out_of_fuel
  | S f ->
    if Z.ltb i ln
    then bind (prd b i) (fun v ->
           if Z.eqb v c then Ok i else index_loop f b ln c (Z.add i (Zpos XH)))
    else Ok i

(** val index : mb -> z -> z res **)

let index m c =
  index_loop (S (Z.to_nat m.len)) m.buff m.len c Z0

(** val rindex_loop : nat -> buf option -> z -> z -> z -> z res **)

let rec rindex_loop fuel b ln c i =
  match fuel with
  | O -> Fault Out_of_fuel
  | S f ->
    if Z.leb Z0 i
    then bind (prd b i) (fun v ->
           if Z.eqb v c
           then Ok i
           else rindex_loop f b ln c (Z.sub i (Zpos XH)))
    else Ok ln

(** val rindex : mb -> z -> z res **)

let rindex m c =
  rindex_loop (S (Z.to_nat m.len)) m.buff m.len c (Z.sub m.len (Zpos XH))

(** val prepend : mb -> mb option -> (bool * mb) res **)

let prepend m = function
| Some o ->
  if (&&) (negb (Z.eqb o.size Z0)) (negb (Z.eqb o.len Z0))
  then let sz = Z.add m.size o.size in
       bind (rEALLOC m.buff sz) (fun b ->
         bind (memmove_in b o.len Z0 m.len) (fun b1 ->
           bind (memcpy b1 Z0 o.buff Z0 o.len) (fun b2 -> Ok (true, { buff =
             b2; len = (Z.add m.len o.len); size = sz }))))
  else Ok (true, m)
| None -> Ok (false, m)

(** val prepend_from_ptr : mb -> buf option -> z -> (bool * mb) res **)

let prepend_from_ptr m p n0 =
  match p with
  | Some _ ->
    if negb (Z.eqb n0 Z0)
    then let sz = Z.add m.size n0 in
         bind (rEALLOC m.buff sz) (fun b ->
           bind (memmove_in b n0 Z0 m.len) (fun b1 ->
             bind (memcpy b1 Z0 p Z0 n0) (fun b2 -> Ok (true, { buff = b2;
               len = (Z.add m.len n0); size = sz }))))
    else Ok (true, m)
  | None -> Ok (false, m)

(** val rev_loop : nat -> buf -> z -> z -> buf res **)

let rec rev_loop fuel b i j =
  match fuel with
  | O -> Fault Out_of_fuel
  | S f ->
    if Z.ltb j i
    then bind (rd b j) (fun x ->
           bind (rd b i) (fun y ->
             bind (wr b j y) (fun b1 ->
               bind (wr b1 i x) (fun b2 ->
                 rev_loop f b2 (Z.sub i (Zpos XH)) (Z.add j (Zpos XH))))))
    else Ok b

(** val reverse : mb -> (bool * mb) res **)

let reverse m =
  match m.buff with
  | Some b ->
    bind (rev_loop (S (Z.to_nat m.len)) b (Z.sub m.len (Zpos XH)) Z0)
      (fun b' -> Ok (true, { buff = (Some b'); len = m.len; size = m.size }))
  | None -> Ok (false, m)

(** val splice_pos : z -> z -> z -> (z * z) option **)

let splice_pos ln idx cnt =
  let idx0 = if Z.ltb idx Z0 then Z.add ln idx else idx in
  if Z.ltb idx0 Z0
  then None
  else if negb (Z.ltb idx0 ln)
       then None
       else let cnt0 = if Z.ltb cnt Z0 then Z.add (Z.add idx0 ln) cnt else cnt
            in
            if Z.ltb cnt0 Z0
            then None
            else if negb (Z.leb cnt0 (Z.sub ln idx0))
                 then None
                 else Some (idx0, cnt0)

(** val splice_gen : mb -> z -> z -> buf option -> z -> (bool * mb) res **)

let splice_gen m idx cnt np nl =
  match splice_pos m.len idx cnt with
  | Some p ->
    let (idx0, cnt0) = p in
    let newsize = Z.sub (Z.add m.len nl) cnt0 in
    bind (mALLOC newsize) (fun tmp ->
      bind (if Z.ltb Z0 idx0 then memcpy tmp Z0 m.buff Z0 idx0 else Ok tmp)
        (fun tmp1 ->
        bind (memcpy tmp1 idx0 np Z0 nl) (fun tmp2 ->
          bind
            (memcpy tmp2 (Z.add idx0 nl) m.buff (Z.add idx0 cnt0)
              (Z.sub (Z.sub m.len idx0) cnt0)) (fun tmp3 ->
            bind
              (if Z.ltb m.size newsize
               then bind (rEALLOC m.buff newsize) (fun b -> Ok (b, newsize))
               else Ok (m.buff, m.size)) (fun x ->
              let (b, sz) = x in
              bind (memcpy b Z0 tmp3 Z0 newsize) (fun b' -> Ok (true,
                { buff = b'; len = newsize; size = sz })))))))
  | None -> Ok (false, m)

(** val splice : mb -> z -> z -> mb option -> (bool * mb) res **)

let splice m idx cnt = function
| Some o -> splice_gen m idx cnt o.buff o.len
| None -> splice_gen m idx cnt None Z0

(** val splice_from_ptr :
    mb -> z -> z -> buf option -> z -> (bool * mb) res **)

let splice_from_ptr m idx cnt p n0 =
  splice_gen m idx cnt p (match p with
                          | Some _ -> n0
                          | None -> Z0)

type fmt =
| FNull
| FEmpty
| FOut of z list

(** val sprintf : mb -> fmt -> (bool * mb) res **)

let sprintf m f =
  let m1 = match m.buff with
           | Some _ -> snd (done0 m)
           | None -> m in
  (match f with
   | FNull -> Ok (false, m1)
   | FEmpty -> Ok (true, m1)
   | FOut bs ->
     let c = Z.of_nat (length bs) in
     if Z.leb c Z0
     then Ok (false, m1)
     else bind (mALLOC (Z.add c (Zpos XH))) (fun b ->
            bind (pput b Z0 (app (bytes bs) ((Some Z0) :: []))) (fun b' -> Ok
              (true, { buff = b'; len = c; size = (Z.add c (Zpos XH)) }))))

(** val sub_pos : z -> z -> z -> (z * z) option **)

let sub_pos ln idx cnt =
  let idx0 = if Z.ltb idx Z0 then Z.add ln idx else idx in
  if Z.ltb idx0 Z0
  then None
  else if negb (Z.ltb idx0 ln)
       then None
       else let cnt0 = if Z.leb cnt Z0 then Z.add (Z.sub ln idx0) cnt else cnt
            in
            if Z.ltb cnt0 Z0
            then None
            else Some (idx0, (Z.min cnt0 (Z.sub ln idx0)))

(** val subbuff : mb -> z -> z -> mb option res **)

let subbuff m idx cnt =
  match sub_pos m.len idx cnt with
  | Some p ->
    let (idx0, cnt0) = p in
    (match m.buff with
     | Some _ ->
       bind (init_from_buff_at m.buff idx0 cnt0 cnt0) (fun x ->
         let (_, o) = x in Ok (Some o))
     | None -> Fault Null_deref)
  | None -> Ok None

(** val subbuff_to_ptr : mb -> z -> z -> buf option res **)

let subbuff_to_ptr m idx cnt =
  match sub_pos m.len idx cnt with
  | Some p ->
    let (idx0, cnt0) = p in
    bind (mALLOC (Z.add cnt0 (Zpos XH))) (fun b ->
      bind (memcpy b Z0 m.buff idx0 cnt0) (fun b1 ->
        bind (pput b1 cnt0 ((Some Z0) :: [])) (fun b2 -> Ok b2)))
  | None -> Ok None

(** val trim_fwd : nat -> buf option -> z -> z -> z res **)

let rec trim_fwd fuel b s e =
  match fuel with
  | O -> Fault Out_of_fuel
  | S f ->
    if Z.leb s e
    then bind (prd b s) (fun v ->
           if isspace v then trim_fwd f b (Z.add s (Zpos XH)) e else Ok s)
    else Ok s

(** val trim_bwd : nat -> buf option -> z -> z -> z res **)

let rec trim_bwd fuel b s e =
  match fuel with
  | O -> Fault Out_of_fuel
  | S f ->
    if Z.ltb s e
    then bind (prd b e) (fun v ->
           if isspace v then trim_bwd f b s (Z.sub e (Zpos XH)) else Ok e)
    else Ok e

(** val trim : mb -> (bool * mb) res **)

let trim m =
  if Z.eqb m.len Z0
  then Ok (true, m)
  else let fuel = S (Z.to_nat m.len) in
       bind (trim_fwd fuel m.buff Z0 (Z.sub m.len (Zpos XH))) (fun s ->
         bind (trim_bwd fuel m.buff s (Z.sub m.len (Zpos XH))) (fun e ->
           if Z.ltb e s
           then Ok (done0 m)
           else let ln = Z.add (Z.sub e s) (Zpos XH) in
                bind
                  (if Z.ltb Z0 s then memmove_in m.buff Z0 s ln else Ok m.buff)
                  (fun b1 ->
                  if negb (Z.eqb m.size ln)
                  then bind (rEALLOC b1 ln) (fun b2 -> Ok (true, { buff = b2;
                         len = ln; size = ln }))
                  else Ok (true, { buff = b1; len = ln; size = m.size }))))

type ptr = z list option

(** val pbuf : ptr -> buf option **)

let pbuf p =
  option_map bytes p

type ctor =
| CNew
| CPtr of ptr * z
| CBuff of ptr * z * z
| CFp of fkind * ev list
| CFd of fkind * ev list

type op =
| Done
| Dup
| DupTo
| Append of mb option
| AppendPtr of ptr * z
| Prepend of mb option
| PrependPtr of ptr * z
| Splice of z * z * mb option
| SplicePtr of z * z * ptr * z
| Subbuff of z * z
| SubbuffPtr of z * z
| Trim
| Reverse
| Clear of z
| Sprintf of fmt
| Cmp of mb option
| CmpPtr of ptr * z
| Ncmp of mb option * z
| NcmpPtr of ptr * z
| Find of mb option
| FindPtr of ptr * z
| Index of z
| Rindex of z
| GetLen
| GetSize
| SetLen of z
| SetSize of z

type mout =
| MBool of bool
| MIdx of z
| MCmp of z
| MObj of mb option
| MPtr of buf option
| MSize of z

(** val run_ctor : ctor -> (bool * mb) res **)

let run_ctor = function
| CNew -> Ok init
| CPtr (p, n0) -> init_from_ptr (pbuf p) n0
| CBuff (p, n0, sz) -> init_from_buff (pbuf p) n0 sz
| CFp (k, s) -> init_from_fp k s
| CFd (k, s) -> init_from_fd k s

(** val lift : (bool * mb) res -> (mout * mb) res **)

let lift r =
  bind r (fun x -> let (b, m) = x in Ok ((MBool b), m))

(** val step : mb -> op -> (mout * mb) res **)

let step m = function
| Done -> lift (Ok (done0 m))
| Dup -> bind (dup m) (fun d -> Ok ((MObj (Some d)), m))
| DupTo -> bind (dup m) (fun d -> Ok ((MObj (Some d)), d))
| Append x -> lift (append m x)
| AppendPtr (p, n0) -> lift (append_from_ptr m (pbuf p) n0)
| Prepend x -> lift (prepend m x)
| PrependPtr (p, n0) -> lift (prepend_from_ptr m (pbuf p) n0)
| Splice (i, c, x) -> lift (splice m i c x)
| SplicePtr (i, c, p, n0) -> lift (splice_from_ptr m i c (pbuf p) n0)
| Subbuff (i, c) -> bind (subbuff m i c) (fun r -> Ok ((MObj r), m))
| SubbuffPtr (i, c) -> bind (subbuff_to_ptr m i c) (fun r -> Ok ((MPtr r), m))
| Trim -> lift (trim m)
| Reverse -> lift (reverse m)
| Clear c -> lift (clear m c)
| Sprintf f -> lift (sprintf m f)
| Cmp x -> bind (cmp m x) (fun r -> Ok ((MCmp r), m))
| CmpPtr (p, n0) ->
  bind (cmp_with_ptr m (pbuf p) n0) (fun r -> Ok ((MCmp r), m))
| Ncmp (x, n0) -> bind (ncmp m x n0) (fun r -> Ok ((MCmp r), m))
| NcmpPtr (p, n0) ->
  bind (cmp_with_ptr m (pbuf p) n0) (fun r -> Ok ((MCmp r), m))
| Find x -> bind (find m x) (fun r -> Ok ((MIdx r), m))
| FindPtr (p, n0) ->
  bind (find_from_ptr m (pbuf p) n0) (fun r -> Ok ((MIdx r), m))
| Index c -> bind (index m c) (fun r -> Ok ((MIdx r), m))
| Rindex c -> bind (rindex m c) (fun r -> Ok ((MIdx r), m))
| GetLen -> Ok ((MIdx m.len), m)
| GetSize -> Ok ((MSize m.size), m)
| SetLen n0 -> Ok ((MBool true), { buff = m.buff; len = n0; size = m.size })
| SetSize n0 -> Ok ((MBool true), { buff = m.buff; len = m.len; size = n0 })

(** val null_self : op -> mout option **)

let null_self = function
| Dup -> Some (MObj None)
| DupTo -> Some (MObj None)
| Subbuff (_, _) -> Some (MObj None)
| SubbuffPtr (_, _) -> Some (MPtr None)
| Cmp x -> Some (MCmp (match x with
                       | Some _ -> Zneg XH
                       | None -> Z0))
| CmpPtr (p, _) -> Some (MCmp (match p with
                               | Some _ -> Zneg XH
                               | None -> Z0))
| Ncmp (x, _) -> Some (MCmp (match x with
                             | Some _ -> Zneg XH
                             | None -> Z0))
| NcmpPtr (p, _) -> Some (MCmp (match p with
                                | Some _ -> Zneg XH
                                | None -> Z0))
| Find _ -> Some (MIdx (Zneg XH))
| FindPtr (_, _) -> Some (MIdx (Zneg XH))
| Index _ -> Some (MIdx (Zneg XH))
| Rindex _ -> Some (MIdx (Zneg XH))
| GetLen -> None
| GetSize -> None
| SetLen _ -> None
| SetSize _ -> None
| _ -> Some (MBool false)

(** val init_prefix : cell list -> z list **)

let rec init_prefix = function
| [] -> []
| c :: t -> (match c with
             | Some v -> v :: (init_prefix t)
             | None -> [])

(** val abs : mb -> z list **)

let abs m =
  match m.buff with
  | Some b -> init_prefix (firstn (Z.to_nat m.len) b)
  | None -> []

(** val zlen : z list -> z **)

let zlen s =
  Z.of_nat (length s)

(** val lex : z list -> z list -> z **)

let rec lex a b =
  match a with
  | [] -> (match b with
           | [] -> Z0
           | _ :: _ -> Zneg XH)
  | x :: a' ->
    (match b with
     | [] -> Zpos XH
     | y :: b' ->
       if Z.ltb x y then Zneg XH else if Z.ltb y x then Zpos XH else lex a' b')

(** val take : z -> z list -> z list **)

let take n0 s =
  firstn (Z.to_nat n0) s

(** val drop : z -> z list -> z list **)

let drop n0 s =
  skipn (Z.to_nat n0) s

(** val s_index_from : z list -> z -> z -> z option **)

let rec s_index_from s c i =
  match s with
  | [] -> None
  | x :: t ->
    if Z.eqb x c then Some i else s_index_from t c (Z.add i (Zpos XH))

(** val s_rindex_from : z list -> z -> z -> z option **)

let rec s_rindex_from s c i =
  match s with
  | [] -> None
  | x :: t ->
    (match s_rindex_from t c (Z.add i (Zpos XH)) with
     | Some j -> Some j
     | None -> if Z.eqb x c then Some i else None)

(** val or_len : z list -> z option -> z **)

let or_len s = function
| Some i -> i
| None -> zlen s

(** val s_index : z list -> z -> z **)

let s_index s c =
  or_len s (s_index_from s c Z0)

(** val s_rindex : z list -> z -> z **)

let s_rindex s c =
  or_len s (s_rindex_from s c Z0)

(** val s_find : z list -> z list -> z **)

let s_find s n0 =
  or_len s (search n0 s Z0)

(** val dropwhile : (z -> bool) -> z list -> z list **)

let rec dropwhile f s = match s with
| [] -> []
| x :: t -> if f x then dropwhile f t else s

(** val s_trim : z list -> z list **)

let s_trim s =
  rev (dropwhile isspace (rev (dropwhile isspace s)))

(** val s_splice : z list -> z -> z -> z list -> z list option **)

let s_splice s idx cnt ins =
  match splice_pos (zlen s) idx cnt with
  | Some p ->
    let (i, c) = p in Some (app (take i s) (app ins (drop (Z.add i c) s)))
  | None -> None

(** val s_sub : z list -> z -> z -> z list option **)

let s_sub s idx cnt =
  match sub_pos (zlen s) idx cnt with
  | Some p -> let (i, c) = p in Some (take c (drop i s))
  | None -> None

(** val s_ncmp : z list -> z list -> z -> z **)

let s_ncmp a b n0 =
  if Z.ltb n0 Z0 then lex a b else lex (take n0 a) (take n0 b)

(** val stream_bytes : bool -> ev list -> z list **)

let rec stream_bytes retry = function
| [] -> []
| e :: r ->
  (match e with
   | Data bs ->
     (match bs with
      | [] -> []
      | _ :: _ -> app bs (stream_bytes retry r))
   | Short bs ->
     (match bs with
      | [] -> []
      | _ :: _ -> app bs (stream_bytes retry r))
   | EINTR -> if retry then stream_bytes retry r else []
   | _ -> [])

(** val first_read : ev list -> z -> z list **)

let first_read s n0 =
  match s with
  | [] -> []
  | e :: _ ->
    (match e with
     | Data bs -> take n0 bs
     | Short bs -> take n0 bs
     | _ -> [])

(** val other_bytes : mb option -> z list **)

let other_bytes = function
| Some x -> abs x
| None -> []

(** val ptr_bytes : ptr -> z -> z list **)

let ptr_bytes p n0 =
  match p with
  | Some s -> take n0 s
  | None -> []

type out =
| OBool of bool
| OIdx of z
| OCmp of z
| OObj of z list option
| OPtr of z list option
| OUnit

(** val out_abs : mout -> out **)

let out_abs = function
| MBool b -> OBool b
| MIdx i -> OIdx i
| MCmp c -> OCmp c
| MObj o -> OObj (option_map abs o)
| MPtr p -> OPtr (option_map init_prefix p)
| MSize _ -> OUnit

(** val spec_ctor : ctor -> bool * z list **)

let spec_ctor = function
| CNew -> (true, [])
| CPtr (p, n0) -> (true, (ptr_bytes p n0))
| CBuff (p, n0, _) -> (true, (ptr_bytes p n0))
| CFp (k, s) ->
  (match k with
   | Seekable (_, fs) ->
     (match take fs (stream_bytes false s) with
      | [] -> (false, [])
      | z0 :: l -> (true, (z0 :: l)))
   | Stream -> (true, (stream_bytes false s)))
| CFd (k, s) ->
  (match k with
   | Seekable (_, fs) ->
     if Z.ltb fs Z0
     then (true, (stream_bytes true s))
     else (match first_read s fs with
           | [] -> (false, [])
           | z0 :: l -> (true, (z0 :: l)))
   | Stream -> (true, (stream_bytes true s)))

(** val isnull : 'a1 option -> bool **)

let isnull = function
| Some _ -> false
| None -> true

(** val spec_step : z list -> op -> out * z list **)

let spec_step s = function
| Done -> ((OBool true), [])
| Append x -> ((OBool (negb (isnull x))), (app s (other_bytes x)))
| AppendPtr (p, n0) -> ((OBool (negb (isnull p))), (app s (ptr_bytes p n0)))
| Prepend x -> ((OBool (negb (isnull x))), (app (other_bytes x) s))
| PrependPtr (p, n0) -> ((OBool (negb (isnull p))), (app (ptr_bytes p n0) s))
| Splice (i, c, x) ->
  (match s_splice s i c (other_bytes x) with
   | Some s' -> ((OBool true), s')
   | None -> ((OBool false), s))
| SplicePtr (i, c, p, n0) ->
  (match s_splice s i c (ptr_bytes p n0) with
   | Some s' -> ((OBool true), s')
   | None -> ((OBool false), s))
| Subbuff (i, c) -> ((OObj (s_sub s i c)), s)
| SubbuffPtr (i, c) ->
  ((OPtr (option_map (fun x -> app x (Z0 :: [])) (s_sub s i c))), s)
| Trim -> ((OBool true), (s_trim s))
| Reverse -> ((match s with
               | [] -> OUnit
               | _ :: _ -> OBool true), (rev s))
| Clear c -> ((OBool true), (repeat c (length s)))
| Sprintf f ->
  (match f with
   | FNull -> ((OBool false), [])
   | FEmpty -> ((OBool true), [])
   | FOut bs -> ((OBool (negb (Nat.eqb (length bs) O))), bs))
| Cmp x ->
  ((OCmp (match x with
          | Some o0 -> lex s (abs o0)
          | None -> Zpos XH)), s)
| CmpPtr (p, n0) ->
  ((OCmp
    (match p with
     | Some q -> lex (take n0 s) (take n0 q)
     | None -> Zpos XH)), s)
| Ncmp (x, n0) ->
  ((OCmp (match x with
          | Some o0 -> s_ncmp s (abs o0) n0
          | None -> Zpos XH)), s)
| NcmpPtr (p, n0) ->
  ((OCmp
    (match p with
     | Some q -> lex (take n0 s) (take n0 q)
     | None -> Zpos XH)), s)
| Find x ->
  ((OIdx (match x with
          | Some o0 -> s_find s (abs o0)
          | None -> Zneg XH)), s)
| FindPtr (p, n0) ->
  ((OIdx (match p with
          | Some q -> s_find s (take n0 q)
          | None -> Zneg XH)), s)
| Index c -> ((OIdx (s_index s c)), s)
| Rindex c -> ((OIdx (s_rindex s c)), s)
| GetLen -> ((OIdx (zlen s)), s)
| GetSize -> (OUnit, s)
| SetLen n0 -> ((OBool true), (take n0 s))
| SetSize _ -> ((OBool true), s)
| _ -> ((OObj (Some s)), s)
