
val negb : bool -> bool

type nat =
| O
| S of nat

val length : 'a1 list -> nat

val app : 'a1 list -> 'a1 list -> 'a1 list

type comparison =
| Eq
| Lt
| Gt

val compOpp : comparison -> comparison

val add : nat -> nat -> nat

val sub : nat -> nat -> nat

module Nat :
 sig
  val eqb : nat -> nat -> bool

  val leb : nat -> nat -> bool

  val ltb : nat -> nat -> bool
 end

val tl : 'a1 list -> 'a1 list

val nth_error : 'a1 list -> nat -> 'a1 option

val map : ('a1 -> 'a2) -> 'a1 list -> 'a2 list

val firstn : nat -> 'a1 list -> 'a1 list

val skipn : nat -> 'a1 list -> 'a1 list

val repeat : 'a1 -> nat -> 'a1 list

type positive =
| XI of positive
| XO of positive
| XH

type n =
| N0
| Npos of positive

type z =
| Z0
| Zpos of positive
| Zneg of positive

module Pos :
 sig
  val succ : positive -> positive

  val add : positive -> positive -> positive

  val add_carry : positive -> positive -> positive

  val pred_double : positive -> positive

  val mul : positive -> positive -> positive

  val compare_cont : comparison -> positive -> positive -> comparison

  val compare : positive -> positive -> comparison

  val eqb : positive -> positive -> bool

  val iter_op : ('a1 -> 'a1 -> 'a1) -> positive -> 'a1 -> 'a1

  val to_nat : positive -> nat

  val of_succ_nat : nat -> positive
 end

module Z :
 sig
  val double : z -> z

  val succ_double : z -> z

  val pred_double : z -> z

  val pos_sub : positive -> positive -> z

  val add : z -> z -> z

  val opp : z -> z

  val sub : z -> z -> z

  val mul : z -> z -> z

  val compare : z -> z -> comparison

  val leb : z -> z -> bool

  val ltb : z -> z -> bool

  val gtb : z -> z -> bool

  val eqb : z -> z -> bool

  val min : z -> z -> z

  val to_nat : z -> nat

  val of_nat : nat -> z

  val pos_div_eucl : positive -> z -> z * z

  val div_eucl : z -> z -> z * z

  val modulo : z -> z -> z
 end

type fault =
| OOB_read
| OOB_write
| Uninit_read
| Null_deref
| Use_after_free
| Bad_free
| Out_of_fuel
| Int_overflow
| Abort

type 'a res =
| Ok of 'a
| Fault of fault

val bind : 'a1 res -> ('a1 -> 'a2 res) -> 'a2 res

val num_anchor : ((nat * positive) * n) * z

type cell = z option

type buf = cell list

val rdn : buf -> nat -> z res

val upd : 'a1 list -> nat -> 'a1 -> 'a1 list

val wrn : buf -> nat -> z -> buf res

val bytes : z list -> buf

val cstr : z list -> buf -> buf

val strlen : buf -> nat res

val take_str : buf -> z list

val isspace : z -> bool

val isupper : z -> bool

val islower : z -> bool

val isalpha : z -> bool

val isdigit : z -> bool

val isalnum : z -> bool

val tolower : z -> z

val config_buff : z

val builtin_table : (z list * z) list

val envvar_size : nat

val envvar_max : nat

val appname_size : nat

val u32 : z -> z

val is_q : z -> bool

val wDELIM : z -> z -> bool

val skip_space : buf -> buf res

val wesc_test : buf -> z -> bool res

val gw_chars : nat -> buf -> z -> buf -> nat -> ((buf * buf) * nat) res

val open_quote : buf -> (z * buf) res

val close_quote : buf -> buf res

val gw_words : nat -> z -> z -> buf -> buf -> (z * buf) res

val get_word : z -> buf -> z list option res

val nw_chars : nat -> buf -> z -> buf res

val nw_space : buf -> buf res

val nw_words : nat -> buf -> z -> z res

val num_words : buf -> z res

val strcmp : z list -> z list -> comparison

type store = (z list * z list) list

val get_var : store -> z list -> z list option

val put_var : store -> z list -> z list option -> store

type ext =
| Spawn
| Random
| Dirscan

type bres =
| BNull
| BStr of z list
| BExt of ext

type lres =
| LDone of buf * z * store
| LNull of store
| LExt of ext

type xres =
| XNull
| XBuf of buf
| XExt of ext

val cB : nat

val maxj : z

val hOME : z list

val wrf : buf -> nat -> z -> buf res

val wrz : buf -> z -> z -> buf res

val cp_run : buf -> buf -> nat -> (bool * buf) res

val strncpy_off : buf -> nat -> buf -> z -> (bool * buf) res

val place : buf -> z -> z list -> (buf * z) res

val esc : z -> z

val ncase_match : z list -> buf -> bool res

val call_form : z list -> buf -> bool res

val find_builtin : (z list * z) list -> buf -> (z * nat) option res

val scan_args : buf -> buf -> nat -> z -> (((buf * buf) * nat) * z) res

val scan_ref :
  z -> buf -> nat -> buf -> z list -> (((buf * nat) * buf) * z list) res

val scan_bare :
  buf -> nat -> buf -> z list -> (((buf * nat) * buf) * z list) res

val scan_env : buf -> (buf * z list) res

val strcpy_run : buf -> buf -> buf res

val finish : buf -> buf -> z -> buf option res

val builtin_get : buf option -> store -> bres res

val builtin_put : buf option -> store -> store res

val appname_text : z list -> z list -> z list

val call_builtin :
  z list -> z list -> z -> buf option -> store -> (bres * store) res

val xbody :
  (z list -> z list option) -> z list -> z list -> (buf -> buf -> z -> bool
  -> bool -> store -> lres res) -> buf -> buf -> z -> bool -> bool -> store
  -> lres res

val xloop :
  (z list -> z list option) -> z list -> z list -> nat -> buf -> buf -> z ->
  bool -> bool -> store -> lres res

val shell_expand :
  (z list -> z list option) -> z list -> z list -> nat -> buf -> store ->
  (xres * store) res

val is_prefix : z list -> z list -> bool

val getenv_of : (z list * z list) list -> z list -> z list option
