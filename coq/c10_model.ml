
(** val negb : bool -> bool **)

let negb = function
| true -> false
| false -> true

type nat =
| O
| S of nat

(** val length : 'a1 list -> nat **)

let rec length = function
| [] -> O
| _ :: l' -> S (length l')

(** val app : 'a1 list -> 'a1 list -> 'a1 list **)

let rec app l m =
  match l with
  | [] -> m
  | a :: l1 -> a :: (app l1 m)

type comparison =
| Eq
| Lt
| Gt

(** val compOpp : comparison -> comparison **)

let compOpp = function
| Eq -> Eq
| Lt -> Gt
| Gt -> Lt

module Coq__1 = struct
 (** val add : nat -> nat -> nat **)
 let rec add n0 m =
   match n0 with
   | O -> m
   | S p -> S (add p m)
end
include Coq__1

(** val sub : nat -> nat -> nat **)

let rec sub n0 m =
  match n0 with
  | O -> n0
  | S k -> (match m with
            | O -> n0
            | S l -> sub k l)

module Nat =
 struct
  (** val eqb : nat -> nat -> bool **)

  let rec eqb n0 m =
    match n0 with
    | O -> (match m with
            | O -> true
            | S _ -> false)
    | S n' -> (match m with
               | O -> false
               | S m' -> eqb n' m')

  (** val leb : nat -> nat -> bool **)

  let rec leb n0 m =
    match n0 with
    | O -> true
    | S n' -> (match m with
               | O -> false
               | S m' -> leb n' m')

  (** val ltb : nat -> nat -> bool **)

  let ltb n0 m =
    leb (S n0) m
 end

(** val tl : 'a1 list -> 'a1 list **)

let tl = function
| [] -> []
| _ :: m -> m

(** val nth_error : 'a1 list -> nat -> 'a1 option **)

let rec nth_error l = function
| O -> (match l with
        | [] -> None
        | x :: _ -> Some x)
| S n1 -> (match l with
           | [] -> None
           | _ :: l0 -> nth_error l0 n1)

(** val map : ('a1 -> 'a2) -> 'a1 list -> 'a2 list **)

let rec map f = function
| [] -> []
| a :: t -> (f a) :: (map f t)

(** val firstn : nat -> 'a1 list -> 'a1 list **)

let rec firstn n0 l =
  match n0 with
  | O -> []
  | S n1 -> (match l with
             | [] -> []
             | a :: l0 -> a :: (firstn n1 l0))

(** val skipn : nat -> 'a1 list -> 'a1 list **)

let rec skipn n0 l =
  match n0 with
  | O -> l
  | S n1 -> (match l with
             | [] -> []
             | _ :: l0 -> skipn n1 l0)

(** val repeat : 'a1 -> nat -> 'a1 list **)

let rec repeat x = function
| O -> []
| S k -> x :: (repeat x k)

type positive =
| XI of positive
| XO of positive
| XH

type n =
| N0
| Npos of positive

type z =
| Z0
| Zpos of positive
| Zneg of positive

module Pos =
 struct
  (** val succ : positive -> positive **)

  let rec succ = function
  | XI p -> XO (succ p)
  | XO p -> XI p
  | XH -> XO XH

  (** val add : positive -> positive -> positive **)

  let rec add x y =
    match x with
    | XI p ->
      (match y with
       | XI q -> XO (add_carry p q)
       | XO q -> XI (add p q)
       | XH -> XO (succ p))
    | XO p ->
      (match y with
       | XI q -> XI (add p q)
       | XO q -> XO (add p q)
       | XH -> XI p)
    | XH -> (match y with
             | XI q -> XO (succ q)
             | XO q -> XI q
             | XH -> XO XH)

  (** val add_carry : positive -> positive -> positive **)

  and add_carry x y =
    match x with
    | XI p ->
      (match y with
       | XI q -> XI (add_carry p q)
       | XO q -> XO (add_carry p q)
       | XH -> XI (succ p))
    | XO p ->
      (match y with
       | XI q -> XO (add_carry p q)
       | XO q -> XI (add p q)
       | XH -> XO (succ p))
    | XH ->
      (match y with
       | XI q -> XI (succ q)
       | XO q -> XO (succ q)
       | XH -> XI XH)

  (** val pred_double : positive -> positive **)

  let rec pred_double = function
  | XI p -> XI (XO p)
  | XO p -> XI (pred_double p)
  | XH -> XH

  (** val mul : positive -> positive -> positive **)

  let rec mul x y =
    match x with
    | XI p -> add y (XO (mul p y))
    | XO p -> XO (mul p y)
    | XH -> y

  (** val compare_cont : comparison -> positive -> positive -> comparison **)

  let rec compare_cont r x y =
    match x with
    | XI p ->
      (match y with
       | XI q -> compare_cont r p q
       | XO q -> compare_cont Gt p q
       | XH -> Gt)
    | XO p ->
      (match y with
       | XI q -> compare_cont Lt p q
       | XO q -> compare_cont r p q
       | XH -> Gt)
    | XH -> (match y with
             | XH -> r
             | _ -> Lt)

  (** val compare : positive -> positive -> comparison **)

  let compare =
    compare_cont Eq

  (** val eqb : positive -> positive -> bool **)

  let rec eqb p q =
    match p with
    | XI p0 -> (match q with
                | XI q0 -> eqb p0 q0
                | _ -> false)
    | XO p0 -> (match q with
                | XO q0 -> eqb p0 q0
                | _ -> false)
    | XH -> (match q with
             | XH -> true
             | _ -> false)

  (** val iter_op : ('a1 -> 'a1 -> 'a1) -> positive -> 'a1 -> 'a1 **)

  let rec iter_op op p a =
    match p with
    | XI p0 -> op a (iter_op op p0 (op a a))
    | XO p0 -> iter_op op p0 (op a a)
    | XH -> a

  (** val to_nat : positive -> nat **)

  let to_nat x =
    iter_op Coq__1.add x (S O)

  (** val of_succ_nat : nat -> positive **)

  let rec of_succ_nat = function
  | O -> XH
  | S x -> succ (of_succ_nat x)
 end

module Z =
 struct
  (** val double : z -> z **)

  let double = function
  | Z0 -> Z0
  | Zpos p -> Zpos (XO p)
  | Zneg p -> Zneg (XO p)

  (** val succ_double : z -> z **)

  let succ_double = function
  | Z0 -> Zpos XH
  | Zpos p -> Zpos (XI p)
  | Zneg p -> Zneg (Pos.pred_double p)

  (** val pred_double : z -> z **)

  let pred_double = function
  | Z0 -> Zneg XH
  | Zpos p -> Zpos (Pos.pred_double p)
  | Zneg p -> Zneg (XI p)

  (** val pos_sub : positive -> positive -> z **)

  let rec pos_sub x y =
    match x with
    | XI p ->
      (match y with
       | XI q -> double (pos_sub p q)
       | XO q -> succ_double (pos_sub p q)
       | XH -> Zpos (XO p))
    | XO p ->
      (match y with
       | XI q -> pred_double (pos_sub p q)
       | XO q -> double (pos_sub p q)
       | XH -> Zpos (Pos.pred_double p))
    | XH ->
      (match y with
       | XI q -> Zneg (XO q)
       | XO q -> Zneg (Pos.pred_double q)
       | XH -> Z0)

  (** val add : z -> z -> z **)

  let add x y =
    match x with
    | Z0 -> y
    | Zpos x' ->
      (match y with
       | Z0 -> x
       | Zpos y' -> Zpos (Pos.add x' y')
       | Zneg y' -> pos_sub x' y')
    | Zneg x' ->
      (match y with
       | Z0 -> x
       | Zpos y' -> pos_sub y' x'
       | Zneg y' -> Zneg (Pos.add x' y'))

  (** val opp : z -> z **)

  let opp = function
  | Z0 -> Z0
  | Zpos x0 -> Zneg x0
  | Zneg x0 -> Zpos x0

  (** val sub : z -> z -> z **)

  let sub m n0 =
    add m (opp n0)

  (** val mul : z -> z -> z **)

  let mul x y =
    match x with
    | Z0 -> Z0
    | Zpos x' ->
      (match y with
       | Z0 -> Z0
       | Zpos y' -> Zpos (Pos.mul x' y')
       | Zneg y' -> Zneg (Pos.mul x' y'))
    | Zneg x' ->
      (match y with
       | Z0 -> Z0
       | Zpos y' -> Zneg (Pos.mul x' y')
       | Zneg y' -> Zpos (Pos.mul x' y'))

  (** val compare : z -> z -> comparison **)

  let compare x y =
    match x with
    | Z0 -> (match y with
             | Z0 -> Eq
             | Zpos _ -> Lt
             | Zneg _ -> Gt)
    | Zpos x' -> (match y with
                  | Zpos y' -> Pos.compare x' y'
                  | _ -> Gt)
    | Zneg x' ->
      (match y with
       | Zneg y' -> compOpp (Pos.compare x' y')
       | _ -> Lt)

  (** val leb : z -> z -> bool **)

  let leb x y =
    match compare x y with
    | Gt -> false
    | _ -> true

  (** val ltb : z -> z -> bool **)

  let ltb x y =
    match compare x y with
    | Lt -> true
    | _ -> false

  (** val gtb : z -> z -> bool **)

  let gtb x y =
    match compare x y with
    | Gt -> true
    | _ -> false

  (** val eqb : z -> z -> bool **)

  let eqb x y =
    match x with
    | Z0 -> (match y with
             | Z0 -> true
             | _ -> false)
    | Zpos p -> (match y with
                 | Zpos q -> Pos.eqb p q
                 | _ -> false)
    | Zneg p -> (match y with
                 | Zneg q -> Pos.eqb p q
                 | _ -> false)

  (** val min : z -> z -> z **)

  let min n0 m =
    match compare n0 m with
    | Gt -> m
    | _ -> n0

  (** val to_nat : z -> nat **)

  let to_nat = function
  | Zpos p -> Pos.to_nat p
  | _ -> O

  (** val of_nat : nat -> z **)

  let of_nat = function
  | O -> Z0
  | S n1 -> Zpos (Pos.of_succ_nat n1)

  (** val pos_div_eucl : positive -> z -> z * z **)

  let rec pos_div_eucl a b =
    match a with
    | XI a' ->
      let (q, r) = pos_div_eucl a' b in
      let r' = add (mul (Zpos (XO XH)) r) (Zpos XH) in
      if ltb r' b
      then ((mul (Zpos (XO XH)) q), r')
      else ((add (mul (Zpos (XO XH)) q) (Zpos XH)), (sub r' b))
    | XO a' ->
      let (q, r) = pos_div_eucl a' b in
      let r' = mul (Zpos (XO XH)) r in
      if ltb r' b
      then ((mul (Zpos (XO XH)) q), r')
      else ((add (mul (Zpos (XO XH)) q) (Zpos XH)), (sub r' b))
    | XH -> if leb (Zpos (XO XH)) b then (Z0, (Zpos XH)) else ((Zpos XH), Z0)

  (** val div_eucl : z -> z -> z * z **)

  let div_eucl a b =
    match a with
    | Z0 -> (Z0, Z0)
    | Zpos a' ->
      (match b with
       | Z0 -> (Z0, a)
       | Zpos _ -> pos_div_eucl a' b
       | Zneg b' ->
         let (q, r) = pos_div_eucl a' (Zpos b') in
         (match r with
          | Z0 -> ((opp q), Z0)
          | _ -> ((opp (add q (Zpos XH))), (add b r))))
    | Zneg a' ->
      (match b with
       | Z0 -> (Z0, a)
       | Zpos _ ->
         let (q, r) = pos_div_eucl a' b in
         (match r with
          | Z0 -> ((opp q), Z0)
          | _ -> ((opp (add q (Zpos XH))), (sub b r)))
       | Zneg b' -> let (q, r) = pos_div_eucl a' (Zpos b') in (q, (opp r)))

  (** val modulo : z -> z -> z **)

  let modulo a b =
    let (_, r) = div_eucl a b in r
 end

type fault =
| OOB_read
| OOB_write
| Uninit_read
| Null_deref
| Use_after_free
| Bad_free
| Out_of_fuel
| Int_overflow
| Abort

type 'a res =
| Ok of 'a
| Fault of fault

(** val bind : 'a1 res -> ('a1 -> 'a2 res) -> 'a2 res **)

let bind r k =
  match r with
  | Ok a -> k a
  | Fault f -> Fault f

(** val num_anchor : ((nat * positive) * n) * z **)

let num_anchor =
  (((O, XH), N0), Z0)

type cell = z option

type buf = cell list

(** val rdn : buf -> nat -> z res **)

let rdn b i =
  match nth_error b i with
  | Some c -> (match c with
               | Some v -> Ok v
               | None -> Fault Uninit_read)
  | None -> Fault OOB_read

(** val upd : 'a1 list -> nat -> 'a1 -> 'a1 list **)

let rec upd l n0 v =
  match l with
  | [] -> []
  | x :: t -> (match n0 with
               | O -> v :: t
               | S n' -> x :: (upd t n' v))

(** val wrn : buf -> nat -> z -> buf res **)

let wrn b i v =
  if Nat.ltb i (length b) then Ok (upd b i (Some v)) else Fault OOB_write

(** val bytes : z list -> buf **)

let bytes s =
  map (fun x -> Some x) s

(** val cstr : z list -> buf -> buf **)

let cstr s rest =
  app (bytes s) ((Some Z0) :: rest)

(** val strlen : buf -> nat res **)

let rec strlen = function
| [] -> Fault OOB_read
| c0 :: t ->
  (match c0 with
   | Some c ->
     if Z.eqb c Z0 then Ok O else bind (strlen t) (fun n0 -> Ok (S n0))
   | None -> Fault Uninit_read)

(** val take_str : buf -> z list **)

let rec take_str = function
| [] -> []
| c0 :: t ->
  (match c0 with
   | Some c -> if Z.eqb c Z0 then [] else c :: (take_str t)
   | None -> [])

(** val isspace : z -> bool **)

let isspace c =
  (||)
    ((&&) (Z.leb (Zpos (XI (XO (XO XH)))) c)
      (Z.leb c (Zpos (XI (XO (XI XH))))))
    (Z.eqb c (Zpos (XO (XO (XO (XO (XO XH)))))))

(** val isupper : z -> bool **)

let isupper c =
  (&&) (Z.leb (Zpos (XI (XO (XO (XO (XO (XO XH))))))) c)
    (Z.leb c (Zpos (XO (XI (XO (XI (XI (XO XH))))))))

(** val islower : z -> bool **)

let islower c =
  (&&) (Z.leb (Zpos (XI (XO (XO (XO (XO (XI XH))))))) c)
    (Z.leb c (Zpos (XO (XI (XO (XI (XI (XI XH))))))))

(** val isalpha : z -> bool **)

let isalpha c =
  (||) (isupper c) (islower c)

(** val isdigit : z -> bool **)

let isdigit c =
  (&&) (Z.leb (Zpos (XO (XO (XO (XO (XI XH)))))) c)
    (Z.leb c (Zpos (XI (XO (XO (XI (XI XH)))))))

(** val isalnum : z -> bool **)

let isalnum c =
  (||) (isalpha c) (isdigit c)

(** val tolower : z -> z **)

let tolower c =
  if isupper c then Z.add c (Zpos (XO (XO (XO (XO (XO XH)))))) else c

(** val config_buff : z **)

let config_buff =
  Zpos (XO (XO (XO (XO (XO (XO (XO (XO (XO (XO (XO (XO (XI (XO
    XH))))))))))))))

(** val builtin_table : (z list * z) list **)

let builtin_table =
  (((Zpos (XI (XO (XO (XO (XO (XI XH))))))) :: ((Zpos (XO (XO (XO (XO (XI (XI
    XH))))))) :: ((Zpos (XO (XO (XO (XO (XI (XI XH))))))) :: ((Zpos (XO (XI
    (XI (XI (XO (XI XH))))))) :: ((Zpos (XI (XO (XO (XO (XO (XI
    XH))))))) :: ((Zpos (XI (XO (XI (XI (XO (XI XH))))))) :: ((Zpos (XI (XO
    (XI (XO (XO (XI XH))))))) :: []))))))), Z0) :: ((((Zpos (XO (XI (XI (XO
    (XI (XI XH))))))) :: ((Zpos (XI (XO (XI (XO (XO (XI XH))))))) :: ((Zpos
    (XO (XI (XO (XO (XI (XI XH))))))) :: ((Zpos (XI (XI (XO (XO (XI (XI
    XH))))))) :: ((Zpos (XI (XO (XO (XI (XO (XI XH))))))) :: ((Zpos (XI (XI
    (XI (XI (XO (XI XH))))))) :: ((Zpos (XO (XI (XI (XI (XO (XI
    XH))))))) :: []))))))), (Zpos XH)) :: ((((Zpos (XI (XO (XI (XO (XO (XI
    XH))))))) :: ((Zpos (XO (XO (XO (XI (XI (XI XH))))))) :: ((Zpos (XI (XO
    (XI (XO (XO (XI XH))))))) :: ((Zpos (XI (XI (XO (XO (XO (XI
    XH))))))) :: [])))), (Zpos (XO XH))) :: ((((Zpos (XO (XI (XO (XO (XI (XI
    XH))))))) :: ((Zpos (XI (XO (XO (XO (XO (XI XH))))))) :: ((Zpos (XO (XI
    (XI (XI (XO (XI XH))))))) :: ((Zpos (XO (XO (XI (XO (XO (XI
    XH))))))) :: ((Zpos (XI (XI (XI (XI (XO (XI XH))))))) :: ((Zpos (XI (XO
    (XI (XI (XO (XI XH))))))) :: [])))))), (Zpos (XI XH))) :: ((((Zpos (XI
    (XI (XI (XO (XO (XI XH))))))) :: ((Zpos (XI (XO (XI (XO (XO (XI
    XH))))))) :: ((Zpos (XO (XO (XI (XO (XI (XI XH))))))) :: []))), (Zpos (XO
    (XO XH)))) :: ((((Zpos (XO (XO (XO (XO (XI (XI XH))))))) :: ((Zpos (XI
    (XO (XI (XO (XI (XI XH))))))) :: ((Zpos (XO (XO (XI (XO (XI (XI
    XH))))))) :: []))), (Zpos (XI (XO XH)))) :: ((((Zpos (XO (XO (XI (XO (XO
    (XI XH))))))) :: ((Zpos (XI (XO (XO (XI (XO (XI XH))))))) :: ((Zpos (XO
    (XI (XO (XO (XI (XI XH))))))) :: ((Zpos (XI (XI (XO (XO (XI (XI
    XH))))))) :: ((Zpos (XI (XI (XO (XO (XO (XI XH))))))) :: ((Zpos (XI (XO
    (XO (XO (XO (XI XH))))))) :: ((Zpos (XO (XI (XI (XI (XO (XI
    XH))))))) :: []))))))), (Zpos (XO (XI XH)))) :: []))))))

(** val envvar_size : nat **)

let envvar_size =
  S (S (S (S (S (S (S (S (S (S (S (S (S (S (S (S (S (S (S (S (S (S (S (S (S
    (S (S (S (S (S (S (S (S (S (S (S (S (S (S (S (S (S (S (S (S (S (S (S (S
    (S (S (S (S (S (S (S (S (S (S (S (S (S (S (S (S (S (S (S (S (S (S (S (S
    (S (S (S (S (S (S (S (S (S (S (S (S (S (S (S (S (S (S (S (S (S (S (S (S
    (S (S (S (S (S (S (S (S (S (S (S (S (S (S (S (S (S (S (S (S (S (S (S (S
    (S (S (S (S (S (S (S
    O)))))))))))))))))))))))))))))))))))))))))))))))))))))))))))))))))))))))))))))))))))))))))))))))))))))))))))))))))))))))))))))))

(** val envvar_max : nat **)

let envvar_max =
  S (S (S (S (S (S (S (S (S (S (S (S (S (S (S (S (S (S (S (S (S (S (S (S (S
    (S (S (S (S (S (S (S (S (S (S (S (S (S (S (S (S (S (S (S (S (S (S (S (S
    (S (S (S (S (S (S (S (S (S (S (S (S (S (S (S (S (S (S (S (S (S (S (S (S
    (S (S (S (S (S (S (S (S (S (S (S (S (S (S (S (S (S (S (S (S (S (S (S (S
    (S (S (S (S (S (S (S (S (S (S (S (S (S (S (S (S (S (S (S (S (S (S (S (S
    (S (S (S (S (S (S
    O))))))))))))))))))))))))))))))))))))))))))))))))))))))))))))))))))))))))))))))))))))))))))))))))))))))))))))))))))))))))))))))

(** val appname_size : nat **)

let appname_size =
  S (S (S (S (S (S (S (S (S (S (S (S (S (S (S (S (S (S (S (S (S (S (S (S (S
    (S (S (S (S (S (S (S (S (S (S (S (S (S (S (S (S (S (S (S (S (S (S (S (S
    (S (S (S (S (S (S (S (S (S (S (S (S (S (S (S (S (S (S (S (S (S (S (S (S
    (S (S (S (S (S (S (S (S (S (S (S (S (S (S (S (S (S (S (S (S (S (S (S (S
    (S (S (S (S (S (S (S (S (S (S (S (S (S (S (S (S (S (S (S (S (S (S (S (S
    (S (S (S (S (S (S (S (S (S (S (S (S (S (S (S (S (S (S (S (S (S (S (S (S
    (S (S (S (S (S (S (S (S (S (S (S (S (S (S (S (S (S (S (S (S (S (S (S (S
    (S (S (S (S (S (S (S (S (S (S (S (S (S (S (S (S (S (S (S (S (S (S (S (S
    (S (S (S (S (S (S (S (S (S (S (S (S (S (S (S (S (S (S (S (S (S (S (S (S
    (S (S (S (S (S (S (S (S (S (S (S (S (S (S (S (S (S (S (S (S (S (S (S (S
    (S (S (S (S (S (S (S (S (S (S (S (S (S (S (S
    O)))))))))))))))))))))))))))))))))))))))))))))))))))))))))))))))))))))))))))))))))))))))))))))))))))))))))))))))))))))))))))))))))))))))))))))))))))))))))))))))))))))))))))))))))))))))))))))))))))))))))))))))))))))))))))))))))))))))))))))))))))))))))))))))

(** val u32 : z -> z **)

let u32 z0 =
  Z.modulo z0 (Zpos (XO (XO (XO (XO (XO (XO (XO (XO (XO (XO (XO (XO (XO (XO
    (XO (XO (XO (XO (XO (XO (XO (XO (XO (XO (XO (XO (XO (XO (XO (XO (XO (XO
    XH)))))))))))))))))))))))))))))))))

(** val is_q : z -> bool **)

let is_q c =
  (||) (Z.eqb c (Zpos (XO (XI (XO (XO (XO XH)))))))
    (Z.eqb c (Zpos (XI (XI (XI (XO (XO XH)))))))

(** val wDELIM : z -> z -> bool **)

let wDELIM dl c =
  if Z.eqb dl Z0 then isspace c else Z.eqb c dl

(** val skip_space : buf -> buf res **)

let rec skip_space p = match p with
| [] -> Fault OOB_read
| c0 :: t ->
  (match c0 with
   | Some c -> if isspace c then skip_space t else Ok p
   | None -> Fault Uninit_read)

(** val wesc_test : buf -> z -> bool res **)

let wesc_test p c =
  if Z.eqb c (Zpos (XO (XO (XI (XI (XI (XO XH)))))))
  then bind (rdn p (S O)) (fun c1 -> Ok (is_q c1))
  else Ok false

(** val gw_chars :
    nat -> buf -> z -> buf -> nat -> ((buf * buf) * nat) res **)

let rec gw_chars fuel p dl out k =
  match fuel with
  | O -> Fault Out_of_fuel
  | S f ->
    bind (rdn p O) (fun c ->
      if (||) (Z.eqb c Z0) (wDELIM dl c)
      then Ok ((p, out), k)
      else bind (wesc_test p c) (fun e ->
             let p1 = if e then tl p else p in
             bind (rdn p1 O) (fun c' ->
               bind (wrn out k c') (fun out' ->
                 gw_chars f (tl p1) dl out' (S k)))))

(** val open_quote : buf -> (z * buf) res **)

let open_quote p =
  bind (rdn p O) (fun c -> Ok (if is_q c then (c, (tl p)) else (Z0, p)))

(** val close_quote : buf -> buf res **)

let close_quote p =
  bind (rdn p O) (fun c -> Ok (if is_q c then tl p else p))

(** val gw_words : nat -> z -> z -> buf -> buf -> (z * buf) res **)

let rec gw_words fuel idx j p out =
  match fuel with
  | O -> Fault Out_of_fuel
  | S f ->
    if Z.ltb j idx
    then bind (rdn p O) (fun c ->
           if Z.eqb c Z0
           then Ok (j, out)
           else bind (skip_space p) (fun p1 ->
                  bind (open_quote p1) (fun x ->
                    let (dl, p2) = x in
                    bind (gw_chars (S (length p2)) p2 dl out O) (fun x0 ->
                      let (p0, k) = x0 in
                      let (p3, out1) = p0 in
                      bind (close_quote p3) (fun p4 ->
                        bind (wrn out1 k Z0) (fun out2 ->
                          gw_words f idx (Z.add j (Zpos XH)) p4 out2))))))
    else Ok (j, out)

(** val get_word : z -> buf -> z list option res **)

let get_word idx str =
  bind (strlen str) (fun l ->
    bind (wrn (repeat None (S l)) O Z0) (fun out0 ->
      bind (gw_words (S (length str)) idx Z0 str out0) (fun x ->
        let (j, out) = x in
        if Z.eqb j idx
        then bind (strlen out) (fun l2 -> Ok (Some
               (take_str (firstn (S l2) out))))
        else Ok None)))

(** val nw_chars : nat -> buf -> z -> buf res **)

let rec nw_chars fuel p dl =
  match fuel with
  | O -> Fault Out_of_fuel
  | S f ->
    bind (rdn p O) (fun c ->
      if (||) (Z.eqb c Z0) (wDELIM dl c)
      then Ok p
      else bind (wesc_test p c) (fun e ->
             let p1 = if e then tl p else p in nw_chars f (tl p1) dl))

(** val nw_space : buf -> buf res **)

let rec nw_space p = match p with
| [] -> Fault OOB_read
| c0 :: t ->
  (match c0 with
   | Some c ->
     if (&&) (negb (Z.eqb c Z0)) (isspace c) then nw_space t else Ok p
   | None -> Fault Uninit_read)

(** val nw_words : nat -> buf -> z -> z res **)

let rec nw_words fuel p cnt =
  match fuel with
  | O -> Fault Out_of_fuel
  | S f ->
    bind (rdn p O) (fun c ->
      if Z.eqb c Z0
      then Ok cnt
      else bind (open_quote p) (fun x ->
             let (dl, p1) = x in
             bind (nw_chars (S (length p1)) p1 dl) (fun p2 ->
               bind (close_quote p2) (fun p3 ->
                 bind (nw_space p3) (fun p4 ->
                   nw_words f p4 (Z.add cnt (Zpos XH)))))))

(** val num_words : buf -> z res **)

let num_words str =
  bind (nw_space str) (fun p -> nw_words (S (length str)) p Z0)

(** val strcmp : z list -> z list -> comparison **)

let rec strcmp a b =
  match a with
  | [] -> (match b with
           | [] -> Eq
           | _ :: _ -> Lt)
  | x :: a' ->
    (match b with
     | [] -> Gt
     | y :: b' -> (match Z.compare x y with
                   | Eq -> strcmp a' b'
                   | x0 -> x0))

type store = (z list * z list) list

(** val get_var : store -> z list -> z list option **)

let rec get_var st var =
  match st with
  | [] -> None
  | p :: t ->
    let (k, x) = p in
    (match strcmp k var with
     | Eq -> Some x
     | _ -> get_var t var)

(** val put_var : store -> z list -> z list option -> store **)

let rec put_var st var val0 =
  match st with
  | [] -> (match val0 with
           | Some v -> (var, v) :: []
           | None -> [])
  | p :: t ->
    let (k, x) = p in
    (match strcmp var k with
     | Eq -> (match val0 with
              | Some v -> (k, v) :: t
              | None -> t)
     | Lt -> (match val0 with
              | Some v -> (var, v) :: st
              | None -> st)
     | Gt -> (k, x) :: (put_var t var val0))

type ext =
| Spawn
| Random
| Dirscan

type bres =
| BNull
| BStr of z list
| BExt of ext

type lres =
| LDone of buf * z * store
| LNull of store
| LExt of ext

type xres =
| XNull
| XBuf of buf
| XExt of ext

(** val cB : nat **)

let cB =
  Z.to_nat config_buff

(** val maxj : z **)

let maxj =
  Z.sub config_buff (Zpos XH)

(** val hOME : z list **)

let hOME =
  (Zpos (XO (XO (XO (XI (XO (XO XH))))))) :: ((Zpos (XI (XI (XI (XI (XO (XO
    XH))))))) :: ((Zpos (XI (XO (XI (XI (XO (XO XH))))))) :: ((Zpos (XI (XO
    (XI (XO (XO (XO XH))))))) :: [])))

(** val wrf : buf -> nat -> z -> buf res **)

let rec wrf b i v =
  match b with
  | [] -> Fault OOB_write
  | x :: t ->
    (match i with
     | O -> Ok ((Some v) :: t)
     | S i' -> bind (wrf t i' v) (fun t' -> Ok (x :: t')))

(** val wrz : buf -> z -> z -> buf res **)

let wrz b i v =
  if Z.ltb i Z0 then Fault OOB_write else wrf b (Z.to_nat i) v

(** val cp_run : buf -> buf -> nat -> (bool * buf) res **)

let rec cp_run src dst room =
  match src with
  | [] -> Fault OOB_read
  | c0 :: src' ->
    (match c0 with
     | Some c ->
       (match dst with
        | [] -> Fault OOB_write
        | _ :: dst' ->
          if (||) (Z.eqb c Z0) (Nat.eqb room O)
          then Ok ((Z.eqb c Z0), ((Some Z0) :: dst'))
          else bind (cp_run src' dst' (sub room (S O))) (fun x ->
                 let (b, d) = x in Ok (b, ((Some c) :: d))))
     | None -> Fault Uninit_read)

(** val strncpy_off : buf -> nat -> buf -> z -> (bool * buf) res **)

let strncpy_off dest off src size =
  if Z.leb size Z0
  then Ok (false, dest)
  else bind (cp_run src (skipn off dest) (Z.to_nat (Z.sub size (Zpos XH))))
         (fun x -> let (b, d) = x in Ok (b, (app (firstn off dest) d)))

(** val place : buf -> z -> z list -> (buf * z) res **)

let place nb j v =
  bind (strncpy_off nb (Z.to_nat j) (cstr v []) (Z.sub maxj j)) (fun x ->
    let (_, nb') = x in
    let cnt1 = u32 (Z.sub (Z.of_nat (length v)) (Zpos XH)) in
    let cnt2 = u32 (Z.sub (Z.sub maxj j) (Zpos XH)) in
    Ok (nb', (u32 (Z.add j (Z.min cnt1 cnt2)))))

(** val esc : z -> z **)

let esc c =
  let l = tolower c in
  if Z.eqb l (Zpos (XO (XI (XI (XI (XO (XI XH)))))))
  then Zpos (XO (XI (XO XH)))
  else if Z.eqb l (Zpos (XO (XI (XO (XO (XI (XI XH)))))))
       then Zpos (XI (XO (XI XH)))
       else if Z.eqb l (Zpos (XO (XO (XI (XO (XI (XI XH)))))))
            then Zpos (XI (XO (XO XH)))
            else if Z.eqb l (Zpos (XO (XI (XO (XO (XO (XI XH)))))))
                 then Zpos (XO (XO (XO XH)))
                 else if Z.eqb l (Zpos (XO (XI (XI (XO (XO (XI XH)))))))
                      then Zpos (XO (XO (XI XH)))
                      else if Z.eqb l (Zpos (XI (XO (XO (XO (XO (XI XH)))))))
                           then Zpos (XI (XI XH))
                           else if Z.eqb l (Zpos (XO (XI (XI (XO (XI (XI
                                     XH)))))))
                                then Zpos (XI (XI (XO XH)))
                                else if Z.eqb l (Zpos (XI (XO (XI (XO (XO (XI
                                          XH)))))))
                                     then Zpos (XI (XI (XO (XI XH))))
                                     else c

(** val ncase_match : z list -> buf -> bool res **)

let rec ncase_match name p =
  match name with
  | [] -> Ok true
  | n0 :: name' ->
    bind (rdn p O) (fun c ->
      if Z.eqb (tolower c) (tolower n0)
      then ncase_match name' (tl p)
      else Ok false)

(** val call_form : z list -> buf -> bool res **)

let call_form name p =
  bind (ncase_match name p) (fun m ->
    if m
    then let q = skipn (length name) p in
         bind (rdn q O) (fun c ->
           if Z.eqb c (Zpos (XO (XO (XO (XI (XO XH))))))
           then Ok true
           else if Z.eqb c (Zpos (XO (XO (XO (XO (XO XH))))))
                then bind (rdn q (S O)) (fun c1 -> Ok
                       (Z.eqb c1 (Zpos (XI (XO (XO (XI (XO XH))))))))
                else Ok false)
    else Ok false)

(** val find_builtin : (z list * z) list -> buf -> (z * nat) option res **)

let rec find_builtin tbl p =
  match tbl with
  | [] -> Ok None
  | p0 :: t ->
    let (n0, code) = p0 in
    bind (call_form n0 p) (fun b ->
      if b then Ok (Some (code, (length n0))) else find_builtin t p)

(** val scan_args :
    buf -> buf -> nat -> z -> (((buf * buf) * nat) * z) res **)

let rec scan_args p cmd t l =
  if Z.eqb l Z0
  then Ok (((p, cmd), t), l)
  else (match p with
        | [] -> Fault OOB_read
        | c0 :: p' ->
          (match c0 with
           | Some c ->
             if Z.eqb c Z0
             then Ok (((p, cmd), t), l)
             else let l' =
                    if Z.eqb c (Zpos (XO (XO (XO (XI (XO XH))))))
                    then u32 (Z.add l (Zpos XH))
                    else if Z.eqb c (Zpos (XI (XO (XO (XI (XO XH))))))
                         then u32 (Z.sub l (Zpos XH))
                         else l
                  in
                  bind (wrf cmd t c) (fun cmd' -> scan_args p' cmd' (S t) l')
           | None -> Fault Uninit_read))

(** val scan_ref :
    z -> buf -> nat -> buf -> z list -> (((buf * nat) * buf) * z list) res **)

let rec scan_ref cl p k ev acc =
  match p with
  | [] -> Fault OOB_read
  | c0 :: p' ->
    (match c0 with
     | Some c ->
       if (||) ((||) (Z.eqb c Z0) (Z.eqb c cl)) (negb (Nat.ltb k envvar_max))
       then Ok (((p, k), ev), acc)
       else bind (wrn ev k c) (fun ev' ->
              scan_ref cl p' (S k) ev' (app acc (c :: [])))
     | None -> Fault Uninit_read)

(** val scan_bare :
    buf -> nat -> buf -> z list -> (((buf * nat) * buf) * z list) res **)

let rec scan_bare p k ev acc =
  match p with
  | [] -> Fault OOB_read
  | c0 :: p' ->
    (match c0 with
     | Some c ->
       if (&&)
            ((||) (isalnum c)
              (Z.eqb c (Zpos (XI (XI (XI (XI (XI (XO XH)))))))))
            (Nat.ltb k envvar_max)
       then bind (wrn ev k c) (fun ev' ->
              scan_bare p' (S k) ev' (app acc (c :: [])))
       else Ok (((p, k), ev), acc)
     | None -> Fault Uninit_read)

(** val scan_env : buf -> (buf * z list) res **)

let scan_env p =
  let ev0 = repeat None envvar_size in
  bind (rdn p (S O)) (fun c1 ->
    bind
      (if Z.eqb c1 (Zpos (XI (XI (XO (XI (XI (XI XH)))))))
       then bind
              (scan_ref (Zpos (XI (XO (XI (XI (XI (XI XH))))))) (tl (tl p)) O
                ev0 []) (fun x ->
              let (p0, nm) = x in
              let (p1, ev) = p0 in
              let (q, k) = p1 in
              bind (rdn q O) (fun c -> Ok
                ((((if Z.eqb c (Zpos (XI (XO (XI (XI (XI (XI XH)))))))
                    then tl q
                    else q), k), ev), nm)))
       else if Z.eqb c1 (Zpos (XO (XO (XO (XI (XO XH))))))
            then bind
                   (scan_ref (Zpos (XI (XO (XO (XI (XO XH)))))) (tl (tl p)) O
                     ev0 []) (fun x ->
                   let (p0, nm) = x in
                   let (p1, ev) = p0 in
                   let (q, k) = p1 in
                   bind (rdn q O) (fun c -> Ok
                     ((((if Z.eqb c (Zpos (XI (XO (XO (XI (XO XH))))))
                         then tl q
                         else q), k), ev), nm)))
            else scan_bare (tl p) O ev0 []) (fun x ->
      let (p0, name) = x in
      let (p1, ev) = p0 in
      let (p', k) = p1 in bind (wrn ev k Z0) (fun _ -> Ok (p', name))))

(** val strcpy_run : buf -> buf -> buf res **)

let rec strcpy_run dst = function
| [] -> Fault OOB_read
| c0 :: t ->
  (match c0 with
   | Some c ->
     (match dst with
      | [] -> Fault OOB_write
      | _ :: d' ->
        if Z.eqb c Z0
        then Ok ((Some Z0) :: d')
        else bind (strcpy_run d' t) (fun r -> Ok ((Some c) :: r)))
   | None -> Fault Uninit_read)

(** val finish : buf -> buf -> z -> buf option res **)

let finish s nb j =
  if negb (Z.ltb j config_buff)
  then Ok None
  else bind (wrz nb j Z0) (fun nb' ->
         bind (strcpy_run s nb') (fun s' -> Ok (Some s')))

(** val builtin_get : buf option -> store -> bres res **)

let builtin_get param st =
  match param with
  | Some pb ->
    bind (num_words pb) (fun n0 ->
      let n1 =
        Z.modulo n0 (Zpos (XO (XO (XO (XO (XO (XO (XO (XO (XO (XO (XO (XO (XO
          (XO (XO (XO XH)))))))))))))))))
      in
      if Z.gtb n1 (Zpos (XO XH))
      then Ok BNull
      else bind (get_word (Zpos XH) pb) (fun s ->
             bind
               (if Z.eqb n1 (Zpos (XO XH))
                then get_word (Zpos (XO XH)) pb
                else Ok None) (fun f ->
               let v =
                 match s with
                 | Some name -> get_var st name
                 | None -> None
               in
               Ok
               (match v with
                | Some x -> BStr x
                | None -> (match f with
                           | Some y -> BStr y
                           | None -> BNull)))))
  | None -> Ok BNull

(** val builtin_put : buf option -> store -> store res **)

let builtin_put param st =
  match param with
  | Some pb ->
    bind (num_words pb) (fun n0 ->
      if negb (Z.eqb n0 (Zpos (XO XH)))
      then Ok st
      else bind (get_word (Zpos XH) pb) (fun var ->
             bind (get_word (Zpos (XO XH)) pb) (fun val0 -> Ok
               (match var with
                | Some k -> put_var st k val0
                | None -> st))))
  | None -> Ok st

(** val appname_text : z list -> z list -> z list **)

let appname_text progname progver =
  firstn (sub appname_size (S O))
    (app progname ((Zpos (XI (XO (XI (XI (XO XH)))))) :: progver))

(** val call_builtin :
    z list -> z list -> z -> buf option -> store -> (bres * store) res **)

let call_builtin progname progver code param st =
  if Z.eqb code Z0
  then Ok ((BStr (appname_text progname progver)), st)
  else if Z.eqb code (Zpos XH)
       then Ok ((BStr progver), st)
       else if Z.eqb code (Zpos (XO (XO XH)))
            then bind (builtin_get param st) (fun r -> Ok (r, st))
            else if Z.eqb code (Zpos (XI (XO XH)))
                 then bind (builtin_put param st) (fun st' -> Ok (BNull, st'))
                 else (match param with
                       | Some _ ->
                         Ok ((BExt
                           (if Z.eqb code (Zpos (XO XH))
                            then Spawn
                            else if Z.eqb code (Zpos (XI XH))
                                 then Random
                                 else Dirscan)), st)
                       | None -> Ok (BNull, st))

(** val xbody :
    (z list -> z list option) -> z list -> z list -> (buf -> buf -> z -> bool
    -> bool -> store -> lres res) -> buf -> buf -> z -> bool -> bool -> store
    -> lres res **)

let xbody genv progname progver self p nb j q1 q2 st =
  bind (rdn p O) (fun c ->
    if (||) (Z.eqb c Z0) (negb (Z.ltb j maxj))
    then Ok (LDone (nb, j, st))
    else let next = fun p' nb' j' q1' q2' st' ->
           self p' nb' (u32 (Z.add j' (Zpos XH))) q1' q2' st'
         in
         let literal = fun q1' q2' ->
           bind (wrz nb j c) (fun nb' -> next (tl p) nb' j q1' q2' st)
         in
         if Z.eqb c (Zpos (XO (XI (XI (XI (XI (XI XH)))))))
         then (match if (||) q1 q2 then None else genv hOME with
               | Some l ->
                 (match l with
                  | [] -> literal q1 q2
                  | h :: ht ->
                    bind (place nb j (h :: ht)) (fun x ->
                      let (nb', j') = x in next (tl p) nb' j' q1 q2 st))
               | None -> literal q1 q2)
         else if Z.eqb c (Zpos (XO (XO (XI (XI (XI (XO XH)))))))
              then bind (rdn p (S O)) (fun c1 ->
                     if Z.eqb c1 Z0
                     then literal q1 q2
                     else if (||) (negb q1)
                               (Z.eqb c1 (Zpos (XI (XI (XI (XO (XO XH)))))))
                          then bind (wrz nb j (esc c1)) (fun nb' ->
                                 next (tl (tl p)) nb' j q1 q2 st)
                          else bind (wrz nb j c) (fun nb1 ->
                                 bind (wrz nb1 (u32 (Z.add j (Zpos XH))) c1)
                                   (fun nb2 ->
                                   next (tl (tl p)) nb2
                                     (u32 (Z.add j (Zpos XH))) q1 q2 st)))
              else if Z.eqb c (Zpos (XI (XO (XI (XO (XO XH))))))
                   then let p1 = tl p in
                        bind (find_builtin builtin_table p1) (fun fb ->
                          match fb with
                          | Some p0 ->
                            let (code, nlen) = p0 in
                            let p2 = skipn nlen p1 in
                            bind (rdn p2 O) (fun c2 ->
                              let p3 =
                                if Z.eqb c2 (Zpos (XO (XO (XO (XI (XO XH))))))
                                then p2
                                else tl p2
                              in
                              bind
                                (scan_args (tl p3) (repeat None cB) O (Zpos
                                  XH)) (fun x ->
                                let (p4, l) = x in
                                let (p5, t) = p4 in
                                let (p6, cmd) = p5 in
                                if negb (Z.eqb l Z0)
                                then Ok (LNull st)
                                else bind
                                       (wrz cmd
                                         (Z.sub (Z.of_nat t) (Zpos XH)) Z0)
                                       (fun cmd1 ->
                                       bind
                                         (self cmd1 (repeat None cB) Z0 false
                                           false st) (fun r ->
                                         match r with
                                         | LDone (_, _, _) ->
                                           bind
                                             (match r with
                                              | LDone (nbc, jc, st1) ->
                                                bind (finish cmd1 nbc jc)
                                                  (fun o -> Ok (o, st1))
                                              | LNull st1 -> Ok (None, st1)
                                              | LExt _ -> Ok (None, st))
                                             (fun x0 ->
                                             let (param, st1) = x0 in
                                             bind
                                               (call_builtin progname progver
                                                 code param st1) (fun x1 ->
                                               let (out, st2) = x1 in
                                               (match out with
                                                | BNull ->
                                                  next p6 nb
                                                    (u32 (Z.sub j (Zpos XH)))
                                                    q1 q2 st2
                                                | BStr s ->
                                                  (match s with
                                                   | [] ->
                                                     next p6 nb
                                                       (u32
                                                         (Z.sub j (Zpos XH)))
                                                       q1 q2 st2
                                                   | o :: ot ->
                                                     bind
                                                       (place nb j (o :: ot))
                                                       (fun x2 ->
                                                       let (nb', j') = x2 in
                                                       next p6 nb' j' q1 q2
                                                         st2))
                                                | BExt e -> Ok (LExt e))))
                                         | LNull _ ->
                                           bind
                                             (match r with
                                              | LDone (nbc, jc, st1) ->
                                                bind (finish cmd1 nbc jc)
                                                  (fun o -> Ok (o, st1))
                                              | LNull st1 -> Ok (None, st1)
                                              | LExt _ -> Ok (None, st))
                                             (fun x0 ->
                                             let (param, st1) = x0 in
                                             bind
                                               (call_builtin progname progver
                                                 code param st1) (fun x1 ->
                                               let (out, st2) = x1 in
                                               (match out with
                                                | BNull ->
                                                  next p6 nb
                                                    (u32 (Z.sub j (Zpos XH)))
                                                    q1 q2 st2
                                                | BStr s ->
                                                  (match s with
                                                   | [] ->
                                                     next p6 nb
                                                       (u32
                                                         (Z.sub j (Zpos XH)))
                                                       q1 q2 st2
                                                   | o :: ot ->
                                                     bind
                                                       (place nb j (o :: ot))
                                                       (fun x2 ->
                                                       let (nb', j') = x2 in
                                                       next p6 nb' j' q1 q2
                                                         st2))
                                                | BExt e -> Ok (LExt e))))
                                         | LExt e -> Ok (LExt e)))))
                          | None ->
                            bind (rdn p1 O) (fun c1 ->
                              if Z.eqb c1 Z0
                              then bind (wrz nb j c) (fun nb' ->
                                     next p1 nb' j q1 q2 st)
                              else bind (wrz nb j c1) (fun nb' ->
                                     next (tl p1) nb' j q1 q2 st)))
                   else if Z.eqb c (Zpos (XO (XO (XO (XO (XO (XI XH)))))))
                        then if q1 then literal q1 q2 else Ok (LExt Spawn)
                        else if Z.eqb c (Zpos (XO (XO (XI (XO (XO XH))))))
                             then if q1
                                  then literal q1 q2
                                  else bind (scan_env p) (fun x ->
                                         let (p', name) = x in
                                         (match genv name with
                                          | Some l ->
                                            (match l with
                                             | [] ->
                                               next p' nb
                                                 (u32 (Z.sub j (Zpos XH))) q1
                                                 q2 st
                                             | v :: vt ->
                                               bind (place nb j (v :: vt))
                                                 (fun x0 ->
                                                 let (nb', j') = x0 in
                                                 next p' nb' j' q1 q2 st))
                                          | None ->
                                            next p' nb
                                              (u32 (Z.sub j (Zpos XH))) q1 q2
                                              st))
                             else if Z.eqb c (Zpos (XO (XI (XO (XO (XO
                                       XH))))))
                                  then literal q1 (if q1 then q2 else negb q2)
                                  else if Z.eqb c (Zpos (XI (XI (XI (XO (XO
                                            XH))))))
                                       then literal (negb q1) q2
                                       else literal q1 q2)

(** val xloop :
    (z list -> z list option) -> z list -> z list -> nat -> buf -> buf -> z
    -> bool -> bool -> store -> lres res **)

let rec xloop genv progname progver = function
| O -> (fun _ _ _ _ _ _ -> Fault Out_of_fuel)
| S f -> xbody genv progname progver (xloop genv progname progver f)

(** val shell_expand :
    (z list -> z list option) -> z list -> z list -> nat -> buf -> store ->
    (xres * store) res **)

let shell_expand genv progname progver fuel s st =
  bind
    (xloop genv progname progver fuel s (repeat None cB) Z0 false false st)
    (fun r ->
    match r with
    | LDone (nb, j, st') ->
      bind (finish s nb j) (fun o -> Ok
        ((match o with
          | Some s' -> XBuf s'
          | None -> XNull), st'))
    | LNull st' -> Ok (XNull, st')
    | LExt e -> Ok ((XExt e), st))

(** val is_prefix : z list -> z list -> bool **)

let rec is_prefix a b =
  match a with
  | [] -> true
  | x :: a' ->
    (match b with
     | [] -> false
     | y :: b' -> (&&) (Z.eqb x y) (is_prefix a' b'))

(** val getenv_of : (z list * z list) list -> z list -> z list option **)

let rec getenv_of env name =
  match env with
  | [] -> None
  | p :: t ->
    let (k, v) = p in
    (match name with
     | [] -> None
     | _ :: _ ->
       if is_prefix (app name ((Zpos (XI (XO (XI (XI (XI XH)))))) :: []))
            (app k ((Zpos (XI (XO (XI (XI (XI XH)))))) :: v))
       then Some
              (skipn (S (length name))
                (app k ((Zpos (XI (XO (XI (XI (XI XH)))))) :: v)))
       else getenv_of t name)
