
(** val negb : bool -> bool **)

let negb = function
| true -> false
| false -> true

type nat =
| O
| S of nat

(** val fst : ('a1 * 'a2) -> 'a1 **)

let fst = function
| (x, _) -> x

(** val snd : ('a1 * 'a2) -> 'a2 **)

let snd = function
| (_, y) -> y

(** val length : 'a1 list -> nat **)

let rec length = function
| [] -> O
| _ :: l' -> S (length l')

(** val app : 'a1 list -> 'a1 list -> 'a1 list **)

let rec app l m =
  match l with
  | [] -> m
  | a :: l1 -> a :: (app l1 m)

type comparison =
| Eq
| Lt
| Gt

(** val compOpp : comparison -> comparison **)

let compOpp = function
| Eq -> Eq
| Lt -> Gt
| Gt -> Lt

module Coq__1 = struct
 (** val add : nat -> nat -> nat **)
 let rec add n0 m =
   match n0 with
   | O -> m
   | S p -> S (add p m)
end
include Coq__1

(** val fold_left : ('a1 -> 'a2 -> 'a1) -> 'a2 list -> 'a1 -> 'a1 **)

let rec fold_left f l a0 =
  match l with
  | [] -> a0
  | b :: t -> fold_left f t (f a0 b)

(** val filter : ('a1 -> bool) -> 'a1 list -> 'a1 list **)

let rec filter f = function
| [] -> []
| x :: l0 -> if f x then x :: (filter f l0) else filter f l0

(** val find : ('a1 -> bool) -> 'a1 list -> 'a1 option **)

let rec find f = function
| [] -> None
| x :: tl -> if f x then Some x else find f tl

(** val firstn : nat -> 'a1 list -> 'a1 list **)

let rec firstn n0 l =
  match n0 with
  | O -> []
  | S n1 -> (match l with
             | [] -> []
             | a :: l0 -> a :: (firstn n1 l0))

(** val skipn : nat -> 'a1 list -> 'a1 list **)

let rec skipn n0 l =
  match n0 with
  | O -> l
  | S n1 -> (match l with
             | [] -> []
             | _ :: l0 -> skipn n1 l0)

type positive =
| XI of positive
| XO of positive
| XH

type n =
| N0
| Npos of positive

type z =
| Z0
| Zpos of positive
| Zneg of positive

module Pos =
 struct
  (** val succ : positive -> positive **)

  let rec succ = function
  | XI p -> XO (succ p)
  | XO p -> XI p
  | XH -> XO XH

  (** val add : positive -> positive -> positive **)

  let rec add x y =
    match x with
    | XI p ->
      (match y with
       | XI q -> XO (add_carry p q)
       | XO q -> XI (add p q)
       | XH -> XO (succ p))
    | XO p ->
      (match y with
       | XI q -> XI (add p q)
       | XO q -> XO (add p q)
       | XH -> XI p)
    | XH -> (match y with
             | XI q -> XO (succ q)
             | XO q -> XI q
             | XH -> XO XH)

  (** val add_carry : positive -> positive -> positive **)

  and add_carry x y =
    match x with
    | XI p ->
      (match y with
       | XI q -> XI (add_carry p q)
       | XO q -> XO (add_carry p q)
       | XH -> XI (succ p))
    | XO p ->
      (match y with
       | XI q -> XO (add_carry p q)
       | XO q -> XI (add p q)
       | XH -> XO (succ p))
    | XH ->
      (match y with
       | XI q -> XI (succ q)
       | XO q -> XO (succ q)
       | XH -> XI XH)

  (** val pred_double : positive -> positive **)

  let rec pred_double = function
  | XI p -> XI (XO p)
  | XO p -> XI (pred_double p)
  | XH -> XH

  (** val mul : positive -> positive -> positive **)

  let rec mul x y =
    match x with
    | XI p -> add y (XO (mul p y))
    | XO p -> XO (mul p y)
    | XH -> y

  (** val iter : ('a1 -> 'a1) -> 'a1 -> positive -> 'a1 **)

  let rec iter f x = function
  | XI n' -> f (iter f (iter f x n') n')
  | XO n' -> iter f (iter f x n') n'
  | XH -> f x

  (** val compare_cont : comparison -> positive -> positive -> comparison **)

  let rec compare_cont r x y =
    match x with
    | XI p ->
      (match y with
       | XI q -> compare_cont r p q
       | XO q -> compare_cont Gt p q
       | XH -> Gt)
    | XO p ->
      (match y with
       | XI q -> compare_cont Lt p q
       | XO q -> compare_cont r p q
       | XH -> Gt)
    | XH -> (match y with
             | XH -> r
             | _ -> Lt)

  (** val compare : positive -> positive -> comparison **)

  let compare =
    compare_cont Eq

  (** val eqb : positive -> positive -> bool **)

  let rec eqb p q =
    match p with
    | XI p0 -> (match q with
                | XI q0 -> eqb p0 q0
                | _ -> false)
    | XO p0 -> (match q with
                | XO q0 -> eqb p0 q0
                | _ -> false)
    | XH -> (match q with
             | XH -> true
             | _ -> false)

  (** val iter_op : ('a1 -> 'a1 -> 'a1) -> positive -> 'a1 -> 'a1 **)

  let rec iter_op op0 p a =
    match p with
    | XI p0 -> op0 a (iter_op op0 p0 (op0 a a))
    | XO p0 -> iter_op op0 p0 (op0 a a)
    | XH -> a

  (** val to_nat : positive -> nat **)

  let to_nat x =
    iter_op Coq__1.add x (S O)

  (** val of_succ_nat : nat -> positive **)

  let rec of_succ_nat = function
  | O -> XH
  | S x -> succ (of_succ_nat x)
 end

module Z =
 struct
  (** val double : z -> z **)

  let double = function
  | Z0 -> Z0
  | Zpos p -> Zpos (XO p)
  | Zneg p -> Zneg (XO p)

  (** val succ_double : z -> z **)

  let succ_double = function
  | Z0 -> Zpos XH
  | Zpos p -> Zpos (XI p)
  | Zneg p -> Zneg (Pos.pred_double p)

  (** val pred_double : z -> z **)

  let pred_double = function
  | Z0 -> Zneg XH
  | Zpos p -> Zpos (Pos.pred_double p)
  | Zneg p -> Zneg (XI p)

  (** val pos_sub : positive -> positive -> z **)

  let rec pos_sub x y =
    match x with
    | XI p ->
      (match y with
       | XI q -> double (pos_sub p q)
       | XO q -> succ_double (pos_sub p q)
       | XH -> Zpos (XO p))
    | XO p ->
      (match y with
       | XI q -> pred_double (pos_sub p q)
       | XO q -> double (pos_sub p q)
       | XH -> Zpos (Pos.pred_double p))
    | XH ->
      (match y with
       | XI q -> Zneg (XO q)
       | XO q -> Zneg (Pos.pred_double q)
       | XH -> Z0)

  (** val add : z -> z -> z **)

  let add x y =
    match x with
    | Z0 -> y
    | Zpos x' ->
      (match y with
       | Z0 -> x
       | Zpos y' -> Zpos (Pos.add x' y')
       | Zneg y' -> pos_sub x' y')
    | Zneg x' ->
      (match y with
       | Z0 -> x
       | Zpos y' -> pos_sub y' x'
       | Zneg y' -> Zneg (Pos.add x' y'))

  (** val opp : z -> z **)

  let opp = function
  | Z0 -> Z0
  | Zpos x0 -> Zneg x0
  | Zneg x0 -> Zpos x0

  (** val sub : z -> z -> z **)

  let sub m n0 =
    add m (opp n0)

  (** val mul : z -> z -> z **)

  let mul x y =
    match x with
    | Z0 -> Z0
    | Zpos x' ->
      (match y with
       | Z0 -> Z0
       | Zpos y' -> Zpos (Pos.mul x' y')
       | Zneg y' -> Zneg (Pos.mul x' y'))
    | Zneg x' ->
      (match y with
       | Z0 -> Z0
       | Zpos y' -> Zneg (Pos.mul x' y')
       | Zneg y' -> Zpos (Pos.mul x' y'))

  (** val pow_pos : z -> positive -> z **)

  let pow_pos z0 =
    Pos.iter (mul z0) (Zpos XH)

  (** val pow : z -> z -> z **)

  let pow x = function
  | Z0 -> Zpos XH
  | Zpos p -> pow_pos x p
  | Zneg _ -> Z0

  (** val compare : z -> z -> comparison **)

  let compare x y =
    match x with
    | Z0 -> (match y with
             | Z0 -> Eq
             | Zpos _ -> Lt
             | Zneg _ -> Gt)
    | Zpos x' -> (match y with
                  | Zpos y' -> Pos.compare x' y'
                  | _ -> Gt)
    | Zneg x' ->
      (match y with
       | Zneg y' -> compOpp (Pos.compare x' y')
       | _ -> Lt)

  (** val leb : z -> z -> bool **)

  let leb x y =
    match compare x y with
    | Gt -> false
    | _ -> true

  (** val ltb : z -> z -> bool **)

  let ltb x y =
    match compare x y with
    | Lt -> true
    | _ -> false

  (** val eqb : z -> z -> bool **)

  let eqb x y =
    match x with
    | Z0 -> (match y with
             | Z0 -> true
             | _ -> false)
    | Zpos p -> (match y with
                 | Zpos q -> Pos.eqb p q
                 | _ -> false)
    | Zneg p -> (match y with
                 | Zneg q -> Pos.eqb p q
                 | _ -> false)

  (** val to_nat : z -> nat **)

  let to_nat = function
  | Zpos p -> Pos.to_nat p
  | _ -> O

  (** val of_nat : nat -> z **)

  let of_nat = function
  | O -> Z0
  | S n1 -> Zpos (Pos.of_succ_nat n1)

  (** val pos_div_eucl : positive -> z -> z * z **)

  let rec pos_div_eucl a b =
    match a with
    | XI a' ->
      let (q, r) = pos_div_eucl a' b in
      let r' = add (mul (Zpos (XO XH)) r) (Zpos XH) in
      if ltb r' b
      then ((mul (Zpos (XO XH)) q), r')
      else ((add (mul (Zpos (XO XH)) q) (Zpos XH)), (sub r' b))
    | XO a' ->
      let (q, r) = pos_div_eucl a' b in
      let r' = mul (Zpos (XO XH)) r in
      if ltb r' b
      then ((mul (Zpos (XO XH)) q), r')
      else ((add (mul (Zpos (XO XH)) q) (Zpos XH)), (sub r' b))
    | XH -> if leb (Zpos (XO XH)) b then (Z0, (Zpos XH)) else ((Zpos XH), Z0)

  (** val div_eucl : z -> z -> z * z **)

  let div_eucl a b =
    match a with
    | Z0 -> (Z0, Z0)
    | Zpos a' ->
      (match b with
       | Z0 -> (Z0, a)
       | Zpos _ -> pos_div_eucl a' b
       | Zneg b' ->
         let (q, r) = pos_div_eucl a' (Zpos b') in
         (match r with
          | Z0 -> ((opp q), Z0)
          | _ -> ((opp (add q (Zpos XH))), (add b r))))
    | Zneg a' ->
      (match b with
       | Z0 -> (Z0, a)
       | Zpos _ ->
         let (q, r) = pos_div_eucl a' b in
         (match r with
          | Z0 -> ((opp q), Z0)
          | _ -> ((opp (add q (Zpos XH))), (sub b r)))
       | Zneg b' -> let (q, r) = pos_div_eucl a' (Zpos b') in (q, (opp r)))

  (** val modulo : z -> z -> z **)

  let modulo a b =
    let (_, r) = div_eucl a b in r
 end

type fault =
| OOB_read
| OOB_write
| Uninit_read
| Null_deref
| Use_after_free
| Bad_free
| Out_of_fuel
| Int_overflow
| Abort

type 'a res =
| Ok of 'a
| Fault of fault

(** val bind : 'a1 res -> ('a1 -> 'a2 res) -> 'a2 res **)

let bind r k =
  match r with
  | Ok a -> k a
  | Fault f -> Fault f

(** val num_anchor : ((nat * positive) * n) * z **)

let num_anchor =
  (((O, XH), N0), Z0)

(** val spifmem_fname_len : z **)

let spifmem_fname_len =
  Zpos (XO (XO (XI (XO XH))))

(** val spifmem_fname_cap : z **)

let spifmem_fname_cap =
  Zpos (XI (XO (XI (XO XH))))

(** val spifmem_line_bits : z **)

let spifmem_line_bits =
  Zpos (XO (XO (XO (XO (XO XH)))))

(** val debug_mem : z **)

let debug_mem =
  Zpos (XI (XO XH))

(** val null_fname : z list **)

let null_fname =
  (Zpos (XO (XO (XI (XI (XI XH)))))) :: ((Zpos (XO (XI (XI (XO (XO (XI
    XH))))))) :: ((Zpos (XI (XO (XO (XI (XO (XI XH))))))) :: ((Zpos (XO (XO
    (XI (XI (XO (XI XH))))))) :: ((Zpos (XI (XO (XI (XO (XO (XI
    XH))))))) :: ((Zpos (XO (XI (XI (XI (XO (XI XH))))))) :: ((Zpos (XI (XO
    (XO (XO (XO (XI XH))))))) :: ((Zpos (XI (XO (XI (XI (XO (XI
    XH))))))) :: ((Zpos (XI (XO (XI (XO (XO (XI XH))))))) :: ((Zpos (XO (XO
    (XO (XO (XO XH)))))) :: ((Zpos (XO (XI (XI (XI (XO (XI
    XH))))))) :: ((Zpos (XI (XO (XI (XO (XI (XI XH))))))) :: ((Zpos (XO (XO
    (XI (XI (XO (XI XH))))))) :: ((Zpos (XO (XO (XI (XI (XO (XI
    XH))))))) :: ((Zpos (XO (XI (XI (XI (XI XH)))))) :: []))))))))))))))

type memrec = { r_ptr : z; r_size : z; r_file : z list; r_line : z }

type table = memrec list

(** val nonull : z list option -> z list **)

let nonull = function
| Some s -> s
| None -> null_fname

(** val store_fname : z list -> z list **)

let store_fname s =
  firstn (Z.to_nat (Z.sub spifmem_fname_cap (Zpos XH))) s

(** val store_line : z -> z **)

let store_line line =
  Z.modulo line (Z.pow (Zpos (XO XH)) spifmem_line_bits)

(** val memrec_add_var : table -> z list -> z -> z -> z -> table **)

let memrec_add_var t filename line ptr size =
  app t ({ r_ptr = ptr; r_size = size; r_file = (store_fname filename);
    r_line = (store_line line) } :: [])

(** val find_from : table -> z -> nat -> nat option **)

let rec find_from t ptr i =
  match t with
  | [] -> None
  | r :: t' -> if Z.eqb r.r_ptr ptr then Some i else find_from t' ptr (S i)

(** val memrec_find_var : table -> z -> nat option **)

let memrec_find_var t ptr =
  if Z.eqb ptr Z0 then None else find_from t ptr O

(** val memrec_rem_var : table -> z -> table **)

let memrec_rem_var t ptr =
  match memrec_find_var t ptr with
  | Some i -> app (firstn i t) (skipn (S i) t)
  | None -> t

(** val memrec_chg_var : table -> z list -> z -> z -> z -> z -> table **)

let memrec_chg_var t filename line oldp newp size =
  match memrec_find_var t oldp with
  | Some i ->
    app (firstn i t) ({ r_ptr = newp; r_size = size; r_file =
      (store_fname filename); r_line = (store_line line) } :: (skipn (S i) t))
  | None -> t

(** val memrec_dump : table -> z * z **)

let memrec_dump t =
  ((Z.of_nat (length t)), (fold_left (fun a r -> Z.add a r.r_size) t Z0))

type heap = (z * z) list

(** val h_lookup : heap -> z -> z option **)

let h_lookup h p =
  match find (fun b -> Z.eqb (fst b) p) h with
  | Some b -> Some (snd b)
  | None -> None

(** val h_live : heap -> z -> bool **)

let h_live h p =
  match h_lookup h p with
  | Some _ -> true
  | None -> false

(** val h_remove : z -> heap -> heap **)

let h_remove p h =
  filter (fun b -> negb (Z.eqb (fst b) p)) h

(** val a_malloc : heap -> z -> z -> z * heap **)

let a_malloc h size ans =
  if Z.eqb ans Z0 then (Z0, h) else (ans, ((ans, size) :: h))

(** val a_free : heap -> z -> heap res **)

let a_free h p =
  if Z.eqb p Z0
  then Ok h
  else if h_live h p then Ok (h_remove p h) else Fault Bad_free

(** val a_realloc : heap -> z -> z -> z -> (z * heap) res **)

let a_realloc h p size ans =
  if h_live h p
  then if Z.eqb ans Z0
       then Ok (Z0, h)
       else Ok (ans, ((ans, size) :: (h_remove p h)))
  else Fault Bad_free

type st = { s_lvl : z; s_tab : table; s_heap : heap }

(** val tracking : z -> bool **)

let tracking lvl =
  Z.leb debug_mem lvl

(** val size_t : z -> z **)

let size_t x =
  Z.modulo x (Z.pow (Zpos (XO XH)) (Zpos (XO (XO (XO (XO (XO (XO XH))))))))

(** val spifmem_malloc : st -> z list option -> z -> z -> z -> z * st **)

let spifmem_malloc s filename line size ans =
  let (temp, h) = a_malloc s.s_heap size ans in
  if Z.eqb temp Z0
  then (Z0, { s_lvl = s.s_lvl; s_tab = s.s_tab; s_heap = h })
  else if tracking s.s_lvl
       then (temp, { s_lvl = s.s_lvl; s_tab =
              (memrec_add_var s.s_tab (nonull filename) line temp size);
              s_heap = h })
       else (temp, { s_lvl = s.s_lvl; s_tab = s.s_tab; s_heap = h })

(** val spifmem_calloc : st -> z list option -> z -> z -> z -> z -> z * st **)

let spifmem_calloc s filename line count size ans =
  let total = size_t (Z.mul size count) in
  let (temp, h) = a_malloc s.s_heap total ans in
  if Z.eqb temp Z0
  then (Z0, { s_lvl = s.s_lvl; s_tab = s.s_tab; s_heap = h })
  else if tracking s.s_lvl
       then (temp, { s_lvl = s.s_lvl; s_tab =
              (memrec_add_var s.s_tab (nonull filename) line temp total);
              s_heap = h })
       else (temp, { s_lvl = s.s_lvl; s_tab = s.s_tab; s_heap = h })

(** val spifmem_free : st -> z -> st res **)

let spifmem_free s ptr =
  if Z.eqb ptr Z0
  then Ok s
  else let t =
         if tracking s.s_lvl then memrec_rem_var s.s_tab ptr else s.s_tab
       in
       bind (a_free s.s_heap ptr) (fun h -> Ok { s_lvl = s.s_lvl; s_tab = t;
         s_heap = h })

(** val spifmem_realloc :
    st -> z list option -> z -> z -> z -> z -> (z * st) res **)

let spifmem_realloc s filename line ptr size ans =
  if Z.eqb ptr Z0
  then if Z.eqb size Z0
       then Ok (Z0, s)
       else Ok (spifmem_malloc s filename line size ans)
  else if Z.eqb size Z0
       then bind (spifmem_free s ptr) (fun s' -> Ok (Z0, s'))
       else bind (a_realloc s.s_heap ptr size ans) (fun x ->
              let (temp, h) = x in
              if Z.eqb temp Z0
              then Ok (Z0, { s_lvl = s.s_lvl; s_tab = s.s_tab; s_heap = h })
              else if tracking s.s_lvl
                   then Ok (temp, { s_lvl = s.s_lvl; s_tab =
                          (memrec_chg_var s.s_tab (nonull filename) line ptr
                            temp size); s_heap = h })
                   else Ok (temp, { s_lvl = s.s_lvl; s_tab = s.s_tab;
                          s_heap = h }))

(** val spifmem_strdup :
    st -> z list option -> z -> z list option -> z -> z * st **)

let spifmem_strdup s filename line str ans =
  match str with
  | Some b ->
    spifmem_malloc s (Some (nonull filename)) line
      (Z.add (Z.of_nat (length b)) (Zpos XH)) ans
  | None -> (Z0, s)

(** val plain_MALLOC : st -> z -> z -> z * st **)

let plain_MALLOC s size ans =
  let (p, h) = a_malloc s.s_heap size ans in
  (p, { s_lvl = s.s_lvl; s_tab = s.s_tab; s_heap = h })

(** val plain_CALLOC : st -> z -> z -> z -> z * st **)

let plain_CALLOC s n0 esize ans =
  let (p, h) = a_malloc s.s_heap (size_t (Z.mul n0 esize)) ans in
  (p, { s_lvl = s.s_lvl; s_tab = s.s_tab; s_heap = h })

(** val plain_REALLOC : st -> z -> z -> z -> (z * st) res **)

let plain_REALLOC s mem size ans =
  if negb (Z.eqb size Z0)
  then if negb (Z.eqb mem Z0)
       then bind (a_realloc s.s_heap mem size ans) (fun x ->
              let (p, h) = x in
              Ok (p, { s_lvl = s.s_lvl; s_tab = s.s_tab; s_heap = h }))
       else Ok (plain_MALLOC s size ans)
  else if negb (Z.eqb mem Z0)
       then bind (a_free s.s_heap mem) (fun h -> Ok (Z0, { s_lvl = s.s_lvl;
              s_tab = s.s_tab; s_heap = h }))
       else Ok (Z0, s)

(** val plain_FREE : st -> z -> st res **)

let plain_FREE s ptr =
  bind (a_free s.s_heap ptr) (fun h -> Ok { s_lvl = s.s_lvl; s_tab = s.s_tab;
    s_heap = h })

(** val plain_STRDUP : st -> z list option -> z -> (z * st) res **)

let plain_STRDUP s str ans =
  match str with
  | Some b -> Ok (plain_MALLOC s (Z.add (Z.of_nat (length b)) (Zpos XH)) ans)
  | None -> Fault Null_deref

(** val tracking_build : z -> bool **)

let tracking_build build =
  Z.leb debug_mem build

type op =
| SetLevel of z
| Malloc of z list option * z * z * z
| Calloc of z list option * z * z * z * z
| Realloc of z list option * z * z * z * z
| Strdup of z list option * z * z list option * z
| Free of z
| MMalloc of z list * z * z * z
| MCalloc of z list * z * z * z * z
| MRealloc of z list * z * z * z * z
| MStrdup of z list * z * z list option * z
| MFree of z
| Foreign of z * z
| Dump

type outcome =
| RetPtr of z
| RetVoid
| Dumped of z * z

(** val step : z -> st -> op -> (outcome * st) res **)

let step build s = function
| SetLevel l ->
  Ok (RetVoid, { s_lvl = l; s_tab = s.s_tab; s_heap = s.s_heap })
| Malloc (f, l, sz, a) ->
  let (p, s') = spifmem_malloc s f l sz a in Ok ((RetPtr p), s')
| Calloc (f, l, n0, sz, a) ->
  let (p, s') = spifmem_calloc s f l n0 sz a in Ok ((RetPtr p), s')
| Realloc (f, l, p, sz, a) ->
  bind (spifmem_realloc s f l p sz a) (fun x ->
    let (q, s') = x in Ok ((RetPtr q), s'))
| Strdup (f, l, str, a) ->
  let (p, s') = spifmem_strdup s f l str a in Ok ((RetPtr p), s')
| Free p -> bind (spifmem_free s p) (fun s' -> Ok (RetVoid, s'))
| MMalloc (f, l, sz, a) ->
  let (p, s') =
    if tracking_build build
    then spifmem_malloc s (Some f) l sz a
    else plain_MALLOC s sz a
  in
  Ok ((RetPtr p), s')
| MCalloc (f, l, n0, es, a) ->
  let (p, s') =
    if tracking_build build
    then spifmem_calloc s (Some f) l n0 es a
    else plain_CALLOC s n0 es a
  in
  Ok ((RetPtr p), s')
| MRealloc (f, l, p, sz, a) ->
  bind
    (if tracking_build build
     then spifmem_realloc s (Some f) l p sz a
     else plain_REALLOC s p sz a) (fun x ->
    let (q, s') = x in Ok ((RetPtr q), s'))
| MStrdup (f, l, str, a) ->
  bind
    (if tracking_build build
     then Ok (spifmem_strdup s (Some f) l str a)
     else plain_STRDUP s str a) (fun x ->
    let (q, s') = x in Ok ((RetPtr q), s'))
| MFree p ->
  bind (if tracking_build build then spifmem_free s p else plain_FREE s p)
    (fun s' -> Ok ((RetPtr Z0), s'))
| Foreign (sz, a) ->
  let (p, h) = a_malloc s.s_heap sz a in
  Ok ((RetPtr p), { s_lvl = s.s_lvl; s_tab = s.s_tab; s_heap = h })
| Dump -> let (c, t) = memrec_dump s.s_tab in Ok ((Dumped (c, t)), s)

(** val run : z -> st -> op list -> ((outcome * z) list * st) res **)

let rec run build s = function
| [] -> Ok ([], s)
| o :: rest ->
  bind (step build s o) (fun x ->
    let (out, s') = x in
    bind (run build s' rest) (fun x0 ->
      let (outs, s'') = x0 in
      Ok (((out, (Z.of_nat (length s'.s_tab))) :: outs), s'')))

(** val init_state : z -> st **)

let init_state lvl =
  { s_lvl = lvl; s_tab = []; s_heap = [] }

type info = (z * z list) * z

type smap = (z * info) list

(** val sm_lookup : z -> smap -> info option **)

let sm_lookup p m =
  match find (fun e -> Z.eqb (fst e) p) m with
  | Some e -> Some (snd e)
  | None -> None

(** val sm_delete : z -> smap -> smap **)

let sm_delete p m =
  filter (fun e -> negb (Z.eqb (fst e) p)) m

(** val sm_insert : z -> info -> smap -> smap **)

let sm_insert p i m =
  (p, i) :: (sm_delete p m)

(** val file20 : z list option -> z list **)

let file20 f =
  firstn (Z.to_nat spifmem_fname_len) (nonull f)

type spec_st = { sp_map : smap; sp_foreign : heap }

(** val spec_alloc : spec_st -> z list option -> z -> z -> z -> spec_st **)

let spec_alloc sp f line size ans =
  { sp_map = (sm_insert ans ((size, (file20 f)), line) sp.sp_map);
    sp_foreign = sp.sp_foreign }

(** val spec_free : spec_st -> z -> spec_st **)

let spec_free sp p =
  { sp_map = (sm_delete p sp.sp_map); sp_foreign =
    (h_remove p sp.sp_foreign) }

(** val spec_realloc :
    spec_st -> z list option -> z -> z -> z -> z -> spec_st **)

let spec_realloc sp f line p size ans =
  if Z.eqb p Z0
  then if Z.eqb size Z0 then sp else spec_alloc sp f line size ans
  else if Z.eqb size Z0
       then spec_free sp p
       else (match sm_lookup p sp.sp_map with
             | Some _ ->
               { sp_map =
                 (sm_insert ans ((size, (file20 f)), line)
                   (sm_delete p sp.sp_map)); sp_foreign = sp.sp_foreign }
             | None ->
               { sp_map = sp.sp_map; sp_foreign = ((ans,
                 size) :: (h_remove p sp.sp_foreign)) })

(** val spec_step : spec_st -> op -> spec_st **)

let spec_step sp = function
| Malloc (f, l, sz, a) -> spec_alloc sp f l sz a
| Calloc (f, l, n0, sz, a) -> spec_alloc sp f l (size_t (Z.mul sz n0)) a
| Realloc (f, l, p, sz, a) -> spec_realloc sp f l p sz a
| Strdup (f, l, str, a) ->
  (match str with
   | Some b -> spec_alloc sp f l (Z.add (Z.of_nat (length b)) (Zpos XH)) a
   | None -> sp)
| Free p -> spec_free sp p
| MMalloc (f, l, sz, a) -> spec_alloc sp (Some f) l sz a
| MCalloc (f, l, n0, es, a) ->
  spec_alloc sp (Some f) l (size_t (Z.mul es n0)) a
| MRealloc (f, l, p, sz, a) -> spec_realloc sp (Some f) l p sz a
| MStrdup (f, l, str, a) ->
  (match str with
   | Some b ->
     spec_alloc sp (Some f) l (Z.add (Z.of_nat (length b)) (Zpos XH)) a
   | None -> sp)
| MFree p -> spec_free sp p
| Foreign (sz, a) ->
  { sp_map = sp.sp_map; sp_foreign = ((a, sz) :: sp.sp_foreign) }
| _ -> sp

(** val spec_run : op list -> spec_st **)

let spec_run ops =
  fold_left spec_step ops { sp_map = []; sp_foreign = [] }

(** val freshb : heap -> z -> bool **)

let freshb h a =
  (&&) (negb (Z.eqb a Z0)) (negb (h_live h a))

(** val valid_opb : heap -> op -> bool **)

let valid_opb h = function
| Malloc (_, _, _, a) -> freshb h a
| Calloc (_, _, _, _, a) -> freshb h a
| Realloc (_, _, p, sz, a) ->
  if Z.eqb p Z0
  then (||) (Z.eqb sz Z0) (freshb h a)
  else if Z.eqb sz Z0 then true else (||) (Z.eqb a p) (freshb h a)
| Strdup (_, _, _, a) -> freshb h a
| MMalloc (_, _, _, a) -> freshb h a
| MCalloc (_, _, _, _, a) -> freshb h a
| MRealloc (_, _, p, sz, a) ->
  if Z.eqb p Z0
  then (||) (Z.eqb sz Z0) (freshb h a)
  else if Z.eqb sz Z0 then true else (||) (Z.eqb a p) (freshb h a)
| MStrdup (_, _, _, a) -> freshb h a
| Foreign (_, a) -> freshb h a
| _ -> true

(** val sane_script : z -> st -> op list -> bool **)

let rec sane_script build s = function
| [] -> true
| o :: rest ->
  (&&) (valid_opb s.s_heap o)
    (match step build s o with
     | Ok a -> let (_, s') = a in sane_script build s' rest
     | Fault _ -> true)
