
val negb : bool -> bool

type nat =
| O
| S of nat

val fst : ('a1 * 'a2) -> 'a1

val snd : ('a1 * 'a2) -> 'a2

val app : 'a1 list -> 'a1 list -> 'a1 list

type byte =
| X00
| X01
| X02
| X03
| X04
| X05
| X06
| X07
| X08
| X09
| X0a
| X0b
| X0c
| X0d
| X0e
| X0f
| X10
| X11
| X12
| X13
| X14
| X15
| X16
| X17
| X18
| X19
| X1a
| X1b
| X1c
| X1d
| X1e
| X1f
| X20
| X21
| X22
| X23
| X24
| X25
| X26
| X27
| X28
| X29
| X2a
| X2b
| X2c
| X2d
| X2e
| X2f
| X30
| X31
| X32
| X33
| X34
| X35
| X36
| X37
| X38
| X39
| X3a
| X3b
| X3c
| X3d
| X3e
| X3f
| X40
| X41
| X42
| X43
| X44
| X45
| X46
| X47
| X48
| X49
| X4a
| X4b
| X4c
| X4d
| X4e
| X4f
| X50
| X51
| X52
| X53
| X54
| X55
| X56
| X57
| X58
| X59
| X5a
| X5b
| X5c
| X5d
| X5e
| X5f
| X60
| X61
| X62
| X63
| X64
| X65
| X66
| X67
| X68
| X69
| X6a
| X6b
| X6c
| X6d
| X6e
| X6f
| X70
| X71
| X72
| X73
| X74
| X75
| X76
| X77
| X78
| X79
| X7a
| X7b
| X7c
| X7d
| X7e
| X7f
| X80
| X81
| X82
| X83
| X84
| X85
| X86
| X87
| X88
| X89
| X8a
| X8b
| X8c
| X8d
| X8e
| X8f
| X90
| X91
| X92
| X93
| X94
| X95
| X96
| X97
| X98
| X99
| X9a
| X9b
| X9c
| X9d
| X9e
| X9f
| Xa0
| Xa1
| Xa2
| Xa3
| Xa4
| Xa5
| Xa6
| Xa7
| Xa8
| Xa9
| Xaa
| Xab
| Xac
| Xad
| Xae
| Xaf
| Xb0
| Xb1
| Xb2
| Xb3
| Xb4
| Xb5
| Xb6
| Xb7
| Xb8
| Xb9
| Xba
| Xbb
| Xbc
| Xbd
| Xbe
| Xbf
| Xc0
| Xc1
| Xc2
| Xc3
| Xc4
| Xc5
| Xc6
| Xc7
| Xc8
| Xc9
| Xca
| Xcb
| Xcc
| Xcd
| Xce
| Xcf
| Xd0
| Xd1
| Xd2
| Xd3
| Xd4
| Xd5
| Xd6
| Xd7
| Xd8
| Xd9
| Xda
| Xdb
| Xdc
| Xdd
| Xde
| Xdf
| Xe0
| Xe1
| Xe2
| Xe3
| Xe4
| Xe5
| Xe6
| Xe7
| Xe8
| Xe9
| Xea
| Xeb
| Xec
| Xed
| Xee
| Xef
| Xf0
| Xf1
| Xf2
| Xf3
| Xf4
| Xf5
| Xf6
| Xf7
| Xf8
| Xf9
| Xfa
| Xfb
| Xfc
| Xfd
| Xfe
| Xff

val to_bits :
  byte -> bool * (bool * (bool * (bool * (bool * (bool * (bool * bool))))))

val eqb : bool -> bool -> bool

module Nat :
 sig
  val eqb : nat -> nat -> bool

  val leb : nat -> nat -> bool

  val ltb : nat -> nat -> bool
 end

val nth_error : 'a1 list -> nat -> 'a1 option

val map : ('a1 -> 'a2) -> 'a1 list -> 'a2 list

val flat_map : ('a1 -> 'a2 list) -> 'a1 list -> 'a2 list

val existsb : ('a1 -> bool) -> 'a1 list -> bool

val forallb : ('a1 -> bool) -> 'a1 list -> bool

val filter : ('a1 -> bool) -> 'a1 list -> 'a1 list

type positive =
| XI of positive
| XO of positive
| XH

type n =
| N0
| Npos of positive

type z =
| Z0
| Zpos of positive
| Zneg of positive

val eqb0 : byte -> byte -> bool

val to_N : byte -> n

type fault =
| OOB_read
| OOB_write
| Uninit_read
| Null_deref
| Use_after_free
| Bad_free
| Out_of_fuel
| Int_overflow
| Abort

type 'a res =
| Ok of 'a
| Fault of fault

val bind : 'a1 res -> ('a1 -> 'a2 res) -> 'a2 res

val num_anchor : ((nat * positive) * n) * z

type fname = byte list
  (* singleton inductive, whose constructor was FN *)

val bytes_of_fname : fname -> byte list

val fname_codes : fname -> n list

val bytes_eqb : byte list -> byte list -> bool

val fname_eqb : fname -> fname -> bool

type rty =
| TVoid
| TBool
| TCmp
| TFloat
| TPtr
| TInt

type rval =
| RvVoid
| RvFalse
| RvTrue
| RvNull
| RvNullStr
| RvNeg1
| RvZero
| RvNaN
| RvCmpLess
| RvCmpEqual
| RvCmpGreater
| RvCall of fname
| RvHandled
| RvOther

type gkind =
| GAssert
| GRequire
| GAssertV
| GRequireV
| GIf

type dpost =
| PId
| PNullToFalse

type item =
| Deref of nat
| Use of nat
| Call_alloc
| Guard of gkind * nat list * rval
| CompNull of nat * nat
| Delegate of fname * nat option list * dpost
| Body

type reach =
| Exported
| Slot
| Helper

type entry = { e_name : fname; e_reach : reach; e_ret : rty;
               e_params : bool list; e_self : nat option; e_slots : nat;
               e_parsed : bool; e_prelude : item list }

type gact =
| AFatal
| AWarn
| ADprint
| AReturn

type guard_sem = { gs_thr : nat; gs_hi : gact list; gs_lo : gact list;
                   gs_after : gact list }

type sems = { s_assert_rval : guard_sem; s_require_rval : guard_sem;
              s_assert : guard_sem; s_require : guard_sem;
              s_comp_both : rval; s_comp_first : rval; s_comp_second : 
              rval }

val if_sem : guard_sem

val sem_of : sems -> gkind -> guard_sem

type outcome =
| Returned of rval
| Fatal
| Crashed
| Carried_on

type result = outcome * bool

val run_acts : gact list -> rval -> outcome option

val fire : guard_sem -> nat -> rval -> outcome option

val find_entry : fname -> entry list -> entry option

val arg_index : nat -> nat option list -> nat -> nat option

val mem : nat -> nat list -> bool

val post_out : dpost -> outcome -> outcome

val eval_items :
  sems -> nat -> (fname -> nat -> result) -> item list -> nat -> bool ->
  result

val eval_fn : sems -> entry list -> nat -> nat -> fname -> nat -> result

val fuel0 : nat

val eval : sems -> entry list -> nat -> entry -> nat -> result

val failure_value : rty -> bool -> rval -> bool

type cell_class =
| FailSoft
| Fallback
| Handled
| Unguarded

val guard_class_items :
  (fname -> nat -> cell_class) -> item list -> nat -> cell_class

val guard_class_fn : entry list -> nat -> fname -> nat -> cell_class

val guard_class : entry list -> entry -> nat -> cell_class

type cell = fname * nat

val c_fn : cell -> fname

val c_param : cell -> nat

val class_of : entry list -> entry -> nat -> cell_class

val ptr_positions : bool list -> nat -> nat list

val is_unguarded : cell_class -> bool

val derived_cells : entry list -> cell list

val first_operand : entry -> nat -> bool

val strict_ok : entry -> nat -> result -> bool

val relaxed_ok : entry -> nat -> result -> bool

val safe_ok : result -> bool

val thresholds : sems -> nat list

val check_cell : sems -> entry list -> cell -> bool

val cell_eqb : cell -> cell -> bool

val guards_items : (fname -> nat -> bool) -> item list -> nat -> bool

val guards_fn : entry list -> nat -> fname -> nat -> bool

val guards : entry list -> entry -> nat -> bool

val is_method : entry -> bool

val failing_slots : entry list -> cell list

val all_cells : cell list -> entry list -> cell list

val unparsed : entry list -> fname list

val predict :
  sems -> entry list -> nat -> nat -> nat -> (fname * result) option

val cell_report :
  sems -> entry list -> cell list -> ((cell * cell_class) * bool) list

val table_errors : fname list

val guard_sems : sems

val table : entry list

val named_cells : cell list

val exempt : cell list

val table_digest : fname
