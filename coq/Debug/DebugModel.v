(* C20 - interpreter of the generated macro ladder (Gen/DebugLadder.v), the small specification of
   each macro family, and the boolean checkers that compare the two on the finitely many regions
   cut out by the level constants.  No proofs in this file (Debug/DebugProofs.v has them), so the model
   still runs when a proof breaks. *)
From LV Require Export Debug.MsgsModel.
From LV Require Export Gen.DebugLadder.
From Coq Require Import Lia.
Local Open Scope Z_scope.

(* ------------------------------------------------------------------------------------------- *)
(* compile-time environment: the value of DEBUG and the two facts about the compiler the header  *)
(* tests (gcc: both true)                                                                        *)
Record cenv : Set := { e_c : Z; e_fileline : bool; e_gnuc : bool }.

Definition eval_cmp (o : cmp) (x k : Z) : bool :=
  match o with
  | Ge => x >=? k | Gt => x >? k | Le => x <=? k | Lt => x <? k | Eq => x =? k | Ne => negb (x =? k)
  end.

Definition eval_atom (e : cenv) (a : catom) : bool :=
  match a with
  | CDebug o k pol => Bool.eqb (eval_cmp o (e_c e) k) pol
  | CFileLine pol => Bool.eqb (e_fileline e) pol
  | CGnuc pol => Bool.eqb (e_gnuc e) pol
  end.

Definition eval_path (e : cenv) (p : list catom) : bool := forallb (eval_atom e) p.

(* the preprocessor reaches the #define whose enclosing conditions all hold; the first such one *)
Fixpoint select (e : cenv) (alts : list (list catom * mdef)) : option mdef :=
  match alts with
  | [] => None
  | (p, d) :: t => if eval_path e p then Some d else select e t
  end.

Fixpoint lookup (name : mname) (l : list macro) : option macro :=
  match l with
  | [] => None
  | m :: t => if mname_eqb name (m_name m) then Some m else lookup name t
  end.

Definition eval_rcond (r : Z) (rc : rcond) : bool :=
  match rc with RCmp o k => eval_cmp o r k | RConst b => b end.

Definition stuck : list event * ctl := ([], Stuck).

(* execution of a body: events in order, and how control leaves.  [fuel] bounds the depth of macro
   uses inside macros (D_X -> DPRINTF -> __DEBUG is 2); exhausting it is Stuck, never a default *)
Fixpoint exec (l : list macro) (fuel : nat) (e : cenv) (s : rt) : body -> list event * ctl :=
  fix go (b : body) : list event * ctl :=
    match b with
    | Nop => ([], Fall)
    | Seq a b' =>
        let '(ev, c) := go a in
        match c with
        | Fall => let '(ev', c') := go b' in (ev ++ ev', c')
        | _ => (ev, c)
        end
    | If rc t f => if eval_rcond (r_level s) rc then go t else go f
    | IfNotArg t =>
        if r_cond s then ([EvCond], Fall)
        else let '(ev, c) := go t in (EvCond :: ev, c)
    | Out p user_args =>
        let '(ev, c) := prim_model p s in
        ((if user_args then [EvArgs] else []) ++ ev, c)
    | Return v => ((if v then [EvVal] else []), Ret v)
    | Call name =>
        match fuel with
        | O => stuck
        | S f =>
            match lookup name l with
            | Some m =>
                match select e (m_alts m) with
                | Some (DStmt b') => exec l f e s b'
                | _ => stuck
                end
            | None => stuck
            end
        end
    | Under name b' =>
        match lookup name l with
        | Some m =>
            match select e (m_alts m) with
            | Some (DPrefix rc) => if eval_rcond (r_level s) rc then go b' else ([], Fall)
            | _ => stuck
            end
        | None => stuck
        end
    | Mark => ([EvMark], Fall)
    end.

Definition call_depth : nat := 8.

(* one use of the macro [name] as a statement (a prefix macro guards one user statement) *)
Definition run_in (l : list macro) (name : mname) (e : cenv) (s : rt) : list event * ctl :=
  match lookup name l with
  | Some m =>
      match select e (m_alts m) with
      | Some (DStmt b) => exec l call_depth e s b
      | Some (DPrefix rc) => if eval_rcond (r_level s) rc then ([EvMark], Fall) else ([], Fall)
      | None => stuck
      end
  | None => stuck
  end.

(* ------------------------------------------------------------------------------------------- *)
(* observations: what the property (and a probe program) can see                                 *)
Record obs : Set := {
  o_dbg : bool;        (* debugging text was written (libast_dprintf or bare fprintf) *)
  o_warn : bool;       (* a "Warning:" message was written *)
  o_err : bool;        (* an "Error:" message was written *)
  o_fatal : bool;      (* a "FATAL:" message was written *)
  o_cond : nat;        (* how often the condition argument was evaluated *)
  o_args : nat;        (* ... the parenthesised argument list *)
  o_val : nat;         (* ... the return-value argument *)
  o_mark : nat;        (* ... the statement guarded by a prefix macro *)
  o_ctl : ctl
}.

Definition event_eqb (a b : event) : bool :=
  match a, b with
  | EvCond, EvCond | EvArgs, EvArgs | EvVal, EvVal | EvMark, EvMark
  | OutDbg, OutDbg | OutWarn, OutWarn | OutErr, OutErr | OutFatal, OutFatal | OutRaw, OutRaw => true
  | _, _ => false
  end.

Definition has (x : event) (l : list event) : bool := existsb (event_eqb x) l.
Definition count (x : event) (l : list event) : nat := List.length (filter (event_eqb x) l).

Definition observe (r : list event * ctl) : obs :=
  let '(ev, c) := r in
  {| o_dbg := has OutDbg ev || has OutRaw ev; o_warn := has OutWarn ev; o_err := has OutErr ev;
     o_fatal := has OutFatal ev;
     o_cond := count EvCond ev; o_args := count EvArgs ev; o_val := count EvVal ev; o_mark := count EvMark ev;
     o_ctl := c |}.

Definition printed (o : obs) : bool := o_dbg o || o_warn o || o_err o || o_fatal o.

Definition behaviour_in (l : list macro) (name : mname) (e : cenv) (s : rt) : obs := observe (run_in l name e s).
(* the model of the current tree *)
Definition behaviour : mname -> cenv -> rt -> obs := behaviour_in ladder.

(* the primitives themselves, probed directly *)
Definition prim_behaviour (p : prim) (s : rt) : obs := observe (prim_model p s).

(* ------------------------------------------------------------------------------------------- *)
(* specification                                                                                 *)
Definition can_print (s : rt) : bool := negb (r_silent s) && r_name s.
Definition b2n (b : bool) : nat := if b then 1%nat else 0%nat.

Definition quiet : obs :=
  {| o_dbg := false; o_warn := false; o_err := false; o_fatal := false;
     o_cond := 0; o_args := 0; o_val := 0; o_mark := 0; o_ctl := Fall |}.

Inductive kind : Set :=
| KHdr                       (* __DEBUG() *)
| KAssert (rv : bool)        (* ASSERT, ASSERT_RVAL *)
| KNotreached (rv : bool)    (* ASSERT_NOTREACHED, ASSERT_NOTREACHED_RVAL *)
| KRequire (rv : bool)       (* REQUIRE, REQUIRE_RVAL *)
| KAbort
| KDprintf (n : Z)           (* DPRINTFn *)
| KDprintfPlain              (* DPRINTF *)
| KNever                     (* D_NEVER *)
| KD (L : Z)                 (* D_X of level L *)
| KDIf (L : Z).              (* D_X_IF of level L *)

(* a debugging statement whose gate is [g]: prints through libast_dprintf and evaluates its
   argument list iff g *)
Definition spec_gated (g : bool) (s : rt) : obs :=
  {| o_dbg := g && can_print s; o_warn := false; o_err := false; o_fatal := false;
     o_cond := 0; o_args := b2n g; o_val := 0; o_mark := 0; o_ctl := Fall |}.

(* a failed assertion with debugging compiled in *)
Definition spec_assert_failed (rv : bool) (s : rt) : obs :=
  if r_level s >=? 1 then
    {| o_dbg := false; o_warn := false; o_err := false; o_fatal := can_print s;
       o_cond := 0; o_args := 0; o_val := 0; o_mark := 0; o_ctl := Exit |}
  else
    {| o_dbg := false; o_warn := can_print s; o_err := false; o_fatal := false;
       o_cond := 0; o_args := 0; o_val := b2n rv; o_mark := 0; o_ctl := Ret rv |}.

Definition with_cond (o : obs) : obs :=
  {| o_dbg := o_dbg o; o_warn := o_warn o; o_err := o_err o; o_fatal := o_fatal o;
     o_cond := 1; o_args := o_args o; o_val := o_val o; o_mark := o_mark o; o_ctl := o_ctl o |}.

Definition bare_return (rv : bool) : obs :=
  {| o_dbg := false; o_warn := false; o_err := false; o_fatal := false;
     o_cond := 0; o_args := 0; o_val := b2n rv; o_mark := 0; o_ctl := Ret rv |}.

Definition spec (k : kind) (e : cenv) (s : rt) : obs :=
  let c := e_c e in
  let r := r_level s in
  match k with
  | KHdr => {| o_dbg := e_fileline e && can_print s; o_warn := false; o_err := false; o_fatal := false;
               o_cond := 0; o_args := 0; o_val := 0; o_mark := 0; o_ctl := Fall |}
  | KAssert rv =>
      if c >=? 1 then
        (if r_cond s then with_cond quiet else with_cond (spec_assert_failed rv s))
      else quiet
  | KNotreached rv =>
      if (c >=? 1) && e_fileline e then spec_assert_failed rv s else bare_return rv
  | KRequire rv =>
      if r_cond s then with_cond quiet
      else
        {| o_dbg := (c >=? 1) && (r >=? 1) && can_print s; o_warn := false; o_err := false; o_fatal := false;
           o_cond := 1; o_args := 0; o_val := b2n rv; o_mark := 0; o_ctl := Ret rv |}
  | KAbort =>
      {| o_dbg := false; o_warn := false; o_err := false; o_fatal := can_print s;
         o_cond := 0; o_args := 0; o_val := 0; o_mark := 0; o_ctl := Exit |}
  | KDprintf n => spec_gated ((c >=? 1) && (r >=? n)) s
  | KDprintfPlain => spec_gated (c >=? 1) s
  | KNever => quiet
  | KD L => spec_gated ((c >=? L) && (r >=? L)) s
  | KDIf L =>
      {| o_dbg := false; o_warn := false; o_err := false; o_fatal := false;
         o_cond := 0; o_args := 0; o_val := 0; o_mark := b2n ((c >=? L) && (r >=? L)); o_ctl := Fall |}
  end.

Definition spec_prim (p : prim) (s : rt) : obs :=
  let q := can_print s in
  match p with
  | PDprintf => {| o_dbg := q; o_warn := false; o_err := false; o_fatal := false;
                   o_cond := 0; o_args := 0; o_val := 0; o_mark := 0; o_ctl := Fall |}
  | PWarn => {| o_dbg := false; o_warn := q; o_err := false; o_fatal := false;
                o_cond := 0; o_args := 0; o_val := 0; o_mark := 0; o_ctl := Fall |}
  | PError => {| o_dbg := false; o_warn := false; o_err := q; o_fatal := false;
                 o_cond := 0; o_args := 0; o_val := 0; o_mark := 0; o_ctl := Fall |}
  | PFatal => {| o_dbg := false; o_warn := false; o_err := false; o_fatal := q;
                 o_cond := 0; o_args := 0; o_val := 0; o_mark := 0; o_ctl := Exit |}
  | PRaw => {| o_dbg := true; o_warn := false; o_err := false; o_fatal := false;
               o_cond := 0; o_args := 0; o_val := 0; o_mark := 0; o_ctl := Fall |}
  end.

(* every macro of the generated families with the kind it is held to; the level of a D_X macro is the
   one its documentation states *)
Definition classify (hdr : list mname) (asrt nr req : list (mname * bool)) (ab : list mname)
           (dp : list (mname * Z)) (dpp nev : list mname) (ds : list dfam) : list (mname * kind) :=
  map (fun n => (n, KHdr)) hdr ++
  map (fun p => (fst p, KAssert (snd p))) asrt ++
  map (fun p => (fst p, KNotreached (snd p))) nr ++
  map (fun p => (fst p, KRequire (snd p))) req ++
  map (fun n => (n, KAbort)) ab ++
  map (fun p => (fst p, KDprintf (snd p))) dp ++
  map (fun n => (n, KDprintfPlain)) dpp ++
  map (fun n => (n, KNever)) nev ++
  map (fun d => (d_name d, KD (d_doc d))) ds ++
  map (fun d => (d_if d, KDIf (d_doc d))) ds.

Definition classified : list (mname * kind) :=
  classify hdr_family assert_family notreached_family require_family abort_family
           dprintf_family dprintf_plain_family never_family d_family.

(* ------------------------------------------------------------------------------------------- *)
(* thresholds and representative values                                                          *)
(* the values t such that the comparison can be decided from the truth values of (x >= t) *)
Definition cmp_thr (o : cmp) (k : Z) : list Z :=
  match o with Ge | Lt => [k] | Gt | Le => [k + 1] | Eq | Ne => [k; k + 1] end.
Definition atom_thr (a : catom) : list Z := match a with CDebug o k _ => cmp_thr o k | _ => [] end.
Definition rcond_thr (rc : rcond) : list Z := match rc with RCmp o k => cmp_thr o k | RConst _ => [] end.

Fixpoint body_rthr (b : body) : list Z :=
  match b with
  | Seq a b' => body_rthr a ++ body_rthr b'
  | If rc t f => rcond_thr rc ++ body_rthr t ++ body_rthr f
  | IfNotArg t => body_rthr t
  | Under _ b' => body_rthr b'
  | _ => []
  end.

Definition def_rthr (d : mdef) : list Z :=
  match d with DStmt b => body_rthr b | DPrefix rc => rcond_thr rc end.

Definition ladder_cthr (l : list macro) : list Z :=
  flat_map (fun m => flat_map (fun a => flat_map atom_thr (fst a)) (m_alts m)) l.
Definition ladder_rthr (l : list macro) : list Z :=
  flat_map (fun m => flat_map (fun a => def_rthr (snd a)) (m_alts m)) l.

Definition kind_cthr (k : kind) : list Z :=
  match k with
  | KHdr | KNever => []
  | KD L | KDIf L => [L]
  | _ => [1]
  end.
Definition kind_rthr (k : kind) : list Z :=
  match k with
  | KHdr | KNever | KAbort | KDprintfPlain => []
  | KD L | KDIf L => [L]
  | KDprintf n => [n]
  | _ => [1]
  end.

(* the greatest threshold not above x, if any *)
Fixpoint below (ks : list Z) (x : Z) : option Z :=
  match ks with
  | [] => None
  | k :: t =>
      let b := below t x in
      if k <=? x then Some (match b with Some m => Z.max k m | None => k end) else b
  end.
Fixpoint minl (ks : list Z) : option Z :=
  match ks with
  | [] => None
  | k :: t => Some (match minl t with Some m => Z.min k m | None => k end)
  end.
(* a value that compares with every threshold as x does *)
Definition rep (ks : list Z) (x : Z) : Z :=
  match below ks x with
  | Some m => m
  | None => match minl ks with Some m => m - 1 | None => 0 end
  end.
(* all values rep can take: each threshold and its predecessor *)
Definition cells (ks : list Z) : list Z := nodup Z.eq_dec (0 :: flat_map (fun k => [k - 1; k]) ks).

(* ------------------------------------------------------------------------------------------- *)
(* boolean checkers                                                                              *)
Definition ctl_eqb (a b : ctl) : bool :=
  match a, b with
  | Fall, Fall | Exit, Exit | Stuck, Stuck => true
  | Ret x, Ret y => Bool.eqb x y
  | _, _ => false
  end.

Definition obs_eqb (a b : obs) : bool :=
  Bool.eqb (o_dbg a) (o_dbg b) && Bool.eqb (o_warn a) (o_warn b) && Bool.eqb (o_err a) (o_err b) &&
  Bool.eqb (o_fatal a) (o_fatal b) && Nat.eqb (o_cond a) (o_cond b) && Nat.eqb (o_args a) (o_args b) &&
  Nat.eqb (o_val a) (o_val b) && Nat.eqb (o_mark a) (o_mark b) && ctl_eqb (o_ctl a) (o_ctl b).

Definition bools : list bool := [true; false].

Definition mk_env (c : Z) (fl gn : bool) : cenv := {| e_c := c; e_fileline := fl; e_gnuc := gn |}.
Definition mk_rt (r : Z) (si na co : bool) : rt := {| r_level := r; r_silent := si; r_name := na; r_cond := co |}.

(* forall over the five boolean inputs *)
Definition all_flags (f : bool -> bool -> bool -> bool -> bool -> bool) : bool :=
  forallb (fun fl => forallb (fun gn => forallb (fun si => forallb (fun na => forallb (fun co =>
    f fl gn si na co) bools) bools) bools) bools) bools.

Definition check_cell (l : list macro) (nk : mname * kind) (c r : Z) (fl gn si na co : bool) : bool :=
  obs_eqb (behaviour_in l (fst nk) (mk_env c fl gn) (mk_rt r si na co))
          (spec (snd nk) (mk_env c fl gn) (mk_rt r si na co)).

Definition macro_cells_c (l : list macro) (k : kind) : list Z := cells (kind_cthr k ++ ladder_cthr l).
Definition macro_cells_r (l : list macro) (k : kind) : list Z := cells (kind_rthr k ++ ladder_rthr l).

Definition check_macro (l : list macro) (nk : mname * kind) : bool :=
  forallb (fun c => forallb (fun r => all_flags (check_cell l nk c r))
                            (macro_cells_r l (snd nk)))
          (macro_cells_c l (snd nk)).

Definition check_all (l : list macro) (cl : list (mname * kind)) : bool := forallb (check_macro l) cl.

(* every macro of the ladder is held to some kind *)
Definition check_cover (l : list macro) (cl : list (mname * kind)) : bool :=
  forallb (fun m => existsb (fun nk => mname_eqb (m_name m) (fst nk)) cl) l.

(* exactly one alternative of a macro is reached in every compile-time environment *)
Definition reached (e : cenv) (m : macro) : nat := List.length (filter (fun a => eval_path e (fst a)) (m_alts m)).
Definition check_partition (l : list macro) : bool :=
  forallb (fun m => forallb (fun c => forallb (fun fl => forallb (fun gn =>
    Nat.eqb (reached (mk_env c fl gn) m) 1) bools) bools) (cells (ladder_cthr l))) l.

Definition check_levels (ds : list dfam) : bool := forallb (fun d => d_define d =? d_doc d) ds.

(* the primitives against their specification (all inputs are boolean) *)
Definition prims : list prim := [PDprintf; PWarn; PError; PFatal].
Definition check_prims : bool :=
  forallb (fun p => forallb (fun si => forallb (fun na => forallb (fun r =>
    obs_eqb (prim_behaviour p (mk_rt r si na true)) (spec_prim p (mk_rt r si na true))) [0; 1]) bools) bools) prims.

(* ------------------------------------------------------------------------------------------- *)
(* diagnosis: the cells (macro, c, r, silent, name set, condition) of the gcc configuration on     *)
(* which behaviour and specification differ; evaluated with vm_compute when a theorem breaks       *)
Definition failing_cells_of (l : list macro) (nk : mname * kind) : list (mname * Z * Z * bool * bool * bool) :=
  flat_map (fun c => flat_map (fun r => flat_map (fun si => flat_map (fun na => flat_map (fun co =>
    if check_cell l nk c r true true si na co then [] else [(fst nk, c, r, si, na, co)])
    bools) bools) bools) (macro_cells_r l (snd nk))) (macro_cells_c l (snd nk)).

Definition failing_cells : list (mname * Z * Z * bool * bool * bool) :=
  flat_map (failing_cells_of ladder) classified.
(* at most n cells per macro, and how many there are in all *)
Definition failing_cells_summary (n : nat) : nat * list (mname * Z * Z * bool * bool * bool) :=
  (List.length failing_cells, flat_map (fun nk => firstn n (failing_cells_of ladder nk)) classified).
