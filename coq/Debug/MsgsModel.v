(* C20 - hand-written model of the four output primitives of src/msgs.c
   (libast_dprintf, libast_print_warning, libast_print_error, libast_fatal_error) as far as the
   property looks at them: does the call write to stderr, and does it return.  The state they read is
   the static flag [silent] (libast_set_silent) and whether libast_program_name is non-NULL.
   Format strings are assumed non-NULL (the ASSERT on the format at the top of each function passes).
   No proofs in this file. *)
From LV Require Export Debug.LadderLang.
Local Open Scope Z_scope.

(* runtime state read by a debugging statement *)
Record rt : Set := {
  r_level : Z;          (* libast_debug_level (DEBUG_LEVEL) *)
  r_silent : bool;      (* static silent flag of msgs.c *)
  r_name : bool;        (* libast_program_name != NULL *)
  r_cond : bool         (* value of the condition handed to ASSERT / REQUIRE *)
}.

(* what a debugging statement does that the property speaks about *)
Inductive event : Set :=
| EvCond               (* the condition argument was evaluated *)
| EvArgs               (* the parenthesised argument list was evaluated *)
| EvVal                (* the return-value argument was evaluated *)
| EvMark               (* the statement guarded by a D_X_IF prefix ran *)
| OutDbg | OutWarn | OutErr | OutFatal   (* text written by the respective primitive *)
| OutRaw.              (* text written by a bare fprintf(LIBAST_DEBUG_FD, ...) *)

Inductive ctl : Set :=
| Fall                 (* control reaches the statement after the macro *)
| Ret (with_val : bool)(* the enclosing function returns (with the stated value) *)
| Exit                 (* the process exits: libast_fatal_error calls exit(-1) *)
| Stuck.               (* the ladder refers to a macro it does not define / recursion too deep *)

(* libast_dprintf / libast_print_warning / libast_print_error:
     if (silent) return;  if (!libast_program_name) return;  ...print...; return       *)
Definition gated_print (e : event) (s : rt) : list event * ctl :=
  if r_silent s then ([], Fall)
  else if negb (r_name s) then ([], Fall)
  else ([e], Fall).

(* libast_fatal_error: if ((!silent) && (libast_program_name)) { ...print... }  exit(-1); *)
Definition fatal_print (s : rt) : list event * ctl :=
  if negb (r_silent s) && r_name s then ([OutFatal], Exit) else ([], Exit).

Definition prim_model (p : prim) (s : rt) : list event * ctl :=
  match p with
  | PDprintf => gated_print OutDbg s
  | PWarn => gated_print OutWarn s
  | PError => gated_print OutErr s
  | PFatal => fatal_print s
  | PRaw => ([OutRaw], Fall)
  end.
