(* C20 - proofs that do not depend on the generated data: the behaviour of any ladder, and the
   specification, depend on the compile-time level c and the runtime level r only through their
   comparisons with the level constants that occur in the ladder (and in the specification), so
   agreement on the representative values of each region (checked by vm_compute in DebugFacts.v) is
   agreement for ALL integers c and r.  Then the readable consequences of the specification. *)
From LV Require Import Debug.DebugModel.
From Coq Require Import Lia.
Local Open Scope Z_scope.

(* ---------------------------------------------------------------------------------------------- *)
(* representatives                                                                                  *)
Definition agree (ks : list Z) (x y : Z) : Prop := forall k, In k ks -> (x >=? k) = (y >=? k).

Lemma agree_app_l ks ks' x y : agree (ks ++ ks') x y -> agree ks x y.
Proof. intros H k Hk. apply H, in_or_app. now left. Qed.
Lemma agree_app_r ks ks' x y : agree (ks ++ ks') x y -> agree ks' x y.
Proof. intros H k Hk. apply H, in_or_app. now right. Qed.
Lemma agree_incl ks ks' x y : incl ks' ks -> agree ks x y -> agree ks' x y.
Proof. intros Hi H k Hk. apply H, Hi, Hk. Qed.

Lemma below_spec ks x :
  match below ks x with
  | Some m => In m ks /\ m <= x /\ (forall k, In k ks -> k <= x -> k <= m)
  | None => forall k, In k ks -> x < k
  end.
Proof.
  induction ks as [|a ks IH]; simpl.
  - intros k [].
  - destruct (below ks x) as [m|]; destruct (Z.leb_spec a x) as [Hle|Hgt].
    + destruct IH as (Hin & Hmx & Hmax). split; [|split].
      * destruct (Z.max_spec a m) as [[_ ->]|[_ ->]]; auto.
      * lia.
      * intros k [<-|Hk] Hkx; [lia|]. specialize (Hmax k Hk Hkx). lia.
    + destruct IH as (Hin & Hmx & Hmax). split; [|split]; auto.
      intros k [<-|Hk] Hkx; [lia|]. auto.
    + split; [|split]; auto; try lia.
      intros k [<-|Hk] Hkx; [lia|]. specialize (IH k Hk). lia.
    + intros k [<-|Hk]; auto.
Qed.

Lemma minl_spec ks :
  match minl ks with
  | Some m => In m ks /\ (forall k, In k ks -> m <= k)
  | None => ks = []
  end.
Proof.
  induction ks as [|a ks IH]; simpl; auto.
  destruct (minl ks) as [m|].
  - destruct IH as (Hin & Hmin). split.
    + destruct (Z.min_spec a m) as [[_ ->]|[_ ->]]; auto.
    + intros k [<-|Hk]; [lia|]. specialize (Hmin k Hk). lia.
  - subst ks. split; auto. intros k [<-|[]]. lia.
Qed.

Lemma rep_agree ks x : agree ks x (rep ks x).
Proof.
  unfold agree, rep. intros k Hk. rewrite !Z.geb_leb.
  pose proof (below_spec ks x) as Hb. destruct (below ks x) as [m|].
  - destruct Hb as (Hin & Hmx & Hmax).
    destruct (Z.leb_spec k x) as [H1|H1], (Z.leb_spec k m) as [H2|H2]; auto; exfalso.
    + specialize (Hmax k Hk H1). lia.
    + lia.
  - pose proof (minl_spec ks) as Hm. destruct (minl ks) as [m|].
    + destruct Hm as (Hin & Hmin). specialize (Hb k Hk). specialize (Hmin k Hk).
      destruct (Z.leb_spec k x), (Z.leb_spec k (m - 1)); auto; lia.
    + subst ks. destruct Hk.
Qed.

Lemma rep_in_cells ks x : In (rep ks x) (cells ks).
Proof.
  unfold cells, rep. apply nodup_In.
  pose proof (below_spec ks x) as Hb. destruct (below ks x) as [m|].
  - destruct Hb as (Hin & _). right. apply in_flat_map. exists m. split; auto. simpl. auto.
  - pose proof (minl_spec ks) as Hm. destruct (minl ks) as [m|].
    + destruct Hm as (Hin & _). right. apply in_flat_map. exists m. split; auto. simpl. auto.
    + now left.
Qed.

(* ---------------------------------------------------------------------------------------------- *)
(* equations of the interpreter                                                                     *)
Lemma exec_Nop l fuel e s : exec l fuel e s Nop = ([], Fall).
Proof. destruct fuel; reflexivity. Qed.
Lemma exec_Seq l fuel e s a b :
  exec l fuel e s (Seq a b) =
  let '(ev, c) := exec l fuel e s a in
  match c with
  | Fall => let '(ev', c') := exec l fuel e s b in (ev ++ ev', c')
  | _ => (ev, c)
  end.
Proof. destruct fuel; reflexivity. Qed.
Lemma exec_If l fuel e s rc t f :
  exec l fuel e s (If rc t f) = if eval_rcond (r_level s) rc then exec l fuel e s t else exec l fuel e s f.
Proof. destruct fuel; reflexivity. Qed.
Lemma exec_IfNotArg l fuel e s t :
  exec l fuel e s (IfNotArg t) =
  if r_cond s then ([EvCond], Fall) else let '(ev, c) := exec l fuel e s t in (EvCond :: ev, c).
Proof. destruct fuel; reflexivity. Qed.
Lemma exec_Out l fuel e s p u :
  exec l fuel e s (Out p u) = let '(ev, c) := prim_model p s in ((if u then [EvArgs] else []) ++ ev, c).
Proof. destruct fuel; reflexivity. Qed.
Lemma exec_Return l fuel e s v : exec l fuel e s (Return v) = ((if v then [EvVal] else []), Ret v).
Proof. destruct fuel; reflexivity. Qed.
Lemma exec_Mark l fuel e s : exec l fuel e s Mark = ([EvMark], Fall).
Proof. destruct fuel; reflexivity. Qed.
Lemma exec_Call_O l e s n : exec l O e s (Call n) = stuck.
Proof. reflexivity. Qed.
Lemma exec_Call_S l f e s n :
  exec l (S f) e s (Call n) =
  match lookup n l with
  | Some m => match select e (m_alts m) with Some (DStmt b') => exec l f e s b' | _ => stuck end
  | None => stuck
  end.
Proof. reflexivity. Qed.
Lemma exec_Under l fuel e s n b :
  exec l fuel e s (Under n b) =
  match lookup n l with
  | Some m =>
      match select e (m_alts m) with
      | Some (DPrefix rc) => if eval_rcond (r_level s) rc then exec l fuel e s b else ([], Fall)
      | _ => stuck
      end
  | None => stuck
  end.
Proof. destruct fuel; reflexivity. Qed.

(* ---------------------------------------------------------------------------------------------- *)
(* the ladder's own thresholds                                                                      *)
Lemma lookup_In n l m : lookup n l = Some m -> In m l.
Proof.
  induction l as [|a l IH]; simpl; [discriminate|].
  destruct (mname_eqb n (m_name a)); [intros [= <-]; now left | intros H; right; auto].
Qed.

Lemma select_In e alts d : select e alts = Some d -> exists p, In (p, d) alts.
Proof.
  induction alts as [|[p d'] t IH]; simpl; [discriminate|].
  destruct (eval_path e p); [intros [= <-]; exists p; now left|].
  intros H. destruct (IH H) as (q & Hq). exists q. now right.
Qed.

Lemma alt_cthr_incl l m p d :
  In m l -> In (p, d) (m_alts m) -> incl (flat_map atom_thr p) (ladder_cthr l).
Proof.
  intros Hm Ha k Hk. unfold ladder_cthr. apply in_flat_map. exists m. split; auto.
  apply in_flat_map. exists (p, d). split; auto.
Qed.

Lemma alts_cthr_incl l m :
  In m l -> incl (flat_map (fun a => flat_map atom_thr (fst a)) (m_alts m)) (ladder_cthr l).
Proof. intros Hm k Hk. unfold ladder_cthr. apply in_flat_map. exists m. split; auto. Qed.

Lemma alt_rthr_incl l m p d :
  In m l -> In (p, d) (m_alts m) -> incl (def_rthr d) (ladder_rthr l).
Proof.
  intros Hm Ha k Hk. unfold ladder_rthr. apply in_flat_map. exists m. split; auto.
  apply in_flat_map. exists (p, d). split; auto.
Qed.

(* ---------------------------------------------------------------------------------------------- *)
(* invariance in the compile-time level                                                             *)
Lemma eval_cmp_inv o k x y : agree (cmp_thr o k) x y -> eval_cmp o x k = eval_cmp o y k.
Proof.
  intros H. unfold agree in H.
  destruct o; simpl in *.
  - apply H; auto.
  - pose proof (H (k + 1) (or_introl eq_refl)) as H1. rewrite !Z.geb_leb in H1.
    destruct (Z.gtb_spec x k), (Z.gtb_spec y k); auto;
      destruct (Z.leb_spec (k + 1) x), (Z.leb_spec (k + 1) y); try discriminate; lia.
  - pose proof (H (k + 1) (or_introl eq_refl)) as H1. rewrite !Z.geb_leb in H1.
    destruct (Z.leb_spec x k), (Z.leb_spec y k); auto;
      destruct (Z.leb_spec (k + 1) x), (Z.leb_spec (k + 1) y); try discriminate; lia.
  - pose proof (H k (or_introl eq_refl)) as H1. rewrite !Z.geb_leb in H1.
    destruct (Z.ltb_spec x k), (Z.ltb_spec y k); auto;
      destruct (Z.leb_spec k x), (Z.leb_spec k y); try discriminate; lia.
  - pose proof (H k (or_introl eq_refl)) as H1. pose proof (H (k + 1) (or_intror (or_introl eq_refl))) as H2.
    rewrite !Z.geb_leb in H1, H2.
    destruct (Z.eqb_spec x k), (Z.eqb_spec y k); auto;
      destruct (Z.leb_spec k x), (Z.leb_spec k y), (Z.leb_spec (k + 1) x), (Z.leb_spec (k + 1) y);
      try discriminate; lia.
  - pose proof (H k (or_introl eq_refl)) as H1. pose proof (H (k + 1) (or_intror (or_introl eq_refl))) as H2.
    rewrite !Z.geb_leb in H1, H2. f_equal.
    destruct (Z.eqb_spec x k), (Z.eqb_spec y k); auto;
      destruct (Z.leb_spec k x), (Z.leb_spec k y), (Z.leb_spec (k + 1) x), (Z.leb_spec (k + 1) y);
      try discriminate; lia.
Qed.

Lemma eval_atom_inv ks c c' fl gn a :
  agree ks c c' -> incl (atom_thr a) ks -> eval_atom (mk_env c fl gn) a = eval_atom (mk_env c' fl gn) a.
Proof.
  intros Ha Hi. destruct a; simpl; auto.
  rewrite (eval_cmp_inv o k c c'); auto. eapply agree_incl; eauto.
Qed.

Lemma eval_path_inv ks c c' fl gn p :
  agree ks c c' -> incl (flat_map atom_thr p) ks -> eval_path (mk_env c fl gn) p = eval_path (mk_env c' fl gn) p.
Proof.
  intros Ha. induction p as [|a p IH]; simpl; auto. intros Hi.
  rewrite (eval_atom_inv ks c c' fl gn a Ha), IH; auto.
  - intros k Hk. apply Hi, in_or_app. now right.
  - intros k Hk. apply Hi, in_or_app. now left.
Qed.

Lemma select_inv ks c c' fl gn alts :
  agree ks c c' -> incl (flat_map (fun a => flat_map atom_thr (fst a)) alts) ks ->
  select (mk_env c fl gn) alts = select (mk_env c' fl gn) alts.
Proof.
  intros Ha. induction alts as [|[p d] t IH]; simpl; auto. intros Hi.
  rewrite (eval_path_inv ks c c' fl gn p Ha), IH; auto.
  - intros k Hk. apply Hi, in_or_app. now right.
  - intros k Hk. apply Hi, in_or_app. now left.
Qed.

Lemma select_inv_ladder l m c c' fl gn :
  agree (ladder_cthr l) c c' -> In m l ->
  select (mk_env c fl gn) (m_alts m) = select (mk_env c' fl gn) (m_alts m).
Proof. intros Ha Hm. apply select_inv with (ks := ladder_cthr l); auto. now apply alts_cthr_incl. Qed.

Lemma exec_inv_c l c c' fl gn s :
  agree (ladder_cthr l) c c' ->
  forall fuel b, exec l fuel (mk_env c fl gn) s b = exec l fuel (mk_env c' fl gn) s b.
Proof.
  intros Ha. induction fuel as [|f IHf]; induction b;
    rewrite ?exec_Nop, ?exec_Seq, ?exec_If, ?exec_IfNotArg, ?exec_Out, ?exec_Return, ?exec_Mark,
            ?exec_Under, ?exec_Call_O, ?exec_Call_S;
    try reflexivity;
    try (rewrite IHb1, IHb2; reflexivity);
    try (rewrite IHb; reflexivity).
  all: destruct (lookup name l) as [m|] eqn:El; [|reflexivity];
    rewrite (select_inv_ladder l m c c' fl gn Ha (lookup_In _ _ _ El));
    first [ rewrite IHb; reflexivity | destruct (select _ _) as [[b'|rc]|]; auto ].
Qed.

Lemma run_in_inv_c l n c c' fl gn s :
  agree (ladder_cthr l) c c' -> run_in l n (mk_env c fl gn) s = run_in l n (mk_env c' fl gn) s.
Proof.
  intros Ha. unfold run_in. destruct (lookup n l) as [m|] eqn:El; auto.
  rewrite (select_inv_ladder l m c c' fl gn Ha (lookup_In _ _ _ El)).
  destruct (select _ _) as [[b|rc]|]; auto. now apply exec_inv_c.
Qed.

(* ---------------------------------------------------------------------------------------------- *)
(* invariance in the runtime level                                                                  *)
Lemma eval_rcond_inv r r' rc : agree (rcond_thr rc) r r' -> eval_rcond r rc = eval_rcond r' rc.
Proof. destruct rc; simpl; auto. apply eval_cmp_inv. Qed.

Lemma prim_model_inv p r r' si na co : prim_model p (mk_rt r si na co) = prim_model p (mk_rt r' si na co).
Proof. destruct p; reflexivity. Qed.

Lemma exec_inv_r l e r r' si na co :
  agree (ladder_rthr l) r r' ->
  forall fuel b, agree (body_rthr b) r r' ->
  exec l fuel e (mk_rt r si na co) b = exec l fuel e (mk_rt r' si na co) b.
Proof.
  intros Ha. induction fuel as [|f IHf]; induction b; intros Hb;
    rewrite ?exec_Nop, ?exec_Seq, ?exec_If, ?exec_IfNotArg, ?exec_Out, ?exec_Return, ?exec_Mark,
            ?exec_Under, ?exec_Call_O, ?exec_Call_S; simpl r_level; simpl r_cond;
    try reflexivity;
    try (rewrite (prim_model_inv p r r' si na co); reflexivity).
  - simpl in Hb. rewrite IHb1, IHb2; [reflexivity| eapply agree_app_r; eauto | eapply agree_app_l; eauto].
  - simpl in Hb. rewrite (eval_rcond_inv r r' rc), IHb1, IHb2; [reflexivity| | |].
    + eapply agree_app_r, agree_app_r; eauto.
    + eapply agree_app_l, agree_app_r; eauto.
    + eapply agree_app_l; eauto.
  - simpl in Hb. rewrite IHb; auto.
  - destruct (lookup name l) as [m|] eqn:El; auto.
    destruct (select e (m_alts m)) as [[b'|rc]|] eqn:Es; auto.
    destruct (select_In _ _ _ Es) as (p & Hp).
    pose proof (alt_rthr_incl l m p _ (lookup_In _ _ _ El) Hp) as Hi. simpl in Hi.
    rewrite (eval_rcond_inv r r' rc), IHb; auto.
    eapply agree_incl; eauto.
  - simpl in Hb. rewrite IHb1, IHb2; [reflexivity| eapply agree_app_r; eauto | eapply agree_app_l; eauto].
  - simpl in Hb. rewrite (eval_rcond_inv r r' rc), IHb1, IHb2; [reflexivity| | |].
    + eapply agree_app_r, agree_app_r; eauto.
    + eapply agree_app_l, agree_app_r; eauto.
    + eapply agree_app_l; eauto.
  - simpl in Hb. rewrite IHb; auto.
  - destruct (lookup name l) as [m|] eqn:El; auto.
    destruct (select e (m_alts m)) as [[b'|rc]|] eqn:Es; auto.
    destruct (select_In _ _ _ Es) as (p & Hp).
    pose proof (alt_rthr_incl l m p _ (lookup_In _ _ _ El) Hp) as Hi. simpl in Hi.
    apply IHf. eapply agree_incl; eauto.
  - destruct (lookup name l) as [m|] eqn:El; auto.
    destruct (select e (m_alts m)) as [[b'|rc]|] eqn:Es; auto.
    destruct (select_In _ _ _ Es) as (p & Hp).
    pose proof (alt_rthr_incl l m p _ (lookup_In _ _ _ El) Hp) as Hi. simpl in Hi.
    rewrite (eval_rcond_inv r r' rc), IHb; auto.
    eapply agree_incl; eauto.
Qed.

Lemma run_in_inv_r l n e r r' si na co :
  agree (ladder_rthr l) r r' -> run_in l n e (mk_rt r si na co) = run_in l n e (mk_rt r' si na co).
Proof.
  intros Ha. unfold run_in. destruct (lookup n l) as [m|] eqn:El; auto.
  destruct (select e (m_alts m)) as [[b|rc]|] eqn:Es; auto.
  - destruct (select_In _ _ _ Es) as (p & Hp).
    apply exec_inv_r; auto.
    eapply agree_incl; [|eauto]. exact (alt_rthr_incl l m p _ (lookup_In _ _ _ El) Hp).
  - destruct (select_In _ _ _ Es) as (p & Hp). simpl r_level.
    rewrite (eval_rcond_inv r r' rc); auto.
    eapply agree_incl; [|eauto]. exact (alt_rthr_incl l m p _ (lookup_In _ _ _ El) Hp).
Qed.

(* ---------------------------------------------------------------------------------------------- *)
(* the specification depends on c and r only through its own thresholds                             *)
Lemma spec_inv_c k c c' fl gn s :
  agree (kind_cthr k) c c' -> spec k (mk_env c fl gn) s = spec k (mk_env c' fl gn) s.
Proof.
  intros H. destruct k; simpl in *; try reflexivity;
    rewrite (H _ (or_introl eq_refl)); reflexivity.
Qed.

Lemma spec_inv_r k e r r' si na co :
  agree (kind_rthr k) r r' -> spec k e (mk_rt r si na co) = spec k e (mk_rt r' si na co).
Proof.
  intros H. destruct k; simpl in *; unfold spec_assert_failed, spec_gated, can_print; simpl; try reflexivity;
    rewrite (H _ (or_introl eq_refl)); reflexivity.
Qed.

(* ---------------------------------------------------------------------------------------------- *)
(* soundness of the boolean checkers                                                                *)
Lemma ctl_eqb_eq a b : ctl_eqb a b = true -> a = b.
Proof. destruct a as [|x| |], b as [|y| |]; simpl; try discriminate; auto. intros H. apply eqb_prop in H. now subst. Qed.

Lemma obs_eqb_eq a b : obs_eqb a b = true -> a = b.
Proof.
  unfold obs_eqb. intros H. repeat (apply andb_prop in H; destruct H as [H ?]).
  destruct a, b; simpl in *.
  repeat match goal with
         | H : Bool.eqb _ _ = true |- _ => apply eqb_prop in H
         | H : Nat.eqb _ _ = true |- _ => apply Nat.eqb_eq in H
         | H : ctl_eqb _ _ = true |- _ => apply ctl_eqb_eq in H
         end.
  subst. reflexivity.
Qed.

Lemma in_bools b : In b bools.
Proof. destruct b; simpl; auto. Qed.

Lemma all_flags_sound f : all_flags f = true -> forall fl gn si na co, f fl gn si na co = true.
Proof.
  unfold all_flags. intros H fl gn si na co.
  rewrite forallb_forall in H. specialize (H fl (in_bools fl)).
  rewrite forallb_forall in H. specialize (H gn (in_bools gn)).
  rewrite forallb_forall in H. specialize (H si (in_bools si)).
  rewrite forallb_forall in H. specialize (H na (in_bools na)).
  rewrite forallb_forall in H. exact (H co (in_bools co)).
Qed.

Theorem check_macro_sound l nk :
  check_macro l nk = true -> forall e s, behaviour_in l (fst nk) e s = spec (snd nk) e s.
Proof.
  intros H [c fl gn] [r si na co]. destruct nk as [n k]. simpl fst in *; simpl snd in *.
  unfold check_macro in H. simpl snd in H.
  set (kc := kind_cthr k ++ ladder_cthr l) in *.
  set (kr := kind_rthr k ++ ladder_rthr l) in *.
  rewrite forallb_forall in H. specialize (H (rep kc c) (rep_in_cells kc c)).
  rewrite forallb_forall in H. specialize (H (rep kr r) (rep_in_cells kr r)).
  pose proof (all_flags_sound _ H fl gn si na co) as Hc. unfold check_cell in Hc. simpl in Hc.
  apply obs_eqb_eq in Hc.
  pose proof (rep_agree kc c) as Hac. pose proof (rep_agree kr r) as Har.
  change {| e_c := c; e_fileline := fl; e_gnuc := gn |} with (mk_env c fl gn).
  change {| r_level := r; r_silent := si; r_name := na; r_cond := co |} with (mk_rt r si na co).
  unfold behaviour_in in *.
  rewrite (run_in_inv_c l n c (rep kc c) fl gn _ (agree_app_r _ _ _ _ Hac)).
  rewrite (run_in_inv_r l n _ r (rep kr r) si na co (agree_app_r _ _ _ _ Har)).
  rewrite (spec_inv_c k c (rep kc c) fl gn _ (agree_app_l _ _ _ _ Hac)).
  rewrite (spec_inv_r k _ r (rep kr r) si na co (agree_app_l _ _ _ _ Har)).
  exact Hc.
Qed.

Theorem check_all_sound l cl :
  check_all l cl = true -> forall n k, In (n, k) cl -> forall e s, behaviour_in l n e s = spec k e s.
Proof.
  unfold check_all. intros H n k Hin. rewrite forallb_forall in H.
  exact (check_macro_sound l (n, k) (H _ Hin)).
Qed.

Lemma bytes_eqb_eq a b : bytes_eqb a b = true -> a = b.
Proof.
  revert b. induction a as [|x a IH]; destruct b as [|y b]; simpl; try discriminate; auto.
  intros H. apply andb_prop in H. destruct H as (H1 & H2).
  apply Byte.byte_dec_bl in H1. subst. f_equal. auto.
Qed.
Lemma mname_eqb_eq a b : mname_eqb a b = true -> a = b.
Proof. destruct a, b. unfold mname_eqb. simpl. intros H. f_equal. now apply bytes_eqb_eq. Qed.

Theorem check_cover_sound l cl :
  check_cover l cl = true -> forall m, In m l -> exists k, In (m_name m, k) cl.
Proof.
  unfold check_cover. intros H m Hm. rewrite forallb_forall in H. specialize (H m Hm).
  apply existsb_exists in H. destruct H as ([n k] & Hin & He). simpl in He.
  apply mname_eqb_eq in He. subst. now exists k.
Qed.

Lemma reached_inv l m c c' fl gn :
  agree (ladder_cthr l) c c' -> In m l -> reached (mk_env c fl gn) m = reached (mk_env c' fl gn) m.
Proof.
  intros Ha Hm. unfold reached. f_equal.
  pose proof (alts_cthr_incl l m Hm) as Hi. revert Hi.
  induction (m_alts m) as [|[p d] t IH]; simpl; auto. intros Hi.
  rewrite (eval_path_inv (ladder_cthr l) c c' fl gn p Ha).
  - rewrite IH; auto. intros k Hk. apply Hi, in_or_app. now right.
  - intros k Hk. apply Hi, in_or_app. now left.
Qed.

Theorem check_partition_sound l :
  check_partition l = true -> forall m, In m l -> forall e, reached e m = 1%nat.
Proof.
  unfold check_partition. intros H m Hm [c fl gn].
  rewrite forallb_forall in H. specialize (H m Hm).
  rewrite forallb_forall in H. specialize (H _ (rep_in_cells (ladder_cthr l) c)).
  rewrite forallb_forall in H. specialize (H fl (in_bools fl)).
  rewrite forallb_forall in H. specialize (H gn (in_bools gn)).
  apply Nat.eqb_eq in H.
  change {| e_c := c; e_fileline := fl; e_gnuc := gn |} with (mk_env c fl gn).
  rewrite (reached_inv l m c _ fl gn (rep_agree _ c) Hm). exact H.
Qed.

Theorem check_levels_sound ds : check_levels ds = true -> forall d, In d ds -> d_define d = d_doc d.
Proof. unfold check_levels. intros H d Hd. rewrite forallb_forall in H. apply Z.eqb_eq. auto. Qed.

(* membership of each family in the classification *)
Section Classify.
  Variables (hdr : list mname) (asrt nr req : list (mname * bool)) (ab : list mname)
            (dp : list (mname * Z)) (dpp nev : list mname) (ds : list dfam).
  Let cl := classify hdr asrt nr req ab dp dpp nev ds.
  Ltac skip1 := apply in_or_app; right.
  Lemma cl_hdr n : In n hdr -> In (n, KHdr) cl.
  Proof. intros H. unfold cl, classify. apply in_or_app. left. exact (in_map (fun n => (n, KHdr)) _ _ H). Qed.
  Lemma cl_assert n rv : In (n, rv) asrt -> In (n, KAssert rv) cl.
  Proof. intros H. unfold cl, classify. skip1. apply in_or_app. left. exact (in_map (fun p => (fst p, KAssert (snd p))) _ _ H). Qed.
  Lemma cl_notreached n rv : In (n, rv) nr -> In (n, KNotreached rv) cl.
  Proof. intros H. unfold cl, classify. skip1. skip1. apply in_or_app. left. exact (in_map (fun p => (fst p, KNotreached (snd p))) _ _ H). Qed.
  Lemma cl_require n rv : In (n, rv) req -> In (n, KRequire rv) cl.
  Proof. intros H. unfold cl, classify. skip1. skip1. skip1. apply in_or_app. left. exact (in_map (fun p => (fst p, KRequire (snd p))) _ _ H). Qed.
  Lemma cl_abort n : In n ab -> In (n, KAbort) cl.
  Proof. intros H. unfold cl, classify. skip1. skip1. skip1. skip1. apply in_or_app. left. exact (in_map (fun n => (n, KAbort)) _ _ H). Qed.
  Lemma cl_dprintf n k : In (n, k) dp -> In (n, KDprintf k) cl.
  Proof. intros H. unfold cl, classify. skip1. skip1. skip1. skip1. skip1. apply in_or_app. left. exact (in_map (fun p => (fst p, KDprintf (snd p))) _ _ H). Qed.
  Lemma cl_dprintf_plain n : In n dpp -> In (n, KDprintfPlain) cl.
  Proof. intros H. unfold cl, classify. skip1. skip1. skip1. skip1. skip1. skip1. apply in_or_app. left. exact (in_map (fun n => (n, KDprintfPlain)) _ _ H). Qed.
  Lemma cl_never n : In n nev -> In (n, KNever) cl.
  Proof. intros H. unfold cl, classify. skip1. skip1. skip1. skip1. skip1. skip1. skip1. apply in_or_app. left. exact (in_map (fun n => (n, KNever)) _ _ H). Qed.
  Lemma cl_d d : In d ds -> In (d_name d, KD (d_doc d)) cl.
  Proof. intros H. unfold cl, classify. skip1. skip1. skip1. skip1. skip1. skip1. skip1. skip1. apply in_or_app. left. exact (in_map (fun d => (d_name d, KD (d_doc d))) _ _ H). Qed.
  Lemma cl_d_if d : In d ds -> In (d_if d, KDIf (d_doc d)) cl.
  Proof. intros H. unfold cl, classify. skip1. skip1. skip1. skip1. skip1. skip1. skip1. skip1. skip1. exact (in_map (fun d => (d_if d, KDIf (d_doc d))) _ _ H). Qed.
End Classify.

(* ---------------------------------------------------------------------------------------------- *)
(* what the specification says, in words the property uses                                          *)
Lemma geb_ge x y : (x >=? y) = true <-> x >= y.
Proof. rewrite Z.geb_leb, Z.leb_le. lia. Qed.
Lemma geb_lt x y : (x >=? y) = false <-> x < y.
Proof. rewrite Z.geb_leb, Z.leb_gt. lia. Qed.

Lemma can_print_true s : can_print s = true <-> r_silent s = false /\ r_name s = true.
Proof. unfold can_print. destruct (r_silent s), (r_name s); simpl; intuition congruence. Qed.

Lemma b2n_one b : b2n b = 1%nat <-> b = true.
Proof. destruct b; simpl; intuition (congruence || lia). Qed.
Lemma b2n_zero b : b2n b = 0%nat <-> b = false.
Proof. destruct b; simpl; intuition (congruence || lia). Qed.

(* a gated statement *)
Lemma spec_gated_facts g s :
  let o := spec_gated g s in
  (printed o = true <-> g = true /\ r_silent s = false /\ r_name s = true) /\
  (o_args o = 1%nat <-> g = true) /\ (o_args o = 0%nat <-> g = false) /\
  o_warn o = false /\ o_err o = false /\ o_fatal o = false /\
  o_cond o = 0%nat /\ o_val o = 0%nat /\ o_mark o = 0%nat /\ o_ctl o = Fall.
Proof.
  simpl. unfold printed. simpl. rewrite !orb_false_r, andb_true_iff, can_print_true, b2n_one, b2n_zero.
  intuition.
Qed.

Lemma andb_ge c r L : ((c >=? L) && (r >=? L) = true) <-> (c >= L /\ r >= L).
Proof. rewrite andb_true_iff, !geb_ge. tauto. Qed.

Lemma andb_ge2 c r n : ((c >=? 1) && (r >=? n) = true) <-> (c >= 1 /\ r >= n).
Proof. rewrite andb_true_iff, !geb_ge. tauto. Qed.

Lemma not_true_false b : b <> true <-> b = false.
Proof. destruct b; intuition congruence. Qed.

(* silence: no kind of statement prints when the silent flag is set, nor when the program name is NULL *)
Lemma spec_silent k e s : can_print s = false -> printed (spec k e s) = false.
Proof.
  intros Hq. unfold printed.
  destruct k; simpl; unfold spec_assert_failed, spec_gated, with_cond, quiet, bare_return; simpl;
    repeat match goal with |- context [if ?b then _ else _] => destruct b end;
    simpl; rewrite ?Hq, ?andb_false_r; reflexivity.
Qed.

Lemma spec_prim_silent p s : p <> PRaw -> can_print s = false -> printed (spec_prim p s) = false.
Proof. intros Hp Hq. unfold printed. destruct p; simpl; rewrite ?Hq; auto. congruence. Qed.

Lemma prim_behaviour_spec p s : prim_behaviour p s = spec_prim p s.
Proof.
  unfold prim_behaviour, spec_prim, can_print. destruct p; simpl; unfold gated_print, fatal_print;
    destruct (r_silent s), (r_name s); reflexivity.
Qed.
