(* C20 - the tiny language into which tools/gen_c20.py translates the debugging macros of
   include/libast.h (ASSERT/REQUIRE block, DPRINTFn block, D_* block, __DEBUG).  Only data
   types live here; Gen/DebugLadder.v (regenerated from the source tree on every run) is a
   value of type [list macro], Debug/DebugModel.v interprets it. *)
From Coq Require Export List ZArith Bool.
From Coq Require Import Init.Byte.
Export ListNotations.
Local Open Scope Z_scope.

(* macro names: a private string type (bytes), written "D_CONF" in scope mn_scope.  (Coq's own [string]
   is not used so that the extracted OCaml code does not define a type called string.) *)
Inductive mname : Set := MN (bytes : list byte).
Definition mname_of_bytes (l : list byte) : mname := MN l.
Definition bytes_of_mname (n : mname) : list byte := match n with MN l => l end.
Declare Scope mn_scope.
Delimit Scope mn_scope with mn.
Bind Scope mn_scope with mname.
String Notation mname mname_of_bytes bytes_of_mname : mn_scope.

Fixpoint bytes_eqb (a b : list byte) : bool :=
  match a, b with
  | [], [] => true
  | x :: a', y :: b' => Byte.eqb x y && bytes_eqb a' b'
  | _, _ => false
  end.
Definition mname_eqb (a b : mname) : bool := bytes_eqb (bytes_of_mname a) (bytes_of_mname b).

(* compile-time conditions: the atoms occurring in the #if / #ifdef lines of the blocks, with the
   polarity under which the #define is reached (false = the #else branch) *)
(* comparison operators that may relate DEBUG / DEBUG_LEVEL to a level constant *)
Inductive cmp : Set := Ge | Gt | Le | Lt | Eq | Ne.

Inductive catom : Set :=
| CDebug (o : cmp) (k : Z) (pol : bool)   (* #if DEBUG o k   (in the header: DEBUG >= k) *)
| CFileLine (pol : bool)             (* #if defined(__FILE__) && defined(__LINE__) *)
| CGnuc (pol : bool).                (* #ifdef __GNUC__ *)

(* runtime conditions inside macro bodies *)
Inductive rcond : Set :=
| RCmp (o : cmp) (k : Z)             (* DEBUG_LEVEL o k   (in the header: DEBUG_LEVEL >= k) *)
| RConst (b : bool).                 (* 0 / 1 *)

(* the output calls a body may contain *)
Inductive prim : Set :=
| PDprintf                           (* libast_dprintf *)
| PWarn                              (* libast_print_warning *)
| PError                             (* libast_print_error *)
| PFatal                             (* libast_fatal_error *)
| PRaw.                              (* fprintf(LIBAST_DEBUG_FD, ...): not gated by anything in msgs.c *)

Inductive body : Set :=
| Nop                                (* NOP, i.e. ((void)0) *)
| Seq (a b : body)
| If (rc : rcond) (t e : body)       (* if (rc) t else e *)
| IfNotArg (t : body)                (* if (!(x)) t - evaluates the condition parameter once *)
| Out (p : prim) (user_args : bool)  (* call of an output function; user_args: the argument list is the macro
                                        parameter (so evaluating the call evaluates the user's arguments) *)
| Return (with_val : bool)           (* return; / return (val); - the latter evaluates val *)
| Call (name : mname)               (* another macro of the ladder used as a statement: __DEBUG(); DPRINTF(x); *)
| Under (name : mname) (b : body)   (* NAME { b } where NAME is an if-prefix macro such as D_CONF_IF *)
| Mark.                              (* the statement a user puts behind an if-prefix macro; never generated *)

(* a macro definition is a statement or an `if (...)` prefix *)
Inductive mdef : Set :=
| DStmt (b : body)
| DPrefix (rc : rcond).

Record macro : Set := { m_name : mname; m_alts : list (list catom * mdef) }.

(* one subsystem macro D_X with its prefix form, the value of its DEBUG_X #define and the level its doc
   comment states ("Set ... debugging to level N.") *)
Record dfam : Set := { d_name : mname; d_if : mname; d_define : Z; d_doc : Z }.
