(* C20 - the tiny language into which tools/gen_c20.py translates the debugging macros of
   include/libast.h (ASSERT/REQUIRE block, DPRINTFn block, D_* block, __DEBUG).  Only data
   types live here; Gen/DebugLadder.v (regenerated from the source tree on every run) is a
   value of type [list macro], Debug/DebugModel.v interprets it. *)
From Coq Require Export List ZArith Bool String.
Export ListNotations.
Local Open Scope Z_scope.

(* compile-time conditions: the atoms occurring in the #if / #ifdef lines of the blocks, with the
   polarity under which the #define is reached (false = the #else branch) *)
Inductive catom : Set :=
| CDebugGe (k : Z) (pol : bool)      (* #if DEBUG >= k *)
| CFileLine (pol : bool)             (* #if defined(__FILE__) && defined(__LINE__) *)
| CGnuc (pol : bool).                (* #ifdef __GNUC__ *)

(* runtime conditions inside macro bodies *)
Inductive rcond : Set :=
| RGe (k : Z)                        (* DEBUG_LEVEL >= k *)
| RConst (b : bool).                 (* 0 / 1 *)

(* the output calls a body may contain *)
Inductive prim : Set :=
| PDprintf                           (* libast_dprintf *)
| PWarn                              (* libast_print_warning *)
| PError                             (* libast_print_error *)
| PFatal                             (* libast_fatal_error *)
| PRaw.                              (* fprintf(LIBAST_DEBUG_FD, ...): not gated by anything in msgs.c *)

Inductive body : Set :=
| Nop                                (* NOP, i.e. ((void)0) *)
| Seq (a b : body)
| If (rc : rcond) (t e : body)       (* if (rc) t else e *)
| IfNotArg (t : body)                (* if (!(x)) t - evaluates the condition parameter once *)
| Out (p : prim) (user_args : bool)  (* call of an output function; user_args: the argument list is the macro
                                        parameter (so evaluating the call evaluates the user's arguments) *)
| Return (with_val : bool)           (* return; / return (val); - the latter evaluates val *)
| Call (name : string)               (* another macro of the ladder used as a statement: __DEBUG(); DPRINTF(x); *)
| Under (name : string) (b : body)   (* NAME { b } where NAME is an if-prefix macro such as D_CONF_IF *)
| Mark.                              (* the statement a user puts behind an if-prefix macro; never generated *)

(* a macro definition is a statement or an `if (...)` prefix *)
Inductive mdef : Set :=
| DStmt (b : body)
| DPrefix (rc : rcond).

Record macro : Set := { m_name : string; m_alts : list (list catom * mdef) }.

(* one subsystem macro D_X with its prefix form, the value of its DEBUG_X #define and the level its doc
   comment states ("Set ... debugging to level N.") *)
Record dfam : Set := { d_name : string; d_if : string; d_define : Z; d_doc : Z }.
