(* C20 - facts about the ladder generated from the CURRENT source tree.  Each "..._checked" lemma
   evaluates a boolean checker on the generated data with vm_compute (finitely many regions); the
   soundness theorems of DebugProofs.v lift it to all integers c and r.  When the header changes so
   that a family no longer behaves as specified, the corresponding lemma stops compiling. *)
From LV Require Import Debug.DebugModel Debug.DebugProofs.
From Coq Require Import Lia.
Local Open Scope Z_scope.

(* ---- the generated data is well formed ---------------------------------------------------------- *)
Lemma partition_checked : check_partition ladder = true.
Proof. vm_compute. reflexivity. Qed.

Lemma cover_checked : check_cover ladder classified = true.
Proof. vm_compute. reflexivity. Qed.

Lemma levels_checked : check_levels d_family = true.
Proof. vm_compute. reflexivity. Qed.

(* ---- one checker run per family (so that a failure names the family) ---------------------------- *)
Lemma hdr_checked : check_all ladder (map (fun n => (n, KHdr)) hdr_family) = true.
Proof. vm_compute. reflexivity. Qed.
Lemma dprintf_checked : check_all ladder (map (fun p => (fst p, KDprintf (snd p))) dprintf_family) = true.
Proof. vm_compute. reflexivity. Qed.
Lemma dprintf_plain_checked : check_all ladder (map (fun n => (n, KDprintfPlain)) dprintf_plain_family) = true.
Proof. vm_compute. reflexivity. Qed.
Lemma never_checked : check_all ladder (map (fun n => (n, KNever)) never_family) = true.
Proof. vm_compute. reflexivity. Qed.
Lemma d_checked : check_all ladder (map (fun d => (d_name d, KD (d_doc d))) d_family) = true.
Proof. vm_compute. reflexivity. Qed.
Lemma d_if_checked : check_all ladder (map (fun d => (d_if d, KDIf (d_doc d))) d_family) = true.
Proof. vm_compute. reflexivity. Qed.
Lemma assert_checked : check_all ladder (map (fun p => (fst p, KAssert (snd p))) assert_family) = true.
Proof. vm_compute. reflexivity. Qed.
Lemma notreached_checked : check_all ladder (map (fun p => (fst p, KNotreached (snd p))) notreached_family) = true.
Proof. vm_compute. reflexivity. Qed.
Lemma require_checked : check_all ladder (map (fun p => (fst p, KRequire (snd p))) require_family) = true.
Proof. vm_compute. reflexivity. Qed.
Lemma abort_checked : check_all ladder (map (fun n => (n, KAbort)) abort_family) = true.
Proof. vm_compute. reflexivity. Qed.
Lemma all_checked : check_all ladder classified = true.
Proof. vm_compute. reflexivity. Qed.

(* ---- behaviour = specification, for all c, r and flags ------------------------------------------ *)
Lemma behaviour_spec n k : In (n, k) classified -> forall e s, behaviour n e s = spec k e s.
Proof. exact (check_all_sound ladder classified all_checked n k). Qed.

Lemma d_spec d : In d d_family -> forall e s, behaviour (d_name d) e s = spec (KD (d_doc d)) e s.
Proof.
  intros H. apply (check_all_sound ladder _ d_checked).
  exact (in_map (fun d => (d_name d, KD (d_doc d))) _ _ H).
Qed.
Lemma d_if_spec d : In d d_family -> forall e s, behaviour (d_if d) e s = spec (KDIf (d_doc d)) e s.
Proof.
  intros H. apply (check_all_sound ladder _ d_if_checked).
  exact (in_map (fun d => (d_if d, KDIf (d_doc d))) _ _ H).
Qed.
Lemma dprintf_spec n k : In (n, k) dprintf_family -> forall e s, behaviour n e s = spec (KDprintf k) e s.
Proof.
  intros H. apply (check_all_sound ladder _ dprintf_checked).
  exact (in_map (fun p => (fst p, KDprintf (snd p))) _ _ H).
Qed.
Lemma dprintf_plain_spec n : In n dprintf_plain_family -> forall e s, behaviour n e s = spec KDprintfPlain e s.
Proof.
  intros H. apply (check_all_sound ladder _ dprintf_plain_checked).
  exact (in_map (fun n => (n, KDprintfPlain)) _ _ H).
Qed.
Lemma never_spec n : In n never_family -> forall e s, behaviour n e s = spec KNever e s.
Proof.
  intros H. apply (check_all_sound ladder _ never_checked).
  exact (in_map (fun n => (n, KNever)) _ _ H).
Qed.
Lemma hdr_spec n : In n hdr_family -> forall e s, behaviour n e s = spec KHdr e s.
Proof.
  intros H. apply (check_all_sound ladder _ hdr_checked).
  exact (in_map (fun n => (n, KHdr)) _ _ H).
Qed.
Lemma assert_spec n rv : In (n, rv) assert_family -> forall e s, behaviour n e s = spec (KAssert rv) e s.
Proof.
  intros H. apply (check_all_sound ladder _ assert_checked).
  exact (in_map (fun p => (fst p, KAssert (snd p))) _ _ H).
Qed.
Lemma notreached_spec n rv : In (n, rv) notreached_family -> forall e s, behaviour n e s = spec (KNotreached rv) e s.
Proof.
  intros H. apply (check_all_sound ladder _ notreached_checked).
  exact (in_map (fun p => (fst p, KNotreached (snd p))) _ _ H).
Qed.
Lemma require_spec n rv : In (n, rv) require_family -> forall e s, behaviour n e s = spec (KRequire rv) e s.
Proof.
  intros H. apply (check_all_sound ladder _ require_checked).
  exact (in_map (fun p => (fst p, KRequire (snd p))) _ _ H).
Qed.
Lemma abort_spec n : In n abort_family -> forall e s, behaviour n e s = spec KAbort e s.
Proof.
  intros H. apply (check_all_sound ladder _ abort_checked).
  exact (in_map (fun n => (n, KAbort)) _ _ H).
Qed.

(* ---- the property's clauses -------------------------------------------------------------------- *)
Definition gate_holds (o : obs) (g : Prop) (s : rt) : Prop :=
  (printed o = true <-> g /\ r_silent s = false /\ r_name s = true) /\
  (o_args o = 1%nat <-> g) /\ (o_args o = 0%nat <-> ~ g) /\
  o_warn o = false /\ o_err o = false /\ o_fatal o = false /\ o_ctl o = Fall.

Lemma gated_holds (gb : bool) (g : Prop) s : (gb = true <-> g) -> gate_holds (spec_gated gb s) g s.
Proof.
  intros Hg. destruct (spec_gated_facts gb s) as (H1 & H2 & H3 & H4 & H5 & H6 & _ & _ & _ & H7).
  unfold gate_holds. rewrite H1, H2, H3, <- Hg, not_true_false. tauto.
Qed.

Lemma d_family_gate : forall d, In d d_family -> forall e s,
  gate_holds (behaviour (d_name d) e s) (e_c e >= d_doc d /\ r_level s >= d_doc d) s.
Proof. intros d Hd e s. rewrite (d_spec d Hd). simpl. apply gated_holds, andb_ge. Qed.

Lemma d_if_gate : forall d, In d d_family -> forall e s,
  let o := behaviour (d_if d) e s in
  let g := e_c e >= d_doc d /\ r_level s >= d_doc d in
  (o_mark o = 1%nat <-> g) /\ (o_mark o = 0%nat <-> ~ g) /\ printed o = false /\ o_ctl o = Fall.
Proof.
  intros d Hd e s. rewrite (d_if_spec d Hd). simpl. unfold printed. simpl.
  rewrite b2n_one, b2n_zero, <- not_true_false, andb_ge. tauto.
Qed.

Lemma d_levels_documented : forall d, In d d_family -> d_define d = d_doc d.
Proof. exact (check_levels_sound d_family levels_checked). Qed.

Lemma dprintf_gate : forall n k, In (n, k) dprintf_family -> forall e s,
  gate_holds (behaviour n e s) (e_c e >= 1 /\ r_level s >= k) s.
Proof. intros n k H e s. rewrite (dprintf_spec n k H). simpl. apply gated_holds, andb_ge2. Qed.

Lemma dprintf_plain_gate : forall n, In n dprintf_plain_family -> forall e s,
  gate_holds (behaviour n e s) (e_c e >= 1) s.
Proof. intros n H e s. rewrite (dprintf_plain_spec n H). simpl. apply gated_holds, geb_ge. Qed.

Lemma d_never_quiet : forall n, In n never_family -> forall e s, behaviour n e s = quiet.
Proof. intros n H e s. now rewrite (never_spec n H). Qed.

Lemma hdr_gate : forall n, In n hdr_family -> forall e s,
  let o := behaviour n e s in
  (printed o = true <-> e_fileline e = true /\ r_silent s = false /\ r_name s = true) /\ o_ctl o = Fall.
Proof.
  intros n H e s. rewrite (hdr_spec n H). simpl. unfold printed. simpl.
  rewrite !orb_false_r, andb_true_iff, can_print_true. tauto.
Qed.

Lemma silent_prints_nothing : forall m, In m ladder -> forall e s,
  r_silent s = true -> printed (behaviour (m_name m) e s) = false.
Proof.
  intros m Hm e s Hs. destruct (check_cover_sound _ _ cover_checked m Hm) as (k & Hk).
  rewrite (behaviour_spec _ _ Hk). apply spec_silent. unfold can_print. now rewrite Hs.
Qed.

Lemma nameless_prints_nothing : forall m, In m ladder -> forall e s,
  r_name s = false -> printed (behaviour (m_name m) e s) = false.
Proof.
  intros m Hm e s Hs. destruct (check_cover_sound _ _ cover_checked m Hm) as (k & Hk).
  rewrite (behaviour_spec _ _ Hk). apply spec_silent. unfold can_print. rewrite Hs. apply andb_false_r.
Qed.

Lemma primitives_silent : forall p s, p <> PRaw -> r_silent s = true -> printed (prim_behaviour p s) = false.
Proof.
  intros p s Hp Hs. rewrite prim_behaviour_spec. apply spec_prim_silent; auto. unfold can_print. now rewrite Hs.
Qed.

(* a failed assertion: only a warning and the function returns (with the value), or only the fatal
   message and the process exits *)
Definition warns_and_returns (o : obs) (rv : bool) (s : rt) : Prop :=
  o_ctl o = Ret rv /\ o_val o = b2n rv /\
  (o_warn o = true <-> r_silent s = false /\ r_name s = true) /\
  o_dbg o = false /\ o_err o = false /\ o_fatal o = false.
Definition is_fatal (o : obs) (s : rt) : Prop :=
  o_ctl o = Exit /\ o_val o = 0%nat /\
  (o_fatal o = true <-> r_silent s = false /\ r_name s = true) /\
  o_dbg o = false /\ o_err o = false /\ o_warn o = false.

Ltac crunch :=
  simpl; rewrite ?can_print_true; repeat split; intros;
  try discriminate; try lia; try tauto; auto;
  try (exfalso; intuition (discriminate || lia)).

Lemma assert_semantics : forall n rv, In (n, rv) assert_family -> forall e s,
  e_c e >= 1 ->
  let o := behaviour n e s in
  o_cond o = 1%nat /\ o_args o = 0%nat /\
  (r_cond s = true -> printed o = false /\ o_val o = 0%nat /\ o_ctl o = Fall) /\
  (r_cond s = false -> r_level s < 1 -> warns_and_returns o rv s) /\
  (r_cond s = false -> r_level s >= 1 -> is_fatal o s).
Proof.
  intros n rv H e s Hc. rewrite (assert_spec n rv H).
  unfold warns_and_returns, is_fatal, printed, spec, spec_assert_failed.
  destruct (Z.geb_spec (e_c e) 1); [|lia].
  destruct (r_cond s); destruct (Z.geb_spec (r_level s) 1); crunch.
Qed.

Lemma assert_vanishes : forall n rv, In (n, rv) assert_family -> forall e s,
  e_c e < 1 -> behaviour n e s = quiet.
Proof.
  intros n rv H e s Hc. rewrite (assert_spec n rv H). simpl. apply geb_lt in Hc. now rewrite Hc.
Qed.

Lemma notreached_semantics : forall n rv, In (n, rv) notreached_family -> forall e s,
  let o := behaviour n e s in
  (e_c e >= 1 -> e_fileline e = true -> r_level s < 1 -> warns_and_returns o rv s) /\
  (e_c e >= 1 -> e_fileline e = true -> r_level s >= 1 -> is_fatal o s) /\
  (e_c e < 1 \/ e_fileline e = false -> o = bare_return rv) /\
  o_cond o = 0%nat /\ o_args o = 0%nat.
Proof.
  intros n rv H e s. rewrite (notreached_spec n rv H).
  unfold warns_and_returns, is_fatal, printed, spec, spec_assert_failed.
  destruct (Z.geb_spec (e_c e) 1); destruct (e_fileline e);
    destruct (Z.geb_spec (r_level s) 1); crunch.
Qed.

Lemma require_semantics : forall n rv, In (n, rv) require_family -> forall e s,
  let o := behaviour n e s in
  o_cond o = 1%nat /\ o_args o = 0%nat /\ o_warn o = false /\ o_err o = false /\ o_fatal o = false /\
  (r_cond s = true -> printed o = false /\ o_val o = 0%nat /\ o_ctl o = Fall) /\
  (r_cond s = false ->
     o_ctl o = Ret rv /\ o_val o = b2n rv /\
     (o_dbg o = true <-> e_c e >= 1 /\ r_level s >= 1 /\ r_silent s = false /\ r_name s = true)).
Proof.
  intros n rv H e s. rewrite (require_spec n rv H).
  unfold printed, spec.
  destruct (r_cond s); destruct (Z.geb_spec (e_c e) 1); destruct (Z.geb_spec (r_level s) 1); crunch.
Qed.

Lemma abort_fatal : forall n, In n abort_family -> forall e s, is_fatal (behaviour n e s) s.
Proof.
  intros n H e s. rewrite (abort_spec n H). unfold is_fatal. simpl. rewrite can_print_true. tauto.
Qed.

Lemma alternatives_partition : forall m, In m ladder -> forall e, reached e m = 1%nat.
Proof. exact (check_partition_sound ladder partition_checked). Qed.

Lemma families_cover : forall m, In m ladder -> exists k, In (m_name m, k) classified.
Proof. exact (check_cover_sound ladder classified cover_checked). Qed.

Lemma never_stuck : forall m, In m ladder -> forall e s, o_ctl (behaviour (m_name m) e s) <> Stuck.
Proof.
  intros m Hm e s. destruct (families_cover m Hm) as (k & Hk). rewrite (behaviour_spec _ _ Hk).
  destruct k; simpl; unfold spec_assert_failed, spec_gated, with_cond, quiet, bare_return;
    repeat match goal with |- context [if ?b then _ else _] => destruct b end; simpl; discriminate.
Qed.
