(* Results of model operations: a value, or the kind of undefined behaviour the C code
   would have had at that point.  A property's memory-safety clause is "never Fault". *)
From Coq Require Export List ZArith NArith Arith Bool Lia.
Export ListNotations.

Inductive fault : Set :=
| OOB_read | OOB_write | Uninit_read | Null_deref | Use_after_free | Bad_free
| Out_of_fuel | Int_overflow | Abort.

Inductive res (A : Type) : Type :=
| Ok (a : A)
| Fault (f : fault).
Arguments Ok {A} a.
Arguments Fault {A} f.

Definition bind {A B} (r : res A) (k : A -> res B) : res B :=
  match r with Ok a => k a | Fault f => Fault f end.

Notation "x <- r ;; k" := (bind r (fun x => k))
  (at level 61, r at next level, right associativity).
Notation "' pat <- r ;; k" := (bind r (fun x => match x with pat => k end))
  (at level 61, pat pattern, r at next level, right associativity).

Definition is_ok {A} (r : res A) : bool := match r with Ok _ => true | Fault _ => false end.

Lemma bind_ok {A B} (r : res A) (k : A -> res B) b :
  bind r k = Ok b -> exists a, r = Ok a /\ k a = Ok b.
Proof. destruct r; simpl; intros H; [eauto | discriminate]. Qed.

(* Anchor so that every extraction contains the four number types the OCaml glue uses. *)
Definition num_anchor : nat * positive * N * Z := (0%nat, 1%positive, 0%N, 0%Z).
