(* Byte buffers with bounds- and initialisation-checked access, C strings inside them,
   and the "C"-locale character classes the library relies on. *)
From LV Require Export Base.Res.
Local Open Scope Z_scope.

Notation byte := Z (only parsing).   (* invariant: 0 <= b < 256 *)
Definition cell := option byte.           (* None = uninitialised *)
Definition buf := list cell.

Definition is_byte (b : Z) : Prop := 0 <= b < 256.
Definition nz_byte (b : Z) : Prop := 0 < b < 256.

Definition blen (b : buf) : Z := Z.of_nat (length b).

(* --- checked access, nat and Z indexed --- *)
Definition rdn (b : buf) (i : nat) : res byte :=
  match nth_error b i with
  | None => Fault OOB_read
  | Some None => Fault Uninit_read
  | Some (Some v) => Ok v
  end.

Fixpoint upd {A} (l : list A) (n : nat) (v : A) : list A :=
  match l, n with
  | [], _ => []
  | _ :: t, O => v :: t
  | x :: t, S n' => x :: upd t n' v
  end.

Definition wrn (b : buf) (i : nat) (v : byte) : res buf :=
  if (i <? length b)%nat then Ok (upd b i (Some v)) else Fault OOB_write.

Definition rd (b : buf) (i : Z) : res byte :=
  if i <? 0 then Fault OOB_read else rdn b (Z.to_nat i).
Definition wr (b : buf) (i : Z) (v : byte) : res buf :=
  if i <? 0 then Fault OOB_write else wrn b (Z.to_nat i) v.

(* --- C strings --- *)
Definition bytes (s : list byte) : buf := map Some s.
(* a buffer holding the NUL-terminated string s followed by arbitrary cells *)
Definition cstr (s : list byte) (rest : buf) : buf := bytes s ++ Some 0 :: rest.

Fixpoint strlen (b : buf) : res nat :=
  match b with
  | [] => Fault OOB_read
  | None :: _ => Fault Uninit_read
  | Some c :: t => if c =? 0 then Ok O else (n <- strlen t ;; Ok (S n))
  end.

(* strnlen(s, n): at most n cells are read *)
Fixpoint strnlen (b : buf) (n : nat) {struct n} : res nat :=
  match n with
  | O => Ok O
  | S n' =>
    match b with
    | [] => Fault OOB_read
    | None :: _ => Fault Uninit_read
    | Some c :: t => if c =? 0 then Ok O else (k <- strnlen t n' ;; Ok (S k))
    end
  end.

(* the initialised prefix of a buffer, as bytes; used to read results back *)
Fixpoint take_str (b : buf) : list byte :=
  match b with
  | Some c :: t => if c =? 0 then [] else c :: take_str t
  | _ => []
  end.

(* --- character classes, "C" locale, argument already reduced to 0..255 --- *)
Definition isspace (c : byte) : bool := ((9 <=? c) && (c <=? 13)) || (c =? 32).
Definition isupper (c : byte) : bool := (65 <=? c) && (c <=? 90).
Definition islower (c : byte) : bool := (97 <=? c) && (c <=? 122).
Definition isalpha (c : byte) : bool := isupper c || islower c.
Definition isdigit (c : byte) : bool := (48 <=? c) && (c <=? 57).
Definition isalnum (c : byte) : bool := isalpha c || isdigit c.
Definition iscntrl (c : byte) : bool := ((0 <=? c) && (c <? 32)) || (c =? 127).
Definition tolower (c : byte) : byte := if isupper c then c + 32 else c.
Definition toupper (c : byte) : byte := if islower c then c - 32 else c.

(* --- basic lemmas --- *)
Lemma upd_length {A} (l : list A) n v : length (upd l n v) = length l.
Proof. revert n; induction l as [|x t IH]; intros [|n]; simpl; auto. Qed.

Lemma upd_app_r {A} (l1 l2 : list A) n v :
  (length l1 <= n)%nat -> upd (l1 ++ l2) n v = l1 ++ upd l2 (n - length l1) v.
Proof.
  revert n; induction l1 as [|x t IH]; intros n Hn; simpl in *.
  - now rewrite Nat.sub_0_r.
  - destruct n as [|n]; [lia|]. simpl. f_equal. apply IH. lia.
Qed.

Lemma upd_app_l {A} (l1 l2 : list A) n v :
  (n < length l1)%nat -> upd (l1 ++ l2) n v = upd l1 n v ++ l2.
Proof.
  revert n; induction l1 as [|x t IH]; intros n Hn; simpl in *; [lia|].
  destruct n as [|n]; simpl; [reflexivity|]. f_equal. apply IH. lia.
Qed.

Lemma upd_0 {A} (x : A) t v : upd (x :: t) 0 v = v :: t.
Proof. reflexivity. Qed.

Lemma nth_error_upd_eq {A} (l : list A) n v :
  (n < length l)%nat -> nth_error (upd l n v) n = Some v.
Proof.
  revert n; induction l as [|x t IH]; intros [|n] H; simpl in *; try lia; auto.
  apply IH; lia.
Qed.

Lemma nth_error_upd_neq {A} (l : list A) n m v :
  n <> m -> nth_error (upd l n v) m = nth_error l m.
Proof.
  revert n m; induction l as [|x t IH]; intros [|n] [|m] H; simpl; auto; try congruence.
Qed.

Lemma strlen_cstr s rest :
  Forall nz_byte s -> strlen (cstr s rest) = Ok (length s).
Proof.
  unfold cstr, bytes. induction s as [|c s IH]; intros H; simpl; [reflexivity|].
  inversion H as [|? ? Hc Hs]; subst. unfold nz_byte in Hc.
  destruct (c =? 0) eqn:E; [lia|]. rewrite IH by assumption. reflexivity.
Qed.

Lemma take_str_cstr s rest : Forall nz_byte s -> take_str (cstr s rest) = s.
Proof.
  unfold cstr, bytes. induction s as [|c s IH]; intros H; simpl; [reflexivity|].
  inversion H as [|? ? Hc Hs]; subst. unfold nz_byte in Hc.
  destruct (c =? 0) eqn:E; [lia|]. now rewrite IH.
Qed.

Lemma rdn_app_l b1 b2 i : (i < length b1)%nat -> rdn (b1 ++ b2) i = rdn b1 i.
Proof. intros H. unfold rdn. now rewrite nth_error_app1. Qed.

Lemma rdn_app_r b1 b2 i : (length b1 <= i)%nat -> rdn (b1 ++ b2) i = rdn b2 (i - length b1).
Proof. intros H. unfold rdn. now rewrite nth_error_app2. Qed.

Lemma rdn_bytes s i c : nth_error s i = Some c -> rdn (bytes s) i = Ok c.
Proof. intros H. unfold rdn, bytes. rewrite nth_error_map, H. reflexivity. Qed.

Lemma bytes_length s : length (bytes s) = length s.
Proof. apply map_length. Qed.

Lemma bytes_app s t : bytes (s ++ t) = bytes s ++ bytes t.
Proof. apply map_app. Qed.
