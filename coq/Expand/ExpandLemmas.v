(* Lemmas about the pieces of the spifconf_shell_expand model: the single-pass buffer
   primitives agree with Base.Buf / the C13 model, and each scanner run on a C string in a
   buffer computes the corresponding list function of ExpandSpec.v without a fault. *)
From LV Require Import Base.Buf Strings.HelpersModel Strings.HelpersProofs Strings.HelpersProofs2
  Split.SplitModel Split.SplitProofs Expand.ExpandModel Expand.ExpandSpec Expand.ExpandList.
Local Open Scope Z_scope.

(* ---------- constants ---------- *)
Lemma cb_bounds : 2 <= config_buff /\ config_buff <= 65536.
Proof. unfold config_buff. lia. Qed.
Lemma CB_eq : Z.of_nat CB = config_buff.
Proof. unfold CB. pose proof cb_bounds. lia. Qed.
Lemma envvar_bounds : (envvar_max < envvar_size)%nat.
Proof. unfold envvar_max, envvar_size. lia. Qed.
Lemma maxj_eq : maxj = config_buff - 1.
Proof. reflexivity. Qed.
Global Opaque config_buff maxj CB.

Lemma u32_id z : 0 <= z < 4294967296 -> u32 z = z.
Proof. apply u32_small. Qed.

(* ---------- wrf / wrz are wrn / wr ---------- *)
Lemma wrf_eq b : forall i v, wrf b i v = wrn b i v.
Proof.
  induction b as [|x t IH]; intros [|i] v; try reflexivity.
  cbn [wrf]. rewrite IH. unfold wrn. cbn [length upd].
  change (S i <? S (length t))%nat with (i <? length t)%nat.
  destruct (i <? length t)%nat; reflexivity.
Qed.

Lemma wrz_eq b i v : wrz b i v = wr b i v.
Proof. unfold wrz, wr. destruct (i <? 0); [reflexivity|apply wrf_eq]. Qed.

Lemma wrf_ok b i v : (i < length b)%nat -> wrf b i v = Ok (upd b i (Some v)).
Proof. intros H. rewrite wrf_eq. now apply wrn_ok. Qed.

Lemma wrz_app (pre : list byte) x (tl : buf) v :
  wrz (bytes pre ++ x :: tl) (Z.of_nat (length pre)) v = Ok (bytes (pre ++ [v]) ++ tl).
Proof.
  unfold wrz. destruct (Z.ltb_spec (Z.of_nat (length pre)) 0); [lia|].
  rewrite Nat2Z.id, wrf_ok by (rewrite app_length, bytes_length; simpl; lia).
  rewrite upd_mid by (now rewrite bytes_length).
  rewrite bytes_app, <- app_assoc. reflexivity.
Qed.

(* ---------- cp_run / strncpy_off ---------- *)
Lemma cp_run_exact (v : list byte) rest : Forall nz_byte v ->
  forall dst room, (Nat.min (length v) room < length dst)%nat ->
  cp_run (cstr v rest) dst room =
  Ok ((length v <=? room)%nat, bytes (firstn room v) ++ Some 0 :: skipn (S (Nat.min (length v) room)) dst).
Proof.
  induction v as [|c v IH]; intros Hnz dst room Hl.
  - rewrite cstr_nil. destruct dst as [|x dst]; [simpl in Hl; lia|].
    cbn [cp_run Z.eqb orb]. rewrite firstn_nil. reflexivity.
  - apply Forall_nz_cons in Hnz. destruct Hnz as [Hc Hv].
    rewrite cstr_cons. destruct dst as [|x dst]; [simpl in Hl; lia|].
    cbn [cp_run]. rewrite (nz_neq0 c Hc). cbn [orb].
    destruct room as [|r].
    + cbn [Nat.eqb]. cbn. reflexivity.
    + cbn [Nat.eqb]. replace (S r - 1)%nat with r by lia.
      rewrite IH; [|assumption|simpl in Hl; lia]. cbn [bind]. reflexivity.
Qed.

(* the single-pass form is the C13 model of spiftool_safe_strncpy(dest + off, src, size) *)
Lemma strncpy_loop_cp_run : forall src dest i room, (i <= length dest)%nat ->
  strncpy_loop src dest i (i + room) =
  (r <- cp_run src (skipn i dest) room ;; Ok (fst r, firstn i dest ++ snd r)).
Proof.
  induction src as [|[c|] src IH]; intros dest i room Hi; try reflexivity.
  cbn [strncpy_loop cp_run].
  destruct (skipn i dest) as [|x d'] eqn:Esk.
  - assert (Hlen : (length dest <= i)%nat).
    { destruct (Nat.le_gt_cases (length dest) i) as [H|H]; [exact H|].
      destruct (@skipn_nonempty cell i dest H) as (y & t & E). congruence. }
    assert (Hw : forall v, wrn dest i v = Fault OOB_write).
    { intros v. unfold wrn. destruct (Nat.ltb_spec i (length dest)); [lia|reflexivity]. }
    destruct ((c =? 0) || negb (i <? i + room)%nat); rewrite Hw; reflexivity.
  - assert (Hlt : (i < length dest)%nat).
    { destruct (Nat.le_gt_cases (length dest) i) as [H|H]; [|exact H].
      rewrite skipn_all2 in Esk by exact H. discriminate. }
    assert (Hd : dest = firstn i dest ++ x :: d').
    { rewrite <- Esk. symmetry. apply firstn_skipn. }
    assert (Hfl : length (firstn i dest) = i) by (rewrite firstn_length; lia).
    replace (negb (i <? i + room)%nat) with (room =? 0)%nat.
    2:{ destruct room; [rewrite Nat.add_0_r, Nat.ltb_irrefl; reflexivity|].
        destruct (Nat.ltb_spec i (i + S room)); [reflexivity|lia]. }
    destruct ((c =? 0) || (room =? 0)%nat) eqn:Estop.
    + rewrite wrn_ok by exact Hlt. cbn [bind fst snd].
      rewrite Hd at 1. rewrite upd_mid by (symmetry; exact Hfl). reflexivity.
    + rewrite wrn_ok by exact Hlt. cbn [bind].
      apply orb_false_iff in Estop. destruct Estop as [_ Er]. apply Nat.eqb_neq in Er.
      replace (i + room)%nat with (S i + (room - 1))%nat by lia.
      rewrite IH by (rewrite upd_length; lia).
      rewrite skipn_upd_gt by lia. rewrite (skipn_S_cons _ _ _ _ Esk).
      destruct (cp_run src d' (room - 1)) as [[b d]|f]; [|reflexivity].
      cbn [bind fst snd]. rewrite firstn_S_upd by exact Hlt.
      rewrite <- app_assoc. reflexivity.
Qed.

Theorem strncpy_off_is_safe_strncpy_at dest off src size :
  (off <= length dest)%nat -> strncpy_off dest off src size = safe_strncpy_at dest off src size.
Proof.
  intros H. unfold strncpy_off, safe_strncpy_at. destruct (size <=? 0); [reflexivity|].
  rewrite strncpy_loop_cp_run by exact H.
  destruct (cp_run src (skipn off dest) (Z.to_nat (size - 1))) as [[b d]|f]; reflexivity.
Qed.

(* ---------- C strings in buffers ---------- *)
Lemma rdn0_cstr s rest : rdn (cstr s rest) 0 = Ok (hd 0 s).
Proof. destruct s; reflexivity. Qed.
Lemma tl_cstr c s rest : tl (cstr (c :: s) rest) = cstr s rest.
Proof. reflexivity. Qed.
Lemma rdn1_cstr c s rest : rdn (cstr (c :: s) rest) 1 = Ok (hd 0 s).
Proof. rewrite cstr_cons, rdn1_cons. apply rdn0_cstr. Qed.
Lemma skipn_cstr n (s : list byte) rest : (n <= length s)%nat -> skipn n (cstr s rest) = cstr (skipn n s) rest.
Proof.
  revert s; induction n as [|n IH]; intros s H; [reflexivity|].
  destruct s as [|c s]; [simpl in H; lia|]. rewrite cstr_cons. cbn [skipn]. apply IH. simpl in H. lia.
Qed.
Lemma hd_nz (s : list byte) : Forall nz_byte s -> s <> [] -> (hd 0 s =? 0) = false.
Proof. destruct s; intros H N; [congruence|]. apply Forall_nz_cons in H. cbn. now apply nz_neq0. Qed.

(* ---------- built-in recognition ---------- *)
Lemma ci_prefix_len name : forall s, ci_prefix name s = true -> (length name <= length s)%nat.
Proof.
  induction name as [|n name IH]; intros [|c s] H; simpl in *; try lia; try discriminate.
  apply andb_true_iff in H. destruct H as [_ H]. apply IH in H. lia.
Qed.

Lemma ncase_match_cstr name : Forall nz_byte name -> forall s rest, Forall nz_byte s ->
  ncase_match name (cstr s rest) = Ok (ci_prefix name s).
Proof.
  induction name as [|n name IH]; intros Hn s rest Hs; [reflexivity|].
  apply Forall_nz_cons in Hn. destruct Hn as [Hn0 Hn].
  cbn [ncase_match]. rewrite rdn0_cstr. cbn [bind].
  destruct s as [|c s].
  - cbn [hd ci_prefix]. pose proof (tolower_nz n Hn0) as H. unfold nz_byte in H.
    replace (tolower 0) with 0 by reflexivity.
    destruct (Z.eqb_spec 0 (tolower n)); [lia|reflexivity].
  - apply Forall_nz_cons in Hs. destruct Hs as [_ Hs]. cbn [hd ci_prefix].
    destruct (tolower c =? tolower n); [|reflexivity].
    rewrite tl_cstr. cbn [andb]. now apply IH.
Qed.

Lemma call_form_cstr name s rest : Forall nz_byte name -> Forall nz_byte s ->
  call_form name (cstr s rest) = Ok (is_call name s).
Proof.
  intros Hn Hs. unfold call_form, is_call. rewrite ncase_match_cstr by assumption. cbn [bind].
  destruct (ci_prefix name s) eqn:E; [|reflexivity]. cbn [andb].
  rewrite skipn_cstr by (now apply ci_prefix_len). rewrite rdn0_cstr. cbn [bind].
  destruct (skipn (length name) s) as [|c r]; [reflexivity|]. cbn [hd].
  destruct (c =? 40); [reflexivity|]. cbn [orb].
  destruct (c =? 32); [|reflexivity]. cbn [andb].
  rewrite rdn1_cstr. cbn [bind]. destruct r; reflexivity.
Qed.

Lemma find_builtin_cstr tbl s rest :
  Forall (fun e => Forall nz_byte (fst e)) tbl -> Forall nz_byte s ->
  find_builtin tbl (cstr s rest) = Ok (find_call tbl s).
Proof.
  intros Ht Hs. induction tbl as [|[n code] tbl IH]; [reflexivity|].
  inversion Ht as [|? ? Hn Ht']; subst. cbn [find_builtin find_call].
  rewrite call_form_cstr by assumption. cbn [bind].
  destruct (is_call n s); [reflexivity|]. now apply IH.
Qed.

Lemma builtin_table_nz : Forall (fun e => Forall nz_byte (fst e)) builtin_table.
Proof. unfold builtin_table, nz_byte. repeat constructor; cbn; lia. Qed.
(* ... and so is the whole table when the names the application registered are C strings *)
Lemma full_table_nz extra : Forall (fun e => Forall nz_byte (fst e)) extra ->
  Forall (fun e : list byte * Z => Forall nz_byte (fst e)) (full_table extra).
Proof. intros H. unfold full_table. apply Forall_app. split; [exact builtin_table_nz|exact H]. Qed.

Lemma find_call_len tbl s code nlen : find_call tbl s = Some (code, nlen) -> (nlen < length s)%nat.
Proof.
  induction tbl as [|[n c] tbl IH]; [discriminate|]. cbn [find_call].
  destruct (is_call n s) eqn:E; [|exact IH].
  intros H. injection H as _ <-. unfold is_call in E. apply andb_true_iff in E. destruct E as [E1 E2].
  apply ci_prefix_len in E1.
  destruct (skipn (length n) s) eqn:Esk; [discriminate|].
  destruct (Nat.le_gt_cases (length s) (length n)) as [H|H]; [|exact H].
  rewrite skipn_all2 in Esk by exact H. discriminate.
Qed.

(* ---------- the argument scan ---------- *)
Lemma split_args_app s : forall l, let '(a, r, _) := split_args s l in s = a ++ r.
Proof.
  induction s as [|c s IH]; intros l; cbn [split_args].
  - destruct (l =? 0); reflexivity.
  - destruct (l =? 0); [reflexivity|].
    specialize (IH (if c =? 40 then l + 1 else if c =? 41 then l - 1 else l)).
    destruct (split_args s _) as [[a r] lf]. cbn. now f_equal.
Qed.

Lemma split_args_nz s l : Forall nz_byte s ->
  let '(a, r, _) := split_args s l in Forall nz_byte a /\ Forall nz_byte r.
Proof.
  intros H. pose proof (split_args_app s l) as E. destruct (split_args s l) as [[a r] lf].
  subst s. apply Forall_app in H. exact H.
Qed.

(* when the count comes down to 0 from l > 0 the copied text is not empty *)
Lemma split_args_closed s : forall l, 0 < l ->
  let '(a, _, lf) := split_args s l in lf = 0 -> a <> [].
Proof.
  destruct s as [|c s]; intros l Hl; cbn [split_args]; destruct (Z.eqb_spec l 0); try lia.
  destruct (split_args s _) as [[a r] lf]. cbn. intros _. discriminate.
Qed.

Lemma wrf_repeat (pre : list byte) k c :
  wrf (bytes pre ++ repeat None (S k)) (length pre) c = Ok (bytes (pre ++ [c]) ++ repeat None k).
Proof.
  cbn [repeat]. rewrite wrf_ok by (rewrite app_length, bytes_length; simpl; lia).
  rewrite upd_mid by (now rewrite bytes_length). rewrite bytes_app, <- app_assoc. reflexivity.
Qed.

Lemma scan_args_cstr rest : forall s l (cpre : list byte) k,
  Forall nz_byte s -> 0 <= l -> l + Z.of_nat (length s) < 4294967296 -> (length s <= k)%nat ->
  scan_args (cstr s rest) (bytes cpre ++ repeat None k) (length cpre) l =
  let '(a, r, lf) := split_args s l in
  Ok (cstr r rest, bytes (cpre ++ a) ++ repeat None (k - length a), (length cpre + length a)%nat, lf).
Proof.
  induction s as [|c s IH]; intros l cpre k Hs Hl Hb Hk.
  - rewrite cstr_nil. cbn [scan_args split_args].
    destruct (l =? 0); cbn; rewrite app_nil_r, Nat.sub_0_r, Nat.add_0_r; try reflexivity.
  - apply Forall_nz_cons in Hs. destruct Hs as [Hc Hs].
    rewrite cstr_cons. cbn [scan_args split_args].
    destruct (Z.eqb_spec l 0) as [->|Hl0].
    + cbn. rewrite app_nil_r, Nat.sub_0_r, Nat.add_0_r. reflexivity.
    + rewrite (nz_neq0 c Hc).
      destruct k as [|k]; [simpl in Hk; lia|].
      rewrite wrf_repeat. cbn [bind].
      set (l' := if c =? 40 then l + 1 else if c =? 41 then l - 1 else l).
      assert (El : (if c =? 40 then u32 (l + 1) else if c =? 41 then u32 (l - 1) else l) = l').
      { subst l'. cbn [length] in Hb. destruct (c =? 40); [apply u32_id; lia|].
        destruct (c =? 41); [apply u32_id; lia|reflexivity]. }
      rewrite El.
      replace (S (length cpre)) with (length (cpre ++ [c])) by (rewrite app_length; simpl; lia).
      assert (Hl' : 0 <= l' /\ l' + Z.of_nat (length s) < 4294967296).
      { subst l'. cbn [length] in Hb. destruct (c =? 40); [lia|]. destruct (c =? 41); lia. }
      rewrite IH; [|assumption|lia|lia|simpl in Hk; lia].
      destruct (split_args s l') as [[a r] lf].
      rewrite <- app_assoc. cbn [app length].
      rewrite app_length. cbn [length]. cbn [Nat.sub].
      replace (length cpre + 1 + length a)%nat with (length cpre + S (length a))%nat by lia. reflexivity.
Qed.

(* ---------- the $ scans ---------- *)
Lemma wrn_len_ok (ev : buf) k c : (k < length ev)%nat -> exists ev', wrn ev k c = Ok ev' /\ length ev' = length ev.
Proof. intros H. rewrite wrn_ok by exact H. eexists; split; [reflexivity|apply upd_length]. Qed.

Lemma scan_ref_cstr cl rest : forall s k ev acc,
  Forall nz_byte s -> length ev = envvar_size -> (k <= envvar_max)%nat ->
  exists k' ev',
    scan_ref cl (cstr s rest) k ev acc =
      Ok (cstr (snd (ref_scan cl s k)) rest, k', ev', acc ++ fst (ref_scan cl s k)) /\
    length ev' = envvar_size /\ (k' <= envvar_max)%nat.
Proof.
  pose proof envvar_bounds as Hb.
  induction s as [|c s IH]; intros k ev acc Hs He Hk.
  - rewrite cstr_nil. cbn [scan_ref ref_scan Z.eqb orb fst snd]. rewrite app_nil_r. eauto.
  - apply Forall_nz_cons in Hs. destruct Hs as [Hc Hs].
    rewrite cstr_cons. cbn [scan_ref ref_scan]. rewrite (nz_neq0 c Hc). cbn [orb].
    destruct ((c =? cl) || negb (k <? envvar_max)%nat) eqn:E.
    + cbn [fst snd]. rewrite app_nil_r, <- cstr_cons. eauto.
    + apply orb_false_iff in E. destruct E as [_ E]. apply negb_false_iff, Nat.ltb_lt in E.
      destruct (wrn_len_ok ev k c ltac:(lia)) as (ev1 & -> & Hl1). cbn [bind].
      destruct (IH (S k) ev1 (acc ++ [c]) Hs ltac:(lia) ltac:(lia)) as (k' & ev' & Heq & Hl & Hk').
      rewrite Heq. destruct (ref_scan cl s (S k)) as [n r]. cbn [fst snd].
      rewrite <- app_assoc. eauto.
Qed.

Lemma scan_bare_cstr rest : forall s k ev acc,
  Forall nz_byte s -> length ev = envvar_size -> (k <= envvar_max)%nat ->
  exists k' ev',
    scan_bare (cstr s rest) k ev acc =
      Ok (cstr (snd (bare_scan s k)) rest, k', ev', acc ++ fst (bare_scan s k)) /\
    length ev' = envvar_size /\ (k' <= envvar_max)%nat.
Proof.
  pose proof envvar_bounds as Hb.
  induction s as [|c s IH]; intros k ev acc Hs He Hk.
  - rewrite cstr_nil. cbn [scan_bare bare_scan fst snd]. rewrite app_nil_r.
    replace (isalnum 0 || (0 =? 95)) with false by reflexivity. cbn [andb]. eauto.
  - apply Forall_nz_cons in Hs. destruct Hs as [Hc Hs].
    rewrite cstr_cons. cbn [scan_bare bare_scan].
    destruct ((isalnum c || (c =? 95)) && (k <? envvar_max)%nat) eqn:E.
    + apply andb_true_iff in E. destruct E as [_ E]. apply Nat.ltb_lt in E.
      destruct (wrn_len_ok ev k c ltac:(lia)) as (ev1 & -> & Hl1). cbn [bind].
      destruct (IH (S k) ev1 (acc ++ [c]) Hs ltac:(lia) ltac:(lia)) as (k' & ev' & Heq & Hl & Hk').
      rewrite Heq. destruct (bare_scan s (S k)) as [n r]. cbn [fst snd].
      rewrite <- app_assoc. eauto.
    + cbn [fst snd]. rewrite app_nil_r, <- cstr_cons. eauto.
Qed.

Lemma ref_scan_nz cl s : forall k, Forall nz_byte s -> Forall nz_byte (snd (ref_scan cl s k)).
Proof.
  induction s as [|c s IH]; intros k H; cbn [ref_scan]; [constructor|].
  destruct ((c =? cl) || negb (k <? envvar_max)%nat); [exact H|].
  apply Forall_nz_cons in H. specialize (IH (S k) (proj2 H)).
  destruct (ref_scan cl s (S k)). exact IH.
Qed.
Lemma ref_scan_len cl s : forall k, (length (snd (ref_scan cl s k)) <= length s)%nat.
Proof.
  induction s as [|c s IH]; intros k; cbn [ref_scan]; [simpl; lia|].
  destruct ((c =? cl) || negb (k <? envvar_max)%nat); [simpl; lia|].
  specialize (IH (S k)). destruct (ref_scan cl s (S k)). simpl in *. lia.
Qed.
Lemma bare_scan_nz s : forall k, Forall nz_byte s -> Forall nz_byte (snd (bare_scan s k)).
Proof.
  induction s as [|c s IH]; intros k H; cbn [bare_scan]; [constructor|].
  destruct ((isalnum c || (c =? 95)) && (k <? envvar_max)%nat); [|exact H].
  apply Forall_nz_cons in H. specialize (IH (S k) (proj2 H)).
  destruct (bare_scan s (S k)). exact IH.
Qed.
Lemma bare_scan_len s : forall k, (length (snd (bare_scan s k)) <= length s)%nat.
Proof.
  induction s as [|c s IH]; intros k; cbn [bare_scan]; [simpl; lia|].
  destruct ((isalnum c || (c =? 95)) && (k <? envvar_max)%nat); [|simpl; lia].
  specialize (IH (S k)). destruct (bare_scan s (S k)). simpl in *. lia.
Qed.

Lemma skip_closer_nz cl r : Forall nz_byte r -> Forall nz_byte (skip_closer cl r).
Proof. destruct r as [|d r]; intros H; cbn; [exact H|]. destruct (d =? cl); [now inversion H|exact H]. Qed.
Lemma skip_closer_len cl r : (length (skip_closer cl r) <= length r)%nat.
Proof. destruct r as [|d r]; cbn; [lia|]. destruct (d =? cl); simpl; lia. Qed.

Lemma env_ref_nz t : Forall nz_byte t -> Forall nz_byte (snd (env_ref t)).
Proof.
  intros H. unfold env_ref. destruct t as [|c t]; [constructor|].
  pose proof (Forall_nz_cons _ _ H) as [_ Ht].
  destruct (c =? 123).
  { pose proof (ref_scan_nz 125 t 0 Ht). destruct (ref_scan 125 t 0). now apply skip_closer_nz. }
  destruct (c =? 40).
  { pose proof (ref_scan_nz 41 t 0 Ht). destruct (ref_scan 41 t 0). now apply skip_closer_nz. }
  now apply bare_scan_nz.
Qed.
Lemma env_ref_len t : (length (snd (env_ref t)) <= length t)%nat.
Proof.
  unfold env_ref. destruct t as [|c t]; [simpl; lia|].
  destruct (c =? 123).
  { pose proof (ref_scan_len 125 t 0). destruct (ref_scan 125 t 0) as [n r].
    pose proof (skip_closer_len 125 r). simpl in *. lia. }
  destruct (c =? 40).
  { pose proof (ref_scan_len 41 t 0). destruct (ref_scan 41 t 0) as [n r].
    pose proof (skip_closer_len 41 r). simpl in *. lia. }
  apply bare_scan_len.
Qed.

(* the whole $ case, cursor on the '$' *)
Lemma scan_env_cstr c0 t rest : Forall nz_byte t ->
  scan_env (cstr (c0 :: t) rest) = Ok (cstr (snd (env_ref t)) rest, fst (env_ref t)).
Proof.
  intros Ht. pose proof envvar_bounds as Hb.
  unfold scan_env, env_ref. rewrite rdn1_cstr. cbn [bind].
  assert (Hev : length (repeat (@None byte) envvar_size) = envvar_size) by apply repeat_length.
  destruct t as [|c t].
  - cbn [hd]. replace (0 =? 123) with false by reflexivity. replace (0 =? 40) with false by reflexivity.
    rewrite tl_cstr.
    destruct (scan_bare_cstr rest [] 0 _ [] Ht Hev ltac:(lia)) as (k' & ev' & Heq & Hl & Hk).
    rewrite Heq. cbn [bind bare_scan fst snd app].
    destruct (wrn_len_ok ev' k' 0 ltac:(lia)) as (ev2 & -> & _). reflexivity.
  - cbn [hd]. pose proof (Forall_nz_cons _ _ Ht) as [_ Ht'].
    destruct (c =? 123).
    { rewrite !tl_cstr.
      destruct (scan_ref_cstr 125 rest t 0 _ [] Ht' Hev ltac:(lia)) as (k' & ev' & Heq & Hl & Hk).
      rewrite Heq. cbn [bind app]. destruct (ref_scan 125 t 0) as [n r]. cbn [fst snd].
      rewrite rdn0_cstr. cbn [bind].
      destruct (wrn_len_ok ev' k' 0 ltac:(lia)) as (ev2 & Hw & _).
      destruct r as [|d r]; cbn [hd skip_closer].
      - replace (0 =? 125) with false by reflexivity. rewrite Hw. reflexivity.
      - destruct (d =? 125); rewrite ?tl_cstr, Hw; reflexivity. }
    destruct (c =? 40).
    { rewrite !tl_cstr.
      destruct (scan_ref_cstr 41 rest t 0 _ [] Ht' Hev ltac:(lia)) as (k' & ev' & Heq & Hl & Hk).
      rewrite Heq. cbn [bind app]. destruct (ref_scan 41 t 0) as [n r]. cbn [fst snd].
      rewrite rdn0_cstr. cbn [bind].
      destruct (wrn_len_ok ev' k' 0 ltac:(lia)) as (ev2 & Hw & _).
      destruct r as [|d r]; cbn [hd skip_closer].
      - replace (0 =? 41) with false by reflexivity. rewrite Hw. reflexivity.
      - destruct (d =? 41); rewrite ?tl_cstr, Hw; reflexivity. }
    rewrite tl_cstr.
    destruct (scan_bare_cstr rest (c :: t) 0 _ [] Ht Hev ltac:(lia)) as (k' & ev' & Heq & Hl & Hk).
    rewrite Heq. cbn [bind app].
    destruct (wrn_len_ok ev' k' 0 ltac:(lia)) as (ev2 & -> & _). reflexivity.
Qed.
