(* The list-level loop of ExpandList.v computes the specification sx of ExpandSpec.v whenever
   nothing reaches the line-buffer limit: the expanded text (and the expansion of every nested
   call argument) stays below max - 1 characters.  Also: sx never runs out of its counter n
   when n exceeds the length of the text. *)
From LV Require Import Base.Buf Strings.HelpersModel Strings.HelpersProofs Split.SplitModel Split.SplitProofs
  Expand.ExpandModel Expand.ExpandSpec Expand.ExpandList Expand.ExpandLemmas Expand.WordFacts
  Expand.StoreProofs Expand.ExpandProofs.
Local Open Scope Z_scope.

(* ---------- lengths of the pieces a call is cut into (no assumption on the bytes) ---------- *)
Lemma after_open_len nlen (t : list byte) : (length (after_open nlen t) <= length t)%nat.
Proof.
  unfold after_open. pose proof (skipn_length nlen t) as Hl.
  destruct (skipn nlen t) as [|c r]; [simpl; lia|]. cbn [length] in Hl.
  destruct (c =? 40); [lia|]. destruct r; simpl in *; lia.
Qed.

Lemma split_args_len s l : let '(a, r, _) := split_args s l in (length a + length r = length s)%nat.
Proof.
  pose proof (split_args_app s l) as H. destruct (split_args s l) as [[a r] lf].
  subst s. now rewrite app_length.
Qed.

Lemma removelast_le {A} (a : list A) : (length (removelast a) <= length a)%nat.
Proof. destruct a as [|x a]; [simpl; lia|]. rewrite (removelast_len (x :: a)) by discriminate. lia. Qed.

Section SpecProofs.
Variable genv : list byte -> option (list byte).
Variable progname progver : list byte.
Hypothesis genv_nz : forall n v, genv n = Some v -> val_ok v.
Hypothesis progname_nz : Forall nz_byte progname.
Hypothesis progver_nz : val_ok progver.
Variable exec_out : list byte -> exec_answer.
Variable dir_list : list byte -> dir_answer.
Hypothesis exec_ok : forall c o, exec_out c = ExecOut o -> Forall is_byte o /\ small o.
Hypothesis dir_ok : forall d ns, dir_list d = DirList ns -> Forall (Forall nz_byte) ns.
Variable extra : list (list byte * Z).
Variable ufn : Z -> option (list byte) -> option (list byte).
Hypothesis ufn_ok : forall code a v, (forall o, a = Some o -> arg_ok o) -> ufn code a = Some v -> val_ok v.

Notation sx := (sx genv progname progver exec_out dir_list extra ufn).
Notation lloop := (lloop genv progname progver exec_out dir_list extra ufn).

(* ---------- sx does not run out of its counter ---------- *)
Lemma emit_fuel frag r : emit frag r = SFuel -> r = SFuel.
Proof. destruct r; cbn; congruence. Qed.
Lemma with_peak_fuel m r : with_peak m r = SFuel -> r = SFuel.
Proof. destruct r; cbn; congruence. Qed.

Lemma sx_no_fuel : forall n s q1 q2 st, (length s < n)%nat -> sx n s q1 q2 st <> SFuel.
Proof.
  induction n as [|n IH]; intros s q1 q2 st Hn; [lia|].
  destruct s as [|c t]; [discriminate|]. cbn [length] in Hn. cbn [ExpandSpec.sx].
  assert (Hlit : forall frag q1' q2' st', emit frag (sx n t q1' q2' st') <> SFuel).
  { intros frag q1' q2' st' E. apply emit_fuel in E. revert E. apply IH. lia. }
  destruct (c =? 126). { destruct (if q1 || q2 then None else genv HOME) as [[|h ht]|]; apply Hlit. }
  destruct (c =? 92).
  { destruct t as [|d t']; [discriminate|]. cbn [length] in Hn.
    destruct (negb q1 || (d =? 39)); intros E; apply emit_fuel in E; revert E; apply IH; lia. }
  destruct (c =? 37).
  { destruct (find_call (full_table extra) t) as [[code nlen]|].
    2:{ destruct t as [|d t']; [discriminate|]. cbn [length] in Hn.
        intros E; apply emit_fuel in E; revert E; apply IH; lia. }
    pose proof (after_open_len nlen t) as Hao.
    pose proof (split_args_len (after_open nlen t) 1) as Hsl.
    destruct (split_args (after_open nlen t) 1) as [[a rest] l].
    destruct (negb (l =? 0)); [discriminate|].
    pose proof (removelast_le a) as Hrl.
    pose proof (IH (removelast a) false false st ltac:(lia)) as Hin.
    destruct (sx n (removelast a) false false st) as [o st1 pk|[|e] st1 m pk|]; [| |discriminate|congruence].
    - destruct (s_builtin progname progver exec_out dir_list ufn code (Some o) st1) as [[|v|e] st2]; [| |discriminate].
      + intros E. apply with_peak_fuel in E. revert E. apply IH. lia.
      + intros E. apply with_peak_fuel, emit_fuel in E. revert E. apply IH. lia.
    - destruct (s_builtin progname progver exec_out dir_list ufn code None st1) as [[|v|e] st2]; [| |discriminate].
      + intros E. apply with_peak_fuel in E. revert E. apply IH. lia.
      + intros E. apply with_peak_fuel, emit_fuel in E. revert E. apply IH. lia. }
  destruct (c =? 96). { destruct q1; [apply Hlit|discriminate]. }
  destruct (c =? 36).
  { destruct q1; [apply Hlit|].
    pose proof (env_ref_len t) as Hrl. destruct (env_ref t) as [name rest]. cbn [snd] in Hrl.
    intros E; apply emit_fuel in E; revert E; apply IH; lia. }
  destruct (c =? 34); [apply Hlit|]. destruct (c =? 39); apply Hlit.
Qed.

(* ---------- the relation between a specification result and a loop result ---------- *)
Definition sx_rel (r : sres) (pre : list byte) (X : llres) : Prop :=
  match r with
  | SOut o st' pk =>
    Z.of_nat (length pre + length o) < maxj -> Z.of_nat pk < maxj -> X = LLDone (pre ++ o) st'
  | SStop StNull st' m pk =>
    Z.of_nat (length pre + m) < maxj -> Z.of_nat pk < maxj -> X = LLNull st'
  | SStop (StExt e) _ m pk =>
    Z.of_nat (length pre + m) < maxj -> Z.of_nat pk < maxj -> X = LLExt e
  | SFuel => True
  end.

Lemma sx_rel_absurd r pre X : maxj <= Z.of_nat (length pre) -> sx_rel r pre X.
Proof. intros H. destruct r as [o st' pk|[|e] st' m pk|]; cbn; intros; try exact I; lia. Qed.

Lemma sx_rel_emit frag r pre X : sx_rel r (pre ++ frag) X -> sx_rel (emit frag r) pre X.
Proof.
  destruct r as [o st' pk|[|e] st' m pk|]; cbn; try (intros _; exact I); intros H H1 H2.
  - rewrite app_assoc. apply H; [rewrite !app_length in *; lia|exact H2].
  - apply H; [rewrite !app_length in *; lia|exact H2].
  - apply H; [rewrite !app_length in *; lia|exact H2].
Qed.

Lemma sx_rel_peak m r pre X : sx_rel r pre X -> sx_rel (with_peak m r) pre X.
Proof. destruct r as [o st' pk|[|e] st' k pk|]; cbn; try (intros _; exact I); intros H H1 H2; apply H; lia. Qed.

(* a value is placed: below the limit lplace is plain concatenation *)
Lemma sx_rel_place v r pre (F : list byte -> llres) :
  sx_rel r (pre ++ v) (F (pre ++ v)) -> sx_rel (emit v r) pre (F (lplace pre v)).
Proof.
  assert (Hpl : forall k : nat, Z.of_nat (length pre + (length v + k)) < maxj -> lplace pre v = pre ++ v).
  { intros k Hk. unfold lplace. destruct (Z.leb_spec (Z.of_nat (length v)) (maxj - Z.of_nat (length pre) - 1)); [reflexivity|lia]. }
  destruct r as [o st' pk|[|e] st' m pk|]; cbn; try (intros _; exact I); intros H H1 H2.
  - rewrite (Hpl (length o)) by (rewrite app_length in H1; exact H1).
    rewrite app_assoc. apply H; [rewrite !app_length in *; lia|exact H2].
  - rewrite (Hpl m) by exact H1. apply H; [rewrite !app_length in *; lia|exact H2].
  - rewrite (Hpl m) by exact H1. apply H; [rewrite !app_length in *; lia|exact H2].
Qed.

Lemma sx_rel_guard r pre (X Y : llres) :
  (Z.of_nat (length pre) < maxj -> sx_rel r pre Y) ->
  sx_rel r pre (if negb (Z.of_nat (length pre) <? maxj) then X else Y).
Proof.
  intros H. destruct (Z.ltb_spec (Z.of_nat (length pre)) maxj); cbn [negb]; [auto|now apply sx_rel_absurd].
Qed.

(* ---------- the loop computes the specification ---------- *)
Theorem lloop_sx : forall n s pre q1 q2 st,
  (length s < n)%nat -> Forall nz_byte s -> pre_ok pre -> store_ok st ->
  sx_rel (sx n s q1 q2 st) pre (lloop n s pre q1 q2 st).
Proof.
  induction n as [|n IH]; intros s pre q1 q2 st Hn Hs Hpre Hst; [lia|].
  destruct s as [|c t].
  { cbn. intros _ _. now rewrite app_nil_r. }
  pose proof (Forall_nz_cons _ _ Hs) as [Hc Ht]. cbn [length] in Hn.
  cbn [ExpandSpec.sx ExpandList.lloop lbody].
  apply sx_rel_guard. intros Hj.
  assert (Hlit : forall q1' q2', sx_rel (emit [c] (sx n t q1' q2' st)) pre (lloop n t (pre ++ [c]) q1' q2' st)).
  { intros. apply sx_rel_emit. apply IH; auto; [lia|now apply pre_ok_snoc]. }
  destruct (c =? 126).
  { destruct (if q1 || q2 then None else genv HOME) as [[|h ht]|] eqn:E; try apply Hlit.
    apply (sx_rel_place (h :: ht) _ pre (fun p => lloop n t p q1 q2 st)).
    assert (Hv : val_ok (h :: ht)) by (destruct (q1 || q2); [discriminate|eapply genv_nz; eassumption]).
    destruct (Z.ltb_spec (Z.of_nat (length (pre ++ h :: ht))) maxj) as [Hfit|Hno]; [|now apply sx_rel_absurd].
    apply IH; auto; [lia|].
    replace (pre ++ h :: ht) with (lplace pre (h :: ht)).
    - apply pre_ok_lplace; [assumption|assumption|assumption|discriminate].
    - unfold lplace. rewrite app_length in Hfit.
      destruct (Z.leb_spec (Z.of_nat (length (h :: ht))) (maxj - Z.of_nat (length pre) - 1)); [reflexivity|lia]. }
  destruct (c =? 92).
  { destruct t as [|d t'].
    - cbn. intros H1 _. destruct n; [lia|]. reflexivity.
    - pose proof (Forall_nz_cons _ _ Ht) as [Hd Ht']. cbn [length] in Hn.
      destruct (negb q1 || (d =? 39)).
      + apply sx_rel_emit. apply IH; auto; [lia|]. apply pre_ok_snoc; auto. now apply esc_nz.
      + apply sx_rel_emit. apply IH; auto; [lia|]. now apply pre_ok_snoc2. }
  destruct (c =? 37).
  { destruct (find_call (full_table extra) t) as [[code nlen]|] eqn:Efc.
    2:{ destruct t as [|d t'].
        - cbn. intros H1 _. destruct n; [lia|]. reflexivity.
        - pose proof (Forall_nz_cons _ _ Ht) as [Hd Ht']. cbn [length] in Hn.
          apply sx_rel_emit. apply IH; auto; [lia|]. now apply pre_ok_snoc. }
    destruct (after_open_facts nlen t Ht) as [Hao Haol].
    pose proof (split_args_len (after_open nlen t) 1) as Hsl.
    pose proof (split_args_nz (after_open nlen t) 1 Hao) as Hnz.
    destruct (split_args (after_open nlen t) 1) as [[a rest] l].
    destruct Hnz as [Ha Hrest].
    destruct (l =? 0); cbn [negb]; [|cbn; reflexivity].
    pose proof (removelast_le a) as Hrl.
    assert (Hra : Forall nz_byte (removelast a)) by now apply removelast_nz.
    pose proof (IH (removelast a) [] false false st ltac:(lia) Hra pre_ok_nil Hst) as Hin.
    pose proof (lloop_ok genv progname progver genv_nz progname_nz progver_nz exec_out dir_list exec_ok dir_ok extra ufn ufn_ok n (removelast a) [] false false st
                         ltac:(lia) Hra pre_ok_nil Hst) as Hok.
    destruct (sx n (removelast a) false false st) as [o st1 pk|[|e] st1 m pk|]; [| | |exact I].
    - (* the argument text expands to o *)
      cbn [sx_rel app length Nat.add] in Hin.
      (* everything below is under the assumption that o and its nested texts fit *)
      assert (Hcase : Z.of_nat (length o) < maxj -> Z.of_nat pk < maxj ->
                      sx_rel (let '(out, st2) := s_builtin progname progver exec_out dir_list ufn code (Some o) st1 in
                              match out with
                              | BExt e => SStop (StExt e) st2 0 (Nat.max (length o) pk)
                              | BStr v => with_peak (Nat.max (length o) pk) (emit v (sx n rest q1 q2 st2))
                              | BNull => with_peak (Nat.max (length o) pk) (sx n rest q1 q2 st2)
                              end) pre
                             (match lloop n (removelast a) [] false false st with
                              | LLFuel => LLFuel
                              | LLExt e => LLExt e
                              | r =>
                                let '(param, st1') := match r with
                                                      | LLDone pre1 st1' => (lfinish pre1, st1')
                                                      | LLNull st1' => (None, st1')
                                                      | _ => (None, st)
                                                      end in
                                let '(out, st2) := s_builtin progname progver exec_out dir_list ufn code param st1' in
                                match out with
                                | BExt e => LLExt e
                                | BStr (o0 :: ot) => lloop n rest (lplace pre (o0 :: ot)) q1 q2 st2
                                | _ => lloop n rest pre q1 q2 st2
                                end
                              end)).
      { intros Ho Hpk. specialize (Hin Ho Hpk). rewrite Hin in *. cbn [llres_ok] in Hok.
        destruct Hok as [(Ho1 & Ho2 & Ho3) Hst1].
        assert (Hoz : Forall nz_byte o) by (apply Ho3; exact Ho).
        assert (Ef : lfinish o = Some o).
        { unfold lfinish. pose proof maxj_eq.
          destruct (Z.ltb_spec (Z.of_nat (length o)) config_buff); [|lia]. now rewrite cut0_nz_id. }
        rewrite Ef.
        pose proof (s_builtin_ok progname progver progname_nz progver_nz exec_out dir_list exec_ok dir_ok ufn ufn_ok code (Some o) st1 Hst1) as Hb.
        destruct (s_builtin progname progver exec_out dir_list ufn code (Some o) st1) as [out st2].
        destruct Hb as (Hst2 & Hout).
        { intros o' E. injection E as <-. split; [exact Hoz|]. pose proof cb_bounds. pose proof maxj_eq. lia. }
        destruct out as [|[|o0 ot]|e].
        - apply sx_rel_peak. apply IH; auto; lia.
        - apply sx_rel_peak. apply sx_rel_emit. rewrite app_nil_r. apply IH; auto; lia.
        - apply sx_rel_peak.
          apply (sx_rel_place (o0 :: ot) _ pre (fun p => lloop n rest p q1 q2 st2)).
          destruct (Z.ltb_spec (Z.of_nat (length (pre ++ o0 :: ot))) maxj) as [Hfit|Hno]; [|now apply sx_rel_absurd].
          apply IH; auto; [lia|].
          replace (pre ++ o0 :: ot) with (lplace pre (o0 :: ot)).
          + apply pre_ok_lplace; [assumption|assumption|now apply Hout|discriminate].
          + unfold lplace. rewrite app_length in Hfit.
            destruct (Z.leb_spec (Z.of_nat (length (o0 :: ot))) (maxj - Z.of_nat (length pre) - 1)); [reflexivity|lia].
        - cbn. reflexivity. }
      (* fold the assumption back into the shape of sx_rel *)
      destruct (s_builtin progname progver exec_out dir_list ufn code (Some o) st1) as [[|v|e] st2] eqn:Eb.
      + destruct (sx n rest q1 q2 st2) as [o' st' pk'|[|e'] st' m' pk'|]; cbn in *; intros; try exact I; apply Hcase; lia.
      + destruct (sx n rest q1 q2 st2) as [o' st' pk'|[|e'] st' m' pk'|]; cbn in *; intros; try exact I; apply Hcase; lia.
      + cbn in *. intros. apply Hcase; lia.
    - (* the argument text could not be expanded *)
      cbn [sx_rel app length Nat.add] in Hin.
      assert (Hcase : Z.of_nat m < maxj -> Z.of_nat pk < maxj ->
                      sx_rel (let '(out, st2) := s_builtin progname progver exec_out dir_list ufn code None st1 in
                              match out with
                              | BExt e => SStop (StExt e) st2 0 (Nat.max m pk)
                              | BStr v => with_peak (Nat.max m pk) (emit v (sx n rest q1 q2 st2))
                              | BNull => with_peak (Nat.max m pk) (sx n rest q1 q2 st2)
                              end) pre
                             (match lloop n (removelast a) [] false false st with
                              | LLFuel => LLFuel
                              | LLExt e => LLExt e
                              | r =>
                                let '(param, st1') := match r with
                                                      | LLDone pre1 st1' => (lfinish pre1, st1')
                                                      | LLNull st1' => (None, st1')
                                                      | _ => (None, st)
                                                      end in
                                let '(out, st2) := s_builtin progname progver exec_out dir_list ufn code param st1' in
                                match out with
                                | BExt e => LLExt e
                                | BStr (o0 :: ot) => lloop n rest (lplace pre (o0 :: ot)) q1 q2 st2
                                | _ => lloop n rest pre q1 q2 st2
                                end
                              end)).
      { intros Hm Hpk. specialize (Hin Hm Hpk). rewrite Hin in *. cbn [llres_ok] in Hok.
        pose proof (s_builtin_ok progname progver progname_nz progver_nz exec_out dir_list exec_ok dir_ok ufn ufn_ok code None st1 Hok ltac:(discriminate)) as Hb.
        destruct (s_builtin progname progver exec_out dir_list ufn code None st1) as [out st2].
        destruct Hb as (Hst2 & Hout).
        destruct out as [|[|o0 ot]|e].
        - apply sx_rel_peak. apply IH; auto; lia.
        - apply sx_rel_peak. apply sx_rel_emit. rewrite app_nil_r. apply IH; auto; lia.
        - apply sx_rel_peak.
          apply (sx_rel_place (o0 :: ot) _ pre (fun p => lloop n rest p q1 q2 st2)).
          destruct (Z.ltb_spec (Z.of_nat (length (pre ++ o0 :: ot))) maxj) as [Hfit|Hno]; [|now apply sx_rel_absurd].
          apply IH; auto; [lia|].
          replace (pre ++ o0 :: ot) with (lplace pre (o0 :: ot)).
          + apply pre_ok_lplace; [assumption|assumption|now apply Hout|discriminate].
          + unfold lplace. rewrite app_length in Hfit.
            destruct (Z.leb_spec (Z.of_nat (length (o0 :: ot))) (maxj - Z.of_nat (length pre) - 1)); [reflexivity|lia].
        - cbn. reflexivity. }
      destruct (s_builtin progname progver exec_out dir_list ufn code None st1) as [[|v|e] st2] eqn:Eb.
      + destruct (sx n rest q1 q2 st2) as [o' st' pk'|[|e'] st' m' pk'|]; cbn in *; intros; try exact I; apply Hcase; lia.
      + destruct (sx n rest q1 q2 st2) as [o' st' pk'|[|e'] st' m' pk'|]; cbn in *; intros; try exact I; apply Hcase; lia.
      + cbn in *. intros. apply Hcase; lia.
    - (* an outside event inside the argument text *)
      cbn [sx_rel app length Nat.add] in *. intros H1 H2.
      rewrite Hin by lia. reflexivity. }
  destruct (c =? 96). { destruct q1; [apply Hlit|cbn; reflexivity]. }
  destruct (c =? 36).
  { destruct q1; [apply Hlit|].
    pose proof (env_ref_nz t Ht) as Hr. pose proof (env_ref_len t) as Hrl.
    destruct (env_ref t) as [name rest]. cbn [snd] in *.
    destruct (genv name) as [[|v vt]|] eqn:E.
    - apply sx_rel_emit. rewrite app_nil_r. apply IH; auto; lia.
    - apply (sx_rel_place (v :: vt) _ pre (fun p => lloop n rest p false q2 st)).
      assert (Hv : val_ok (v :: vt)) by (eapply genv_nz; eassumption).
      destruct (Z.ltb_spec (Z.of_nat (length (pre ++ v :: vt))) maxj) as [Hfit|Hno]; [|now apply sx_rel_absurd].
      apply IH; auto; [lia|].
      replace (pre ++ v :: vt) with (lplace pre (v :: vt)).
      + apply pre_ok_lplace; [assumption|assumption|assumption|discriminate].
      + unfold lplace. rewrite app_length in Hfit.
        destruct (Z.leb_spec (Z.of_nat (length (v :: vt))) (maxj - Z.of_nat (length pre) - 1)); [reflexivity|lia].
    - apply sx_rel_emit. rewrite app_nil_r. apply IH; auto; lia. }
  destruct (c =? 34); [apply Hlit|]. destruct (c =? 39); apply Hlit.
Qed.

End SpecProofs.
