(* The C10 theorems about the model of spifconf_shell_expand, assembled from
   ExpandProofs.v (model = list-level loop, for every input) and ExpandSpecProofs.v
   (list-level loop = specification, when nothing reaches the limit). *)
From LV Require Import Base.Buf Strings.HelpersModel Strings.HelpersProofs Strings.HelpersProofs2
  Split.SplitModel Split.SplitProofs
  Expand.ExpandModel Expand.ExpandSpec Expand.ExpandList Expand.ExpandLemmas Expand.WordFacts
  Expand.StoreProofs Expand.ExpandProofs Expand.ExpandSpecProofs.
Local Open Scope Z_scope.

Section Theorems.
Variable genv : list byte -> option (list byte).
Variable progname progver : list byte.
Variable exec_out : list byte -> exec_answer.
Variable dir_list : list byte -> dir_answer.
Hypothesis genv_nz : forall n v, genv n = Some v -> val_ok v.
Hypothesis progname_nz : Forall nz_byte progname.
Hypothesis progver_nz : val_ok progver.
Hypothesis exec_ok : forall c o, exec_out c = ExecOut o -> Forall is_byte o /\ small o.
Hypothesis dir_ok : forall d ns, dir_list d = DirList ns -> Forall (Forall nz_byte) ns.
(* the functions the application registered with spifconf_register_builtin (any number, any names that are
   C strings, in registration order behind the library's own) and what they return (NULL, or a C string
   shorter than 4 GB) *)
Variable extra : list (list byte * Z).
Variable ufn : Z -> option (list byte) -> option (list byte).
Hypothesis extra_nz : Forall (fun e => Forall nz_byte (fst e)) extra.
Hypothesis ufn_ok : forall code a v, (forall o, a = Some o -> arg_ok o) -> ufn code a = Some v -> val_ok v.

Notation xloop := (xloop genv progname progver exec_out dir_list extra ufn).
Notation lloop := (lloop genv progname progver exec_out dir_list extra ufn).
Notation shell_expand := (shell_expand genv progname progver exec_out dir_list extra ufn).
Notation shell_expand_reads := (shell_expand_reads genv progname progver exec_out dir_list extra ufn).

Lemma fresh_newbuff : repeat None CB = bytes [] ++ repeat (@None byte) CB.
Proof. reflexivity. Qed.

(* the reading part of spifconf_shell_expand, for every string held in any object *)
Lemma reads_lloop s rest st :
  Forall nz_byte s -> (length s < CB)%nat -> store_ok st ->
  lrel (shell_expand_reads (S (length s)) (cstr s rest) st) (lloop (S (length s)) s [] false false st).
Proof.
  intros Hs Hcb Hst. unfold ExpandModel.shell_expand_reads. rewrite fresh_newbuff.
  change 0 with (Z.of_nat (@length byte [])).
  apply xloop_lloop; [assumption|assumption|assumption|assumption|assumption|assumption|assumption|lia|assumption|assumption|apply pre_ok_nil|cbn; apply repeat_length|assumption].
Qed.

(* never reads past the terminator of its input, nor any cell that was not written: for every
   NUL-free string shorter than CONFIG_BUFF, whatever lies behind its terminator (nothing at all,
   or cells nobody wrote) *)
Theorem expand_no_overread s rest st :
  Forall nz_byte s -> (length s < CB)%nat -> store_ok st ->
  exists r, shell_expand_reads (S (length s)) (cstr s rest) st = Ok r.
Proof.
  intros Hs Hcb Hst. pose proof (reads_lloop s rest st Hs Hcb Hst) as H.
  pose proof (lloop_ok genv progname progver genv_nz progname_nz progver_nz exec_out dir_list exec_ok dir_ok extra ufn ufn_ok (S (length s)) s [] false false st
                       ltac:(lia) Hs pre_ok_nil Hst) as Hok.
  destruct (lloop (S (length s)) s [] false false st) as [pre st'|st'|e|]; cbn [lrel] in H.
  - destruct H as (tl' & -> & _). eauto.
  - eauto.
  - eauto.
  - destruct Hok.
Qed.

(* when the loop is left, every cell of newbuff below j has been written, and j <= CONFIG_BUFF *)
Theorem expand_cells_written s rest st nb j st' :
  Forall nz_byte s -> (length s < CB)%nat -> store_ok st ->
  shell_expand_reads (S (length s)) (cstr s rest) st = Ok (LDone nb j st') ->
  0 <= j <= config_buff /\ length nb = CB /\
  exists pre, Z.of_nat (length pre) = j /\ firstn (Z.to_nat j) nb = bytes pre.
Proof.
  intros Hs Hcb Hst E. pose proof (reads_lloop s rest st Hs Hcb Hst) as H.
  pose proof (lloop_ok genv progname progver genv_nz progname_nz progver_nz exec_out dir_list exec_ok dir_ok extra ufn ufn_ok (S (length s)) s [] false false st
                       ltac:(lia) Hs pre_ok_nil Hst) as Hok.
  destruct (lloop (S (length s)) s [] false false st) as [pre st1|st1|e|]; cbn [lrel] in H.
  - destruct H as (tl' & E' & Hlen). rewrite E in E'. injection E' as -> -> ->.
    destruct Hok as [(A & B & _) _]. split; [lia|]. split; [exact Hlen|].
    exists pre. split; [reflexivity|]. rewrite Nat2Z.id. apply firstn_app_exact. now rewrite bytes_length.
  - rewrite E in H. discriminate.
  - rewrite E in H. discriminate.
  - destruct Hok.
Qed.

(* the whole function on an object of at least CONFIG_BUFF cells *)
Lemma shell_expand_lloop s rest st :
  Forall nz_byte s -> (length s < CB)%nat -> (CB <= length (cstr s rest))%nat -> store_ok st ->
  shell_expand (S (length s)) (cstr s rest) st =
  Ok (match lloop (S (length s)) s [] false false st with
      | LLDone pre st' =>
        (match lfinish pre with
         | Some o => XBuf (cstr o (skipn (S (length o)) (cstr s rest)))
         | None => XNull
         end, st')
      | LLNull st' => (XNull, st')
      | LLExt e => (XExt e, st)
      | LLFuel => (XNull, st)
      end).
Proof.
  intros Hs Hcb Hobj Hst. pose proof (reads_lloop s rest st Hs Hcb Hst) as H.
  pose proof (lloop_ok genv progname progver genv_nz progname_nz progver_nz exec_out dir_list exec_ok dir_ok extra ufn ufn_ok (S (length s)) s [] false false st
                       ltac:(lia) Hs pre_ok_nil Hst) as Hok.
  unfold ExpandModel.shell_expand. unfold ExpandModel.shell_expand_reads in H.
  destruct (lloop (S (length s)) s [] false false st) as [pre st'|st'|e|]; cbn [lrel] in H.
  - destruct H as (tl' & -> & Hlen). cbn [bind]. destruct Hok as [(A & B & C) _].
    rewrite finish_list; [|exact Hlen|exact A|exact B|].
    + cbn [bind]. destruct (lfinish pre); reflexivity.
    + intros Hlt. pose proof (cut0_len pre). pose proof CB_eq. lia.
  - rewrite H. reflexivity.
  - rewrite H. reflexivity.
  - destruct Hok.
Qed.

(* total, initialised, terminated, bounded: for EVERY input (whether or not the expansion fits)
   the function returns without a fault; if it returns a string, that string is NUL-terminated
   inside the object, NUL-free before the terminator and shorter than CONFIG_BUFF; the store it
   leaves is well-formed and sorted *)
Theorem expand_initialised s rest st :
  Forall nz_byte s -> (length s < CB)%nat -> (CB <= length (cstr s rest))%nat -> store_ok st ->
  exists x st', shell_expand (S (length s)) (cstr s rest) st = Ok (x, st') /\
    store_ok st' /\
    match x with
    | XBuf s' => exists o junk, s' = cstr o junk /\ Forall nz_byte o /\ Z.of_nat (length o) < config_buff /\
                                length s' = length (cstr s rest)
    | _ => True
    end.
Proof.
  intros Hs Hcb Hobj Hst. rewrite (shell_expand_lloop s rest st Hs Hcb Hobj Hst).
  pose proof (lloop_ok genv progname progver genv_nz progname_nz progver_nz exec_out dir_list exec_ok dir_ok extra ufn ufn_ok (S (length s)) s [] false false st
                       ltac:(lia) Hs pre_ok_nil Hst) as Hok.
  destruct (lloop (S (length s)) s [] false false st) as [pre st'|st'|e|].
  - destruct Hok as [Hpre Hst']. eexists _, st'. split; [reflexivity|]. split; [exact Hst'|].
    destruct (lfinish pre) as [o|] eqn:Ef; [|exact I].
    destruct (lfinish_ok pre o Hpre Ef) as [Ho _].
    assert (Hol : Z.of_nat (length o) < config_buff).
    { unfold lfinish in Ef. destruct (Z.ltb_spec (Z.of_nat (length pre)) config_buff); [|discriminate].
      injection Ef as <-. pose proof (cut0_len pre). lia. }
    exists o, (skipn (S (length o)) (cstr s rest)). repeat split; auto.
    rewrite !cstr_length, skipn_length, cstr_length. pose proof CB_eq. rewrite cstr_length in Hobj. lia.
  - eexists _, st'. split; [reflexivity|]. split; [exact Hok|exact I].
  - eexists _, st. split; [reflexivity|]. split; [exact Hst|exact I].
  - destruct Hok.
Qed.

(* model = specification: whenever the expanded text and the expansion of every nested call
   argument stay below max - 1 characters *)
Theorem expand_spec_holds s rest st :
  Forall nz_byte s -> (length s < CB)%nat -> (CB <= length (cstr s rest))%nat -> store_ok st ->
  match expand_spec genv progname progver exec_out dir_list extra ufn s st with
  | SOut o st' pk =>
    Z.of_nat (length o) < maxj -> Z.of_nat pk < maxj ->
    shell_expand (S (length s)) (cstr s rest) st =
    Ok (XBuf (cstr o (skipn (S (length o)) (cstr s rest))), st')
  | SStop StNull st' m pk =>
    Z.of_nat m < maxj -> Z.of_nat pk < maxj ->
    shell_expand (S (length s)) (cstr s rest) st = Ok (XNull, st')
  | SStop (StExt e) _ m pk =>
    Z.of_nat m < maxj -> Z.of_nat pk < maxj ->
    shell_expand (S (length s)) (cstr s rest) st = Ok (XExt e, st)
  | SFuel => False
  end.
Proof.
  intros Hs Hcb Hobj Hst. unfold expand_spec.
  pose proof (lloop_sx genv progname progver genv_nz progname_nz progver_nz exec_out dir_list exec_ok dir_ok extra ufn ufn_ok (S (length s)) s [] false false st
                       ltac:(lia) Hs pre_ok_nil Hst) as H.
  pose proof (sx_no_fuel genv progname progver exec_out dir_list extra ufn (S (length s)) s false false st ltac:(lia)) as Hnf.
  pose proof (lloop_ok genv progname progver genv_nz progname_nz progver_nz exec_out dir_list exec_ok dir_ok extra ufn ufn_ok (S (length s)) s [] false false st
                       ltac:(lia) Hs pre_ok_nil Hst) as Hok.
  rewrite (shell_expand_lloop s rest st Hs Hcb Hobj Hst).
  destruct (sx genv progname progver exec_out dir_list extra ufn (S (length s)) s false false st) as [o st' pk|[|e] st' m pk|];
    cbn [sx_rel app length Nat.add] in H; [| | |congruence].
  - intros H1 H2. rewrite (H H1 H2) in *. cbn [llres_ok] in Hok. destruct Hok as [(A & B & C) _].
    assert (Ef : lfinish o = Some o).
    { unfold lfinish. pose proof maxj_eq.
      destruct (Z.ltb_spec (Z.of_nat (length o)) config_buff); [|lia]. rewrite cut0_nz_id; auto. }
    rewrite Ef. reflexivity.
  - intros H1 H2. rewrite (H H1 H2). reflexivity.
  - intros H1 H2. rewrite (H H1 H2). reflexivity.
Qed.

End Theorems.

(* ---------- %dirscan on its own: no hypotheses about anything but the names ---------- *)
Theorem dirscan_in_bounds : forall names, Forall (Forall nz_byte) names ->
  exists rest', dirscan_loop names (Some 0 :: repeat None (CB - 1)) config_buff =
                  Ok (cstr (dir_join names [] config_buff) rest') /\
                length (cstr (dir_join names [] config_buff) rest') = CB /\
                Forall nz_byte (dir_join names [] config_buff) /\
                Z.of_nat (length (dir_join names [] config_buff)) < config_buff.
Proof.
  intros names Hn. pose proof cb_bounds as Hcb. pose proof CB_eq as HCB.
  change (Some 0 :: repeat None (CB - 1)) with (cstr [] (repeat (@None byte) (CB - 1))).
  destruct (dirscan_loop_exact names Hn [] (repeat None (CB - 1)) config_buff
              ltac:(constructor) ltac:(simpl; lia) ltac:(lia)) as (rest' & E & L).
  { rewrite cstr_length, repeat_length. simpl. lia. }
  exists rest'. split; [exact E|]. split; [exact L|].
  destruct (dir_join_inv names Hn [] config_buff ltac:(constructor) ltac:(simpl; lia) ltac:(lia)) as (n' & A & B & C).
  split; [exact A|lia].
Qed.

Theorem dirscan_lists_names : forall names,
  (exists sel, subseq sel names /\ dir_join names [] config_buff = blanked sel) /\
  (Z.of_nat (length (blanked names)) < config_buff -> dir_join names [] config_buff = blanked names).
Proof.
  intros names. split.
  - destruct (dir_join_subseq names [] config_buff) as (sel & Hs & E). exists sel. split; [exact Hs|exact E].
  - intros H. now rewrite dir_join_all.
Qed.

(* the worlds the correspondence check builds meet the hypotheses of the theorems *)
Lemma exec_world_ok tmp_ok outfile_len out :
  (forall o, out = Some o -> Forall is_byte o /\ small o) ->
  forall c o, exec_world tmp_ok outfile_len out c = ExecOut o -> Forall is_byte o /\ small o.
Proof.
  intros H c o. unfold exec_world. destruct out as [content|]; [|discriminate].
  destruct (negb tmp_ok); [discriminate|]. destruct (_ <? _); [discriminate|].
  intros E. injection E as <-. now apply H.
Qed.
Lemma dir_world_ok dirs : Forall (fun e => Forall (Forall nz_byte) (snd e)) dirs ->
  forall d ns, dir_world dirs d = DirList ns -> Forall (Forall nz_byte) ns.
Proof.
  induction dirs as [|[k names] t IH]; intros H d ns; cbn [dir_world]; [discriminate|].
  inversion H as [|? ? Hk Ht]; subst. cbn [snd] in Hk.
  destruct (strcmp k d); try (now apply IH). intros E. injection E as <-. exact Hk.
Qed.
