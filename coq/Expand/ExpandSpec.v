(* Specification of config value expansion (property C10): the expansion rules as a recursive
   function on byte lists - no buffers, no indices, no length limit.

     \x            the control character for n r t b f a v e (either case), else x itself;
                   inside single quotes only \' is an escape, any other \x stays as it is;
                   a backslash that ends the text stays
     ~             outside both kinds of quotes: the value of HOME (if set and not empty)
     $NAME ${NAME} $(NAME)   outside single quotes: the value from the environment, nothing if
                   unset; the text before and after is kept
     %name(args)   name is the first entry of the function table - the library's built-ins, then
                   the functions the application registered, in that order - that the text
                   calls; the args are expanded first (innermost call first), then the function is
                   applied to the result; its text replaces the call.  % followed by anything
                   else stands for that character; a % that ends the text stays
     quotes        are copied; they only switch the rules above
     `..`          outside single quotes: runs a command (outside this specification)
     %exec(cmd)    what the command printed (an answer of the outside world), up to its first
                   NUL byte, runs of white space condensed to one blank, no blank at the end;
                   nothing if the command printed nothing or could not be run
     %dirscan(d)   exactly one word: the names of the regular files of directory d (an answer
                   of the outside world, in the order readdir reports them), each followed by
                   a blank, as long as name, blank and terminator fit the line buffer

   Definitions only; the theorems are in ExpandSpecProofs.v. *)
From LV Require Export Expand.ExpandModel.
Local Open Scope Z_scope.

(* ---------- recognising the constructs ---------- *)
(* name is a prefix of s, letters compared without regard to case *)
Fixpoint ci_prefix (name s : list byte) : bool :=
  match name, s with
  | [], _ => true
  | n :: name', c :: s' => (tolower c =? tolower n) && ci_prefix name' s'
  | _ :: _, [] => false
  end.

(* "name(" or "name )" *)
Definition is_call (name s : list byte) : bool :=
  ci_prefix name s &&
  match skipn (length name) s with
  | c :: r => (c =? 40) || ((c =? 32) && match r with d :: _ => d =? 41 | [] => false end)
  | [] => false
  end.

(* the first built-in of the table that s calls: its code and the length of its name *)
Fixpoint find_call (tbl : list (list byte * Z)) (s : list byte) : option (Z * nat) :=
  match tbl with
  | [] => None
  | (n, code) :: t => if is_call n s then Some (code, length n) else find_call t s
  end.

(* the text behind "name(" (or behind "name )") *)
Definition after_open (nlen : nat) (s : list byte) : list byte :=
  match skipn nlen s with
  | c :: r => if c =? 40 then r else tl r
  | [] => []
  end.

(* l parentheses are open; split s behind the one that closes the last of them.
   Result: the text up to and including that parenthesis, the text behind it, and how many
   parentheses are still open (0 unless s ended first) *)
Fixpoint split_args (s : list byte) (l : Z) {struct s} : list byte * list byte * Z :=
  if l =? 0 then ([], s, l)
  else
    match s with
    | [] => ([], [], l)
    | c :: s' =>
      let l' := if c =? 40 then l + 1 else if c =? 41 then l - 1 else l in
      let '(a, r, lf) := split_args s' l' in
      (c :: a, r, lf)
    end.

(* a braced name: up to the closer (or the end, or 127 characters); (name, text from the stop on) *)
Fixpoint ref_scan (cl : byte) (s : list byte) (k : nat) {struct s} : list byte * list byte :=
  match s with
  | [] => ([], [])
  | c :: s' =>
    if (c =? cl) || negb (k <? envvar_max)%nat then ([], s)
    else let '(n, r) := ref_scan cl s' (S k) in (c :: n, r)
  end.

(* a bare name: letters, digits and _ (at most 127) *)
Fixpoint bare_scan (s : list byte) (k : nat) {struct s} : list byte * list byte :=
  match s with
  | [] => ([], [])
  | c :: s' =>
    if (isalnum c || (c =? 95)) && (k <? envvar_max)%nat
    then let '(n, r) := bare_scan s' (S k) in (c :: n, r)
    else ([], s)
  end.

(* step over the closer if the scan stopped on it *)
Definition skip_closer (cl : byte) (r : list byte) : list byte :=
  match r with
  | d :: r' => if d =? cl then r' else r
  | [] => r
  end.

(* t is the text behind a '$': the variable name and the text behind the reference *)
Definition env_ref (t : list byte) : list byte * list byte :=
  match t with
  | c :: t' =>
    if c =? 123 then let '(n, r) := ref_scan 125 t' 0 in (n, skip_closer 125 r)
    else if c =? 40 then let '(n, r) := ref_scan 41 t' 0 in (n, skip_closer 41 r)
    else bare_scan t 0
  | [] => ([], [])
  end.

(* ---------- the built-ins on byte lists ---------- *)
(* the text before the first NUL *)
Fixpoint cut0 (l : list byte) : list byte :=
  match l with
  | [] => []
  | c :: t => if c =? 0 then [] else c :: cut0 t
  end.

(* %dirscan: acc is the list so far, n the room left in the CONFIG_BUFF block (terminator included):
   a name is appended with its blank when name, blank and terminator fit; the scan ends when less
   than two bytes are left *)
Fixpoint dir_join (names : list (list byte)) (acc : list byte) (n : Z) {struct names} : list byte :=
  match names with
  | [] => acc
  | nm :: t =>
    let len := Z.of_nat (length nm) in
    if len + 1 <? n then
      (if n - (len + 1) <? 2 then acc ++ nm ++ [32] else dir_join t (acc ++ nm ++ [32]) (n - (len + 1)))
    else if n <? 2 then acc else dir_join t acc n
  end.

Section Spec.
Variable genv : list byte -> option (list byte).
Variable progname progver : list byte.
Variable exec_out : list byte -> exec_answer.
Variable dir_list : list byte -> dir_answer.
(* the functions the application registered (name, code), and what they answer *)
Variable extra : list (list byte * Z).
Variable ufn : Z -> option (list byte) -> option (list byte).

(* %exec(command) *)
Definition s_exec (a : option (list byte)) : bres :=
  match a with
  | None => BNull
  | Some cmd =>
    match exec_out cmd with
    | ExecNotFollowed => BExt Spawn
    | ExecRefused => BNull
    | ExecOut [] => BNull
    | ExecOut content => BStr (condense_spec (cut0 content))
    end
  end.

(* %dirscan(directory) *)
Definition s_dirscan (a : option (list byte)) : bres :=
  match a with
  | None => BNull
  | Some a =>
    match words a with
    | [d] =>
      match dir_list d with
      | DirNotFollowed => BExt Dirscan
      | DirFail => BNull
      | DirList names => BStr (dir_join names [] config_buff)
      end
    | _ => BNull
    end
  end.

(* %get(name [default]): more than two words is an error (nothing); the value of the first
   word, else the second word, else nothing.  (An argument of blanks only looks up the empty name.) *)
Definition s_get (a : option (list byte)) (st : store) : bres :=
  match a with
  | None => BNull
  | Some a =>
    let ws := words a in
    if (2 <? length ws)%nat then BNull
    else
      let key := match ws with
                 | w :: _ => Some w
                 | [] => match a with [] => None | _ => Some [] end
                 end in
      match (match key with Some k => get_var st k | None => None end) with
      | Some v => BStr v
      | None => match ws with [_; d] => BStr d | _ => BNull end
      end
  end.

(* %put(name value): exactly two words, else nothing happens; never yields text *)
Definition s_put (a : option (list byte)) (st : store) : store :=
  match a with
  | Some a => match words a with [k; v] => put_var st k (Some v) | _ => st end
  | None => st
  end.

Definition s_builtin (code : Z) (a : option (list byte)) (st : store) : bres * store :=
  if code =? 0 then (BStr (appname_text progname progver), st)
  else if code =? 1 then (BStr progver, st)
  else if code =? 4 then (s_get a st, st)
  else if code =? 5 then (BNull, s_put a st)
  else if code =? 2 then (s_exec a, st)
  else if code =? 3 then
    match a with
    | None => (BNull, st)
    | Some _ => (BExt Random, st)
    end
  else if code =? 6 then (s_dirscan a, st)
  else (bres_of (ufn code a), st).

(* ---------- the expansion ---------- *)
Inductive stop : Type := StNull | StExt (e : ext).

(* SOut: the expanded text, the store afterwards, and the length of the longest text any
   nested call argument expanded to (so that "everything fits the line buffer" can be said);
   SStop: expansion gives up (NULL: mismatched parentheses; or an outside event) after
   `emitted` characters; SFuel: n was too small (n > length of the text is enough) *)
Inductive sres : Type :=
| SOut (out : list byte) (st : store) (peak : nat)
| SStop (why : stop) (st : store) (emitted peak : nat)
| SFuel.

Definition emit (frag : list byte) (r : sres) : sres :=
  match r with
  | SOut o st pk => SOut (frag ++ o) st pk
  | SStop w st n pk => SStop w st (length frag + n) pk
  | SFuel => SFuel
  end.

Definition with_peak (m : nat) (r : sres) : sres :=
  match r with
  | SOut o st pk => SOut o st (Nat.max m pk)
  | SStop w st n pk => SStop w st n (Nat.max m pk)
  | SFuel => SFuel
  end.

Fixpoint sx (n : nat) (s : list byte) (q1 q2 : bool) (st : store) {struct n} : sres :=
  match n with
  | O => SFuel
  | S n' =>
    match s with
    | [] => SOut [] st 0
    | c :: t =>
      if c =? 126 then                                           (* ~ *)
        match (if q1 || q2 then None else genv HOME) with
        | Some (h :: ht) => emit (h :: ht) (sx n' t q1 q2 st)
        | _ => emit [c] (sx n' t q1 q2 st)
        end
      else if c =? 92 then                                       (* backslash *)
        match t with
        | [] => SOut [c] st 0
        | d :: t' =>
          if negb q1 || (d =? 39) then emit [esc d] (sx n' t' q1 q2 st)
          else emit [c; d] (sx n' t' q1 q2 st)
        end
      else if c =? 37 then                                       (* % *)
        match find_call (full_table extra) t with
        | None =>
          match t with
          | [] => SOut [c] st 0
          | d :: t' => emit [d] (sx n' t' q1 q2 st)
          end
        | Some (code, nlen) =>
          let '(a, rest, l) := split_args (after_open nlen t) 1 in
          if negb (l =? 0) then SStop StNull st 0 0
          else
            match sx n' (removelast a) false false st with
            | SFuel => SFuel
            | SStop (StExt e) st1 m pk => SStop (StExt e) st1 0 (Nat.max m pk)
            | inner =>
              let '(param, st1, pk1) :=
                  match inner with
                  | SOut o st1 pk => (Some o, st1, Nat.max (length o) pk)
                  | SStop _ st1 m pk => (None, st1, Nat.max m pk)
                  | SFuel => (None, st, 0%nat)
                  end in
              let '(out, st2) := s_builtin code param st1 in
              match out with
              | BExt e => SStop (StExt e) st2 0 pk1
              | BStr v => with_peak pk1 (emit v (sx n' rest q1 q2 st2))
              | BNull => with_peak pk1 (sx n' rest q1 q2 st2)
              end
            end
        end
      else if c =? 96 then                                       (* backquote *)
        if q1 then emit [c] (sx n' t q1 q2 st) else SStop (StExt Spawn) st 0 0
      else if c =? 36 then                                       (* $ *)
        if q1 then emit [c] (sx n' t q1 q2 st)
        else
          let '(name, rest) := env_ref t in
          emit (match genv name with Some v => v | None => [] end) (sx n' rest q1 q2 st)
      else if c =? 34 then emit [c] (sx n' t q1 (if q1 then q2 else negb q2) st)
      else if c =? 39 then emit [c] (sx n' t (negb q1) q2 st)
      else emit [c] (sx n' t q1 q2 st)
    end
  end.

(* the expansion of a whole value: both quote flags off, n = length + 1 *)
Definition expand_spec (s : list byte) (st : store) : sres :=
  sx (S (length s)) s false false st.

End Spec.
