(* Executable model of spifconf_shell_expand (src/conf.c), of the variable store
   (spifconf_get_var / spifconf_put_var), of the built-ins %get %put %version %appname %exec %dirscan
   and of calls to functions the application registered (property C10).  The model follows the code AFTER the C10 repairs (see the `fix:` commits):

     - $NAME / ${NAME} / $(NAME): the value is copied to newbuff + j (was: newbuff); an unset or
       empty variable takes j back by one (was: one cell skipped, never written); the scans of
       the braced forms stop at the terminator (was: ran on past it) and step over the closing
       brace / parenthesis (was: the closer was copied to the output);
     - a backslash or a % that is the last character of the input is copied as it stands
       (was: the terminator was stepped over);
     - %name( whose argument text is never closed returns NULL before Command[-1] is written;
     - (not visible in the model: an unterminated backquote no longer steps over the terminator -
       the model stops with an event at the backquote; EnvVar, the unused name copy of a repeated
       %put and the Command block of a failed nested expansion are released - the model does not
       track allocation, the harness counts blocks).

   The outside world.  %exec(..) and %dirscan(..) ask the world outside the process: what the
   command prints into the temporary file, and which regular files the directory holds, in the
   order readdir reports them.  Both answers are parameters of the model (`exec_out`,
   `dir_list`), like getenv; an answer "not followed" makes the model stop with an event as it
   does for %random and for backquotes.  What the code does with the answer is modelled: the
   bounded accumulation loop of builtin_dirscan over its CONFIG_BUFF block (after the repair:
   a name is taken only if name, blank and terminator fit), the fread / terminator /
   spiftool_condense_whitespace of builtin_exec.  The temporary-file handling and the assembly
   of the shell command inside builtin_exec are not modelled (an "exec refused" answer covers
   the two exits before system()).

   Conventions.  `pbuff` is the list of cells from the cursor to the end of the object that
   holds the input, so `*pbuff` is `rdn p 0`, `pbuff++` is `tl p`, and any read beyond the
   object (or of a cell that was never written: the slack behind the terminator, the fresh
   newbuff, the fresh Command block) is a Fault.  The statements `pbuff--; break;` that end the
   $ and % cases are folded into the loop increment: the case hands back the cursor at which
   the next iteration starts.  j is a 32-bit unsigned (u32 after every arithmetic step).
   No proofs in this file. *)
From LV Require Export Base.Buf Gen.Constants Gen.ExpandGen Strings.HelpersModel Split.SplitModel.
Local Open Scope Z_scope.

(* ---------------------------------------------------------------------------------- *)
(* strcmp on NUL-free byte strings (unsigned char order), as used by the store         *)
(* ---------------------------------------------------------------------------------- *)
Fixpoint strcmp (a b : list byte) : comparison :=
  match a, b with
  | [], [] => Eq
  | [], _ :: _ => Lt
  | _ :: _, [] => Gt
  | x :: a', y :: b' => match x ?= y with Eq => strcmp a' b' | c => c end
  end.

(* ---------------------------------------------------------------------------------- *)
(* the variable store: conf.c keeps a singly linked list ordered by name                *)
(* ---------------------------------------------------------------------------------- *)
Definition store := list (list byte * list byte).

(* spifconf_get_var: for (v = spifconf_vars; v; v = v->next) if (!strcmp(v->var, var)) return v->value; *)
Fixpoint get_var (st : store) (var : list byte) : option (list byte) :=
  match st with
  | [] => None
  | (k, x) :: t => match strcmp k var with Eq => Some x | _ => get_var t var end
  end.

(* spifconf_put_var(var, val); val = None is the NULL that deletes.
   for (v = vars; v; loc = v, v = v->next) { n = strcmp(var, v->var);
     if (n == 0) { replace value, or unlink; return; } else if (n < 0) break; }
   if (!val) return;  insert between loc and v *)
Fixpoint put_var (st : store) (var : list byte) (val : option (list byte)) : store :=
  match st with
  | [] => match val with Some v => [(var, v)] | None => [] end
  | (k, x) :: t =>
    match strcmp var k with
    | Eq => match val with Some v => (k, v) :: t | None => t end
    | Lt => match val with Some v => (var, v) :: st | None => st end
    | Gt => (k, x) :: put_var t var val
    end
  end.

(* ---------------------------------------------------------------------------------- *)
(* results                                                                              *)
(* ---------------------------------------------------------------------------------- *)
(* events the model does not follow: the expansion asks the outside world *)
Inductive ext : Set :=
| Spawn      (* %exec(..) or `..`: system() *)
| Random     (* %random(..): rand() seeded from pid and time *)
| Dirscan.   (* %dirscan(..): opendir/readdir/stat *)

(* the answers of the outside world *)
Inductive dir_answer : Type :=
| DirNotFollowed                          (* the model stops with the event Dirscan *)
| DirFail                                 (* opendir() returns NULL *)
| DirList (names : list (list byte)).     (* the names of the regular files, in readdir order *)
Inductive exec_answer : Type :=
| ExecNotFollowed                         (* the model stops with the event Spawn *)
| ExecRefused                             (* no temporary file, or the command line is too long: NULL *)
| ExecOut (content : list byte).          (* what the command wrote into the temporary file *)

(* what a built-in hands back: NULL, a malloc'ed string, or an outside event *)
Inductive bres : Type := BNull | BStr (s : list byte) | BExt (e : ext).

(* how the main loop of spifconf_shell_expand ends *)
Inductive lres : Type :=
| LDone (nb : buf) (j : Z) (st : store)   (* loop left normally: newbuff, j *)
| LNull (st : store)                      (* return NULL from inside the loop (mismatched parentheses) *)
| LExt (e : ext).

(* what spifconf_shell_expand returns: NULL (s untouched), or s with the new text in it *)
Inductive xres : Type := XNull | XBuf (s : buf) | XExt (e : ext).

(* ---------------------------------------------------------------------------------- *)
(* constants                                                                            *)
(* ---------------------------------------------------------------------------------- *)
Definition CB : nat := Z.to_nat config_buff.          (* spif_char_t newbuff[CONFIG_BUFF] *)
Definition maxj : Z := config_buff - 1.                (* const spif_uint32_t max = CONFIG_BUFF - 1 *)
Definition HOME : list byte := [72; 79; 77; 69].

(* ---------------------------------------------------------------------------------- *)
(* buffer primitives in single-pass form (same results as Base.Buf.wrn / wr and as       *)
(* HelpersModel.safe_strncpy_at, proved in ExpandProofs.v; these run in time O(index)     *)
(* instead of O(length of the object) so that the extracted model can be run near the    *)
(* 20 kB limit)                                                                          *)
(* ---------------------------------------------------------------------------------- *)
Fixpoint wrf (b : buf) (i : nat) (v : byte) {struct b} : res buf :=
  match b with
  | [] => Fault OOB_write
  | x :: t => match i with
              | O => Ok (Some v :: t)
              | S i' => (t' <- wrf t i' v ;; Ok (x :: t'))
              end
  end.
Definition wrz (b : buf) (i : Z) (v : byte) : res buf :=
  if i <? 0 then Fault OOB_write else wrf b (Z.to_nat i) v.

(* spiftool_safe_strncpy's loop with the destination cursor as the list of cells from
   pbuff on and room = max_pbuff - pbuff:
     for (; (c = *s) && (pbuff < max_pbuff); s++, pbuff++) *pbuff = c;   *pbuff = 0; *)
Fixpoint cp_run (src dst : buf) (room : nat) {struct src} : res (bool * buf) :=
  match src with
  | [] => Fault OOB_read
  | None :: _ => Fault Uninit_read
  | Some c :: src' =>
    match dst with
    | [] => Fault OOB_write
    | _ :: dst' =>
      if (c =? 0) || (room =? 0)%nat then Ok (c =? 0, Some 0 :: dst')
      else ('(b, d) <- cp_run src' dst' (room - 1) ;; Ok (b, Some c :: d))
    end
  end.
(* spiftool_safe_strncpy(dest + off, src, size) *)
Definition strncpy_off (dest : buf) (off : nat) (src : buf) (size : Z) : res (bool * buf) :=
  if size <=? 0 then Ok (false, dest)
  else ('(b, d) <- cp_run src (skipn off dest) (Z.to_nat (size - 1)) ;; Ok (b, firstn off dest ++ d)).

(* ---------------------------------------------------------------------------------- *)
(* pieces of the loop body                                                              *)
(* ---------------------------------------------------------------------------------- *)
(* spiftool_safe_strncpy(newbuff + j, v, max - j); cnt1 = strlen(v) - 1; cnt2 = max - j - 1;
   j += MIN(cnt1, cnt2);      -- v is not empty here (the callers test *v) *)
Definition place (nb : buf) (j : Z) (v : list byte) : res (buf * Z) :=
  '(_, nb') <- strncpy_off nb (Z.to_nat j) (cstr v []) (maxj - j) ;;
  let cnt1 := u32 (Z.of_nat (length v) - 1) in
  let cnt2 := u32 (maxj - j - 1) in
  Ok (nb', u32 (j + Z.min cnt1 cnt2)).

(* switch (tolower( *(++pbuff))) { case 'n': '\n' ... default: the character itself } *)
Definition esc (c : byte) : byte :=
  let l := tolower c in
  if l =? 110 then 10 else if l =? 114 then 13 else if l =? 116 then 9 else if l =? 98 then 8
  else if l =? 102 then 12 else if l =? 97 then 7 else if l =? 118 then 11 else if l =? 101 then 27
  else c.

(* !strncasecmp(name, pbuff, strlen(name)): compares until the first difference *)
Fixpoint ncase_match (name : list byte) (p : buf) : res bool :=
  match name with
  | [] => Ok true
  | n :: name' =>
    c <- rdn p 0 ;;
    if tolower c =? tolower n then ncase_match name' (tl p) else Ok false
  end.

(* ... && ((pbuff[l] == '(') || (pbuff[l] == ' ' && pbuff[l + 1] == ')')) *)
Definition call_form (name : list byte) (p : buf) : res bool :=
  m <- ncase_match name p ;;
  if m then
    let q := skipn (length name) p in
    c <- rdn q 0 ;;
    if c =? 40 then Ok true
    else if c =? 32 then (c1 <- rdn q 1 ;; Ok (c1 =? 41))
    else Ok false
  else Ok false.

(* for (k = 0, pbuff++; builtins[k].name; k++) { l = strlen(name); if (match) break; }
   result: (kind code, l) of the first entry that matches *)
Fixpoint find_builtin (tbl : list (list byte * Z)) (p : buf) : res (option (Z * nat)) :=
  match tbl with
  | [] => Ok None
  | (n, code) :: t =>
    b <- call_form n p ;;
    if b then Ok (Some (code, length n)) else find_builtin t p
  end.

(* for (tmp1 = Command, pbuff++, l = 1; l && *pbuff; pbuff++, tmp1++)
     switch ( *pbuff) { case '(': l++; *tmp1 = *pbuff; break; case ')': l--; default: *tmp1 = *pbuff; }
   p: cursor, cmd: the Command block, t: offset of tmp1 in it *)
Fixpoint scan_args (p : buf) (cmd : buf) (t : nat) (l : Z) {struct p} : res (buf * buf * nat * Z) :=
  if l =? 0 then Ok (p, cmd, t, l)
  else
    match p with
    | [] => Fault OOB_read
    | None :: _ => Fault Uninit_read
    | Some c :: p' =>
      if c =? 0 then Ok (p, cmd, t, l)
      else
        let l' := if c =? 40 then u32 (l + 1) else if c =? 41 then u32 (l - 1) else l in
        cmd' <- wrf cmd t c ;;
        scan_args p' cmd' (S t) l'
    end.

(* ${..} and $(..):  for (pbuff++, k = 0; *pbuff && *pbuff != close && k < 127; k++, pbuff++) EnvVar[k] = *pbuff;
   ev: the EnvVar block; acc: the characters stored so far, in order *)
Fixpoint scan_ref (cl : byte) (p : buf) (k : nat) (ev : buf) (acc : list byte) {struct p}
  : res (buf * nat * buf * list byte) :=
  match p with
  | [] => Fault OOB_read
  | None :: _ => Fault Uninit_read
  | Some c :: p' =>
    if (c =? 0) || (c =? cl) || negb (k <? envvar_max)%nat then Ok (p, k, ev, acc)
    else (ev' <- wrn ev k c ;; scan_ref cl p' (S k) ev' (acc ++ [c]))
  end.

(* $NAME:  for (k = 0; (isalnum( *pbuff) || *pbuff == '_') && k < 127; k++, pbuff++) EnvVar[k] = *pbuff; *)
Fixpoint scan_bare (p : buf) (k : nat) (ev : buf) (acc : list byte) {struct p}
  : res (buf * nat * buf * list byte) :=
  match p with
  | [] => Fault OOB_read
  | None :: _ => Fault Uninit_read
  | Some c :: p' =>
    if (isalnum c || (c =? 95)) && (k <? envvar_max)%nat
    then (ev' <- wrn ev k c ;; scan_bare p' (S k) ev' (acc ++ [c]))
    else Ok (p, k, ev, acc)
  end.

(* the whole `switch ( *(++pbuff))` of the $ case, p at the '$'; result: cursor for the next
   iteration and the name that went into EnvVar *)
Definition scan_env (p : buf) : res (buf * list byte) :=
  let ev0 := repeat None envvar_size in                      (* EnvVar = MALLOC(128) *)
  c1 <- rdn p 1 ;;
  '(p', k, ev, name) <-
     (if c1 =? 123 then
        '(q, k, ev, nm) <- scan_ref 125 (tl (tl p)) 0 ev0 [] ;;
        c <- rdn q 0 ;; Ok (if c =? 125 then tl q else q, k, ev, nm)
      else if c1 =? 40 then
        '(q, k, ev, nm) <- scan_ref 41 (tl (tl p)) 0 ev0 [] ;;
        c <- rdn q 0 ;; Ok (if c =? 41 then tl q else q, k, ev, nm)
      else scan_bare (tl p) 0 ev0 []) ;;
  _ <- wrn ev k 0 ;;                                          (* EnvVar[k] = 0 *)
  Ok (p', name).

(* strcpy(s, newbuff): while (( *d++ = *s++)); with d the list of cells from the cursor on *)
Fixpoint strcpy_run (dst src : buf) {struct src} : res buf :=
  match src with
  | [] => Fault OOB_read
  | None :: _ => Fault Uninit_read
  | Some c :: t =>
    match dst with
    | [] => Fault OOB_write
    | _ :: d' => if c =? 0 then Ok (Some 0 :: d') else (r <- strcpy_run d' t ;; Ok (Some c :: r))
    end
  end.

(* ASSERT_RVAL(j < CONFIG_BUFF, NULL); newbuff[j] = 0; strcpy(s, newbuff); return s; *)
Definition finish (s nb : buf) (j : Z) : res (option buf) :=
  if negb (j <? config_buff) then Ok None
  else (nb' <- wrz nb j 0 ;; s' <- strcpy_run s nb' ;; Ok (Some s')).

(* strcat(dst, src): walk to the terminator of dst, copy src and its terminator from there *)
Definition strcat_b (dst : buf) (src : list byte) : res buf :=
  k <- strlen dst ;;
  d <- strcpy_run (skipn k dst) (cstr src []) ;;
  Ok (firstn k dst ++ d).

(* builtin_dirscan, the loop over the directory entries that are regular files (for the others
   n does not change, so the test `if (n < 2) break;` has nothing new to see):
     len = strlen(dp->d_name);
     if (len + 1 < n) { strcat(buff, dp->d_name); strcat(buff, " "); n -= len + 1; }
     if (n < 2) break;
   len and n are unsigned long; n never goes below 1, nothing wraps *)
Fixpoint dirscan_loop (names : list (list byte)) (b : buf) (n : Z) {struct names} : res buf :=
  match names with
  | [] => Ok b
  | nm :: t =>
    let len := Z.of_nat (length nm) in
    '(b', n') <- (if len + 1 <? n
                  then (b1 <- strcat_b b nm ;; b2 <- strcat_b b1 [32] ;; Ok (b2, n - (len + 1)))
                  else Ok (b, n)) ;;
    if n' <? 2 then Ok b' else dirscan_loop t b' n'
  end.

(* ---------------------------------------------------------------------------------- *)
(* built-ins                                                                            *)
(* ---------------------------------------------------------------------------------- *)
Section Expand.
(* getenv as a function of the name; libast_program_name / libast_program_version *)
Variable genv : list byte -> option (list byte).
Variable progname progver : list byte.
(* the outside world: the output of a command, the regular files of a directory *)
Variable exec_out : list byte -> exec_answer.
Variable dir_list : list byte -> dir_answer.
(* the functions the application registered with spifconf_register_builtin, in registration order:
   name and code; they sit in builtins[] behind the entries spifconf_init_subsystem made (Gen/ExpandGen.v:
   builtin_table), up to the first entry whose name is NULL.  What an application function returns is its own
   business: a parameter like getenv - from the code and the argument (NULL, or the text of the expanded
   argument) to NULL or a string *)
Variable extra : list (list byte * Z).
Variable ufn : Z -> option (list byte) -> option (list byte).

(* builtins[0 .. builtin_idx): the scan `for (k = 0; builtins[k].name; k++)` walks exactly these entries *)
Definition full_table : list (list byte * Z) := builtin_table ++ extra.

Definition bres_of (o : option (list byte)) : bres :=
  match o with Some v => BStr v | None => BNull end.

(* an application function: it reads its argument (a C string) and answers *)
Definition builtin_user (code : Z) (param : option buf) : res bres :=
  match param with
  | None => Ok (bres_of (ufn code None))
  | Some pb => _ <- strlen pb ;; Ok (bres_of (ufn code (Some (take_str pb))))
  end.

(* builtin_get: param NULL or more than two words -> NULL; value of word 1, else word 2, else NULL *)
Definition builtin_get (param : option buf) (st : store) : res bres :=
  match param with
  | None => Ok BNull
  | Some pb =>
    n <- num_words pb ;;
    let n := n mod 65536 in                                  (* unsigned short n *)
    if n >? 2 then Ok BNull
    else
      s <- get_word 1 pb ;;
      f <- (if n =? 2 then get_word 2 pb else Ok None) ;;
      let v := match s with Some name => get_var st name | None => None end in   (* get_var(NULL) = NULL *)
      Ok (match v with
          | Some x => BStr x
          | None => match f with Some y => BStr y | None => BNull end
          end)
  end.

(* builtin_put: exactly two words, else NULL; always returns NULL *)
Definition builtin_put (param : option buf) (st : store) : res store :=
  match param with
  | None => Ok st
  | Some pb =>
    n <- num_words pb ;;
    if negb (n =? 2) then Ok st
    else
      var <- get_word 1 pb ;;
      val <- get_word 2 pb ;;
      Ok (match var with Some k => put_var st k val | None => st end)   (* ASSERT(var != NULL) *)
  end.

(* builtin_appname: snprintf(buff, sizeof(buff), "%s-%s", name, version); STRDUP(buff) *)
Definition appname_text : list byte :=
  firstn (appname_size - 1) (progname ++ 45 :: progver).

(* builtin_exec: REQUIRE_RVAL(param); the command text is read (strlen, strcpy); the world runs it;
   fsize = 0 -> NULL; Output = MALLOC(fsize + 1); fread; Output[fsize] = 0;
   Output = spiftool_condense_whitespace(Output) *)
Definition builtin_exec (param : option buf) : res bres :=
  match param with
  | None => Ok BNull
  | Some pb =>
    _ <- strlen pb ;;
    match exec_out (take_str pb) with
    | ExecNotFollowed => Ok (BExt Spawn)
    | ExecRefused => Ok BNull
    | ExecOut [] => Ok BNull
    | ExecOut content =>
      o <- condense_whitespace (bytes content ++ [Some 0]) ;;
      _ <- strlen o ;;
      Ok (BStr (take_str o))
    end
  end.

(* builtin_dirscan: !param or not exactly one word -> NULL; dir = get_word(1, param);
   opendir fails -> NULL; buff = MALLOC(CONFIG_BUFF); *buff = 0; n = CONFIG_BUFF; the loop; return buff *)
Definition builtin_dirscan (param : option buf) : res bres :=
  match param with
  | None => Ok BNull
  | Some pb =>
    n <- num_words pb ;;
    if negb (n =? 1) then Ok BNull
    else
      d <- get_word 1 pb ;;
      match d with
      | None => Fault Null_deref                            (* opendir(NULL) *)
      | Some dir =>
        match dir_list dir with
        | DirNotFollowed => Ok (BExt Dirscan)
        | DirFail => Ok BNull
        | DirList names =>
          b <- dirscan_loop names (Some 0 :: repeat None (CB - 1)) config_buff ;;
          _ <- strlen b ;;
          Ok (BStr (take_str b))
        end
      end
  end.

Definition call_builtin (code : Z) (param : option buf) (st : store) : res (bres * store) :=
  if code =? 0 then Ok (BStr appname_text, st)
  else if code =? 1 then Ok (BStr progver, st)
  else if code =? 4 then (r <- builtin_get param st ;; Ok (r, st))
  else if code =? 5 then (st' <- builtin_put param st ;; Ok (BNull, st'))
  else if code =? 2 then (r <- builtin_exec param ;; Ok (r, st))
  else if code =? 3 then
    (* random: REQUIRE_RVAL(param) -> NULL, otherwise rand() decides: not followed *)
    match param with
    | None => Ok (BNull, st)
    | Some _ => Ok (BExt Random, st)
    end
  else if code =? 6 then (r <- builtin_dirscan param ;; Ok (r, st))
  else (r <- builtin_user code param ;; Ok (r, st)).

(* ---------------------------------------------------------------------------------- *)
(* the loop  for (j = 0; *pbuff && j < max; pbuff++, j++) switch ( *pbuff) { ... }       *)
(* ---------------------------------------------------------------------------------- *)
(* One pass through the loop: the test, the switch, the increment.  `self` stands for the
   function itself with one unit of fuel less; it is used for the next iteration (called with
   the cursor, newbuff, the incremented j, the quote flags and the store) and for the nested
   spifconf_shell_expand(Command) of a %name(..) call. *)
Definition xbody (self : buf -> buf -> Z -> bool -> bool -> store -> res lres)
                 (p nb : buf) (j : Z) (q1 q2 : bool) (st : store) : res lres :=
  c <- rdn p 0 ;;
  if (c =? 0) || negb (j <? maxj) then Ok (LDone nb j st)
  else
    (* the loop increment pbuff++, j++ and the next test *)
    let next (p' nb' : buf) (j' : Z) (q1' q2' : bool) (st' : store) :=
        self p' nb' (u32 (j' + 1)) q1' q2' st' in
    (* newbuff[j] = *pbuff *)
    let literal (q1' q2' : bool) := (nb' <- wrz nb j c ;; next (tl p) nb' j q1' q2' st) in
    if c =? 126 then                                       (* '~' *)
      match (if q1 || q2 then None else genv HOME) with
      | Some (h :: ht) => '(nb', j') <- place nb j (h :: ht) ;; next (tl p) nb' j' q1 q2 st
      | _ => literal q1 q2
      end
    else if c =? 92 then                                   (* '\\' *)
      c1 <- rdn p 1 ;;
      if c1 =? 0 then literal q1 q2                        (* nothing follows: kept as it is *)
      else if negb q1 || (c1 =? 39) then
        (nb' <- wrz nb j (esc c1) ;; next (tl (tl p)) nb' j q1 q2 st)
      else
        (* newbuff[j++] = *(pbuff++); newbuff[j] = *pbuff; *)
        (nb1 <- wrz nb j c ;; nb2 <- wrz nb1 (u32 (j + 1)) c1 ;; next (tl (tl p)) nb2 (u32 (j + 1)) q1 q2 st)
    else if c =? 37 then                                   (* '%' *)
      let p1 := tl p in
      fb <- find_builtin full_table p1 ;;
      match fb with
      | None =>
        c1 <- rdn p1 0 ;;
        if c1 =? 0 then (nb' <- wrz nb j c ;; next p1 nb' j q1 q2 st)     (* last character: kept *)
        else (nb' <- wrz nb j c1 ;; next (tl p1) nb' j q1 q2 st)
      | Some (code, nlen) =>
        let p2 := skipn nlen p1 in                         (* pbuff += l *)
        c2 <- rdn p2 0 ;;
        let p3 := if c2 =? 40 then p2 else tl p2 in         (* if ( *pbuff != '(') pbuff++ *)
        '(p4, cmd, t, l) <- scan_args (tl p3) (repeat None CB) 0 1 ;;   (* Command = MALLOC(CONFIG_BUFF) *)
        if negb (l =? 0) then Ok (LNull st)                (* mismatched parentheses *)
        else
          cmd1 <- wrz cmd (Z.of_nat t - 1) 0 ;;            (* *(--tmp1) = 0 *)
          (* spifconf_shell_expand(Command) *)
          r <- self cmd1 (repeat None CB) 0 false false st ;;
          match r with
          | LExt e => Ok (LExt e)
          | _ =>
            '(param, st1) <-
               match r with
               | LDone nbc jc st1 => (o <- finish cmd1 nbc jc ;; Ok (o, st1))
               | LNull st1 => Ok (None, st1)
               | LExt _ => Ok (None, st)
               end ;;
            '(out, st2) <- call_builtin code param st1 ;;
            match out with
            | BExt e => Ok (LExt e)
            | BStr (o :: ot) => '(nb', j') <- place nb j (o :: ot) ;; next p4 nb' j' q1 q2 st2
            | _ => next p4 nb (u32 (j - 1)) q1 q2 st2      (* j-- *)
            end
          end
      end
    else if c =? 96 then                                   (* backquote *)
      if q1 then literal q1 q2 else Ok (LExt Spawn)
    else if c =? 36 then                                   (* '$' *)
      if q1 then literal q1 q2
      else
        '(p', name) <- scan_env p ;;
        match genv name with
        | Some (v :: vt) => '(nb', j') <- place nb j (v :: vt) ;; next p' nb' j' q1 q2 st
        | _ => next p' nb (u32 (j - 1)) q1 q2 st           (* j-- *)
        end
    else if c =? 34 then                                   (* double quote *)
      literal q1 (if q1 then q2 else negb q2)
    else if c =? 39 then                                   (* single quote *)
      literal (negb q1) q2
    else literal q1 q2.

(* fuel: one unit per iteration, handed on to the nested call for a %name(..) argument *)
Fixpoint xloop (fuel : nat) : buf -> buf -> Z -> bool -> bool -> store -> res lres :=
  match fuel with
  | O => fun _ _ _ _ _ _ => Fault Out_of_fuel
  | S f => xbody (xloop f)
  end.

(* spifconf_shell_expand(s): s is the object that holds the input *)
Definition shell_expand (fuel : nat) (s : buf) (st : store) : res (xres * store) :=
  r <- xloop fuel s (repeat None CB) 0 false false st ;;
  match r with
  | LExt e => Ok (XExt e, st)
  | LNull st' => Ok (XNull, st')
  | LDone nb j st' =>
    o <- finish s nb j ;;
    Ok (match o with None => XNull | Some s' => XBuf s' end, st')
  end.

(* the part of spifconf_shell_expand that reads its argument: everything up to, not
   including, the final strcpy(s, newbuff) *)
Definition shell_expand_reads (fuel : nat) (s : buf) (st : store) : res lres :=
  xloop fuel s (repeat None CB) 0 false false st.

End Expand.

(* getenv over an environment given as name/value pairs, as glibc does it: the first entry
   "NAME=value" that starts with the requested name followed by '=' *)
Fixpoint is_prefix (a b : list byte) : bool :=
  match a, b with
  | [], _ => true
  | x :: a', y :: b' => (x =? y) && is_prefix a' b'
  | _ :: _, [] => false
  end.
Fixpoint getenv_of (env : list (list byte * list byte)) (name : list byte) : option (list byte) :=
  match env with
  | [] => None
  | (k, v) :: t =>
    match name with
    | [] => None
    | _ => if is_prefix (name ++ [61]) (k ++ 61 :: v)
           then Some (skipn (S (length name)) (k ++ 61 :: v)) else getenv_of t name
    end
  end.

(* the outside world as the correspondence check sets it up: one output for every command (or
   commands are not followed), refused when spiftool_temp_file cannot make its name fit its
   256-byte buffer (tmp_ok = false) or when
     maxlen = strlen(param) + strlen(OutFile) + 8 > CONFIG_BUFF      (spif_uint32_t maxlen);
   directories given by name with the names of their regular files, any other directory fails to open *)
Definition exec_world (tmp_ok : bool) (outfile_len : Z) (out : option (list byte)) (cmd : list byte) : exec_answer :=
  match out with
  | None => ExecNotFollowed
  | Some content =>
    if negb tmp_ok then ExecRefused
    else if config_buff <? u32 (Z.of_nat (length cmd) + outfile_len + 8) then ExecRefused
    else ExecOut content
  end.
Fixpoint dir_world (dirs : list (list byte * list (list byte))) (d : list byte) : dir_answer :=
  match dirs with
  | [] => DirFail
  | (k, names) :: t => match strcmp k d with Eq => DirList names | _ => dir_world t d end
  end.
