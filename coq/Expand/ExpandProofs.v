(* The model of spifconf_shell_expand (buffers, checked accesses) computes, for EVERY input
   string in an object of CONFIG_BUFF cells, what the list-level loop of ExpandList.v computes:
   it never faults - in particular it never reads past the terminator of its input and never
   reads a cell of newbuff / Command / EnvVar that was not written - every cell of newbuff
   below the final j has been written, and the result is NUL-terminated and shorter than the
   line buffer. *)
From LV Require Import Base.Buf Strings.HelpersModel Strings.HelpersProofs Strings.HelpersProofs2
  Split.SplitModel Split.SplitProofs
  Expand.ExpandModel Expand.ExpandSpec Expand.ExpandList Expand.ExpandLemmas Expand.WordFacts Expand.StoreProofs.
Local Open Scope Z_scope.

(* ---------- bytes, possibly NUL ---------- *)
Lemma Forall_firstn {A} (P : A -> Prop) n : forall l, Forall P l -> Forall P (firstn n l).
Proof.
  induction n as [|n IH]; intros l H; [constructor|]. destruct l; [constructor|].
  inversion H; subst. cbn [firstn]. constructor; auto.
Qed.
Lemma nz_is_byte c : nz_byte c -> is_byte c.
Proof. unfold nz_byte, is_byte. lia. Qed.
Lemma Forall_nz_is_byte l : Forall nz_byte l -> Forall is_byte l.
Proof. intros H. eapply Forall_impl; [|exact H]. apply nz_is_byte. Qed.
Lemma esc_nz c : nz_byte c -> nz_byte (esc c).
Proof.
  intros H. unfold esc.
  repeat match goal with |- context [if ?b then _ else _] => destruct b end; try exact H; unfold nz_byte; lia.
Qed.

(* ---------- cut0: the C string held by cells that may contain NULs ---------- *)
Lemma cut0_nz pre : Forall is_byte pre -> Forall nz_byte (cut0 pre).
Proof.
  induction pre as [|c pre IH]; intros H; cbn [cut0]; [constructor|].
  inversion H as [|? ? Hc Hp]; subst.
  destruct (Z.eqb_spec c 0); [constructor|]. constructor; [unfold is_byte in Hc; unfold nz_byte; lia|auto].
Qed.
Lemma cut0_len pre : (length (cut0 pre) <= length pre)%nat.
Proof. induction pre as [|c pre IH]; cbn [cut0]; [lia|]. destruct (c =? 0); simpl; lia. Qed.
Lemma cut0_nz_id s : Forall nz_byte s -> cut0 s = s.
Proof.
  induction s as [|c s IH]; intros H; [reflexivity|]. apply Forall_nz_cons in H. destruct H as [Hc Hs].
  cbn [cut0]. rewrite (nz_neq0 c Hc). now rewrite IH.
Qed.
Lemma cut0_app_nz s t : Forall nz_byte s -> cut0 (s ++ t) = s ++ cut0 t.
Proof.
  induction s as [|c s IH]; intros H; [reflexivity|]. apply Forall_nz_cons in H. destruct H as [Hc Hs].
  cbn [app cut0]. rewrite (nz_neq0 c Hc). now rewrite IH.
Qed.
Lemma cells_cstr pre (tl : buf) : exists junk, bytes pre ++ Some 0 :: tl = cstr (cut0 pre) junk.
Proof.
  induction pre as [|c pre IH]; [exists tl; reflexivity|].
  cbn [cut0]. destruct (Z.eqb_spec c 0) as [->|N].
  - eexists. rewrite cstr_nil. reflexivity.
  - destruct IH as [junk E]. exists junk. rewrite bytes_cons, cstr_cons. cbn [app]. now rewrite E.
Qed.

(* ---------- strcpy and the tail of spifconf_shell_expand ---------- *)
Lemma strcpy_run_cstr (o : list byte) junk : Forall nz_byte o ->
  forall dst, (length o < length dst)%nat ->
  strcpy_run dst (cstr o junk) = Ok (cstr o (skipn (S (length o)) dst)).
Proof.
  induction o as [|c o IH]; intros Ho dst Hl.
  - rewrite cstr_nil. destruct dst; [simpl in Hl; lia|]. reflexivity.
  - apply Forall_nz_cons in Ho. destruct Ho as [Hc Ho].
    rewrite cstr_cons. destruct dst as [|x dst]; [simpl in Hl; lia|].
    cbn [strcpy_run]. rewrite (nz_neq0 c Hc). rewrite IH by (auto; simpl in Hl; lia).
    cbn [bind]. rewrite cstr_cons. reflexivity.
Qed.

Lemma finish_list (s : buf) pre (tl : buf) :
  length (bytes pre ++ tl) = CB -> Forall is_byte pre -> Z.of_nat (length pre) <= config_buff ->
  (Z.of_nat (length pre) < config_buff -> (length (cut0 pre) < length s)%nat) ->
  finish s (bytes pre ++ tl) (Z.of_nat (length pre)) =
  Ok (match lfinish pre with
      | Some o => Some (cstr o (skipn (S (length o)) s))
      | None => None
      end).
Proof.
  intros Hlen Hb Hj Hs. unfold finish, lfinish.
  destruct (Z.ltb_spec (Z.of_nat (length pre)) config_buff) as [Hlt|Hge]; cbn [negb]; [|reflexivity].
  specialize (Hs Hlt). rewrite app_length, bytes_length in Hlen. pose proof CB_eq.
  destruct tl as [|x tl]; [simpl in Hlen; lia|].
  rewrite wrz_app. cbn [bind]. rewrite bytes_app, <- app_assoc. cbn [bytes map app].
  destruct (cells_cstr pre tl) as [junk E]. unfold buf, cell in *. rewrite E.
  rewrite strcpy_run_cstr by (auto using cut0_nz). reflexivity.
Qed.

(* ---------- place ---------- *)
(* a value shorter than 4 GB: cnt1 = strlen(v) - 1 is kept in a 32-bit variable *)
Definition small (v : list byte) : Prop := Z.of_nat (length v) < 4294967296.
Definition val_ok (v : list byte) : Prop := Forall nz_byte v /\ small v.
(* what a function called from a value gets as its argument: a C string that fits the line buffer *)
Definition arg_ok (o : list byte) : Prop := Forall nz_byte o /\ Z.of_nat (length o) < config_buff.
Lemma arg_val o : arg_ok o -> val_ok o.
Proof. intros [H L]. split; [exact H|]. unfold small. pose proof cb_bounds. lia. Qed.
Lemma lplace_len pre v : Z.of_nat (length pre) < maxj -> v <> [] ->
  Z.of_nat (length pre) < Z.of_nat (length (lplace pre v)) <= maxj.
Proof.
  intros Hj Hv. unfold lplace.
  assert (0 < length v)%nat by (destruct v; [congruence|simpl; lia]).
  destruct (Z.leb_spec (Z.of_nat (length v)) (maxj - Z.of_nat (length pre) - 1)).
  - rewrite app_length. lia.
  - rewrite !app_length, firstn_length. cbn [length]. lia.
Qed.

Lemma lplace_bytes pre v : Forall is_byte pre -> Forall nz_byte v -> Forall is_byte (lplace pre v).
Proof.
  intros Hp Hv. unfold lplace. apply Forall_nz_is_byte in Hv.
  destruct (_ <=? _).
  - apply Forall_app. split; assumption.
  - apply Forall_app. split; [assumption|]. apply Forall_app. split; [now apply Forall_firstn|].
    constructor; [unfold is_byte; lia|constructor].
Qed.

Lemma place_lplace (pre v : list byte) (tl : buf) :
  val_ok v -> v <> [] -> length (bytes pre ++ tl) = CB -> Z.of_nat (length pre) < maxj ->
  exists tl' j',
    place (bytes pre ++ tl) (Z.of_nat (length pre)) v = Ok (bytes (lplace pre v) ++ tl', j') /\
    u32 (j' + 1) = Z.of_nat (length (lplace pre v)) /\
    length (bytes (lplace pre v) ++ tl') = CB.
Proof.
  intros [Hv Hsm] Hne Hlen Hj. pose proof CB_eq as HCB. pose proof cb_bounds as Hcb. pose proof maxj_eq as Hm.
  unfold small in Hsm. rewrite app_length, bytes_length in Hlen.
  assert (Hvl : (0 < length v)%nat) by (destruct v; [congruence|simpl; lia]).
  unfold place, strncpy_off.
  destruct (Z.leb_spec (maxj - Z.of_nat (length pre)) 0); [lia|].
  rewrite Nat2Z.id.
  rewrite skipn_app_exact by (now rewrite bytes_length).
  rewrite firstn_app_exact by (now rewrite bytes_length).
  set (room := Z.to_nat (maxj - Z.of_nat (length pre) - 1)).
  assert (Hroom : Z.of_nat room = maxj - Z.of_nat (length pre) - 1) by (subst room; lia).
  rewrite cp_run_exact by (auto; lia).
  cbn [bind].
  rewrite (u32_id (Z.of_nat (length v) - 1)) by lia.
  rewrite (u32_id (maxj - Z.of_nat (length pre) - 1)) by lia.
  unfold lplace.
  destruct (Z.leb_spec (Z.of_nat (length v)) (maxj - Z.of_nat (length pre) - 1)) as [Hfit|Hcut].
  - (* the whole value fits *)
    rewrite firstn_all2 by lia. rewrite Nat.min_l by lia.
    exists (Some 0 :: skipn (S (length v)) tl), (Z.of_nat (length pre) + (Z.of_nat (length v) - 1)).
    split; [|split].
    + rewrite Z.min_l by lia. rewrite u32_id by lia. rewrite bytes_app, <- app_assoc. reflexivity.
    + rewrite u32_id by lia. rewrite app_length. lia.
    + rewrite !app_length, !bytes_length, app_length. cbn [length]. rewrite skipn_length. lia.
  - rewrite Nat.min_r by lia.
    exists (skipn (S room) tl), (Z.of_nat (length pre) + Z.of_nat room).
    split; [|split].
    + rewrite Z.min_r by lia. rewrite u32_id by lia. rewrite <- Hroom.
      rewrite !bytes_app, <- !app_assoc, Nat2Z.id. reflexivity.
    + rewrite u32_id by lia. rewrite !app_length, firstn_length. cbn [length]. lia.
    + rewrite !app_length, !bytes_length, !app_length, firstn_length. cbn [length]. rewrite skipn_length. lia.
Qed.

(* getenv over a list of NAME/value pairs yields NUL-free short values when the pairs are *)
Lemma Forall_skipn {A} (P : A -> Prop) n : forall l, Forall P l -> Forall P (skipn n l).
Proof.
  induction n as [|n IH]; intros l H; [exact H|]. destruct l; [constructor|].
  inversion H; subst. cbn [skipn]. auto.
Qed.

Lemma getenv_of_ok env :
  Forall (fun e => Forall nz_byte (fst e) /\ Forall nz_byte (snd e) /\ small (fst e ++ 61 :: snd e)) env ->
  forall n v, getenv_of env n = Some v -> val_ok v.
Proof.
  intros H n. induction env as [|[k x] env IH]; intros v; cbn [getenv_of]; [discriminate|].
  inversion H as [|? ? [Hk [Hx Hs]] H']; subst. cbn [fst snd] in *.
  destruct n as [|c n]; [discriminate|].
  destruct (is_prefix ((c :: n) ++ [61]) (k ++ 61 :: x)).
  - assert (G : forall m, val_ok (skipn m (k ++ 61 :: x))).
    { intros m. split.
      + apply Forall_skipn. apply Forall_app. split; [exact Hk|]. constructor; [unfold nz_byte; lia|exact Hx].
      + unfold small in *. rewrite skipn_length. lia. }
    intros E. injection E as <-. exact (G (S (length (c :: n)))).
  - intros E. apply IH; [exact H'|]. destruct env as [|[k1 x1] env]; exact E.
Qed.

(* ---------- the built-ins ---------- *)
(* the store invariant: names and values NUL-free, values short, names strictly ascending *)
Definition store_ok (st : store) : Prop :=
  Forall (fun e => Forall nz_byte (fst e) /\ val_ok (snd e)) st /\ sorted st.

Lemma get_var_nz st k v : store_ok st -> get_var st k = Some v -> val_ok v.
Proof.
  intros [H _]. induction st as [|[k0 x] t IH]; simpl; intros E; [discriminate|].
  inversion H as [|? ? [_ Hx] Ht]; subst. destruct (strcmp k0 k); auto. injection E as <-. exact Hx.
Qed.

Lemma put_var_ok st k v : store_ok st -> Forall nz_byte k -> val_ok v -> store_ok (put_var st k (Some v)).
Proof.
  intros [H S] Hk Hv. split; [|now apply put_var_sorted]. clear S.
  induction st as [|[k0 x] t IH]; simpl.
  - constructor; [simpl; auto|constructor].
  - inversion H as [|? ? [Hk0 Hx] Ht]; subst. simpl in *.
    destruct (strcmp k k0).
    + constructor; [simpl; auto|exact Ht].
    + constructor; [simpl; auto|exact H].
    + constructor; [simpl; auto|auto].
Qed.

Section Refinement.
Variable genv : list byte -> option (list byte).
Variable progname progver : list byte.
Hypothesis genv_nz : forall n v, genv n = Some v -> val_ok v.
Hypothesis progname_nz : Forall nz_byte progname.
Hypothesis progver_nz : val_ok progver.
Variable exec_out : list byte -> exec_answer.
Variable dir_list : list byte -> dir_answer.
Hypothesis exec_ok : forall c o, exec_out c = ExecOut o -> Forall is_byte o /\ small o.
Hypothesis dir_ok : forall d ns, dir_list d = DirList ns -> Forall (Forall nz_byte) ns.
(* the functions the application registered: their names are C strings; what they return is a C string
   shorter than 4 GB whenever their argument is a C string that fits the line buffer *)
Variable extra : list (list byte * Z).
Variable ufn : Z -> option (list byte) -> option (list byte).
Hypothesis extra_nz : Forall (fun e => Forall nz_byte (fst e)) extra.
Hypothesis ufn_ok : forall code a v, (forall o, a = Some o -> arg_ok o) -> ufn code a = Some v -> val_ok v.

Lemma appname_nz : val_ok (appname_text progname progver).
Proof.
  unfold appname_text. split.
  - apply Forall_firstn. apply Forall_app. split; [exact progname_nz|].
    constructor; [unfold nz_byte; lia|exact (proj1 progver_nz)].
  - unfold small. rewrite firstn_length. unfold appname_size. lia.
Qed.

(* %get on a C string in a buffer is s_get on its text *)
Lemma builtin_get_exact o rest st : Forall nz_byte o -> Z.of_nat (length o) < 65536 ->
  builtin_get (Some (cstr o rest)) st = Ok (s_get (Some o) st).
Proof.
  intros Ho Hl. unfold builtin_get, s_get.
  rewrite (num_words_exact o rest Ho). cbn [bind].
  pose proof (words_length o Ho) as Hwl.
  rewrite Z.mod_small by lia.
  destruct (Z.gtb_spec (Z.of_nat (length (words o))) 2) as [Hgt|Hle].
  { destruct (Nat.ltb_spec 2 (length (words o))); [reflexivity|lia]. }
  destruct (Nat.ltb_spec 2 (length (words o))); [lia|].
  destruct (words o) as [|w ws] eqn:Ew.
  - rewrite (get_word_1_nowords o rest Ho Ew). cbn [bind length]. cbn.
    destruct o; reflexivity.
  - rewrite (get_word_exact o rest 1 Ho) by (rewrite Ew; cbn [length]; lia).
    rewrite Ew. cbn [bind nth_error Z.to_nat Z.sub]. cbn [length].
    destruct ws as [|d ws].
    + cbn. destruct (get_var st w); reflexivity.
    + destruct ws as [|? ?]; [|simpl in *; lia].
      replace (Z.of_nat (length [w; d]) =? 2) with true by reflexivity.
      rewrite (get_word_exact o rest 2 Ho) by (rewrite Ew; cbn [length]; lia).
      rewrite Ew. cbn. destruct (get_var st w); reflexivity.
Qed.

Lemma builtin_put_exact o rest st : Forall nz_byte o ->
  builtin_put (Some (cstr o rest)) st = Ok (s_put (Some o) st).
Proof.
  intros Ho. unfold builtin_put, s_put.
  rewrite (num_words_exact o rest Ho). cbn [bind].
  destruct (Z.eqb_spec (Z.of_nat (length (words o))) 2) as [E|N]; cbn [negb].
  - destruct (words o) as [|k [|v [|? ?]]] eqn:Ew; try (simpl in E; lia).
    rewrite (get_word_exact o rest 1 Ho) by (rewrite Ew; cbn [length]; lia).
    rewrite (get_word_exact o rest 2 Ho) by (rewrite Ew; cbn [length]; lia).
    rewrite Ew. reflexivity.
  - destruct (words o) as [|k [|v [|? ?]]]; try reflexivity. simpl in N. lia.
Qed.

(* ---------- %dirscan: the accumulation loop stays inside its CONFIG_BUFF block ---------- *)
Lemma strcat_b_cstr (acc src : list byte) (rest : buf) :
  Forall nz_byte acc -> Forall nz_byte src -> (length src <= length rest)%nat ->
  strcat_b (cstr acc rest) src = Ok (cstr (acc ++ src) (skipn (length src) rest)).
Proof.
  intros Ha Hs Hl. unfold strcat_b.
  rewrite (strlen_cstr acc rest Ha). cbn [bind].
  rewrite skipn_cstr by lia. rewrite skipn_all. rewrite cstr_nil.
  rewrite strcpy_run_cstr by (auto; simpl; lia). cbn [bind skipn].
  unfold cstr at 1. rewrite firstn_app_exact by (now rewrite bytes_length).
  unfold cstr. rewrite bytes_app, <- app_assoc. reflexivity.
Qed.

Lemma dir_join_inv names : Forall (Forall nz_byte) names ->
  forall acc n, Forall nz_byte acc -> Z.of_nat (length acc) + n = config_buff -> 1 <= n ->
  exists n', Forall nz_byte (dir_join names acc n) /\
             Z.of_nat (length (dir_join names acc n)) + n' = config_buff /\ 1 <= n'.
Proof.
  induction names as [|nm t IH]; intros Hn acc n Ha Hsum Hn1; cbn [dir_join].
  - exists n. auto.
  - inversion Hn as [|? ? Hnm Ht]; subst.
    assert (Hacc' : Forall nz_byte (acc ++ nm ++ [32])).
    { apply Forall_app. split; [exact Ha|]. apply Forall_app. split; [exact Hnm|].
      constructor; [unfold nz_byte; lia|constructor]. }
    assert (Hlen' : Z.of_nat (length (acc ++ nm ++ [32])) = Z.of_nat (length acc) + Z.of_nat (length nm) + 1).
    { rewrite !app_length. cbn [length]. lia. }
    destruct (Z.ltb_spec (Z.of_nat (length nm) + 1) n) as [Hfit|Hno].
    + destruct (Z.ltb_spec (n - (Z.of_nat (length nm) + 1)) 2).
      * exists (n - (Z.of_nat (length nm) + 1)). split; [exact Hacc'|]. split; lia.
      * apply IH; auto; lia.
    + destruct (Z.ltb_spec n 2).
      * exists n. auto.
      * apply IH; auto.
Qed.

Lemma dir_join_ok names : Forall (Forall nz_byte) names -> val_ok (dir_join names [] config_buff).
Proof.
  intros Hn. pose proof cb_bounds.
  destruct (dir_join_inv names Hn [] config_buff ltac:(constructor) ltac:(simpl; lia) ltac:(lia)) as (n' & A & B & C).
  split; [exact A|]. unfold small. lia.
Qed.

Lemma dirscan_loop_exact names : Forall (Forall nz_byte) names ->
  forall acc rest n, Forall nz_byte acc -> Z.of_nat (length acc) + n = config_buff -> 1 <= n ->
  length (cstr acc rest) = CB ->
  exists rest', dirscan_loop names (cstr acc rest) n = Ok (cstr (dir_join names acc n) rest') /\
                length (cstr (dir_join names acc n) rest') = CB.
Proof.
  induction names as [|nm t IH]; intros Hn acc rest n Ha Hsum Hn1 Hlen; cbn [dirscan_loop dir_join].
  - exists rest. auto.
  - inversion Hn as [|? ? Hnm Ht]; subst. pose proof CB_eq as HCB.
    assert (Hrl : Z.of_nat (length rest) = n - 1) by (rewrite cstr_length in Hlen; lia).
    destruct (Z.ltb_spec (Z.of_nat (length nm) + 1) n) as [Hfit|Hno].
    + rewrite strcat_b_cstr by (auto; lia). cbn [bind].
      rewrite strcat_b_cstr; [| |constructor; [unfold nz_byte; lia|constructor]|].
      2:{ apply Forall_app. split; assumption. }
      2:{ rewrite skipn_length. simpl. lia. }
      cbn [bind]. rewrite <- app_assoc.
      assert (Hacc' : Forall nz_byte (acc ++ nm ++ [32])).
      { apply Forall_app. split; [exact Ha|]. apply Forall_app. split; [exact Hnm|].
        constructor; [unfold nz_byte; lia|constructor]. }
      assert (Hlen' : length (cstr (acc ++ nm ++ [32]) (skipn (length [32]) (skipn (length nm) rest))) = CB).
      { rewrite cstr_length, !app_length, !skipn_length. cbn [length]. rewrite cstr_length in Hlen. lia. }
      destruct (Z.ltb_spec (n - (Z.of_nat (length nm) + 1)) 2).
      * eexists. split; [reflexivity|exact Hlen'].
      * apply IH; auto; [rewrite !app_length; cbn [length]; lia|lia].
    + cbn [bind]. destruct (Z.ltb_spec n 2).
      * exists rest. auto.
      * apply IH; auto.
Qed.

(* what the list says: the names that were taken, in order, each followed by a blank *)
Inductive subseq {A} : list A -> list A -> Prop :=
| subseq_nil : forall l, subseq [] l
| subseq_take : forall x s l, subseq s l -> subseq (x :: s) (x :: l)
| subseq_skip : forall x s l, subseq s l -> subseq s (x :: l).
Definition blanked (names : list (list byte)) : list byte := concat (map (fun nm => nm ++ [32]) names).

Lemma dir_join_subseq names : forall acc n,
  exists sel, subseq sel names /\ dir_join names acc n = acc ++ blanked sel.
Proof.
  induction names as [|nm t IH]; intros acc n; cbn [dir_join].
  - exists []. split; [constructor|]. unfold blanked. cbn. now rewrite app_nil_r.
  - destruct (Z.of_nat (length nm) + 1 <? n).
    + destruct (n - (Z.of_nat (length nm) + 1) <? 2).
      * exists [nm]. split; [constructor; constructor|]. unfold blanked. cbn. now rewrite app_nil_r.
      * destruct (IH (acc ++ nm ++ [32]) (n - (Z.of_nat (length nm) + 1))) as (sel & Hs & ->).
        exists (nm :: sel). split; [now constructor|]. unfold blanked. cbn [map concat]. now rewrite <- !app_assoc.
    + destruct (n <? 2).
      * exists []. split; [constructor|]. unfold blanked. cbn. now rewrite app_nil_r.
      * destruct (IH acc n) as (sel & Hs & ->). exists sel. split; [now constructor|reflexivity].
Qed.

(* nothing is left out when all names, their blanks and the terminator fit *)
Lemma dir_join_all names : forall acc n,
  Z.of_nat (length (blanked names)) < n -> dir_join names acc n = acc ++ blanked names.
Proof.
  induction names as [|nm t IH]; intros acc n Hfit; cbn [dir_join].
  - unfold blanked. cbn. now rewrite app_nil_r.
  - unfold blanked in *. cbn [map concat] in *. rewrite !app_length in Hfit. cbn [length] in Hfit.
    destruct (Z.ltb_spec (Z.of_nat (length nm) + 1) n) as [_|Hno]; [|lia].
    destruct (Z.ltb_spec (n - (Z.of_nat (length nm) + 1)) 2) as [Hsm|Hbig].
    + destruct t as [|nm2 t2]; [cbn; now rewrite <- !app_assoc|].
      cbn [map concat] in Hfit. rewrite !app_length in Hfit. cbn [length] in Hfit. lia.
    + rewrite IH by lia. now rewrite <- !app_assoc.
Qed.

Lemma builtin_dirscan_exact o rest : Forall nz_byte o ->
  builtin_dirscan dir_list (Some (cstr o rest)) = Ok (s_dirscan dir_list (Some o)).
Proof.
  intros Ho. unfold builtin_dirscan, s_dirscan.
  rewrite (num_words_exact o rest Ho). cbn [bind].
  destruct (Z.eqb_spec (Z.of_nat (length (words o))) 1) as [E|N]; cbn [negb].
  2:{ destruct (words o) as [|d [|? ?]]; try reflexivity. cbn [length] in N. lia. }
  destruct (words o) as [|d [|? ?]] eqn:Ew; try (cbn [length] in E; lia).
  rewrite (get_word_exact o rest 1 Ho) by (rewrite Ew; cbn [length]; lia).
  rewrite Ew. change (Z.to_nat (1 - 1)) with 0%nat. cbn [bind nth_error].
  destruct (dir_list d) as [| |names] eqn:Ed; try reflexivity.
  pose proof (dir_ok d names Ed) as Hnames. pose proof cb_bounds as Hcb. pose proof CB_eq as HCB.
  change (Some 0 :: repeat None (CB - 1)) with (cstr [] (repeat (@None byte) (CB - 1))).
  destruct (dirscan_loop_exact names Hnames [] (repeat None (CB - 1)) config_buff
              ltac:(constructor) ltac:(simpl; lia) ltac:(lia)) as (rest' & -> & _).
  { rewrite cstr_length, repeat_length. simpl. lia. }
  cbn [bind]. destruct (dir_join_ok names Hnames) as [Hj _].
  rewrite (strlen_cstr _ rest' Hj). cbn [bind]. rewrite (take_str_cstr _ rest' Hj). reflexivity.
Qed.

(* ---------- %exec: what is read back from the temporary file ---------- *)
Lemma strip_last_space_nz (s : list byte) : Forall nz_byte s -> Forall nz_byte (strip_last_space s).
Proof.
  intros H. unfold strip_last_space. destruct (rev s) as [|c r] eqn:E; [constructor|].
  destruct (isspace c); [|exact H].
  assert (Es : s = rev r ++ [c]) by (rewrite <- (rev_involutive s), E; reflexivity).
  rewrite Es in H. apply Forall_app in H. tauto.
Qed.
Lemma condense_spec_nz (s : list byte) : Forall nz_byte s -> Forall nz_byte (condense_spec s).
Proof. intros H. unfold condense_spec. apply strip_last_space_nz. now apply collapse_nz. Qed.

Lemma exec_text_ok content : Forall is_byte content -> small content -> val_ok (condense_spec (cut0 content)).
Proof.
  intros Hb Hs. split; [apply condense_spec_nz; now apply cut0_nz|].
  unfold small in *. pose proof (condense_spec_length (cut0 content)). pose proof (cut0_len content). lia.
Qed.

Lemma builtin_exec_exact o rest : Forall nz_byte o ->
  builtin_exec exec_out (Some (cstr o rest)) = Ok (s_exec exec_out (Some o)).
Proof.
  intros Ho. unfold builtin_exec, s_exec.
  rewrite (strlen_cstr o rest Ho). cbn [bind]. rewrite (take_str_cstr o rest Ho).
  destruct (exec_out o) as [| |content] eqn:Ex; try reflexivity.
  destruct content as [|c ct]; [reflexivity|].
  destruct (exec_ok o (c :: ct) Ex) as [Hb Hs].
  destruct (cells_cstr (c :: ct) []) as [junk E]. unfold buf, cell in *. rewrite E.
  rewrite condense_exact by (now apply cut0_nz). cbn [bind].
  destruct (exec_text_ok (c :: ct) Hb Hs) as [Hnz _].
  rewrite (strlen_cstr _ [] Hnz). cbn [bind]. rewrite (take_str_cstr _ [] Hnz). reflexivity.
Qed.

Lemma call_builtin_exact code o rest st : Forall nz_byte o -> Z.of_nat (length o) < 65536 ->
  call_builtin progname progver exec_out dir_list ufn code (Some (cstr o rest)) st = Ok (s_builtin progname progver exec_out dir_list ufn code (Some o) st).
Proof.
  intros Ho Hl. unfold call_builtin, s_builtin.
  destruct (code =? 0); [reflexivity|]. destruct (code =? 1); [reflexivity|].
  destruct (code =? 4); [rewrite builtin_get_exact by assumption; reflexivity|].
  destruct (code =? 5); [rewrite builtin_put_exact by assumption; reflexivity|].
  destruct (code =? 2); [rewrite builtin_exec_exact by assumption; reflexivity|].
  destruct (code =? 3); [reflexivity|].
  destruct (code =? 6); [rewrite builtin_dirscan_exact by assumption; reflexivity|].
  unfold builtin_user. rewrite (strlen_cstr o rest Ho). cbn [bind]. rewrite (take_str_cstr o rest Ho). reflexivity.
Qed.

Lemma call_builtin_null code st :
  call_builtin progname progver exec_out dir_list ufn code None st = Ok (s_builtin progname progver exec_out dir_list ufn code None st).
Proof.
  unfold call_builtin, s_builtin.
  destruct (code =? 0); [reflexivity|]. destruct (code =? 1); [reflexivity|].
  destruct (code =? 4); [reflexivity|]. destruct (code =? 5); [reflexivity|].
  destruct (code =? 2); [reflexivity|]. destruct (code =? 3); [reflexivity|]. destruct (code =? 6); reflexivity.
Qed.

(* what a built-in yields is NUL-free and short, and it keeps the store well-formed and sorted *)
Lemma word_ok (o : list byte) : val_ok o -> forall w, In w (words o) -> val_ok w.
Proof.
  intros [Ho Hs] w Hin. split.
  - pose proof (words_nz o Ho) as H. rewrite Forall_forall in H. auto.
  - pose proof (words_short o) as H. rewrite Forall_forall in H. specialize (H w Hin). unfold small in *. lia.
Qed.

Lemma s_builtin_ok code a st : store_ok st -> (forall o, a = Some o -> arg_ok o) ->
  let '(out, st') := s_builtin progname progver exec_out dir_list ufn code a st in
  store_ok st' /\ (forall v, out = BStr v -> val_ok v).
Proof.
  intros Hst Ha0. assert (Ha : forall o, a = Some o -> val_ok o) by (intros o E; apply arg_val; now apply Ha0).
  unfold s_builtin.
  destruct (code =? 0). { split; auto. intros v E. injection E as <-. apply appname_nz. }
  destruct (code =? 1). { split; auto. intros v E. injection E as <-. exact progver_nz. }
  destruct (code =? 4).
  { split; auto. intros v. unfold s_get. destruct a as [o|]; [|discriminate].
    specialize (Ha o eq_refl). pose proof (word_ok o) as Hw.
    destruct (2 <? length (words o))%nat; [discriminate|].
    destruct (match match words o with w :: _ => Some w | [] => match o with [] => None | _ :: _ => Some [] end end with
              | Some k => get_var st k | None => None end) as [x|] eqn:E.
    - intros H. injection H as <-.
      destruct (match words o with w :: _ => Some w | [] => match o with [] => None | _ :: _ => Some [] end end);
        [eapply get_var_nz; eassumption|discriminate].
    - destruct (words o) as [|w [|d [|? ?]]]; try discriminate.
      intros H. injection H as <-. apply Hw; [exact Ha|]. simpl. auto. }
  destruct (code =? 5).
  { unfold s_put. destruct a as [o|]; [|split; auto; discriminate].
    specialize (Ha o eq_refl). pose proof (word_ok o Ha) as Hw.
    destruct (words o) as [|k [|v0 [|? ?]]]; try (split; auto; discriminate).
    split; [|discriminate].
    apply put_var_ok; [exact Hst|apply Hw|apply Hw]; simpl; auto. }
  destruct (code =? 2).
  { split; auto. intros v. unfold s_exec. destruct a as [cmd|]; [|discriminate].
    destruct (exec_out cmd) as [| |content] eqn:Ex; try discriminate.
    destruct content as [|c ct]; [discriminate|].
    destruct (exec_ok cmd (c :: ct) Ex) as [Hb Hs]. pose proof (exec_text_ok (c :: ct) Hb Hs) as G.
    intros H. injection H as <-. exact G. }
  destruct (code =? 3). { destruct a; split; auto; discriminate. }
  destruct (code =? 6).
  2:{ split; auto. intros v E. destruct (ufn code a) as [x|] eqn:Eu; [|discriminate].
      cbn [bres_of] in E. injection E as <-. eapply ufn_ok; eassumption. }
  split; auto. intros v. unfold s_dirscan. destruct a as [o|]; [|discriminate].
  destruct (words o) as [|d [|? ?]]; try discriminate.
  destruct (dir_list d) as [| |names] eqn:Ed; try discriminate.
  intros H. injection H as <-. apply dir_join_ok. eapply dir_ok; eassumption.
Qed.

(* ---------- invariants of the list-level loop ---------- *)
(* what has been written below j: bytes; at most CONFIG_BUFF of them; and a NUL among them only
   when a value was cut off at the limit, which puts j on max *)
Definition pre_ok (pre : list byte) : Prop :=
  Forall is_byte pre /\ Z.of_nat (length pre) <= config_buff /\
  (Z.of_nat (length pre) < maxj -> Forall nz_byte pre).

Definition llres_ok (r : llres) : Prop :=
  match r with
  | LLDone pre st => pre_ok pre /\ store_ok st
  | LLNull st => store_ok st
  | LLExt _ => True
  | LLFuel => False
  end.

Lemma pre_ok_nil : pre_ok [].
Proof. pose proof cb_bounds. split; [constructor|split; [simpl; lia|constructor]]. Qed.

Lemma pre_ok_snoc pre c : pre_ok pre -> Z.of_nat (length pre) < maxj -> nz_byte c -> pre_ok (pre ++ [c]).
Proof.
  intros (A & B & C) Hj Hc. pose proof maxj_eq. split; [|split].
  - apply Forall_app. split; [exact A|constructor; [now apply nz_is_byte|constructor]].
  - rewrite app_length. cbn [length]. lia.
  - intros _. apply Forall_app. split; [auto|constructor; [exact Hc|constructor]].
Qed.
Lemma pre_ok_snoc2 pre c d : pre_ok pre -> Z.of_nat (length pre) < maxj -> nz_byte c -> nz_byte d -> pre_ok (pre ++ [c; d]).
Proof.
  intros (A & B & C) Hj Hc Hd. pose proof maxj_eq. split; [|split].
  - apply Forall_app. split; [exact A|]. constructor; [now apply nz_is_byte|]. constructor; [now apply nz_is_byte|constructor].
  - rewrite app_length. cbn [length]. lia.
  - intros _. apply Forall_app. split; [auto|]. constructor; [exact Hc|]. constructor; [exact Hd|constructor].
Qed.
Lemma pre_ok_lplace pre v : pre_ok pre -> Z.of_nat (length pre) < maxj -> val_ok v -> v <> [] -> pre_ok (lplace pre v).
Proof.
  intros (A & B & C) Hj [Hv Hsm] Hne. pose proof maxj_eq. split; [now apply lplace_bytes|split].
  - pose proof (lplace_len pre v Hj Hne). lia.
  - unfold lplace. destruct (Z.leb_spec (Z.of_nat (length v)) (maxj - Z.of_nat (length pre) - 1)).
    + intros _. apply Forall_app. split; auto.
    + rewrite !app_length, firstn_length. cbn [length]. intros Hlt. lia.
Qed.

Lemma removelast_nz (a : list byte) : Forall nz_byte a -> Forall nz_byte (removelast a).
Proof.
  induction a as [|c a IH]; intros H; [constructor|]. apply Forall_nz_cons in H. destruct H as [Hc Ha].
  cbn [removelast]. destruct a; [constructor|]. constructor; auto.
Qed.
Lemma removelast_len {A} (a : list A) : a <> [] -> length a = S (length (removelast a)).
Proof.
  induction a as [|c a IH]; intros H; [congruence|]. cbn [removelast]. destruct a; [reflexivity|].
  cbn [length] in *. rewrite IH by discriminate. reflexivity.
Qed.

(* facts about the text behind a call, used by both loops *)
Lemma after_open_facts nlen t : Forall nz_byte t ->
  Forall nz_byte (after_open nlen t) /\ (length (after_open nlen t) <= length t)%nat.
Proof.
  intros Ht. unfold after_open.
  assert (Hsk : Forall nz_byte (skipn nlen t)) by (rewrite <- (firstn_skipn nlen t) in Ht; apply Forall_app in Ht; tauto).
  pose proof (skipn_length nlen t) as Hl.
  destruct (skipn nlen t) as [|c r]; [split; [constructor|lia]|].
  inversion Hsk as [|? ? _ Hr]; subst. cbn [length] in Hl.
  destruct (c =? 40); [split; [exact Hr|lia]|].
  destruct r as [|d r]; cbn [tl]; [split; [constructor|simpl; lia]|].
  inversion Hr; subst. split; [assumption|simpl in *; lia].
Qed.

Lemma lfinish_arg_ok pre o : pre_ok pre -> lfinish pre = Some o -> arg_ok o.
Proof.
  intros (A & B & _). unfold lfinish. destruct (Z.ltb_spec (Z.of_nat (length pre)) config_buff); [|discriminate].
  intros E. injection E as <-. split; [now apply cut0_nz|]. pose proof (cut0_len pre). lia.
Qed.
Lemma lfinish_ok pre o : pre_ok pre -> lfinish pre = Some o -> val_ok o.
Proof.
  intros (A & B & _). unfold lfinish. destruct (_ <? _); [|discriminate]. intros E. injection E as <-.
  split; [now apply cut0_nz|]. unfold small. pose proof (cut0_len pre). pose proof cb_bounds. lia.
Qed.

Lemma lbody_ok self n :
  (forall s pre q1 q2 st, (length s < n)%nat -> Forall nz_byte s -> pre_ok pre -> store_ok st ->
                          llres_ok (self s pre q1 q2 st)) ->
  forall s pre q1 q2 st, (length s <= n)%nat -> Forall nz_byte s -> pre_ok pre -> store_ok st ->
                         llres_ok (lbody genv progname progver exec_out dir_list extra ufn self s pre q1 q2 st).
Proof.
  intros Hself s pre q1 q2 st Hn Hs Hpre Hst.
  unfold lbody. destruct s as [|c t]; [split; assumption|].
  apply Forall_nz_cons in Hs. destruct Hs as [Hc Ht]. cbn [length] in Hn.
  destruct (Z.ltb_spec (Z.of_nat (length pre)) maxj) as [Hj|Hj]; cbn [negb]; [|split; assumption].
  assert (Hlit : forall q1' q2', llres_ok (self t (pre ++ [c]) q1' q2' st)).
  { intros. apply Hself; [lia|assumption|now apply pre_ok_snoc|assumption]. }
  destruct (c =? 126).
  { destruct (if q1 || q2 then None else genv HOME) as [[|h ht]|] eqn:E; try apply Hlit.
    apply Hself; [lia|assumption| |assumption]. apply pre_ok_lplace; [assumption|assumption| |discriminate].
    destruct (q1 || q2); [discriminate|]. eapply genv_nz; eassumption. }
  destruct (c =? 92).
  { destruct t as [|d t']; [apply Hlit|].
    apply Forall_nz_cons in Ht. destruct Ht as [Hd Ht']. cbn [length] in Hn.
    destruct (negb q1 || (d =? 39)).
    - apply Hself; [lia|assumption| |assumption]. apply pre_ok_snoc; auto. now apply esc_nz.
    - apply Hself; [lia|assumption| |assumption]. apply pre_ok_snoc2; auto. }
  destruct (c =? 37).
  { destruct (find_call (full_table extra) t) as [[code nlen]|] eqn:Efc.
    2:{ destruct t as [|d t']; [apply Hlit|].
        apply Forall_nz_cons in Ht. destruct Ht as [Hd Ht']. cbn [length] in Hn.
        apply Hself; [lia|assumption| |assumption]. apply pre_ok_snoc; auto. }
    destruct (after_open_facts nlen t Ht) as [Hao Haol].
    pose proof (split_args_app (after_open nlen t) 1) as Happ.
    pose proof (split_args_nz (after_open nlen t) 1 Hao) as Hnz.
    destruct (split_args (after_open nlen t) 1) as [[a rest] l].
    destruct Hnz as [Ha Hrest].
    assert (Hlen : (length a + length rest <= length t)%nat).
    { rewrite Happ, app_length in Haol. exact Haol. }
    destruct (l =? 0); cbn [negb]; [|exact Hst].
    assert (Hrl : (length (removelast a) <= length a)%nat).
    { destruct a as [|z a]; [simpl; lia|]. rewrite (removelast_len (z :: a)) by discriminate. lia. }
    pose proof pre_ok_nil as Hnil.
    pose proof (Hself (removelast a) [] false false st ltac:(lia) (removelast_nz a Ha) Hnil Hst) as Hin.
    destruct (self (removelast a) [] false false st) as [pre1 st1|st1|e|] eqn:Ein; [| |exact I|exact Hin].
    - destruct Hin as [Hpre1 Hst1].
      pose proof (s_builtin_ok code (lfinish pre1) st1 Hst1) as Hb.
      destruct (s_builtin progname progver exec_out dir_list ufn code (lfinish pre1) st1) as [out st2].
      destruct Hb as (Hst2 & Hout).
      { intros o E. eapply lfinish_arg_ok; eassumption. }
      destruct out as [|[|o ot]|e]; try exact I; try (apply Hself; [lia|assumption|assumption|assumption]).
      apply Hself; [lia|assumption| |assumption]. apply pre_ok_lplace; [assumption|assumption| |discriminate]. now apply Hout.
    - pose proof (s_builtin_ok code None st1 Hin) as Hb.
      destruct (s_builtin progname progver exec_out dir_list ufn code None st1) as [out st2].
      destruct Hb as (Hst2 & Hout); [discriminate|].
      destruct out as [|[|o ot]|e]; try exact I; try (apply Hself; [lia|assumption|assumption|assumption]).
      apply Hself; [lia|assumption| |assumption]. apply pre_ok_lplace; [assumption|assumption| |discriminate]. now apply Hout. }
  destruct (c =? 96). { destruct q1; [apply Hlit|exact I]. }
  destruct (c =? 36).
  { destruct q1; [apply Hlit|].
    pose proof (env_ref_nz t Ht) as Hr. pose proof (env_ref_len t) as Hrl.
    destruct (env_ref t) as [name rest]. cbn [snd] in *.
    destruct (genv name) as [[|v vt]|] eqn:E; try (apply Hself; [lia|assumption|assumption|assumption]).
    apply Hself; [lia|assumption| |assumption]. apply pre_ok_lplace; [assumption|assumption| |discriminate].
    eapply genv_nz; eassumption. }
  destruct (c =? 34); [apply Hlit|]. destruct (c =? 39); apply Hlit.
Qed.

Lemma lloop_ok : forall fuel s pre q1 q2 st,
  (length s < fuel)%nat ->
  Forall nz_byte s -> pre_ok pre -> store_ok st -> llres_ok (lloop genv progname progver exec_out dir_list extra ufn fuel s pre q1 q2 st).
Proof.
  induction fuel as [|f IH]; intros s pre q1 q2 st Hf Hs Hp Hst; [lia|].
  cbn [lloop]. apply (lbody_ok (lloop genv progname progver exec_out dir_list extra ufn f) (length s)); auto.
  intros s0 pre0 q0 q3 st0 H0 H1 H2 H3. apply IH; auto. lia.
Qed.

(* ---------- the model computes the list-level loop ---------- *)
Definition lrel (r : res lres) (l : llres) : Prop :=
  match l with
  | LLDone pre' st' =>
    exists tl', r = Ok (LDone (bytes pre' ++ tl') (Z.of_nat (length pre')) st') /\ length (bytes pre' ++ tl') = CB
  | LLNull st' => r = Ok (LNull st')
  | LLExt e => r = Ok (LExt e)
  | LLFuel => r = Fault Out_of_fuel
  end.

Lemma find_call_shape tbl t code nlen : find_call tbl t = Some (code, nlen) ->
  exists c r, skipn nlen t = c :: r /\ ((c =? 40) = true \/ ((c =? 40) = false /\ exists d r', r = d :: r')).
Proof.
  induction tbl as [|[n cd] tbl IH]; [discriminate|]. cbn [find_call].
  destruct (is_call n t) eqn:E; [|exact IH].
  intros H. injection H as _ <-. unfold is_call in E. apply andb_true_iff in E. destruct E as [_ E].
  destruct (skipn (length n) t) as [|c r]; [discriminate|]. exists c, r. split; [reflexivity|].
  destruct (c =? 40); [left; reflexivity|right]. split; [reflexivity|].
  cbn [orb] in E. apply andb_true_iff in E. destruct E as [_ E]. destruct r as [|d r']; [discriminate|eauto].
Qed.

Lemma u32_dec_inc j : 0 <= j < 4294967296 -> u32 (u32 (j - 1) + 1) = j.
Proof.
  intros H. destruct (Z.eq_dec j 0) as [->|N].
  - reflexivity.
  - rewrite (u32_id (j - 1)) by lia. replace (j - 1 + 1) with j by lia. apply u32_id. lia.
Qed.

Section Step.
Variable xself : buf -> buf -> Z -> bool -> bool -> store -> res lres.
Variable lself : list byte -> list byte -> bool -> bool -> store -> llres.
Variable n : nat.
Hypothesis Hx : forall s rest pre tl q1 q2 st,
  (length s < n)%nat -> Forall nz_byte s -> (length s < CB)%nat -> pre_ok pre ->
  length (bytes pre ++ tl) = CB -> store_ok st ->
  lrel (xself (cstr s rest) (bytes pre ++ tl) (Z.of_nat (length pre)) q1 q2 st) (lself s pre q1 q2 st).
Hypothesis Hlok : forall s pre q1 q2 st,
  (length s < n)%nat -> Forall nz_byte s -> pre_ok pre -> store_ok st -> llres_ok (lself s pre q1 q2 st).

(* newbuff[j] = c'; then the next iteration *)
Lemma step_lit s' rest pre tl c' q1 q2 st :
  (length s' < n)%nat -> Forall nz_byte s' -> (length s' < CB)%nat -> pre_ok pre ->
  length (bytes pre ++ tl) = CB -> store_ok st -> Z.of_nat (length pre) < maxj -> nz_byte c' ->
  lrel (nb' <- wrz (bytes pre ++ tl) (Z.of_nat (length pre)) c' ;;
        xself (cstr s' rest) nb' (u32 (Z.of_nat (length pre) + 1)) q1 q2 st)
       (lself s' (pre ++ [c']) q1 q2 st).
Proof.
  intros Hn Hs Hcb Hpre Hlen Hst Hj Hc.
  pose proof CB_eq. pose proof cb_bounds. pose proof maxj_eq.
  assert (Hl2 := Hlen). rewrite app_length, bytes_length in Hl2.
  destruct tl as [|x tl]; [simpl in Hl2; lia|].
  rewrite wrz_app. cbn [bind]. rewrite u32_id by lia.
  replace (Z.of_nat (length pre) + 1) with (Z.of_nat (length (pre ++ [c']))) by (rewrite app_length; simpl; lia).
  apply Hx; auto.
  - now apply pre_ok_snoc.
  - rewrite app_length, bytes_length, app_length. cbn [length] in *. lia.
Qed.

(* newbuff[j++] = c1; newbuff[j] = c2; then the next iteration *)
Lemma step_lit2 s' rest pre tl c1 c2 q1 q2 st :
  (length s' < n)%nat -> Forall nz_byte s' -> (length s' < CB)%nat -> pre_ok pre ->
  length (bytes pre ++ tl) = CB -> store_ok st -> Z.of_nat (length pre) < maxj -> nz_byte c1 -> nz_byte c2 ->
  lrel (nb1 <- wrz (bytes pre ++ tl) (Z.of_nat (length pre)) c1 ;;
        nb2 <- wrz nb1 (u32 (Z.of_nat (length pre) + 1)) c2 ;;
        xself (cstr s' rest) nb2 (u32 (u32 (Z.of_nat (length pre) + 1) + 1)) q1 q2 st)
       (lself s' (pre ++ [c1; c2]) q1 q2 st).
Proof.
  intros Hn Hs Hcb Hpre Hlen Hst Hj Hc1 Hc2.
  pose proof CB_eq. pose proof cb_bounds. pose proof maxj_eq.
  assert (Hl2 := Hlen). rewrite app_length, bytes_length in Hl2.
  destruct tl as [|x tl]; [simpl in Hl2; lia|].
  destruct tl as [|y tl]; [simpl in Hl2; lia|].
  rewrite wrz_app. cbn [bind]. rewrite (u32_id (Z.of_nat (length pre) + 1)) by lia.
  replace (Z.of_nat (length pre) + 1) with (Z.of_nat (length (pre ++ [c1]))) by (rewrite app_length; simpl; lia).
  rewrite wrz_app. cbn [bind]. rewrite <- app_assoc. cbn [app].
  rewrite u32_id by (rewrite app_length; simpl; lia).
  replace (Z.of_nat (length (pre ++ [c1])) + 1) with (Z.of_nat (length (pre ++ [c1; c2])))
    by (rewrite !app_length; simpl; lia).
  apply Hx; auto.
  - now apply pre_ok_snoc2.
  - rewrite app_length, bytes_length, app_length. cbn [length] in *. lia.
Qed.

(* a value is copied in; then the next iteration *)
Lemma step_place s' rest pre tl v q1 q2 st :
  (length s' < n)%nat -> Forall nz_byte s' -> (length s' < CB)%nat -> pre_ok pre ->
  length (bytes pre ++ tl) = CB -> store_ok st -> Z.of_nat (length pre) < maxj -> val_ok v -> v <> [] ->
  lrel ('(nb', j') <- place (bytes pre ++ tl) (Z.of_nat (length pre)) v ;;
        xself (cstr s' rest) nb' (u32 (j' + 1)) q1 q2 st)
       (lself s' (lplace pre v) q1 q2 st).
Proof.
  intros Hn Hs Hcb Hpre Hlen Hst Hj Hv Hne.
  destruct (place_lplace pre v tl Hv Hne Hlen Hj) as (tl' & j' & -> & Hj' & Hlen').
  cbn [bind]. rewrite Hj'. apply Hx; auto. now apply pre_ok_lplace.
Qed.

(* nothing is stored, j--; then the next iteration *)
Lemma step_skip s' rest pre tl q1 q2 st :
  (length s' < n)%nat -> Forall nz_byte s' -> (length s' < CB)%nat -> pre_ok pre ->
  length (bytes pre ++ tl) = CB -> store_ok st ->
  lrel (xself (cstr s' rest) (bytes pre ++ tl) (u32 (u32 (Z.of_nat (length pre) - 1) + 1)) q1 q2 st)
       (lself s' pre q1 q2 st).
Proof.
  intros Hn Hs Hcb Hpre Hlen Hst. pose proof cb_bounds. pose proof (proj1 (proj2 Hpre)).
  rewrite u32_dec_inc by lia. apply Hx; auto.
Qed.

Lemma xbody_lbody s rest pre nbt q1 q2 st :
  (length s <= n)%nat -> Forall nz_byte s -> (length s < CB)%nat -> pre_ok pre ->
  length (bytes pre ++ nbt) = CB -> store_ok st ->
  lrel (xbody genv progname progver exec_out dir_list extra ufn xself (cstr s rest) (bytes pre ++ nbt) (Z.of_nat (length pre)) q1 q2 st)
       (lbody genv progname progver exec_out dir_list extra ufn lself s pre q1 q2 st).
Proof.
  intros Hn Hs Hcb Hpre Hlen Hst.
  pose proof CB_eq as HCB. pose proof cb_bounds as Hcbb. pose proof maxj_eq as Hm.
  unfold xbody, lbody. rewrite rdn0_cstr. cbn [bind].
  destruct s as [|c t].
  { cbn [hd Z.eqb orb]. exists nbt. split; [reflexivity|exact Hlen]. }
  pose proof (Forall_nz_cons _ _ Hs) as [Hc Ht]. cbn [length] in Hn, Hcb.
  cbn [hd]. rewrite (nz_neq0 c Hc). cbn [orb].
  destruct (Z.ltb_spec (Z.of_nat (length pre)) maxj) as [Hj|Hj]; cbn [negb].
  2:{ exists nbt. split; [reflexivity|exact Hlen]. }
  cbv zeta. rewrite tl_cstr.
  assert (Hlit : forall q1' q2',
    lrel (nb' <- wrz (bytes pre ++ nbt) (Z.of_nat (length pre)) c ;;
          xself (cstr t rest) nb' (u32 (Z.of_nat (length pre) + 1)) q1' q2' st)
         (lself t (pre ++ [c]) q1' q2' st)).
  { intros. apply step_lit; auto; lia. }
  destruct (c =? 126).
  { destruct (if q1 || q2 then None else genv HOME) as [[|h ht]|] eqn:E; try apply Hlit.
    apply step_place; [lia|assumption|lia|assumption|assumption|assumption|assumption| |discriminate].
    destruct (q1 || q2); [discriminate|]. eapply genv_nz; eassumption. }
  destruct (c =? 92).
  { rewrite rdn1_cstr. cbn [bind].
    destruct t as [|d t'].
    - cbn [hd Z.eqb]. apply Hlit.
    - pose proof (Forall_nz_cons _ _ Ht) as [Hd Ht']. cbn [length] in Hn, Hcb.
      cbn [hd]. rewrite (nz_neq0 d Hd). rewrite tl_cstr.
      destruct (negb q1 || (d =? 39)).
      + apply step_lit; auto; try lia. now apply esc_nz.
      + apply step_lit2; auto; try lia. }
  destruct (c =? 37).
  { rewrite (find_builtin_cstr (full_table extra) t rest (full_table_nz extra extra_nz) Ht). cbn [bind].
    destruct (find_call (full_table extra) t) as [[code nlen]|] eqn:Efc.
    2:{ rewrite rdn0_cstr. cbn [bind]. destruct t as [|d t'].
        - cbn [hd Z.eqb]. apply step_lit; auto; simpl; lia.
        - pose proof (Forall_nz_cons _ _ Ht) as [Hd Ht']. cbn [length] in Hn, Hcb.
          cbn [hd]. rewrite (nz_neq0 d Hd). rewrite tl_cstr.
          apply step_lit; auto; try lia. }
    pose proof (find_call_len _ _ _ _ Efc) as Hnl.
    destruct (find_call_shape _ _ _ _ Efc) as (c2 & r2 & Esk & Hshape).
    rewrite skipn_cstr by lia. rewrite rdn0_cstr. cbn [bind].
    assert (Etl : tl (if hd 0 (skipn nlen t) =? 40 then cstr (skipn nlen t) rest else tl (cstr (skipn nlen t) rest))
                  = cstr (after_open nlen t) rest).
    { unfold after_open. rewrite Esk. cbn [hd].
      destruct Hshape as [E|[E (d & r' & ->)]]; rewrite E; rewrite !tl_cstr; reflexivity. }
    rewrite Etl. clear Etl.
    destruct (after_open_facts nlen t Ht) as [Hao Haol].
    change (repeat None CB) with (bytes [] ++ repeat (@None byte) CB) at 1.
    change 0%nat with (@length byte []) at 1.
    rewrite scan_args_cstr by (auto; lia).
    pose proof (split_args_app (after_open nlen t) 1) as Happ.
    pose proof (split_args_nz (after_open nlen t) 1 Hao) as Hnz.
    pose proof (split_args_closed (after_open nlen t) 1 ltac:(lia)) as Hcl.
    destruct (split_args (after_open nlen t) 1) as [[a r] l].
    destruct Hnz as [Ha Hr]. cbn [bind app length Nat.add].
    assert (Hlenar : (length a + length r <= length t)%nat).
    { rewrite Happ, app_length in Haol. exact Haol. }
    destruct (Z.eqb_spec l 0) as [->|Hl]; cbn [negb]; [|reflexivity].
    specialize (Hcl eq_refl).
    pose proof (removelast_len a Hcl) as Hal.
    (* *(--tmp1) = 0 turns Command into the C string of the argument text *)
    assert (Ecmd : wrz (bytes a ++ repeat None (CB - length a)) (Z.of_nat (length a) - 1) 0 =
                   Ok (cstr (removelast a) (repeat None (CB - length a)))).
    { rewrite (app_removelast_last 0 Hcl) at 1. rewrite bytes_app, <- app_assoc. cbn [bytes map app].
      replace (Z.of_nat (length a) - 1) with (Z.of_nat (length (removelast a))) by lia.
      rewrite wrz_app. rewrite bytes_app, <- app_assoc. reflexivity. }
    rewrite Ecmd. cbn [bind]. clear Ecmd.
    pose proof pre_ok_nil as Hnil.
    assert (Hra : Forall nz_byte (removelast a)) by now apply removelast_nz.
    pose proof (Hx (removelast a) (repeat None (CB - length a)) [] (repeat None CB) false false st
                   ltac:(lia) Hra ltac:(lia) Hnil ltac:(cbn; apply repeat_length) Hst) as Hin.
    pose proof (Hlok (removelast a) [] false false st ltac:(lia) Hra Hnil Hst) as Hok.
    cbn [bytes map app length Z.of_nat] in Hin.
    destruct (lself (removelast a) [] false false st) as [pre1 st1|st1|e|] eqn:Ein.
    - (* the argument text expanded *)
      destruct Hin as (tl1 & -> & Hlen1). destruct Hok as [Hpre1 Hst1]. cbn [bind].
      rewrite finish_list; [|exact Hlen1|exact (proj1 Hpre1)|exact (proj1 (proj2 Hpre1))|].
      2:{ intros Hlt. pose proof (cut0_len pre1). rewrite cstr_length, repeat_length. lia. }
      cbn [bind].
      pose proof (s_builtin_ok code (lfinish pre1) st1 Hst1 ltac:(intros o E; eapply lfinish_arg_ok; eassumption)) as Hb.
      assert (Ecall : call_builtin progname progver exec_out dir_list ufn code
                        match lfinish pre1 with
                        | Some o => Some (cstr o (skipn (S (length o)) (cstr (removelast a) (repeat None (CB - length a)))))
                        | None => None
                        end st1 = Ok (s_builtin progname progver exec_out dir_list ufn code (lfinish pre1) st1)).
      { destruct (lfinish pre1) as [o|] eqn:Ef; [|apply call_builtin_null].
        destruct (lfinish_ok pre1 o Hpre1 Ef) as [Ho _].
        apply call_builtin_exact; [exact Ho|].
        unfold lfinish in Ef. destruct (Z.ltb_spec (Z.of_nat (length pre1)) config_buff); [|discriminate].
        injection Ef as <-. pose proof (cut0_len pre1). lia. }
      rewrite Ecall. cbn [bind]. clear Ecall.
      destruct (s_builtin progname progver exec_out dir_list ufn code (lfinish pre1) st1) as [out st2].
      destruct Hb as (Hst2 & Hout).
      destruct out as [|[|o ot]|e]; try reflexivity.
      + apply step_skip; [lia|assumption|lia|assumption|assumption|assumption].
      + apply step_skip; [lia|assumption|lia|assumption|assumption|assumption].
      + apply step_place; [lia|assumption|lia|assumption|assumption|assumption|assumption| |discriminate]. now apply Hout.
    - (* the argument text could not be expanded: the function gets NULL *)
      rewrite Hin. cbn [bind]. rewrite call_builtin_null. cbn [bind].
      pose proof (s_builtin_ok code None st1 Hok ltac:(discriminate)) as Hb.
      destruct (s_builtin progname progver exec_out dir_list ufn code None st1) as [out st2].
      destruct Hb as (Hst2 & Hout).
      destruct out as [|[|o ot]|e]; try reflexivity.
      + apply step_skip; [lia|assumption|lia|assumption|assumption|assumption].
      + apply step_skip; [lia|assumption|lia|assumption|assumption|assumption].
      + apply step_place; [lia|assumption|lia|assumption|assumption|assumption|assumption| |discriminate]. now apply Hout.
    - rewrite Hin. reflexivity.
    - rewrite Hin. reflexivity. }
  destruct (c =? 96). { destruct q1; [apply Hlit|reflexivity]. }
  destruct (c =? 36).
  { destruct q1; [apply Hlit|].
    rewrite scan_env_cstr by exact Ht. cbn [bind].
    pose proof (env_ref_nz t Ht) as Hr. pose proof (env_ref_len t) as Hrl.
    destruct (env_ref t) as [name r]. cbn [fst snd] in *.
    destruct (genv name) as [[|v vt]|] eqn:E.
    - apply step_skip; [lia|assumption|lia|assumption|assumption|assumption].
    - apply step_place; [lia|assumption|lia|assumption|assumption|assumption|assumption| |discriminate]. eapply genv_nz; eassumption.
    - apply step_skip; [lia|assumption|lia|assumption|assumption|assumption]. }
  destruct (c =? 34); [apply Hlit|]. destruct (c =? 39); apply Hlit.
Qed.

End Step.

Theorem xloop_lloop : forall fuel s rest pre tl q1 q2 st,
  (length s < fuel)%nat ->
  Forall nz_byte s -> (length s < CB)%nat -> pre_ok pre -> length (bytes pre ++ tl) = CB -> store_ok st ->
  lrel (xloop genv progname progver exec_out dir_list extra ufn fuel (cstr s rest) (bytes pre ++ tl) (Z.of_nat (length pre)) q1 q2 st)
       (lloop genv progname progver exec_out dir_list extra ufn fuel s pre q1 q2 st).
Proof.
  induction fuel as [|f IH]; intros s rest pre tl q1 q2 st Hf Hs Hcb Hpre Hlen Hst; [lia|].
  cbn [xloop lloop].
  apply (xbody_lbody (xloop genv progname progver exec_out dir_list extra ufn f) (lloop genv progname progver exec_out dir_list extra ufn f) (length s));
    [ | | apply le_n | assumption | assumption | assumption | assumption | assumption].
  - intros s0 rest0 pre0 tl0 q0 q3 st0 H0 H1 H2 H3 H4 H5. apply IH; auto. lia.
  - intros s0 pre0 q0 q3 st0 H0 H1 H2 H3. apply lloop_ok; auto. lia.
Qed.

End Refinement.
