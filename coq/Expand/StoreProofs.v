(* The variable store of conf.c (spifconf_get_var / spifconf_put_var): order facts about
   strcmp, the sortedness invariant, and the law "after put k v, get k gives v until k is put
   again or deleted" for every history of puts and deletions. *)
From LV Require Import Base.Buf Expand.ExpandModel.
Local Open Scope Z_scope.

(* ---------- strcmp is a strict total order on byte strings ---------- *)
Lemma strcmp_refl a : strcmp a a = Eq.
Proof. induction a as [|x a IH]; simpl; [reflexivity|]. now rewrite Z.compare_refl. Qed.

Lemma strcmp_eq a : forall b, strcmp a b = Eq -> a = b.
Proof.
  induction a as [|x a IH]; intros [|y b] H; simpl in H; try discriminate; [reflexivity|].
  destruct (x ?= y) eqn:E; try discriminate.
  apply Z.compare_eq in E. subst. f_equal. now apply IH.
Qed.

Lemma strcmp_eq_iff a b : strcmp a b = Eq <-> a = b.
Proof. split; [apply strcmp_eq|intros ->; apply strcmp_refl]. Qed.

Lemma strcmp_antisym a : forall b, strcmp b a = CompOpp (strcmp a b).
Proof.
  induction a as [|x a IH]; intros [|y b]; simpl; try reflexivity.
  rewrite (Z.compare_antisym x y). destruct (x ?= y); simpl; auto.
Qed.

Lemma strcmp_gt_lt a b : strcmp a b = Gt -> strcmp b a = Lt.
Proof. intros H. rewrite strcmp_antisym, H. reflexivity. Qed.
Lemma strcmp_lt_gt a b : strcmp a b = Lt -> strcmp b a = Gt.
Proof. intros H. rewrite strcmp_antisym, H. reflexivity. Qed.

Lemma strcmp_trans a : forall b c, strcmp a b = Lt -> strcmp b c = Lt -> strcmp a c = Lt.
Proof.
  induction a as [|x a IH]; intros [|y b] [|z c] H1 H2; simpl in *; try discriminate; try reflexivity.
  destruct (x ?= y) eqn:E1; try discriminate.
  - apply Z.compare_eq in E1. subst y.
    destruct (x ?= z) eqn:E2; try discriminate; [|reflexivity]. eapply IH; eassumption.
  - destruct (y ?= z) eqn:E2; try discriminate.
    + apply Z.compare_eq in E2. subst z. now rewrite E1.
    + assert (x ?= z = Lt) as ->; [|reflexivity].
      rewrite Z.compare_lt_iff in *. lia.
Qed.

Lemma strcmp_lt_neq a b : strcmp a b = Lt -> a <> b.
Proof. intros H ->. rewrite strcmp_refl in H. discriminate. Qed.

(* ---------- the invariant: names strictly ascending (hence one entry per name) ---------- *)
Definition lt_all (k : list byte) (t : store) : Prop := Forall (fun e => strcmp k (fst e) = Lt) t.

Fixpoint sorted (st : store) : Prop :=
  match st with
  | [] => True
  | (k, _) :: t => lt_all k t /\ sorted t
  end.

Lemma lt_all_trans k k' t : strcmp k k' = Lt -> lt_all k' t -> lt_all k t.
Proof.
  unfold lt_all. intros H F. eapply Forall_impl; [|exact F].
  intros e He. eapply strcmp_trans; eassumption.
Qed.

Lemma put_var_Forall (P : list byte * list byte -> Prop) st k val :
  Forall P st -> (forall v, val = Some v -> P (k, v)) -> (forall k0 x v, P (k0, x) -> P (k0, v)) ->
  Forall P (put_var st k val).
Proof.
  intros F Hk Hrep. induction st as [|[k0 x] t IH]; simpl.
  - destruct val; constructor; auto.
  - inversion F as [|? ? Hx Ht]; subst.
    destruct (strcmp k k0) eqn:E.
    + destruct val; [constructor; eauto|assumption].
    + destruct val; [constructor; auto|assumption].
    + constructor; auto.
Qed.

Theorem put_var_sorted st k val : sorted st -> sorted (put_var st k val).
Proof.
  induction st as [|[k0 x] t IH]; simpl; intros S.
  - destruct val; simpl; auto. split; [constructor|exact I].
  - destruct S as [L S].
    destruct (strcmp k k0) eqn:E.
    + destruct val; simpl; auto.
    + destruct val; simpl; [|auto].
      split; [|auto]. constructor; [exact E|]. eapply lt_all_trans; eassumption.
    + simpl. split; [|auto].
      apply put_var_Forall; [exact L| |auto].
      intros v _. simpl. now apply strcmp_gt_lt.
Qed.

Lemma get_var_lt_all k t : lt_all k t -> get_var t k = None.
Proof.
  unfold lt_all. induction t as [|[k0 x] t IH]; simpl; intros F; [reflexivity|].
  inversion F as [|? ? H0 Ht]; subst. simpl in H0.
  rewrite (strcmp_lt_gt _ _ H0). auto.
Qed.

(* put then get, same name: unconditional *)
Theorem get_put_same st k v : get_var (put_var st k (Some v)) k = Some v.
Proof.
  induction st as [|[k0 x] t IH]; simpl.
  - now rewrite strcmp_refl.
  - destruct (strcmp k k0) eqn:E; simpl.
    + apply strcmp_eq in E. subst. now rewrite strcmp_refl.
    + now rewrite strcmp_refl.
    + rewrite (strcmp_gt_lt _ _ E). exact IH.
Qed.

(* delete then get, same name: needs the invariant (one entry per name) *)
Theorem get_delete_same st k : sorted st -> get_var (put_var st k None) k = None.
Proof.
  induction st as [|[k0 x] t IH]; simpl; intros S; [reflexivity|].
  destruct S as [L S].
  destruct (strcmp k k0) eqn:E; simpl.
  - apply strcmp_eq in E. subst. now apply get_var_lt_all.
  - rewrite (strcmp_lt_gt _ _ E). apply get_var_lt_all. eapply lt_all_trans; eassumption.
  - rewrite (strcmp_gt_lt _ _ E). auto.
Qed.

(* any put or delete of one name leaves every other name alone: unconditional *)
Theorem get_put_other st k val k' : k' <> k -> get_var (put_var st k val) k' = get_var st k'.
Proof.
  intros N. induction st as [|[k0 x] t IH]; simpl.
  - destruct val; simpl; [|reflexivity].
    destruct (strcmp k k') eqn:E; try reflexivity. apply strcmp_eq in E. congruence.
  - destruct (strcmp k k0) eqn:E.
    + apply strcmp_eq in E. subst k0.
      assert (strcmp k k' <> Eq) as Hne by (intros H; apply strcmp_eq in H; congruence).
      destruct val; simpl; destruct (strcmp k k'); try reflexivity; congruence.
    + destruct val; simpl; [|reflexivity].
      destruct (strcmp k k') eqn:E'; try reflexivity. apply strcmp_eq in E'. congruence.
    + simpl. destruct (strcmp k0 k'); auto.
Qed.

(* ---------- histories ---------- *)
Inductive sop : Type := SPut (k v : list byte) | SDel (k : list byte).

Definition apply_sop (st : store) (o : sop) : store :=
  match o with SPut k v => put_var st k (Some v) | SDel k => put_var st k None end.

(* the ideal store, with the history in execution order: the last operation on k decides *)
Definition last_write (ops : list sop) (k : list byte) : option (list byte) :=
  fold_left (fun acc o =>
               match o with
               | SPut k' v => if list_eq_dec Z.eq_dec k' k then Some v else acc
               | SDel k' => if list_eq_dec Z.eq_dec k' k then None else acc
               end) ops None.

Lemma store_law_gen ops : forall st,
  sorted st ->
  sorted (fold_left apply_sop ops st) /\
  forall k, get_var (fold_left apply_sop ops st) k =
            fold_left (fun acc o =>
               match o with
               | SPut k' v => if list_eq_dec Z.eq_dec k' k then Some v else acc
               | SDel k' => if list_eq_dec Z.eq_dec k' k then None else acc
               end) ops (get_var st k).
Proof.
  induction ops as [|o ops IH]; intros st S; simpl; [auto|].
  assert (S' : sorted (apply_sop st o)) by (destruct o; simpl; now apply put_var_sorted).
  destruct (IH _ S') as [HS HG]. split; [exact HS|].
  intros k. rewrite HG. f_equal.
  destruct o as [k' v|k']; simpl; destruct (list_eq_dec Z.eq_dec k' k) as [->|N].
  - apply get_put_same.
  - apply get_put_other. congruence.
  - now apply get_delete_same.
  - apply get_put_other. congruence.
Qed.

(* the store law: from the empty store, after any history of puts and deletions the list is
   strictly ascending by name (one entry per name) and get k returns the value of the last
   put of k unless k was deleted afterwards *)
Theorem store_law ops :
  sorted (fold_left apply_sop ops []) /\
  forall k, get_var (fold_left apply_sop ops []) k = last_write ops k.
Proof. apply (store_law_gen ops []). exact I. Qed.

(* one entry per name, spelled out *)
Theorem sorted_unique st : sorted st -> NoDup (map fst st).
Proof.
  induction st as [|[k x] t IH]; simpl; intros S; [constructor|].
  destruct S as [L S]. constructor; [|auto].
  intros Hin. apply in_map_iff in Hin. destruct Hin as [[k' x'] [E Hin]]. simpl in E. subst k'.
  unfold lt_all in L. rewrite Forall_forall in L. specialize (L _ Hin). simpl in L.
  rewrite strcmp_refl in L. discriminate.
Qed.
