(* Facts about the word grammar of C12 (Split/SplitModel.v: words, get_word, num_words) that the
   %get / %put built-ins need and that Split/SplitProofs.v does not state: the words of a
   NUL-free string are NUL-free, there are at most as many words as characters, and what
   spiftool_get_word(1, ..) returns when there is no word at all. *)
From LV Require Import Base.Buf Split.SplitModel Split.SplitProofs.
Local Open Scope Z_scope.

Lemma push_nonnil c X : push c X <> [].
Proof. destruct X; discriminate. Qed.

Lemma push_length c X : length (push c X) = Nat.max 1 (length X).
Proof. destruct X; simpl; lia. Qed.

Lemma single_nz c : nz_byte c -> Forall (Forall nz_byte) [[c]].
Proof. intros H. constructor; [constructor; [exact H|constructor]|constructor]. Qed.

Lemma push_nz c X : nz_byte c -> Forall (Forall nz_byte) X -> Forall (Forall nz_byte) (push c X).
Proof.
  intros Hc HX. destruct X as [|w X]; simpl; [now apply single_nz|].
  inversion HX; subst. constructor; [constructor|]; assumption.
Qed.

(* by induction on a bound of the length: wsm recurses on the tail and on the tail's tail *)
Lemma wsm_facts : forall n s inw dl, (length s <= n)%nat -> Forall nz_byte s ->
  Forall (Forall nz_byte) (wsm inw dl s) /\
  (length (wsm inw dl s) <= length s + (if inw then 1 else 0))%nat.
Proof.
  induction n as [|n IH]; intros s inw dl Hn Hs.
  - destruct s; [|simpl in Hn; lia]. destruct inw; simpl; split; auto; repeat constructor.
  - destruct s as [|c t]; [destruct inw; simpl; split; auto; repeat constructor|].
    apply Forall_nz_cons in Hs. destruct Hs as [Hc Ht]. simpl in Hn.
    cbn [wsm length].
    destruct (negb inw && isspace c).
    { destruct (IH t false 0 ltac:(lia) Ht) as [A B]. split; [exact A|]. simpl in B. destruct inw; lia. }
    destruct (negb inw && is_q c) eqn:E2.
    { destruct (IH t true c ltac:(lia) Ht) as [A B]. split; [exact A|].
      apply andb_true_iff in E2. destruct E2 as [E2 _]. destruct inw; [discriminate|]. lia. }
    destruct (inw && WDELIM dl c) eqn:E3.
    { destruct (IH t false 0 ltac:(lia) Ht) as [A B]. split; [constructor; [constructor|exact A]|].
      apply andb_true_iff in E3. destruct E3 as [E3 _]. subst inw. simpl in *. lia. }
    destruct (c =? 92).
    { destruct t as [|c2 t2].
      - split; [now apply single_nz|]. simpl. destruct inw; lia.
      - apply Forall_nz_cons in Ht. destruct Ht as [Hc2 Ht2]. simpl in Hn.
        destruct (is_q c2).
        + destruct (IH t2 true dl ltac:(lia) Ht2) as [A B]. split; [now apply push_nz|].
          rewrite push_length. cbn [length] in *. destruct inw; lia.
        + destruct (IH (c2 :: t2) true dl ltac:(simpl; lia) ltac:(constructor; assumption)) as [A B].
          split; [now apply push_nz|]. rewrite push_length. cbn [length] in *. destruct inw; lia. }
    destruct (IH t true dl ltac:(lia) Ht) as [A B]. split; [now apply push_nz|].
    rewrite push_length. destruct inw; lia.
Qed.

Lemma words_nz s : Forall nz_byte s -> Forall (Forall nz_byte) (words s).
Proof. intros H. exact (proj1 (wsm_facts (length s) s false 0 (le_n _) H)). Qed.

Lemma words_length s : Forall nz_byte s -> (length (words s) <= length s)%nat.
Proof. intros H. pose proof (proj2 (wsm_facts (length s) s false 0 (le_n _) H)). simpl in *. unfold words. lia. Qed.

(* no word is longer than the string *)
Lemma push_short c X n : Forall (fun w : list byte => (length w <= n)%nat) X ->
  Forall (fun w : list byte => (length w <= S n)%nat) (push c X).
Proof.
  intros H. destruct X as [|w X]; simpl.
  - constructor; [simpl; lia|constructor].
  - inversion H; subst. constructor; [simpl; lia|]. eapply Forall_impl; [|eassumption]. simpl. intros; lia.
Qed.

Lemma wsm_short : forall n s inw dl, (length s <= n)%nat ->
  Forall (fun w : list byte => (length w <= length s)%nat) (wsm inw dl s).
Proof.
  assert (Hmono : forall (X : list (list byte)) a b, (a <= b)%nat ->
            Forall (fun w : list byte => (length w <= a)%nat) X -> Forall (fun w : list byte => (length w <= b)%nat) X).
  { intros X a b Hab H. eapply Forall_impl; [|exact H]. simpl. intros; lia. }
  induction n as [|n IH]; intros s inw dl Hn.
  - destruct s; [|simpl in Hn; lia]. destruct inw; simpl; repeat constructor.
  - destruct s as [|c t]; [destruct inw; simpl; repeat constructor|].
    simpl in Hn. cbn [wsm length].
    destruct (negb inw && isspace c). { apply (Hmono _ (length t)); [lia|]. apply IH. lia. }
    destruct (negb inw && is_q c). { apply (Hmono _ (length t)); [lia|]. apply IH. lia. }
    destruct (inw && WDELIM dl c).
    { constructor; [simpl; lia|]. apply (Hmono _ (length t)); [lia|]. apply IH. lia. }
    destruct (c =? 92).
    { destruct t as [|c2 t2]; [constructor; [simpl; lia|constructor]|].
      simpl in Hn. destruct (is_q c2).
      - apply (Hmono _ (S (length t2))); [simpl; lia|]. apply push_short. apply IH. lia.
      - apply push_short. apply IH. simpl. lia. }
    apply push_short. apply IH. lia.
Qed.

Lemma words_short s : Forall (fun w : list byte => (length w <= length s)%nat) (words s).
Proof. exact (wsm_short (length s) s false 0 (le_n _)). Qed.

Lemma wsm_true_nonnil dl s : wsm true dl s <> [].
Proof.
  destruct s as [|c t]; [discriminate|]. cbn [wsm negb andb].
  destruct (WDELIM dl c); [discriminate|].
  destruct (c =? 92); [|apply push_nonnil].
  destruct t as [|c2 t2]; [discriminate|]. destruct (is_q c2); apply push_nonnil.
Qed.

(* no word at all: the string consists of blanks *)
Lemma words_nil_blank s : words s = [] -> drop_ws s = [].
Proof.
  unfold words. rewrite wsm_drop.
  destruct (drop_ws_head s) as [E|(c & t & E & Hsp)]; [auto|].
  rewrite E. cbn [wsm negb andb]. rewrite Hsp.
  destruct (is_q c); [intros H; now apply wsm_true_nonnil in H|].
  destruct (c =? 92); [|intros H; now apply push_nonnil in H].
  destruct t as [|c2 t2]; [discriminate|]. destruct (is_q c2); intros H; now apply push_nonnil in H.
Qed.

(* spiftool_get_word(1, str) when str has no word: NULL for the empty string, an empty
   string if there are blanks (the loop runs once and stores a terminator) *)
Lemma get_word_1_nowords s rest : Forall nz_byte s -> words s = [] ->
  get_word 1 (cstr s rest) = Ok (match s with [] => None | _ => Some [] end).
Proof.
  intros Hs Hw. rewrite (get_word_unfold s rest 1 Hs).
  destruct s as [|c t].
  - rewrite !cstr_nil. cbn. reflexivity.
  - pose proof (words_nil_blank _ Hw) as Hd.
    pose proof (Forall_nz_cons _ _ Hs) as [Hc Ht].
    cbn [gw_words]. replace (0 <? 1) with true by reflexivity.
    rewrite cstr_cons at 1. rewrite rdn0_cons. cbn [bind]. rewrite (nz_neq0 c Hc).
    rewrite (skip_space_cstr _ rest Hs). cbn [bind]. rewrite Hd.
    unfold open_quote. rewrite rdn0_cstr_nil. cbn [bind]. replace (is_q 0) with false by reflexivity.
    cbn [gw_chars]. rewrite rdn0_cstr_nil. cbn [bind Z.eqb orb].
    unfold close_quote. rewrite rdn0_cstr_nil. cbn [bind]. replace (is_q 0) with false by reflexivity.
    rewrite (cstr_nil (repeat None (length (c :: t)))), wrn_head. cbn [bind].
    rewrite cstr_length. cbn [length Nat.add]. cbn [gw_words].
    replace (0 + 1 <? 1) with false by reflexivity. cbn [bind].
    replace (0 + 1 =? 1) with true by reflexivity. cbn. reflexivity.
Qed.
