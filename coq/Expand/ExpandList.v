(* An intermediate description of spifconf_shell_expand used only in the proofs: the same loop
   as the model, iteration for iteration and with the same fuel, but on byte lists - the
   output written so far is the list `pre` (so j = length pre and "every cell below j has been
   written" holds by construction), the input is the list of characters still to be read, and
   the line-buffer limit with its truncation rules is kept.

     ExpandProofs.v      model (buffers, checked accesses)  =  lloop   for every input
     ExpandSpecProofs.v  lloop  =  the specification sx     whenever nothing reaches the limit

   Definitions only. *)
From LV Require Export Expand.ExpandSpec.
Local Open Scope Z_scope.

Inductive llres : Type :=
| LLDone (pre : list byte) (st : store)
| LLNull (st : store)
| LLExt (e : ext)
| LLFuel.

(* what newbuff holds below the new j after `place` and the loop increment: the whole value if
   it fits below max - 1, otherwise as much as safe_strncpy lets through, its terminator, and
   j = max *)
Definition lplace (pre v : list byte) : list byte :=
  let j := Z.of_nat (length pre) in
  if Z.of_nat (length v) <=? maxj - j - 1 then pre ++ v
  else pre ++ firstn (Z.to_nat (maxj - j - 1)) v ++ [0].

(* ASSERT_RVAL(j < CONFIG_BUFF, NULL); newbuff[j] = 0; strcpy(s, newbuff): the new text of s *)
Definition lfinish (pre : list byte) : option (list byte) :=
  if Z.of_nat (length pre) <? config_buff then Some (cut0 pre) else None.

Section ListLevel.
Variable genv : list byte -> option (list byte).
Variable progname progver : list byte.
Variable exec_out : list byte -> exec_answer.
Variable dir_list : list byte -> dir_answer.
Variable extra : list (list byte * Z).
Variable ufn : Z -> option (list byte) -> option (list byte).

Definition lbody (self : list byte -> list byte -> bool -> bool -> store -> llres)
                 (s pre : list byte) (q1 q2 : bool) (st : store) : llres :=
  match s with
  | [] => LLDone pre st
  | c :: t =>
    if negb (Z.of_nat (length pre) <? maxj) then LLDone pre st
    else if c =? 126 then
      match (if q1 || q2 then None else genv HOME) with
      | Some (h :: ht) => self t (lplace pre (h :: ht)) q1 q2 st
      | _ => self t (pre ++ [c]) q1 q2 st
      end
    else if c =? 92 then
      match t with
      | [] => self [] (pre ++ [c]) q1 q2 st
      | d :: t' =>
        if negb q1 || (d =? 39) then self t' (pre ++ [esc d]) q1 q2 st
        else self t' (pre ++ [c; d]) q1 q2 st
      end
    else if c =? 37 then
      match find_call (full_table extra) t with
      | None =>
        match t with
        | [] => self [] (pre ++ [c]) q1 q2 st
        | d :: t' => self t' (pre ++ [d]) q1 q2 st
        end
      | Some (code, nlen) =>
        let '(a, rest, l) := split_args (after_open nlen t) 1 in
        if negb (l =? 0) then LLNull st
        else
          match self (removelast a) [] false false st with
          | LLFuel => LLFuel
          | LLExt e => LLExt e
          | r =>
            let '(param, st1) :=
                match r with
                | LLDone pre1 st1 => (lfinish pre1, st1)
                | LLNull st1 => (None, st1)
                | _ => (None, st)
                end in
            let '(out, st2) := s_builtin progname progver exec_out dir_list ufn code param st1 in
            match out with
            | BExt e => LLExt e
            | BStr (o :: ot) => self rest (lplace pre (o :: ot)) q1 q2 st2
            | _ => self rest pre q1 q2 st2
            end
          end
      end
    else if c =? 96 then
      if q1 then self t (pre ++ [c]) q1 q2 st else LLExt Spawn
    else if c =? 36 then
      if q1 then self t (pre ++ [c]) q1 q2 st
      else
        let '(name, rest) := env_ref t in
        match genv name with
        | Some (v :: vt) => self rest (lplace pre (v :: vt)) q1 q2 st
        | _ => self rest pre q1 q2 st
        end
    else if c =? 34 then self t (pre ++ [c]) q1 (if q1 then q2 else negb q2) st
    else if c =? 39 then self t (pre ++ [c]) (negb q1) q2 st
    else self t (pre ++ [c]) q1 q2 st
  end.

Fixpoint lloop (fuel : nat) : list byte -> list byte -> bool -> bool -> store -> llres :=
  match fuel with
  | O => fun _ _ _ _ _ => LLFuel
  | S f => lbody (lloop f)
  end.

End ListLevel.
