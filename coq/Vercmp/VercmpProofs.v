(* Proofs about the model of spiftool_version_compare (property C17).
   Part 1: the buffer-level model never faults and equals a buffer-free function `vcp`
           on the two texts (so its value cannot depend on what the scratch buffers held);
   Part 2: antisymmetry and reflexivity of `vcp` for arbitrary tables;
   Part 3: fuel independence, the unfolding equation of `vc`;
   Part 4: order facts (VercmpOrder.v). *)
From LV Require Import Base.Buf Strings.HelpersModel Strings.HelpersProofs Vercmp.VercmpModel.
Local Open Scope Z_scope.

(* ---------- small facts ---------- *)
Fixpoint takew (f : Z -> bool) (l : list Z) : list Z :=
  match l with c :: t => if f c then c :: takew f t else [] | [] => [] end.

Lemma takew_dropwhile f l : takew f l ++ dropwhile f l = l.
Proof. induction l as [|c t IH]; cbn [takew dropwhile]; [reflexivity|]. destruct (f c); cbn [app]; congruence. Qed.

Lemma dropwhile_length {A} (f : A -> bool) l : (length (dropwhile f l) <= length l)%nat.
Proof. induction l as [|c t IH]; cbn [dropwhile length]; [lia|]. destruct (f c); cbn [length]; lia. Qed.

Lemma Forall_dropwhile {A} (P : A -> Prop) f l : Forall P l -> Forall P (dropwhile f l).
Proof. induction 1 as [|c t Hc Ht IH]; cbn [dropwhile]; [constructor|]. destruct (f c); auto. Qed.

Lemma Forall_takew (P : Z -> Prop) f l : Forall P l -> Forall P (takew f l).
Proof. induction 1 as [|c t Hc Ht IH]; cbn [takew]; [constructor|]. destruct (f c); auto. Qed.

Lemma Forall_firstn {A} (P : A -> Prop) n l : Forall P l -> Forall P (firstn n l).
Proof. intros H. revert n. induction H as [|c t Hc Ht IH]; intros [|n]; cbn [firstn]; auto. Qed.

Lemma Forall_map_tolower l : Forall nz_byte l -> Forall nz_byte (map tolower l).
Proof. induction 1; cbn [map]; constructor; auto using tolower_nz. Qed.

Lemma cmp_of_int_opp x : cmp_of_int (- x) = CompOpp (cmp_of_int x).
Proof.
  unfold cmp_of_int. destruct (Z.ltb_spec (- x) 0), (Z.ltb_spec x 0), (Z.gtb_spec (- x) 0), (Z.gtb_spec x 0);
    try lia; reflexivity.
Qed.

Lemma cmp_of_int_0 : cmp_of_int 0 = Eq.
Proof. reflexivity. Qed.

Lemma cmp_of_int_Eq x : cmp_of_int x = Eq -> x = 0.
Proof. unfold cmp_of_int. destruct (Z.ltb_spec x 0), (Z.gtb_spec x 0); try discriminate; lia. Qed.

(* ---------- buffer-free string comparison ---------- *)
Fixpoint strcmp_p (f : Z -> Z) (a b : list Z) {struct a} : Z :=
  match a, b with
  | [], [] => 0
  | [], c2 :: _ => f 0 - f c2
  | c1 :: _, [] => f c1 - f 0
  | c1 :: a', c2 :: b' => if f c1 =? f c2 then strcmp_p f a' b' else f c1 - f c2
  end.

Lemma strcmp_p_opp f a b : strcmp_p f b a = - strcmp_p f a b.
Proof.
  revert b; induction a as [|c1 a IH]; intros [|c2 b]; cbn [strcmp_p]; try lia.
  rewrite (Z.eqb_sym (f c2) (f c1)). destruct (f c1 =? f c2); [apply IH | lia].
Qed.

Lemma strcmp_p_refl f a : strcmp_p f a a = 0.
Proof. induction a as [|c a IH]; cbn [strcmp_p]; [reflexivity|]. now rewrite Z.eqb_refl. Qed.

Lemma strcasecmp_l_p a b : strcasecmp_l a b = strcmp_p tolower a b.
Proof. revert b; induction a as [|c1 a IH]; intros [|c2 b]; cbn [strcasecmp_l strcmp_p]; try reflexivity.
  destruct (tolower c1 =? tolower c2); auto. Qed.

Definition sep0 (f : Z -> Z) : Prop := forall c, nz_byte c -> f c <> f 0.

Lemma idb_sep0 : sep0 idb.
Proof. unfold sep0, idb, nz_byte. lia. Qed.
Lemma tolower_sep0 : sep0 tolower.
Proof.
  intros c Hc. pose proof (tolower_nz c Hc) as H. unfold nz_byte in H.
  change (tolower 0) with 0. lia.
Qed.

Lemma strcmp_c_cstr f (a b : list Z) j1 j2 :
  sep0 f -> Forall nz_byte a -> Forall nz_byte b ->
  strcmp_c f (cstr a j1) (cstr b j2) = Ok (strcmp_p f a b).
Proof.
  intros Hf Ha. revert b. induction Ha as [|c1 a Hc1 Ha IH]; intros b Hb.
  - destruct Hb as [|c2 b Hc2 Hb]; unfold cstr, bytes; cbn [map app strcmp_c strcmp_p].
    + now rewrite !Z.eqb_refl.
    + destruct (Z.eqb_spec (f 0) (f c2)) as [E|E]; [|reflexivity].
      exfalso. apply (Hf c2 Hc2). congruence.
  - destruct Hb as [|c2 b Hc2 Hb]; unfold cstr, bytes; cbn [map app strcmp_c strcmp_p].
    + destruct (Z.eqb_spec (f c1) (f 0)) as [E|E]; [|reflexivity].
      exfalso. apply (Hf c1 Hc1). congruence.
    + fold (bytes a). fold (bytes b). fold (cstr a j1). fold (cstr b j2).
      destruct (f c1 =? f c2); [|reflexivity].
      rewrite (nz_byte_neq0 c1 Hc1). apply IH. assumption.
Qed.

(* ---------- the word-rank chain ---------- *)
Fixpoint rank_p (tbl : list (list Z * Z)) (dflt : Z) (w : list Z) : Z :=
  match tbl with
  | [] => dflt
  | (lit, r) :: tbl' => if strcmp_p idb w lit =? 0 then r else rank_p tbl' dflt w
  end.

Definition tbl_nz (tbl : list (list Z * Z)) : Prop := Forall (fun e => Forall nz_byte (fst e)) tbl.

Lemma word_rank_cstr tbl dflt (w : list Z) j :
  tbl_nz tbl -> Forall nz_byte w -> word_rank tbl dflt (cstr w j) = Ok (rank_p tbl dflt w).
Proof.
  intros Ht Hw. induction Ht as [|[lit r] tbl Hl Ht IH]; cbn [word_rank rank_p]; [reflexivity|].
  cbn [fst] in Hl. rewrite (strcmp_c_cstr idb w lit j []) by (auto using idb_sep0). cbn [bind].
  destruct (strcmp_p idb w lit =? 0); [reflexivity | exact IH].
Qed.

(* ---------- the bounded run copy ---------- *)
Lemma wrn_mid (a : buf) x c v n : n = length a -> wrn (a ++ x :: c) n v = Ok (a ++ Some v :: c).
Proof.
  intros ->. rewrite wrn_ok by (rewrite app_length; cbn [length]; lia).
  rewrite upd_app_r by lia. rewrite Nat.sub_diag. reflexivity.
Qed.

(* b = bytes pre ++ rest with p = |pre| cells already written: afterwards the buffer holds
   pre followed by as much of the run as fits below the last cell, the cursor is past the
   whole run, and the length is unchanged *)
Lemma copy_run_ok cls (v : list Z) :
  forall (pre : list Z) (rest : buf) p,
  p = length pre -> rest <> [] ->
  exists rest' : buf,
    copy_run true cls v (bytes pre ++ rest) p =
      Ok (dropwhile cls v,
          bytes (pre ++ firstn (length rest - 1) (takew cls v)) ++ rest',
          (p + Nat.min (length (takew cls v)) (length rest - 1))%nat)
    /\ rest' <> []
    /\ length (bytes (pre ++ firstn (length rest - 1) (takew cls v)) ++ rest') = length (bytes pre ++ rest).
Proof.
  induction v as [|c v IH]; intros pre rest p Hp Hrest.
  - cbn [copy_run dropwhile takew length Nat.min]. rewrite firstn_nil, app_nil_r, Nat.add_0_r.
    exists rest. auto.
  - cbn [copy_run dropwhile takew]. destruct (cls c) eqn:Ec.
    + cbn [andb]. rewrite app_length, bytes_length, <- Hp.
      destruct (Nat.ltb_spec p (p + length rest - 1)) as [Hlt|Hge]; cbn [negb].
      * destruct rest as [|x rest0]; [congruence|]. cbn [length] in *.
        rewrite wrn_mid by (rewrite bytes_length; lia). cbn [bind].
        replace (bytes pre ++ Some c :: rest0) with (bytes (pre ++ [c]) ++ rest0)
          by (rewrite bytes_app, <- app_assoc; reflexivity).
        assert (Hr0 : rest0 <> []) by (destruct rest0; cbn [length] in Hlt; [lia | discriminate]).
        destruct (IH (pre ++ [c]) rest0 (S p)) as (rest' & E & Hne & Hl);
          [rewrite app_length; cbn [length]; lia | exact Hr0 |].
        exists rest'. rewrite E. split; [|split; [exact Hne|]].
        -- replace (S (length rest0) - 1)%nat with (S (length rest0 - 1)) by (destruct rest0; [congruence | cbn [length]; lia]).
           cbn [firstn length Nat.min]. rewrite <- app_assoc. cbn [app].
           replace (S p + Nat.min (length (takew cls v)) (length rest0 - 1))%nat
             with (p + S (Nat.min (length (takew cls v)) (length rest0 - 1)))%nat by lia.
           reflexivity.
        -- revert Hl. rewrite !app_length, !bytes_length, !app_length, !firstn_length. cbn [length]. lia.
      * assert (Hl1 : length rest = 1%nat) by (destruct rest; [congruence | cbn [length] in *; lia]).
        destruct (IH pre rest p Hp Hrest) as (rest' & E & Hne & Hl).
        exists rest'. rewrite E. rewrite Hl1 in *. cbn [Nat.sub firstn] in *.
        rewrite !Nat.min_0_r in *. repeat split; auto. rewrite Hl, app_length, bytes_length. lia.
    + cbn [length Nat.min]. rewrite firstn_nil, app_nil_r, Nat.add_0_r. exists rest. auto.
Qed.

Lemma copy_runs_ok cls (v1 v2 : list Z) (b1 b2 : buf) :
  b1 <> [] -> b2 <> [] ->
  exists j1 j2 : buf,
    copy_runs true cls v1 v2 b1 b2 =
      Ok (dropwhile cls v1, dropwhile cls v2,
          cstr (firstn (length b1 - 1) (takew cls v1)) j1,
          cstr (firstn (length b2 - 1) (takew cls v2)) j2)
    /\ length (cstr (firstn (length b1 - 1) (takew cls v1)) j1) = length b1
    /\ length (cstr (firstn (length b2 - 1) (takew cls v2)) j2) = length b2.
Proof.
  intros H1 H2. unfold copy_runs.
  destruct (copy_run_ok cls v1 [] b1 O eq_refl H1) as (r1 & E1 & N1 & L1).
  destruct (copy_run_ok cls v2 [] b2 O eq_refl H2) as (r2 & E2 & N2 & L2).
  cbn [bytes map app Nat.add] in *. rewrite E1. cbn [bind]. rewrite E2. cbn [bind].
  destruct r1 as [|x1 r1]; [congruence|]. destruct r2 as [|x2 r2]; [congruence|].
  rewrite (wrn_mid _ x2 r2) by (rewrite bytes_length, firstn_length; lia). cbn [bind].
  rewrite (wrn_mid _ x1 r1) by (rewrite bytes_length, firstn_length; lia). cbn [bind].
  exists r1, r2. unfold cstr. split; [reflexivity|].
  revert L1 L2. rewrite !app_length. cbn [length]. auto.
Qed.

(* ---------- the buffer-free comparison function ---------- *)
(* what the code knows about one of its two arguments *)
Record side := mkside {
  s_sz : nat;                        (* size of its scratch buffer *)
  s_words : list (list Z * Z);       (* its word -> rank chain *)
  s_dflt : Z;                        (* initial rank *)
  s_tail : list (list Z);            (* tail rule prefixes *)
  s_yes : comparison; s_no : comparison }.

Definition side_opp (s : side) : side :=
  mkside (s_sz s) (s_words s) (s_dflt s) (s_tail s) (CompOpp (s_yes s)) (CompOpp (s_no s)).

Definition side1 : side := mkside vc_bufsz1 vc_words1 vc_default1 vc_tail1 vc_tail1_yes vc_tail1_no.
Definition side2 : side := mkside vc_bufsz2 vc_words2 vc_default2 vc_tail2 vc_tail2_yes vc_tail2_no.

(* digits of a numeric run without its leading zeros, and what follows the run *)
Definition num_digits (v : list Z) : list Z := takew isdigit (skip_zeros v).
Definition num_rest (v : list Z) : list Z := dropwhile isdigit (skip_zeros v).

Definition numcmp (d1 d2 : list Z) : comparison :=
  if negb (length d1 =? length d2)%nat then (if (length d1 <? length d2)%nat then Lt else Gt)
  else cmp_of_int (strncmp_l d1 d2 (length d1)).

Definition word_of (s : side) (v : list Z) : list Z := map tolower (firstn (s_sz s - 1) (takew isalpha v)).
Definition punct_of (s : side) (v : list Z) : list Z := firstn (s_sz s - 1) (takew ispunct' v).

Fixpoint vcp (s1 s2 : side) (arb : Z) (fuel : nat) (v1 v2 : list Z) : comparison :=
  match fuel with
  | O => Eq
  | S fuel' =>
    match v1, v2 with
    | [], [] => Eq
    | _ :: _, [] => tail_rule (s_tail s1) (s_yes s1) (s_no s1) v1
    | [], _ :: _ => tail_rule (s_tail s2) (s_yes s2) (s_no s2) v2
    | c1 :: _, c2 :: _ =>
      if isalpha c1 && isalpha c2 then
        let w1 := word_of s1 v1 in let w2 := word_of s2 v2 in
        let i1 := rank_p (s_words s1) (s_dflt s1) w1 in
        let i2 := rank_p (s_words s2) (s_dflt s2) w2 in
        if negb (i1 =? i2) then cmp_of_int (i1 - i2)
        else if (i1 =? arb) && negb (strcmp_p idb w1 w2 =? 0) then cmp_of_int (strcmp_p idb w1 w2)
        else vcp s1 s2 arb fuel' (dropwhile isalpha v1) (dropwhile isalpha v2)
      else if isdigit c1 && isdigit c2 then
        match numcmp (num_digits v1) (num_digits v2) with
        | Eq => vcp s1 s2 arb fuel' (num_rest v1) (num_rest v2)
        | c => c
        end
      else if ispunct' c1 && ispunct' c2 then
        match cmp_of_int (strcmp_p tolower (punct_of s1 v1) (punct_of s2 v2)) with
        | Eq => vcp s1 s2 arb fuel' (dropwhile ispunct' v1) (dropwhile ispunct' v2)
        | r => r
        end
      else cmp_of_int (strcmp_p tolower v1 v2)
    end
  end.

Lemma span_digits_eq v : span_digits v = (takew isdigit v, dropwhile isdigit v).
Proof.
  induction v as [|c v IH]; cbn [span_digits takew dropwhile]; [reflexivity|].
  destruct (isdigit c); [rewrite IH|]; reflexivity.
Qed.

Lemma Forall_skip_zeros (P : Z -> Prop) v : Forall P v -> Forall P (skip_zeros v).
Proof. induction 1 as [|c t Hc Ht IH]; cbn [skip_zeros]; [constructor|]. destruct (c =? 48); auto. Qed.

Lemma skip_zeros_length v : (length (skip_zeros v) <= length v)%nat.
Proof. induction v as [|c v IH]; cbn [skip_zeros length]; [lia|]. destruct (c =? 48); cbn [length]; lia. Qed.

Lemma dropwhile_hd_shorter {A} (f : A -> bool) c t : f c = true -> (length (dropwhile f (c :: t)) <= length t)%nat.
Proof. intros H. cbn [dropwhile]. rewrite H. apply dropwhile_length. Qed.

Lemma num_rest_shorter c t : isdigit c = true -> (length (num_rest (c :: t)) <= length t)%nat.
Proof.
  intros H. unfold num_rest. cbn [skip_zeros]. destruct (c =? 48).
  - pose proof (dropwhile_length isdigit (skip_zeros t)). pose proof (skip_zeros_length t). lia.
  - now apply dropwhile_hd_shorter.
Qed.

Lemma tbl_nz_of_bool tbl :
  forallb (fun e => forallb (fun c => (0 <? c) && (c <? 256)) (fst e)) tbl = true -> tbl_nz tbl.
Proof.
  unfold tbl_nz. induction tbl as [|e tbl IH]; cbn [forallb]; intros H; constructor.
  - apply andb_prop in H as [H _]. induction (fst e) as [|c w IHw]; constructor.
    + cbn [forallb] in H. apply andb_prop in H as [H _]. unfold nz_byte. apply andb_prop in H as [H1 H2]. lia.
    + apply IHw. cbn [forallb] in H. now apply andb_prop in H as [_ H].
  - apply IH. now apply andb_prop in H as [_ H].
Qed.

Lemma words1_nz : tbl_nz vc_words1.
Proof. apply tbl_nz_of_bool. vm_compute. reflexivity. Qed.
Lemma words2_nz : tbl_nz vc_words2.
Proof. apply tbl_nz_of_bool. vm_compute. reflexivity. Qed.
Lemma bufsz1_pos : (1 <= vc_bufsz1)%nat.
Proof. vm_compute. lia. Qed.
Lemma bufsz2_pos : (1 <= vc_bufsz2)%nat.
Proof. vm_compute. lia. Qed.

(* Part 1: the model with buffers = the buffer-free function, for any prior buffer contents *)
Lemma vc_loop_pure : forall fuel (v1 v2 : list Z) (b1 b2 : buf),
  Forall nz_byte v1 -> Forall nz_byte v2 ->
  length b1 = vc_bufsz1 -> length b2 = vc_bufsz2 -> (length v1 < fuel)%nat ->
  vc_loop true true fuel v1 v2 b1 b2 = Ok (vcp side1 side2 vc_arbitrary fuel v1 v2).
Proof.
  induction fuel as [|fuel IH]; intros v1 v2 b1 b2 Hv1 Hv2 Hb1 Hb2 Hf; [lia|].
  cbn [vc_loop vcp].
  destruct v1 as [|c1 t1]; [destruct v2 as [|c2 t2]|].
  - reflexivity.
  - cbn [peek]. inversion Hv2 as [|? ? Hc2 _]; subst. rewrite (nz_byte_neq0 c2 Hc2). reflexivity.
  - inversion Hv1 as [|? ? Hc1 Ht1]; subst. cbn [peek]. rewrite (nz_byte_neq0 c1 Hc1). cbn [negb andb].
    destruct v2 as [|c2 t2]; [reflexivity|].
    inversion Hv2 as [|? ? Hc2 Ht2]; subst. cbn [peek]. rewrite (nz_byte_neq0 c2 Hc2). cbn [negb andb].
    assert (N1 : b1 <> []) by (pose proof bufsz1_pos; destruct b1; [cbn [length] in Hb1; lia | discriminate]).
    assert (N2 : b2 <> []) by (pose proof bufsz2_pos; destruct b2; [cbn [length] in Hb2; lia | discriminate]).
    cbn [length] in Hf.
    destruct (isalpha c1 && isalpha c2) eqn:Ea; [|destruct (isdigit c1 && isdigit c2) eqn:Ed;
      [|destruct (ispunct' c1 && ispunct' c2) eqn:Ep]].
    + (* words *)
      apply andb_prop in Ea as [Ea1 Ea2].
      destruct (copy_runs_ok isalpha (c1 :: t1) (c2 :: t2) b1 b2 N1 N2) as (j1 & j2 & E & L1 & L2).
      rewrite E. cbn [bind]. rewrite Hb1, Hb2 in *.
      set (r1 := firstn (vc_bufsz1 - 1) (takew isalpha (c1 :: t1))) in *.
      set (r2 := firstn (vc_bufsz2 - 1) (takew isalpha (c2 :: t2))) in *.
      assert (Hr1 : Forall nz_byte r1) by (apply Forall_firstn, Forall_takew; assumption).
      assert (Hr2 : Forall nz_byte r2) by (apply Forall_firstn, Forall_takew; assumption).
      rewrite (downcase_exact r1 j1 Hr1). cbn [bind]. rewrite (downcase_exact r2 j2 Hr2). cbn [bind].
      rewrite (word_rank_cstr vc_words1 vc_default1 (map tolower r1) j1 words1_nz (Forall_map_tolower _ Hr1)). cbn [bind].
      rewrite (word_rank_cstr vc_words2 vc_default2 (map tolower r2) j2 words2_nz (Forall_map_tolower _ Hr2)). cbn [bind].
      unfold word_of. cbn [s_sz s_words s_dflt side1 side2]. fold r1. fold r2.
      destruct (negb (rank_p vc_words1 vc_default1 (map tolower r1) =? rank_p vc_words2 vc_default2 (map tolower r2)));
        [reflexivity|].
      assert (Hrec : vc_loop true true fuel (dropwhile isalpha (c1 :: t1)) (dropwhile isalpha (c2 :: t2))
                       (cstr (map tolower r1) j1) (cstr (map tolower r2) j2) =
                     Ok (vcp side1 side2 vc_arbitrary fuel (dropwhile isalpha (c1 :: t1)) (dropwhile isalpha (c2 :: t2)))).
      { apply IH; try (apply Forall_dropwhile; assumption).
        - revert L1. unfold cstr. rewrite !app_length, !bytes_length, map_length. auto.
        - revert L2. unfold cstr. rewrite !app_length, !bytes_length, map_length. auto.
        - pose proof (dropwhile_hd_shorter isalpha c1 t1 Ea1). lia. }
      destruct (rank_p vc_words1 vc_default1 (map tolower r1) =? vc_arbitrary); cbn [andb]; [|exact Hrec].
      rewrite (strcmp_c_cstr idb (map tolower r1) (map tolower r2) j1 j2 idb_sep0
                 (Forall_map_tolower _ Hr1) (Forall_map_tolower _ Hr2)). cbn [bind].
      destruct (negb (strcmp_p idb (map tolower r1) (map tolower r2) =? 0)); [reflexivity | exact Hrec].
    + (* numbers *)
      apply andb_prop in Ed as [Ed1 Ed2].
      rewrite !span_digits_eq. fold (num_digits (c1 :: t1)) (num_rest (c1 :: t1)).
      fold (num_digits (c2 :: t2)) (num_rest (c2 :: t2)).
      fold (numcmp (num_digits (c1 :: t1)) (num_digits (c2 :: t2))).
      destruct (numcmp (num_digits (c1 :: t1)) (num_digits (c2 :: t2))); try reflexivity.
      apply IH; auto; try (unfold num_rest; apply Forall_dropwhile, Forall_skip_zeros; assumption).
      pose proof (num_rest_shorter c1 t1 Ed1). lia.
    + (* punctuation *)
      apply andb_prop in Ep as [Ep1 Ep2].
      destruct (copy_runs_ok ispunct' (c1 :: t1) (c2 :: t2) b1 b2 N1 N2) as (j1 & j2 & E & L1 & L2).
      rewrite E. cbn [bind]. rewrite Hb1, Hb2 in *.
      unfold punct_of. cbn [s_sz side1 side2].
      set (r1 := firstn (vc_bufsz1 - 1) (takew ispunct' (c1 :: t1))) in *.
      set (r2 := firstn (vc_bufsz2 - 1) (takew ispunct' (c2 :: t2))) in *.
      assert (Hr1 : Forall nz_byte r1) by (apply Forall_firstn, Forall_takew; assumption).
      assert (Hr2 : Forall nz_byte r2) by (apply Forall_firstn, Forall_takew; assumption).
      rewrite (strcmp_c_cstr tolower r1 r2 j1 j2 tolower_sep0 Hr1 Hr2). cbn [bind].
      destruct (cmp_of_int (strcmp_p tolower r1 r2)); try reflexivity.
      apply IH; auto; try (apply Forall_dropwhile; assumption).
      pose proof (dropwhile_hd_shorter ispunct' c1 t1 Ep1). lia.
    + (* class mismatch: the remaining texts themselves *)
      rewrite strcasecmp_l_p. reflexivity.
Qed.

(* ---------- Part 2: antisymmetry and reflexivity, for arbitrary tables ---------- *)
Lemma tail_rule_opp T y n v : tail_rule T (CompOpp y) (CompOpp n) v = CompOpp (tail_rule T y n v).
Proof. unfold tail_rule. destruct (existsb (beg_ci v) T); reflexivity. Qed.

Lemma strncmp_l_opp a b n : strncmp_l b a n = - strncmp_l a b n.
Proof.
  revert a b; induction n as [|n IH]; intros a b; cbn [strncmp_l]; [reflexivity|].
  rewrite (Z.eqb_sym (peek b) (peek a)).
  destruct (Z.eqb_spec (peek a) (peek b)) as [E|E]; [|lia].
  rewrite E. destruct (peek b =? 0); [reflexivity | apply IH].
Qed.

Lemma numcmp_opp d1 d2 : numcmp d2 d1 = CompOpp (numcmp d1 d2).
Proof.
  unfold numcmp. rewrite (Nat.eqb_sym (length d2) (length d1)).
  destruct (Nat.eqb_spec (length d1) (length d2)) as [E|E]; cbn [negb].
  - rewrite <- E, strncmp_l_opp. apply cmp_of_int_opp.
  - destruct (Nat.ltb_spec (length d2) (length d1)), (Nat.ltb_spec (length d1) (length d2)); try lia; reflexivity.
Qed.

Theorem vcp_antisym s1 s2 arb : forall fuel v1 v2,
  vcp (side_opp s2) (side_opp s1) arb fuel v2 v1 = CompOpp (vcp s1 s2 arb fuel v1 v2).
Proof.
  induction fuel as [|fuel IH]; intros v1 v2; [reflexivity|].
  cbn [vcp]. destruct v1 as [|c1 t1], v2 as [|c2 t2]; try reflexivity.
  - cbn [side_opp s_tail s_yes s_no]. apply tail_rule_opp.
  - cbn [side_opp s_tail s_yes s_no]. apply tail_rule_opp.
  - rewrite (andb_comm (isalpha c2)), (andb_comm (isdigit c2)), (andb_comm (ispunct' c2)).
    destruct (isalpha c1 && isalpha c2); [|destruct (isdigit c1 && isdigit c2); [|destruct (ispunct' c1 && ispunct' c2)]].
    + unfold word_of. cbn [side_opp s_sz s_words s_dflt].
      set (w1 := map tolower (firstn (s_sz s1 - 1) (takew isalpha (c1 :: t1)))).
      set (w2 := map tolower (firstn (s_sz s2 - 1) (takew isalpha (c2 :: t2)))).
      set (i1 := rank_p (s_words s1) (s_dflt s1) w1). set (i2 := rank_p (s_words s2) (s_dflt s2) w2).
      rewrite (Z.eqb_sym i2 i1).
      destruct (Z.eqb_spec i1 i2) as [E|E]; cbn [negb].
      * rewrite <- E. rewrite (strcmp_p_opp idb w1 w2).
        replace (- strcmp_p idb w1 w2 =? 0) with (strcmp_p idb w1 w2 =? 0)
          by (destruct (Z.eqb_spec (strcmp_p idb w1 w2) 0), (Z.eqb_spec (- strcmp_p idb w1 w2) 0); try reflexivity; lia).
        destruct ((i1 =? arb) && negb (strcmp_p idb w1 w2 =? 0)); [apply cmp_of_int_opp | apply IH].
      * replace (i2 - i1) with (- (i1 - i2)) by lia. apply cmp_of_int_opp.
    + rewrite numcmp_opp. destruct (numcmp (num_digits (c1 :: t1)) (num_digits (c2 :: t2))); cbn [CompOpp]; try reflexivity.
      apply IH.
    + unfold punct_of. cbn [side_opp s_sz]. rewrite strcmp_p_opp, cmp_of_int_opp.
      destruct (cmp_of_int (strcmp_p tolower (firstn (s_sz s1 - 1) (takew ispunct' (c1 :: t1)))
                              (firstn (s_sz s2 - 1) (takew ispunct' (c2 :: t2))))); cbn [CompOpp]; try reflexivity.
      apply IH.
    + rewrite strcmp_p_opp. apply cmp_of_int_opp.
Qed.

Lemma strncmp_l_refl a n : strncmp_l a a n = 0.
Proof.
  revert a; induction n as [|n IH]; intros a; cbn [strncmp_l]; [reflexivity|].
  rewrite Z.eqb_refl. destruct (peek a =? 0); [reflexivity | apply IH].
Qed.

Lemma numcmp_refl d : numcmp d d = Eq.
Proof. unfold numcmp. rewrite Nat.eqb_refl. cbn [negb]. now rewrite strncmp_l_refl. Qed.

Lemma class_total c : isalpha c || isdigit c || ispunct' c = true.
Proof. unfold ispunct', isalnum. destruct (isalpha c), (isdigit c); reflexivity. Qed.

Theorem vcp_refl s1 s2 arb :
  s_sz s1 = s_sz s2 -> s_words s1 = s_words s2 -> s_dflt s1 = s_dflt s2 ->
  forall fuel v, vcp s1 s2 arb fuel v v = Eq.
Proof.
  intros Hsz Hw Hd. induction fuel as [|fuel IH]; intros v; [reflexivity|].
  cbn [vcp]. destruct v as [|c t]; [reflexivity|].
  rewrite !andb_diag. pose proof (class_total c) as Hc.
  destruct (isalpha c); [|destruct (isdigit c); [|destruct (ispunct' c); [|discriminate]]].
  - unfold word_of. rewrite Hsz, Hw, Hd. rewrite Z.eqb_refl. cbn [negb].
    rewrite strcmp_p_refl. cbn [Z.eqb negb]. rewrite andb_false_r. apply IH.
  - rewrite numcmp_refl. apply IH.
  - unfold punct_of. rewrite Hsz, strcmp_p_refl. cbn [cmp_of_int Z.ltb Z.gtb Z.compare]. apply IH.
Qed.

(* ---------- Part 3: fuel independence and the top-level theorems ---------- *)
Lemma vcp_fuel s1 s2 arb : forall f f' v1 v2,
  (Nat.min (length v1) (length v2) < f)%nat -> (Nat.min (length v1) (length v2) < f')%nat ->
  vcp s1 s2 arb f v1 v2 = vcp s1 s2 arb f' v1 v2.
Proof.
  induction f as [|f IH]; intros f' v1 v2 H H'; [lia|]. destruct f' as [|f']; [lia|].
  cbn [vcp]. destruct v1 as [|c1 t1], v2 as [|c2 t2]; try reflexivity.
  cbn [length] in H, H'.
  destruct (isalpha c1 && isalpha c2) eqn:Ea; [|destruct (isdigit c1 && isdigit c2) eqn:Ed;
    [|destruct (ispunct' c1 && ispunct' c2) eqn:Ep]]; [| | |reflexivity].
  - apply andb_prop in Ea as [E1 E2].
    pose proof (dropwhile_hd_shorter isalpha c1 t1 E1). pose proof (dropwhile_hd_shorter isalpha c2 t2 E2).
    rewrite (IH f') by lia. reflexivity.
  - apply andb_prop in Ed as [E1 E2].
    pose proof (num_rest_shorter c1 t1 E1). pose proof (num_rest_shorter c2 t2 E2).
    rewrite (IH f') by lia. reflexivity.
  - apply andb_prop in Ep as [E1 E2].
    pose proof (dropwhile_hd_shorter ispunct' c1 t1 E1). pose proof (dropwhile_hd_shorter ispunct' c2 t2 E2).
    rewrite (IH f') by lia. reflexivity.
Qed.

(* the value of the comparison as a function of the two texts *)
Definition vc (a b : list Z) : comparison := vcp side1 side2 vc_arbitrary (S (length a)) a b.

Lemma sides_sym : side_opp side2 = side1 /\ side_opp side1 = side2.
Proof. split; reflexivity. Qed.

(* whatever the scratch buffers hold beforehand, the result is Ok and is vc a b *)
Theorem vercmp_any_stack (a b : list Z) (b1 b2 : buf) :
  Forall nz_byte a -> Forall nz_byte b -> length b1 = vc_bufsz1 -> length b2 = vc_bufsz2 ->
  vc_loop true true (S (length a)) a b b1 b2 = Ok (vc a b).
Proof. intros. apply vc_loop_pure; auto. Qed.

Theorem vercmp_pure (a b : list Z) : Forall nz_byte a -> Forall nz_byte b -> vercmp a b = Ok (vc a b).
Proof.
  intros Ha Hb. unfold vercmp, vercmp_gen. apply vercmp_any_stack; auto; unfold fresh; apply repeat_length.
Qed.

Theorem vercmp_safe (a b : list Z) : Forall nz_byte a -> Forall nz_byte b -> exists c, vercmp a b = Ok c.
Proof. intros Ha Hb. eexists. apply vercmp_pure; assumption. Qed.

Theorem vc_antisym a b : vc b a = CompOpp (vc a b).
Proof.
  unfold vc. destruct sides_sym as [E1 E2].
  rewrite <- (vcp_antisym side1 side2 vc_arbitrary (S (length a)) a b), E1, E2.
  apply vcp_fuel; lia.
Qed.

Theorem vercmp_antisym (a b : list Z) : Forall nz_byte a -> Forall nz_byte b ->
  exists c, vercmp a b = Ok c /\ vercmp b a = Ok (CompOpp c).
Proof.
  intros Ha Hb. exists (vc a b). rewrite (vercmp_pure a b Ha Hb), (vercmp_pure b a Hb Ha), (vc_antisym a b). split; reflexivity.
Qed.

Theorem vercmp_refl (a : list Z) : Forall nz_byte a -> vercmp a a = Ok Eq.
Proof.
  intros Ha. rewrite (vercmp_pure a a Ha Ha). unfold vc. f_equal. apply vcp_refl; reflexivity.
Qed.

(* the unfolding equation of vc: one loop iteration, fuel gone *)
Lemma vc_unfold (v1 v2 : list Z) :
  vc v1 v2 =
  match v1, v2 with
  | [], [] => Eq
  | _ :: _, [] => tail_rule vc_tail1 vc_tail1_yes vc_tail1_no v1
  | [], _ :: _ => tail_rule vc_tail2 vc_tail2_yes vc_tail2_no v2
  | c1 :: _, c2 :: _ =>
    if isalpha c1 && isalpha c2 then
      let w1 := word_of side1 v1 in let w2 := word_of side2 v2 in
      let i1 := rank_p vc_words1 vc_default1 w1 in
      let i2 := rank_p vc_words2 vc_default2 w2 in
      if negb (i1 =? i2) then cmp_of_int (i1 - i2)
      else if (i1 =? vc_arbitrary) && negb (strcmp_p idb w1 w2 =? 0) then cmp_of_int (strcmp_p idb w1 w2)
      else vc (dropwhile isalpha v1) (dropwhile isalpha v2)
    else if isdigit c1 && isdigit c2 then
      match numcmp (num_digits v1) (num_digits v2) with
      | Eq => vc (num_rest v1) (num_rest v2)
      | c => c
      end
    else if ispunct' c1 && ispunct' c2 then
      match cmp_of_int (strcmp_p tolower (punct_of side1 v1) (punct_of side2 v2)) with
      | Eq => vc (dropwhile ispunct' v1) (dropwhile ispunct' v2)
      | r => r
      end
    else cmp_of_int (strcmp_p tolower v1 v2)
  end.
Proof.
  unfold vc at 1. cbn [vcp]. destruct v1 as [|c1 t1], v2 as [|c2 t2]; try reflexivity.
  cbn [s_words s_dflt side1 side2].
  destruct (isalpha c1 && isalpha c2) eqn:Ea; [|destruct (isdigit c1 && isdigit c2) eqn:Ed;
    [|destruct (ispunct' c1 && ispunct' c2) eqn:Ep]]; [| | |reflexivity].
  - apply andb_prop in Ea as [E1 E2]. pose proof (dropwhile_hd_shorter isalpha c1 t1 E1).
    unfold vc. rewrite (vcp_fuel side1 side2 vc_arbitrary (length (c1 :: t1)) (S (length (dropwhile isalpha (c1 :: t1)))));
      [reflexivity | cbn [length]; lia | lia].
  - apply andb_prop in Ed as [E1 E2]. pose proof (num_rest_shorter c1 t1 E1).
    unfold vc. rewrite (vcp_fuel side1 side2 vc_arbitrary (length (c1 :: t1)) (S (length (num_rest (c1 :: t1)))));
      [reflexivity | cbn [length]; lia | lia].
  - apply andb_prop in Ep as [E1 E2]. pose proof (dropwhile_hd_shorter ispunct' c1 t1 E1).
    unfold vc. rewrite (vcp_fuel side1 side2 vc_arbitrary (length (c1 :: t1)) (S (length (dropwhile ispunct' (c1 :: t1)))));
      [reflexivity | cbn [length]; lia | lia].
Qed.

(* the same call on any other initial content of the two scratch buffers gives the same value *)
Theorem vercmp_deterministic (a b : list Z) (b1 b2 : buf) :
  Forall nz_byte a -> Forall nz_byte b -> length b1 = vc_bufsz1 -> length b2 = vc_bufsz2 ->
  vc_loop true true (S (length a)) a b b1 b2 = vercmp a b.
Proof. intros Ha Hb L1 L2. rewrite vercmp_pure by assumption. apply vercmp_any_stack; assumption. Qed.
