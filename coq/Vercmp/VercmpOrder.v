(* Order facts of spiftool_version_compare on well-formed versions (property C17, part 4):
   numeric components are compared by value at arbitrary precision, a common prefix that
   ends at a run boundary is irrelevant, the tail rule, the pre-release word ranks. *)
From LV Require Import Base.Buf Strings.HelpersModel Strings.HelpersProofs Vercmp.VercmpModel Vercmp.VercmpProofs.
Local Open Scope Z_scope.

(* ---------- decimal value of digit strings ---------- *)
Definition digitb (c : Z) : Prop := 48 <= c <= 57.

Lemma isdigit_iff c : isdigit c = true <-> digitb c.
Proof. unfold isdigit, digitb. rewrite andb_true_iff, !Z.leb_le. tauto. Qed.

Lemma forallb_digits d : forallb isdigit d = true <-> Forall digitb d.
Proof.
  induction d as [|c d IH]; cbn [forallb]; [split; auto|].
  rewrite andb_true_iff, IH, isdigit_iff. split; [intros [H1 H2]; auto | inversion 1; auto].
Qed.

Lemma dval_acc d : forall acc,
  fold_left (fun a c => 10 * a + (c - 48)) d acc = acc * 10 ^ Z.of_nat (length d) + dval d.
Proof.
  unfold dval. induction d as [|c d IH]; intros acc; cbn [fold_left length].
  - rewrite Z.pow_0_r. lia.
  - rewrite IH, (IH (10 * 0 + (c - 48))). rewrite Nat2Z.inj_succ, Z.pow_succ_r by lia. ring.
Qed.

Lemma dval_cons c d : dval (c :: d) = (c - 48) * 10 ^ Z.of_nat (length d) + dval d.
Proof. unfold dval at 1. cbn [fold_left]. rewrite dval_acc. ring. Qed.

Lemma dval_nil : dval [] = 0.
Proof. reflexivity. Qed.

Lemma pow10_pos n : 0 < 10 ^ Z.of_nat n.
Proof. apply Z.pow_pos_nonneg; lia. Qed.

Lemma dval_bound d : Forall digitb d -> 0 <= dval d < 10 ^ Z.of_nat (length d).
Proof.
  induction 1 as [|c d Hc Hd IH].
  - rewrite dval_nil. cbn. lia.
  - rewrite dval_cons. cbn [length]. rewrite Nat2Z.inj_succ, Z.pow_succ_r by lia.
    unfold digitb in Hc. pose proof (pow10_pos (length d)). nia.
Qed.

Lemma dval_lower c d : digitb c -> c <> 48 -> Forall digitb d -> 10 ^ Z.of_nat (length d) <= dval (c :: d).
Proof.
  intros Hc Hn Hd. rewrite dval_cons. pose proof (dval_bound d Hd). pose proof (pow10_pos (length d)).
  unfold digitb in Hc. nia.
Qed.

Lemma skip_zeros_dval d : dval (skip_zeros d) = dval d.
Proof.
  induction d as [|c d IH]; cbn [skip_zeros]; [reflexivity|].
  destruct (Z.eqb_spec c 48) as [->|]; [|reflexivity]. rewrite IH, dval_cons. lia.
Qed.

Lemma skip_zeros_digits d : Forall digitb d -> Forall digitb (skip_zeros d).
Proof. apply Forall_skip_zeros. Qed.

(* the head of a zero-stripped string is not '0' *)
Lemma skip_zeros_head d : match skip_zeros d with c :: _ => c <> 48 | [] => True end.
Proof.
  induction d as [|c d IH]; cbn [skip_zeros]; [exact I|].
  destruct (Z.eqb_spec c 48); [exact IH | assumption].
Qed.

(* equally long digit strings: strncmp decides like the values *)
Lemma strncmp_digits : forall d1 d2, Forall digitb d1 -> Forall digitb d2 -> length d1 = length d2 ->
  cmp_of_int (strncmp_l d1 d2 (length d1)) = (dval d1 ?= dval d2).
Proof.
  induction d1 as [|c1 d1 IH]; intros [|c2 d2] H1 H2 Hl; cbn [length] in Hl; try lia.
  - reflexivity.
  - inversion H1 as [|? ? Hc1 Hd1]; inversion H2 as [|? ? Hc2 Hd2]; subst.
    cbn [length strncmp_l peek tl]. rewrite !dval_cons.
    injection Hl as Hl. rewrite <- Hl.
    pose proof (dval_bound d1 Hd1) as B1. pose proof (dval_bound d2 Hd2) as B2. rewrite <- Hl in B2.
    pose proof (pow10_pos (length d1)) as P. unfold digitb in Hc1, Hc2.
    destruct (Z.eqb_spec c1 c2) as [->|Hne].
    + destruct (Z.eqb_spec c2 0); [lia|]. rewrite (IH d2 Hd1 Hd2 Hl).
      rewrite Z.add_compare_mono_l. reflexivity.
    + unfold cmp_of_int. symmetry.
      destruct (Z.ltb_spec (c1 - c2) 0); [apply Z.compare_lt_iff; nia|].
      destruct (Z.gtb_spec (c1 - c2) 0); [apply Z.compare_gt_iff; nia | lia].
Qed.


(* the in-place number comparison is the comparison of the values *)
Theorem numcmp_value d1 d2 : Forall digitb d1 -> Forall digitb d2 ->
  numcmp (skip_zeros d1) (skip_zeros d2) = (dval d1 ?= dval d2).
Proof.
  intros H1 H2. rewrite <- (skip_zeros_dval d1), <- (skip_zeros_dval d2).
  pose proof (skip_zeros_digits d1 H1) as D1. pose proof (skip_zeros_digits d2 H2) as D2.
  pose proof (skip_zeros_head d1) as N1. pose proof (skip_zeros_head d2) as N2.
  set (a := skip_zeros d1) in *. set (b := skip_zeros d2) in *. clearbody a b.
  unfold numcmp. destruct (Nat.eqb_spec (length a) (length b)) as [E|E]; cbn [negb].
  - apply strncmp_digits; assumption.
  - pose proof (dval_bound a D1) as Ba. pose proof (dval_bound b D2) as Bb. symmetry.
    destruct (Nat.ltb_spec (length a) (length b)) as [Hlt|Hge].
    + apply Z.compare_lt_iff. destruct b as [|cb b]; [cbn [length] in Hlt; lia|].
      inversion D2 as [|? ? Hcb Hb]; subst. pose proof (dval_lower cb b Hcb N2 Hb) as L.
      cbn [length] in Hlt.
      assert (10 ^ Z.of_nat (length a) <= 10 ^ Z.of_nat (length b)) by (apply Z.pow_le_mono_r; lia). lia.
    + apply Z.compare_gt_iff. destruct a as [|ca a]; [cbn [length] in *; lia|].
      inversion D1 as [|? ? Hca Ha]; subst. pose proof (dval_lower ca a Hca N1 Ha) as L.
      cbn [length] in Hge, E.
      assert (10 ^ Z.of_nat (length b) <= 10 ^ Z.of_nat (length a)) by (apply Z.pow_le_mono_r; lia). lia.
Qed.

(* ---------- runs and run boundaries ---------- *)

Lemma skip_zeros_dropwhile v : skip_zeros v = dropwhile (fun c => c =? 48) v.
Proof. induction v as [|c v IH]; cbn [skip_zeros dropwhile]; [reflexivity|]. destruct (c =? 48); auto. Qed.

Lemma run_app cls (V t : list Z) :
  (forallb cls V = true -> t = [] \/ cls (hd 0 t) = false) ->
  takew cls (V ++ t) = takew cls V /\ dropwhile cls (V ++ t) = dropwhile cls V ++ t.
Proof.
  induction V as [|c V IH]; intros H.
  - cbn [app takew dropwhile]. destruct (H eq_refl) as [->|E]; [split; reflexivity|].
    destruct t as [|x t]; [split; reflexivity|]. cbn [hd] in E. cbn [takew dropwhile]. rewrite E. split; reflexivity.
  - cbn [app takew dropwhile]. destruct (cls c) eqn:Ec; [|split; reflexivity].
    destruct IH as [I1 I2]; [intros HV; apply H; cbn [forallb]; now rewrite Ec|].
    rewrite I1, I2. split; reflexivity.
Qed.

Lemma last_cons2 {A} (a b : A) l d : last (a :: b :: l) d = last (b :: l) d.
Proof. reflexivity. Qed.

Lemma last_dropwhile (f : Z -> bool) V d : dropwhile f V <> [] -> last (dropwhile f V) d = last V d.
Proof.
  induction V as [|c V IH]; cbn [dropwhile]; intros H; [congruence|].
  destruct (f c) eqn:E; [|reflexivity].
  rewrite (IH H). destruct V as [|b V]; [cbn [dropwhile] in H; congruence | reflexivity].
Qed.

Lemma forallb_last (f : Z -> bool) V d : V <> [] -> forallb f V = true -> f (last V d) = true.
Proof.
  induction V as [|c V IH]; intros Hn H; [congruence|].
  cbn [forallb] in H. apply andb_prop in H as [H1 H2].
  destruct V as [|b V]; [exact H1|]. rewrite last_cons2. apply IH; [discriminate | exact H2].
Qed.

Lemma sep_drop f V t : sep V t -> sep (dropwhile f V) t.
Proof.
  intros [H|[H|H]]; [left; exact H | right; left; subst; reflexivity |].
  destruct (dropwhile f V) eqn:E; [right; left; reflexivity|].
  right; right. rewrite <- E, last_dropwhile by (rewrite E; discriminate). exact H.
Qed.

Lemma sep_cls cls V t :
  (forall a b, cls a = true -> same_class a b = false -> cls b = false) ->
  sep V t -> V <> [] -> forallb cls V = true -> t = [] \/ cls (hd 0 t) = false.
Proof.
  intros Hc [H|[H|H]] Hn Ha; [left; exact H | congruence |].
  right. apply (Hc (last V 0)); [apply forallb_last; assumption | exact H].
Qed.

Lemma alpha_class a b : isalpha a = true -> same_class a b = false -> isalpha b = false.
Proof. unfold same_class. intros ->. destruct (isalpha b); cbn; [discriminate | reflexivity]. Qed.
Lemma digit_class a b : isdigit a = true -> same_class a b = false -> isdigit b = false.
Proof. unfold same_class. intros ->. destruct (isdigit b), (isalpha a && isalpha b); cbn; try discriminate; reflexivity. Qed.
Lemma punct_class a b : ispunct' a = true -> same_class a b = false -> ispunct' b = false.
Proof.
  unfold same_class. intros ->.
  destruct (ispunct' b), (isalpha a && isalpha b), (isdigit a && isdigit b); cbn; try discriminate; reflexivity.
Qed.
Lemma zero_class a b : (a =? 48) = true -> same_class a b = false -> (b =? 48) = false.
Proof.
  intros Ha H. apply Z.eqb_eq in Ha. subst a. destruct (Z.eqb_spec b 48) as [->|]; [|reflexivity].
  vm_compute in H. discriminate.
Qed.

Lemma digit_not_alpha c : isdigit c = true -> isalpha c = false.
Proof. unfold isdigit, isalpha, isupper, islower. intros H. apply andb_prop in H as [H1 H2].
  apply Z.leb_le in H1. apply Z.leb_le in H2.
  destruct (Z.leb_spec 65 c), (Z.leb_spec c 90), (Z.leb_spec 97 c), (Z.leb_spec c 122); cbn; try reflexivity; lia. Qed.
Lemma punct_not_alpha c : ispunct' c = true -> isalpha c = false.
Proof. unfold ispunct', isalnum. destruct (isalpha c); cbn; [discriminate | reflexivity]. Qed.
Lemma punct_not_digit c : ispunct' c = true -> isdigit c = false.
Proof. unfold ispunct', isalnum. destruct (isalpha c), (isdigit c); cbn; try discriminate; reflexivity. Qed.

(* a run of V followed by t: the run and the rest, when t does not continue V *)
Lemma run_sep cls V t :
  (forall a b, cls a = true -> same_class a b = false -> cls b = false) ->
  V <> [] -> sep V t ->
  takew cls (V ++ t) = takew cls V /\ dropwhile cls (V ++ t) = dropwhile cls V ++ t.
Proof. intros Hc Hn Hs. apply run_app. intros Ha. apply (sep_cls cls V t); assumption. Qed.

Lemma num_sep V t : V <> [] -> sep V t ->
  num_digits (V ++ t) = num_digits V /\ num_rest (V ++ t) = num_rest V ++ t.
Proof.
  intros Hn Hs. unfold num_digits, num_rest. rewrite !skip_zeros_dropwhile.
  destruct (run_sep (fun c => c =? 48) V t zero_class Hn Hs) as [_ E]. rewrite E.
  set (V2 := dropwhile (fun c => c =? 48) V).
  destruct V2 as [|c2 V3] eqn:E2.
  - (* V was all zeros, hence all digits *)
    cbn [app takew dropwhile].
    assert (Hz : forallb isdigit V = true).
    { clear -E2. subst V2. induction V as [|c V IH]; [reflexivity|]. cbn [dropwhile forallb] in *.
      destruct (Z.eqb_spec c 48) as [->|]; [|discriminate]. rewrite IH by assumption. reflexivity. }
    destruct (sep_cls isdigit V t digit_class Hs Hn Hz) as [->|E3]; [split; reflexivity|].
    destruct t as [|x t]; [split; reflexivity|]. cbn [hd] in E3. cbn [takew dropwhile]. rewrite E3. split; reflexivity.
  - rewrite <- E2. apply run_sep; [exact digit_class | rewrite E2; discriminate | apply sep_drop; exact Hs].
Qed.

(* ---------- the three kinds of step, fuel-free ---------- *)
Lemma sym_sz : vc_bufsz2 = vc_bufsz1. Proof. reflexivity. Qed.
Lemma sym_words : vc_words2 = vc_words1. Proof. reflexivity. Qed.
Lemma sym_dflt : vc_default2 = vc_default1. Proof. reflexivity. Qed.

Definition wordl (v : list Z) : list Z := map tolower (firstn (vc_bufsz1 - 1) (takew isalpha v)).
Definition rank (w : list Z) : Z := rank_p vc_words1 vc_default1 w.

Lemma vc_alpha c1 t1 c2 t2 : isalpha c1 = true -> isalpha c2 = true ->
  vc (c1 :: t1) (c2 :: t2) =
  let w1 := wordl (c1 :: t1) in let w2 := wordl (c2 :: t2) in
  if negb (rank w1 =? rank w2) then cmp_of_int (rank w1 - rank w2)
  else if (rank w1 =? vc_arbitrary) && negb (strcmp_p idb w1 w2 =? 0) then cmp_of_int (strcmp_p idb w1 w2)
  else vc (dropwhile isalpha (c1 :: t1)) (dropwhile isalpha (c2 :: t2)).
Proof. intros E1 E2. rewrite vc_unfold. rewrite E1, E2. reflexivity. Qed.

Lemma vc_digit c1 t1 c2 t2 : isdigit c1 = true -> isdigit c2 = true ->
  vc (c1 :: t1) (c2 :: t2) =
  match numcmp (num_digits (c1 :: t1)) (num_digits (c2 :: t2)) with
  | Eq => vc (num_rest (c1 :: t1)) (num_rest (c2 :: t2))
  | c => c
  end.
Proof. intros E1 E2. rewrite vc_unfold. rewrite (digit_not_alpha c1 E1), E1, E2. reflexivity. Qed.

Lemma vc_punct c1 t1 c2 t2 : ispunct' c1 = true -> ispunct' c2 = true ->
  vc (c1 :: t1) (c2 :: t2) =
  match cmp_of_int (strcmp_p tolower (firstn (vc_bufsz1 - 1) (takew ispunct' (c1 :: t1)))
                                     (firstn (vc_bufsz1 - 1) (takew ispunct' (c2 :: t2)))) with
  | Eq => vc (dropwhile ispunct' (c1 :: t1)) (dropwhile ispunct' (c2 :: t2))
  | r => r
  end.
Proof.
  intros E1 E2. rewrite vc_unfold. rewrite (punct_not_alpha c1 E1), (punct_not_digit c1 E1), E1, E2. reflexivity.
Qed.

(* ---------- a common prefix that ends at a run boundary does not matter ---------- *)
Theorem vc_common_prefix : forall n V, (length V <= n)%nat -> forall t1 t2,
  sep V t1 -> sep V t2 -> vc (V ++ t1) (V ++ t2) = vc t1 t2.
Proof.
  induction n as [|n IH]; intros V Hl t1 t2 S1 S2.
  - destruct V; [reflexivity | cbn [length] in Hl; lia].
  - destruct V as [|c V0]; [reflexivity|].
    assert (Hn : c :: V0 <> []) by discriminate.
    pose proof (class_total c) as Hc.
    destruct (isalpha c) eqn:Ea; [|destruct (isdigit c) eqn:Ed; [|destruct (ispunct' c) eqn:Ep; [|discriminate]]].
    + destruct (run_sep isalpha _ t1 alpha_class Hn S1) as [A1 B1].
      destruct (run_sep isalpha _ t2 alpha_class Hn S2) as [A2 B2].
      change ((c :: V0) ++ t1) with (c :: (V0 ++ t1)) in *. change ((c :: V0) ++ t2) with (c :: (V0 ++ t2)) in *.
      rewrite (vc_alpha c _ c _ Ea Ea). unfold wordl. rewrite A1, A2, B1, B2. cbv zeta.
      rewrite Z.eqb_refl, strcmp_p_refl. cbn [negb Z.eqb]. rewrite andb_false_r.
      apply IH; [|apply sep_drop; assumption|apply sep_drop; assumption].
      pose proof (dropwhile_hd_shorter isalpha c V0 Ea). cbn [length] in Hl. lia.
    + destruct (num_sep _ t1 Hn S1) as [A1 B1]. destruct (num_sep _ t2 Hn S2) as [A2 B2].
      change ((c :: V0) ++ t1) with (c :: (V0 ++ t1)) in *. change ((c :: V0) ++ t2) with (c :: (V0 ++ t2)) in *.
      rewrite (vc_digit c _ c _ Ed Ed). rewrite A1, A2, B1, B2, numcmp_refl.
      apply IH; [|unfold num_rest; rewrite skip_zeros_dropwhile; do 2 apply sep_drop; assumption
                 |unfold num_rest; rewrite skip_zeros_dropwhile; do 2 apply sep_drop; assumption].
      pose proof (num_rest_shorter c V0 Ed). cbn [length] in Hl. lia.
    + destruct (run_sep ispunct' _ t1 punct_class Hn S1) as [A1 B1].
      destruct (run_sep ispunct' _ t2 punct_class Hn S2) as [A2 B2].
      change ((c :: V0) ++ t1) with (c :: (V0 ++ t1)) in *. change ((c :: V0) ++ t2) with (c :: (V0 ++ t2)) in *.
      rewrite (vc_punct c _ c _ Ep Ep). rewrite A1, A2, B1, B2, strcmp_p_refl. cbn [cmp_of_int Z.ltb Z.gtb Z.compare].
      apply IH; [|apply sep_drop; assumption|apply sep_drop; assumption].
      pose proof (dropwhile_hd_shorter ispunct' c V0 Ep). cbn [length] in Hl. lia.
Qed.

(* ---------- tail rule ---------- *)

Lemma vc_tail_l t : t <> [] -> vc t [] = if begins_below t then Lt else Gt.
Proof. intros H. rewrite vc_unfold. destruct t; [congruence | reflexivity]. Qed.
Lemma vc_tail_r t : t <> [] -> vc [] t = if begins_below t then Gt else Lt.
Proof. intros H. rewrite vc_unfold. destruct t; [congruence | reflexivity]. Qed.

Lemma sep_nil_r V : sep V []. Proof. left; reflexivity. Qed.
Lemma sep_nil_l t : sep [] t. Proof. right; left; reflexivity. Qed.

(* a version against the same version with something appended at a run boundary *)
Theorem vc_suffix_rule V t : t <> [] -> sep V t ->
  vc (V ++ t) V = (if begins_below t then Lt else Gt) /\ vc V (V ++ t) = (if begins_below t then Gt else Lt).
Proof.
  intros Hn Hs. split.
  - rewrite <- (app_nil_r V) at 2. rewrite (vc_common_prefix (length V) V (le_n _) t [] Hs (sep_nil_r V)).
    apply vc_tail_l; assumption.
  - rewrite <- (app_nil_r V) at 1. rewrite (vc_common_prefix (length V) V (le_n _) [] t (sep_nil_r V) Hs).
    apply vc_tail_r; assumption.
Qed.

(* ---------- numeric components ---------- *)
Lemma takew_all f (d : list Z) : forallb f d = true -> takew f d = d /\ dropwhile f d = [].
Proof.
  induction d as [|c d IH]; cbn [forallb takew dropwhile]; intros H; [split; reflexivity|].
  apply andb_prop in H as [H1 H2]. rewrite H1. destruct (IH H2) as [-> ->]. split; reflexivity.
Qed.

Lemma forallb_skip_zeros f d : forallb f d = true -> forallb f (skip_zeros d) = true.
Proof.
  induction d as [|c d IH]; cbn [skip_zeros]; intros H; [reflexivity|].
  destruct (c =? 48); [|exact H]. cbn [forallb] in H. apply andb_prop in H as [_ H]. auto.
Qed.


Lemma sep_digits d X : forallb isdigit d = true -> nodigit X -> sep d X.
Proof.
  intros Hd [->|HX]; [left; reflexivity|]. destruct d as [|c d]; [right; left; reflexivity|].
  right; right. pose proof (forallb_last isdigit (c :: d) 0 ltac:(discriminate) Hd) as Hl.
  unfold same_class. rewrite HX, Hl, (digit_not_alpha _ Hl). unfold ispunct', isalnum at 1. rewrite Hl.
  rewrite orb_true_r. reflexivity.
Qed.

Lemma sep_alpha w X : forallb isalpha w = true -> noalpha X -> sep w X.
Proof.
  intros Hw [->|HX]; [left; reflexivity|]. destruct w as [|c w]; [right; left; reflexivity|].
  right; right. pose proof (forallb_last isalpha (c :: w) 0 ltac:(discriminate) Hw) as Hl.
  unfold same_class. rewrite HX, Hl. unfold ispunct', isalnum at 1. rewrite Hl.
  destruct (isdigit (last (c :: w) 0)) eqn:E; [|reflexivity].
  apply digit_not_alpha in E. congruence.
Qed.

Theorem vc_num_step d1 d2 X1 X2 :
  is_digits d1 -> is_digits d2 -> nodigit X1 -> nodigit X2 ->
  vc (d1 ++ X1) (d2 ++ X2) = match dval d1 ?= dval d2 with Eq => vc X1 X2 | c => c end.
Proof.
  intros [N1 D1] [N2 D2] HX1 HX2.
  destruct (num_sep d1 X1 N1 (sep_digits d1 X1 D1 HX1)) as [A1 B1].
  destruct (num_sep d2 X2 N2 (sep_digits d2 X2 D2 HX2)) as [A2 B2].
  destruct d1 as [|c1 t1]; [congruence|]. destruct d2 as [|c2 t2]; [congruence|].
  change ((c1 :: t1) ++ X1) with (c1 :: (t1 ++ X1)) in *. change ((c2 :: t2) ++ X2) with (c2 :: (t2 ++ X2)) in *.
  assert (E1 : isdigit c1 = true) by (cbn [forallb] in D1; now apply andb_prop in D1 as [? _]).
  assert (E2 : isdigit c2 = true) by (cbn [forallb] in D2; now apply andb_prop in D2 as [? _]).
  rewrite (vc_digit c1 _ c2 _ E1 E2), A1, A2, B1, B2.
  unfold num_digits, num_rest.
  destruct (takew_all isdigit _ (forallb_skip_zeros isdigit _ D1)) as [-> ->].
  destruct (takew_all isdigit _ (forallb_skip_zeros isdigit _ D2)) as [-> ->].
  rewrite numcmp_value by (apply forallb_digits; assumption). reflexivity.
Qed.

(* the separator part after a component: nothing, or ".rest" *)
Definition dots (ds : list (list Z)) : list Z := match ds with [] => [] | _ => 46 :: dotted ds end.

Lemma dotted_cons d ds : dotted (d :: ds) = d ++ dots ds.
Proof. destruct ds; cbn [dotted dots]; [now rewrite app_nil_r | reflexivity]. Qed.

Lemma dots_nodigit ds : nodigit (dots ds).
Proof. destruct ds; [left; reflexivity | right; reflexivity]. Qed.

Lemma begins_below_dot x : begins_below (46 :: x) = false.
Proof. reflexivity. Qed.

Theorem vc_numeric_order : forall ds1 ds2, Forall is_digits ds1 -> Forall is_digits ds2 ->
  vc (dotted ds1) (dotted ds2) = lex_nums (map dval ds1) (map dval ds2).
Proof.
  induction ds1 as [|d1 r1 IH]; intros ds2 H1 H2.
  - destruct ds2 as [|d2 r2]; [reflexivity|]. cbn [map lex_nums]. change (dotted []) with (@nil Z).
    inversion H2 as [|? ? [Hd2 Hdd] _]; subst. rewrite dotted_cons.
    destruct d2 as [|c2 t2]; [congruence|]. cbn [app]. rewrite vc_tail_r by discriminate.
    cbn [forallb] in Hdd. apply andb_prop in Hdd as [Hc _].
    replace (begins_below (c2 :: t2 ++ dots r2)) with false; [reflexivity|].
    symmetry. apply isdigit_iff in Hc. unfold digitb in Hc.
    unfold begins_below, snap, pre, alpha, beta. cbn [existsb beg_ci].
    assert (T : tolower c2 = c2) by (unfold tolower, isupper; destruct (Z.leb_spec 65 c2); cbn; [lia | reflexivity]).
    rewrite T.
    repeat match goal with |- context [c2 =? tolower ?k] =>
      replace (c2 =? tolower k) with false by (symmetry; apply Z.eqb_neq; vm_compute tolower; lia) end.
    reflexivity.
  - inversion H1 as [|? ? Hd1 Hr1]; subst. destruct ds2 as [|d2 r2].
    + cbn [map lex_nums]. change (dotted []) with (@nil Z). rewrite dotted_cons. destruct Hd1 as [Hn1 Hdd].
      destruct d1 as [|c1 t1]; [congruence|]. cbn [app]. rewrite vc_tail_l by discriminate.
      cbn [forallb] in Hdd. apply andb_prop in Hdd as [Hc _].
      replace (begins_below (c1 :: t1 ++ dots r1)) with false; [reflexivity|].
      symmetry. apply isdigit_iff in Hc. unfold digitb in Hc.
      unfold begins_below, snap, pre, alpha, beta. cbn [existsb beg_ci].
      assert (T : tolower c1 = c1) by (unfold tolower, isupper; destruct (Z.leb_spec 65 c1); cbn; [lia | reflexivity]).
      rewrite T.
      repeat match goal with |- context [c1 =? tolower ?k] =>
        replace (c1 =? tolower k) with false by (symmetry; apply Z.eqb_neq; vm_compute tolower; lia) end.
      reflexivity.
    + inversion H2 as [|? ? Hd2 Hr2]; subst. rewrite !dotted_cons. cbn [map lex_nums].
      rewrite (vc_num_step d1 d2 _ _ Hd1 Hd2 (dots_nodigit r1) (dots_nodigit r2)).
      destruct (dval d1 ?= dval d2); try reflexivity.
      (* equal components: the separators *)
      destruct r1 as [|e1 r1'], r2 as [|e2 r2']; cbn [dots].
      * reflexivity.
      * rewrite vc_tail_r by discriminate. rewrite begins_below_dot. reflexivity.
      * rewrite vc_tail_l by discriminate. rewrite begins_below_dot. reflexivity.
      * assert (P : ispunct' 46 = true) by reflexivity.
        rewrite (vc_punct 46 _ 46 _ P P).
        assert (Hh : forall e r, is_digits e -> takew ispunct' (46 :: dotted (e :: r)) = [46]
                       /\ dropwhile ispunct' (46 :: dotted (e :: r)) = dotted (e :: r)).
        { intros e r [Hne Hde]. rewrite dotted_cons. destruct e as [|c t]; [congruence|].
          cbn [forallb] in Hde. apply andb_prop in Hde as [Hc _].
          assert (Q : ispunct' c = false) by (unfold ispunct', isalnum; rewrite Hc, orb_true_r; reflexivity).
          cbn [app takew dropwhile]. rewrite P, Q. split; reflexivity. }
        inversion Hr1 as [|? ? He1 _]; inversion Hr2 as [|? ? He2 _]; subst.
        destruct (Hh e1 r1' He1) as [-> ->]. destruct (Hh e2 r2' He2) as [-> ->].
        replace (firstn (vc_bufsz1 - 1) [46]) with [46] by reflexivity.
        rewrite strcmp_p_refl. cbn [cmp_of_int Z.ltb Z.gtb Z.compare].
        apply IH; assumption.
Qed.

(* ---------- numbers after any common prefix (components in the middle, suffix numbers) ---------- *)
Theorem vc_number_after_prefix V d1 d2 X1 X2 :
  is_digits d1 -> is_digits d2 -> nodigit X1 -> nodigit X2 -> sep V d1 -> sep V d2 ->
  vc (V ++ d1 ++ X1) (V ++ d2 ++ X2) = match dval d1 ?= dval d2 with Eq => vc X1 X2 | c => c end.
Proof.
  intros D1 D2 HX1 HX2 S1 S2.
  assert (Hs : forall d X, is_digits d -> sep V d -> sep V (d ++ X)).
  { intros d X [Hn _] [H|[H|H]]; [congruence | right; left; exact H |].
    right; right. destruct d; [congruence | exact H]. }
  rewrite (vc_common_prefix (length V) V (le_n _) _ _ (Hs d1 X1 D1 S1) (Hs d2 X2 D2 S2)).
  apply vc_num_step; assumption.
Qed.

(* ---------- words ---------- *)
Lemma isalpha_tolower c : isalpha (tolower c) = isalpha c.
Proof.
  unfold tolower, isalpha, isupper, islower.
  destruct (Z.leb_spec 65 c), (Z.leb_spec c 90); cbn [andb orb];
    repeat match goal with |- context [?a <=? ?b] => destruct (Z.leb_spec a b) end; cbn; try reflexivity; lia.
Qed.

Lemma forallb_alpha_tolower w : forallb isalpha (map tolower w) = forallb isalpha w.
Proof. induction w as [|c w IH]; cbn [map forallb]; [reflexivity|]. now rewrite isalpha_tolower, IH. Qed.

Theorem vc_word_step w1 w2 X1 X2 :
  is_word w1 -> is_word w2 -> (length w1 < vc_bufsz1)%nat -> (length w2 < vc_bufsz1)%nat ->
  noalpha X1 -> noalpha X2 ->
  vc (w1 ++ X1) (w2 ++ X2) =
  let l1 := map tolower w1 in let l2 := map tolower w2 in
  if negb (rank l1 =? rank l2) then cmp_of_int (rank l1 - rank l2)
  else if (rank l1 =? vc_arbitrary) && negb (strcmp_p idb l1 l2 =? 0) then cmp_of_int (strcmp_p idb l1 l2)
  else vc X1 X2.
Proof.
  intros [N1 A1] [N2 A2] L1 L2 HX1 HX2.
  destruct (run_sep isalpha w1 X1 alpha_class N1 (sep_alpha w1 X1 A1 HX1)) as [R1 D1].
  destruct (run_sep isalpha w2 X2 alpha_class N2 (sep_alpha w2 X2 A2 HX2)) as [R2 D2].
  destruct (takew_all isalpha w1 A1) as [T1 T1']. destruct (takew_all isalpha w2 A2) as [T2 T2'].
  destruct w1 as [|c1 t1]; [congruence|]. destruct w2 as [|c2 t2]; [congruence|].
  change ((c1 :: t1) ++ X1) with (c1 :: (t1 ++ X1)) in *. change ((c2 :: t2) ++ X2) with (c2 :: (t2 ++ X2)) in *.
  assert (E1 : isalpha c1 = true) by (cbn [forallb] in A1; now apply andb_prop in A1 as [? _]).
  assert (E2 : isalpha c2 = true) by (cbn [forallb] in A2; now apply andb_prop in A2 as [? _]).
  rewrite (vc_alpha c1 _ c2 _ E1 E2). unfold wordl. rewrite R1, R2, D1, D2, T1, T2, T1', T2'.
  rewrite !firstn_all2 by lia. reflexivity.
Qed.

(* rank of the i-th pre-release word, case-insensitively *)
Lemma rank_prerelease i w : nth_error prerelease_words i = Some w -> rank w = Z.of_nat i + 1 /\ (length w < vc_bufsz1)%nat
  /\ forallb isalpha w = true /\ w <> [].
Proof.
  destruct i as [|[|[|[|[|i]]]]]; cbn [nth_error prerelease_words]; intros H; try (destruct i; discriminate);
    injection H as <-; (split; [vm_compute; reflexivity | split; [vm_compute; lia | split; [reflexivity | discriminate]]]).
Qed.

(* snap < pre < alpha < beta < rc, whatever the case of the letters, after any common prefix
   and whatever follows the two words *)
Theorem vc_prerelease_order V w1 w2 X1 X2 i j :
  nth_error prerelease_words i = Some (map tolower w1) ->
  nth_error prerelease_words j = Some (map tolower w2) ->
  i <> j -> noalpha X1 -> noalpha X2 -> sep V w1 -> sep V w2 ->
  vc (V ++ w1 ++ X1) (V ++ w2 ++ X2) = (i ?= j)%nat.
Proof.
  intros Hi Hj Hne HX1 HX2 S1 S2.
  destruct (rank_prerelease i _ Hi) as (R1 & L1 & A1 & N1). destruct (rank_prerelease j _ Hj) as (R2 & L2 & A2 & N2).
  rewrite map_length in L1, L2. rewrite forallb_alpha_tolower in A1, A2.
  assert (W1 : is_word w1) by (split; [intros ->; apply N1; reflexivity | exact A1]).
  assert (W2 : is_word w2) by (split; [intros ->; apply N2; reflexivity | exact A2]).
  assert (Hs : forall w X, is_word w -> sep V w -> sep V (w ++ X)).
  { intros w X [Hn _] [H|[H|H]]; [congruence | right; left; exact H |].
    right; right. destruct w; [congruence | exact H]. }
  rewrite (vc_common_prefix (length V) V (le_n _) _ _ (Hs w1 X1 W1 S1) (Hs w2 X2 W2 S2)).
  rewrite (vc_word_step w1 w2 X1 X2 W1 W2 L1 L2 HX1 HX2). cbv zeta. rewrite R1, R2.
  destruct (Z.eqb_spec (Z.of_nat i + 1) (Z.of_nat j + 1)) as [E|E]; [lia|]. cbn [negb].
  unfold cmp_of_int. symmetry.
  destruct (Z.ltb_spec (Z.of_nat i + 1 - (Z.of_nat j + 1)) 0); [apply Nat.compare_lt_iff; lia|].
  destruct (Z.gtb_spec (Z.of_nat i + 1 - (Z.of_nat j + 1)) 0); [apply Nat.compare_gt_iff; lia | lia].
Qed.

(* the same pre-release (or any) word on both sides: what follows decides *)
Theorem vc_same_word V w X1 X2 : is_word w -> (length w < vc_bufsz1)%nat -> noalpha X1 -> noalpha X2 -> sep V w ->
  vc (V ++ w ++ X1) (V ++ w ++ X2) = vc X1 X2.
Proof.
  intros W L HX1 HX2 S.
  assert (Hs : forall X, sep V (w ++ X)).
  { intros X. destruct W as [Hn _]. destruct S as [H|[H|H]]; [congruence | right; left; exact H |].
    right; right. destruct w; [congruence | exact H]. }
  rewrite (vc_common_prefix (length V) V (le_n _) _ _ (Hs X1) (Hs X2)).
  rewrite (vc_word_step w w X1 X2 W W L L HX1 HX2). cbv zeta.
  rewrite Z.eqb_refl, strcmp_p_refl. cbn [negb Z.eqb]. rewrite andb_false_r. reflexivity.
Qed.

(* ---------- the same facts about the model function itself ---------- *)
Lemma digits_nz d : forallb isdigit d = true -> Forall nz_byte d.
Proof.
  intros H. apply forallb_digits in H. induction H as [|c d Hc Hd IH]; constructor; auto.
  unfold digitb in Hc. unfold nz_byte. lia.
Qed.

Lemma alpha_nz w : forallb isalpha w = true -> Forall nz_byte w.
Proof.
  induction w as [|c w IH]; cbn [forallb]; intros H; constructor.
  - apply andb_prop in H as [H _]. unfold isalpha, isupper, islower, nz_byte in *.
    destruct (Z.leb_spec 65 c), (Z.leb_spec c 90), (Z.leb_spec 97 c), (Z.leb_spec c 122); cbn in H; try discriminate; lia.
  - apply IH. now apply andb_prop in H as [_ H].
Qed.

Lemma dotted_nz ds : Forall is_digits ds -> Forall nz_byte (dotted ds).
Proof.
  induction 1 as [|d ds [_ Hd] Hds IH]; [constructor|].
  rewrite dotted_cons. apply Forall_app. split; [apply digits_nz; exact Hd|].
  destruct ds; cbn [dots]; [constructor|]. constructor; [unfold nz_byte; lia | exact IH].
Qed.

Lemma last_app_ne {A} (l1 l2 : list A) d : l2 <> [] -> last (l1 ++ l2) d = last l2 d.
Proof.
  intros H. induction l1 as [|a l1 IH]; [reflexivity|]. cbn [app].
  destruct (l1 ++ l2) eqn:E; [apply app_eq_nil in E as [_ E]; congruence|]. rewrite <- E in *. rewrite <- IH.
  rewrite E. reflexivity.
Qed.

Lemma last_dotted ds : ds <> [] -> Forall is_digits ds -> isdigit (last (dotted ds) 0) = true.
Proof.
  intros Hn H. induction H as [|d ds [Hd Hdd] Hds IH]; [congruence|].
  rewrite dotted_cons. destruct ds as [|e r]; cbn [dots].
  - rewrite app_nil_r. apply forallb_last; assumption.
  - rewrite last_app_ne by discriminate. change (last (46 :: dotted (e :: r)) 0) with
      (match dotted (e :: r) with [] => 46 | _ => last (dotted (e :: r)) 0 end).
    destruct (dotted (e :: r)) eqn:E.
    + inversion Hds as [|? ? [He _] _]; subst. rewrite dotted_cons in E. apply app_eq_nil in E as [E _]. congruence.
    + apply IH. discriminate.
Qed.

(* after a dotted numeric version, a word starts a new run *)
Lemma sep_dotted_word ds w : ds <> [] -> Forall is_digits ds -> is_word w -> sep (dotted ds) w.
Proof.
  intros Hn Hd [Hw Ha]. right; right. pose proof (last_dotted ds Hn Hd) as L.
  destruct w as [|c w]; [congruence|]. cbn [forallb] in Ha. apply andb_prop in Ha as [Hc _]. cbn [hd].
  unfold same_class. rewrite L, Hc, (digit_not_alpha _ L). unfold ispunct', isalnum. rewrite L, Hc.
  destruct (isdigit c) eqn:Ed; [apply digit_not_alpha in Ed; congruence|].
  rewrite orb_true_r. reflexivity.
Qed.

Lemma lex_nums_prefix x y : y <> [] -> lex_nums x (x ++ y) = Lt.
Proof.
  intros Hy. induction x as [|a x IH]; cbn [app lex_nums]; [destruct y; [congruence | reflexivity]|].
  now rewrite Z.compare_refl.
Qed.

Theorem vercmp_numeric_order ds1 ds2 : Forall is_digits ds1 -> Forall is_digits ds2 ->
  vercmp (dotted ds1) (dotted ds2) = Ok (lex_nums (map dval ds1) (map dval ds2)).
Proof.
  intros H1 H2. rewrite vercmp_pure by (apply dotted_nz; assumption). f_equal. apply vc_numeric_order; assumption.
Qed.

Theorem vercmp_longer_numeric_wins ds more : Forall is_digits ds -> Forall is_digits more -> more <> [] ->
  vercmp (dotted ds) (dotted (ds ++ more)) = Ok Lt /\ vercmp (dotted (ds ++ more)) (dotted ds) = Ok Gt.
Proof.
  intros H1 H2 Hn.
  assert (H3 : Forall is_digits (ds ++ more)) by (apply Forall_app; split; assumption).
  destruct (vercmp_antisym (dotted ds) (dotted (ds ++ more)) (dotted_nz _ H1) (dotted_nz _ H3)) as (c & E1 & E2).
  rewrite (vercmp_numeric_order _ _ H1 H3) in E1. rewrite map_app, lex_nums_prefix in E1
    by (destruct more; [congruence | discriminate]).
  injection E1 as <-. rewrite E2. rewrite vercmp_numeric_order, map_app, lex_nums_prefix
    by (assumption || (destruct more; [congruence | discriminate])). split; reflexivity.
Qed.

Theorem vercmp_suffix_rule V t : Forall nz_byte V -> Forall nz_byte t -> t <> [] -> sep V t ->
  vercmp (V ++ t) V = Ok (if begins_below t then Lt else Gt) /\
  vercmp V (V ++ t) = Ok (if begins_below t then Gt else Lt).
Proof.
  intros HV Ht Hn Hs. assert (HVt : Forall nz_byte (V ++ t)) by (apply Forall_app; split; assumption).
  rewrite !vercmp_pure by assumption. destruct (vc_suffix_rule V t Hn Hs) as [-> ->]. split; reflexivity.
Qed.

(* well-formed: numeric version, word suffix, anything that is not a letter after it *)
Theorem vercmp_wf_suffix ds w X : ds <> [] -> Forall is_digits ds -> is_word w -> noalpha X -> Forall nz_byte X ->
  vercmp (dotted ds ++ w ++ X) (dotted ds) = Ok (if begins_below (w ++ X) then Lt else Gt) /\
  vercmp (dotted ds) (dotted ds ++ w ++ X) = Ok (if begins_below (w ++ X) then Gt else Lt).
Proof.
  intros Hn Hd Hw HX HXn. apply vercmp_suffix_rule.
  - apply dotted_nz; assumption.
  - apply Forall_app. split; [apply alpha_nz; apply Hw | assumption].
  - destruct Hw as [Hw _]. destruct w; [congruence | discriminate].
  - pose proof (sep_dotted_word ds w Hn Hd Hw) as [H|[H|H]].
    + destruct Hw; congruence.
    + right; left; exact H.
    + right; right. destruct Hw as [Hw _]. destruct w; [congruence | exact H].
Qed.

Theorem vercmp_wf_prerelease ds w1 w2 X1 X2 i j :
  ds <> [] -> Forall is_digits ds ->
  nth_error prerelease_words i = Some (map tolower w1) ->
  nth_error prerelease_words j = Some (map tolower w2) -> i <> j ->
  noalpha X1 -> noalpha X2 -> Forall nz_byte X1 -> Forall nz_byte X2 ->
  vercmp (dotted ds ++ w1 ++ X1) (dotted ds ++ w2 ++ X2) = Ok (i ?= j)%nat.
Proof.
  intros Hn Hd Hi Hj Hne HX1 HX2 N1 N2.
  destruct (rank_prerelease i _ Hi) as (_ & _ & A1 & E1). destruct (rank_prerelease j _ Hj) as (_ & _ & A2 & E2).
  rewrite forallb_alpha_tolower in A1, A2.
  assert (W1 : is_word w1) by (split; [intros ->; apply E1; reflexivity | exact A1]).
  assert (W2 : is_word w2) by (split; [intros ->; apply E2; reflexivity | exact A2]).
  rewrite vercmp_pure by (repeat (apply Forall_app; split); auto using dotted_nz, alpha_nz).
  f_equal. apply vc_prerelease_order; auto using sep_dotted_word.
Qed.

(* same word (or none: w = [] is excluded, use vercmp_number_after_prefix directly), then numbers *)
Theorem vercmp_number_after_prefix V d1 d2 X1 X2 :
  Forall nz_byte V -> Forall nz_byte X1 -> Forall nz_byte X2 ->
  is_digits d1 -> is_digits d2 -> nodigit X1 -> nodigit X2 -> sep V d1 -> sep V d2 ->
  exists r, vercmp X1 X2 = Ok r /\
    vercmp (V ++ d1 ++ X1) (V ++ d2 ++ X2) = Ok (match dval d1 ?= dval d2 with Eq => r | c => c end).
Proof.
  intros HV N1 N2 D1 D2 HX1 HX2 S1 S2. exists (vc X1 X2). split; [apply vercmp_pure; assumption|].
  assert (Z1 : Forall nz_byte d1) by (apply digits_nz, D1). assert (Z2 : Forall nz_byte d2) by (apply digits_nz, D2).
  rewrite vercmp_pure by (repeat (apply Forall_app; split); assumption).
  f_equal. apply vc_number_after_prefix; assumption.
Qed.
