(* Executable model of spiftool_version_compare (src/strings.c, property C17), after the
   C17 repairs, with two switches that give back the original behaviour of the run copies
   and of the class-mismatch branch (used only for the refutation examples).

   The two arguments are C strings that are only read: they are modelled as their text
   (a list of non-zero bytes); `*v` is `peek v` (0 at the end) and the cursor only ever
   advances over a byte that was tested non-zero, exactly as in the code, so a cursor
   cannot leave its string.  The two scratch buffers buff1/buff2 are cell lists of the
   declared size whose cells start uninitialised (None); every access goes through the
   checked rdn/wrn of Base/Buf.v.  "Memory safe" is "never Fault", "independent of the
   stack contents" is in particular "never Fault Uninit_read".  The buffers live across
   loop iterations (they are declared outside the loop), so they are threaded through.

   Sizes, word ranks and tail prefixes come from Gen/VercmpGen.v (regenerated from the
   source on every run). *)
From LV Require Export Base.Buf.
From LV Require Export Gen.VercmpGen.
From LV Require Import Strings.HelpersModel.   (* downcase_str = spiftool_downcase_str *)
Local Open Scope Z_scope.

(* SPIF_CMP_FROM_INT: only the sign of an int is kept *)
Definition cmp_of_int (i : Z) : comparison := if i <? 0 then Lt else if i >? 0 then Gt else Eq.

Definition peek (v : list byte) : byte := match v with [] => 0 | c :: _ => c end.

(* the third character class of CHAR_CLASS_MATCH *)
Definition ispunct' (c : byte) : bool := negb (isalnum c).

(* ---- libc pieces ---- *)
(* strcmp (f = id) / strcasecmp (f = tolower) on two buffers: cells are read pairwise up to
   and including the first difference or the terminator of the first *)
Fixpoint strcmp_c (f : byte -> byte) (b1 b2 : buf) {struct b1} : res Z :=
  match b1 with
  | [] => Fault OOB_read
  | None :: _ => Fault Uninit_read
  | Some c1 :: t1 =>
    match b2 with
    | [] => Fault OOB_read
    | None :: _ => Fault Uninit_read
    | Some c2 :: t2 =>
      if f c1 =? f c2 then (if c1 =? 0 then Ok 0 else strcmp_c f t1 t2) else Ok (f c1 - f c2)
    end
  end.
Definition idb (c : byte) : byte := c.

(* strcasecmp on the two (remaining) argument strings *)
Fixpoint strcasecmp_l (a b : list byte) {struct a} : Z :=
  match a, b with
  | [], [] => 0
  | [], c2 :: _ => 0 - tolower c2
  | c1 :: _, [] => tolower c1 - 0
  | c1 :: a', c2 :: b' => if tolower c1 =? tolower c2 then strcasecmp_l a' b' else tolower c1 - tolower c2
  end.

(* strncmp on two argument cursors *)
Fixpoint strncmp_l (a b : list byte) (n : nat) {struct n} : Z :=
  match n with
  | O => 0
  | S n' =>
    let c1 := peek a in let c2 := peek b in
    if c1 =? c2 then (if c1 =? 0 then 0 else strncmp_l (tl a) (tl b) n') else c1 - c2
  end.

(* !BEG_STRCASECMP(v, lit): strncasecmp(v, lit, strlen(lit)) == 0 *)
Fixpoint beg_ci (v lit : list byte) {struct lit} : bool :=
  match lit with
  | [] => true
  | l :: lit' =>
    match v with
    | [] => false
    | c :: v' => (tolower c =? tolower l) && beg_ci v' lit'
    end
  end.

(* ---- the run copy:  for (; v[0] && cls(v[0]); v++) if (p < buff + sizeof(buff) - 1) { p[0] = v[0]; p++; }
   `bounded = false` is the original  for (; v[0] && cls(v[0]); v++, p++) p[0] = v[0];  ---- *)
Fixpoint copy_run (bounded : bool) (cls : byte -> bool) (v : list byte) (b : buf) (p : nat)
  : res (list byte * buf * nat) :=
  match v with
  | [] => Ok (v, b, p)
  | c :: v' =>
    if cls c then
      if bounded && negb (p <? length b - 1)%nat then copy_run bounded cls v' b p
      else (b' <- wrn b p c ;; copy_run bounded cls v' b' (S p))
    else Ok (v, b, p)
  end.

(* both runs, then p1[0] = p2[0] = 0 (right to left) *)
Definition copy_runs (bounded : bool) (cls : byte -> bool) (v1 v2 : list byte) (b1 b2 : buf)
  : res (list byte * list byte * buf * buf) :=
  '(v1', b1, p1) <- copy_run bounded cls v1 b1 0 ;;
  '(v2', b2, p2) <- copy_run bounded cls v2 b2 0 ;;
  b2 <- wrn b2 p2 0 ;;
  b1 <- wrn b1 p1 0 ;;
  Ok (v1', v2', b1, b2).

(* the if (!strcmp(buff, "snap")) ival = 1; else if ... chain *)
Fixpoint word_rank (tbl : list (list byte * Z)) (dflt : Z) (b : buf) : res Z :=
  match tbl with
  | [] => Ok dflt
  | (w, r) :: tbl' =>
    c <- strcmp_c idb b (cstr w []) ;;
    if c =? 0 then Ok r else word_rank tbl' dflt b
  end.

(* a run of digits in place: skip '0's, then span the digits; returns (digits, rest) *)
Fixpoint skip_zeros (v : list byte) : list byte :=
  match v with c :: v' => if c =? 48 then skip_zeros v' else v | [] => [] end.
Fixpoint span_digits (v : list byte) : list byte * list byte :=
  match v with
  | c :: v' => if isdigit c then (let '(d, r) := span_digits v' in (c :: d, r)) else ([], v)
  | [] => ([], [])
  end.

Definition tail_rule (tbl : list (list byte)) (yes no : comparison) (v : list byte) : comparison :=
  if existsb (beg_ci v) tbl then yes else no.

(* ---- the main loop; fuel = an upper bound on the number of iterations ---- *)
Fixpoint vc_loop (bounded fixed_mismatch : bool) (fuel : nat) (v1 v2 : list byte) (b1 b2 : buf)
  : res comparison :=
  match fuel with
  | O => Fault Out_of_fuel
  | S fuel' =>
    let c1 := peek v1 in let c2 := peek v2 in
    if negb (c1 =? 0) && negb (c2 =? 0) then
      if isalpha c1 && isalpha c2 then
        '(v1', v2', b1, b2) <- copy_runs bounded isalpha v1 v2 b1 b2 ;;
        b1 <- downcase_str b1 ;;
        b2 <- downcase_str b2 ;;
        i1 <- word_rank vc_words1 vc_default1 b1 ;;
        i2 <- word_rank vc_words2 vc_default2 b2 ;;
        if negb (i1 =? i2) then Ok (cmp_of_int (i1 - i2))
        else if i1 =? vc_arbitrary then
          c <- strcmp_c idb b1 b2 ;;
          if negb (c =? 0) then Ok (cmp_of_int c)
          else vc_loop bounded fixed_mismatch fuel' v1' v2' b1 b2
        else vc_loop bounded fixed_mismatch fuel' v1' v2' b1 b2
      else if isdigit c1 && isdigit c2 then
        (* repaired: digit strings compared in place, no conversion, no buffer *)
        let '(d1, r1) := span_digits (skip_zeros v1) in
        let '(d2, r2) := span_digits (skip_zeros v2) in
        let c := if negb (length d1 =? length d2)%nat
                 then (if (length d1 <? length d2)%nat then Lt else Gt)
                 else cmp_of_int (strncmp_l d1 d2 (length d1)) in
        match c with
        | Eq => vc_loop bounded fixed_mismatch fuel' r1 r2 b1 b2
        | _ => Ok c
        end
      else if ispunct' c1 && ispunct' c2 then
        '(v1', v2', b1, b2) <- copy_runs bounded ispunct' v1 v2 b1 b2 ;;
        c <- strcmp_c tolower b1 b2 ;;
        match cmp_of_int c with
        | Eq => vc_loop bounded fixed_mismatch fuel' v1' v2' b1 b2
        | r => Ok r
        end
      else if fixed_mismatch then Ok (cmp_of_int (strcasecmp_l v1 v2))
      else (c <- strcmp_c tolower b1 b2 ;; Ok (cmp_of_int c))
    else if negb (c1 =? 0) then Ok (tail_rule vc_tail1 vc_tail1_yes vc_tail1_no v1)
    else if negb (c2 =? 0) then Ok (tail_rule vc_tail2 vc_tail2_yes vc_tail2_no v2)
    else Ok Eq
  end.

Definition fresh (n : nat) : buf := repeat None n.

Definition vercmp_gen (bounded fixed_mismatch : bool) (a b : list byte) : res comparison :=
  vc_loop bounded fixed_mismatch (S (length a)) a b (fresh vc_bufsz1) (fresh vc_bufsz2).

(* the repaired function *)
Definition vercmp : list byte -> list byte -> res comparison := vercmp_gen true true.

(* ===================== specification side ===================== *)
(* value of a digit string *)
Definition dval (d : list byte) : Z := fold_left (fun acc c => 10 * acc + (c - 48)) d 0.

(* numeric component lists: first difference decides, a proper prefix is smaller *)
Fixpoint lex_nums (x y : list Z) : comparison :=
  match x, y with
  | [], [] => Eq
  | [], _ :: _ => Lt
  | _ :: _, [] => Gt
  | a :: x', b :: y' => match a ?= b with Eq => lex_nums x' y' | c => c end
  end.

(* "1.27.3": digit strings joined by dots *)
Fixpoint dotted (ds : list (list byte)) : list byte :=
  match ds with
  | [] => []
  | [d] => d
  | d :: ds' => d ++ 46 :: dotted ds'
  end.

Definition is_digits (d : list byte) : Prop := d <> [] /\ forallb isdigit d = true.
Definition is_word (w : list byte) : Prop := w <> [] /\ forallb isalpha w = true.

(* rank of a pre-release word as the property lists them *)
Definition snap := [115; 110; 97; 112].
Definition pre := [112; 114; 101].
Definition alpha := [97; 108; 112; 104; 97].
Definition beta := [98; 101; 116; 97].
Definition rc := [114; 99].
Definition prerelease_words : list (list byte) := [snap; pre; alpha; beta; rc].

(* the three character classes of CHAR_CLASS_MATCH *)
Definition same_class (a b : byte) : bool :=
  (isalpha a && isalpha b) || (isdigit a && isdigit b) || (ispunct' a && ispunct' b).
(* t does not continue the last run of V: t starts a new run (or one of them is empty) *)
Definition sep (V t : list byte) : Prop := t = [] \/ V = [] \/ same_class (last V 0) (hd 0 t) = false.
Definition nodigit (X : list byte) : Prop := X = [] \/ isdigit (hd 0 X) = false.
Definition noalpha (X : list byte) : Prop := X = [] \/ isalpha (hd 0 X) = false.
(* begins, case-insensitively, with one of the words that rank a suffix below the bare version *)
Definition begins_below (t : list byte) : bool := existsb (beg_ci t) [snap; pre; alpha; beta].
