
val negb : bool -> bool

type nat =
| O
| S of nat

val length : 'a1 list -> nat

val app : 'a1 list -> 'a1 list -> 'a1 list

type comparison =
| Eq
| Lt
| Gt

val compOpp : comparison -> comparison

val add : nat -> nat -> nat

val sub : nat -> nat -> nat

module Nat :
 sig
  val eqb : nat -> nat -> bool

  val leb : nat -> nat -> bool

  val ltb : nat -> nat -> bool
 end

val nth_error : 'a1 list -> nat -> 'a1 option

val firstn : nat -> 'a1 list -> 'a1 list

val skipn : nat -> 'a1 list -> 'a1 list

type positive =
| XI of positive
| XO of positive
| XH

type n =
| N0
| Npos of positive

type z =
| Z0
| Zpos of positive
| Zneg of positive

module Pos :
 sig
  val succ : positive -> positive

  val add : positive -> positive -> positive

  val add_carry : positive -> positive -> positive

  val pred_double : positive -> positive

  val mul : positive -> positive -> positive

  val compare_cont : comparison -> positive -> positive -> comparison

  val compare : positive -> positive -> comparison

  val eqb : positive -> positive -> bool

  val iter_op : ('a1 -> 'a1 -> 'a1) -> positive -> 'a1 -> 'a1

  val to_nat : positive -> nat

  val of_succ_nat : nat -> positive
 end

module Z :
 sig
  val double : z -> z

  val succ_double : z -> z

  val pred_double : z -> z

  val pos_sub : positive -> positive -> z

  val add : z -> z -> z

  val opp : z -> z

  val sub : z -> z -> z

  val mul : z -> z -> z

  val compare : z -> z -> comparison

  val leb : z -> z -> bool

  val ltb : z -> z -> bool

  val geb : z -> z -> bool

  val gtb : z -> z -> bool

  val eqb : z -> z -> bool

  val to_nat : z -> nat

  val of_nat : nat -> z

  val pos_div_eucl : positive -> z -> z * z

  val div_eucl : z -> z -> z * z

  val modulo : z -> z -> z
 end

type fault =
| OOB_read
| OOB_write
| Uninit_read
| Null_deref
| Use_after_free
| Bad_free
| Out_of_fuel
| Int_overflow
| Abort

type 'a res =
| Ok of 'a
| Fault of fault

val bind : 'a1 res -> ('a1 -> 'a2 res) -> 'a2 res

val num_anchor : ((nat * positive) * n) * z

type cell = z option

type buf = cell list

val rdn : buf -> nat -> z res

val upd : 'a1 list -> nat -> 'a1 -> 'a1 list

val wrn : buf -> nat -> z -> buf res

val rd : buf -> z -> z res

val wr : buf -> z -> z -> buf res

val strlen : buf -> nat res

val strnlen : buf -> nat -> nat res

val take_str : buf -> z list

val isspace : z -> bool

val isupper : z -> bool

val islower : z -> bool

val iscntrl : z -> bool

val tolower : z -> z

val toupper : z -> z

val strncpy_loop : buf -> buf -> nat -> nat -> (bool * buf) res

val safe_strncpy_at : buf -> nat -> buf -> z -> (bool * buf) res

val safe_strncpy : buf -> buf -> z -> (bool * buf) res

val safe_strncat : buf -> buf -> z -> (bool * buf) res

val u32 : z -> z

val read_bytes : buf -> nat -> nat -> z list res

val substr : buf -> z -> z -> z list option res

val map_str : (z -> z) -> buf -> buf res

val downcase_str : buf -> buf res

val upcase_str : buf -> buf res

val safe_str : buf -> nat -> buf res

val sub_cells : buf -> nat -> nat -> cell list res

val put_cells : buf -> nat -> cell list -> buf res

val memmove : buf -> nat -> nat -> nat -> buf res

val front_scan : buf -> nat res

val back_scan : buf -> nat -> nat -> nat res

val chomp : buf -> buf res

val cw_loop : buf -> nat -> nat -> bool -> nat -> (buf * nat) res

val condense_whitespace_gen : bool -> buf -> buf res

val rev_loop : buf -> nat -> z -> nat -> buf res

val strrev : buf -> buf res
