(* C19 - local sockets: bytes intact under short I/O, no descriptor leaks.
   Executable Gallina mirror of src/socket.c (spif_socket_open/close/accept/send/recv/dup/done/del,
   set_nbio) after the repairs listed in checks/c19.py, and of the descriptor reader loop
   spif_str_init_from_fd (src/str.c) in its REPAIRED form as this property's text demands it:

       for (p = s; ; ) {
           n = read(fd, p, buff_inc);
           if (n > 0)                          { size += n; s = REALLOC(s, size); p = s + (size - buff_inc); }
           else if ((n < 0) && (errno == EINTR)) { continue; }     -- size and cursor untouched
           else                                { break; }          -- 0, EAGAIN, any other error
       }
       len = size - buff_inc; size = len + 1; s = REALLOC(s, size); s[len] = 0;

   (str.c is owned by property C01; the coordinator reconciles this loop with Str/StrModel.v.)

   The kernel is an oracle: every system call's outcome is part of the input (read schedule, write
   schedule, the outcome fields of the lifecycle operations); the only kernel facts built in are the
   descriptor table ones: a successful socket/accept/dup returns a descriptor that is not open,
   close releases the descriptor, write on a descriptor that is not open fails with EBADF.
   No proofs in this file. *)
From LV Require Import Base.Buf Gen.SockGen.
Local Open Scope Z_scope.

Definition zlen {A} (l : list A) : Z := Z.of_nat (length l).

(* ===================================================================================== *)
(* (a) the receive loop                                                                   *)
(* ===================================================================================== *)
Inductive rd_event : Type :=
| RData (l : list byte)   (* bytes the kernel has ready; one read delivers at most the requested count *)
| REintr | REagain | REof | RErr.

Inductive rd_result : Type := GotData (l : list byte) | GotIntr | GotStop.

(* read(fd, p, n) against the schedule; an exhausted schedule reads as end of file *)
Definition read_call (n : Z) (sched : list rd_event) : rd_result * list rd_event :=
  match sched with
  | [] => (GotStop, [])
  | RData l :: r =>
    match l with
    | [] => (GotStop, r)                                        (* read returns 0 *)
    | _ => let a := firstn (Z.to_nat n) l in
           let rest := skipn (Z.to_nat n) l in
           (GotData a, match rest with [] => r | _ => RData rest :: r end)
    end
  | REintr :: r => (GotIntr, r)
  | _ :: r => (GotStop, r)
  end.

Fixpoint sched_measure (sched : list rd_event) : nat :=
  match sched with
  | [] => O
  | RData l :: r => S (length l + sched_measure r)
  | _ :: r => S (sched_measure r)
  end.

(* REALLOC(s, n): contents up to min(old, n) kept, new cells uninitialised *)
Definition realloc (b : buf) (n : Z) : buf :=
  let k := Z.to_nat n in firstn k b ++ repeat None (k - length b).

(* the kernel stores l at offset p of the block b *)
Definition putz (b : buf) (p : Z) (l : list byte) : res buf :=
  if (p <? 0) || (blen b <? p + zlen l) then Fault OOB_write
  else Ok (firstn (Z.to_nat p) b ++ bytes l ++ skipn (Z.to_nat p + length l) b).

Record strv : Type := mk_strv { sv_s : buf; sv_len : Z; sv_size : Z }.

Fixpoint fd_loop (inc : Z) (fuel : nat) (b : buf) (size p : Z) (sched : list rd_event)
  : res (buf * Z) :=
  match fuel with
  | O => Fault Out_of_fuel
  | S fuel' =>
    match read_call inc sched with
    | (GotStop, _) => Ok (b, size)
    | (GotIntr, r) => fd_loop inc fuel' b size p r
    | (GotData a, r) =>
      b1 <- putz b p a ;;
      let size' := size + zlen a in
      let b2 := realloc b1 size' in
      fd_loop inc fuel' b2 size' (size' - inc) r
    end
  end.

Definition init_from_fd (inc : Z) (sched : list rd_event) : res strv :=
  let b := realloc [] inc in                                  (* MALLOC(buff_inc) *)
  '(b1, size) <- fd_loop inc (S (sched_measure sched)) b inc 0 sched ;;
  let len := size - inc in
  let size2 := len + 1 in
  let b2 := realloc b1 size2 in
  b3 <- wr b2 len 0 ;;
  Ok (mk_strv b3 len size2).

(* spif_socket_recv: spif_str_new_from_fd refuses a negative descriptor (ASSERT_RVAL -> NULL) *)
Definition socket_recv (inc : Z) (fd : Z) (sched : list rd_event) : res (option strv) :=
  if fd <? 0 then Ok None else (r <- init_from_fd inc sched ;; Ok (Some r)).

(* the text of a result: its first len cells, read with the usual checks *)
Fixpoint cells_bytes (b : buf) : res (list byte) :=
  match b with
  | [] => Ok []
  | None :: _ => Fault Uninit_read
  | Some c :: t => (r <- cells_bytes t ;; Ok (c :: r))
  end.
Definition sv_text (r : strv) : res (list byte) :=
  if blen (sv_s r) <? sv_len r then Fault OOB_read
  else cells_bytes (firstn (Z.to_nat (sv_len r)) (sv_s r)).

(* --- spec: what a schedule delivers before its first terminal outcome --- *)
Fixpoint delivered (sched : list rd_event) : list byte :=
  match sched with
  | RData [] :: _ => []
  | RData l :: r => l ++ delivered r
  | REintr :: r => delivered r
  | _ => []
  end.

(* --- the FIFO byte channel (stated assumption about AF_UNIX stream sockets): the reader is
   handed the queued bytes in order, in pieces whose sizes the kernel chooses, interleaved with
   interrupted calls; the terminal outcome (EAGAIN on a non-blocking descriptor, end of file
   after the peer closed) comes only when the queue is empty --- *)
Inductive rd_shape : Type := ShTake (k : Z) | ShIntr.

Fixpoint fifo_sched (q : list byte) (shape : list rd_shape) (term : rd_event) : list rd_event :=
  match shape with
  | [] => match q with [] => [term] | _ => [RData q; term] end
  | ShIntr :: sh => REintr :: fifo_sched q sh term
  | ShTake k :: sh =>
    match q with
    | [] => [term]
    | _ => let n := Z.to_nat (Z.max 1 k) in
           RData (firstn n q) :: fifo_sched (skipn n q) sh term
    end
  end.

(* ===================================================================================== *)
(* (b) spif_socket_send                                                                   *)
(* ===================================================================================== *)
(* errno values of a failed write other than EAGAIN / EINTR (own constructors) and EBADF (decided
   by the descriptor table, never by the schedule) *)
Inductive werr : Type := EFBIG | EIO | EPIPE | EINVAL | EOTHER.
Inductive wr_event : Type := Wrote (k : Z) | WEintr | WEagain | WErr (e : werr).

Inductive wstat : Type := WDone | WFail (e : option werr).    (* None = EBADF *)
Inductive fd_effect : Type := FdKeep | FdClosed | FdForgotten.

Definition timeval : Type := (Z * Z)%type.                    (* tv_sec, tv_usec *)
Definition bump (tv : timeval) : timeval :=
  let us := snd tv + send_backoff_usec in
  if us =? send_backoff_wrap then (fst tv + 1, 0) else (fst tv, us).

Record wphase : Type := mk_wphase {
  wp_stat : wstat; wp_acc : list byte; wp_rest : list byte;
  wp_tv : timeval; wp_sel : list timeval; wp_ws : list wr_event }.

(* the write / retry / continue loop (repaired: a short count continues with the remainder):
     for (;;) {
         n = write(fd, s, len);
         for (; n < 0 && (errno == EAGAIN || errno == EINTR); ) { back-off; select; n = write(fd, s, len); }
         if (n < 0 || n >= len) break;
         s += n; len -= n;
     }
   An exhausted schedule means the kernel takes everything that is left. *)
Fixpoint write_phase (fdopen : bool) (s : list byte) (tv : timeval) (sel : list timeval)
         (acc : list byte) (ws : list wr_event) {struct ws} : wphase :=
  if negb fdopen then mk_wphase (WFail None) acc s tv sel ws else
  match ws with
  | [] => mk_wphase WDone (acc ++ s) [] tv sel []
  | Wrote k :: r =>
    let n := Z.min (Z.max k 0) (zlen s) in
    if zlen s <=? n then mk_wphase WDone (acc ++ s) [] tv sel r
    else write_phase fdopen (skipn (Z.to_nat n) s) tv sel (acc ++ firstn (Z.to_nat n) s) r
  | WEintr :: r | WEagain :: r =>
    let tv' := bump tv in write_phase fdopen s tv' (sel ++ [tv']) acc r
  | WErr e :: r => mk_wphase (WFail (Some e)) acc s tv sel r
  end.

(* spif_str_new_from_buff(s, n) on the tail of a NUL-terminated text: strnlen stops at a NUL or
   at the terminator (= end of the list) *)
Fixpoint take_nonnul (n : nat) (s : list byte) : list byte :=
  match n, s with
  | S n', c :: t => if c =? 0 then [] else c :: take_nonnul n' t
  | _, _ => []
  end.

Record send_out : Type := mk_send_out {
  so_ok : bool;                 (* return value *)
  so_acc : list byte;           (* bytes the kernel accepted, in the order it accepted them *)
  so_eff : fd_effect;           (* what happened to self->fd *)
  so_sel : list timeval;        (* timeouts handed to select() by the back-off *)
  so_ws : list wr_event }.      (* schedule left over *)

(* the EFBIG branch:
     for (left = len, s = buf; left > 0; s += chunk, left -= chunk) {
         tmp_buf = spif_str_new_from_buff(s, chunk);
         b = spif_socket_send(self, tmp_buf);  spif_str_del(tmp_buf);
         if (b == FALSE) return b;
     }
   n = number of iterations; sendf = the recursive call *)
Fixpoint chunks_loop (sendf : list byte -> list wr_event -> res send_out) (chunk : Z) (n : nat)
         (s acc : list byte) (sel : list timeval) (ws : list wr_event) {struct n} : res send_out :=
  match n with
  | O => Ok (mk_send_out true acc FdKeep sel ws)
  | S n' =>
    r <- sendf (take_nonnul (Z.to_nat chunk) s) ws ;;
    if so_ok r
    then chunks_loop sendf chunk n' (skipn (Z.to_nat chunk) s) (acc ++ so_acc r) (sel ++ so_sel r) (so_ws r)
    else Ok (mk_send_out false (acc ++ so_acc r) (so_eff r) (sel ++ so_sel r) (so_ws r))
  end.

Fixpoint send (chunk : Z) (fuel : nat) (fdopen : bool) (data : list byte) (ws : list wr_event)
  {struct fuel} : res send_out :=
  match fuel with
  | O => Fault Out_of_fuel
  | S f =>
    match data with
    | [] => Ok (mk_send_out false [] FdKeep [] ws)            (* REQUIRE_RVAL(len > 0, FALSE) *)
    | _ =>
      let w := write_phase fdopen data (0, 0) [] [] ws in
      match wp_stat w with
      | WDone => Ok (mk_send_out true (wp_acc w) FdKeep (wp_sel w) (wp_ws w))
      | WFail (Some EFBIG) =>
        chunks_loop (send chunk f fdopen) chunk
                    (Z.to_nat ((zlen (wp_rest w) + chunk - 1) / chunk))
                    (wp_rest w) (wp_acc w) (wp_sel w) (wp_ws w)
      | WFail None =>                                           (* EBADF: nothing to close *)
        Ok (mk_send_out false (wp_acc w) FdForgotten (wp_sel w) (wp_ws w))
      | WFail (Some _) =>                                       (* close(fd); fd = -1 *)
        Ok (mk_send_out false (wp_acc w) FdClosed (wp_sel w) (wp_ws w))
      end
    end
  end.

Definition socket_send (fdopen : bool) (data : list byte) (ws : list wr_event) : res send_out :=
  send send_chunk (S (length ws)) fdopen data ws.

(* --- spec --- *)
Definition is_prefix (a b : list byte) : Prop := exists t, b = a ++ t.

(* sender and receiver joined by the FIFO channel *)
Definition pair_xfer (inc : Z) (payload : list byte) (ws : list wr_event)
           (shape : list rd_shape) (term : rd_event) : res (send_out * strv) :=
  so <- socket_send true payload ws ;;
  r <- init_from_fd inc (fifo_sched (so_acc so) shape term) ;;
  Ok (so, r).

(* ===================================================================================== *)
(* (c) the lifecycle over a descriptor table                                              *)
(* ===================================================================================== *)
Record sock : Type := mk_sock {
  s_fd : Z;           (* self->fd *)
  s_addr : bool;      (* self->addr != NULL *)
  s_flags : Z;        (* self->flags *)
  s_lurl : bool;      (* local_url != NULL *)
  s_rurl : bool }.    (* remote_url != NULL *)

Definition fset (f b : Z) : Z := Z.lor f b.
Definition fclear (f b : Z) : Z := Z.ldiff f b.
Definition fisset (f b : Z) : bool := negb (Z.land f b =? 0).

Record world : Type := mk_world { w_open : list Z; w_objs : list (option sock) }.

(* a negative number is never a descriptor *)
Definition is_open (w : list Z) (fd : Z) : bool := (0 <=? fd) && existsb (Z.eqb fd) w.
Definition release (w : list Z) (fd : Z) : list Z := filter (fun x => negb (x =? fd)) w.

Definition get (objs : list (option sock)) (i : nat) : option sock :=
  match nth_error objs i with Some (Some s) => Some s | _ => None end.

(* spif_socket_init_from_urls *)
Definition sock_new (l r : bool) : sock := mk_sock (-1) false 0 l r.

(* spif_socket_get_proto for "unix:" URLs *)
Definition get_proto (s : sock) : sock :=
  if s_lurl s || s_rurl s
  then mk_sock (s_fd s) (s_addr s) (fset (fset (s_flags s) F_FAMILY_UNIX) F_TYPE_STREAM) (s_lurl s) (s_rurl s)
  else s.                                                       (* REQUIRE_RVAL(!SPIF_URL_ISNULL(url)) *)

Definition with_fd (s : sock) (fd : Z) : sock := mk_sock fd (s_addr s) (s_flags s) (s_lurl s) (s_rurl s).
Definition with_flags (s : sock) (f : Z) : sock := mk_sock (s_fd s) (s_addr s) f (s_lurl s) (s_rurl s).

(* do { ret = close(fd); } while (ret < 0 && errno == EINTR): n interrupted calls (descriptor
   still open), then one call that releases it, successfully or not *)
Fixpoint close_loop (n : nat) (final_ok : bool) : bool :=
  match n with O => final_ok | S n' => close_loop n' final_ok end.

(* spif_socket_close; returns (result, object, open set) *)
Definition sock_close (s : sock) (opn : list Z) (n_eintr : nat) (ok : bool) : bool * sock * list Z :=
  if s_fd s <? 0 then (false, s, opn)                          (* REQUIRE_RVAL(self->fd >= 0, FALSE) *)
  else
    let s1 := with_flags s (fclear (s_flags s) F_IOSTATE) in
    let r := close_loop n_eintr ok in
    (r, with_fd s1 (-1), release opn (s_fd s)).

(* spif_socket_done *)
Definition sock_done (s : sock) (opn : list Z) (n_eintr : nat) (ok : bool) : sock * list Z :=
  let '(_, s1, opn1) := if 0 <=? s_fd s then sock_close s opn n_eintr ok else (false, s, opn) in
  (mk_sock (s_fd s1) false 0 false false, opn1).

Section Lifecycle.
(* the descriptor a successful socket()/accept()/dup() returns *)
Variable pick : list Z -> Z.

(* spif_socket_open *)
Definition sock_open (s : sock) (opn : list Z) (sock_ok bind_ok conn_ok listen_ok : bool)
  : bool * sock * list Z :=
  (* address phase *)
  let a :=
    if s_addr s then Some s
    else
      let s1 := get_proto s in
      if fisset (s_flags s1) F_FAMILY_INET then None            (* not reachable with "unix:" URLs *)
      else if fisset (s_flags s1) F_FAMILY_UNIX
      then Some (mk_sock (s_fd s1) (s_rurl s1) (s_flags s1) (s_lurl s1) (s_rurl s1))
      else None in                                              (* ASSERT_NOTREACHED_RVAL(FALSE) *)
  match a with
  | None => (false, get_proto s, opn)
  | Some s2 =>
    (* descriptor phase *)
    let d :=
      if s_fd s2 <? 0 then
        if fisset (s_flags s2) (fset (fset F_TYPE_STREAM F_TYPE_DGRAM) F_TYPE_RAW) then
          if sock_ok then
            let fd := pick opn in
            let s3 := with_fd s2 fd in
            if s_lurl s3 && (fisset (s_flags s3) F_FAMILY_INET || fisset (s_flags s3) F_FAMILY_UNIX)
               && negb bind_ok then inr (s3, fd :: opn)
            else inl (with_flags s3 (fset (s_flags s3) F_OPEN), fd :: opn)
          else inr (with_fd s2 (-1), opn)
        else inr (s2, opn)
      else inl (s2, opn) in
    match d with
    | inr (s4, opn4) => (false, s4, opn4)
    | inl (s4, opn4) =>
      if s_rurl s4 then
        let s5 := with_flags s4 (fclear (s_flags s4) F_NBIO) in (* spif_socket_clear_nbio *)
        if conn_ok then (true, with_flags s5 (fset (s_flags s5) F_CONNECTED), opn4)
        else (false, s5, opn4)
      else if s_lurl s4 then
        if listen_ok then (true, with_flags s4 (fset (s_flags s4) F_LISTEN), opn4)
        else (false, s4, opn4)
      else (true, s4, opn4)
    end
  end.

(* spif_socket_dup *)
Definition sock_dup (s : sock) (opn : list Z) (dup_ok : bool) : sock * list Z :=
  if 0 <=? s_fd s then
    if dup_ok && is_open opn (s_fd s)
    then let fd := pick opn in (with_fd s fd, fd :: opn)
    else (with_fd s (-1), opn)                                  (* dup() returned -1 *)
  else (with_fd s (-1), opn).

(* spif_socket_accept (repaired: the descriptor spif_socket_dup duplicated is closed before the
   accepted one takes its place); accept() on a descriptor that is not open fails *)
Definition sock_accept (s : sock) (opn : list Z) (n_again : nat) (acc_ok dup_ok : bool)
  : option sock * list Z :=
  if close_loop n_again acc_ok && is_open opn (s_fd s) then
    let newfd := pick opn in
    let opn1 := newfd :: opn in
    let '(t, opn2) := sock_dup s opn1 dup_ok in
    let opn3 := if 0 <=? s_fd t then release opn2 (s_fd t) else opn2 in
    let t1 := with_fd t newfd in
    let t2 := with_flags t1 (fclear (s_flags t1) (fset (fset F_LISTEN F_HAVE_INPUT) F_CAN_OUTPUT)) in
    let t3 := if fisset (s_flags s) F_FAMILY_INET || fisset (s_flags s) F_FAMILY_UNIX
              then mk_sock (s_fd t2) (s_addr t2) (s_flags t2) (s_lurl t2) true else t2 in
    let t4 := if fisset (s_flags s) F_NBIO then with_flags t3 (fset (s_flags t3) F_NBIO) else t3 in
    (Some t4, opn3)
  else (None, opn).

(* spif_socket_set_nbio (fcntl on an open descriptor succeeds) *)
Definition sock_nbio (s : sock) : bool * sock :=
  if s_fd s <? 0 then (false, s) else (true, with_flags s (fset (s_flags s) F_NBIO)).

Inductive op : Type :=
| ONew (l r : bool)
| OOpen (i : nat) (sock_ok bind_ok conn_ok listen_ok : bool)
| OAccept (i : nat) (n_again : nat) (acc_ok dup_ok : bool)
| OClose (i : nat) (n_eintr : nat) (ok : bool)
| ODup (i : nat) (dup_ok : bool)
| ODone (i : nat) (n_eintr : nat) (ok : bool)
| ODel (i : nat) (n_eintr : nat) (ok : bool)
| ONbio (i : nat)
| OSend (i : nat) (data : list byte) (ws : list wr_event)
| ORecv (i : nat) (rs : list rd_event).

Inductive oresult : Type :=
| RSkip                               (* no live object at that index *)
| RNew
| RBool (b : bool)
| RObj (created : bool)
| RSend (r : res send_out)
| RRecv (r : res (option strv)).

Definition set_obj (w : world) (i : nat) (o : option sock) (opn : list Z) : world :=
  mk_world opn (upd (w_objs w) i o).

Definition step (inc : Z) (w : world) (o : op) : world * oresult :=
  match o with
  | ONew l r => (mk_world (w_open w) (w_objs w ++ [Some (sock_new l r)]), RNew)
  | OOpen i a b c d =>
    match get (w_objs w) i with
    | None => (w, RSkip)
    | Some s => let '(r, s', opn) := sock_open s (w_open w) a b c d in (set_obj w i (Some s') opn, RBool r)
    end
  | OAccept i n a d =>
    match get (w_objs w) i with
    | None => (w, RSkip)
    | Some s =>
      match sock_accept s (w_open w) n a d with
      | (Some t, opn) => (mk_world opn (w_objs w ++ [Some t]), RObj true)
      | (None, opn) => (mk_world opn (w_objs w), RObj false)
      end
    end
  | OClose i n k =>
    match get (w_objs w) i with
    | None => (w, RSkip)
    | Some s => let '(r, s', opn) := sock_close s (w_open w) n k in (set_obj w i (Some s') opn, RBool r)
    end
  | ODup i d =>
    match get (w_objs w) i with
    | None => (w, RSkip)
    | Some s => let '(t, opn) := sock_dup s (w_open w) d in
                (mk_world opn (w_objs w ++ [Some t]), RObj true)
    end
  | ODone i n k =>
    match get (w_objs w) i with
    | None => (w, RSkip)
    | Some s => let '(s', opn) := sock_done s (w_open w) n k in (set_obj w i (Some s') opn, RBool true)
    end
  | ODel i n k =>
    match get (w_objs w) i with
    | None => (w, RSkip)
    | Some s => let '(_, opn) := sock_done s (w_open w) n k in (set_obj w i None opn, RBool true)
    end
  | ONbio i =>
    match get (w_objs w) i with
    | None => (w, RSkip)
    | Some s => let '(r, s') := sock_nbio s in (set_obj w i (Some s') (w_open w), RBool r)
    end
  | OSend i data ws =>
    match get (w_objs w) i with
    | None => (w, RSkip)
    | Some s =>
      let r := socket_send (is_open (w_open w) (s_fd s)) data ws in
      match r with
      | Fault _ => (w, RSend r)
      | Ok so =>
        match so_eff so with
        | FdKeep => (w, RSend r)
        | FdClosed =>
          (set_obj w i (Some (with_flags (with_fd s (-1)) (fclear (s_flags s) F_IOSTATE)))
                   (release (w_open w) (s_fd s)), RSend r)
        | FdForgotten =>
          (set_obj w i (Some (with_flags (with_fd s (-1)) (fclear (s_flags s) F_IOSTATE))) (w_open w), RSend r)
        end
      end
    end
  | ORecv i rs =>
    match get (w_objs w) i with
    | None => (w, RSkip)
    | Some s => (w, RRecv (socket_recv inc (s_fd s) rs))
    end
  end.

Fixpoint run (inc : Z) (w : world) (ops : list op) : world * list oresult :=
  match ops with
  | [] => (w, [])
  | o :: r => let '(w1, x) := step inc w o in
              let '(w2, xs) := run inc w1 r in (w2, x :: xs)
  end.

(* delete every object that is still alive, slot by slot; closes n k gives the outcome of the
   close loop for slot k *)
Fixpoint del_all (n : nat) (closes : nat -> nat * bool) : list op :=
  match n with
  | O => []
  | S n' => del_all n' closes ++ [ODel n' (fst (closes n')) (snd (closes n'))]
  end.

Definition cleanup (inc : Z) (w : world) (closes : nat -> nat * bool) : world :=
  fst (run inc w (del_all (length (w_objs w)) closes)).

End Lifecycle.

(* --- spec side of the lifecycle --- *)
(* x is the descriptor of a live object *)
Definition owns (objs : list (option sock)) (x : Z) : Prop :=
  exists i s, get objs i = Some s /\ s_fd s = x /\ 0 <= x.

(* the descriptor choice of the kernel: never a descriptor that is open, never negative *)
Definition fresh_pick (pick : list Z -> Z) : Prop :=
  forall l, ~ In (pick l) l /\ 0 <= pick l.

(* one valid choice, used by the extracted driver *)
Definition pick_max (l : list Z) : Z := fold_right Z.max 0 l + 1.

(* the choice the kernel really makes: the lowest descriptor number >= base that is not open (base =
   0 for an ordinary process; the driver also runs histories in which everything below 1023, 1024 or
   1025 is taken).  length l + 1 candidates always contain a free one; the fuel-exhausted branch is
   there to keep the definition total without a pigeonhole argument and is fresh as well. *)
Fixpoint low_from (fuel : nat) (k : Z) (l : list Z) : Z :=
  match fuel with
  | O => Z.max k (fold_right Z.max 0 l + 1)
  | S f => if existsb (Z.eqb k) l then low_from f (k + 1) l else k
  end.
Definition pick_low (base : Z) (l : list Z) : Z := low_from (S (length l)) (Z.max 0 base) l.

(* dangling: a live object whose descriptor field is non-negative but not open *)
Definition dangling (w : world) : list nat :=
  let fix go (k : nat) (l : list (option sock)) : list nat :=
    match l with
    | [] => []
    | Some s :: t => if (0 <=? s_fd s) && negb (is_open (w_open w) (s_fd s)) then k :: go (S k) t else go (S k) t
    | None :: t => go (S k) t
    end in go O (w_objs w).
