(* C19 - proofs about Sock/SockModel.v: the receive loop (all read schedules), spif_socket_send
   (all write schedules), the sender/receiver pair over the FIFO channel. *)
From LV Require Import Base.Buf Gen.SockGen Sock.SockModel.
Local Open Scope Z_scope.

(* ===================================================================================== *)
(* small list facts                                                                       *)
(* ===================================================================================== *)
Ltac zb := repeat match goal with
  | H : (_ <? _) = true |- _ => apply Z.ltb_lt in H
  | H : (_ <? _) = false |- _ => apply Z.ltb_ge in H
  | H : (_ <=? _) = true |- _ => apply Z.leb_le in H
  | H : (_ <=? _) = false |- _ => apply Z.leb_gt in H
  | H : (_ =? _) = true |- _ => apply Z.eqb_eq in H
  | H : (_ =? _) = false |- _ => apply Z.eqb_neq in H
  end.

Lemma zlen_app {A} (a b : list A) : zlen (a ++ b) = zlen a + zlen b.
Proof. unfold zlen. rewrite app_length. lia. Qed.

Lemma zlen_nonneg {A} (a : list A) : 0 <= zlen a.
Proof. unfold zlen. lia. Qed.

Lemma zlen_bytes (s : list Z) : zlen (bytes s) = zlen s.
Proof. unfold zlen. now rewrite bytes_length. Qed.

Lemma firstn_all2' {A} (l : list A) n : (length l <= n)%nat -> firstn n l = l.
Proof. apply firstn_all2. Qed.

Lemma skipn_nil_firstn {A} (l : list A) n : skipn n l = [] -> firstn n l = l.
Proof.
  intros H. rewrite <- (firstn_skipn n l) at 2. rewrite H. now rewrite app_nil_r.
Qed.

Lemma cells_bytes_bytes (s : list Z) : cells_bytes (bytes s) = Ok s.
Proof. unfold bytes. induction s as [|c s IH]; cbn [map cells_bytes]; [reflexivity|]. rewrite IH. reflexivity. Qed.

(* ===================================================================================== *)
(* (a) the receive loop                                                                   *)
(* ===================================================================================== *)
Lemma realloc_grow (b : buf) (n : Z) :
  blen b <= n -> realloc b n = b ++ repeat None (Z.to_nat n - length b).
Proof.
  intros H. unfold realloc, blen in *. rewrite firstn_all2 by lia. reflexivity.
Qed.

Lemma putz_at_end (acc : list Z) (junk : buf) (a : list Z) :
  zlen a <= zlen junk ->
  putz (bytes acc ++ junk) (zlen acc) a = Ok (bytes (acc ++ a) ++ skipn (length a) junk).
Proof.
  intros H. unfold putz, blen. rewrite app_length, bytes_length.
  pose proof (zlen_nonneg acc). unfold zlen in *.
  destruct (Z.of_nat (length acc) <? 0) eqn:E1; [zb; lia|].
  destruct (Z.of_nat (length acc + length junk) <? Z.of_nat (length acc) + Z.of_nat (length a)) eqn:E2; [zb; rewrite Nat2Z.inj_add in E2; lia|].
  simpl. f_equal. rewrite Nat2Z.id.
  rewrite firstn_app, bytes_length, Nat.sub_diag, firstn_O, app_nil_r.
  rewrite firstn_all2 by (rewrite bytes_length; lia).
  rewrite skipn_app, bytes_length.
  rewrite (skipn_all2 (bytes acc)) by (rewrite bytes_length; lia).
  replace (length acc + length a - length acc)%nat with (length a) by lia.
  rewrite bytes_app, <- app_assoc. reflexivity.
Qed.

Lemma fd_loop_spec inc : 0 < inc ->
  forall fuel sched acc junk,
    (sched_measure sched < fuel)%nat -> zlen junk = inc ->
    exists junk', zlen junk' = inc /\
      fd_loop inc fuel (bytes acc ++ junk) (zlen acc + inc) (zlen acc) sched
      = Ok (bytes (acc ++ delivered sched) ++ junk', zlen (acc ++ delivered sched) + inc).
Proof.
  intros Hinc. induction fuel as [|fuel IH]; intros sched acc junk Hm Hj; [lia|].
  cbn [fd_loop].
  destruct sched as [|e r].
  - cbn. exists junk. now rewrite app_nil_r.
  - destruct e as [l| | | |].
    + destruct l as [|x l].
      * cbn. exists junk. now rewrite app_nil_r.
      * cbn [read_call].
        set (n := Z.to_nat inc). set (a := firstn n (x :: l)). set (rest := skipn n (x :: l)).
        assert (Hn : (1 <= n)%nat) by (unfold n; lia).
        assert (Hla : (length a <= n)%nat) by (unfold a; apply firstn_le_length).
        assert (Hsplit : a ++ rest = x :: l) by (unfold a, rest; apply firstn_skipn).
        assert (Hlen : (length a + length rest = S (length l))%nat).
        { rewrite <- app_length, Hsplit. reflexivity. }
        assert (Hapos : (1 <= length a)%nat).
        { unfold a. rewrite firstn_length. cbn [length]. lia. }
        assert (Hza : zlen a <= zlen junk) by (unfold zlen in *; lia).
        cbn [bind]. rewrite putz_at_end by assumption. cbn [bind].
        rewrite realloc_grow.
        2:{ unfold blen. rewrite app_length, bytes_length, skipn_length, app_length.
            unfold zlen in *. lia. }
        replace (zlen acc + inc + zlen a) with (zlen (acc ++ a) + inc) by (rewrite zlen_app; lia).
        replace (zlen (acc ++ a) + inc - inc) with (zlen (acc ++ a)) by lia.
        rewrite <- app_assoc.
        set (junk2 := skipn (length a) junk ++ repeat None _).
        assert (Hj2 : zlen junk2 = inc).
        { unfold junk2. rewrite zlen_app. unfold zlen in *.
          rewrite repeat_length, !app_length, bytes_length, !skipn_length, app_length. lia. }
        assert (Hd : delivered (RData (x :: l) :: r) =
                     a ++ delivered (match rest with [] => r | _ => RData rest :: r end)).
        { cbn [delivered]. destruct rest as [|y rest'] eqn:Er.
          - rewrite app_nil_r in Hsplit. now rewrite Hsplit.
          - cbn [delivered]. rewrite app_assoc, Hsplit. reflexivity. }
        destruct (IH (match rest with [] => r | _ => RData rest :: r end) (acc ++ a) junk2) as [j' [Hj' He]].
        { cbn [sched_measure] in Hm. destruct rest as [|y rest'] eqn:Er; cbn [sched_measure length] in *; lia. }
        { exact Hj2. }
        exists j'. split; [exact Hj'|]. rewrite He, Hd, !app_assoc. reflexivity.
    + cbn [read_call]. destruct (IH r acc junk) as [j' [Hj' He]]; [cbn in Hm; lia | exact Hj |].
      exists j'. split; [exact Hj'|]. exact He.
    + cbn. exists junk. now rewrite app_nil_r.
    + cbn. exists junk. now rewrite app_nil_r.
    + cbn. exists junk. now rewrite app_nil_r.
Qed.

Theorem recv_concat inc sched : 0 < inc ->
  init_from_fd inc sched =
  Ok (mk_strv (bytes (delivered sched) ++ [Some 0]) (zlen (delivered sched)) (zlen (delivered sched) + 1)).
Proof.
  intros Hinc. unfold init_from_fd.
  assert (Hr : realloc [] inc = bytes [] ++ repeat None (Z.to_nat inc)).
  { unfold realloc. cbn. now rewrite firstn_nil, Nat.sub_0_r. }
  rewrite Hr.
  destruct (fd_loop_spec inc Hinc (S (sched_measure sched)) sched [] (repeat None (Z.to_nat inc))) as [j' [Hj' He]].
  - lia.
  - unfold zlen. rewrite repeat_length. lia.
  - change (zlen (@nil Z)) with 0 in He. cbn [app] in He. replace (0 + inc) with inc in He by lia.
    rewrite He. cbn [bind].
    set (d := delivered sched) in *.
    replace (zlen d + inc - inc) with (zlen d) by lia.
    destruct j' as [|c j'']; [unfold zlen in Hj'; cbn in Hj'; lia|].
    assert (Hre : realloc (bytes d ++ c :: j'') (zlen d + 1) = bytes d ++ [c]).
    { unfold realloc, zlen. replace (Z.to_nat (Z.of_nat (length d) + 1)) with (length d + 1)%nat by lia.
      rewrite firstn_app, bytes_length.
      rewrite firstn_all2 by (rewrite bytes_length; lia).
      replace (length d + 1 - length d)%nat with 1%nat by lia. cbn [firstn].
      rewrite app_length, bytes_length. cbn [length].
      replace (length d + 1 - (length d + S (length j'')))%nat with 0%nat by lia.
      cbn. now rewrite app_nil_r. }
    rewrite Hre. unfold wr, wrn.
    pose proof (zlen_nonneg d).
    destruct (zlen d <? 0) eqn:E; [zb; lia|].
    rewrite app_length, bytes_length. cbn [length].
    unfold zlen. rewrite Nat2Z.id.
    destruct (length d <? length d + 1)%nat eqn:E2; [|apply Nat.ltb_ge in E2; lia].
    cbn [bind]. rewrite upd_app_r by (rewrite bytes_length; lia).
    rewrite bytes_length, Nat.sub_diag. reflexivity.
Qed.

Lemma recv_text inc sched : 0 < inc ->
  exists r, init_from_fd inc sched = Ok r /\ sv_text r = Ok (delivered sched).
Proof.
  intros H. eexists. split; [apply recv_concat; exact H|].
  unfold sv_text. cbn [sv_s sv_len]. unfold blen. rewrite app_length, bytes_length. cbn [length].
  unfold zlen. destruct (Z.of_nat (length (delivered sched) + 1) <? Z.of_nat (length (delivered sched))) eqn:E; [zb; lia|].
  rewrite Nat2Z.id, firstn_app, bytes_length, Nat.sub_diag, firstn_O, app_nil_r.
  rewrite firstn_all2 by (rewrite bytes_length; lia).
  apply cells_bytes_bytes.
Qed.

(* the FIFO channel hands over exactly the queued bytes *)
Lemma fifo_delivered shape : forall q term,
  term = REagain \/ term = REof -> delivered (fifo_sched q shape term) = q.
Proof.
  induction shape as [|sh shape IH]; intros q term Ht.
  - cbn. destruct q as [|x q].
    + destruct Ht as [-> | ->]; reflexivity.
    + cbn. destruct Ht as [-> | ->]; cbn; now rewrite app_nil_r.
  - destruct sh as [k|].
    + cbn [fifo_sched]. destruct q as [|x q].
      * destruct Ht as [-> | ->]; reflexivity.
      * set (n := Z.to_nat (Z.max 1 k)).
        assert (Hn : (1 <= n)%nat) by (unfold n; lia).
        destruct n as [|n']; [lia|].
        cbn [firstn skipn delivered]. rewrite IH by exact Ht.
        cbn. now rewrite firstn_skipn.
    + cbn. apply IH. exact Ht.
Qed.

(* ===================================================================================== *)
(* (b) spif_socket_send                                                                   *)
(* ===================================================================================== *)
Lemma write_phase_spec fdopen : forall ws s tv sel acc,
  let w := write_phase fdopen s tv sel acc ws in
  wp_acc w ++ wp_rest w = acc ++ s /\
  (wp_stat w = WDone -> wp_rest w = []) /\
  (length (wp_ws w) <= length ws)%nat /\
  (forall e, wp_stat w = WFail (Some e) -> (length (wp_ws w) < length ws)%nat) /\
  (wp_stat w = WFail None <-> fdopen = false).
Proof.
  destruct fdopen.
  2:{ intros ws s tv sel acc. destruct ws; cbn; repeat split; auto; try discriminate; intros; try discriminate. }
  induction ws as [|e ws IH]; intros s tv sel acc.
  - cbn. repeat split; auto; try discriminate; intros; try discriminate.
    now rewrite app_nil_r.
  - destruct e as [k| | |er].
    + cbn [write_phase negb].
      set (n := Z.min (Z.max k 0) (zlen s)).
      destruct (zlen s <=? n) eqn:E.
      * cbn. repeat split; auto; try discriminate; intros; try discriminate. now rewrite app_nil_r.
      * specialize (IH (skipn (Z.to_nat n) s) tv sel (acc ++ firstn (Z.to_nat n) s)).
        cbv zeta in IH. destruct IH as (H1 & H2 & H3 & H4 & H5).
        repeat split.
        -- rewrite H1, <- app_assoc, firstn_skipn. reflexivity.
        -- exact H2.
        -- cbn [length]. lia.
        -- intros e He. specialize (H4 e He). cbn [length]. lia.
        -- apply H5.
        -- apply H5.
    + cbn [write_phase negb]. specialize (IH s (bump tv) (sel ++ [bump tv]) acc). cbv zeta in IH.
      destruct IH as (H1 & H2 & H3 & H4 & H5). repeat split; auto; try apply H5.
      * cbn [length]. lia.
      * intros e He. specialize (H4 e He). cbn [length]. lia.
    + cbn [write_phase negb]. specialize (IH s (bump tv) (sel ++ [bump tv]) acc). cbv zeta in IH.
      destruct IH as (H1 & H2 & H3 & H4 & H5). repeat split; auto; try apply H5.
      * cbn [length]. lia.
      * intros e He. specialize (H4 e He). cbn [length]. lia.
    + cbn. repeat split; auto; try discriminate; intros; try discriminate; lia.
Qed.

Lemma take_nonnul_nz n : forall s, Forall nz_byte s -> take_nonnul n s = firstn n s.
Proof.
  induction n as [|n IH]; intros s H; [destruct s; reflexivity|].
  destruct s as [|c s]; [reflexivity|]. inversion H as [|? ? Hc Hs]; subst.
  cbn. unfold nz_byte in Hc. destruct (c =? 0) eqn:E; [zb; lia|]. now rewrite IH.
Qed.

Lemma Forall_firstn {A} (P : A -> Prop) n : forall l, Forall P l -> Forall P (firstn n l).
Proof.
  induction n; intros l H; [constructor|]. destruct l; [constructor|].
  inversion H; subst. cbn. constructor; auto.
Qed.
Lemma Forall_skipn {A} (P : A -> Prop) n : forall l, Forall P l -> Forall P (skipn n l).
Proof.
  induction n; intros l H; [exact H|]. destruct l; [constructor|].
  inversion H; subst. cbn. auto.
Qed.

Lemma is_prefix_refl a : is_prefix a a.
Proof. exists []. now rewrite app_nil_r. Qed.
Lemma is_prefix_nil a : is_prefix [] a.
Proof. exists a. reflexivity. Qed.
Lemma is_prefix_trans a b c : is_prefix a b -> is_prefix b c -> is_prefix a c.
Proof. intros [t ->] [u ->]. exists (t ++ u). now rewrite app_assoc. Qed.
Lemma is_prefix_app a b c : is_prefix b c -> is_prefix (a ++ b) (a ++ c).
Proof. intros [t ->]. exists t. now rewrite app_assoc. Qed.
Lemma is_prefix_firstn n (a : list Z) : is_prefix (firstn n a) a.
Proof. exists (skipn n a). now rewrite firstn_skipn. Qed.

(* what every call of send guarantees, as one record of facts *)
Definition send_post (fdopen : bool) (data : list Z) (ws : list wr_event) (r : send_out) : Prop :=
  is_prefix (so_acc r) data /\
  (so_ok r = true -> so_acc r = data) /\
  (length (so_ws r) <= length ws)%nat /\
  (so_ok r = true -> so_eff r = FdKeep) /\
  (so_eff r = FdForgotten -> fdopen = false) /\
  (so_eff r = FdClosed -> fdopen = true).

Lemma chunks_loop_spec (sendf : list Z -> list wr_event -> res send_out) chunk fdopen (bound : nat) :
  0 < chunk ->
  (forall data ws, (length ws < bound)%nat -> Forall nz_byte data ->
                   exists r, sendf data ws = Ok r /\ send_post fdopen data ws r) ->
  forall n s acc sel ws,
    (length ws < bound)%nat -> Forall nz_byte s -> zlen s <= Z.of_nat n * chunk ->
    exists r t, chunks_loop sendf chunk n s acc sel ws = Ok r /\
      so_acc r = acc ++ t /\ is_prefix t s /\ (so_ok r = true -> t = s) /\
      (length (so_ws r) <= length ws)%nat /\
      (so_ok r = true -> so_eff r = FdKeep) /\
      (so_eff r = FdForgotten -> fdopen = false) /\
  (so_eff r = FdClosed -> fdopen = true).
Proof.
  intros Hc Hsend. induction n as [|n IH]; intros s acc sel ws Hws Hnz Hlen.
  - assert (s = []) as ->.
    { destruct s; [reflexivity|]. unfold zlen in Hlen. cbn in Hlen. lia. }
    cbn. eexists. exists []. cbn. rewrite app_nil_r.
    repeat split; auto using is_prefix_refl; discriminate.
  - cbn [chunks_loop].
    rewrite take_nonnul_nz by exact Hnz.
    set (c := firstn (Z.to_nat chunk) s).
    destruct (Hsend c ws Hws) as [r1 [E1 P1]]; [apply Forall_firstn; exact Hnz|].
    rewrite E1. cbn [bind].
    destruct P1 as (Q1 & Q2 & Q3 & Q4 & Q5 & Q6).
    destruct (so_ok r1) eqn:Eok.
    + specialize (Q2 eq_refl).
      destruct (IH (skipn (Z.to_nat chunk) s) (acc ++ so_acc r1) (sel ++ so_sel r1) (so_ws r1))
        as [r [t (E & A1 & A2 & A3 & A4 & A5 & A6 & A7)]].
      * lia.
      * apply Forall_skipn; exact Hnz.
      * unfold zlen in *. rewrite skipn_length. lia.
      * exists r, (c ++ t). rewrite E. split; [reflexivity|].
        repeat split; auto.
        -- rewrite A1, Q2, app_assoc. reflexivity.
        -- unfold c. rewrite <- (firstn_skipn (Z.to_nat chunk) s) at 2. apply is_prefix_app. exact A2.
        -- intros Hok. rewrite (A3 Hok). unfold c. apply firstn_skipn.
        -- lia.
    + eexists. exists (so_acc r1). split; [reflexivity|]. cbn.
      repeat split; auto; try discriminate.
      * eapply is_prefix_trans; [exact Q1|]. unfold c. apply is_prefix_firstn.
Qed.

Lemma send_spec chunk : 0 < chunk ->
  forall fuel fdopen data ws,
    (length ws < fuel)%nat -> Forall nz_byte data ->
    exists r, send chunk fuel fdopen data ws = Ok r /\ send_post fdopen data ws r.
Proof.
  intros Hc. induction fuel as [|f IH]; intros fdopen data ws Hf Hnz; [lia|].
  cbn [send].
  destruct data as [|x data'].
  { eexists. split; [reflexivity|]. unfold send_post. cbn.
    repeat split; auto using is_prefix_nil; discriminate. }
  set (data := x :: data') in *.
  pose proof (write_phase_spec fdopen ws data (0, 0) [] []) as W. cbv zeta in W.
  set (w := write_phase fdopen data (0, 0) [] [] ws) in *.
  destruct W as (W1 & W2 & W3 & W4 & W5). cbn [app] in W1.
  destruct (wp_stat w) as [|[e|]] eqn:Es.
  - (* everything written *)
    eexists. split; [reflexivity|]. unfold send_post. cbn.
    specialize (W2 eq_refl). rewrite W2, app_nil_r in W1.
    repeat split; auto; try discriminate. rewrite W1. apply is_prefix_refl.
  - assert (Hlt : (length (wp_ws w) < length ws)%nat) by (apply (W4 e); reflexivity).
    assert (Hpre : is_prefix (wp_acc w) data) by (exists (wp_rest w); now rewrite W1).
    assert (Hfd : fdopen = true).
    { destruct fdopen; [reflexivity|]. destruct W5 as [_ W5]. discriminate (W5 eq_refl). }
    destruct e.
    + (* EFBIG: chunk loop *)
      assert (Hnzr : Forall nz_byte (wp_rest w)).
      { rewrite <- W1 in Hnz. apply Forall_app in Hnz. apply Hnz. }
      destruct (chunks_loop_spec (send chunk f fdopen) chunk fdopen f Hc) with
          (n := Z.to_nat ((zlen (wp_rest w) + chunk - 1) / chunk)) (s := wp_rest w)
          (acc := wp_acc w) (sel := wp_sel w) (ws := wp_ws w)
        as [r [t (E & A1 & A2 & A3 & A4 & A5 & A6 & A7)]].
      * intros d ws' Hws' Hd. apply IH; assumption.
      * lia.
      * exact Hnzr.
      * pose proof (zlen_nonneg (wp_rest w)).
        rewrite Z2Nat.id by (apply Z.div_pos; lia).
        pose proof (Z.mul_div_le (zlen (wp_rest w) + chunk - 1) chunk Hc).
        pose proof (Z.mod_pos_bound (zlen (wp_rest w) + chunk - 1) chunk Hc).
        pose proof (Z.div_mod (zlen (wp_rest w) + chunk - 1) chunk ltac:(lia)).
        nia.
      * exists r. split; [exact E|]. unfold send_post.
        repeat split; auto.
        -- rewrite A1, <- W1. apply is_prefix_app. exact A2.
        -- intros Hok. rewrite A1, (A3 Hok). exact W1.
        -- lia.
    + eexists. split; [reflexivity|]. unfold send_post. cbn. repeat split; auto; try discriminate; lia.
    + eexists. split; [reflexivity|]. unfold send_post. cbn. repeat split; auto; try discriminate; lia.
    + eexists. split; [reflexivity|]. unfold send_post. cbn. repeat split; auto; try discriminate; lia.
    + eexists. split; [reflexivity|]. unfold send_post. cbn. repeat split; auto; try discriminate; lia.
  - (* EBADF *)
    assert (Hpre : is_prefix (wp_acc w) data) by (exists (wp_rest w); now rewrite W1).
    eexists. split; [reflexivity|]. unfold send_post. cbn.
    repeat split; auto; try discriminate. intros _. apply W5. reflexivity.
Qed.

Lemma send_chunk_pos : 0 < send_chunk.
Proof. reflexivity. Qed.

Theorem send_all_or_false fdopen data ws : Forall nz_byte data ->
  exists r, socket_send fdopen data ws = Ok r /\
    is_prefix (so_acc r) data /\
    (so_ok r = true -> so_acc r = data) /\
    (so_ok r = true -> so_eff r = FdKeep) /\
    (so_eff r = FdForgotten -> fdopen = false) /\
  (so_eff r = FdClosed -> fdopen = true).
Proof.
  intros Hnz. unfold socket_send.
  destruct (send_spec send_chunk send_chunk_pos (S (length ws)) fdopen data ws) as [r [E P]]; [lia | exact Hnz |].
  exists r. split; [exact E|]. unfold send_post in P. tauto.
Qed.

(* with an open descriptor and a schedule that never reports an error, everything is sent *)
Fixpoint no_werr (ws : list wr_event) : Prop :=
  match ws with [] => True | WErr _ :: _ => False | _ :: r => no_werr r end.

Lemma write_phase_no_err : forall ws s tv sel acc,
  no_werr ws -> wp_stat (write_phase true s tv sel acc ws) = WDone.
Proof.
  induction ws as [|e ws IH]; intros s tv sel acc H; [reflexivity|].
  destruct e as [k| | |er]; cbn [write_phase negb no_werr] in *.
  - destruct (zlen s <=? Z.min (Z.max k 0) (zlen s)); [reflexivity | apply IH; exact H].
  - apply IH; exact H.
  - apply IH; exact H.
  - contradiction.
Qed.

Theorem send_complete data ws : data <> [] -> no_werr ws ->
  exists r, socket_send true data ws = Ok r /\ so_ok r = true /\ so_acc r = data /\ so_eff r = FdKeep.
Proof.
  intros Hd Hw. unfold socket_send. cbn [send].
  destruct data as [|x d]; [contradiction|].
  pose proof (write_phase_no_err ws (x :: d) (0, 0) [] [] Hw) as Es.
  pose proof (write_phase_spec true ws (x :: d) (0, 0) [] []) as W. cbv zeta in W.
  destruct W as (W1 & W2 & _). rewrite Es. specialize (W2 Es). rewrite W2, app_nil_r in W1.
  eexists. split; [reflexivity|]. cbn. auto.
Qed.

(* sender and receiver over the FIFO channel *)
Theorem pair_delivers inc payload ws shape term :
  0 < inc -> Forall nz_byte payload -> term = REagain \/ term = REof ->
  exists so r, pair_xfer inc payload ws shape term = Ok (so, r) /\
    sv_text r = Ok (so_acc so) /\
    is_prefix (so_acc so) payload /\
    (so_ok so = true -> sv_text r = Ok payload).
Proof.
  intros Hinc Hnz Ht. unfold pair_xfer.
  destruct (send_all_or_false true payload ws Hnz) as [so (E & P1 & P2 & _)].
  rewrite E. cbn [bind].
  destruct (recv_text inc (fifo_sched (so_acc so) shape term) Hinc) as [r [Er Tr]].
  rewrite Er. cbn [bind]. exists so, r. split; [reflexivity|].
  rewrite fifo_delivered in Tr by exact Ht.
  repeat split; auto. intros Hok. rewrite <- (P2 Hok). exact Tr.
Qed.

(* what a send can do to the descriptor, for any payload (NUL bytes included) and any fuel *)
Definition eff_post (fdopen : bool) (r : send_out) : Prop :=
  (so_eff r = FdForgotten -> fdopen = false) /\ (so_eff r = FdClosed -> fdopen = true).

Lemma chunks_loop_eff (sendf : list Z -> list wr_event -> res send_out) chunk fdopen :
  (forall d ws r, sendf d ws = Ok r -> eff_post fdopen r) ->
  forall n s acc sel ws r, chunks_loop sendf chunk n s acc sel ws = Ok r -> eff_post fdopen r.
Proof.
  intros Hs. induction n as [|n IH]; intros s acc sel ws r H; cbn [chunks_loop] in H.
  - inversion H; subst. split; cbn; discriminate.
  - destruct (sendf (take_nonnul (Z.to_nat chunk) s) ws) as [r1|f] eqn:E1; cbn [bind] in H; [|discriminate].
    destruct (so_ok r1).
    + eapply IH; exact H.
    + inversion H; subst. cbn. apply (Hs _ _ _ E1).
Qed.

Lemma send_eff chunk : forall fuel fdopen data ws r,
  send chunk fuel fdopen data ws = Ok r -> eff_post fdopen r.
Proof.
  induction fuel as [|f IH]; intros fdopen data ws r H; [discriminate|].
  cbn [send] in H. destruct data as [|x d].
  { inversion H; subst. split; cbn; discriminate. }
  pose proof (write_phase_spec fdopen ws (x :: d) (0, 0) [] []) as W. cbv zeta in W.
  destruct W as (_ & _ & _ & _ & W5).
  destruct (wp_stat (write_phase fdopen (x :: d) (0, 0) [] [] ws)) as [|[e|]] eqn:Es.
  - inversion H; subst. split; cbn; discriminate.
  - assert (Hfd : fdopen = true).
    { destruct fdopen; [reflexivity|]. destruct W5 as [_ W5]. discriminate (W5 eq_refl). }
    destruct e; try (inversion H; subst; split; cbn; [discriminate | auto]).
    eapply chunks_loop_eff; [|exact H]. intros d0 ws0 r0 H0. eapply IH; exact H0.
  - inversion H; subst. split; cbn; [|discriminate]. intros _. apply W5. reflexivity.
Qed.
