(* C19 - the descriptor ledger: for every lifecycle history the open set is the initial set plus the
   descriptors of the live socket objects, no two objects share a descriptor, and after deleting
   every object the open set is the initial one again. *)
From LV Require Import Base.Buf Gen.SockGen Sock.SockModel Sock.SockProofs.
Local Open Scope Z_scope.

(* ---------- the descriptor table ---------- *)
Lemma is_open_In l x : is_open l x = true <-> 0 <= x /\ In x l.
Proof.
  unfold is_open. rewrite andb_true_iff, existsb_exists, Z.leb_le. split.
  - intros [P [y [Hy E]]]. apply Z.eqb_eq in E. now subst.
  - intros [P H]. split; [exact P|]. exists x. split; [exact H | apply Z.eqb_refl].
Qed.

(* what a send can do to the descriptor, for any payload (also one with NUL bytes) *)
Lemma send_effects fdopen data ws so : socket_send fdopen data ws = Ok so ->
  (so_eff so = FdForgotten -> fdopen = false) /\ (so_eff so = FdClosed -> fdopen = true).
Proof. unfold socket_send. apply send_eff. Qed.

Lemma In_release l f x : In x (release l f) <-> In x l /\ x <> f.
Proof.
  unfold release. rewrite filter_In. split; intros [H1 H2]; split; auto.
  - intros ->. rewrite Z.eqb_refl in H2. discriminate.
  - destruct (x =? f) eqn:E; [apply Z.eqb_eq in E; contradiction | reflexivity].
Qed.

(* ---------- the object table ---------- *)
Lemma get_lt objs i s : get objs i = Some s -> (i < length objs)%nat.
Proof.
  unfold get. intros H. apply nth_error_Some. destruct (nth_error objs i); [discriminate | discriminate].
Qed.

Lemma get_upd_eq objs i o : (i < length objs)%nat -> get (upd objs i o) i = o.
Proof. intros H. unfold get. rewrite nth_error_upd_eq by exact H. destruct o; reflexivity. Qed.

Lemma get_upd_neq objs i j o : i <> j -> get (upd objs i o) j = get objs j.
Proof. intros H. unfold get. now rewrite nth_error_upd_neq. Qed.

Lemma get_app_l objs x j : (j < length objs)%nat -> get (objs ++ [x]) j = get objs j.
Proof. intros H. unfold get. now rewrite nth_error_app1. Qed.

Lemma get_app_new objs x : get (objs ++ [x]) (length objs) = x.
Proof.
  unfold get. rewrite nth_error_app2 by lia. rewrite Nat.sub_diag. cbn. destruct x; reflexivity.
Qed.

Lemma get_app_inv objs x j s :
  get (objs ++ [x]) j = Some s -> get objs j = Some s \/ (j = length objs /\ x = Some s).
Proof.
  intros H. destruct (Nat.lt_ge_cases j (length objs)) as [L|G].
  - left. now rewrite get_app_l in H.
  - right. assert (j < length (objs ++ [x]))%nat by (eapply get_lt; exact H).
    rewrite app_length in H0. cbn in H0. assert (j = length objs) by lia. subst j.
    rewrite get_app_new in H. auto.
Qed.

(* ---------- the invariant ---------- *)
Record Inv (init : list Z) (w : world) : Prop := mk_Inv {
  inv_open : forall x, In x (w_open w) <-> In x init \/ owns (w_objs w) x;
  inv_excl : forall i j s t, get (w_objs w) i = Some s -> get (w_objs w) j = Some t ->
                             0 <= s_fd s -> s_fd s = s_fd t -> i = j;
  inv_disj : forall x, owns (w_objs w) x -> ~ In x init }.

(* descriptor an object contributes to the ledger *)
Definition contrib (o : option sock) : option Z :=
  match o with Some s => if 0 <=? s_fd s then Some (s_fd s) else None | None => None end.

Lemma owns_contrib objs x : owns objs x <-> exists i, (i < length objs)%nat /\ contrib (get objs i) = Some x.
Proof.
  unfold owns, contrib. split.
  - intros (i & s & G & F & P). exists i. split; [eapply get_lt; exact G|]. rewrite G.
    destruct (0 <=? s_fd s) eqn:E; [now subst | zb; lia].
  - intros (i & L & C). destruct (get objs i) as [s|] eqn:G; [|discriminate].
    destruct (0 <=? s_fd s) eqn:E; [|discriminate]. inversion C; subst. zb. exists i, s. auto.
Qed.

(* replacing slot i: what the new slot contributes decides everything *)
Lemma owns_upd objs i o x : (i < length objs)%nat ->
  (owns (upd objs i o) x <-> contrib o = Some x \/ exists j, j <> i /\ (j < length objs)%nat /\ contrib (get objs j) = Some x).
Proof.
  intros L. rewrite owns_contrib, upd_length. split.
  - intros (j & Lj & C). destruct (Nat.eq_dec j i) as [->|N].
    + rewrite get_upd_eq in C by exact L. now left.
    + rewrite get_upd_neq in C by auto. right. exists j. auto.
  - intros [C | (j & N & Lj & C)].
    + exists i. rewrite get_upd_eq by exact L. auto.
    + exists j. rewrite get_upd_neq by auto. auto.
Qed.

Lemma owns_split objs i x : (i < length objs)%nat ->
  (owns objs x <-> contrib (get objs i) = Some x \/ exists j, j <> i /\ (j < length objs)%nat /\ contrib (get objs j) = Some x).
Proof.
  intros L. rewrite owns_contrib. split.
  - intros (j & Lj & C). destruct (Nat.eq_dec j i) as [->|N]; [now left | right; exists j; auto].
  - intros [C | (j & N & Lj & C)]; [exists i; auto | exists j; auto].
Qed.

Lemma contrib_some s x : contrib (Some s) = Some x <-> s_fd s = x /\ 0 <= x.
Proof.
  unfold contrib. destruct (0 <=? s_fd s) eqn:E; zb; split.
  - intros H. inversion H; subst. auto.
  - intros [H _]. now rewrite H.
  - discriminate.
  - intros [H1 H2]. lia.
Qed.

(* the general slot update: the open set loses the old contribution of slot i and gains the new one *)
Lemma inv_upd init opn objs i s o opn' :
  Inv init (mk_world opn objs) -> get objs i = Some s ->
  (forall f, contrib o = Some f -> contrib (Some s) = Some f \/ ~ In f opn) ->
  (forall x, In x opn' <-> (In x opn /\ contrib (Some s) <> Some x) \/ contrib o = Some x) ->
  Inv init (mk_world opn' (upd objs i o)).
Proof.
  intros [I1 I2 I3] G Hfresh Hopn. cbn [w_open w_objs] in *.
  assert (L : (i < length objs)%nat) by (eapply get_lt; exact G).
  assert (Gi : contrib (get objs i) = contrib (Some s)) by now rewrite G.
  (* other slots never hold the descriptor of slot i *)
  assert (Hother : forall j x, j <> i -> (j < length objs)%nat -> contrib (get objs j) = Some x ->
                               contrib (Some s) <> Some x).
  { intros j x N Lj C E. destruct (get objs j) as [t|] eqn:Gj; [|discriminate].
    apply contrib_some in C. apply contrib_some in E.
    destruct C as [C1 C2], E as [E1 E2]. apply N. symmetry. eapply (I2 i j s t); eauto; lia. }
  constructor; cbn [w_open w_objs].
  - intros x. rewrite Hopn, owns_upd by exact L. rewrite I1, (owns_split objs i x L), Gi. split.
    + intros [[[Hi | [Hs | Ho]] Hn] | Hc]; auto.
      * contradiction.
    + intros [Hi | [Hc | Ho]]; auto.
      * left. split; [now left|]. intros E. apply (I3 x); [|exact Hi].
        apply (owns_split objs i x L). left. now rewrite Gi.
      * left. split; [right; right; exact Ho|]. destruct Ho as (j & N & Lj & C). eapply Hother; eauto.
  - intros a b sa sb Ga Gb Pa Eab.
    destruct (Nat.eq_dec a i) as [->|Na]; destruct (Nat.eq_dec b i) as [->|Nb]; auto.
    + rewrite get_upd_eq in Ga by exact L. rewrite get_upd_neq in Gb by auto. subst o.
      exfalso.
      assert (Cb : contrib (get objs b) = Some (s_fd sa)).
      { rewrite Gb. apply contrib_some. split; [congruence | lia]. }
      assert (Co : contrib (Some sa) = Some (s_fd sa)).
      { cbn. destruct (0 <=? s_fd sa) eqn:E; [reflexivity | zb; lia]. }
      assert (Lb : (b < length objs)%nat) by (eapply get_lt; exact Gb).
      destruct (Hfresh _ Co) as [Hs | Hn].
      * eapply (Hother b); eauto.
      * apply Hn. apply I1. right. apply (owns_split objs i _ L). right. exists b. auto.
    + rewrite get_upd_eq in Gb by exact L. rewrite get_upd_neq in Ga by auto. subst o.
      exfalso.
      assert (Ca : contrib (get objs a) = Some (s_fd sa)).
      { rewrite Ga. apply contrib_some. split; [reflexivity | lia]. }
      assert (Co : contrib (Some sb) = Some (s_fd sa)).
      { cbn. rewrite <- Eab. destruct (0 <=? s_fd sa) eqn:E; [reflexivity | zb; lia]. }
      assert (La : (a < length objs)%nat) by (eapply get_lt; exact Ga).
      destruct (Hfresh _ Co) as [Hs | Hn].
      * eapply (Hother a); eauto.
      * apply Hn. apply I1. right. apply (owns_split objs i _ L). right. exists a. auto.
    + rewrite get_upd_neq in Ga, Gb by auto. eapply I2; eauto.
  - intros x Ho Hi. apply (owns_upd objs i o x L) in Ho. destruct Ho as [C | (j & N & Lj & C)].
    + destruct (Hfresh _ C) as [Hs | Hn].
      * apply (I3 x); [|exact Hi]. apply (owns_split objs i x L). left. now rewrite Gi.
      * apply Hn. apply I1. now left.
    + apply (I3 x); [|exact Hi]. apply (owns_split objs i x L). right. exists j. auto.
Qed.

(* appending a new object *)
Lemma inv_app init opn objs t opn' :
  Inv init (mk_world opn objs) ->
  (forall f, contrib (Some t) = Some f -> ~ In f opn) ->
  (forall x, In x opn' <-> In x opn \/ contrib (Some t) = Some x) ->
  Inv init (mk_world opn' (objs ++ [Some t])).
Proof.
  intros [I1 I2 I3] Hfresh Hopn. cbn [w_open w_objs] in *.
  assert (Hown : forall x, owns (objs ++ [Some t]) x <-> owns objs x \/ contrib (Some t) = Some x).
  { intros x. unfold owns. split.
    - intros (j & s & G & F & P). apply get_app_inv in G. destruct G as [G | [-> E]].
      + left. exists j, s. auto.
      + right. inversion E; subst. cbn. destruct (0 <=? s_fd s) eqn:E2; [reflexivity | zb; lia].
    - intros [(j & s & G & F & P) | C].
      + exists j, s. rewrite get_app_l by (eapply get_lt; exact G). auto.
      + exists (length objs), t. rewrite get_app_new. cbn in C.
        destruct (0 <=? s_fd t) eqn:E; [|discriminate]. inversion C; subst. zb. auto. }
  constructor; cbn [w_open w_objs].
  - intros x. rewrite Hopn, Hown, I1. tauto.
  - intros a b sa sb Ga Gb Pa Eab.
    apply get_app_inv in Ga. apply get_app_inv in Gb.
    destruct Ga as [Ga | [-> Ea]]; destruct Gb as [Gb | [-> Eb]]; auto.
    + eapply I2; eauto.
    + exfalso. inversion Eb; subst sb.
      assert (C : contrib (Some t) = Some (s_fd sa)).
      { cbn. rewrite <- Eab. destruct (0 <=? s_fd sa) eqn:E; [reflexivity | zb; lia]. }
      apply (Hfresh _ C). apply I1. right. exists a, sa. auto.
    + exfalso. inversion Ea; subst sa.
      assert (C : contrib (Some t) = Some (s_fd t)).
      { cbn. destruct (0 <=? s_fd t) eqn:E; [reflexivity | zb; lia]. }
      apply (Hfresh _ C). apply I1. right. exists b, sb. split; [exact Gb|]. split; [congruence | lia].
  - intros x Ho Hi. apply Hown in Ho. destruct Ho as [Ho | C].
    + apply (I3 x Ho Hi).
    + apply (Hfresh _ C). apply I1. now left.
Qed.

(* the open list may be replaced by any list with the same members *)
Lemma inv_open_ext init opn opn' objs :
  Inv init (mk_world opn objs) -> (forall x, In x opn' <-> In x opn) -> Inv init (mk_world opn' objs).
Proof.
  intros [I1 I2 I3] H. constructor; cbn [w_open w_objs] in *; auto. intros x. now rewrite H.
Qed.

(* ---------- what each operation does to (descriptor of the object, open set) ---------- *)
Section WithPick.
Variable pick : list Z -> Z.
Hypothesis pick_fresh : fresh_pick pick.

Lemma pick_notin l : ~ In (pick l) l.
Proof. apply pick_fresh. Qed.
Lemma pick_nonneg l : 0 <= pick l.
Proof. apply pick_fresh. Qed.

Lemma contrib_neg s : s_fd s < 0 -> contrib (Some s) = None.
Proof. intros H. cbn. destruct (0 <=? s_fd s) eqn:E; [zb; lia | reflexivity]. Qed.
Lemma contrib_pos s : 0 <= s_fd s -> contrib (Some s) = Some (s_fd s).
Proof. intros H. cbn. destruct (0 <=? s_fd s) eqn:E; [reflexivity | zb; lia]. Qed.
Lemma contrib_same_fd s t : s_fd s = s_fd t -> contrib (Some s) = contrib (Some t).
Proof. intros H. cbn. now rewrite H. Qed.

(* three ways a slot can change *)
Inductive fd_change (s : sock) (opn : list Z) : option sock -> list Z -> Prop :=
| ch_same : forall o, contrib o = contrib (Some s) -> fd_change s opn o opn
| ch_acquire : forall t f, s_fd s < 0 -> s_fd t = f -> 0 <= f -> ~ In f opn -> fd_change s opn (Some t) (f :: opn)
| ch_release : forall o, 0 <= s_fd s -> contrib o = None -> fd_change s opn o (release opn (s_fd s)).

Lemma inv_change init opn objs i s o opn' :
  Inv init (mk_world opn objs) -> get objs i = Some s -> fd_change s opn o opn' ->
  Inv init (mk_world opn' (upd objs i o)).
Proof.
  intros HI G C. destruct C as [o E | t f Hn Hf Hp Hfr | o Hp E].
  - eapply inv_upd; eauto.
    + intros f Hf. left. congruence.
    + intros x. rewrite E. split.
      * intros Hx. destruct (contrib (Some s)) as [g|] eqn:Eg.
        -- destruct (Z.eq_dec g x) as [->|N]; [now right | left; split; [exact Hx | congruence]].
        -- left. split; [exact Hx | discriminate].
      * intros [[Hx _] | Hc]; [exact Hx|].
        apply (inv_open _ _ HI). right. cbn [w_objs].
        apply (owns_split objs i x (get_lt _ _ _ G)). left. now rewrite G.
  - eapply inv_upd; eauto.
    + intros g Hg. rewrite contrib_pos in Hg by lia. inversion Hg; subst. now right.
    + intros x. rewrite contrib_neg by exact Hn. rewrite contrib_pos by lia. cbn [In]. split.
      * intros [-> | Hx]; [right; congruence | left; split; [exact Hx | discriminate]].
      * intros [[Hx _] | Hc]; [now right | left; congruence].
  - eapply inv_upd; eauto.
    + intros f Hf. congruence.
    + intros x. rewrite E, In_release, contrib_pos by exact Hp. split.
      * intros [Hx N]. left. split; [exact Hx | congruence].
      * intros [[Hx N] | Hc]; [|discriminate]. split; [exact Hx | congruence].
Qed.

Lemma get_proto_fd s : s_fd (get_proto s) = s_fd s.
Proof. unfold get_proto. destruct (s_lurl s || s_rurl s); reflexivity. Qed.

Lemma sock_open_change s opn a b c d :
  match sock_open pick s opn a b c d with (_, s', opn') => fd_change s opn (Some s') opn' end.
Proof.
  unfold sock_open.
  assert (Hpn := pick_notin opn). assert (Hpp := pick_nonneg opn).
  pose proof (get_proto_fd s) as Hg.
  repeat match goal with
         | |- context [if ?b then _ else _] => destruct b eqn:?
         end;
    cbn [s_fd s_addr s_flags s_lurl s_rurl with_fd with_flags] in *;
    try (apply ch_same; apply contrib_same_fd; cbn; congruence);
    try (apply ch_acquire; cbn; zb; auto; congruence);
    try (apply ch_same; rewrite !contrib_neg; cbn; zb; auto; lia).
Qed.

Lemma sock_close_change s opn n k :
  match sock_close s opn n k with (_, s', opn') => fd_change s opn (Some s') opn' /\ s_fd s' < 0 end.
Proof.
  unfold sock_close. destruct (s_fd s <? 0) eqn:E; zb.
  - split; [apply ch_same; reflexivity | exact E].
  - split; [apply ch_release; [lia | apply contrib_neg; cbn; lia] | cbn; lia].
Qed.

Lemma sock_done_change s opn n k :
  match sock_done s opn n k with (s', opn') => fd_change s opn (Some s') opn' /\ fd_change s opn None opn' end.
Proof.
  unfold sock_done. destruct (0 <=? s_fd s) eqn:E; zb.
  - pose proof (sock_close_change s opn n k) as H. unfold sock_close in *.
    destruct (s_fd s <? 0) eqn:E2; zb; [lia|]. cbn.
    split; apply ch_release; auto; apply contrib_neg; cbn; lia.
  - split; apply ch_same; [rewrite !contrib_neg; cbn; auto; lia | rewrite contrib_neg; [reflexivity | lia]].
Qed.

Lemma sock_dup_spec s opn d :
  match sock_dup pick s opn d with
  | (t, opn') => (s_fd t = pick opn /\ opn' = pick opn :: opn) \/ (s_fd t < 0 /\ opn' = opn)
  end.
Proof.
  unfold sock_dup. destruct (0 <=? s_fd s); [destruct (d && is_open opn (s_fd s))|]; cbn; auto; right; split; auto; lia.
Qed.

Lemma sock_accept_spec s opn n a d :
  match sock_accept pick s opn n a d with
  | (Some t, opn') => 0 <= s_fd t /\ ~ In (s_fd t) opn /\ (forall x, In x opn' <-> x = s_fd t \/ In x opn)
  | (None, opn') => opn' = opn
  end.
Proof.
  unfold sock_accept.
  destruct (close_loop n a && is_open opn (s_fd s)); [|reflexivity].
  remember (pick opn) as newfd eqn:Hnf.
  pose proof (sock_dup_spec s (newfd :: opn) d) as D.
  destruct (sock_dup pick s (newfd :: opn) d) as [t opn2].
  assert (Hopn : forall x, In x (if 0 <=? s_fd t then release opn2 (s_fd t) else opn2) <-> x = newfd \/ In x opn).
  { intros x. destruct D as [[F ->] | [F ->]].
    - rewrite F. destruct (0 <=? pick (newfd :: opn)) eqn:E; zb; [|pose proof (pick_nonneg (newfd :: opn)); lia].
      rewrite In_release. cbn [In]. pose proof (pick_notin (newfd :: opn)) as N. cbn [In] in N.
      split.
      + intros [[H | [H | H]] Hne]; auto. congruence.
      + intros [Hx | H].
        * subst x. split; [right; left; reflexivity|]. intros Hc. apply N. left. exact Hc.
        * split; [right; right; exact H|]. intros Hc. apply N. right. rewrite <- Hc. exact H.
    - destruct (0 <=? s_fd t) eqn:E; zb; [lia|]. cbn [In]. split; intros [H|H]; auto. }
  repeat match goal with
         | |- context [if ?b then _ else _] => lazymatch b with
                                               | (0 <=? s_fd t) => fail
                                               | _ => destruct b eqn:?
                                               end
         end;
    cbn [s_fd with_fd with_flags];
    (split; [subst newfd; apply pick_nonneg | split; [subst newfd; apply pick_notin | exact Hopn]]).
Qed.

(* ---------- one step, any history ---------- *)
Lemma step_inv inc init w o : Inv init w -> Inv init (fst (step pick inc w o)).
Proof.
  intros HI. destruct w as [opn objs].
  destruct o as [l r | i a b c d | i n a d | i n k | i d | i n k | i n k | i | i data ws | i rs];
    cbn [step w_open w_objs].
  - (* new *) cbn [fst]. eapply inv_app; eauto.
    + intros f Hf. cbn in Hf. discriminate.
    + intros x. cbn. split; [auto | intros [H | H]; [exact H | discriminate]].
  - (* open *) destruct (get objs i) as [s|] eqn:G; [|exact HI].
    pose proof (sock_open_change s opn a b c d) as C.
    destruct (sock_open pick s opn a b c d) as [[r s'] opn']. cbn [fst set_obj w_objs].
    eapply inv_change; eauto.
  - (* accept *) destruct (get objs i) as [s|] eqn:G; [|exact HI].
    pose proof (sock_accept_spec s opn n a d) as C.
    destruct (sock_accept pick s opn n a d) as [[t|] opn']; cbn [fst].
    + destruct C as (P & N & E). eapply inv_app; eauto.
      * intros f Hf. rewrite contrib_pos in Hf by exact P. inversion Hf; subst. exact N.
      * intros x. rewrite E, contrib_pos by exact P.
        split; [intros [H|H]; [right; congruence | left; exact H] | intros [H|H]; [right; exact H | left; congruence]].
    + subst opn'. exact HI.
  - (* close *) destruct (get objs i) as [s|] eqn:G; [|exact HI].
    pose proof (sock_close_change s opn n k) as C.
    destruct (sock_close s opn n k) as [[r s'] opn']. cbn [fst set_obj w_objs w_open].
    eapply inv_change; eauto. apply C.
  - (* dup *) destruct (get objs i) as [s|] eqn:G; [|exact HI].
    pose proof (sock_dup_spec s opn d) as C.
    destruct (sock_dup pick s opn d) as [t opn']. cbn [fst].
    destruct C as [[F ->] | [F ->]].
    + eapply inv_app; eauto.
      * intros f Hf. rewrite contrib_pos in Hf by (rewrite F; apply pick_nonneg).
        inversion Hf; subst. rewrite F. apply pick_notin.
      * intros x. rewrite contrib_pos by (rewrite F; apply pick_nonneg). rewrite F. cbn [In].
        split; intros [H | H]; auto; [right; congruence | left; congruence].
    + eapply inv_app; eauto.
      * intros f Hf. rewrite contrib_neg in Hf by exact F. discriminate.
      * intros x. rewrite contrib_neg by exact F. split; [auto | intros [H|H]; [exact H | discriminate]].
  - (* done *) destruct (get objs i) as [s|] eqn:G; [|exact HI].
    pose proof (sock_done_change s opn n k) as C.
    destruct (sock_done s opn n k) as [s' opn']. cbn [fst set_obj w_objs w_open].
    eapply inv_change; eauto. apply C.
  - (* del *) destruct (get objs i) as [s|] eqn:G; [|exact HI].
    pose proof (sock_done_change s opn n k) as C.
    destruct (sock_done s opn n k) as [s' opn']. cbn [fst set_obj w_objs w_open].
    eapply inv_change; eauto. apply C.
  - (* set_nbio *) destruct (get objs i) as [s|] eqn:G; [|exact HI].
    unfold sock_nbio. destruct (s_fd s <? 0); cbn [fst set_obj w_objs w_open];
      (eapply inv_change; eauto; apply ch_same; reflexivity).
  - (* send *) destruct (get objs i) as [s|] eqn:G; [|exact HI].
    destruct (socket_send (is_open opn (s_fd s)) data ws) as [so|f] eqn:E; [|exact HI].
    destruct (send_effects _ _ _ _ E) as [Hforg Hclosed].
    destruct (so_eff so) eqn:Ee; cbn [fst set_obj w_objs w_open].
    + exact HI.
    + (* closed: the descriptor was open, hence non-negative *)
      specialize (Hclosed eq_refl). unfold is_open in Hclosed. apply andb_true_iff in Hclosed.
      destruct Hclosed as [P _]. zb.
      eapply inv_change; eauto. apply ch_release; [exact P | apply contrib_neg; cbn; lia].
    + (* forgotten: only when the descriptor was not open, i.e. the object held none *)
      specialize (Hforg eq_refl).
      assert (Hneg : s_fd s < 0).
      { destruct (Z.lt_ge_cases (s_fd s) 0) as [L|P]; [exact L|]. exfalso.
        assert (Hin : In (s_fd s) opn).
        { apply (inv_open _ _ HI). right. exists i, s. auto. }
        unfold is_open in Hforg. apply andb_false_iff in Hforg. destruct Hforg as [Hf | Hf].
        - zb. lia.
        - rewrite <- not_true_iff_false in Hf. apply Hf. apply existsb_exists.
          exists (s_fd s). split; [exact Hin | apply Z.eqb_refl]. }
      eapply inv_change; eauto. apply ch_same. rewrite !contrib_neg; cbn; auto; lia.
  - (* recv *) destruct (get objs i) as [s|] eqn:G; exact HI.
Qed.

Lemma run_inv inc init ops : forall w, Inv init w -> Inv init (fst (run pick inc w ops)).
Proof.
  induction ops as [|o ops IH]; intros w HI; [exact HI|].
  cbn [run]. pose proof (step_inv inc init w o HI) as H1.
  destruct (step pick inc w o) as [w1 x]. cbn [fst] in H1.
  specialize (IH w1 H1). destruct (run pick inc w1 ops) as [w2 xs]. exact IH.
Qed.

Lemma run_app inc ops1 : forall w ops2,
  fst (run pick inc w (ops1 ++ ops2)) = fst (run pick inc (fst (run pick inc w ops1)) ops2).
Proof.
  induction ops1 as [|o ops1 IH]; intros w ops2; [reflexivity|].
  cbn [run app]. destruct (step pick inc w o) as [w1 x]. specialize (IH w1 ops2).
  destruct (run pick inc w1 (ops1 ++ ops2)) as [wa xa]. destruct (run pick inc w1 ops1) as [wb xb].
  cbn [fst] in *. exact IH.
Qed.

(* deleting slot k leaves the length and the other slots alone and empties slot k *)
Lemma step_del inc w k n c :
  let w' := fst (step pick inc w (ODel k n c)) in
  length (w_objs w') = length (w_objs w) /\ get (w_objs w') k = None /\
  (forall j, j <> k -> get (w_objs w') j = get (w_objs w) j).
Proof.
  cbn [step]. destruct (get (w_objs w) k) as [s|] eqn:G.
  - destruct (sock_done s (w_open w) n c) as [s' opn']. cbn [fst set_obj w_objs].
    rewrite upd_length. split; [reflexivity|]. split.
    + apply get_upd_eq. eapply get_lt; exact G.
    + intros j N. apply get_upd_neq. auto.
  - cbn [fst]. auto.
Qed.

Lemma del_all_clears inc closes : forall k w,
  let w' := fst (run pick inc w (del_all k closes)) in
  length (w_objs w') = length (w_objs w) /\
  (forall j, (j < k)%nat -> get (w_objs w') j = None) /\
  (forall j, (k <= j)%nat -> get (w_objs w') j = get (w_objs w) j).
Proof.
  induction k as [|k IH]; intros w; cbn [del_all].
  - cbn. repeat split; auto. intros j H. lia.
  - cbv zeta. rewrite run_app. specialize (IH w). cbv zeta in IH.
    set (w1 := fst (run pick inc w (del_all k closes))) in *.
    destruct IH as (L1 & C1 & K1).
    cbn [run]. pose proof (step_del inc w1 k (fst (closes k)) (snd (closes k))) as S. cbv zeta in S.
    destruct (step pick inc w1 (ODel k (fst (closes k)) (snd (closes k)))) as [w2 x]. cbn [fst] in *.
    destruct S as (L2 & C2 & K2).
    split; [congruence|]. split.
    + intros j Hj. destruct (Nat.eq_dec j k) as [->|N]; [exact C2|]. rewrite K2 by exact N. apply C1. lia.
    + intros j Hj. rewrite K2 by lia. apply K1. lia.
Qed.

Theorem fds_balanced inc init ops closes :
  let w := fst (run pick inc (mk_world init []) ops) in
  (* the ledger: open = initial + descriptors of live objects, none shared, none stale *)
  (forall x, In x (w_open w) <-> In x init \/ owns (w_objs w) x) /\
  (forall i j s t, get (w_objs w) i = Some s -> get (w_objs w) j = Some t ->
                   0 <= s_fd s -> s_fd s = s_fd t -> i = j) /\
  (forall i s, get (w_objs w) i = Some s -> 0 <= s_fd s -> In (s_fd s) (w_open w)) /\
  (* once every object is deleted the open set is the initial one *)
  (forall x, In x (w_open (cleanup pick inc w closes)) <-> In x init).
Proof.
  cbv zeta.
  assert (H0 : Inv init (mk_world init [])).
  { constructor; cbn [w_open w_objs].
    - intros x. split; [auto|]. intros [H | (i & s & G & _)]; [exact H|]. unfold get in G. destruct i; discriminate.
    - intros i j s t G. unfold get in G. destruct i; discriminate.
    - intros x (i & s & G & _). unfold get in G. destruct i; discriminate. }
  pose proof (run_inv inc init ops _ H0) as HI.
  set (w := fst (run pick inc (mk_world init []) ops)) in *.
  split; [apply (inv_open _ _ HI)|]. split; [apply (inv_excl _ _ HI)|]. split.
  - intros i s G P. apply (inv_open _ _ HI). right. exists i, s. auto.
  - unfold cleanup. pose proof (run_inv inc init (del_all (length (w_objs w)) closes) w HI) as HC.
    pose proof (del_all_clears inc closes (length (w_objs w)) w) as D. cbv zeta in D.
    set (wf := fst (run pick inc w (del_all (length (w_objs w)) closes))) in *.
    destruct D as (L & C & _).
    intros x. rewrite (inv_open _ _ HC). split; [|auto].
    intros [H | (i & s & G & _)]; [exact H|]. exfalso.
    assert (i < length (w_objs wf))%nat by (eapply get_lt; exact G).
    rewrite C in G by lia. discriminate.
Qed.

(* spif_socket_close leaves -1 behind and the descriptor is no longer open afterwards
   (given that no other object shared it, which the ledger guarantees) *)
Lemma close_leaves_minus1 s opn n k : 0 <= s_fd s ->
  match sock_close s opn n k with (_, s', opn') => s_fd s' = -1 /\ ~ In (s_fd s) opn' end.
Proof.
  intros P. unfold sock_close. destruct (s_fd s <? 0) eqn:E; zb; [lia|]. cbn. split; [reflexivity|].
  rewrite In_release. tauto.
Qed.

End WithPick.

(* a valid descriptor choice exists (used by the extracted driver) *)
Lemma fold_max_ge l : forall x, In x l -> x <= fold_right Z.max 0 l.
Proof.
  induction l as [|a l IH]; intros x Hx; [destruct Hx|].
  cbn [fold_right]. destruct Hx as [Hx|Hx]; [subst; apply Z.le_max_l|].
  specialize (IH x Hx). pose proof (Z.le_max_r a (fold_right Z.max 0 l)). lia.
Qed.
Lemma fold_max_nonneg l : 0 <= fold_right Z.max 0 l.
Proof.
  induction l as [|a l IH]; cbn [fold_right]; [lia|].
  pose proof (Z.le_max_r a (fold_right Z.max 0 l)). lia.
Qed.
Lemma pick_max_fresh : fresh_pick pick_max.
Proof.
  intros l. unfold pick_max. split.
  - intros Hin. pose proof (fold_max_ge l _ Hin). lia.
  - pose proof (fold_max_nonneg l). lia.
Qed.

(* the lowest-free choice (the kernel's), from any base: fresh as well, so every theorem about
   histories holds for the descriptor numbers the driver and the harness really use - 0, 1, 2 after the
   standard streams were closed, 1023/1024/1025 when everything below is taken *)
Lemma low_from_fresh fuel : forall k l, 0 <= k -> ~ In (low_from fuel k l) l /\ 0 <= low_from fuel k l.
Proof.
  induction fuel as [|f IH]; intros k l Hk; cbn [low_from].
  - split.
    + intros Hin. pose proof (fold_max_ge l _ Hin). lia.
    + lia.
  - destruct (existsb (Z.eqb k) l) eqn:E.
    + apply IH. lia.
    + split; [|exact Hk]. intros Hin.
      assert (existsb (Z.eqb k) l = true) as H1.
      { apply existsb_exists. exists k. split; [exact Hin | apply Z.eqb_refl]. }
      congruence.
Qed.
Lemma pick_low_fresh base : fresh_pick (pick_low base).
Proof. intros l. unfold pick_low. apply low_from_fresh. lia. Qed.
