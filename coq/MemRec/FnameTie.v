(* C15 - the file-name member of a tracker record.  MemRecModel.store_fname abstracts
   "spiftool_safe_strncpy(p->file, filename, sizeof(p->file))" as the first sizeof-1 bytes of
   the name.  This file relates that abstraction to the C13 model of the helper: whatever
   the member held before (it is uninitialised after the table grew, or holds the previous
   name), afterwards its text is store_fname of the name and nothing outside it was written. *)
From LV Require Import Base.Res Base.Buf Gen.MemGen Strings.HelpersModel Strings.HelpersProofs MemRec.MemRecModel.
Local Open Scope Z_scope.

Lemma Forall_firstn {A} (P : A -> Prop) n (l : list A) : Forall P l -> Forall P (firstn n l).
Proof.
  revert n. induction l as [|x l IH]; intros [|n] H; cbn [firstn]; try constructor.
  - inversion H; assumption.
  - inversion H; apply IH; assumption.
Qed.

Theorem store_fname_is_strncpy (name : list Z) (srest dest : buf) :
  Forall nz_byte name -> blen dest = spifmem_fname_cap ->
  exists ok d, safe_strncpy dest (cstr name srest) spifmem_fname_cap = Ok (ok, d) /\
               take_str d = store_fname name /\
               ok = (Z.of_nat (length name) <=? spifmem_fname_len).
Proof.
  intros Hnz Hd.
  assert (H1 : 1 <= spifmem_fname_cap) by (vm_compute; discriminate).
  assert (H2 : spifmem_fname_cap <= blen dest) by lia.
  rewrite (safe_strncpy_exact name srest dest spifmem_fname_cap Hnz H1 H2).
  do 2 eexists. split; [reflexivity|]. split.
  - change (bytes (firstn (Z.to_nat (spifmem_fname_cap - 1)) name) ++ Some 0 :: ?r)
      with (cstr (firstn (Z.to_nat (spifmem_fname_cap - 1)) name) r).
    apply take_str_cstr. apply Forall_firstn. exact Hnz.
  - reflexivity.
Qed.
