(* C15 - proofs about the tracker model (MemRecModel.v). *)
From LV Require Import Base.Res Gen.MemGen MemRec.MemRecModel.
From Coq Require Import Permutation.
Local Open Scope Z_scope.

(* ------------------------------------------------------------------ association lists *)
Fixpoint alookup {V} (p : Z) (l : list (Z * V)) : option V :=
  match l with
  | [] => None
  | e :: l' => if fst e =? p then Some (snd e) else alookup p l'
  end.
(* remove / replace the first entry with key p *)
Fixpoint arem {V} (p : Z) (l : list (Z * V)) : list (Z * V) :=
  match l with
  | [] => []
  | e :: l' => if fst e =? p then l' else e :: arem p l'
  end.
Fixpoint achg {V} (p : Z) (new : Z * V) (l : list (Z * V)) : list (Z * V) :=
  match l with
  | [] => []
  | e :: l' => if fst e =? p then new :: l' else e :: achg p new l'
  end.

Lemma find_alookup {V} (p : Z) (l : list (Z * V)) :
  match find (fun e => fst e =? p) l with Some e => Some (snd e) | None => None end = alookup p l.
Proof.
  induction l as [|e l IH]; cbn [find alookup]; [reflexivity|].
  destruct (fst e =? p); [reflexivity | exact IH].
Qed.

Lemma alookup_filter {V} (p q : Z) (l : list (Z * V)) :
  alookup q (filter (fun e => negb (fst e =? p)) l) = if q =? p then None else alookup q l.
Proof.
  induction l as [|e l IH]; cbn [filter alookup].
  - destruct (q =? p); reflexivity.
  - destruct (fst e =? p) eqn:E; cbn [negb alookup].
    + rewrite IH. destruct (q =? p) eqn:Q; [reflexivity|].
      apply Z.eqb_eq in E. apply Z.eqb_neq in Q.
      destruct (fst e =? q) eqn:E2; [apply Z.eqb_eq in E2; lia | reflexivity].
    + rewrite IH. destruct (fst e =? q) eqn:E2; [|reflexivity].
      apply Z.eqb_eq in E2. apply Z.eqb_neq in E.
      destruct (q =? p) eqn:Q; [apply Z.eqb_eq in Q; lia | reflexivity].
Qed.

Lemma alookup_app {V} (p : Z) (l1 l2 : list (Z * V)) :
  alookup p (l1 ++ l2) = match alookup p l1 with Some v => Some v | None => alookup p l2 end.
Proof.
  induction l1 as [|e l1 IH]; cbn [app alookup]; [reflexivity|].
  destruct (fst e =? p); [reflexivity | exact IH].
Qed.

Lemma alookup_None {V} (p : Z) (l : list (Z * V)) :
  alookup p l = None <-> ~ In p (map fst l).
Proof.
  induction l as [|e l IH]; cbn [alookup map In]; [tauto|].
  destruct (fst e =? p) eqn:E.
  - apply Z.eqb_eq in E. split; [discriminate | intros H; exfalso; apply H; left; exact E].
  - apply Z.eqb_neq in E. rewrite IH. tauto.
Qed.

Lemma alookup_Some_In {V} (p : Z) (v : V) (l : list (Z * V)) :
  alookup p l = Some v -> In (p, v) l.
Proof.
  induction l as [|e l IH]; cbn [alookup In]; [discriminate|].
  destruct (fst e =? p) eqn:E; intros H.
  - apply Z.eqb_eq in E. inversion H; subst. left. destruct e; reflexivity.
  - right. exact (IH H).
Qed.

Lemma alookup_In_NoDup {V} (p : Z) (v : V) (l : list (Z * V)) :
  NoDup (map fst l) -> (In (p, v) l <-> alookup p l = Some v).
Proof.
  intros ND. split; [|apply alookup_Some_In].
  induction l as [|e l IH]; cbn [alookup In map] in *; [tauto|].
  inversion ND as [|x xs Hnin ND']; subst.
  intros [H|H].
  - subst e. cbn [fst snd]. rewrite Z.eqb_refl. reflexivity.
  - destruct (fst e =? p) eqn:E.
    + apply Z.eqb_eq in E. exfalso. apply Hnin. rewrite E.
      change p with (fst (p, v)). apply in_map. exact H.
    + exact (IH ND' H).
Qed.

Lemma arem_notfound {V} (p : Z) (l : list (Z * V)) : alookup p l = None -> arem p l = l.
Proof.
  induction l as [|e l IH]; cbn [alookup arem]; [reflexivity|].
  destruct (fst e =? p); [discriminate | intros H; rewrite (IH H); reflexivity].
Qed.
Lemma achg_notfound {V} (p : Z) (new : Z * V) (l : list (Z * V)) : alookup p l = None -> achg p new l = l.
Proof.
  induction l as [|e l IH]; cbn [alookup achg]; [reflexivity|].
  destruct (fst e =? p); [discriminate | intros H; rewrite (IH H); reflexivity].
Qed.

Lemma arem_keys_incl {V} (p q : Z) (l : list (Z * V)) : In q (map fst (arem p l)) -> In q (map fst l).
Proof.
  induction l as [|e l IH]; cbn [arem map In]; [tauto|].
  destruct (fst e =? p); cbn [map In]; [tauto | intros [H|H]; [left; exact H | right; exact (IH H)]].
Qed.

Lemma NoDup_arem {V} (p : Z) (l : list (Z * V)) : NoDup (map fst l) -> NoDup (map fst (arem p l)).
Proof.
  induction l as [|e l IH]; cbn [arem map]; [trivial|].
  intros ND. inversion ND as [|x xs Hnin ND']; subst.
  destruct (fst e =? p); [exact ND'|].
  cbn [map]. constructor; [|exact (IH ND')].
  intros H. apply Hnin. exact (arem_keys_incl _ _ _ H).
Qed.

Lemma alookup_arem {V} (p q : Z) (l : list (Z * V)) :
  NoDup (map fst l) -> alookup q (arem p l) = if q =? p then None else alookup q l.
Proof.
  induction l as [|e l IH]; cbn [arem alookup map]; intros ND.
  - destruct (q =? p); reflexivity.
  - inversion ND as [|x xs Hnin ND']; subst.
    destruct (fst e =? p) eqn:E.
    + apply Z.eqb_eq in E. destruct (q =? p) eqn:Q.
      * apply Z.eqb_eq in Q. subst q. apply alookup_None. rewrite <- E. exact Hnin.
      * apply Z.eqb_neq in Q. destruct (fst e =? q) eqn:E2; [apply Z.eqb_eq in E2; lia | reflexivity].
    + cbn [alookup]. rewrite (IH ND'). apply Z.eqb_neq in E.
      destruct (fst e =? q) eqn:E2; [|reflexivity].
      apply Z.eqb_eq in E2. destruct (q =? p) eqn:Q; [apply Z.eqb_eq in Q; lia | reflexivity].
Qed.

Lemma achg_keys {V} (p q : Z) (new : Z * V) (l : list (Z * V)) :
  In q (map fst (achg p new l)) -> q = fst new \/ In q (map fst l).
Proof.
  induction l as [|e l IH]; cbn [achg map In]; [tauto|].
  destruct (fst e =? p); cbn [map In].
  - intros [H|H]; [left; symmetry; exact H | right; right; exact H].
  - intros [H|H]; [right; left; exact H | destruct (IH H); [left; assumption | right; right; assumption]].
Qed.

Lemma NoDup_achg {V} (p : Z) (new : Z * V) (l : list (Z * V)) :
  NoDup (map fst l) -> (fst new = p \/ ~ In (fst new) (map fst l)) ->
  NoDup (map fst (achg p new l)).
Proof.
  induction l as [|e l IH]; cbn [achg map]; [trivial|].
  intros ND Hnew. inversion ND as [|x xs Hnin ND']; subst.
  destruct (fst e =? p) eqn:E.
  - apply Z.eqb_eq in E. cbn [map]. constructor; [|exact ND'].
    destruct Hnew as [H|H].
    + rewrite H, <- E. exact Hnin.
    + intros H1. apply H. right. exact H1.
  - apply Z.eqb_neq in E. cbn [map]. constructor.
    + intros H. destruct (achg_keys _ _ _ _ H) as [H1|H1]; [|exact (Hnin H1)].
      destruct Hnew as [H2|H2]; [lia|]. apply H2. left. exact H1.
    + apply IH; [exact ND'|]. destruct Hnew as [H|H]; [left; exact H | right; intros H1; apply H; right; exact H1].
Qed.

Lemma alookup_achg {V} (p q : Z) (new : Z * V) (l : list (Z * V)) :
  NoDup (map fst l) -> alookup p l <> None -> (fst new = p \/ ~ In (fst new) (map fst l)) ->
  alookup q (achg p new l) =
  if q =? fst new then Some (snd new) else if q =? p then None else alookup q l.
Proof.
  induction l as [|e l IH]; cbn [achg alookup map]; intros ND Hp Hnew; [congruence|].
  inversion ND as [|x xs Hnin ND']; subst.
  destruct (fst e =? p) eqn:E.
  - apply Z.eqb_eq in E. cbn [alookup]. rewrite (Z.eqb_sym q (fst new)).
    destruct (fst new =? q) eqn:N; [reflexivity|]. apply Z.eqb_neq in N.
    destruct (q =? p) eqn:Q.
    + apply Z.eqb_eq in Q. subst q. apply alookup_None. rewrite <- E. exact Hnin.
    + apply Z.eqb_neq in Q. destruct (fst e =? q) eqn:E2; [apply Z.eqb_eq in E2; lia | reflexivity].
  - apply Z.eqb_neq in E. cbn [alookup].
    assert (Hnew' : fst new = p \/ ~ In (fst new) (map fst l)).
    { destruct Hnew as [H|H]; [left; exact H | right; intros H1; apply H; right; exact H1]. }
    rewrite (IH ND' Hp Hnew').
    destruct (fst e =? q) eqn:E2; [|reflexivity].
    apply Z.eqb_eq in E2.
    destruct (q =? fst new) eqn:N.
    + apply Z.eqb_eq in N. exfalso. destruct Hnew as [H|H]; [lia|]. apply H. left. lia.
    + destruct (q =? p) eqn:Q; [apply Z.eqb_eq in Q; lia | reflexivity].
Qed.

(* ------------------------------------------------------------------ the table as an association list *)
Definition entries (t : table) : list (Z * info) := map entry_of t.
Definition t_lookup (t : table) (p : Z) : option info := alookup p (entries t).

Lemma entries_keys (t : table) : map fst (entries t) = map r_ptr t.
Proof. unfold entries. rewrite map_map. reflexivity. Qed.

Lemma entry_of_inj r1 r2 : entry_of r1 = entry_of r2 -> r1 = r2.
Proof. destruct r1, r2. unfold entry_of, info_of. cbn. intros H. inversion H. reflexivity. Qed.

(* the linear search, generalised over the start index *)
Lemma find_from_shape (p : Z) (t : table) (i : nat) :
  match find_from t p i with
  | None => alookup p (entries t) = None
  | Some j => exists k, j = (i + k)%nat /\
              entries (firstn k t ++ skipn (S k) t) = arem p (entries t) /\
              forall new, entries (firstn k t ++ new :: skipn (S k) t) = achg p (entry_of new) (entries t)
  end.
Proof.
  revert i. induction t as [|r t IH]; intros i; cbn [find_from entries map alookup arem achg]; [reflexivity|].
  cbn [entry_of fst].
  destruct (r_ptr r =? p) eqn:E.
  - exists O. split; [lia|]. cbn. split; [reflexivity | intros new; reflexivity].
  - specialize (IH (S i)). destruct (find_from t p (S i)) as [j|].
    + destruct IH as (k & Hj & Hrem & Hchg). exists (S k). split; [lia|].
      change (firstn (S k) (r :: t)) with (r :: firstn k t).
      change (skipn (S (S k)) (r :: t)) with (skipn (S k) t).
      split.
      * change (entries ((r :: firstn k t) ++ skipn (S k) t))
          with (entry_of r :: entries (firstn k t ++ skipn (S k) t)).
        rewrite Hrem. reflexivity.
      * intros new.
        change (entries ((r :: firstn k t) ++ new :: skipn (S k) t))
          with (entry_of r :: entries (firstn k t ++ new :: skipn (S k) t)).
        rewrite (Hchg new). reflexivity.
    + exact IH.
Qed.

Lemma memrec_rem_var_entries (t : table) (p : Z) :
  p <> 0 -> entries (memrec_rem_var t p) = arem p (entries t).
Proof.
  intros Hp. unfold memrec_rem_var, memrec_find_var.
  destruct (p =? 0) eqn:E; [apply Z.eqb_eq in E; lia|].
  pose proof (find_from_shape p t 0) as H. destruct (find_from t p 0).
  - destruct H as (k & Hj & Hrem & _). cbn in Hj. subst n. exact Hrem.
  - symmetry. apply arem_notfound. exact H.
Qed.

Lemma memrec_chg_var_entries (t : table) (f : list Z) (l p q sz : Z) :
  p <> 0 ->
  entries (memrec_chg_var t f l p q sz) = achg p (q, (sz, store_fname f, store_line l)) (entries t).
Proof.
  intros Hp. unfold memrec_chg_var, memrec_find_var.
  destruct (p =? 0) eqn:E; [apply Z.eqb_eq in E; lia|].
  pose proof (find_from_shape p t 0) as H. destruct (find_from t p 0).
  - destruct H as (k & Hj & _ & Hchg). cbn in Hj. subst n. exact (Hchg _).
  - symmetry. apply achg_notfound. exact H.
Qed.

Lemma memrec_add_var_entries (t : table) (f : list Z) (l p sz : Z) :
  entries (memrec_add_var t f l p sz) = entries t ++ [(p, (sz, store_fname f, store_line l))].
Proof. unfold memrec_add_var, entries. rewrite map_app. reflexivity. Qed.

Lemma find_from_None (p : Z) (t : table) (i : nat) :
  alookup p (entries t) = None -> find_from t p i = None.
Proof.
  revert i. induction t as [|r t IH]; intros i A; cbn [find_from]; [reflexivity|].
  cbn [entries map alookup entry_of fst] in A. destruct (r_ptr r =? p); [discriminate | apply IH; exact A].
Qed.

Lemma unknown_lookup (t : table) (p : Z) :
  (forall r, In r t -> r_ptr r <> p) -> alookup p (entries t) = None.
Proof.
  intros H. apply alookup_None. rewrite entries_keys. intros Hin. apply in_map_iff in Hin.
  destruct Hin as (r & Hr & Hin). exact (H r Hin Hr).
Qed.

(* tracker_unknown_noop, on the primitives: a pointer with no record (NULL included) *)
Lemma find_unknown (t : table) (p : Z) :
  (forall r, In r t -> r_ptr r <> p) -> memrec_find_var t p = None.
Proof.
  intros H. unfold memrec_find_var. destruct (p =? 0); [reflexivity|].
  apply find_from_None. apply unknown_lookup. exact H.
Qed.

Lemma rem_unknown (t : table) (p : Z) :
  (forall r, In r t -> r_ptr r <> p) -> memrec_rem_var t p = t.
Proof. intros H. unfold memrec_rem_var. rewrite (find_unknown t p H). reflexivity. Qed.

Lemma chg_unknown (t : table) (f : list Z) (l p q sz : Z) :
  (forall r, In r t -> r_ptr r <> p) -> memrec_chg_var t f l p q sz = t.
Proof. intros H. unfold memrec_chg_var. rewrite (find_unknown t p H). reflexivity. Qed.

(* ------------------------------------------------------------------ the invariant *)
Lemma h_lookup_alookup (h : heap) (p : Z) : h_lookup h p = alookup p h.
Proof. unfold h_lookup. apply find_alookup. Qed.
Lemma sm_lookup_alookup (p : Z) (m : smap) : sm_lookup p m = alookup p m.
Proof. unfold sm_lookup. apply find_alookup. Qed.

Lemma h_live_true (h : heap) (p : Z) : h_live h p = true <-> alookup p h <> None.
Proof.
  unfold h_live. rewrite h_lookup_alookup. destruct (alookup p h); split; congruence.
Qed.
Lemma h_live_false (h : heap) (p : Z) : h_live h p = false <-> alookup p h = None.
Proof.
  unfold h_live. rewrite h_lookup_alookup. destruct (alookup p h); split; congruence.
Qed.

Lemma fname_20 (f : option (list Z)) : store_fname (nonull f) = file20 f.
Proof. reflexivity. Qed.
Lemma line_small (l : Z) : line_ok l -> store_line l = l.
Proof. unfold line_ok, store_line. intros H. apply Z.mod_small. exact H. Qed.

Lemma NoDup_snoc {A} (l : list A) (a : A) : NoDup l -> ~ In a l -> NoDup (l ++ [a]).
Proof.
  induction l as [|x l IH]; cbn [app]; intros ND Hn.
  - constructor; [intros []|constructor].
  - inversion ND as [|y ys Hx ND']; subst. constructor.
    + intros H. apply in_app_or in H. destruct H as [H|[H|[]]]; [exact (Hx H)|].
      apply Hn. left. symmetry. exact H.
    + apply IH; [exact ND' | intros H; apply Hn; right; exact H].
Qed.

Record Inv (s : st) (sp : spec_st) : Prop := mkInv {
  inv_tab : forall p, t_lookup (s_tab s) p = alookup p (sp_map sp);
  inv_nodup : NoDup (map r_ptr (s_tab s));
  inv_heap : forall p, alookup p (s_heap s) =
                       match alookup p (sp_map sp) with
                       | Some i => Some (fst (fst i))
                       | None => alookup p (sp_foreign sp)
                       end;
  inv_disj : forall p, alookup p (sp_map sp) <> None -> alookup p (sp_foreign sp) = None;
  inv_null : alookup 0 (s_heap s) = None;
  inv_on : tracking (s_lvl s) = true }.

Lemma inv_dead_untracked s sp p : Inv s sp -> alookup p (s_heap s) = None ->
  alookup p (sp_map sp) = None /\ alookup p (sp_foreign sp) = None /\ ~ In p (map r_ptr (s_tab s)).
Proof.
  intros I H. pose proof (inv_heap _ _ I p) as Hh. rewrite H in Hh.
  destruct (alookup p (sp_map sp)) eqn:M; [discriminate|].
  split; [reflexivity|]. split; [symmetry; exact Hh|].
  rewrite <- entries_keys. apply alookup_None. fold (t_lookup (s_tab s) p).
  rewrite (inv_tab _ _ I). exact M.
Qed.

Lemma alookup_insert (p q : Z) (i : info) (m : smap) :
  alookup q (sm_insert p i m) = if q =? p then Some i else alookup q m.
Proof.
  unfold sm_insert, sm_delete. cbn [alookup fst snd]. rewrite (Z.eqb_sym p q).
  destruct (q =? p) eqn:E; [reflexivity|]. rewrite alookup_filter, E. reflexivity.
Qed.
Lemma alookup_delete (p q : Z) (m : smap) :
  alookup q (sm_delete p m) = if q =? p then None else alookup q m.
Proof. unfold sm_delete. apply alookup_filter. Qed.
Lemma alookup_hremove (p q : Z) (h : heap) :
  alookup q (h_remove p h) = if q =? p then None else alookup q h.
Proof. unfold h_remove. apply alookup_filter. Qed.

(* an allocation that is recorded *)
Lemma inv_alloc s sp f l sz a :
  Inv s sp -> line_ok l -> fresh (s_heap s) a ->
  exists s', spifmem_malloc s f l sz a = (a, s') /\ Inv s' (spec_alloc sp f l sz a).
Proof.
  intros I Hl [Ha Hf]. apply h_live_false in Hf.
  destruct (inv_dead_untracked _ _ _ I Hf) as (Hm & Hfo & Ht).
  unfold spifmem_malloc, a_malloc.
  destruct (a =? 0) eqn:E; [apply Z.eqb_eq in E; lia|]. rewrite E, (inv_on _ _ I).
  eexists. split; [reflexivity|].
  constructor; cbn [s_tab s_heap s_lvl spec_alloc sp_map sp_foreign].
  - intros p. unfold t_lookup. rewrite memrec_add_var_entries, alookup_app, alookup_insert.
    fold (t_lookup (s_tab s) p). rewrite (inv_tab _ _ I p).
    cbn [alookup fst snd]. rewrite (Z.eqb_sym a p).
    destruct (p =? a) eqn:P.
    + apply Z.eqb_eq in P. subst p. rewrite Hm, fname_20, (line_small _ Hl). reflexivity.
    + destruct (alookup p (sp_map sp)); reflexivity.
  - unfold memrec_add_var. rewrite map_app. cbn [map r_ptr]. apply NoDup_snoc; [exact (inv_nodup _ _ I) | exact Ht].
  - intros p. cbn [alookup fst snd]. rewrite alookup_insert, (Z.eqb_sym a p).
    destruct (p =? a); [reflexivity | exact (inv_heap _ _ I p)].
  - intros p. rewrite alookup_insert. destruct (p =? a) eqn:P.
    + apply Z.eqb_eq in P. subst p. intros _. exact Hfo.
    + exact (inv_disj _ _ I p).
  - cbn [alookup fst]. rewrite E. exact (inv_null _ _ I).
  - exact (inv_on _ _ I).
Qed.

(* a block is released *)
Lemma inv_free s sp p :
  Inv s sp -> p = 0 \/ h_live (s_heap s) p = true ->
  exists s', spifmem_free s p = Ok s' /\ Inv s' (spec_free sp p).
Proof.
  intros I Hp. unfold spifmem_free, a_free.
  destruct (p =? 0) eqn:E.
  - apply Z.eqb_eq in E. subst p. exists s. split; [reflexivity|].
    destruct (inv_dead_untracked _ _ _ I (inv_null _ _ I)) as (Hm & Hfo & _).
    constructor; cbn [spec_free sp_map sp_foreign].
    + intros q. rewrite alookup_delete, (inv_tab _ _ I q).
      destruct (q =? 0) eqn:Q; [apply Z.eqb_eq in Q; subst q; exact Hm | reflexivity].
    + exact (inv_nodup _ _ I).
    + intros q. rewrite alookup_delete, alookup_hremove, (inv_heap _ _ I q).
      destruct (q =? 0) eqn:Q; [|reflexivity]. apply Z.eqb_eq in Q. subst q. rewrite Hm. exact Hfo.
    + intros q. rewrite alookup_delete, alookup_hremove. destruct (q =? 0); [congruence | exact (inv_disj _ _ I q)].
    + exact (inv_null _ _ I).
    + exact (inv_on _ _ I).
  - apply Z.eqb_neq in E. destruct Hp as [Hp|Hp]; [lia|]. rewrite Hp, (inv_on _ _ I). cbn [bind].
    eexists. split; [reflexivity|].
    assert (ND : NoDup (map fst (entries (s_tab s)))) by (rewrite entries_keys; exact (inv_nodup _ _ I)).
    constructor; cbn [s_tab s_heap s_lvl spec_free sp_map sp_foreign].
    + intros q. unfold t_lookup. rewrite (memrec_rem_var_entries _ _ E), (alookup_arem _ _ _ ND), alookup_delete.
      fold (t_lookup (s_tab s) q). rewrite (inv_tab _ _ I q). reflexivity.
    + rewrite <- entries_keys, (memrec_rem_var_entries _ _ E). apply NoDup_arem. exact ND.
    + intros q. rewrite !alookup_hremove, alookup_delete. destruct (q =? p); [reflexivity | exact (inv_heap _ _ I q)].
    + intros q. rewrite alookup_delete, alookup_hremove. destruct (q =? p); [congruence | exact (inv_disj _ _ I q)].
    + rewrite alookup_hremove. destruct (0 =? p); [reflexivity | exact (inv_null _ _ I)].
    + exact (inv_on _ _ I).
Qed.

(* a block is resized (ptr and size both non-zero) *)
Lemma inv_resize s sp f l p sz a :
  Inv s sp -> line_ok l -> p <> 0 -> sz <> 0 ->
  h_live (s_heap s) p = true -> a = p \/ fresh (s_heap s) a ->
  exists s', spifmem_realloc s f l p sz a = Ok (a, s') /\ Inv s' (spec_realloc sp f l p sz a).
Proof.
  intros I Hl Hp Hsz Hlive Ha.
  assert (Ha0 : a <> 0) by (destruct Ha as [->|[H _]]; assumption).
  assert (Hnew : a = p \/ alookup a (s_heap s) = None).
  { destruct Ha as [H|[_ H]]; [left; exact H | right; apply h_live_false; exact H]. }
  unfold spifmem_realloc, a_realloc, spec_realloc.
  destruct (p =? 0) eqn:E; [apply Z.eqb_eq in E; lia|].
  destruct (sz =? 0) eqn:E2; [apply Z.eqb_eq in E2; lia|].
  rewrite Hlive. destruct (a =? 0) eqn:E3; [apply Z.eqb_eq in E3; lia|].
  cbn [bind]. rewrite E3, (inv_on _ _ I).
  eexists. split; [reflexivity|].
  assert (ND : NoDup (map fst (entries (s_tab s)))) by (rewrite entries_keys; exact (inv_nodup _ _ I)).
  apply h_live_true in Hlive.
  rewrite sm_lookup_alookup.
  destruct (alookup p (sp_map sp)) as [i0|] eqn:M.
  - (* tracked block *)
    assert (Hkey : fst (a, (sz, store_fname (nonull f), store_line l)) = p \/
                   ~ In (fst (a, (sz, store_fname (nonull f), store_line l))) (map fst (entries (s_tab s)))).
    { cbn [fst]. destruct Hnew as [H|H]; [left; exact H | right].
      rewrite entries_keys. exact (proj2 (proj2 (inv_dead_untracked _ _ _ I H))). }
    assert (Hfound : alookup p (entries (s_tab s)) <> None).
    { fold (t_lookup (s_tab s) p). rewrite (inv_tab _ _ I p), M. discriminate. }
    constructor; cbn [s_tab s_heap s_lvl sp_map sp_foreign].
    + intros q. unfold t_lookup.
      rewrite (memrec_chg_var_entries _ _ _ _ _ _ Hp), (alookup_achg _ _ _ _ ND Hfound Hkey).
      cbn [fst snd]. rewrite alookup_insert, alookup_delete.
      fold (t_lookup (s_tab s) q). rewrite (inv_tab _ _ I q), fname_20, (line_small _ Hl). reflexivity.
    + rewrite <- entries_keys, (memrec_chg_var_entries _ _ _ _ _ _ Hp). apply NoDup_achg; assumption.
    + intros q. cbn [alookup fst snd]. rewrite alookup_insert, alookup_delete, alookup_hremove, (Z.eqb_sym a q).
      destruct (q =? a) eqn:Q; [reflexivity|].
      destruct (q =? p) eqn:Q2; [|exact (inv_heap _ _ I q)].
      apply Z.eqb_eq in Q2. subst q. symmetry. apply (inv_disj _ _ I p). rewrite M. discriminate.
    + intros q. rewrite alookup_insert, alookup_delete.
      destruct (q =? a) eqn:Q.
      * apply Z.eqb_eq in Q. subst q. intros _. destruct Hnew as [H|H].
        -- subst a. apply (inv_disj _ _ I p). rewrite M. discriminate.
        -- exact (proj1 (proj2 (inv_dead_untracked _ _ _ I H))).
      * destruct (q =? p); [congruence | exact (inv_disj _ _ I q)].
    + cbn [alookup fst]. rewrite E3, alookup_hremove. destruct (0 =? p); [reflexivity | exact (inv_null _ _ I)].
    + exact (inv_on _ _ I).
  - (* a block allocated behind the tracker's back: no record, the table stays *)
    assert (Hnf : alookup p (entries (s_tab s)) = None).
    { fold (t_lookup (s_tab s) p). rewrite (inv_tab _ _ I p). exact M. }
    assert (Ham : alookup a (sp_map sp) = None).
    { destruct Hnew as [H|H]; [subst a; exact M | exact (proj1 (inv_dead_untracked _ _ _ I H))]. }
    constructor; cbn [s_tab s_heap s_lvl sp_map sp_foreign].
    + intros q. unfold t_lookup. rewrite (memrec_chg_var_entries _ _ _ _ _ _ Hp), (achg_notfound _ _ _ Hnf).
      exact (inv_tab _ _ I q).
    + rewrite <- entries_keys, (memrec_chg_var_entries _ _ _ _ _ _ Hp), (achg_notfound _ _ _ Hnf), entries_keys.
      exact (inv_nodup _ _ I).
    + intros q. cbn [alookup fst snd]. rewrite !alookup_hremove, (Z.eqb_sym a q).
      destruct (q =? a) eqn:Q.
      * apply Z.eqb_eq in Q. subst q. rewrite Ham. reflexivity.
      * destruct (q =? p) eqn:Q2; [|exact (inv_heap _ _ I q)].
        apply Z.eqb_eq in Q2. subst q. rewrite M. reflexivity.
    + intros q Hq. cbn [alookup fst snd]. rewrite alookup_hremove, (Z.eqb_sym a q).
      destruct (q =? a) eqn:Q; [apply Z.eqb_eq in Q; subst q; congruence|].
      destruct (q =? p); [reflexivity | exact (inv_disj _ _ I q Hq)].
    + cbn [alookup fst]. rewrite E3, alookup_hremove. destruct (0 =? p); [reflexivity | exact (inv_null _ _ I)].
    + exact (inv_on _ _ I).
Qed.

(* spifmem_realloc as a whole *)
Lemma inv_realloc s sp f l p sz a :
  Inv s sp -> line_ok l -> realloc_ok (s_heap s) p sz a ->
  exists q s', spifmem_realloc s f l p sz a = Ok (q, s') /\ Inv s' (spec_realloc sp f l p sz a).
Proof.
  intros I Hl [H0 H1].
  destruct (Z.eq_dec p 0) as [->|Hp].
  - unfold spifmem_realloc, spec_realloc. cbn [Z.eqb].
    destruct (sz =? 0) eqn:E.
    + exists 0, s. split; [reflexivity | exact I].
    + apply Z.eqb_neq in E. destruct (inv_alloc s sp f l sz a I Hl (H0 eq_refl E)) as (s' & Hs & I').
      exists a, s'. rewrite Hs. split; [reflexivity | exact I'].
  - destruct (H1 Hp) as [Hlive Hans].
    destruct (Z.eq_dec sz 0) as [->|Hsz].
    + unfold spifmem_realloc, spec_realloc. destruct (p =? 0) eqn:E; [apply Z.eqb_eq in E; lia|]. cbn [Z.eqb].
      destruct (inv_free s sp p I (or_intror Hlive)) as (s' & Hs & I').
      exists 0, s'. rewrite Hs. split; [reflexivity | exact I'].
    + destruct (inv_resize s sp f l p sz a I Hl Hp Hsz Hlive (Hans Hsz)) as (s' & Hs & I').
      exists a, s'. split; assumption.
Qed.

Lemma inv_foreign s sp sz a :
  Inv s sp -> fresh (s_heap s) a ->
  Inv (mkst (s_lvl s) (s_tab s) ((a, sz) :: s_heap s)) (mksp (sp_map sp) ((a, sz) :: sp_foreign sp)).
Proof.
  intros I [Ha Hf]. apply h_live_false in Hf.
  destruct (inv_dead_untracked _ _ _ I Hf) as (Hm & Hfo & Ht).
  assert (E : (a =? 0) = false) by (apply Z.eqb_neq; exact Ha).
  constructor; cbn [s_tab s_heap s_lvl sp_map sp_foreign].
  - exact (inv_tab _ _ I).
  - exact (inv_nodup _ _ I).
  - intros q. cbn [alookup fst snd]. destruct (a =? q) eqn:Q.
    + apply Z.eqb_eq in Q. subst q. rewrite Hm. reflexivity.
    + exact (inv_heap _ _ I q).
  - intros q Hq. cbn [alookup fst snd]. destruct (a =? q) eqn:Q; [apply Z.eqb_eq in Q; subst q; congruence|].
    exact (inv_disj _ _ I q Hq).
  - cbn [alookup fst]. rewrite E. exact (inv_null _ _ I).
  - exact (inv_on _ _ I).
Qed.

(* one valid call keeps the invariant (and does not fault) *)
Lemma inv_step build s sp o :
  Inv s sp -> valid_op (s_heap s) o -> tracking_build build = true \/ direct_op o ->
  exists out s', step build s o = Ok (out, s') /\ Inv s' (spec_step sp o).
Proof.
  intros I V B.
  destruct o as [lv|f l sz a|f l n sz a|f l p sz a|f l str a|p|f l sz a|f l n es a|f l p sz a|f l str a|p|sz a|];
    cbn [valid_op] in V; cbn [step spec_step].
  - (* SetLevel *)
    do 2 eexists. split; [reflexivity|]. destruct I. constructor; cbn [s_tab s_heap s_lvl]; try assumption.
    unfold tracking. apply Z.leb_le. exact V.
  - destruct V as [Hl Hf]. destruct (inv_alloc s sp f l sz a I Hl Hf) as (s' & Hs & I').
    rewrite Hs. do 2 eexists. split; [reflexivity | exact I'].
  - destruct V as [Hl Hf].
    change (spifmem_calloc s f l n sz a) with (spifmem_malloc s f l (size_t (sz * n)) a).
    destruct (inv_alloc s sp f l (size_t (sz * n)) a I Hl Hf) as (s' & Hs & I').
    rewrite Hs. do 2 eexists. split; [reflexivity | exact I'].
  - destruct V as [Hl Hr]. destruct (inv_realloc s sp f l p sz a I Hl Hr) as (q & s' & Hs & I').
    rewrite Hs. cbn [bind]. do 2 eexists. split; [reflexivity | exact I'].
  - destruct V as (Hl & Hf & Hstr). destruct str as [b|]; [|congruence].
    cbn [spifmem_strdup].
    destruct (inv_alloc s sp (Some (nonull f)) l (Z.of_nat (length b) + 1) a I Hl Hf) as (s' & Hs & I').
    rewrite Hs. do 2 eexists. split; [reflexivity | exact I'].
  - destruct (inv_free s sp p I V) as (s' & Hs & I').
    rewrite Hs. cbn [bind]. do 2 eexists. split; [reflexivity | exact I'].
  - destruct B as [B|[]]. rewrite B.
    destruct V as [Hl Hf]. destruct (inv_alloc s sp (Some f) l sz a I Hl Hf) as (s' & Hs & I').
    rewrite Hs. do 2 eexists. split; [reflexivity | exact I'].
  - destruct B as [B|[]]. rewrite B.
    destruct V as [Hl Hf].
    change (spifmem_calloc s (Some f) l n es a) with (spifmem_malloc s (Some f) l (size_t (es * n)) a).
    destruct (inv_alloc s sp (Some f) l (size_t (es * n)) a I Hl Hf) as (s' & Hs & I').
    rewrite Hs. do 2 eexists. split; [reflexivity | exact I'].
  - destruct B as [B|[]]. rewrite B.
    destruct V as [Hl Hr]. destruct (inv_realloc s sp (Some f) l p sz a I Hl Hr) as (q & s' & Hs & I').
    rewrite Hs. cbn [bind]. do 2 eexists. split; [reflexivity | exact I'].
  - destruct B as [B|[]]. rewrite B.
    destruct V as (Hl & Hf & Hstr). destruct str as [b|]; [|congruence].
    cbn [spifmem_strdup bind].
    destruct (inv_alloc s sp (Some (nonull (Some f))) l (Z.of_nat (length b) + 1) a I Hl Hf) as (s' & Hs & I').
    rewrite Hs. do 2 eexists. split; [reflexivity | exact I'].
  - destruct B as [B|[]]. rewrite B.
    destruct (inv_free s sp p I V) as (s' & Hs & I').
    rewrite Hs. cbn [bind]. do 2 eexists. split; [reflexivity | exact I'].
  - unfold a_malloc. destruct V as [Ha Hf].
    destruct (a =? 0) eqn:E; [apply Z.eqb_eq in E; lia|].
    do 2 eexists. split; [reflexivity|]. apply inv_foreign; [exact I | split; assumption].
  - unfold memrec_dump. do 2 eexists. split; [reflexivity | exact I].
Qed.

Lemma inv_run build ops : forall s sp,
  Inv s sp -> valid_history build s ops -> tracking_build build = true \/ Forall direct_op ops ->
  exists outs s', run build s ops = Ok (outs, s') /\ Inv s' (fold_left spec_step ops sp).
Proof.
  induction ops as [|o ops IH]; intros s sp I V B; cbn [run fold_left].
  - do 2 eexists. split; [reflexivity | exact I].
  - cbn [valid_history] in V. destruct V as [Vo Vr].
    assert (Bo : tracking_build build = true \/ direct_op o).
    { destruct B as [B|B]; [left; exact B | right; inversion B; assumption]. }
    assert (Br : tracking_build build = true \/ Forall direct_op ops).
    { destruct B as [B|B]; [left; exact B | right; inversion B; assumption]. }
    destruct (inv_step build s sp o I Vo Bo) as (out & s1 & Hs & I1).
    rewrite Hs in Vr |- *. cbn [bind].
    destruct (IH s1 (spec_step sp o) I1 Vr Br) as (outs & s2 & Hr & I2).
    rewrite Hr. cbn [bind]. do 2 eexists. split; [reflexivity | exact I2].
Qed.

Lemma inv_init lvl : debug_mem <= lvl -> Inv (init_state lvl) (mksp [] []).
Proof.
  intros H. constructor; cbn; try reflexivity; try constructor; try congruence.
  unfold tracking. apply Z.leb_le. exact H.
Qed.

Lemma inv_mirrors s sp : Inv s sp -> mirrors (s_tab s) (s_heap s) sp.
Proof.
  intros I. unfold mirrors. split; [exact (inv_nodup _ _ I)|]. split.
  - intros r. rewrite sm_lookup_alookup, <- (inv_tab _ _ I (r_ptr r)). unfold t_lookup.
    assert (ND : NoDup (map fst (entries (s_tab s)))) by (rewrite entries_keys; exact (inv_nodup _ _ I)).
    rewrite <- (alookup_In_NoDup (r_ptr r) (info_of r) (entries (s_tab s)) ND).
    change (r_ptr r, info_of r) with (entry_of r). unfold entries. split.
    + apply in_map.
    + intros H. apply in_map_iff in H. destruct H as (r' & Hr & Hin).
      apply entry_of_inj in Hr. subst r'. exact Hin.
  - intros p. rewrite !h_lookup_alookup, sm_lookup_alookup. exact (inv_heap _ _ I p).
Qed.

(* tracker_mirrors *)
Theorem tracker_mirrors_thm build lvl ops :
  debug_mem <= lvl ->
  debug_mem <= build \/ Forall direct_op ops ->
  valid_history build (init_state lvl) ops ->
  exists outs s', run build (init_state lvl) ops = Ok (outs, s') /\
                  mirrors (s_tab s') (s_heap s') (spec_run ops).
Proof.
  intros Hl B V.
  assert (B' : tracking_build build = true \/ Forall direct_op ops).
  { destruct B as [B|B]; [left; unfold tracking_build; apply Z.leb_le; exact B | right; exact B]. }
  destruct (inv_run build ops _ _ (inv_init lvl Hl) V B') as (outs & s' & Hr & I).
  exists outs, s'. split; [exact Hr | exact (inv_mirrors _ _ I)].
Qed.

(* ------------------------------------------------------------------ the map has unique keys; Permutation form *)
Lemma keys_filter {V} (p : Z) (l : list (Z * V)) :
  NoDup (map fst l) -> NoDup (map fst (filter (fun e => negb (fst e =? p)) l)).
Proof.
  induction l as [|e l IH]; cbn [filter map]; [trivial|].
  intros ND. inversion ND as [|x xs Hn ND']; subst.
  destruct (negb (fst e =? p)); [|exact (IH ND')].
  cbn [map]. constructor; [|exact (IH ND')].
  intros H. apply Hn. apply in_map_iff in H. destruct H as (e' & He & Hin).
  apply filter_In in Hin. rewrite <- He. apply in_map. exact (proj1 Hin).
Qed.
Lemma keys_insert (p : Z) (i : info) (m : smap) : NoDup (map fst m) -> NoDup (map fst (sm_insert p i m)).
Proof.
  intros ND. unfold sm_insert. cbn [map fst]. constructor; [|apply keys_filter; exact ND].
  apply alookup_None. rewrite alookup_delete, Z.eqb_refl. reflexivity.
Qed.
Lemma spec_step_keys sp o : NoDup (map fst (sp_map sp)) -> NoDup (map fst (sp_map (spec_step sp o))).
Proof.
  intros ND.
  assert (A : forall f l sz a, NoDup (map fst (sp_map (spec_alloc sp f l sz a)))) by (intros; apply keys_insert; exact ND).
  assert (F : forall p, NoDup (map fst (sp_map (spec_free sp p)))) by (intros; apply keys_filter; exact ND).
  assert (R : forall f l p sz a, NoDup (map fst (sp_map (spec_realloc sp f l p sz a)))).
  { intros. unfold spec_realloc. destruct (p =? 0); [destruct (sz =? 0); [exact ND | apply A]|].
    destruct (sz =? 0); [apply F|]. destruct (sm_lookup p (sp_map sp)); [|exact ND].
    cbn [sp_map]. apply keys_insert. apply keys_filter. exact ND. }
  destruct o; cbn [spec_step]; try exact ND; try apply A; try apply R; try apply F;
    destruct str; try exact ND; apply A.
Qed.
Lemma spec_run_keys ops : NoDup (map fst (sp_map (spec_run ops))).
Proof.
  unfold spec_run. assert (G : forall sp, NoDup (map fst (sp_map sp)) -> NoDup (map fst (sp_map (fold_left spec_step ops sp)))).
  { induction ops as [|o ops IH]; intros sp ND; cbn [fold_left]; [exact ND|]. apply IH. apply spec_step_keys. exact ND. }
  apply G. constructor.
Qed.

Lemma mirrors_permutation t h sp :
  mirrors t h sp -> NoDup (map fst (sp_map sp)) -> Permutation (map entry_of t) (sp_map sp).
Proof.
  intros (ND & Htab & _) NDm.
  assert (NDe : NoDup (map fst (map entry_of t))) by (rewrite map_map; exact ND).
  apply NoDup_Permutation.
  - eapply NoDup_map_inv. exact NDe.
  - eapply NoDup_map_inv. exact NDm.
  - intros [p i]. rewrite (alookup_In_NoDup p i _ NDm), <- sm_lookup_alookup. split.
    + intros H. apply in_map_iff in H. destruct H as (r & Hr & Hin). inversion Hr; subst.
      apply Htab. exact Hin.
    + intros H. destruct i as [[sz f] l].
      specialize (Htab (mkrec p sz f l)). cbn in Htab. apply Htab in H.
      change (p, (sz, f, l)) with (entry_of (mkrec p sz f l)). apply in_map. exact H.
Qed.

Theorem tracker_mirrors_perm_thm build lvl ops :
  debug_mem <= lvl ->
  debug_mem <= build \/ Forall direct_op ops ->
  valid_history build (init_state lvl) ops ->
  exists outs s', run build (init_state lvl) ops = Ok (outs, s') /\
                  Permutation (map entry_of (s_tab s')) (sp_map (spec_run ops)).
Proof.
  intros Hl B V. destruct (tracker_mirrors_thm build lvl ops Hl B V) as (outs & s' & Hr & M).
  exists outs, s'. split; [exact Hr|]. eapply mirrors_permutation; [exact M | apply spec_run_keys].
Qed.

(* without calls behind the tracker's back the table is exactly the allocator's live set *)
Lemma no_foreign_step s sp o :
  Inv s sp -> sp_foreign sp = [] -> valid_op (s_heap s) o -> not_foreign o ->
  sp_foreign (spec_step sp o) = [].
Proof.
  intros I F V N.
  assert (R : forall f l p sz a, realloc_ok (s_heap s) p sz a -> sp_foreign (spec_realloc sp f l p sz a) = []).
  { intros f l p sz a [_ H1]. unfold spec_realloc.
    destruct (p =? 0) eqn:E; [destruct (sz =? 0); exact F|].
    destruct (sz =? 0); [cbn; rewrite F; reflexivity|].
    rewrite sm_lookup_alookup. destruct (alookup p (sp_map sp)) eqn:M; [exact F|].
    exfalso. apply Z.eqb_neq in E. destruct (H1 E) as [Hl _]. apply h_live_true in Hl.
    apply Hl. rewrite (inv_heap _ _ I p), M, F. reflexivity. }
  destruct o; cbn [spec_step spec_alloc spec_free sp_foreign valid_op not_foreign] in *;
    try exact F; try (rewrite F; reflexivity); try (apply R; tauto); try contradiction;
    destruct str; cbn; exact F.
Qed.

Lemma no_foreign_run build ops : forall s sp,
  Inv s sp -> sp_foreign sp = [] -> valid_history build s ops ->
  tracking_build build = true \/ Forall direct_op ops -> Forall not_foreign ops ->
  sp_foreign (fold_left spec_step ops sp) = [].
Proof.
  induction ops as [|o ops IH]; intros s sp I F V B N; cbn [fold_left]; [exact F|].
  cbn [valid_history] in V. destruct V as [Vo Vr].
  assert (Bo : tracking_build build = true \/ direct_op o).
  { destruct B as [B|B]; [left; exact B | right; inversion B; assumption]. }
  assert (Br : tracking_build build = true \/ Forall direct_op ops).
  { destruct B as [B|B]; [left; exact B | right; inversion B; assumption]. }
  inversion N as [|x xs No Nr]; subst.
  destruct (inv_step build s sp o I Vo Bo) as (out & s1 & Hs & I1).
  rewrite Hs in Vr.
  exact (IH s1 (spec_step sp o) I1 (no_foreign_step s sp o I F Vo No) Vr Br Nr).
Qed.

Theorem tracker_live_set_thm build lvl ops :
  debug_mem <= lvl ->
  debug_mem <= build \/ Forall direct_op ops ->
  Forall not_foreign ops ->
  valid_history build (init_state lvl) ops ->
  exists outs s', run build (init_state lvl) ops = Ok (outs, s') /\
    NoDup (map r_ptr (s_tab s')) /\
    forall p sz, h_lookup (s_heap s') p = Some sz <-> exists r, In r (s_tab s') /\ r_ptr r = p /\ r_size r = sz.
Proof.
  intros Hl B N V.
  assert (B' : tracking_build build = true \/ Forall direct_op ops).
  { destruct B as [B|B]; [left; unfold tracking_build; apply Z.leb_le; exact B | right; exact B]. }
  destruct (inv_run build ops _ _ (inv_init lvl Hl) V B') as (outs & s' & Hr & I).
  pose proof (no_foreign_run build ops _ _ (inv_init lvl Hl) eq_refl V B' N) as F.
  exists outs, s'. split; [exact Hr|]. destruct (inv_mirrors _ _ I) as (ND & Htab & Hheap).
  split; [exact ND|]. intros p sz. rewrite Hheap, F. split.
  - destruct (sm_lookup p (sp_map (fold_left spec_step ops (mksp [] [])))) as [[[sz' f] l]|] eqn:M; cbn; [|discriminate].
    intros H. inversion H; subst. exists (mkrec p sz f l). split; [|split; reflexivity].
    apply Htab. exact M.
  - intros (r & Hin & Hp & Hs). apply Htab in Hin. subst p. rewrite Hin. cbn. rewrite Hs. reflexivity.
Qed.

(* ------------------------------------------------------------------ unknown pointers, realloc corner cases *)
Theorem tracker_unknown_noop_thm s p :
  (forall r, In r (s_tab s) -> r_ptr r <> p) ->
  (forall s', spifmem_free s p = Ok s' -> s_tab s' = s_tab s) /\
  (forall f l sz a q s', sz <> 0 -> spifmem_realloc s f l p sz a = Ok (q, s') -> p <> 0 -> s_tab s' = s_tab s) /\
  (forall f l a q s', spifmem_realloc s f l p 0 a = Ok (q, s') -> s_tab s' = s_tab s).
Proof.
  intros U.
  assert (Free : forall s', spifmem_free s p = Ok s' -> s_tab s' = s_tab s).
  { intros s'. unfold spifmem_free. destruct (p =? 0); [intros H; inversion H; reflexivity|].
    rewrite (rem_unknown _ _ U). destruct (tracking (s_lvl s)); destruct (a_free (s_heap s) p); cbn [bind];
      intros H; inversion H; reflexivity. }
  split; [exact Free|]. split.
  - intros f l sz a q s' Hsz. unfold spifmem_realloc. intros H Hp.
    destruct (p =? 0) eqn:E; [apply Z.eqb_eq in E; lia|].
    destruct (sz =? 0) eqn:E2; [apply Z.eqb_eq in E2; lia|].
    destruct (a_realloc (s_heap s) p sz a) as [[t h]|]; cbn [bind] in H; [|discriminate].
    rewrite (chg_unknown _ _ _ _ _ _ U) in H.
    destruct (t =? 0); [|destruct (tracking (s_lvl s))]; inversion H; reflexivity.
  - intros f l a q s'. unfold spifmem_realloc. destruct (p =? 0); cbn [Z.eqb].
    + intros H; inversion H; reflexivity.
    + destruct (spifmem_free s p) as [s1|] eqn:Fr; cbn [bind]; [|discriminate].
      intros H; inversion H; subst. apply Free. reflexivity.
Qed.

Theorem realloc_null_allocates_thm s f l sz a :
  sz <> 0 -> spifmem_realloc s f l 0 sz a = Ok (spifmem_malloc s f l sz a).
Proof.
  intros H. unfold spifmem_realloc. cbn [Z.eqb]. destruct (sz =? 0) eqn:E; [apply Z.eqb_eq in E; lia | reflexivity].
Qed.
Theorem realloc_null_zero_thm s f l a : spifmem_realloc s f l 0 0 a = Ok (0, s).
Proof. reflexivity. Qed.
Theorem realloc_zero_frees_thm s f l p a :
  p <> 0 -> spifmem_realloc s f l p 0 a = (s' <- spifmem_free s p ;; Ok (0, s')).
Proof.
  intros H. unfold spifmem_realloc. destruct (p =? 0) eqn:E; [apply Z.eqb_eq in E; lia | reflexivity].
Qed.
(* ... and with tracking active on a live tracked block the record and the block are gone *)
Theorem realloc_zero_frees_effect_thm s f l p a r :
  tracking (s_lvl s) = true -> NoDup (map r_ptr (s_tab s)) -> In r (s_tab s) -> r_ptr r = p -> p <> 0 ->
  h_live (s_heap s) p = true ->
  exists s', spifmem_realloc s f l p 0 a = Ok (0, s') /\
             (forall r', In r' (s_tab s') <-> In r' (s_tab s) /\ r_ptr r' <> p) /\
             h_live (s_heap s') p = false /\
             (forall q, q <> p -> h_lookup (s_heap s') q = h_lookup (s_heap s) q).
Proof.
  intros T ND Hin Hr Hp Hl.
  rewrite (realloc_zero_frees_thm s f l p a Hp). unfold spifmem_free, a_free.
  destruct (p =? 0) eqn:E; [apply Z.eqb_eq in E; lia|]. rewrite T, Hl. cbn [bind].
  eexists. split; [reflexivity|]. cbn [s_tab s_heap].
  assert (NDe : NoDup (map fst (entries (s_tab s)))) by (rewrite entries_keys; exact ND).
  assert (NDe' : NoDup (map fst (entries (memrec_rem_var (s_tab s) p)))).
  { rewrite (memrec_rem_var_entries _ _ Hp). apply NoDup_arem. exact NDe. }
  split; [|split].
  - intros r'.
    assert (X : forall t, In r' t <-> In (entry_of r') (entries t)).
    { intros t. unfold entries. split; [apply in_map|]. intros H. apply in_map_iff in H.
      destruct H as (r2 & H2 & H3). apply entry_of_inj in H2. subst. exact H3. }
    rewrite (X (memrec_rem_var (s_tab s) p)), (X (s_tab s)). unfold entry_of.
    rewrite (alookup_In_NoDup _ _ _ NDe'), (alookup_In_NoDup _ _ _ NDe), (memrec_rem_var_entries _ _ Hp),
      (alookup_arem _ _ _ NDe).
    destruct (r_ptr r' =? p) eqn:Q.
    + apply Z.eqb_eq in Q. split; [discriminate | intros [_ H]; contradiction].
    + apply Z.eqb_neq in Q. tauto.
  - apply h_live_false. rewrite alookup_hremove, Z.eqb_refl. reflexivity.
  - intros q Hq. rewrite !h_lookup_alookup, alookup_hremove. destruct (q =? p) eqn:Q; [apply Z.eqb_eq in Q; lia | reflexivity].
Qed.

(* with the run-time level below DEBUG_MEM no call touches the table *)
Theorem tracker_off_frozen_thm build s o out s' :
  tracking (s_lvl s) = false -> (forall l, o <> SetLevel l) ->
  step build s o = Ok (out, s') -> s_tab s' = s_tab s.
Proof.
  intros T NL.
  assert (Mal : forall f l sz a p s1, spifmem_malloc s f l sz a = (p, s1) -> s_tab s1 = s_tab s).
  { intros f l sz a p s1. unfold spifmem_malloc. destruct (a_malloc (s_heap s) sz a) as [t h]. rewrite T.
    destruct (t =? 0); intros H; inversion H; reflexivity. }
  assert (Fre : forall p s1, spifmem_free s p = Ok s1 -> s_tab s1 = s_tab s).
  { intros p s1. unfold spifmem_free. rewrite T. destruct (p =? 0); [intros H; inversion H; reflexivity|].
    destruct (a_free (s_heap s) p); cbn [bind]; intros H; inversion H; reflexivity. }
  assert (Rea : forall f l p sz a q s1, spifmem_realloc s f l p sz a = Ok (q, s1) -> s_tab s1 = s_tab s).
  { intros f l p sz a q s1. unfold spifmem_realloc. rewrite T. destruct (p =? 0).
    - destruct (sz =? 0); [intros H; inversion H; reflexivity|].
      destruct (spifmem_malloc s f l sz a) as [q0 s0] eqn:M. intros H; inversion H; subst. exact (Mal _ _ _ _ _ _ M).
    - destruct (sz =? 0).
      + destruct (spifmem_free s p) eqn:F; cbn [bind]; intros H; inversion H; subst. exact (Fre _ _ F).
      + destruct (a_realloc (s_heap s) p sz a) as [[t h]|]; cbn [bind]; [|discriminate].
        destruct (t =? 0); intros H; inversion H; reflexivity. }
  assert (PM : forall sz a p s1, plain_MALLOC s sz a = (p, s1) -> s_tab s1 = s_tab s).
  { intros sz a p s1. unfold plain_MALLOC. destruct (a_malloc (s_heap s) sz a). intros H; inversion H; reflexivity. }
  destruct o as [lv|f l sz a|f l n sz a|f l p sz a|f l str a|p|f l sz a|f l n es a|f l p sz a|f l str a|p|sz a|];
    cbn [step].
  - exfalso. exact (NL lv eq_refl).
  - destruct (spifmem_malloc s f l sz a) eqn:M. intros H; inversion H; subst. exact (Mal _ _ _ _ _ _ M).
  - change (spifmem_calloc s f l n sz a) with (spifmem_malloc s f l (size_t (sz * n)) a).
    destruct (spifmem_malloc s f l (size_t (sz * n)) a) eqn:M. intros H; inversion H; subst. exact (Mal _ _ _ _ _ _ M).
  - destruct (spifmem_realloc s f l p sz a) as [[q s1]|] eqn:R; cbn [bind]; intros H; inversion H; subst. exact (Rea _ _ _ _ _ _ _ R).
  - destruct str as [b|]; cbn [spifmem_strdup].
    + destruct (spifmem_malloc s (Some (nonull f)) l (Z.of_nat (length b) + 1) a) eqn:M. intros H; inversion H; subst. exact (Mal _ _ _ _ _ _ M).
    + intros H; inversion H; reflexivity.
  - destruct (spifmem_free s p) eqn:F; cbn [bind]; intros H; inversion H; subst. exact (Fre _ _ F).
  - destruct (tracking_build build).
    + destruct (spifmem_malloc s (Some f) l sz a) eqn:M. intros H; inversion H; subst. exact (Mal _ _ _ _ _ _ M).
    + destruct (plain_MALLOC s sz a) eqn:M. intros H; inversion H; subst. exact (PM _ _ _ _ M).
  - destruct (tracking_build build).
    + change (spifmem_calloc s (Some f) l n es a) with (spifmem_malloc s (Some f) l (size_t (es * n)) a).
      destruct (spifmem_malloc s (Some f) l (size_t (es * n)) a) eqn:M. intros H; inversion H; subst. exact (Mal _ _ _ _ _ _ M).
    + unfold plain_CALLOC. destruct (a_malloc (s_heap s) (size_t (n * es)) a). intros H; inversion H; reflexivity.
  - destruct (tracking_build build).
    + destruct (spifmem_realloc s (Some f) l p sz a) as [[q s1]|] eqn:R; cbn [bind]; intros H; inversion H; subst. exact (Rea _ _ _ _ _ _ _ R).
    + unfold plain_REALLOC. destruct (negb (sz =? 0)); destruct (negb (p =? 0)).
      * destruct (a_realloc (s_heap s) p sz a) as [[t h]|]; cbn [bind]; intros H; inversion H; reflexivity.
      * destruct (plain_MALLOC s sz a) eqn:M. cbn [bind]. intros H; inversion H; subst. exact (PM _ _ _ _ M).
      * destruct (a_free (s_heap s) p); cbn [bind]; intros H; inversion H; reflexivity.
      * cbn [bind]. intros H; inversion H; reflexivity.
  - destruct (tracking_build build).
    + destruct str as [b|]; cbn [spifmem_strdup bind].
      * destruct (spifmem_malloc s (Some (nonull (Some f))) l (Z.of_nat (length b) + 1) a) eqn:M. intros H; inversion H; subst. exact (Mal _ _ _ _ _ _ M).
      * intros H; inversion H; reflexivity.
    + destruct str as [b|]; cbn [plain_STRDUP bind]; [|discriminate].
      destruct (plain_MALLOC s (Z.of_nat (length b) + 1) a) eqn:M. intros H; inversion H; subst. exact (PM _ _ _ _ M).
  - destruct (tracking_build build).
    + destruct (spifmem_free s p) eqn:F; cbn [bind]; intros H; inversion H; subst. exact (Fre _ _ F).
    + unfold plain_FREE. destruct (a_free (s_heap s) p); cbn [bind]; intros H; inversion H; reflexivity.
  - destruct (a_malloc (s_heap s) sz a). intros H; inversion H; reflexivity.
  - destruct (memrec_dump (s_tab s)). intros H; inversion H; reflexivity.
Qed.

(* ------------------------------------------------------------------ the two expansions of the macros *)
Ltac ifs := repeat match goal with
  | |- context [if ?c then _ else _] => destruct c eqn:?; cbn [bind negb fst snd s_heap s_lvl s_tab]
  end.

Theorem macro_equivalence_thm b1 b2 s1 s2 o :
  macro_op o -> s_heap s1 = s_heap s2 -> obs (step b1 s1 o) = obs (step b2 s2 o).
Proof.
  intros M H. destruct s1 as [l1 t1 h1], s2 as [l2 t2 h2]. cbn [s_heap] in H. subst h2.
  destruct o as [lv|f l sz a|f l n sz a|f l p sz a|f l str a|p|f l sz a|f l n es a|f l p sz a|f l str a|p|sz a|];
    cbn [macro_op] in M; try contradiction; cbn [step].
  - destruct (tracking_build b1), (tracking_build b2);
      unfold spifmem_malloc, plain_MALLOC, a_malloc; cbn [s_heap s_lvl s_tab]; ifs; first [reflexivity | congruence].
  - destruct (tracking_build b1), (tracking_build b2);
      unfold spifmem_calloc, plain_CALLOC, a_malloc; cbn [s_heap s_lvl s_tab];
      replace (es * n) with (n * es) by apply Z.mul_comm; ifs; try first [reflexivity | congruence].
  - destruct (tracking_build b1), (tracking_build b2);
      unfold spifmem_realloc, plain_REALLOC, spifmem_free, spifmem_malloc, plain_MALLOC, a_realloc, a_free, a_malloc;
      cbn [s_heap s_lvl s_tab]; destruct (p =? 0) eqn:P, (sz =? 0) eqn:S, (a =? 0) eqn:A; cbn [negb bind];
      ifs; first [reflexivity | congruence].
  - destruct str as [b|]; [|congruence].
    destruct (tracking_build b1), (tracking_build b2);
      unfold spifmem_strdup, plain_STRDUP, spifmem_malloc, plain_MALLOC, a_malloc; cbn [s_heap s_lvl s_tab bind]; ifs; first [reflexivity | congruence].
  - destruct (tracking_build b1), (tracking_build b2);
      unfold spifmem_free, plain_FREE, a_free; cbn [s_heap s_lvl s_tab]; ifs; first [reflexivity | congruence].
Qed.

Lemma neutral_step_obs b1 b2 s1 s2 o :
  macro_or_neutral o -> s_heap s1 = s_heap s2 -> obs (step b1 s1 o) = obs (step b2 s2 o).
Proof.
  intros M H. destruct o; cbn [macro_or_neutral] in M;
    try (apply macro_equivalence_thm; assumption); try contradiction.
  - cbn [step obs s_heap]. rewrite H. reflexivity.
  - cbn [step]. rewrite H. destruct (a_malloc (s_heap s2) size ans). reflexivity.
Qed.

(* whole histories of macro calls, level changes and foreign allocations: the values handed
   back and the final live set do not depend on the expansion (nor on the level or the table) *)
Theorem macro_equivalence_history_thm b1 b2 ops : forall s1 s2,
  Forall macro_or_neutral ops -> s_heap s1 = s_heap s2 ->
  obs_run (run b1 s1 ops) = obs_run (run b2 s2 ops).
Proof.
  induction ops as [|o ops IH]; intros s1 s2 F H; cbn [run obs_run map].
  - rewrite H. reflexivity.
  - inversion F as [|x xs Fo Fr]; subst.
    pose proof (neutral_step_obs b1 b2 s1 s2 o Fo H) as E.
    destruct (step b1 s1 o) as [[o1 s1']|f1], (step b2 s2 o) as [[o2 s2']|f2]; cbn [obs] in E; try discriminate;
      cbn [bind].
    + inversion E as [[Eo Eh]]. specialize (IH s1' s2' Fr Eh).
      destruct (run b1 s1' ops) as [[outs1 t1]|g1], (run b2 s2' ops) as [[outs2 t2]|g2]; cbn [obs_run bind] in IH |- *;
        try discriminate; inversion IH; subst; cbn [map fst]; congruence.
    + inversion E. reflexivity.
Qed.

(* the unchanged spifmem_realloc: REALLOC(NULL, 0) allocates in the tracking expansion and
   yields NULL in the plain one *)
Theorem macro_equivalence_orig_refuted_thm :
  exists s f l a,
    obs (step_MRealloc_orig debug_mem s f l 0 0 a) <> obs (step_MRealloc_orig (debug_mem - 1) s f l 0 0 a).
Proof.
  exists (init_state debug_mem), [102; 46; 99], 7, 1. vm_compute. discriminate.
Qed.
