(* C15 - executable model of the debug memory tracker of src/mem.c and of the
   MALLOC/CALLOC/REALLOC/FREE/STRDUP macro block of include/libast.h, plus the small
   specification (a finite map of live tracked blocks).  No proofs in this file.

   What is abstracted: the table's own storage (malloc_rec.ptrs is realloc'ed to exactly cnt
   records on every edit) is a Gallina list whose length is cnt.  What is kept: linear search
   from the front with the NULL refusal of memrec_find_var, removal by shifting the tail down
   one place, in-place change, append at the end, the file-name store through
   spiftool_safe_strncpy(p->file, filename, sizeof(p->file)), the truncation of the line
   number to the width of the `line` member, NONULL(filename), the run-time gate
   DEBUG_LEVEL >= DEBUG_MEM in every wrapper, and the order of the tests in spifmem_realloc.

   The allocator underneath (malloc/calloc/realloc/free of libc) is an oracle: every call
   carries the address the allocator answered with.  The model keeps the allocator's live set
   (address, requested size) so that histories can be constrained by allocator sanity and so
   that the two expansions of the macros can be compared on it. *)
From LV Require Import Base.Res Gen.MemGen.
Local Open Scope Z_scope.

(* ------------------------------------------------------------------ the table *)
Record memrec : Type := mkrec { r_ptr : Z; r_size : Z; r_file : list Z; r_line : Z }.
Definition table := list memrec.      (* malloc_rec.ptrs[0 .. cnt-1]; cnt = length *)

(* NONULL(filename) *)
Definition nonull (f : option (list Z)) : list Z :=
  match f with Some s => s | None => null_fname end.

(* spiftool_safe_strncpy(p->file, filename, sizeof(p->file)): at most sizeof-1 bytes of the
   name, then a NUL; the text of the member afterwards (MemRecProofs.store_fname_is_strncpy
   relates this to the C13 model of that helper) *)
Definition store_fname (s : list Z) : list Z := firstn (Z.to_nat (spifmem_fname_cap - 1)) s.
(* p->line = line: unsigned long into spif_uint32_t *)
Definition store_line (line : Z) : Z := line mod 2 ^ spifmem_line_bits.

(* memrec_add_var: cnt++, realloc to cnt records, fill the last one *)
Definition memrec_add_var (t : table) (filename : list Z) (line ptr size : Z) : table :=
  t ++ [mkrec ptr size (store_fname filename) (store_line line)].

(* memrec_find_var: REQUIRE_RVAL(ptr != NULL, NULL); first record whose ptr matches *)
Fixpoint find_from (t : table) (ptr : Z) (i : nat) : option nat :=
  match t with
  | [] => None
  | r :: t' => if r_ptr r =? ptr then Some i else find_from t' ptr (S i)
  end.
Definition memrec_find_var (t : table) (ptr : Z) : option nat :=
  if ptr =? 0 then None else find_from t ptr 0.

(* memrec_rem_var: not found -> return; else --cnt, memmove(p, p + 1, cnt - (p - ptrs)) *)
Definition memrec_rem_var (t : table) (ptr : Z) : table :=
  match memrec_find_var t ptr with
  | None => t
  | Some i => firstn i t ++ skipn (S i) t
  end.

(* memrec_chg_var: not found -> return; else overwrite the four members in place *)
Definition memrec_chg_var (t : table) (filename : list Z) (line oldp newp size : Z) : table :=
  match memrec_find_var t oldp with
  | None => t
  | Some i => firstn i t ++ mkrec newp size (store_fname filename) (store_line line) :: skipn (S i) t
  end.

(* memrec_dump_pointers: the two numbers it reports (count, total of the sizes) *)
Definition memrec_dump (t : table) : Z * Z :=
  (Z.of_nat (length t), fold_left (fun a r => a + r_size r) t 0).

(* ------------------------------------------------------------------ the allocator oracle *)
Definition heap := list (Z * Z).       (* live blocks: address, requested size *)
Definition h_lookup (h : heap) (p : Z) : option Z :=
  match find (fun b => fst b =? p) h with Some b => Some (snd b) | None => None end.
Definition h_live (h : heap) (p : Z) : bool :=
  match h_lookup h p with Some _ => true | None => false end.
Definition h_remove (p : Z) (h : heap) : heap := filter (fun b => negb (fst b =? p)) h.

(* malloc(size) answered with ans (0 = failure) *)
Definition a_malloc (h : heap) (size ans : Z) : Z * heap :=
  if ans =? 0 then (0, h) else (ans, (ans, size) :: h).
(* free(p): NULL is allowed; anything else must be live *)
Definition a_free (h : heap) (p : Z) : res heap :=
  if p =? 0 then Ok h else if h_live h p then Ok (h_remove p h) else Fault Bad_free.
(* realloc(p, size), p != NULL, answered with ans (0 = failure, the old block stays) *)
Definition a_realloc (h : heap) (p size ans : Z) : res (Z * heap) :=
  if h_live h p then
    if ans =? 0 then Ok (0, h) else Ok (ans, (ans, size) :: h_remove p h)
  else Fault Bad_free.

(* ------------------------------------------------------------------ the wrappers *)
Record st : Type := mkst { s_lvl : Z; s_tab : table; s_heap : heap }.
(* DEBUG_LEVEL >= DEBUG_MEM *)
Definition tracking (lvl : Z) : bool := debug_mem <=? lvl.

Definition size_t (x : Z) : Z := x mod 2 ^ 64.

(* spifmem_malloc.  A NULL answer takes the ASSERT_RVAL exit (NULL returned, nothing recorded;
   at run-time level >= 1 that exit is libast_fatal_error - outside every valid history). *)
Definition spifmem_malloc (s : st) (filename : option (list Z)) (line size ans : Z) : Z * st :=
  let '(temp, h) := a_malloc (s_heap s) size ans in
  if temp =? 0 then (0, mkst (s_lvl s) (s_tab s) h)
  else if tracking (s_lvl s)
       then (temp, mkst (s_lvl s) (memrec_add_var (s_tab s) (nonull filename) line temp size) h)
       else (temp, mkst (s_lvl s) (s_tab s) h).

(* spifmem_calloc: total_size = size * count in size_t *)
Definition spifmem_calloc (s : st) (filename : option (list Z)) (line count size ans : Z) : Z * st :=
  let total := size_t (size * count) in
  let '(temp, h) := a_malloc (s_heap s) total ans in
  if temp =? 0 then (0, mkst (s_lvl s) (s_tab s) h)
  else if tracking (s_lvl s)
       then (temp, mkst (s_lvl s) (memrec_add_var (s_tab s) (nonull filename) line temp total) h)
       else (temp, mkst (s_lvl s) (s_tab s) h).

(* spifmem_free: if (ptr) { if (tracking) memrec_rem_var; free(ptr); } *)
Definition spifmem_free (s : st) (ptr : Z) : res st :=
  if ptr =? 0 then Ok s
  else
    let t := if tracking (s_lvl s) then memrec_rem_var (s_tab s) ptr else s_tab s in
    h <- a_free (s_heap s) ptr ;;
    Ok (mkst (s_lvl s) t h).

(* spifmem_realloc (after the C15 repair: a NULL pointer with size 0 yields NULL like the
   non-tracking REALLOC; the unchanged code called spifmem_malloc(.., 0) there) *)
Definition spifmem_realloc (s : st) (filename : option (list Z)) (line ptr size ans : Z) : res (Z * st) :=
  if ptr =? 0 then
    if size =? 0 then Ok (0, s) else Ok (spifmem_malloc s filename line size ans)
  else if size =? 0 then
    s' <- spifmem_free s ptr ;; Ok (0, s')
  else
    '(temp, h) <- a_realloc (s_heap s) ptr size ans ;;
    if temp =? 0 then Ok (0, mkst (s_lvl s) (s_tab s) h)
    else if tracking (s_lvl s)
         then Ok (temp, mkst (s_lvl s) (memrec_chg_var (s_tab s) (nonull filename) line ptr temp size) h)
         else Ok (temp, mkst (s_lvl s) (s_tab s) h).

(* the unchanged spifmem_realloc, kept for the refutation of macro equivalence on it *)
Definition spifmem_realloc_orig (s : st) (filename : option (list Z)) (line ptr size ans : Z) : res (Z * st) :=
  if ptr =? 0 then Ok (spifmem_malloc s filename line size ans)
  else spifmem_realloc s filename line ptr size ans.

(* spifmem_strdup: ASSERT_RVAL(str != NULL, NULL); len = strlen + 1;
   spifmem_malloc(NONULL(filename), line, len); strcpy *)
Definition spifmem_strdup (s : st) (filename : option (list Z)) (line : Z) (str : option (list Z)) (ans : Z) : Z * st :=
  match str with
  | None => (0, s)
  | Some b => spifmem_malloc s (Some (nonull filename)) line (Z.of_nat (length b) + 1) ans
  end.

(* ------------------------------------------------------------------ the macro block *)
(* non-tracking forms (DEBUG < DEBUG_MEM) *)
Definition plain_MALLOC (s : st) (size ans : Z) : Z * st :=
  let '(p, h) := a_malloc (s_heap s) size ans in (p, mkst (s_lvl s) (s_tab s) h).
Definition plain_CALLOC (s : st) (n esize ans : Z) : Z * st :=
  let '(p, h) := a_malloc (s_heap s) (size_t (n * esize)) ans in (p, mkst (s_lvl s) (s_tab s) h).
(* ((sz) ? ((mem) ? realloc(mem, sz) : malloc(sz)) : ((mem) ? (free(mem), NULL) : NULL)) *)
Definition plain_REALLOC (s : st) (mem size ans : Z) : res (Z * st) :=
  if negb (size =? 0) then
    if negb (mem =? 0) then
      '(p, h) <- a_realloc (s_heap s) mem size ans ;; Ok (p, mkst (s_lvl s) (s_tab s) h)
    else Ok (plain_MALLOC s size ans)
  else
    if negb (mem =? 0) then
      h <- a_free (s_heap s) mem ;; Ok (0, mkst (s_lvl s) (s_tab s) h)
    else Ok (0, s).
(* do { free(ptr); (ptr) = NULL; } while (0) *)
Definition plain_FREE (s : st) (ptr : Z) : res st :=
  h <- a_free (s_heap s) ptr ;; Ok (mkst (s_lvl s) (s_tab s) h).
(* strdup(s), the argument cast to a char pointer *)
Definition plain_STRDUP (s : st) (str : option (list Z)) (ans : Z) : res (Z * st) :=
  match str with
  | None => Fault Null_deref
  | Some b => Ok (plain_MALLOC s (Z.of_nat (length b) + 1) ans)
  end.

(* the expansion is chosen by the compile-time level `build` (DEBUG in config.h) *)
Definition tracking_build (build : Z) : bool := debug_mem <=? build.

(* ------------------------------------------------------------------ histories *)
Inductive op : Type :=
| SetLevel (l : Z)                                              (* libast_debug_level = l *)
| Malloc (file : option (list Z)) (line size ans : Z)           (* spifmem_malloc *)
| Calloc (file : option (list Z)) (line count size ans : Z)     (* spifmem_calloc *)
| Realloc (file : option (list Z)) (line ptr size ans : Z)      (* spifmem_realloc *)
| Strdup (file : option (list Z)) (line : Z) (str : option (list Z)) (ans : Z)
| Free (ptr : Z)                                                (* spifmem_free *)
| MMalloc (file : list Z) (line size ans : Z)                   (* MALLOC(size) at file:line *)
| MCalloc (file : list Z) (line n esize ans : Z)                (* CALLOC(type, n), sizeof(type) = esize *)
| MRealloc (file : list Z) (line ptr size ans : Z)              (* REALLOC(ptr, size) *)
| MStrdup (file : list Z) (line : Z) (str : option (list Z)) (ans : Z)
| MFree (ptr : Z)                                               (* FREE(ptr) *)
| Foreign (size ans : Z)                                        (* malloc() behind the tracker's back *)
| Dump.                                                         (* spifmem_dump_mem_tables *)

Inductive outcome : Type :=
| RetPtr (p : Z)
| RetVoid
| Dumped (cnt total : Z).

Definition step (build : Z) (s : st) (o : op) : res (outcome * st) :=
  match o with
  | SetLevel l => Ok (RetVoid, mkst l (s_tab s) (s_heap s))
  | Malloc f l sz a => let '(p, s') := spifmem_malloc s f l sz a in Ok (RetPtr p, s')
  | Calloc f l n sz a => let '(p, s') := spifmem_calloc s f l n sz a in Ok (RetPtr p, s')
  | Realloc f l p sz a => '(q, s') <- spifmem_realloc s f l p sz a ;; Ok (RetPtr q, s')
  | Strdup f l str a => let '(p, s') := spifmem_strdup s f l str a in Ok (RetPtr p, s')
  | Free p => s' <- spifmem_free s p ;; Ok (RetVoid, s')
  | MMalloc f l sz a =>
      let '(p, s') := if tracking_build build then spifmem_malloc s (Some f) l sz a else plain_MALLOC s sz a in
      Ok (RetPtr p, s')
  | MCalloc f l n es a =>
      let '(p, s') := if tracking_build build then spifmem_calloc s (Some f) l n es a else plain_CALLOC s n es a in
      Ok (RetPtr p, s')
  | MRealloc f l p sz a =>
      '(q, s') <- (if tracking_build build then spifmem_realloc s (Some f) l p sz a else plain_REALLOC s p sz a) ;;
      Ok (RetPtr q, s')
  | MStrdup f l str a =>
      '(q, s') <- (if tracking_build build then Ok (spifmem_strdup s (Some f) l str a) else plain_STRDUP s str a) ;;
      Ok (RetPtr q, s')
  | MFree p =>
      s' <- (if tracking_build build then spifmem_free s p else plain_FREE s p) ;;
      Ok (RetPtr 0, s')                       (* (ptr) = NULL in both forms *)
  | Foreign sz a => let '(p, h) := a_malloc (s_heap s) sz a in Ok (RetPtr p, mkst (s_lvl s) (s_tab s) h)
  | Dump => let '(c, t) := memrec_dump (s_tab s) in Ok (Dumped c t, s)
  end.

(* run a history; the driver prints every outcome with the record count after it *)
Fixpoint run (build : Z) (s : st) (ops : list op) : res (list (outcome * Z) * st) :=
  match ops with
  | [] => Ok ([], s)
  | o :: rest =>
      '(out, s') <- step build s o ;;
      '(outs, s'') <- run build s' rest ;;
      Ok ((out, Z.of_nat (length (s_tab s'))) :: outs, s'')
  end.

Definition init_state (lvl : Z) : st := mkst lvl [] [].

(* what a client of the macros can observe of one call / of a history: the value handed back
   and the allocator's live set (not the table, not the level) *)
Definition obs (r : res (outcome * st)) : res (outcome * heap) :=
  match r with Ok (o, s) => Ok (o, s_heap s) | Fault f => Fault f end.
Definition obs_run (r : res (list (outcome * Z) * st)) : res (list outcome * heap) :=
  match r with Ok (outs, s) => Ok (map fst outs, s_heap s) | Fault f => Fault f end.
(* a use of MALLOC / CALLOC / REALLOC / FREE, or of STRDUP on an actual string *)
Definition macro_op (o : op) : Prop :=
  match o with
  | MMalloc _ _ _ _ | MCalloc _ _ _ _ _ | MRealloc _ _ _ _ _ | MFree _ => True
  | MStrdup _ _ str _ => str <> None
  | _ => False
  end.
(* ... or a change of the run-time level, or an allocation elsewhere in the program *)
Definition macro_or_neutral (o : op) : Prop :=
  match o with
  | SetLevel _ | Foreign _ _ => True
  | _ => macro_op o
  end.
(* the macro REALLOC with the unchanged spifmem_realloc underneath *)
Definition step_MRealloc_orig (build : Z) (s : st) (f : list Z) (l p sz a : Z) : res (outcome * st) :=
  '(q, s') <- (if tracking_build build then spifmem_realloc_orig s (Some f) l p sz a else plain_REALLOC s p sz a) ;;
  Ok (RetPtr q, s').

(* ------------------------------------------------------------------ specification *)
(* what the tracker is for: a finite map  address -> (requested size, file name cut to
   SPIFMEM_FNAME_LEN characters, line)  of the live tracked blocks; an association list with
   unique keys (insert deletes first) *)
Definition info := (Z * list Z * Z)%type.
Definition smap := list (Z * info).
Definition sm_lookup (p : Z) (m : smap) : option info :=
  match find (fun e => fst e =? p) m with Some e => Some (snd e) | None => None end.
Definition sm_delete (p : Z) (m : smap) : smap := filter (fun e => negb (fst e =? p)) m.
Definition sm_insert (p : Z) (i : info) (m : smap) : smap := (p, i) :: sm_delete p m.

(* a record seen as a map entry *)
Definition info_of (r : memrec) : info := (r_size r, r_file r, r_line r).
Definition entry_of (r : memrec) : Z * info := (r_ptr r, info_of r).

Definition file20 (f : option (list Z)) : list Z :=
  firstn (Z.to_nat spifmem_fname_len) (nonull f).

(* blocks that are live but were allocated behind the tracker's back: address, size *)
Record spec_st : Type := mksp { sp_map : smap; sp_foreign : heap }.

Definition spec_alloc (sp : spec_st) (f : option (list Z)) (line size ans : Z) : spec_st :=
  mksp (sm_insert ans (size, file20 f, line) (sp_map sp)) (sp_foreign sp).
Definition spec_free (sp : spec_st) (p : Z) : spec_st :=
  mksp (sm_delete p (sp_map sp)) (h_remove p (sp_foreign sp)).
Definition spec_realloc (sp : spec_st) (f : option (list Z)) (line p size ans : Z) : spec_st :=
  if p =? 0 then (if size =? 0 then sp else spec_alloc sp f line size ans)
  else if size =? 0 then spec_free sp p
  else match sm_lookup p (sp_map sp) with
       | Some _ => mksp (sm_insert ans (size, file20 f, line) (sm_delete p (sp_map sp))) (sp_foreign sp)
       | None => mksp (sp_map sp) ((ans, size) :: h_remove p (sp_foreign sp))
       end.

(* one tracked call with tracking active (both the direct calls and, in a tracking build, the
   macros) *)
Definition spec_step (sp : spec_st) (o : op) : spec_st :=
  match o with
  | SetLevel _ | Dump => sp
  | Malloc f l sz a => spec_alloc sp f l sz a
  | Calloc f l n sz a => spec_alloc sp f l (size_t (sz * n)) a
  | Realloc f l p sz a => spec_realloc sp f l p sz a
  | Strdup f l (Some b) a => spec_alloc sp f l (Z.of_nat (length b) + 1) a
  | Strdup _ _ None _ => sp
  | Free p => spec_free sp p
  | MMalloc f l sz a => spec_alloc sp (Some f) l sz a
  | MCalloc f l n es a => spec_alloc sp (Some f) l (size_t (es * n)) a
  | MRealloc f l p sz a => spec_realloc sp (Some f) l p sz a
  | MStrdup f l (Some b) a => spec_alloc sp (Some f) l (Z.of_nat (length b) + 1) a
  | MStrdup _ _ None _ => sp
  | MFree p => spec_free sp p
  | Foreign sz a => mksp (sp_map sp) ((a, sz) :: sp_foreign sp)
  end.
Definition spec_run (ops : list op) : spec_st := fold_left spec_step ops (mksp [] []).

(* "the table, as a set, equals the map": no address twice, a record is in the table exactly
   when the map holds its contents under its address; and the allocator's live set is the
   tracked blocks (with the recorded size) plus the foreign ones *)
Definition mirrors (t : table) (h : heap) (sp : spec_st) : Prop :=
  NoDup (map r_ptr t) /\
  (forall r, In r t <-> sm_lookup (r_ptr r) (sp_map sp) = Some (info_of r)) /\
  (forall p, h_lookup h p =
             match sm_lookup p (sp_map sp) with
             | Some i => Some (fst (fst i))
             | None => h_lookup (sp_foreign sp) p
             end).

Definition direct_op (o : op) : Prop :=
  match o with
  | MMalloc _ _ _ _ | MCalloc _ _ _ _ _ | MRealloc _ _ _ _ _ | MStrdup _ _ _ _ | MFree _ => False
  | _ => True
  end.
Definition not_foreign (o : op) : Prop := match o with Foreign _ _ => False | _ => True end.

(* allocator sanity and client sanity of one call, relative to the allocator's live set:
   a returned address is non-NULL and not live (realloc: the old address or such an address);
   only NULL or live blocks are freed or resized; line numbers fit the `line` member; the
   run-time level stays at or above DEBUG_MEM *)
Definition fresh (h : heap) (a : Z) : Prop := a <> 0 /\ h_live h a = false.
Definition line_ok (l : Z) : Prop := 0 <= l < 2 ^ spifmem_line_bits.
Definition realloc_ok (h : heap) (p sz a : Z) : Prop :=
  (p = 0 -> sz <> 0 -> fresh h a) /\
  (p <> 0 -> h_live h p = true /\ (sz <> 0 -> a = p \/ fresh h a)).
Definition valid_op (h : heap) (o : op) : Prop :=
  match o with
  | SetLevel l => debug_mem <= l
  | Dump => True
  | Malloc _ l _ a | Calloc _ l _ _ a | MMalloc _ l _ a | MCalloc _ l _ _ a => line_ok l /\ fresh h a
  | Strdup _ l str a | MStrdup _ l str a => line_ok l /\ fresh h a /\ str <> None
  | Realloc _ l p sz a | MRealloc _ l p sz a => line_ok l /\ realloc_ok h p sz a
  | Free p | MFree p => p = 0 \/ h_live h p = true
  | Foreign _ a => fresh h a
  end.

(* the boolean form used by the model driver to refuse insane scripts *)
Definition freshb (h : heap) (a : Z) : bool := negb (a =? 0) && negb (h_live h a).
Definition valid_opb (h : heap) (o : op) : bool :=
  match o with
  | SetLevel _ | Dump => true
  | Malloc _ _ _ a | Calloc _ _ _ _ a | MMalloc _ _ _ a | MCalloc _ _ _ _ a
  | Strdup _ _ _ a | MStrdup _ _ _ a | Foreign _ a => freshb h a
  | Realloc _ _ p sz a | MRealloc _ _ p sz a =>
      if p =? 0 then (sz =? 0) || freshb h a
      else if sz =? 0 then true else (a =? p) || freshb h a
  | Free _ | MFree _ => true
  end.

(* a history is valid when every call is sane relative to the allocator state it meets *)
Fixpoint valid_history (build : Z) (s : st) (ops : list op) : Prop :=
  match ops with
  | [] => True
  | o :: rest =>
      valid_op (s_heap s) o /\
      match step build s o with
      | Ok (_, s') => valid_history build s' rest
      | Fault _ => False
      end
  end.
Fixpoint sane_script (build : Z) (s : st) (ops : list op) : bool :=
  match ops with
  | [] => true
  | o :: rest =>
      valid_opb (s_heap s) o &&
      match step build s o with
      | Ok (_, s') => sane_script build s' rest
      | Fault _ => true
      end
  end.
